(* AutomatonProofs.v — C18: every shipped automaton and combinator accepts exactly its
   specified language and its pruning hints are sound, for all strings and for all
   component automata with sound hints. *)
Require Import FstV.Base FstV.Automaton.

Lemma run_cons A s b w : run A s (b :: w) = run A (accept A s b) w.
Proof. reflexivity. Qed.
Lemma run_app A s u v : run A s (u ++ v) = run A (run A s u) v.
Proof. unfold run. apply fold_left_app. Qed.

Definition dead (A : automaton) (s : St A) : Prop := forall w, is_match A (run A s w) = false.
Definition live_forever (A : automaton) (s : St A) : Prop := forall w, is_match A (run A s w) = true.
Lemma dead_step A s b : dead A s -> dead A (accept A s b).
Proof. intros H w. apply (H (b :: w)). Qed.
Lemma live_step A s b : live_forever A s -> live_forever A (accept A s b).
Proof. intros H w. apply (H (b :: w)). Qed.

(* ---------- Str ---------- *)
Lemma str_run_none q w : run (str_aut q) None w = None.
Proof. induction w as [|b w IH]; [reflexivity|]. rewrite run_cons. exact IH. Qed.

Lemma list_eqb_N_refl l : list_eqb N.eqb l l = true.
Proof. induction l as [|x l IH]; cbn; [reflexivity|]. now rewrite N.eqb_refl. Qed.
Lemma list_eqb_N_eq a b : list_eqb N.eqb a b = true <-> a = b.
Proof.
  revert b; induction a as [|x a IH]; intros [|y b]; cbn; try (split; congruence).
  rewrite andb_true_iff, N.eqb_eq, IH. split; [intros [-> ->]; reflexivity|intros H; inversion H; auto].
Qed.

Lemma str_run pre suf w :
  is_match (str_aut (pre ++ suf)) (run (str_aut (pre ++ suf)) (Some (length pre)) w) = list_eqb N.eqb suf w.
Proof.
  revert pre suf; induction w as [|b w IH]; intros pre suf.
  - cbn. rewrite app_length. destruct suf; cbn; [apply Nat.eqb_eq; lia|apply Nat.eqb_neq; lia].
  - rewrite run_cons. cbn [accept str_aut].
    rewrite nth_error_app2 by lia. rewrite Nat.sub_diag.
    destruct suf as [|c suf]; cbn [nth_error list_eqb].
    + rewrite str_run_none. reflexivity.
    + destruct (N.eqb c b) eqn:E; cbn [andb].
      * replace (pre ++ c :: suf) with ((pre ++ [c]) ++ suf) by (rewrite <- app_assoc; reflexivity).
        replace (S (length pre)) with (length (pre ++ [c])) by (rewrite app_length; cbn; lia).
        apply IH.
      * rewrite str_run_none. reflexivity.
Qed.

Theorem str_accepts q w : accepts (str_aut q) w = list_eqb N.eqb q w.
Proof. exact (str_run [] q w). Qed.

Theorem str_can_sound q : can_match_sound (str_aut q).
Proof. intros [p|] H w; [discriminate|]. now rewrite str_run_none. Qed.
Theorem str_will_sound q : will_always_sound (str_aut q).
Proof. intros s H; discriminate. Qed.

(* ---------- Subsequence ---------- *)
Lemma is_subseq_cons c q b w :
  is_subseq (c :: q) (b :: w) = if N.eqb b c then is_subseq q w else is_subseq (c :: q) w.
Proof. reflexivity. Qed.

Lemma subseq_run pre suf w :
  is_match (subseq_aut (pre ++ suf)) (run (subseq_aut (pre ++ suf)) (length pre) w) = is_subseq suf w.
Proof.
  revert pre suf; induction w as [|b w IH]; intros pre suf.
  - cbn. rewrite app_length. destruct suf; cbn; [apply Nat.eqb_eq; lia|apply Nat.eqb_neq; lia].
  - rewrite run_cons. cbn [accept subseq_aut]. rewrite app_length.
    destruct suf as [|c suf].
    + cbn [length]. rewrite ?Nat.add_0_r, Nat.eqb_refl, IH. reflexivity.
    + assert (Nat.eqb (length pre) (length pre + length (c :: suf)) = false) as ->
        by (apply Nat.eqb_neq; cbn; lia).
      rewrite nth_error_app2 by lia. rewrite Nat.sub_diag. cbn [nth_error].
      rewrite is_subseq_cons. destruct (N.eqb b c).
      * replace (pre ++ c :: suf) with ((pre ++ [c]) ++ suf) by (rewrite <- app_assoc; reflexivity).
        replace (S (length pre)) with (length (pre ++ [c])) by (rewrite app_length; cbn; lia).
        apply IH.
      * apply IH.
Qed.

Theorem subseq_accepts q w : accepts (subseq_aut q) w = is_subseq q w.
Proof. exact (subseq_run [] q w). Qed.

(* reachable states never exceed the pattern length: the index `subseq[state]` cannot panic *)
Lemma subseq_state_le q s w : (s <= length q)%nat -> (run (subseq_aut q) s w <= length q)%nat.
Proof.
  revert s; induction w as [|b w IH]; intros s H; [exact H|].
  rewrite run_cons. apply IH. cbn [accept subseq_aut].
  destruct (Nat.eqb s (length q)) eqn:E; [exact H|]. apply Nat.eqb_neq in E.
  destruct (nth_error q s) as [c|]; [|exact H]. destruct (N.eqb b c); lia.
Qed.

Lemma subseq_run_full q w : run (subseq_aut q) (length q) w = length q.
Proof.
  induction w as [|b w IH]; [reflexivity|]. rewrite run_cons. cbn [accept subseq_aut].
  rewrite Nat.eqb_refl. exact IH.
Qed.

Theorem subseq_can_sound q : can_match_sound (subseq_aut q).
Proof. intros s H; discriminate. Qed.
Theorem subseq_will_sound q : will_always_sound (subseq_aut q).
Proof.
  intros s H w. cbn in H. apply Nat.eqb_eq in H. subst s.
  rewrite subseq_run_full. cbn. apply Nat.eqb_refl.
Qed.

(* ---------- AlwaysMatch ---------- *)
Theorem always_accepts w : accepts always_aut w = true.
Proof. reflexivity. Qed.
Theorem always_can_sound : can_match_sound always_aut.
Proof. intros s H; discriminate. Qed.
Theorem always_will_sound : will_always_sound always_aut.
Proof. intros s _ w. reflexivity. Qed.

(* ---------- generic combinators ---------- *)
Section Combinators.
Variables A B : automaton.

(* StartsWith *)
Lemma sw_run_none w : run (starts_with_aut A) None w = None.
Proof. induction w as [|b w IH]; [reflexivity|]. rewrite run_cons. exact IH. Qed.

Definition sw_inj (i : St A) : St (starts_with_aut A) := if is_match A i then None else Some i.

Lemma existsb_map {X Y} (f : X -> Y) p l : existsb p (map f l) = existsb (fun x => p (f x)) l.
Proof. induction l as [|x l IH]; cbn; [reflexivity|]. now rewrite IH. Qed.

Lemma sw_run i w :
  is_match (starts_with_aut A) (run (starts_with_aut A) (sw_inj i) w)
  = existsb (fun p => is_match A (run A i p)) (prefixes w).
Proof.
  revert i; induction w as [|b w IH]; intros i.
  - cbn. unfold sw_inj. destruct (is_match A i); reflexivity.
  - cbn [prefixes existsb]. rewrite existsb_map. cbn [run fold_left].
    unfold sw_inj at 1. destruct (is_match A i) eqn:E.
    + fold (run (starts_with_aut A) (accept (starts_with_aut A) None b) w).
      cbn [accept starts_with_aut]. rewrite sw_run_none. reflexivity.
    + cbn [orb]. fold (run (starts_with_aut A) (accept (starts_with_aut A) (Some i) b) w).
      change (accept (starts_with_aut A) (Some i) b) with (sw_inj (accept A i b)).
      rewrite IH. reflexivity.
Qed.

Theorem sw_accepts w :
  accepts (starts_with_aut A) w = existsb (accepts A) (prefixes w).
Proof. exact (sw_run (start A) w). Qed.

Lemma sw_dead i : dead A i -> dead (starts_with_aut A) (Some i).
Proof.
  intros H w; revert i H; induction w as [|b w IH]; intros i H; [reflexivity|].
  rewrite run_cons. cbn [accept starts_with_aut].
  pose proof (H [b]) as Hb. cbn in Hb. rewrite Hb. apply IH. now apply dead_step.
Qed.

Theorem sw_can_sound : can_match_sound A -> can_match_sound (starts_with_aut A).
Proof. intros HA [i|] H; [|discriminate]. apply sw_dead. intros w. now apply HA. Qed.
Theorem sw_will_sound : will_always_sound (starts_with_aut A).
Proof. intros [i|] H w; [discriminate|]. now rewrite sw_run_none. Qed.

(* products *)
Lemma union_run s w :
  run (union_aut A B) s w = (run A (fst s) w, run B (snd s) w).
Proof. revert s; induction w as [|b w IH]; intros [a b']; [reflexivity|]. rewrite !run_cons. apply IH. Qed.
Lemma inter_run s w :
  run (inter_aut A B) s w = (run A (fst s) w, run B (snd s) w).
Proof. revert s; induction w as [|b w IH]; intros [a b']; [reflexivity|]. rewrite !run_cons. apply IH. Qed.

Theorem union_accepts w : accepts (union_aut A B) w = accepts A w || accepts B w.
Proof. unfold accepts. rewrite union_run. reflexivity. Qed.
Theorem inter_accepts w : accepts (inter_aut A B) w = accepts A w && accepts B w.
Proof. unfold accepts. rewrite inter_run. reflexivity. Qed.

Theorem union_can_sound : can_match_sound A -> can_match_sound B -> can_match_sound (union_aut A B).
Proof.
  intros HA HB [a b] H w. cbn in H. apply orb_false_iff in H as [Ha Hb].
  rewrite union_run. cbn. rewrite (HA a Ha), (HB b Hb). reflexivity.
Qed.
Theorem union_will_sound : will_always_sound A -> will_always_sound B -> will_always_sound (union_aut A B).
Proof.
  intros HA HB [a b] H w. cbn in H. rewrite union_run. cbn. apply orb_true_iff.
  apply orb_true_iff in H as [Ha|Hb]; [left; now apply HA|right; now apply HB].
Qed.
Theorem inter_can_sound : can_match_sound A -> can_match_sound B -> can_match_sound (inter_aut A B).
Proof.
  intros HA HB [a b] H w. cbn in H. rewrite inter_run. cbn. apply andb_false_iff.
  apply andb_false_iff in H as [Ha|Hb]; [left; now apply HA|right; now apply HB].
Qed.
Theorem inter_will_sound : will_always_sound A -> will_always_sound B -> will_always_sound (inter_aut A B).
Proof.
  intros HA HB [a b] H w. cbn in H. apply andb_true_iff in H as [Ha Hb].
  rewrite inter_run. cbn. rewrite (HA a Ha), (HB b Hb). reflexivity.
Qed.

(* complement *)
Lemma compl_run s w : run (compl_aut A) s w = run A s w.
Proof. reflexivity. Qed.
Theorem compl_accepts w : accepts (compl_aut A) w = negb (accepts A w).
Proof. reflexivity. Qed.
Theorem compl_can_sound : will_always_sound A -> can_match_sound (compl_aut A).
Proof.
  intros HA s H w. cbn in H. apply negb_false_iff in H.
  change (negb (is_match A (run A s w)) = false). now rewrite (HA s H).
Qed.
Theorem compl_will_sound : can_match_sound A -> will_always_sound (compl_aut A).
Proof.
  intros HA s H w. cbn in H. apply negb_true_iff in H.
  change (negb (is_match A (run A s w)) = true). now rewrite (HA s H).
Qed.
End Combinators.

(* ---------- every expression ---------- *)
Fixpoint tables_sound (e : aexp) : Prop :=
  match e with
  | ATable T => can_match_sound (table_aut T) /\ will_always_sound (table_aut T)
  | AStartsWith a | ACompl a => tables_sound a
  | AUnion a b | AInter a b => tables_sound a /\ tables_sound b
  | _ => True
  end.

Lemma existsb_ext {X} (f g : X -> bool) l : (forall x, f x = g x) -> existsb f l = existsb g l.
Proof. intros H; induction l as [|x l IH]; cbn; [reflexivity|]. now rewrite H, IH. Qed.

Theorem sem_correct e : forall w, accepts (denote e) w = sem e w.
Proof.
  induction e as [q|q| |T|a IH|a IHa b IHb|a IHa b IHb|a IH]; intros w; cbn [denote sem].
  - apply str_accepts.
  - apply subseq_accepts.
  - reflexivity.
  - reflexivity.
  - rewrite sw_accepts. apply existsb_ext, IH.
  - now rewrite union_accepts, IHa, IHb.
  - now rewrite inter_accepts, IHa, IHb.
  - now rewrite compl_accepts, IH.
Qed.

Theorem hints_sound e : tables_sound e -> can_match_sound (denote e) /\ will_always_sound (denote e).
Proof.
  induction e as [q|q| |T|a IH|a IHa b IHb|a IHa b IHb|a IH]; cbn [denote tables_sound]; intros H.
  - split; [apply str_can_sound|apply str_will_sound].
  - split; [apply subseq_can_sound|apply subseq_will_sound].
  - split; [apply always_can_sound|apply always_will_sound].
  - exact H.
  - destruct (IH H). split; [now apply sw_can_sound|apply sw_will_sound].
  - destruct H as [Ha Hb]. destruct (IHa Ha), (IHb Hb). split; [now apply union_can_sound|now apply union_will_sound].
  - destruct H as [Ha Hb]. destruct (IHa Ha), (IHb Hb). split; [now apply inter_can_sound|now apply inter_will_sound].
  - destruct (IH H). split; [now apply compl_can_sound|now apply compl_will_sound].
Qed.

Theorem no_eof e : no_eof_hook (denote e).
Proof. destruct e; intros s; reflexivity. Qed.

(* "prefix accepted by A" in the words of the property *)
Lemma existsb_prefixes_spec {X} (p : list X -> bool) w :
  existsb p (prefixes w) = true <-> exists u v, w = u ++ v /\ p u = true.
Proof.
  revert p; induction w as [|x w IH]; intros p; cbn [prefixes existsb].
  - rewrite orb_false_r. split.
    + intros H. exists [], []. auto.
    + intros (u & v & E & H). symmetry in E. apply app_eq_nil in E as [-> _]. exact H.
  - rewrite orb_true_iff. rewrite (existsb_map (cons x)). rewrite IH. split.
    + intros [H|(u & v & E & H)]; [exists [], (x :: w); auto|]. exists (x :: u), v. subst; auto.
    + intros ([|y u] & v & E & H); [left; exact H|]. right. cbn in E. inversion E; subst. eauto.
Qed.
