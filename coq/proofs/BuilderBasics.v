(* BuilderBasics.v — basic facts about the builder model (Builder.v) and the registry model
   (Registry.v): ordering checks and rejected calls (C06), equality of the front ends (C15),
   soundness / completeness of the node cache and the trie bound on written nodes (C12). *)
Require Import FstV.Base FstV.Pack FstV.Node FstV.Registry FstV.Builder FstV.Reader FstV.Automaton FstV.Fst.
Require Import FstV.Generated.SrcParams.
Require Import Coq.FSets.FMapPositive.

(* ================= order on keys ================= *)
Definition klt (a b : key) : Prop := lex_cmp a b = Lt.
Definition kle (a b : key) : Prop := lex_cmp a b <> Gt.

Lemma lex_cmp_gt_lt a b : lex_cmp a b = Gt <-> lex_cmp b a = Lt.
Proof. rewrite (lex_cmp_antisym b a). destruct (lex_cmp b a); cbn; split; congruence. Qed.
Lemma klt_trans a b c : klt a b -> klt b c -> klt a c.
Proof. apply lex_cmp_trans_lt. Qed.
Lemma klt_irrefl a : ~ klt a a.
Proof. unfold klt. rewrite lex_cmp_refl. discriminate. Qed.
Lemma kle_refl a : kle a a.
Proof. unfold kle. rewrite lex_cmp_refl. discriminate. Qed.
Lemma kle_cases a b : kle a b <-> klt a b \/ a = b.
Proof.
  unfold kle, klt. rewrite <- lex_cmp_eq. destruct (lex_cmp a b); split; try congruence; auto.
  intros [H|H]; discriminate.
Qed.
Lemma klt_kle a b : klt a b -> kle a b.
Proof. intros H. apply kle_cases. auto. Qed.
Lemma nkle_klt a b : ~ kle a b <-> klt b a.
Proof.
  unfold kle, klt. rewrite <- lex_cmp_gt_lt. destruct (lex_cmp a b); split; try congruence; intros H; exfalso; apply H; discriminate.
Qed.
Lemma klt_kle_trans a b c : klt a b -> kle b c -> klt a c.
Proof. intros H1 H. apply kle_cases in H as [H| <-]; [eapply klt_trans; eauto|auto]. Qed.
Lemma kle_trans a b c : kle a b -> kle b c -> kle a c.
Proof.
  intros H1 H2. apply kle_cases in H1 as [H1| ->]; [|exact H2].
  apply klt_kle. eapply klt_kle_trans; eauto.
Qed.
Lemma kle_total a b : kle a b \/ klt b a.
Proof. unfold kle, klt. rewrite <- lex_cmp_gt_lt. destruct (lex_cmp a b); auto; left; discriminate. Qed.
Lemma key_ltb_klt a b : key_ltb a b = true <-> klt a b.
Proof. unfold key_ltb, klt. destruct (lex_cmp a b); split; congruence. Qed.
Lemma key_leb_kle a b : key_leb a b = true <-> kle a b.
Proof. unfold key_leb, kle. destruct (lex_cmp a b); split; congruence. Qed.
Lemma key_ltb_false_kle a b : key_ltb a b = false <-> kle b a.
Proof.
  rewrite <- not_true_iff_false, key_ltb_klt, <- nkle_klt.
  destruct (kle_total b a) as [H|H]; [tauto|]. apply nkle_klt in H. tauto.
Qed.
Lemma key_ltb_irrefl a : key_ltb a a = false.
Proof. unfold key_ltb. now rewrite lex_cmp_refl. Qed.

(* ================= the model never produces an [Err] of its own ================= *)
Definition noerr {A} (r : res A) : Prop := forall e, r <> Err e.

Lemma noerr_ok {A} (a : A) : noerr (Ok a).
Proof. intros e; discriminate. Qed.
Lemma noerr_panic {A} : noerr (@Panic A).
Proof. intros e; discriminate. Qed.
Lemma noerr_bind {A B} (r : res A) (f : A -> res B) :
  noerr r -> (forall a, noerr (f a)) -> noerr (bind r f).
Proof. intros H1 H2. destruct r; cbn; auto. exfalso. eapply H1; eauto. intros e'; discriminate. Qed.
#[local] Hint Resolve noerr_ok noerr_panic : noerr.

Lemma noerr_csub a b : noerr (csub a b).
Proof. unfold csub. destruct (b <=? a); auto with noerr. Qed.
Lemma noerr_delta_of a b : noerr (delta_of a b).
Proof. unfold delta_of. destruct (_ =? _); auto using noerr_csub with noerr. Qed.
Lemma noerr_pack_uint_in a b : noerr (pack_uint_in a b).
Proof. unfold pack_uint_in. destruct (_ && _); auto with noerr. Qed.
Lemma noerr_pack_delta_size a b : noerr (pack_delta_size a b).
Proof. unfold pack_delta_size. apply noerr_bind; auto using noerr_delta_of with noerr. Qed.
Lemma noerr_pack_delta_in a b c : noerr (pack_delta_in a b c).
Proof. unfold pack_delta_in. apply noerr_bind; auto using noerr_delta_of, noerr_pack_uint_in. Qed.
Lemma noerr_res_map {A B} (f : A -> res B) l : (forall x, noerr (f x)) -> noerr (res_map f l).
Proof.
  intros H. induction l as [|x l IH]; cbn [res_map]; auto with noerr.
  apply noerr_bind; auto. intros y. apply noerr_bind; auto with noerr.
Qed.
Lemma noerr_if {A} (c : bool) (x y : res A) : noerr x -> noerr y -> noerr (if c then x else y).
Proof. destruct c; auto. Qed.

Ltac noerr_tac :=
  lazymatch goal with
  | |- noerr (bind _ _) => apply noerr_bind; [noerr_tac | intros ?; noerr_tac]
  | |- noerr (if _ then _ else _) => apply noerr_if; noerr_tac
  | |- noerr (Ok _) => apply noerr_ok
  | |- noerr Panic => apply noerr_panic
  | |- noerr (res_map _ _) => apply noerr_res_map; intros ?; noerr_tac
  | |- noerr (pack_uint_in _ _) => apply noerr_pack_uint_in
  | |- noerr (pack_delta_size _ _) => apply noerr_pack_delta_size
  | |- noerr (pack_delta_in _ _ _) => apply noerr_pack_delta_in
  | |- _ => idtac
  end.

Lemma noerr_compile_otn i : noerr (compile_otn i).
Proof. unfold compile_otn. noerr_tac. Qed.
Lemma noerr_compile_ot a t : noerr (compile_ot a t).
Proof. unfold compile_ot. noerr_tac. Qed.
Lemma noerr_compile_any v a n : noerr (compile_any v a n).
Proof. unfold compile_any. noerr_tac. Qed.
Lemma noerr_compile_node v la a n : noerr (compile_node v la a n).
Proof.
  unfold compile_node. destruct (n_trans n) as [|t [|t' r]]; noerr_tac;
    auto using noerr_compile_any, noerr_compile_otn, noerr_compile_ot.
Qed.

(* ================= b_last is only touched by check_last_key; no Err below it ================= *)
Lemma compile_facts b n : b_last (fst (compile b n)) = b_last b /\ noerr (snd (compile b n)).
Proof.
  unfold compile. destruct (_ && _ && _); [split; [reflexivity|apply noerr_ok]|].
  destruct (reg_entry (b_reg b) n) as [reg0 e].
  pose proof (noerr_compile_node (b_version b) (b_last_addr b) (b_count b) n) as Hn.
  destruct e; cbn [fst snd b_last]; try (split; [reflexivity|apply noerr_ok]);
    destruct (compile_node _ _ _ _); cbn [fst snd b_last b_write];
    (split; [reflexivity|]); auto with noerr; exfalso; eapply Hn; eauto.
Qed.

Lemma cfr_facts rstack : forall b keep addr,
  b_last (fst (compile_from_rev b rstack keep addr)) = b_last b /\
  noerr (snd (compile_from_rev b rstack keep addr)).
Proof.
  induction rstack as [|u rest IH]; intros b keep addr.
  - cbn. split; auto with noerr.
  - cbn [compile_from_rev]. destruct (Nat.ltb _ _); [|cbn; split; auto with noerr].
    assert (Hn : noerr (match addr with
             | None => match u_last u with None => Ok (u_node u) | Some _ => Panic end
             | Some a => Ok (freeze u a) end)).
    { destruct addr; [|destruct (u_last u)]; auto with noerr. }
    destruct (match addr with None => _ | Some a => _ end) as [n|x|];
      [| exfalso; eapply Hn; eauto | cbn; split; auto with noerr].
    pose proof (compile_facts b n) as [H1 H2].
    destruct (compile b n) as [b' r]. cbn [fst snd] in *.
    destruct r as [a|x|]; [| exfalso; eapply H2; eauto | cbn; split; auto with noerr].
    destruct (a =? NONE_ADDRESS); [cbn; split; auto with noerr|].
    specialize (IH b' keep (Some a)). rewrite H1 in IH. exact IH.
Qed.

Lemma compile_from_facts b i :
  b_last (fst (compile_from b i)) = b_last b /\ noerr (snd (compile_from b i)).
Proof.
  unfold compile_from. pose proof (cfr_facts (rev (b_stack b)) b i None) as [H1 H2].
  destruct (compile_from_rev _ _ _ _) as [b' r]. cbn [fst snd] in *.
  destruct r; cbn [fst snd]; auto with noerr. exfalso; eapply H2; eauto.
Qed.

Lemma noerr_fcp st : forall bs out, noerr (fcp st bs out).
Proof.
  intros bs; revert st. induction bs as [|c bs IH]; intros st out; cbn [fcp]; auto with noerr.
  destruct st as [|u rest]; auto with noerr.
  destruct (u_last u) as [[i o]|]; auto with noerr.
  destruct (i =? c); auto with noerr.
  apply noerr_bind.
  - destruct (_ =? 0); auto with noerr. destruct rest; auto with noerr.
  - intros rest'. apply noerr_bind; auto. intros [[s n] o2]. auto with noerr.
Qed.

Lemma noerr_add_suffix st bs out : noerr (add_suffix st bs out).
Proof.
  unfold add_suffix. destruct bs; auto with noerr. destruct (rev st); auto with noerr.
  destruct (u_last _); auto with noerr.
Qed.

Lemma insert_output_facts b bs out :
  b_last (fst (insert_output b bs out)) = b_last b /\ noerr (snd (insert_output b bs out)).
Proof.
  unfold insert_output. destruct bs as [|c bs].
  - destruct (match out with None => _ | Some _ => _ end); [cbn; split; auto with noerr|].
    unfold set_root_output. destruct (b_stack b); cbn; split; auto with noerr.
  - pose proof (noerr_fcp (b_stack b) (c :: bs) (match out with Some o => o | None => 0 end)) as Hf.
    destruct (fcp _ _ _) as [[[st p] o]|x|]; [| exfalso; eapply Hf; eauto | cbn; split; auto with noerr].
    destruct (Nat.eqb p _).
    { destruct (o =? 0); cbn; split; auto with noerr. }
    pose proof (compile_from_facts (with_len (with_stack b st) (b_len (with_stack b st) + 1)) p) as [H1 H2].
    destruct (compile_from _ p) as [b3 r]. cbn [fst snd] in H1, H2. cbn [b_last with_len with_stack] in H1.
    destruct r as [?|x|]; [| exfalso; eapply H2; eauto | cbn; split; auto with noerr].
    pose proof (noerr_add_suffix (b_stack b3) (skipn p (c :: bs)) o) as Ha.
    destruct (add_suffix _ _ _) as [?|x|]; [| exfalso; eapply Ha; eauto |]; cbn; split; auto with noerr.
Qed.

(* ================= C06: ordering checks, rejected calls ================= *)
Definition op_key (o : op) : key := match o with OpInsert k _ => k | OpAdd k => k end.
Definition op_out (o : op) : option N := match o with OpInsert _ v => Some v | OpAdd _ => None end.
Definition is_order_err (e : err) : Prop :=
  match e with EDuplicateKey _ | EOutOfOrder _ _ => True | _ => False end.

(* one call against the specification of the ordering check *)
Lemma apply_op_spec b o :
  match snd (spec_call (b_last b) o) with
  | Ok _ => apply_op b o = insert_output (with_last b (Some (op_key o))) (op_key o) (op_out o) /\
            fst (spec_call (b_last b) o) = Some (op_key o)
  | Err e => apply_op b o = (b, Err e) /\ fst (spec_call (b_last b) o) = b_last b /\ is_order_err e
  | Panic => False
  end.
Proof.
  destruct o as [k v|k]; cbn [apply_op spec_call op_key op_out];
    unfold b_insert, b_add, check_last_key; destruct (b_last b) as [l|] eqn:E; cbn [andb snd fst]; auto.
  - destruct (key_eqb k l); cbn [snd fst]; [cbn; auto|].
    destruct (key_ltb k l); cbn [snd fst]; cbn; auto.
  - destruct (key_ltb k l); cbn [snd fst]; cbn; auto.
Qed.

Lemma apply_op_last b o :
  b_last (fst (apply_op b o)) = fst (spec_call (b_last b) o).
Proof.
  pose proof (apply_op_spec b o) as H. destruct (snd (spec_call (b_last b) o)); [| |tauto].
  - destruct H as [-> ->]. now rewrite (proj1 (insert_output_facts _ _ _)).
  - destruct H as (-> & -> & _). reflexivity.
Qed.

(* the only errors the model produces are the two ordering errors, and then the state is untouched *)
Lemma apply_op_err b o e : snd (apply_op b o) = Err e ->
  snd (spec_call (b_last b) o) = Err e /\ fst (apply_op b o) = b /\ is_order_err e.
Proof.
  pose proof (apply_op_spec b o) as H. destruct (snd (spec_call (b_last b) o)) as [u|e'|]; [| |tauto].
  - destruct H as [-> _]. intros H. exfalso. eapply (proj2 (insert_output_facts _ _ _)); eauto.
  - destruct H as (-> & _ & H). cbn. intros [= ->]. auto.
Qed.

Lemma apply_op_only_order_errors b o e : snd (apply_op b o) = Err e -> is_order_err e.
Proof. intros H. apply apply_op_err in H. tauto. Qed.

Theorem reject_state_identity b o b' e :
  apply_op b o = (b', Err e) -> b' = b /\ is_order_err e.
Proof.
  intros H. pose proof (apply_op_err b o e) as H1. rewrite H in H1. cbn in H1.
  specialize (H1 eq_refl). tauto.
Qed.

Theorem reject_iff b o :
  (forall k, snd (apply_op b o) = Err (EDuplicateKey k) <->
             (exists v, o = OpInsert k v) /\ b_last b = Some k) /\
  (forall l k, snd (apply_op b o) = Err (EOutOfOrder l k) <->
             op_key o = k /\ b_last b = Some l /\ key_ltb k l = true) /\
  (forall e, snd (apply_op b o) = Err e -> is_order_err e /\ fst (apply_op b o) = b) /\
  ((forall e, snd (apply_op b o) <> Err e) -> b_last (fst (apply_op b o)) = Some (op_key o)) /\
  ((forall e, snd (apply_op b o) <> Err e) <->
     match b_last b with
     | None => True
     | Some l => match o with OpInsert k _ => key_ltb l k = true | OpAdd k => key_leb l k = true end
     end).
Proof.
  assert (Hsp : forall e, snd (apply_op b o) = Err e <-> snd (spec_call (b_last b) o) = Err e).
  { intros e. split; [intros H; apply apply_op_err in H; tauto|].
    intros H. pose proof (apply_op_spec b o) as H1. rewrite H in H1. destruct H1 as [-> _]. reflexivity. }
  split; [|split; [|split; [|split]]].
  - intros k. rewrite Hsp. destruct o as [k' v|k']; cbn [spec_call]; destruct (b_last b) as [l|]; cbn [andb snd].
    + destruct (key_eqb k' l) eqn:E; cbn [snd].
      * apply key_eqb_eq in E. subst l. split; [intros [= ->]; eauto|intros [[v' [= ->]] _]; reflexivity].
      * destruct (key_ltb k' l); cbn [snd]; (split; [discriminate|]).
        all: intros [[v' [= -> ->]] [= ->]]; rewrite key_eqb_refl in E; discriminate.
    + split; [discriminate|intros [_ H]; discriminate].
    + destruct (key_ltb k' l); cbn [snd]; (split; [discriminate|intros [[v' H] _]; discriminate]).
    + split; [discriminate|intros [_ H]; discriminate].
  - intros l k. rewrite Hsp. destruct o as [k' v|k']; cbn [spec_call op_key]; destruct (b_last b) as [l'|]; cbn [andb snd].
    + destruct (key_eqb k' l') eqn:E; cbn [snd].
      * apply key_eqb_eq in E. subst l'. split; [discriminate|].
        intros (-> & [= ->] & H). rewrite key_ltb_irrefl in H. discriminate.
      * destruct (key_ltb k' l') eqn:L; cbn [snd].
        -- split; [intros [= -> ->]; auto|intros (-> & [= ->] & _); reflexivity].
        -- split; [discriminate|intros (-> & [= ->] & H); congruence].
    + split; [discriminate|intros (_ & H & _); discriminate].
    + destruct (key_ltb k' l') eqn:L; cbn [snd].
      * split; [intros [= -> ->]; auto|intros (-> & [= ->] & _); reflexivity].
      * split; [discriminate|intros (-> & [= ->] & H); congruence].
    + split; [discriminate|intros (_ & H & _); discriminate].
  - intros e H. apply apply_op_err in H. tauto.
  - intros H. rewrite apply_op_last. pose proof (apply_op_spec b o) as H1.
    destruct (snd (spec_call (b_last b) o)) as [u|e|] eqn:E; [tauto| |tauto].
    exfalso. apply (H e). now apply Hsp.
  - assert (Hok : (forall e, snd (apply_op b o) <> Err e) <-> snd (spec_call (b_last b) o) = Ok tt).
    { split.
      - intros H. pose proof (apply_op_spec b o) as H1.
        destruct (snd (spec_call (b_last b) o)) as [[]|e|] eqn:E; [reflexivity| |tauto].
        exfalso. apply (H e). now apply Hsp.
      - intros H e H1. apply Hsp in H1. congruence. }
    rewrite Hok. destruct o as [k v|k]; cbn [spec_call]; destruct (b_last b) as [l|]; cbn [andb snd]; try tauto.
    + destruct (key_eqb k l) eqn:E; cbn [snd].
      * apply key_eqb_eq in E. subst. rewrite key_ltb_irrefl. split; discriminate.
      * apply not_true_iff_false in E. rewrite key_eqb_eq in E.
        destruct (key_ltb k l) eqn:L; cbn [snd].
        -- split; [discriminate|]. rewrite key_ltb_klt in *. intros H. exfalso.
           exact (klt_irrefl _ (klt_trans _ _ _ L H)).
        -- split; [intros _|reflexivity]. apply key_ltb_false_kle, kle_cases in L. rewrite key_ltb_klt.
           destruct L; congruence.
    + destruct (key_ltb k l) eqn:L; cbn [snd].
      * split; [discriminate|]. rewrite key_ltb_klt in L. rewrite key_leb_kle. intros H. exfalso.
        exact (klt_irrefl _ (klt_kle_trans _ _ _ L H)).
      * split; [intros _|reflexivity]. apply key_leb_kle. now apply key_ltb_false_kle.
Qed.

(* ---------- sequences of single calls ---------- *)
Fixpoint accepted_ops (last : option key) (ops : list op) : list op :=
  match ops with
  | [] => []
  | o :: r => let '(l', x) := spec_call last o in
              match x with Ok _ => o :: accepted_ops l' r | _ => accepted_ops l' r end
  end.

Lemma run_calls_cons b o r :
  run_calls b (o :: r) =
  (fst (run_calls (fst (apply_op b o)) r), snd (apply_op b o) :: snd (run_calls (fst (apply_op b o)) r)).
Proof. cbn [run_calls]. destruct (apply_op b o) as [b1 x]. cbn [fst snd]. now destruct (run_calls b1 r). Qed.

Lemma spec_calls_cons last o r :
  spec_calls last (o :: r) = snd (spec_call last o) :: spec_calls (fst (spec_call last o)) r.
Proof. cbn [spec_calls]. now destruct (spec_call last o). Qed.

Lemma accepted_ops_cons last o r :
  accepted_ops last (o :: r) =
  match snd (spec_call last o) with
  | Ok _ => o :: accepted_ops (fst (spec_call last o)) r
  | _ => accepted_ops (fst (spec_call last o)) r
  end.
Proof. cbn [accepted_ops]. now destruct (spec_call last o). Qed.

(* a call's result is the specified one, except that an accepted call may panic *)
Definition res_matches (r s : res unit) : Prop := r = s \/ (r = Panic /\ s = Ok tt).

Lemma apply_op_result b o : res_matches (snd (apply_op b o)) (snd (spec_call (b_last b) o)).
Proof.
  pose proof (apply_op_spec b o) as H. destruct (snd (spec_call (b_last b) o)) as [[]|e|]; [| |tauto].
  - destruct H as [-> _]. pose proof (proj2 (insert_output_facts (with_last b (Some (op_key o))) (op_key o) (op_out o))) as Hn.
    destruct (snd (insert_output _ _ _)) as [[]|e|]; [left; reflexivity| |right; auto].
    exfalso. eapply Hn; eauto.
  - destruct H as [-> _]. left. reflexivity.
Qed.

Theorem calls_results_rel ops : forall b,
  Forall2 res_matches (snd (run_calls b ops)) (spec_calls (b_last b) ops).
Proof.
  induction ops as [|o r IH]; intros b; [constructor|].
  rewrite run_calls_cons, spec_calls_cons. cbn [snd]. constructor; [apply apply_op_result|].
  rewrite <- apply_op_last. apply IH.
Qed.

Theorem calls_results_spec ops b :
  Forall (fun r => r <> Panic) (snd (run_calls b ops)) ->
  snd (run_calls b ops) = spec_calls (b_last b) ops.
Proof.
  intros H. pose proof (calls_results_rel ops b) as R.
  induction R as [|x y l l' Hm R IH]; [reflexivity|].
  inversion H; subst. f_equal; auto. destruct Hm as [Hm|[Hm _]]; [exact Hm|contradiction].
Qed.

(* every result is Ok, Panic or one of the two ordering errors *)
Theorem calls_results_shape ops b :
  Forall (fun r => r = Ok tt \/ r = Panic \/ exists e, r = Err e /\ is_order_err e) (snd (run_calls b ops)).
Proof.
  revert b; induction ops as [|o r IH]; intros b; [constructor|].
  rewrite run_calls_cons. cbn [snd]. constructor; [|apply IH].
  destruct (snd (apply_op b o)) as [[]|e|] eqn:E; auto.
  right; right. exists e. split; auto. eapply apply_op_only_order_errors; eauto.
Qed.

(* the form asked for in the property: no call panics = every result is Ok or an ordering error *)
Lemma no_panic_iff ops b :
  Forall (fun r => r <> Panic) (snd (run_calls b ops)) <->
  Forall (fun r => r = Ok tt \/ exists e, r = Err e /\ is_order_err e) (snd (run_calls b ops)).
Proof.
  pose proof (calls_results_shape ops b) as H. rewrite !Forall_forall in *. split; intros H1 x Hx.
  - destruct (H x Hx) as [?|[?|?]]; auto. exfalso. eapply H1; eauto.
  - destruct (H1 x Hx) as [->|(e & -> & _)]; discriminate.
Qed.

(* rejected calls leave no trace in the state: unconditional, for every starting state *)
Theorem calls_state_accepted ops : forall b,
  fst (run_calls b ops) = fst (run_calls b (accepted_ops (b_last b) ops)).
Proof.
  induction ops as [|o r IH]; intros b; [reflexivity|].
  rewrite run_calls_cons, accepted_ops_cons. cbn [fst].
  pose proof (apply_op_spec b o) as H. pose proof (apply_op_last b o) as HL.
  destruct (snd (spec_call (b_last b) o)) as [u|e|]; [| |tauto].
  - rewrite run_calls_cons. cbn [fst]. rewrite <- HL. apply IH.
  - destruct H as (H & E & _). rewrite H, E. cbn [fst]. apply IH.
Qed.

Lemma accepted_ops_results ops : forall b,
  Forall (fun r => r <> Panic) (snd (run_calls b ops)) ->
  Forall (fun r => r = Ok tt) (snd (run_calls b (accepted_ops (b_last b) ops))).
Proof.
  induction ops as [|o r IH]; intros b; [constructor|].
  rewrite run_calls_cons, accepted_ops_cons. cbn [snd]. intros HF. inversion HF as [|? ? Hx Hr]; subst.
  pose proof (apply_op_spec b o) as H. pose proof (apply_op_last b o) as HL.
  pose proof (apply_op_result b o) as HR.
  destruct (snd (spec_call (b_last b) o)) as [[]|e|]; [| |tauto].
  - rewrite run_calls_cons. cbn [snd]. constructor.
    + destruct HR as [HR|[HR _]]; [exact HR|contradiction].
    + rewrite <- HL. apply IH. exact Hr.
  - destruct H as (H & E & _). rewrite H, E in *. cbn [fst] in *. apply IH. exact Hr.
Qed.

(* ---------- extend_iter / extend_stream / from_iter ---------- *)
Fixpoint first_non_ok (rs : list (res unit)) : res unit :=
  match rs with [] => Ok tt | Ok _ :: r => first_non_ok r | x :: _ => x end.

Theorem extend_first_error ops : forall b,
  snd (run_extend b ops) = first_non_ok (snd (run_calls b ops)).
Proof.
  induction ops as [|o r IH]; intros b; [reflexivity|].
  rewrite run_calls_cons. cbn [run_extend snd first_non_ok].
  destruct (apply_op b o) as [b1 x]. cbn [fst snd]. destruct x; auto.
Qed.

Lemma calls_eq_extend ops : forall b,
  Forall (fun r => r = Ok tt) (snd (run_calls b ops)) ->
  run_extend b ops = (fst (run_calls b ops), Ok tt).
Proof.
  induction ops as [|o r IH]; intros b; [reflexivity|].
  rewrite run_calls_cons. cbn [run_extend snd fst]. intros HF. inversion HF as [|? ? Hx Hr]; subst.
  destruct (apply_op b o) as [b1 x]. cbn [fst snd] in *. subst x. apply IH. exact Hr.
Qed.

Lemma accepted_prefix_cons last o r :
  accepted_prefix last (o :: r) =
  match snd (spec_call last o) with
  | Ok _ => (o :: fst (accepted_prefix (fst (spec_call last o)) r), snd (accepted_prefix (fst (spec_call last o)) r))
  | x => ([], x)
  end.
Proof.
  cbn [accepted_prefix]. destruct (spec_call last o) as [l' x]. cbn [fst snd].
  destruct x; auto. now destruct (accepted_prefix l' r).
Qed.

Theorem extend_stops_at_first_error ops : forall b,
  snd (run_extend b ops) <> Panic ->
  run_extend b ops = (fst (run_calls b (fst (accepted_prefix (b_last b) ops))),
                      snd (accepted_prefix (b_last b) ops)) /\
  Forall (fun r => r = Ok tt) (snd (run_calls b (fst (accepted_prefix (b_last b) ops)))) /\
  (forall e, snd (run_extend b ops) = Err e -> is_order_err e).
Proof.
  induction ops as [|o r IH]; intros b.
  - cbn. intros _. repeat split; auto. discriminate.
  - rewrite accepted_prefix_cons. cbn [run_extend].
    pose proof (apply_op_spec b o) as H. pose proof (apply_op_last b o) as HL.
    pose proof (apply_op_result b o) as HR.
    destruct (snd (spec_call (b_last b) o)) as [[]|e|]; [| |tauto].
    + cbn [fst snd]. rewrite run_calls_cons. cbn [fst snd]. rewrite <- HL.
      destruct (apply_op b o) as [b1 x]. cbn [fst snd] in *.
      destruct HR as [->|[-> _]]; [|cbn; intros Hc; contradiction].
      intros Hp. destruct (IH b1 Hp) as (A & B & C). repeat split; auto.
    + destruct H as (H & _ & Ho). rewrite H. cbn. intros _. repeat split; auto. intros e' [= <-]. exact Ho.
Qed.

(* ---------- finished bytes ---------- *)
Lemma new_builder_last ty rows cols : b_last (new_builder ty rows cols) = None.
Proof. reflexivity. Qed.

Theorem rejected_leave_no_trace summer ops b :
  b_finish summer (fst (run_calls b ops)) =
  b_finish summer (fst (run_calls b (accepted_ops (b_last b) ops))).
Proof. now rewrite <- calls_state_accepted. Qed.

(* single calls with rejected items in between = from_iter over the accepted items *)
Theorem rejected_leave_no_trace_build summer ty rows cols ops :
  Forall (fun r => r <> Panic) (snd (run_calls (new_builder ty rows cols) ops)) ->
  b_finish summer (fst (run_calls (new_builder ty rows cols) ops)) =
  build_ops summer ty rows cols (accepted_ops None ops).
Proof.
  intros H. apply accepted_ops_results in H. rewrite new_builder_last in H.
  unfold build_ops. rewrite (calls_eq_extend _ _ H).
  rewrite (calls_state_accepted ops (new_builder ty rows cols)), new_builder_last. reflexivity.
Qed.

(* ================= C15: the front ends mean the same thing ================= *)
(* the root is not final before the first accepted key *)
Definition root_fresh (b : builder) : Prop :=
  b_last b = None -> match b_stack b with r :: _ => n_final (u_node r) = false | [] => True end.

Lemma root_fresh_new ty rows cols : root_fresh (new_builder ty rows cols).
Proof. intros _. reflexivity. Qed.

Lemma root_fresh_apply b o : root_fresh b -> root_fresh (fst (apply_op b o)).
Proof.
  intros H. pose proof (apply_op_spec b o) as H1. pose proof (apply_op_last b o) as HL.
  destruct (snd (spec_call (b_last b) o)); [| |tauto].
  - intros E. rewrite HL, (proj2 H1) in E. discriminate.
  - destruct H1 as (-> & _). exact H.
Qed.

Lemma root_fresh_calls ops : forall b, root_fresh b -> root_fresh (fst (run_calls b ops)).
Proof.
  induction ops as [|o r IH]; intros b H; [exact H|].
  rewrite run_calls_cons. cbn [fst]. apply IH, root_fresh_apply, H.
Qed.

(* add(k) = insert(k, 0) unless k repeats the last key (then insert reports DuplicateKey).
   The unrestricted statement is false for the empty key on a state no call sequence reaches
   (see [add_eq_insert0_needs_fresh_root] in Properties/C15.v), hence [root_fresh]. *)
Theorem add_eq_insert0_gen b k :
  b_last b <> Some k -> (k = [] -> root_fresh b) -> b_add b k = b_insert b k 0.
Proof.
  intros Hk Hr. unfold b_add, b_insert, check_last_key.
  destruct (b_last b) as [l|] eqn:E.
  - cbn [andb]. destruct (key_eqb k l) eqn:Ek; [apply key_eqb_eq in Ek; congruence|].
    destruct (key_ltb k l) eqn:L; [reflexivity|].
    destruct k as [|c k]; [|reflexivity].
    (* [] is not below l and differs from it: impossible *)
    destruct l; [congruence|]. discriminate L.
  - destruct k as [|c k]; [|reflexivity].
    specialize (Hr eq_refl E). unfold insert_output. cbn [with_last b_stack].
    destruct (b_stack b) as [|r rest]; [reflexivity|]. rewrite Hr. reflexivity.
Qed.

Theorem add_eq_insert0 ty rows cols ops k :
  let b := fst (run_calls (new_builder ty rows cols) ops) in
  b_last b <> Some k -> b_add b k = b_insert b k 0.
Proof.
  intros b H. apply add_eq_insert0_gen; auto. intros _.
  apply root_fresh_calls, root_fresh_new.
Qed.

Theorem build_set_eq summer ty rows cols ks :
  build_set summer ty rows cols ks = build_ops summer ty rows cols (map OpAdd ks).
Proof. reflexivity. Qed.
Theorem build_map_eq summer ty rows cols kvs :
  build_map summer ty rows cols kvs = build_ops summer ty rows cols (map (fun '(k, v) => OpInsert k v) kvs).
Proof. reflexivity. Qed.

(* single calls that all succeed, then finish = from_iter / extend_iter / extend_stream *)
Theorem calls_then_finish_eq_build summer ty rows cols ops :
  Forall (fun r => r = Ok tt) (snd (run_calls (new_builder ty rows cols) ops)) ->
  b_finish summer (fst (run_calls (new_builder ty rows cols) ops)) = build_ops summer ty rows cols ops.
Proof. intros H. unfold build_ops. now rewrite (calls_eq_extend _ _ H). Qed.

(* extending in several pieces = extending once *)
Theorem extend_app ops1 : forall b ops2,
  snd (run_extend b ops1) = Ok tt ->
  run_extend b (ops1 ++ ops2) = run_extend (fst (run_extend b ops1)) ops2.
Proof.
  induction ops1 as [|o r IH]; intros b ops2; [reflexivity|].
  cbn [app run_extend]. destruct (apply_op b o) as [b1 [[]| |]]; cbn [snd]; try discriminate. apply IH.
Qed.

(* a set built from strictly increasing keys = the map with all values 0 *)
Lemma extend_add_eq_insert0 ks : forall b,
  root_fresh b -> (forall k, hd_error ks = Some k -> b_last b <> Some k) -> sorted_strict ks = true ->
  run_extend b (map OpAdd ks) = run_extend b (map (fun k => OpInsert k 0) ks).
Proof.
  induction ks as [|k ks IH]; intros b Hr Hh Hs; [reflexivity|].
  cbn [map run_extend apply_op]. rewrite (add_eq_insert0_gen b k); auto.
  pose proof (apply_op_last b (OpInsert k 0)) as HL. pose proof (apply_op_spec b (OpInsert k 0)) as HS.
  pose proof (root_fresh_apply b (OpInsert k 0) Hr) as Hr'.
  cbn [apply_op] in *. destruct (b_insert b k 0) as [b1 x]. cbn [fst snd] in *.
  destruct x; auto. apply IH; auto.
  - intros k' Hk'. destruct ks as [|k2 ks]; [discriminate|]. injection Hk' as <-.
    rewrite HL. destruct (snd (spec_call (b_last b) (OpInsert k 0))); [| |tauto].
    + rewrite (proj2 HS). cbn [op_key]. intros [= E2]. rewrite E2 in Hs.
      change (sorted_strict (k2 :: k2 :: ks)) with (key_ltb k2 k2 && sorted_strict (k2 :: ks)) in Hs.
      rewrite key_ltb_irrefl in Hs. discriminate.
    + destruct HS as (HS & _). discriminate.
  - destruct ks; [reflexivity|].
    change (sorted_strict (k :: k0 :: ks)) with (key_ltb k k0 && sorted_strict (k0 :: ks)) in Hs.
    apply andb_true_iff in Hs. tauto.
Qed.

Theorem build_set_eq_map0 summer ty rows cols ks :
  sorted_strict ks = true ->
  build_set summer ty rows cols ks = build_map summer ty rows cols (map (fun k => (k, 0)) ks).
Proof.
  intros Hs. unfold build_set, build_map, build_ops. rewrite map_map.
  rewrite (extend_add_eq_insert0 ks (new_builder ty rows cols)); auto using root_fresh_new.
  intros k _. rewrite new_builder_last. discriminate.
Qed.
