(* BuilderBasics.v — basic facts about the builder model (Builder.v) and the registry model
   (Registry.v): ordering checks and rejected calls (C06), equality of the front ends (C15),
   soundness / completeness of the node cache and the trie bound on written nodes (C12). *)
Require Import FstV.Base FstV.Pack FstV.Node FstV.Registry FstV.Builder FstV.Reader FstV.Automaton FstV.Fst.
Require Import FstV.Generated.SrcParams.
Require Import Coq.FSets.FMapPositive.

(* ================= order on keys ================= *)
Definition klt (a b : key) : Prop := lex_cmp a b = Lt.
Definition kle (a b : key) : Prop := lex_cmp a b <> Gt.

Lemma lex_cmp_gt_lt a b : lex_cmp a b = Gt <-> lex_cmp b a = Lt.
Proof. rewrite (lex_cmp_antisym b a). destruct (lex_cmp b a); cbn; split; congruence. Qed.
Lemma klt_trans a b c : klt a b -> klt b c -> klt a c.
Proof. apply lex_cmp_trans_lt. Qed.
Lemma klt_irrefl a : ~ klt a a.
Proof. unfold klt. rewrite lex_cmp_refl. discriminate. Qed.
Lemma kle_refl a : kle a a.
Proof. unfold kle. rewrite lex_cmp_refl. discriminate. Qed.
Lemma kle_cases a b : kle a b <-> klt a b \/ a = b.
Proof.
  unfold kle, klt. rewrite <- lex_cmp_eq. destruct (lex_cmp a b); split; try congruence; auto.
  intros [H|H]; discriminate.
Qed.
Lemma klt_kle a b : klt a b -> kle a b.
Proof. intros H. apply kle_cases. auto. Qed.
Lemma nkle_klt a b : ~ kle a b <-> klt b a.
Proof.
  unfold kle, klt. rewrite <- lex_cmp_gt_lt. destruct (lex_cmp a b); split; try congruence; intros H; exfalso; apply H; discriminate.
Qed.
Lemma klt_kle_trans a b c : klt a b -> kle b c -> klt a c.
Proof. intros H1 H. apply kle_cases in H as [H| <-]; [eapply klt_trans; eauto|auto]. Qed.
Lemma kle_trans a b c : kle a b -> kle b c -> kle a c.
Proof.
  intros H1 H2. apply kle_cases in H1 as [H1| ->]; [|exact H2].
  apply klt_kle. eapply klt_kle_trans; eauto.
Qed.
Lemma kle_total a b : kle a b \/ klt b a.
Proof. unfold kle, klt. rewrite <- lex_cmp_gt_lt. destruct (lex_cmp a b); auto; left; discriminate. Qed.
Lemma key_ltb_klt a b : key_ltb a b = true <-> klt a b.
Proof. unfold key_ltb, klt. destruct (lex_cmp a b); split; congruence. Qed.
Lemma key_leb_kle a b : key_leb a b = true <-> kle a b.
Proof. unfold key_leb, kle. destruct (lex_cmp a b); split; congruence. Qed.
Lemma key_ltb_false_kle a b : key_ltb a b = false <-> kle b a.
Proof.
  rewrite <- not_true_iff_false, key_ltb_klt, <- nkle_klt.
  destruct (kle_total b a) as [H|H]; [tauto|]. apply nkle_klt in H. tauto.
Qed.
Lemma key_ltb_irrefl a : key_ltb a a = false.
Proof. unfold key_ltb. now rewrite lex_cmp_refl. Qed.

(* ================= the model never produces an [Err] of its own ================= *)
Definition noerr {A} (r : res A) : Prop := forall e, r <> Err e.

Lemma noerr_ok {A} (a : A) : noerr (Ok a).
Proof. intros e; discriminate. Qed.
Lemma noerr_panic {A} : noerr (@Panic A).
Proof. intros e; discriminate. Qed.
Lemma noerr_bind {A B} (r : res A) (f : A -> res B) :
  noerr r -> (forall a, noerr (f a)) -> noerr (bind r f).
Proof. intros H1 H2. destruct r; cbn; auto. exfalso. eapply H1; eauto. intros e'; discriminate. Qed.
#[local] Hint Resolve noerr_ok noerr_panic : noerr.

Lemma noerr_csub a b : noerr (csub a b).
Proof. unfold csub. destruct (b <=? a); auto with noerr. Qed.
Lemma noerr_delta_of a b : noerr (delta_of a b).
Proof. unfold delta_of. destruct (_ =? _); auto using noerr_csub with noerr. Qed.
Lemma noerr_pack_uint_in a b : noerr (pack_uint_in a b).
Proof. unfold pack_uint_in. destruct (_ && _); auto with noerr. Qed.
Lemma noerr_pack_delta_size a b : noerr (pack_delta_size a b).
Proof. unfold pack_delta_size. apply noerr_bind; auto using noerr_delta_of with noerr. Qed.
Lemma noerr_pack_delta_in a b c : noerr (pack_delta_in a b c).
Proof. unfold pack_delta_in. apply noerr_bind; auto using noerr_delta_of, noerr_pack_uint_in. Qed.
Lemma noerr_res_map {A B} (f : A -> res B) l : (forall x, noerr (f x)) -> noerr (res_map f l).
Proof.
  intros H. induction l as [|x l IH]; cbn [res_map]; auto with noerr.
  apply noerr_bind; auto. intros y. apply noerr_bind; auto with noerr.
Qed.
Lemma noerr_if {A} (c : bool) (x y : res A) : noerr x -> noerr y -> noerr (if c then x else y).
Proof. destruct c; auto. Qed.

Ltac noerr_tac :=
  lazymatch goal with
  | |- noerr (bind _ _) => apply noerr_bind; [noerr_tac | intros ?; noerr_tac]
  | |- noerr (if _ then _ else _) => apply noerr_if; noerr_tac
  | |- noerr (Ok _) => apply noerr_ok
  | |- noerr Panic => apply noerr_panic
  | |- noerr (res_map _ _) => apply noerr_res_map; intros ?; noerr_tac
  | |- noerr (pack_uint_in _ _) => apply noerr_pack_uint_in
  | |- noerr (pack_delta_size _ _) => apply noerr_pack_delta_size
  | |- noerr (pack_delta_in _ _ _) => apply noerr_pack_delta_in
  | |- _ => idtac
  end.

Lemma noerr_compile_otn i : noerr (compile_otn i).
Proof. unfold compile_otn. noerr_tac. Qed.
Lemma noerr_compile_ot a t : noerr (compile_ot a t).
Proof. unfold compile_ot. noerr_tac. Qed.
Lemma noerr_compile_any v a n : noerr (compile_any v a n).
Proof. unfold compile_any. noerr_tac. Qed.
Lemma noerr_compile_node v la a n : noerr (compile_node v la a n).
Proof.
  unfold compile_node. destruct (n_trans n) as [|t [|t' r]]; noerr_tac;
    auto using noerr_compile_any, noerr_compile_otn, noerr_compile_ot.
Qed.

(* ================= b_last is only touched by check_last_key; no Err below it ================= *)
Lemma compile_facts b n : b_last (fst (compile b n)) = b_last b /\ noerr (snd (compile b n)).
Proof.
  unfold compile. destruct (_ && _ && _); [split; [reflexivity|apply noerr_ok]|].
  destruct (reg_entry (b_reg b) n) as [reg0 e].
  pose proof (noerr_compile_node (b_version b) (b_last_addr b) (b_count b) n) as Hn.
  destruct e; cbn [fst snd b_last]; try (split; [reflexivity|apply noerr_ok]);
    destruct (compile_node _ _ _ _); cbn [fst snd b_last b_write];
    (split; [reflexivity|]); auto with noerr; exfalso; eapply Hn; eauto.
Qed.

Lemma cfr_facts rstack : forall b keep addr,
  b_last (fst (compile_from_rev b rstack keep addr)) = b_last b /\
  noerr (snd (compile_from_rev b rstack keep addr)).
Proof.
  induction rstack as [|u rest IH]; intros b keep addr.
  - cbn. split; auto with noerr.
  - cbn [compile_from_rev]. destruct (Nat.ltb _ _); [|cbn; split; auto with noerr].
    assert (Hn : noerr (match addr with
             | None => match u_last u with None => Ok (u_node u) | Some _ => Panic end
             | Some a => Ok (freeze u a) end)).
    { destruct addr; [|destruct (u_last u)]; auto with noerr. }
    destruct (match addr with None => _ | Some a => _ end) as [n|x|];
      [| exfalso; eapply Hn; eauto | cbn; split; auto with noerr].
    pose proof (compile_facts b n) as [H1 H2].
    destruct (compile b n) as [b' r]. cbn [fst snd] in *.
    destruct r as [a|x|]; [| exfalso; eapply H2; eauto | cbn; split; auto with noerr].
    destruct (a =? NONE_ADDRESS); [cbn; split; auto with noerr|].
    specialize (IH b' keep (Some a)). rewrite H1 in IH. exact IH.
Qed.

Lemma compile_from_facts b i :
  b_last (fst (compile_from b i)) = b_last b /\ noerr (snd (compile_from b i)).
Proof.
  unfold compile_from. pose proof (cfr_facts (rev (b_stack b)) b i None) as [H1 H2].
  destruct (compile_from_rev _ _ _ _) as [b' r]. cbn [fst snd] in *.
  destruct r; cbn [fst snd]; auto with noerr. exfalso; eapply H2; eauto.
Qed.

Lemma noerr_fcp st : forall bs out, noerr (fcp st bs out).
Proof.
  intros bs; revert st. induction bs as [|c bs IH]; intros st out; cbn [fcp]; auto with noerr.
  destruct st as [|u rest]; auto with noerr.
  destruct (u_last u) as [[i o]|]; auto with noerr.
  destruct (i =? c); auto with noerr.
  apply noerr_bind.
  - destruct (_ =? 0); auto with noerr. destruct rest; auto with noerr.
  - intros rest'. apply noerr_bind; auto. intros [[s n] o2]. auto with noerr.
Qed.

Lemma noerr_add_suffix st bs out : noerr (add_suffix st bs out).
Proof.
  unfold add_suffix. destruct bs; auto with noerr. destruct (rev st); auto with noerr.
  destruct (u_last _); auto with noerr.
Qed.

Lemma insert_output_facts b bs out :
  b_last (fst (insert_output b bs out)) = b_last b /\ noerr (snd (insert_output b bs out)).
Proof.
  unfold insert_output. destruct bs as [|c bs].
  - destruct (match out with None => _ | Some _ => _ end); [cbn; split; auto with noerr|].
    unfold set_root_output. destruct (b_stack b); cbn; split; auto with noerr.
  - destruct (_ && _); [cbn; split; auto with noerr|].
    pose proof (noerr_fcp (b_stack b) (c :: bs) (match out with Some o => o | None => 0 end)) as Hf.
    destruct (fcp _ _ _) as [[[st p] o]|x|]; [| exfalso; eapply Hf; eauto | cbn; split; auto with noerr].
    destruct (Nat.eqb p _).
    { destruct (o =? 0); cbn; split; auto with noerr. }
    pose proof (compile_from_facts (with_len (with_stack b st) (b_len (with_stack b st) + 1)) p) as [H1 H2].
    destruct (compile_from _ p) as [b3 r]. cbn [fst snd] in H1, H2. cbn [b_last with_len with_stack] in H1.
    destruct r as [?|x|]; [| exfalso; eapply H2; eauto | cbn; split; auto with noerr].
    pose proof (noerr_add_suffix (b_stack b3) (skipn p (c :: bs)) o) as Ha.
    destruct (add_suffix _ _ _) as [?|x|]; [| exfalso; eapply Ha; eauto |]; cbn; split; auto with noerr.
Qed.

(* ================= C06: ordering checks, rejected calls ================= *)
Definition op_key (o : op) : key := match o with OpInsert k _ => k | OpAdd k => k end.
Definition op_out (o : op) : option N := match o with OpInsert _ v => Some v | OpAdd _ => None end.
Definition is_order_err (e : err) : Prop :=
  match e with EDuplicateKey _ | EOutOfOrder _ _ => True | _ => False end.

(* one call against the specification of the ordering check *)
Lemma apply_op_spec b o :
  match snd (spec_call (b_last b) o) with
  | Ok _ => apply_op b o = insert_output (with_last b (Some (op_key o))) (op_key o) (op_out o) /\
            fst (spec_call (b_last b) o) = Some (op_key o)
  | Err e => apply_op b o = (b, Err e) /\ fst (spec_call (b_last b) o) = b_last b /\ is_order_err e
  | Panic => False
  end.
Proof.
  destruct o as [k v|k]; cbn [apply_op spec_call op_key op_out];
    unfold b_insert, b_add, check_last_key; destruct (b_last b) as [l|] eqn:E; cbn [andb snd fst]; auto.
  - destruct (key_eqb k l); cbn [snd fst]; [cbn; auto|].
    destruct (key_ltb k l); cbn [snd fst]; cbn; auto.
  - destruct (key_ltb k l); cbn [snd fst]; cbn; auto.
Qed.

Lemma apply_op_last b o :
  b_last (fst (apply_op b o)) = fst (spec_call (b_last b) o).
Proof.
  pose proof (apply_op_spec b o) as H. destruct (snd (spec_call (b_last b) o)); [| |tauto].
  - destruct H as [-> ->]. now rewrite (proj1 (insert_output_facts _ _ _)).
  - destruct H as (-> & -> & _). reflexivity.
Qed.

(* the only errors the model produces are the two ordering errors, and then the state is untouched *)
Lemma apply_op_err b o e : snd (apply_op b o) = Err e ->
  snd (spec_call (b_last b) o) = Err e /\ fst (apply_op b o) = b /\ is_order_err e.
Proof.
  pose proof (apply_op_spec b o) as H. destruct (snd (spec_call (b_last b) o)) as [u|e'|]; [| |tauto].
  - destruct H as [-> _]. intros H. exfalso. eapply (proj2 (insert_output_facts _ _ _)); eauto.
  - destruct H as (-> & _ & H). cbn. intros [= ->]. auto.
Qed.

Lemma apply_op_only_order_errors b o e : snd (apply_op b o) = Err e -> is_order_err e.
Proof. intros H. apply apply_op_err in H. tauto. Qed.

Theorem reject_state_identity b o b' e :
  apply_op b o = (b', Err e) -> b' = b /\ is_order_err e.
Proof.
  intros H. pose proof (apply_op_err b o e) as H1. rewrite H in H1. cbn in H1.
  specialize (H1 eq_refl). tauto.
Qed.

Theorem reject_iff b o :
  (forall k, snd (apply_op b o) = Err (EDuplicateKey k) <->
             (exists v, o = OpInsert k v) /\ b_last b = Some k) /\
  (forall l k, snd (apply_op b o) = Err (EOutOfOrder l k) <->
             op_key o = k /\ b_last b = Some l /\ key_ltb k l = true) /\
  (forall e, snd (apply_op b o) = Err e -> is_order_err e /\ fst (apply_op b o) = b) /\
  ((forall e, snd (apply_op b o) <> Err e) -> b_last (fst (apply_op b o)) = Some (op_key o)) /\
  ((forall e, snd (apply_op b o) <> Err e) <->
     match b_last b with
     | None => True
     | Some l => match o with OpInsert k _ => key_ltb l k = true | OpAdd k => key_leb l k = true end
     end).
Proof.
  assert (Hsp : forall e, snd (apply_op b o) = Err e <-> snd (spec_call (b_last b) o) = Err e).
  { intros e. split; [intros H; apply apply_op_err in H; tauto|].
    intros H. pose proof (apply_op_spec b o) as H1. rewrite H in H1. destruct H1 as [-> _]. reflexivity. }
  split; [|split; [|split; [|split]]].
  - intros k. rewrite Hsp. destruct o as [k' v|k']; cbn [spec_call]; destruct (b_last b) as [l|]; cbn [andb snd].
    + destruct (key_eqb k' l) eqn:E; cbn [snd].
      * apply key_eqb_eq in E. subst l. split; [intros [= ->]; eauto|intros [[v' [= ->]] _]; reflexivity].
      * destruct (key_ltb k' l); cbn [snd]; (split; [discriminate|]).
        all: intros [[v' [= -> ->]] [= ->]]; rewrite key_eqb_refl in E; discriminate.
    + split; [discriminate|intros [_ H]; discriminate].
    + destruct (key_ltb k' l); cbn [snd]; (split; [discriminate|intros [[v' H] _]; discriminate]).
    + split; [discriminate|intros [_ H]; discriminate].
  - intros l k. rewrite Hsp. destruct o as [k' v|k']; cbn [spec_call op_key]; destruct (b_last b) as [l'|]; cbn [andb snd].
    + destruct (key_eqb k' l') eqn:E; cbn [snd].
      * apply key_eqb_eq in E. subst l'. split; [discriminate|].
        intros (-> & [= ->] & H). rewrite key_ltb_irrefl in H. discriminate.
      * destruct (key_ltb k' l') eqn:L; cbn [snd].
        -- split; [intros [= -> ->]; auto|intros (-> & [= ->] & _); reflexivity].
        -- split; [discriminate|intros (-> & [= ->] & H); congruence].
    + split; [discriminate|intros (_ & H & _); discriminate].
    + destruct (key_ltb k' l') eqn:L; cbn [snd].
      * split; [intros [= -> ->]; auto|intros (-> & [= ->] & _); reflexivity].
      * split; [discriminate|intros (-> & [= ->] & H); congruence].
    + split; [discriminate|intros (_ & H & _); discriminate].
  - intros e H. apply apply_op_err in H. tauto.
  - intros H. rewrite apply_op_last. pose proof (apply_op_spec b o) as H1.
    destruct (snd (spec_call (b_last b) o)) as [u|e|] eqn:E; [tauto| |tauto].
    exfalso. apply (H e). now apply Hsp.
  - assert (Hok : (forall e, snd (apply_op b o) <> Err e) <-> snd (spec_call (b_last b) o) = Ok tt).
    { split.
      - intros H. pose proof (apply_op_spec b o) as H1.
        destruct (snd (spec_call (b_last b) o)) as [[]|e|] eqn:E; [reflexivity| |tauto].
        exfalso. apply (H e). now apply Hsp.
      - intros H e H1. apply Hsp in H1. congruence. }
    rewrite Hok. destruct o as [k v|k]; cbn [spec_call]; destruct (b_last b) as [l|]; cbn [andb snd]; try tauto.
    + destruct (key_eqb k l) eqn:E; cbn [snd].
      * apply key_eqb_eq in E. subst. rewrite key_ltb_irrefl. split; discriminate.
      * apply not_true_iff_false in E. rewrite key_eqb_eq in E.
        destruct (key_ltb k l) eqn:L; cbn [snd].
        -- split; [discriminate|]. rewrite key_ltb_klt in *. intros H. exfalso.
           exact (klt_irrefl _ (klt_trans _ _ _ L H)).
        -- split; [intros _|reflexivity]. apply key_ltb_false_kle, kle_cases in L. rewrite key_ltb_klt.
           destruct L; congruence.
    + destruct (key_ltb k l) eqn:L; cbn [snd].
      * split; [discriminate|]. rewrite key_ltb_klt in L. rewrite key_leb_kle. intros H. exfalso.
        exact (klt_irrefl _ (klt_kle_trans _ _ _ L H)).
      * split; [intros _|reflexivity]. apply key_leb_kle. now apply key_ltb_false_kle.
Qed.

(* ---------- sequences of single calls ---------- *)
Fixpoint accepted_ops (last : option key) (ops : list op) : list op :=
  match ops with
  | [] => []
  | o :: r => let '(l', x) := spec_call last o in
              match x with Ok _ => o :: accepted_ops l' r | _ => accepted_ops l' r end
  end.

Lemma run_calls_cons b o r :
  run_calls b (o :: r) =
  (fst (run_calls (fst (apply_op b o)) r), snd (apply_op b o) :: snd (run_calls (fst (apply_op b o)) r)).
Proof. cbn [run_calls]. destruct (apply_op b o) as [b1 x]. cbn [fst snd]. now destruct (run_calls b1 r). Qed.

Lemma spec_calls_cons last o r :
  spec_calls last (o :: r) = snd (spec_call last o) :: spec_calls (fst (spec_call last o)) r.
Proof. cbn [spec_calls]. now destruct (spec_call last o). Qed.

Lemma accepted_ops_cons last o r :
  accepted_ops last (o :: r) =
  match snd (spec_call last o) with
  | Ok _ => o :: accepted_ops (fst (spec_call last o)) r
  | _ => accepted_ops (fst (spec_call last o)) r
  end.
Proof. cbn [accepted_ops]. now destruct (spec_call last o). Qed.

(* a call's result is the specified one, except that an accepted call may panic *)
Definition res_matches (r s : res unit) : Prop := r = s \/ (r = Panic /\ s = Ok tt).

Lemma apply_op_result b o : res_matches (snd (apply_op b o)) (snd (spec_call (b_last b) o)).
Proof.
  pose proof (apply_op_spec b o) as H. destruct (snd (spec_call (b_last b) o)) as [[]|e|]; [| |tauto].
  - destruct H as [-> _]. pose proof (proj2 (insert_output_facts (with_last b (Some (op_key o))) (op_key o) (op_out o))) as Hn.
    destruct (snd (insert_output _ _ _)) as [[]|e|]; [left; reflexivity| |right; auto].
    exfalso. eapply Hn; eauto.
  - destruct H as [-> _]. left. reflexivity.
Qed.

Theorem calls_results_rel ops : forall b,
  Forall2 res_matches (snd (run_calls b ops)) (spec_calls (b_last b) ops).
Proof.
  induction ops as [|o r IH]; intros b; [constructor|].
  rewrite run_calls_cons, spec_calls_cons. cbn [snd]. constructor; [apply apply_op_result|].
  rewrite <- apply_op_last. apply IH.
Qed.

Theorem calls_results_spec ops b :
  Forall (fun r => r <> Panic) (snd (run_calls b ops)) ->
  snd (run_calls b ops) = spec_calls (b_last b) ops.
Proof.
  intros H. pose proof (calls_results_rel ops b) as R.
  induction R as [|x y l l' Hm R IH]; [reflexivity|].
  inversion H; subst. f_equal; auto. destruct Hm as [Hm|[Hm _]]; [exact Hm|contradiction].
Qed.

(* every result is Ok, Panic or one of the two ordering errors *)
Theorem calls_results_shape ops b :
  Forall (fun r => r = Ok tt \/ r = Panic \/ exists e, r = Err e /\ is_order_err e) (snd (run_calls b ops)).
Proof.
  revert b; induction ops as [|o r IH]; intros b; [constructor|].
  rewrite run_calls_cons. cbn [snd]. constructor; [|apply IH].
  destruct (snd (apply_op b o)) as [[]|e|] eqn:E; auto.
  right; right. exists e. split; auto. eapply apply_op_only_order_errors; eauto.
Qed.

(* the form asked for in the property: no call panics = every result is Ok or an ordering error *)
Lemma no_panic_iff ops b :
  Forall (fun r => r <> Panic) (snd (run_calls b ops)) <->
  Forall (fun r => r = Ok tt \/ exists e, r = Err e /\ is_order_err e) (snd (run_calls b ops)).
Proof.
  pose proof (calls_results_shape ops b) as H. rewrite !Forall_forall in *. split; intros H1 x Hx.
  - destruct (H x Hx) as [?|[?|?]]; auto. exfalso. eapply H1; eauto.
  - destruct (H1 x Hx) as [->|(e & -> & _)]; discriminate.
Qed.

(* rejected calls leave no trace in the state: unconditional, for every starting state *)
Theorem calls_state_accepted ops : forall b,
  fst (run_calls b ops) = fst (run_calls b (accepted_ops (b_last b) ops)).
Proof.
  induction ops as [|o r IH]; intros b; [reflexivity|].
  rewrite run_calls_cons, accepted_ops_cons. cbn [fst].
  pose proof (apply_op_spec b o) as H. pose proof (apply_op_last b o) as HL.
  destruct (snd (spec_call (b_last b) o)) as [u|e|]; [| |tauto].
  - rewrite run_calls_cons. cbn [fst]. rewrite <- HL. apply IH.
  - destruct H as (H & E & _). rewrite H, E. cbn [fst]. apply IH.
Qed.

Lemma accepted_ops_results ops : forall b,
  Forall (fun r => r <> Panic) (snd (run_calls b ops)) ->
  Forall (fun r => r = Ok tt) (snd (run_calls b (accepted_ops (b_last b) ops))).
Proof.
  induction ops as [|o r IH]; intros b; [constructor|].
  rewrite run_calls_cons, accepted_ops_cons. cbn [snd]. intros HF. inversion HF as [|? ? Hx Hr]; subst.
  pose proof (apply_op_spec b o) as H. pose proof (apply_op_last b o) as HL.
  pose proof (apply_op_result b o) as HR.
  destruct (snd (spec_call (b_last b) o)) as [[]|e|]; [| |tauto].
  - rewrite run_calls_cons. cbn [snd]. constructor.
    + destruct HR as [HR|[HR _]]; [exact HR|contradiction].
    + rewrite <- HL. apply IH. exact Hr.
  - destruct H as (H & E & _). rewrite H, E in *. cbn [fst] in *. apply IH. exact Hr.
Qed.

(* ---------- extend_iter / extend_stream / from_iter ---------- *)
Fixpoint first_non_ok (rs : list (res unit)) : res unit :=
  match rs with [] => Ok tt | Ok _ :: r => first_non_ok r | x :: _ => x end.

Theorem extend_first_error ops : forall b,
  snd (run_extend b ops) = first_non_ok (snd (run_calls b ops)).
Proof.
  induction ops as [|o r IH]; intros b; [reflexivity|].
  rewrite run_calls_cons. cbn [run_extend snd first_non_ok].
  destruct (apply_op b o) as [b1 x]. cbn [fst snd]. destruct x; auto.
Qed.

Lemma calls_eq_extend ops : forall b,
  Forall (fun r => r = Ok tt) (snd (run_calls b ops)) ->
  run_extend b ops = (fst (run_calls b ops), Ok tt).
Proof.
  induction ops as [|o r IH]; intros b; [reflexivity|].
  rewrite run_calls_cons. cbn [run_extend snd fst]. intros HF. inversion HF as [|? ? Hx Hr]; subst.
  destruct (apply_op b o) as [b1 x]. cbn [fst snd] in *. subst x. apply IH. exact Hr.
Qed.

Lemma accepted_prefix_cons last o r :
  accepted_prefix last (o :: r) =
  match snd (spec_call last o) with
  | Ok _ => (o :: fst (accepted_prefix (fst (spec_call last o)) r), snd (accepted_prefix (fst (spec_call last o)) r))
  | x => ([], x)
  end.
Proof.
  cbn [accepted_prefix]. destruct (spec_call last o) as [l' x]. cbn [fst snd].
  destruct x; auto. now destruct (accepted_prefix l' r).
Qed.

Theorem extend_stops_at_first_error ops : forall b,
  snd (run_extend b ops) <> Panic ->
  run_extend b ops = (fst (run_calls b (fst (accepted_prefix (b_last b) ops))),
                      snd (accepted_prefix (b_last b) ops)) /\
  Forall (fun r => r = Ok tt) (snd (run_calls b (fst (accepted_prefix (b_last b) ops)))) /\
  (forall e, snd (run_extend b ops) = Err e -> is_order_err e).
Proof.
  induction ops as [|o r IH]; intros b.
  - cbn. intros _. repeat split; auto. discriminate.
  - rewrite accepted_prefix_cons. cbn [run_extend].
    pose proof (apply_op_spec b o) as H. pose proof (apply_op_last b o) as HL.
    pose proof (apply_op_result b o) as HR.
    destruct (snd (spec_call (b_last b) o)) as [[]|e|]; [| |tauto].
    + cbn [fst snd]. rewrite run_calls_cons. cbn [fst snd]. rewrite <- HL.
      destruct (apply_op b o) as [b1 x]. cbn [fst snd] in *.
      destruct HR as [->|[-> _]]; [|cbn; intros Hc; contradiction].
      intros Hp. destruct (IH b1 Hp) as (A & B & C). repeat split; auto.
    + destruct H as (H & _ & Ho). rewrite H. cbn. intros _. repeat split; auto. intros e' [= <-]. exact Ho.
Qed.

(* ---------- finished bytes ---------- *)
Lemma new_builder_last ty rows cols : b_last (new_builder ty rows cols) = None.
Proof. reflexivity. Qed.

Theorem rejected_leave_no_trace summer ops b :
  b_finish summer (fst (run_calls b ops)) =
  b_finish summer (fst (run_calls b (accepted_ops (b_last b) ops))).
Proof. now rewrite <- calls_state_accepted. Qed.

(* single calls with rejected items in between = from_iter over the accepted items *)
Theorem rejected_leave_no_trace_build summer ty rows cols ops :
  Forall (fun r => r <> Panic) (snd (run_calls (new_builder ty rows cols) ops)) ->
  b_finish summer (fst (run_calls (new_builder ty rows cols) ops)) =
  build_ops summer ty rows cols (accepted_ops None ops).
Proof.
  intros H. apply accepted_ops_results in H. rewrite new_builder_last in H.
  unfold build_ops. rewrite (calls_eq_extend _ _ H).
  rewrite (calls_state_accepted ops (new_builder ty rows cols)), new_builder_last. reflexivity.
Qed.

(* specification side: the content and the call results of the accepted calls alone *)
Lemma spec_call_err_last last o e : snd (spec_call last o) = Err e -> fst (spec_call last o) = last.
Proof.
  destruct o as [k v|k]; cbn [spec_call]; destruct last as [l|]; cbn [andb snd fst]; try discriminate.
  - destruct (key_eqb k l); cbn [fst snd]; auto. destruct (key_ltb k l); cbn [fst snd]; auto. discriminate.
  - destruct (key_ltb k l); cbn [fst snd]; auto. discriminate.
Qed.
Lemma spec_call_no_panic last o : snd (spec_call last o) <> Panic.
Proof.
  destruct o as [k v|k]; cbn [spec_call]; destruct last as [l|]; cbn [andb snd fst]; try discriminate.
  - destruct (key_eqb k l); cbn [snd]; try discriminate. destruct (key_ltb k l); discriminate.
  - destruct (key_ltb k l); discriminate.
Qed.

Theorem spec_content_accepted ops : forall last acc,
  spec_content last ops acc = spec_content last (accepted_ops last ops) acc.
Proof.
  induction ops as [|o r IH]; intros last acc; [reflexivity|].
  rewrite accepted_ops_cons. cbn [spec_content].
  pose proof (spec_call_err_last last o) as HE. pose proof (spec_call_no_panic last o) as HP.
  destruct (spec_call last o) as [l' x] eqn:E. cbn [fst snd] in *.
  destruct x as [u|e|]; [|rewrite (HE e eq_refl); apply IH|congruence].
  cbn [spec_content]. rewrite E. apply IH.
Qed.

Theorem spec_calls_accepted ops : forall last,
  Forall (fun r => r = Ok tt) (spec_calls last (accepted_ops last ops)).
Proof.
  induction ops as [|o r IH]; intros last; [constructor|].
  rewrite accepted_ops_cons. destruct (snd (spec_call last o)) as [[]|e|] eqn:E.
  - rewrite spec_calls_cons, E. constructor; auto.
  - rewrite (spec_call_err_last _ _ _ E). apply IH.
  - exfalso. eapply spec_call_no_panic; eauto.
Qed.

(* ================= C12 (a): the node cache ================= *)
Lemma trans_eqb_eq a b : trans_eqb a b = true <-> a = b.
Proof.
  unfold trans_eqb. rewrite !andb_true_iff, !N.eqb_eq. destruct a, b; cbn. split.
  - intros [[-> ->] ->]. reflexivity.
  - intros [= -> -> ->]. auto.
Qed.

Lemma list_eqb_eq {A} (e : A -> A -> bool) (He : forall x y, e x y = true <-> x = y) a :
  forall b, list_eqb e a b = true <-> a = b.
Proof.
  induction a as [|x a IH]; intros [|y b]; cbn; try (split; congruence).
  rewrite andb_true_iff, He, IH. split; [intros [-> ->]; reflexivity|intros [= -> ->]; auto].
Qed.

Theorem bnode_eqb_eq a b : bnode_eqb a b = true <-> a = b.
Proof.
  unfold bnode_eqb. rewrite !andb_true_iff, Bool.eqb_true_iff, N.eqb_eq, (list_eqb_eq _ trans_eqb_eq).
  destruct a, b; cbn. split.
  - intros [[-> ->] ->]. reflexivity.
  - intros [= -> -> ->]. auto.
Qed.

Lemma cell_matches_iff c n : cell_matches c n = true <-> c_addr c <> NONE_ADDRESS /\ c_node c = n.
Proof.
  unfold cell_matches, cell_is_none. rewrite andb_true_iff, negb_true_iff, N.eqb_neq, bnode_eqb_eq. tauto.
Qed.

(* ---------- the sparse table ---------- *)
Lemma succ_pos_inj i j : N.succ_pos i = N.succ_pos j -> i = j.
Proof.
  intros H. apply (f_equal Npos) in H. rewrite !N.succ_pos_spec in H. lia.
Qed.

Lemma rget_rset r i c j : rget (rset r i c) j = if i =? j then c else rget r j.
Proof.
  unfold rget, rset. cbn [r_table]. destruct (N.eqb_spec i j) as [->|Hn].
  - now rewrite PositiveMap.gss.
  - rewrite PositiveMap.gso; auto. intros H. apply Hn. symmetry. now apply succ_pos_inj.
Qed.
Lemma rset_rows r i c : r_rows (rset r i c) = r_rows r. Proof. reflexivity. Qed.
Lemma rset_cols r i c : r_cols (rset r i c) = r_cols r. Proof. reflexivity. Qed.

(* rotation of the cells s .. s+i by one place, with c0 put at s *)
Definition rot_get (r : registry) (s i : N) (c0 : cell) (idx : N) : cell :=
  if (s <=? idx) && (idx <=? s + i) then (if idx =? s then c0 else rget r (idx - 1)) else rget r idx.

Lemma promote_geom r s i : r_rows (promote r s i) = r_rows r /\ r_cols (promote r s i) = r_cols r.
Proof. revert r; induction i as [|j IH]; intros r; cbn [promote]; auto. destruct (IH (rset (rset r (s + N.of_nat j) (rget r (s + N.of_nat (S j)))) (s + N.of_nat (S j)) (rget r (s + N.of_nat j)))) as [-> ->]. auto. Qed.

Lemma promote_get i : forall r s idx,
  rget (promote r s i) idx = rot_get r s (N.of_nat i) (rget r (s + N.of_nat i)) idx.
Proof.
  induction i as [|j IH]; intros r s idx.
  - cbn [promote]. unfold rot_get. change (N.of_nat 0) with 0. rewrite N.add_0_r.
    destruct (N.leb_spec s idx), (N.leb_spec idx s); cbn [andb]; auto.
    assert (idx = s) by lia. subst. now rewrite N.eqb_refl.
  - cbn [promote]. rewrite IH. unfold rot_get. rewrite !rget_rset.
    replace (N.of_nat (S j)) with (N.of_nat j + 1) by lia.
    repeat match goal with |- context [N.eqb ?a ?b] => destruct (N.eqb_spec a b) end;
    repeat match goal with |- context [N.leb ?a ?b] => destruct (N.leb_spec a b) end;
    cbn [andb]; try lia; try reflexivity; try (f_equal; lia).
Qed.

Lemma find_cell_spec r n s k : forall i0,
  match find_cell r n s k i0 with
  | Some i => i0 <= i < i0 + N.of_nat k /\ cell_matches (rget r (s + i)) n = true
  | None => forall j, i0 <= j < i0 + N.of_nat k -> cell_matches (rget r (s + j)) n = false
  end.
Proof.
  induction k as [|k IH]; intros i0; cbn [find_cell].
  - intros j Hj. lia.
  - destruct (cell_matches (rget r (s + i0)) n) eqn:E.
    + split; [lia|exact E].
    + specialize (IH (i0 + 1)). destruct (find_cell r n s k (i0 + 1)) as [i|].
      * destruct IH as [H1 H2]. split; [lia|exact H2].
      * intros j Hj. destruct (N.eq_dec j i0) as [->|Hn]; [exact E|]. apply IH. lia.
Qed.

Ltac split_cmp :=
  repeat match goal with |- context [N.eqb ?a ?b] => destruct (N.eqb_spec a b) end;
  repeat match goal with |- context [N.leb ?a ?b] => destruct (N.leb_spec a b) end;
  cbn [andb]; try lia; try reflexivity; try (f_equal; lia).

(* what [reg_entry] does, for all three code paths (1 column, 2 columns, the general loop):
   a hit at place i of the bucket rotates cells 0..i, a miss rotates the whole bucket and puts
   the node (with the evicted cell's address, until [reg_insert]) in front *)
Lemma reg_entry_spec r n r' e :
  r_rows r * r_cols r <> 0 -> reg_entry r n = (r', e) ->
  let s := r_cols r * reg_hash r n in
  r_rows r' = r_rows r /\ r_cols r' = r_cols r /\
  match e with
  | Found a => exists i, i < r_cols r /\ cell_matches (rget r (s + i)) n = true /\
                         a = c_addr (rget r (s + i)) /\
                         forall idx, rget r' idx = rot_get r s i (rget r (s + i)) idx
  | NotFound idx => idx = s /\ (forall j, j < r_cols r -> cell_matches (rget r (s + j)) n = false) /\
                    forall idx', rget r' idx' =
                                 rot_get r s (r_cols r - 1) (cell_with_node (rget r (s + (r_cols r - 1))) n) idx'
  | Rejected => False
  end.
Proof.
  intros Hg. unfold reg_entry. destruct (N.eqb_spec (r_rows r * r_cols r) 0) as [|_]; [contradiction|].
  set (s := r_cols r * reg_hash r n). cbv zeta.
  destruct (N.eqb_spec (r_cols r) 1) as [C1|C1]; [|destruct (N.eqb_spec (r_cols r) 2) as [C2|C2]].
  - destruct (cell_matches (rget r s) n) eqn:E; intros [= <- <-]; (split; [reflexivity|split; [reflexivity|]]).
    + exists 0. rewrite N.add_0_r. repeat split; auto; [lia|]. intros idx. unfold rot_get. split_cmp.
    + split; [reflexivity|]. split.
      * intros j Hj. assert (j = 0) by lia. subst. now rewrite N.add_0_r.
      * intros idx. rewrite rget_rset, C1. unfold rot_get. change (1 - 1) with 0. rewrite N.add_0_r. split_cmp.
  - destruct (cell_matches (rget r s) n) eqn:E1; [|destruct (cell_matches (rget r (s + 1)) n) eqn:E2];
      intros [= <- <-]; (split; [reflexivity|split; [reflexivity|]]).
    + exists 0. rewrite N.add_0_r. repeat split; auto; [lia|]. intros idx. unfold rot_get. split_cmp.
    + exists 1. repeat split; auto; [lia|]. intros idx. rewrite !rget_rset. unfold rot_get. split_cmp.
    + split; [reflexivity|]. split.
      * intros j Hj. assert (j = 0 \/ j = 1) as [->| ->] by lia; [now rewrite N.add_0_r|exact E2].
      * intros idx. rewrite !rget_rset, C2. change (2 - 1) with 1. unfold rot_get. split_cmp.
  - pose proof (find_cell_spec r n s (N.to_nat (r_cols r)) 0) as HF.
    destruct (find_cell r n s (N.to_nat (r_cols r)) 0) as [i|]; intros [= <- <-].
    + destruct (promote_geom r s (N.to_nat i)) as [-> ->]. split; [reflexivity|split; [reflexivity|]].
      destruct HF as [H1 H2]. exists i. repeat split; auto; [lia|].
      intros idx. rewrite promote_get, N2Nat.id. reflexivity.
    + match goal with |- r_rows (promote ?r1 _ _) = _ /\ _ => destruct (promote_geom r1 s (N.to_nat (r_cols r - 1))) as [-> ->] end.
      split; [reflexivity|split; [reflexivity|]]. split; [reflexivity|]. split.
      * intros j Hj. apply HF. lia.
      * intros idx. rewrite promote_get, N2Nat.id. unfold rot_get. rewrite !rget_rset. split_cmp.
Qed.

(* soundness of a hit: the address handed back is the one stored, in the node's own bucket,
   next to an equal node, and it is a real address *)
Theorem entry_found_sound r n r' a :
  reg_entry r n = (r', Found a) ->
  a <> NONE_ADDRESS /\
  exists j, j < r_cols r /\ rget r (r_cols r * reg_hash r n + j) = mkCell a n.
Proof.
  intros H. destruct (N.eq_dec (r_rows r * r_cols r) 0) as [Z|Z].
  - unfold reg_entry in H. rewrite Z in H. cbn in H. discriminate.
  - pose proof (reg_entry_spec r n r' (Found a) Z H) as (_ & _ & i & Hi & Hm & Ha & _).
    apply cell_matches_iff in Hm as [Hm1 Hm2]. subst a. split; [exact Hm1|].
    exists i. split; [exact Hi|]. destruct (rget r _); cbn in *. now subst.
Qed.

(* ---------- ghost state: the (address, node) pairs inserted so far ---------- *)
Definition in_bucket (r : registry) (n : bnode) (c : cell) : Prop :=
  exists j, j < r_cols r /\ rget r (r_cols r * reg_hash r n + j) = c.

Record reg_inv (r : registry) (S : list (N * bnode)) : Prop := mkRegInv {
  ri_geom : r_rows r * r_cols r <> 0;
  ri_complete : forall a n, In (a, n) S -> a <> NONE_ADDRESS /\ in_bucket r n (mkCell a n);
  ri_sound : forall idx, c_addr (rget r idx) <> NONE_ADDRESS ->
                         In (c_addr (rget r idx), c_node (rget r idx)) S;
  ri_nodup : NoDup (map snd S)
}.

Lemma reg_inv_new rows cols : rows * cols <> 0 -> reg_inv (reg_new rows cols) [].
Proof.
  intros H. split; auto.
  - intros a n [].
  - intros idx. unfold rget, reg_new. cbn [r_table]. rewrite PositiveMap.gempty. cbn. congruence.
  - constructor.
Qed.

Lemma bucket_out cols h h' j : h <> h' -> j < cols -> cols * h' + j < cols * h \/ cols * h + cols <= cols * h' + j.
Proof.
  intros Hn Hj. destruct (N.lt_ge_cases h' h) as [L|L].
  - left. assert (cols * (h' + 1) <= cols * h) by (apply N.mul_le_mono_l; lia). lia.
  - right. assert (cols * (h + 1) <= cols * h') by (apply N.mul_le_mono_l; lia). lia.
Qed.

Lemma rot_in_bucket r r' n i c0 n' c :
  r_rows r' = r_rows r -> r_cols r' = r_cols r -> i < r_cols r ->
  (forall idx, rget r' idx = rot_get r (r_cols r * reg_hash r n) i c0 idx) ->
  in_bucket r n' c -> (c = rget r (r_cols r * reg_hash r n + i) -> c = c0) -> in_bucket r' n' c.
Proof.
  intros Hr Hc Hi Hrot (j & Hj & Hget) Hdrop. unfold in_bucket.
  assert (Hh : reg_hash r' n' = reg_hash r n') by (unfold reg_hash; now rewrite Hr). rewrite Hh, Hc.
  set (s := r_cols r * reg_hash r n) in *.
  destruct (N.eq_dec (reg_hash r n) (reg_hash r n')) as [E|E].
  - fold s in Hget. rewrite <- E in *. fold s in Hget |- *.
    destruct (N.lt_trichotomy j i) as [L|[L|L]].
    + exists (j + 1). split; [lia|]. rewrite Hrot. unfold rot_get. rewrite <- Hget. split_cmp.
    + subst j. exists 0. split; [lia|]. rewrite Hrot. unfold rot_get. rewrite N.add_0_r.
      rewrite Hdrop; auto. split_cmp.
    + exists j. split; [exact Hj|]. rewrite Hrot. unfold rot_get. rewrite <- Hget. split_cmp.
  - exists j. split; [exact Hj|]. rewrite Hrot. unfold rot_get. rewrite <- Hget.
    pose proof (bucket_out (r_cols r) (reg_hash r n) (reg_hash r n') j E Hj). fold s in H. split_cmp.
Qed.

Lemma rot_cells r s i c0 idx : rot_get r s i c0 idx = c0 \/ exists idx2, rot_get r s i c0 idx = rget r idx2.
Proof. unfold rot_get. destruct (_ && _); [destruct (_ =? _)|]; eauto. Qed.

Lemma nodup_snd_unique (S : list (N * bnode)) a a' n :
  NoDup (map snd S) -> In (a, n) S -> In (a', n) S -> a = a'.
Proof.
  induction S as [|[x m] S IH]; cbn; intros Hn H1 H2; [contradiction|].
  inversion Hn as [|? ? Hnot Hn']; subst.
  destruct H1 as [H1|H1], H2 as [H2|H2]; auto.
  - congruence.
  - exfalso. apply Hnot. apply (in_map snd) in H2. cbn in H2. congruence.
  - exfalso. apply Hnot. apply (in_map snd) in H1. cbn in H1. congruence.
Qed.

(* a hit only permutes a bucket *)
Lemma inv_step_found r S n r' a :
  reg_inv r S -> reg_entry r n = (r', Found a) -> reg_inv r' S /\ In (a, n) S.
Proof.
  intros [Hg Hc Hs Hn] H.
  pose proof (reg_entry_spec r n r' (Found a) Hg H) as (Hr & Hcs & i & Hi & Hm & Ha & Hrot).
  apply cell_matches_iff in Hm as [Hm1 Hm2]. split.
  - split.
    + now rewrite Hr, Hcs.
    + intros a' n' Hin. destruct (Hc a' n' Hin) as [Hne Hb]. split; [exact Hne|].
      eapply rot_in_bucket; eauto.
    + intros idx. rewrite Hrot. destruct (rot_cells r (r_cols r * reg_hash r n) i (rget r (r_cols r * reg_hash r n + i)) idx) as [->|[idx2 ->]]; apply Hs.
    + exact Hn.
  - subst a. pose proof (Hs _ Hm1) as X. rewrite Hm2 in X. exact X.
Qed.

(* completeness: while nothing has been evicted, every inserted pair is found, with its address *)
Theorem no_evict_complete r S a n :
  reg_inv r S -> In (a, n) S -> exists r', reg_entry r n = (r', Found a) /\ reg_inv r' S.
Proof.
  intros HI Hin. destruct (reg_entry r n) as [r' e] eqn:E.
  pose proof HI as [Hg Hc Hs Hn].
  pose proof (reg_entry_spec r n r' e Hg E) as (_ & _ & He).
  destruct e as [a'|idx|]; [| |contradiction].
  - destruct (inv_step_found r S n r' a' HI E) as [HI' Hin'].
    assert (a = a') by (eapply nodup_snd_unique; eauto). subst. eauto.
  - exfalso. destruct He as (_ & Hno & _). destruct (Hc a n Hin) as [Hne (j & Hj & Hget)].
    specialize (Hno j Hj). rewrite Hget in Hno.
    assert (cell_matches (mkCell a n) n = true) by (apply cell_matches_iff; cbn; auto). congruence.
Qed.

(* a miss means the node has not been inserted before *)
Lemma notfound_fresh r S n r' idx :
  reg_inv r S -> reg_entry r n = (r', NotFound idx) -> ~ In n (map snd S).
Proof.
  intros HI E Hin. apply in_map_iff in Hin as ([a n'] & Hn' & Hin). cbn in Hn'. subst n'.
  destruct (no_evict_complete r S a n HI Hin) as (r2 & E2 & _). congruence.
Qed.

(* a miss that evicts nothing, followed by the insert of the new address *)
Lemma inv_step_notfound r S n r' idx la :
  reg_inv r S -> reg_entry r n = (r', NotFound idx) -> entry_evicts r' (NotFound idx) = false ->
  la <> NONE_ADDRESS -> reg_inv (reg_insert r' idx la) ((la, n) :: S).
Proof.
  intros HI E Hev Hla. pose proof (notfound_fresh r S n r' idx HI E) as Hfresh.
  destruct HI as [Hg Hc Hs Hn].
  pose proof (reg_entry_spec r n r' (NotFound idx) Hg E) as (Hr & Hcs & -> & Hno & Hrot).
  set (s := r_cols r * reg_hash r n) in *.
  assert (Hs0 : rget r' s = cell_with_node (rget r (s + (r_cols r - 1))) n).
  { rewrite Hrot. unfold rot_get. split_cmp. }
  cbn [entry_evicts] in Hev. apply negb_false_iff in Hev. unfold cell_is_none in Hev.
  apply N.eqb_eq in Hev. rewrite Hs0 in Hev. cbn [cell_with_node c_addr] in Hev.
  assert (Hcols : 0 < r_cols r) by (destruct (r_cols r); [lia|lia]).
  unfold reg_insert. rewrite Hs0. cbn [cell_with_node c_node].
  split.
  - cbn [rset r_rows r_cols]. now rewrite Hr, Hcs.
  - intros a' n' [[= <- <-]|Hin].
    + split; [exact Hla|]. exists 0. cbn [rset r_cols r_rows]. rewrite Hcs. split; [exact Hcols|].
      unfold reg_hash. cbn [r_rows rset]. rewrite Hr. fold (reg_hash r n). fold s.
      rewrite N.add_0_r, rget_rset, N.eqb_refl. reflexivity.
    + destruct (Hc a' n' Hin) as [Hne Hb]. split; [exact Hne|].
      assert (Hb' : in_bucket r' n' (mkCell a' n')).
      { eapply rot_in_bucket with (i := r_cols r - 1); eauto; [lia|].
        fold s. intros Heq. exfalso. rewrite <- Heq in Hev. cbn in Hev. contradiction. }
      destruct Hb' as (j & Hj & Hget). exists j. cbn [rset r_cols]. split; [exact Hj|].
      unfold reg_hash. cbn [r_rows rset]. fold (reg_hash r' n').
      rewrite rget_rset. destruct (N.eqb_spec s (r_cols r' * reg_hash r' n' + j)) as [Es|Es]; [|exact Hget].
      exfalso. rewrite <- Es, Hs0 in Hget. injection Hget as Ha _. rewrite Hev in Ha. congruence.
  - intros idx. rewrite rget_rset. destruct (N.eqb_spec s idx) as [Es|Es]; [left; reflexivity|].
    intros Hne. right. revert Hne. rewrite Hrot.
    destruct (rot_cells r s (r_cols r - 1) (cell_with_node (rget r (s + (r_cols r - 1))) n) idx) as [->|[idx2 ->]].
    + cbn [cell_with_node c_addr]. intros Hne. contradiction.
    + apply Hs.
  - cbn [map snd]. constructor; auto.
Qed.

(* ================= C12: ghost log of written nodes through the builder ================= *)
(* hook H2 counters: (hits, misses, evictions, rejected) *)
Definition evictions (b : builder) : N := snd (fst (b_stats b)).
Definition writes (b : builder) : N := snd (fst (fst (b_stats b))) + snd (b_stats b).

Definition trivial_node (n : bnode) : bool :=
  n_final n && (match n_trans n with [] => true | _ => false end) && (n_fout n =? 0).

(* the (address, node) pair [compile b n] writes, if it writes one *)
Definition compile_log (b : builder) (n : bnode) : list (N * bnode) :=
  if trivial_node n then [] else
  match snd (reg_entry (b_reg b) n) with
  | Found _ => []
  | _ => match snd (compile b n) with Ok a => [(a, n)] | _ => [] end
  end.

(* no eviction so far => the registry holds exactly the logged pairs *)
Definition ginv (b : builder) (S : list (N * bnode)) : Prop :=
  r_rows (b_reg b) * r_cols (b_reg b) <> 0 /\ (evictions b = 0 -> reg_inv (b_reg b) S).

Lemma compile_ok b n b' a :
  compile b n = (b', Ok a) ->
  b_stack b' = b_stack b /\
  writes b' = writes b + len (compile_log b n) /\
  (length (compile_log b n) <= 1)%nat /\
  forall S, ginv b S ->
    (a <> NONE_ADDRESS -> ginv b' (compile_log b n ++ S)) /\
    (evictions b' = 0 -> NoDup (map snd (compile_log b n ++ S))).
Proof.
  unfold compile_log. intros H. rewrite H. cbn [snd]. revert H. unfold compile. fold (trivial_node n).
  destruct (trivial_node n).
  { intros [= <- <-]. cbn [app]. split; [reflexivity|]. split; [cbn; lia|]. split; [cbn; lia|].
    intros S [Hg HS]. split; [intros _; split; assumption|].
    intros Hev. apply (ri_nodup _ _ (HS Hev)). }
  destruct (reg_entry (b_reg b) n) as [reg0 e] eqn:E. cbn [snd].
  unfold ginv. unfold writes, evictions. destruct (b_stats b) as [[[h m] v] rj] eqn:Est.
  destruct e as [a0|idx|].
  - intros [= <- <-]. cbn [b_stack b_stats b_reg bump fst snd app len length].
    split; [reflexivity|]. split; [cbn; lia|]. split; [cbn; lia|].
    intros S [Hg HS]. destruct (reg_entry_spec _ _ _ _ Hg E) as (Hr & Hc & _). cbn [b_stats fst snd] in *. split.
    + intros _. split; [now rewrite Hr, Hc|]. intros Hev. eapply inv_step_found; eauto.
    + intros Hev. apply (ri_nodup _ _ (HS Hev)).
  - destruct (compile_node _ _ _ _) as [cs| |]; [|discriminate|discriminate].
    intros [= <- <-]. cbn [b_stack b_stats b_reg b_write bump fst snd app len length b_count].
    split; [reflexivity|]. split; [cbn; lia|]. split; [cbn; lia|].
    intros S [Hg HS]. destruct (reg_entry_spec _ _ _ _ Hg E) as (Hr & Hc & _). cbn [b_stats fst snd] in *. split.
    + intros Hne. split.
      * unfold reg_insert. cbn [rset r_rows r_cols]. now rewrite Hr, Hc.
      * intros Hev. change (negb (cell_is_none (rget reg0 idx))) with (entry_evicts reg0 (NotFound idx)) in Hev.
        destruct (entry_evicts reg0 (NotFound idx)) eqn:Ee; [lia|].
        eapply inv_step_notfound; eauto.
    + intros Hev. change (negb (cell_is_none (rget reg0 idx))) with (entry_evicts reg0 (NotFound idx)) in Hev.
        destruct (entry_evicts reg0 (NotFound idx)) eqn:Ee; [lia|].
      cbn [map snd]. constructor; [|apply (ri_nodup _ _ (HS Hev))].
      eapply notfound_fresh; eauto.
  - destruct (compile_node _ _ _ _) as [cs| |]; [|discriminate|discriminate].
    intros [= <- <-]. cbn [b_stack b_stats b_reg b_write bump fst snd app len length b_count].
    split; [reflexivity|]. split; [cbn; lia|]. split; [cbn; lia|].
    intros S [Hg HS]. destruct (reg_entry_spec _ _ _ _ Hg E) as (_ & _ & []).
Qed.

Fixpoint cfr_log (b : builder) (rstack : list unf) (keep : nat) (addr : option N) : list (N * bnode) :=
  match rstack with
  | [] => []
  | u :: rest =>
    if Nat.ltb (S keep) (length rstack) then
      match (match addr with
             | None => match u_last u with None => Ok (u_node u) | Some _ => Panic end
             | Some a => Ok (freeze u a) end) with
      | Ok n =>
        match snd (compile b n) with
        | Ok a => cfr_log (fst (compile b n)) rest keep (Some a) ++ compile_log b n
        | _ => []
        end
      | _ => []
      end
    else []
  end.

Lemma cfr_ok rstack : forall b keep addr b' rst,
  compile_from_rev b rstack keep addr = (b', Ok rst) ->
  writes b' = writes b + N.of_nat (length (cfr_log b rstack keep addr)) /\
  (length (cfr_log b rstack keep addr) + length rst <= length rstack)%nat /\
  ((keep < length rstack)%nat ->
     exists x, u_last x = None /\ rst = x :: skipn (length rstack - keep) rstack) /\
  forall S, ginv b S -> ginv b' (cfr_log b rstack keep addr ++ S).
Proof.
  induction rstack as [|u rest IH]; intros b keep addr b' rst; [discriminate|].
  cbn [compile_from_rev cfr_log]. destruct (Nat.ltb_spec (S keep) (length (u :: rest))) as [L|L].
  - destruct (match addr with None => _ | Some a => _ end) as [n| |]; [|discriminate|discriminate].
    destruct (compile b n) as [b1 r] eqn:E. cbn [fst snd]. destruct r as [a| |]; [|discriminate|discriminate].
    destruct (N.eqb_spec a NONE_ADDRESS) as [|Hne]; [discriminate|].
    intros H. destruct (IH _ _ _ _ _ H) as (W & Ln & St & G).
    destruct (compile_ok _ _ _ _ E) as (_ & W1 & L1 & G1).
    rewrite app_length. split; [unfold len in W1; lia|]. split; [cbn [length] in *|split].
    + (* exactly one node is popped per compile; the log may be shorter (cache hits) *)
      cbn [length] in L. lia.
    + intros _. cbn [length] in L. destruct St as (x & Hx & ->); [lia|]. exists x. split; [exact Hx|].
      cbn [length]. replace (S (length rest) - keep)%nat with (S (length rest - keep)) by lia. reflexivity.
    + intros S HS. rewrite <- app_assoc. apply G. apply G1; auto.
  - intros [= <- <-]. cbn [length app] in *. split; [lia|]. split; [|split].
    + destruct addr; [|destruct (u_last u)]; cbn [length]; lia.
    + intros Hk. assert (keep = length rest) by lia. subst keep.
      replace (S (length rest) - length rest)%nat with 1%nat by lia. cbn [skipn].
      destruct addr; [|destruct (u_last u) eqn:Eu]; eexists; (split; [|reflexivity]); auto.
    + auto.
Qed.

Definition compile_from_log (b : builder) (i : nat) : list (N * bnode) := cfr_log b (rev (b_stack b)) i None.

Lemma compile_from_ok b i b' u :
  compile_from b i = (b', Ok u) ->
  writes b' = writes b + N.of_nat (length (compile_from_log b i)) /\
  (length (compile_from_log b i) + length (b_stack b') <= length (b_stack b))%nat /\
  ((i < length (b_stack b))%nat ->
     exists x, u_last x = None /\ b_stack b' = firstn i (b_stack b) ++ [x]) /\
  forall S, ginv b S -> ginv b' (compile_from_log b i ++ S).
Proof.
  unfold compile_from, compile_from_log.
  destruct (compile_from_rev b (rev (b_stack b)) i None) as [b1 r] eqn:E.
  destruct r as [rst| |]; [|discriminate|discriminate]. intros [= <-].
  destruct (cfr_ok _ _ _ _ _ _ E) as (W & L & St & G). rewrite rev_length in *.
  split; [exact W|]. split; [cbn [with_stack b_stack]; rewrite rev_length; exact L|]. split.
  - intros Hi. destruct (St Hi) as (x & Hx & ->). exists x. split; [exact Hx|].
    cbn [with_stack b_stack rev]. f_equal.
    transitivity (firstn i (rev (rev (b_stack b)))); [|now rewrite rev_involutive].
    rewrite firstn_rev, rev_length. reflexivity.
  - intros S HS. exact (G S HS).
Qed.

(* ---------- the unfinished stack spells the last key ---------- *)
Definition stack_inputs (st : list unf) : list (option N) := map (fun u => option_map fst (u_last u)) st.

Fixpoint lcp (a b : key) : nat :=
  match a, b with
  | x :: a', y :: b' => if x =? y then S (lcp a' b') else O
  | _, _ => O
  end.

Lemma lcp_facts a : forall b,
  (lcp a b <= length a)%nat /\ (lcp a b <= length b)%nat /\ firstn (lcp a b) a = firstn (lcp a b) b.
Proof.
  induction a as [|x a IH]; intros [|y b]; cbn [lcp length firstn]; try (repeat split; lia).
  destruct (N.eqb_spec x y) as [->|]; cbn [firstn]; [|repeat split; lia].
  destruct (IH b) as (A & B & C). repeat split; try lia. now rewrite C.
Qed.

Lemma lcp_full q : forall bs, lcp q bs = length bs -> kle q bs -> q = bs.
Proof.
  induction q as [|x q IH]; intros [|c bs]; cbn [lcp length]; try discriminate; auto.
  - intros _ H. exfalso. apply H. reflexivity.
  - destruct (N.eqb_spec x c) as [->|]; [|discriminate]. intros [= H] K. f_equal. apply IH; auto.
    unfold kle in *. cbn [lex_cmp] in K. now rewrite N.compare_refl in K.
Qed.

Lemma inputs_nil_key st q : stack_inputs st = map Some q ++ [None] ->
  match st with
  | [] => False
  | u :: rest => match u_last u with
                 | Some (i, _) => exists q', q = i :: q' /\ stack_inputs rest = map Some q' ++ [None]
                 | None => q = [] /\ rest = []
                 end
  end.
Proof.
  destruct st as [|u rest]; cbn [stack_inputs map].
  - destruct q; discriminate.
  - destruct (u_last u) as [[i o]|]; cbn [option_map fst]; destruct q as [|x q]; cbn [map app]; intros H;
      inversion H; subst.
    + eauto.
    + split; auto. destruct rest; [reflexivity|discriminate].
Qed.

Lemma fcp_ok bs : forall st out st' p o,
  fcp st bs out = Ok (st', p, o) ->
  length st' = length st /\ stack_inputs st' = stack_inputs st /\
  forall q, stack_inputs st = map Some q ++ [None] -> p = lcp q bs.
Proof.
  induction bs as [|c bs IH]; intros st out st' p o; cbn [fcp].
  - intros [= <- <- <-]. repeat split. intros q _. destruct q; reflexivity.
  - destruct st as [|u rest]; [discriminate|].
    destruct (u_last u) as [[i o1]|] eqn:Eu.
    + destruct (N.eqb_spec i c) as [->|Hne].
      * set (rest' := if _ =? 0 then Ok rest else _).
        assert (Hr : forall r2, rest' = Ok r2 -> length r2 = length rest /\ stack_inputs r2 = stack_inputs rest).
        { subst rest'. destruct (_ =? 0); [intros r2 [= <-]; auto|].
          destruct rest as [|r rr]; [discriminate|]. intros r2 [= <-]. split; [reflexivity|].
          cbn [stack_inputs map]. f_equal. unfold add_output_prefix. cbn [u_last].
          destruct (u_last r) as [[? ?]|]; reflexivity. }
        destruct rest' as [r2| |]; cbn [bind]; [|discriminate|discriminate].
        destruct (Hr r2 eq_refl) as [Hl Hi].
        destruct (fcp r2 bs _) as [[[s n] o2]| |] eqn:E; cbn [bind]; [|discriminate|discriminate].
        intros [= <- <- <-]. destruct (IH _ _ _ _ _ E) as (A & B & C).
        split; [cbn [length]; lia|]. split.
        -- cbn [stack_inputs map u_last option_map fst]. rewrite Eu. cbn [option_map fst]. f_equal.
           fold (stack_inputs s). fold (stack_inputs rest). congruence.
        -- intros q Hq. apply inputs_nil_key in Hq. rewrite Eu in Hq. destruct Hq as (q' & -> & Hq').
           cbn [lcp]. rewrite N.eqb_refl. f_equal. apply C. congruence.
      * intros [= <- <- <-]. repeat split. intros q Hq. apply inputs_nil_key in Hq. rewrite Eu in Hq.
        destruct Hq as (q' & -> & _). cbn [lcp]. destruct (N.eqb_spec i c); [contradiction|reflexivity].
    + intros [= <- <- <-]. repeat split. intros q Hq. apply inputs_nil_key in Hq. rewrite Eu in Hq.
      destruct Hq as [-> _]. reflexivity.
Qed.

Lemma fcp0_lcp bs : forall st q, stack_inputs st = map Some q ++ [None] -> fcp0 st bs = lcp q bs.
Proof.
  induction bs as [|c bs IH]; intros st q Hq.
  - destruct st; destruct q; reflexivity.
  - apply inputs_nil_key in Hq. destruct st as [|u rest]; [contradiction|]. cbn [fcp0].
    destruct (u_last u) as [[i o]|].
    + destruct Hq as (q' & -> & Hq'). cbn [lcp]. destruct (i =? c); [|reflexivity]. f_equal. now apply IH.
    + destruct Hq as [-> _]. reflexivity.
Qed.

Lemma suffix_nodes_facts r :
  length (suffix_nodes r) = S (length r) /\ stack_inputs (suffix_nodes r) = map Some r ++ [None].
Proof.
  induction r as [|c r [IH1 IH2]]; cbn [suffix_nodes length stack_inputs map]; auto.
  split; [lia|]. cbn. f_equal. exact IH2.
Qed.

Lemma add_suffix_ok q x c r o st' :
  add_suffix (q ++ [x]) (c :: r) o = Ok st' ->
  u_last x = None /\ st' = q ++ [mkUnf (u_node x) (Some (c, o))] ++ suffix_nodes r.
Proof.
  unfold add_suffix. rewrite rev_app_distr. cbn [rev app]. destruct (u_last x); [discriminate|].
  rewrite rev_involutive. intros [= <-]. auto.
Qed.

Definition insert_output_log (b : builder) (bs : key) (out : option N) : list (N * bnode) :=
  match bs with
  | [] => []
  | _ =>
    if (match out with None => true | Some _ => false end) && Nat.eqb (fcp0 (b_stack b) bs) (length bs)
    then [] else
    match fcp (b_stack b) bs (match out with Some o => o | None => 0 end) with
    | Ok (st, p, o) =>
      if Nat.eqb p (length bs) then []
      else compile_from_log (with_len (with_stack b st) (b_len (with_stack b st) + 1)) p
    | _ => []
    end
  end.

Lemma ginv_same b b' S : b_reg b' = b_reg b -> b_stats b' = b_stats b -> ginv b S -> ginv b' S.
Proof. unfold ginv, evictions. intros -> ->. auto. Qed.

Lemma insert_output_ok b bs out b' u q :
  insert_output b bs out = (b', Ok u) ->
  stack_inputs (b_stack b) = map Some q ++ [None] -> kle q bs ->
  stack_inputs (b_stack b') = map Some bs ++ [None] /\
  writes b' = writes b + N.of_nat (length (insert_output_log b bs out)) /\
  (length (insert_output_log b bs out) + length (b_stack b') <=
   length (b_stack b) + (length bs - lcp q bs))%nat /\
  forall S, ginv b S -> ginv b' (insert_output_log b bs out ++ S).
Proof.
  unfold insert_output, insert_output_log. destruct bs as [|c bs].
  - intros H Hq K. assert (q = []) as ->.
    { destruct q; auto. exfalso. apply K. reflexivity. }
    destruct (match out with None => _ | Some _ => _ end).
    + injection H as <- _. cbn [with_len b_stack length app].
      split; [exact Hq|]. split; [unfold writes; cbn; lia|]. split; [lia|].
      intros S HS. eapply ginv_same; eauto.
    + unfold set_root_output in H. destruct (b_stack b) as [|r rest] eqn:Es; [discriminate|].
      injection H as <- _. cbn [with_len with_stack b_stack length app].
      split; [exact Hq|]. split; [unfold writes; cbn; lia|]. split; [cbn [length]; lia|].
      intros S HS. eapply ginv_same; eauto.
  - destruct ((match out with None => true | Some _ => false end) &&
              Nat.eqb (fcp0 (b_stack b) (c :: bs)) (length (c :: bs))) eqn:Edup.
    { intros H Hq K. injection H as <- _. apply andb_true_iff in Edup as [_ Edup].
      apply Nat.eqb_eq in Edup. rewrite (fcp0_lcp _ _ _ Hq) in Edup. apply lcp_full in Edup; auto. subst q.
      cbn [app length]. split; [exact Hq|]. split; [cbn; lia|]. split; [lia|]. auto. }
    set (o0 := match out with Some o => o | None => 0 end).
    destruct (fcp (b_stack b) (c :: bs) o0) as [[[st p] o]| |] eqn:E; [|discriminate|discriminate].
    destruct (fcp_ok _ _ _ _ _ _ E) as (Fl & Fi & Fp). intros H Hq K. specialize (Fp q Hq). subst p.
    destruct (lcp_facts q (c :: bs)) as (P1 & P2 & P3).
    destruct (Nat.eqb_spec (lcp q (c :: bs)) (length (c :: bs))) as [Ep|Ep].
    + destruct (o =? 0); [|discriminate]. injection H as <- _.
      cbn [with_stack b_stack app length]. apply lcp_full in Ep; auto. subst q.
      split; [congruence|]. split; [unfold writes; cbn; lia|]. split; [lia|].
      intros S HS. eapply ginv_same; eauto.
    + set (b2 := with_len (with_stack b st) (b_len (with_stack b st) + 1)) in *.
      destruct (compile_from b2 (lcp q (c :: bs))) as [b3 r] eqn:Ec.
      destruct r as [u1| |]; [|discriminate|discriminate].
      destruct (compile_from_ok _ _ _ _ Ec) as (W & L & St & G).
      assert (Hlen : length st = S (length q)).
      { rewrite Fl. apply (f_equal (@length _)) in Hq. unfold stack_inputs in Hq.
        rewrite map_length, app_length, map_length in Hq. cbn in Hq. lia. }
      destruct St as (x & Hx & Hst3); [cbn [b2 with_len with_stack b_stack]; lia|].
      cbn [b2 with_len with_stack b_stack] in Hst3, L.
      destruct (skipn (lcp q (c :: bs)) (c :: bs)) as [|c2 r2] eqn:Esk.
      { exfalso. apply (f_equal (@length _)) in Esk. rewrite skipn_length in Esk. cbn [length] in *. lia. }
      rewrite Hst3 in H. destruct (add_suffix _ _ _) as [st4| |] eqn:Ea; [|discriminate|discriminate].
      apply add_suffix_ok in Ea as [_ ->]. injection H as <- _.
      cbn [with_stack b_stack].
      destruct (suffix_nodes_facts r2) as [Sl Si].
      split; [|split; [|split]].
      * unfold stack_inputs. rewrite map_app. cbn [app map u_last option_map fst].
        fold (stack_inputs (suffix_nodes r2)). rewrite Si.
        rewrite <- firstn_map. fold (stack_inputs st).
        rewrite Fi, Hq. rewrite firstn_app, map_length.
        replace (lcp q (c :: bs) - length q)%nat with 0%nat by lia. cbn [firstn]. rewrite app_nil_r.
        rewrite firstn_map, P3.
        change (Some c2 :: map Some r2 ++ [None]) with (map Some (c2 :: r2) ++ [None]).
        rewrite <- Esk, app_assoc, <- map_app, firstn_skipn. reflexivity.
      * exact W.
      * rewrite Hst3, app_length, firstn_length in L.
        rewrite app_length. cbn [app length]. rewrite Sl, firstn_length.
        assert (length (c2 :: r2) = length (c :: bs) - lcp q (c :: bs))%nat by (rewrite <- Esk; apply skipn_length).
        cbn [length] in *. lia.
      * intros S HS. eapply ginv_same; [| |apply G; eapply ginv_same; [| |exact HS]]; reflexivity.
Qed.

Definition last_key (b : builder) : key := match b_last b with Some k => k | None => [] end.
Definition stack_ok (b : builder) : Prop := stack_inputs (b_stack b) = map Some (last_key b) ++ [None].

Definition apply_op_log (b : builder) (o : op) : list (N * bnode) :=
  match snd (spec_call (b_last b) o) with
  | Ok _ => insert_output_log (with_last b (Some (op_key o))) (op_key o) (op_out o)
  | _ => []
  end.

Lemma kle_nil k : kle [] k.
Proof. unfold kle. destruct k; cbn; discriminate. Qed.

Lemma spec_call_ok_kle last o :
  snd (spec_call last o) = Ok tt -> kle (match last with Some k => k | None => [] end) (op_key o).
Proof.
  destruct last as [l|]; [|intros _; apply kle_nil].
  destruct o as [k v|k]; cbn [spec_call op_key andb].
  - destruct (key_eqb k l); [discriminate|]. destruct (key_ltb k l) eqn:L; [discriminate|].
    intros _. now apply key_ltb_false_kle.
  - destruct (key_ltb k l) eqn:L; [discriminate|]. intros _. now apply key_ltb_false_kle.
Qed.

Lemma apply_op_ok b o b' u :
  apply_op b o = (b', Ok u) -> stack_ok b ->
  stack_ok b' /\ kle (last_key b) (op_key o) /\ last_key b' = op_key o /\
  writes b' = writes b + N.of_nat (length (apply_op_log b o)) /\
  (length (apply_op_log b o) + length (b_stack b') <=
   length (b_stack b) + (length (op_key o) - lcp (last_key b) (op_key o)))%nat /\
  forall S, ginv b S -> ginv b' (apply_op_log b o ++ S).
Proof.
  intros H Hs. pose proof (apply_op_spec b o) as Hsp. pose proof (apply_op_last b o) as HL.
  unfold apply_op_log. pose proof (spec_call_ok_kle (b_last b) o) as HK. fold (last_key b) in HK.
  destruct (snd (spec_call (b_last b) o)) as [[]|e|]; [| |tauto].
  - destruct Hsp as [Hsp Hl]. rewrite H in Hsp. symmetry in Hsp. specialize (HK eq_refl).
    destruct (insert_output_ok _ _ _ _ _ (last_key b) Hsp Hs HK) as (A & B & C & D).
    rewrite H in HL. cbn [fst] in HL. rewrite Hl in HL.
    assert (Hk' : last_key b' = op_key o) by (unfold last_key; now rewrite HL).
    split; [unfold stack_ok; now rewrite Hk'|]. split; [exact HK|]. split; [exact Hk'|].
    split; [exact B|]. split; [exact C|].
    intros S HS. apply D. eapply ginv_same; [| |exact HS]; reflexivity.
  - destruct Hsp as (Hsp & _). rewrite H in Hsp. discriminate.
Qed.

Fixpoint run_extend_log (b : builder) (ops : list op) : list (N * bnode) :=
  match ops with
  | [] => []
  | o :: r => match snd (apply_op b o) with
              | Ok _ => run_extend_log (fst (apply_op b o)) r ++ apply_op_log b o
              | _ => []
              end
  end.

(* new unfinished nodes per key: the bytes after the common prefix with the previous key *)
Fixpoint trie_lcp (prev : key) (ks : list key) : nat :=
  match ks with
  | [] => O
  | k :: r => ((length k - lcp prev k) + trie_lcp k r)%nat
  end.
Fixpoint kle_chain (prev : key) (ks : list key) : Prop :=
  match ks with
  | [] => True
  | k :: r => kle prev k /\ kle_chain k r
  end.

Lemma run_extend_ok ops : forall b b' u,
  run_extend b ops = (b', Ok u) -> stack_ok b ->
  stack_ok b' /\ kle_chain (last_key b) (map op_key ops) /\
  writes b' = writes b + N.of_nat (length (run_extend_log b ops)) /\
  (length (run_extend_log b ops) + length (b_stack b') <=
   length (b_stack b) + trie_lcp (last_key b) (map op_key ops))%nat /\
  forall S, ginv b S -> ginv b' (run_extend_log b ops ++ S).
Proof.
  induction ops as [|o r IH]; intros b b' u.
  - intros [= <- _] Hs. cbn [run_extend_log map trie_lcp kle_chain length app].
    split; [exact Hs|]. split; [exact I|]. split; [cbn; lia|]. split; [lia|]. auto.
  - cbn [run_extend run_extend_log map trie_lcp kle_chain].
    destruct (apply_op b o) as [b1 x] eqn:E. cbn [fst snd].
    destruct x as [u1| |]; [|discriminate|discriminate]. intros H Hs.
    destruct (apply_op_ok _ _ _ _ E Hs) as (A & K & Lk & W & L & G).
    destruct (IH _ _ _ H A) as (A2 & K2 & W2 & L2 & G2). rewrite Lk in *.
    split; [exact A2|]. split; [split; assumption|]. rewrite app_length.
    split; [lia|]. split; [lia|].
    intros S HS. rewrite <- app_assoc. apply G2, G, HS.
Qed.

Definition finish_log (b : builder) : list (N * bnode) :=
  match snd (compile_from b 0) with
  | Ok _ => match b_stack (fst (compile_from b 0)) with
            | [root] => compile_log (fst (compile_from b 0)) (u_node root) ++ compile_from_log b 0
            | _ => []
            end
  | _ => []
  end.

Definition stats_evictions (s : N * N * N * N) : N := snd (fst s).
Definition stats_writes (s : N * N * N * N) : N := snd (fst (fst s)) + snd s.

Lemma finish_ok summer b bytes stats :
  b_finish_full summer b = Ok (bytes, stats) ->
  stats_writes stats = writes b + N.of_nat (length (finish_log b)) /\
  (length (finish_log b) <= length (b_stack b))%nat /\
  forall S, ginv b S -> stats_evictions stats = 0 -> NoDup (map snd (finish_log b ++ S)).
Proof.
  unfold b_finish_full, finish_log. destruct (compile_from b 0) as [b1 r] eqn:E. cbn [fst snd].
  destruct r as [u| |]; [|discriminate|discriminate].
  destruct (compile_from_ok _ _ _ _ E) as (W & L & _ & G).
  destruct (b_stack b1) as [|root [|? ?]] eqn:Es; [discriminate| |discriminate].
  destruct (u_last root); [discriminate|].
  destruct (compile b1 (u_node root)) as [b2 r2] eqn:E2.
  destruct r2 as [ra| |]; [|discriminate|discriminate]. intros [= _ <-].
  destruct (compile_ok _ _ _ _ E2) as (_ & W2 & L2 & G2).
  rewrite app_length. cbn [length] in L. unfold len in W2.
  split; [unfold stats_writes; cbn [b_write b_stats]; fold (writes b2); lia|]. split; [lia|].
  intros S HS Hev. rewrite <- app_assoc. apply (G2 _ (G S HS)). exact Hev.
Qed.

Definition build_log (ty rows cols : N) (ops : list op) : list (N * bnode) :=
  finish_log (fst (run_extend (new_builder ty rows cols) ops)) ++ run_extend_log (new_builder ty rows cols) ops.

(* everything at once about a successful build *)
Lemma build_ok summer ty rows cols ops bytes stats :
  run_extend (new_builder ty rows cols) ops = (fst (run_extend (new_builder ty rows cols) ops), Ok tt) ->
  b_finish_full summer (fst (run_extend (new_builder ty rows cols) ops)) = Ok (bytes, stats) ->
  kle_chain [] (map op_key ops) /\
  stats_writes stats = N.of_nat (length (build_log ty rows cols ops)) /\
  (length (build_log ty rows cols ops) <= 1 + trie_lcp [] (map op_key ops))%nat /\
  (rows * cols <> 0 -> stats_evictions stats = 0 -> NoDup (map snd (build_log ty rows cols ops))).
Proof.
  intros H1 H2. unfold build_log. set (b0 := new_builder ty rows cols) in *.
  set (b := fst (run_extend b0 ops)) in *.
  assert (Hs0 : stack_ok b0) by reflexivity.
  destruct (run_extend_ok _ _ _ _ H1 Hs0) as (A & K & W & L & G).
  destruct (finish_ok _ _ _ _ H2) as (W2 & L2 & G2).
  change (last_key b0) with (@nil N) in *. change (length (b_stack b0)) with 1%nat in L.
  change (writes b0) with 0 in W.
  split; [exact K|]. rewrite app_length. split; [lia|]. split; [lia|].
  intros Hg Hev. apply G2; auto. rewrite <- (app_nil_r (run_extend_log b0 ops)).
  apply G. split; [exact Hg|]. intros _. apply reg_inv_new. exact Hg.
Qed.

(* ================= C12 (b): counting the prefixes of a sorted key sequence ================= *)
Definition is_prefix (p g : key) : Prop := exists t, g = p ++ t.

Lemma firstn_is_prefix j (k : key) : is_prefix (firstn j k) k.
Proof. exists (skipn j k). symmetry. apply firstn_skipn. Qed.

Lemma kle_cons_inv x g y m : kle (x :: g) (y :: m) -> x < y \/ (x = y /\ kle g m).
Proof.
  unfold kle. cbn [lex_cmp]. destruct (N.compare_spec x y) as [->|L|G]; auto.
  intros H. exfalso. apply H. reflexivity.
Qed.

(* the keys having a given prefix form an interval of the lexicographic order *)
Lemma prefix_convex p : forall g m k,
  is_prefix p g -> is_prefix p k -> kle g m -> kle m k -> is_prefix p m.
Proof.
  induction p as [|x p IH]; intros g m k [t1 ->] [t2 ->] K1 K2.
  - exists m. reflexivity.
  - cbn [app] in *. destruct m as [|y m].
    + exfalso. apply K1. reflexivity.
    + apply kle_cons_inv in K1. apply kle_cons_inv in K2.
      destruct K1 as [K1|[-> K1]], K2 as [K2|[E2 K2]]; try lia.
      destruct (IH (p ++ t1) m (p ++ t2)) as [t Ht]; try (eexists; reflexivity); auto.
      exists t. cbn [app]. now rewrite Ht.
Qed.

Lemma prefix_le_lcp p : forall a b, is_prefix p a -> is_prefix p b -> (length p <= lcp a b)%nat.
Proof.
  induction p as [|x p IH]; intros a b [t1 ->] [t2 ->]; cbn [length]; [lia|].
  cbn [app lcp]. rewrite N.eqb_refl. apply le_n_S. apply IH; eexists; reflexivity.
Qed.

Definition new_prefixes (prev k : key) : list key :=
  map (fun j => firstn j k) (seq (S (lcp prev k)) (length k - lcp prev k)).
Fixpoint np_list (prev : key) (ks : list key) : list key :=
  match ks with
  | [] => []
  | k :: r => new_prefixes prev k ++ np_list k r
  end.

Lemma np_list_length ks : forall prev, length (np_list prev ks) = trie_lcp prev ks.
Proof.
  induction ks as [|k r IH]; intros prev; [reflexivity|].
  cbn [np_list trie_lcp]. rewrite app_length, IH. unfold new_prefixes. now rewrite map_length, seq_length.
Qed.

Lemma NoDup_map_in {A B} (f : A -> B) l :
  (forall x y, In x l -> In y l -> f x = f y -> x = y) -> NoDup l -> NoDup (map f l).
Proof.
  induction l as [|a l IH]; intros Hf Hn; [constructor|]. inversion Hn; subst. cbn [map]. constructor.
  - intros Hin. apply in_map_iff in Hin as (y & Hy & Hin). assert (y = a) by (apply Hf; cbn; auto). congruence.
  - apply IH; auto. intros x y Hx Hy. apply Hf; cbn; auto.
Qed.

Lemma NoDup_app_intro {A} (a b : list A) :
  NoDup a -> NoDup b -> (forall x, In x a -> ~ In x b) -> NoDup (a ++ b).
Proof.
  induction a as [|x a IH]; intros Ha Hb Hd; [exact Hb|]. inversion Ha; subst. cbn [app]. constructor.
  - rewrite in_app_iff. intros [H|H]; [contradiction|]. apply (Hd x); cbn; auto.
  - apply IH; auto. intros y Hy. apply Hd. cbn; auto.
Qed.

Lemma new_prefixes_spec prev k p :
  In p (new_prefixes prev k) <-> exists j, (lcp prev k < j <= length k)%nat /\ p = firstn j k.
Proof.
  unfold new_prefixes. rewrite in_map_iff. destruct (lcp_facts prev k) as (_ & Hl & _). split.
  - intros (j & <- & Hj). apply in_seq in Hj. exists j. split; [lia|reflexivity].
  - intros (j & Hj & ->). exists j. split; [reflexivity|]. apply in_seq. lia.
Qed.

Lemma np_list_facts ks : forall prev,
  kle_chain prev ks ->
  NoDup (np_list prev ks) /\
  (forall p, In p (np_list prev ks) -> forall g, kle g prev -> ~ is_prefix p g) /\
  (forall p, In p (np_list prev ks) -> exists k j, In k ks /\ (j <= length k)%nat /\ p = firstn j k).
Proof.
  induction ks as [|k r IH]; intros prev.
  - intros _. cbn. split; [constructor|]. split; intros p [].
  - cbn [kle_chain np_list]. intros [K C]. destruct (IH k C) as (N2 & F2 & I2).
    assert (F1 : forall p, In p (new_prefixes prev k) -> forall g, kle g prev -> ~ is_prefix p g).
    { intros p Hp g Hg Hpg. apply new_prefixes_spec in Hp as (j & Hj & ->).
      assert (Hpp : is_prefix (firstn j k) prev).
      { eapply prefix_convex; [exact Hpg|apply firstn_is_prefix|exact Hg|exact K]. }
      pose proof (prefix_le_lcp _ _ _ Hpp (firstn_is_prefix j k)) as Hl.
      rewrite firstn_length in Hl. lia. }
    split; [|split].
    + apply NoDup_app_intro; auto.
      * unfold new_prefixes. apply NoDup_map_in; [|apply seq_NoDup].
        intros x y Hx Hy Hxy. apply in_seq in Hx, Hy. destruct (lcp_facts prev k) as (_ & Hl & _).
        apply (f_equal (@length _)) in Hxy. rewrite !firstn_length in Hxy. lia.
      * intros p Hp Hp2. apply new_prefixes_spec in Hp as (j & Hj & ->).
        apply (F2 _ Hp2 k (kle_refl k)). apply firstn_is_prefix.
    + intros p Hp. apply in_app_iff in Hp as [Hp|Hp]; [now apply F1|].
      intros g Hg. apply (F2 p Hp). eapply kle_trans; eauto.
    + intros p Hp. apply in_app_iff in Hp as [Hp|Hp].
      * apply new_prefixes_spec in Hp as (j & Hj & ->). exists k, j. cbn; repeat split; auto; lia.
      * destruct (I2 p Hp) as (k' & j & Hk' & Hj & ->). exists k', j. cbn; auto.
Qed.

(* [l] lists (at least) every prefix of every key, the empty one included *)
Definition covers_prefixes (ks l : list key) : Prop :=
  In [] l /\ forall k j, In k ks -> (j <= length k)%nat -> In (firstn j k) l.

Theorem trie_lcp_le_prefixes ks l :
  kle_chain [] ks -> covers_prefixes ks l -> (1 + trie_lcp [] ks <= length l)%nat.
Proof.
  intros C [H0 Hc]. destruct (np_list_facts ks [] C) as (N1 & F1 & I1).
  rewrite <- np_list_length. change (1 + length (np_list [] ks))%nat with (length ([] :: np_list [] ks)).
  apply NoDup_incl_length.
  - constructor; [|exact N1]. intros Hin. apply (F1 _ Hin [] (kle_refl [])). exists []. reflexivity.
  - intros p [<-|Hp]; [exact H0|]. destruct (I1 p Hp) as (k & j & Hk & Hj & ->). now apply Hc.
Qed.

(* the canonical cover: all prefixes of all keys with duplicates removed = the nodes of the trie *)
Definition all_prefixes (k : key) : list key := map (fun j => firstn j k) (seq 0 (S (length k))).
Definition trie_nodes (ks : list key) : list key :=
  nodup (list_eq_dec N.eq_dec) ([] :: flat_map all_prefixes ks).

Lemma trie_nodes_covers ks : covers_prefixes ks (trie_nodes ks).
Proof.
  unfold trie_nodes. split.
  - apply nodup_In. cbn; auto.
  - intros k j Hk Hj. apply nodup_In. right. apply in_flat_map. exists k. split; [exact Hk|].
    unfold all_prefixes. apply in_map_iff. exists j. split; [reflexivity|]. apply in_seq. lia.
Qed.

Lemma trie_nodes_spec ks p :
  In p (trie_nodes ks) <-> p = [] \/ exists k, In k ks /\ is_prefix p k.
Proof.
  unfold trie_nodes. rewrite nodup_In. cbn [In]. rewrite in_flat_map. split.
  - intros [<-|(k & Hk & Hp)]; auto. right. exists k. split; [exact Hk|].
    unfold all_prefixes in Hp. apply in_map_iff in Hp as (j & <- & _). apply firstn_is_prefix.
  - intros [->|(k & Hk & [t ->])]; auto. right. exists (p ++ t). split; [exact Hk|].
    unfold all_prefixes. apply in_map_iff. exists (length p). split.
    + rewrite firstn_app, Nat.sub_diag, firstn_all. cbn. apply app_nil_r.
    + apply in_seq. rewrite app_length. lia.
Qed.

Theorem trie_bound summer ty rows cols ops bytes stats :
  run_extend (new_builder ty rows cols) ops = (fst (run_extend (new_builder ty rows cols) ops), Ok tt) ->
  b_finish_full summer (fst (run_extend (new_builder ty rows cols) ops)) = Ok (bytes, stats) ->
  stats_writes stats = N.of_nat (length (build_log ty rows cols ops)) /\
  (length (build_log ty rows cols ops) <= length (trie_nodes (map op_key ops)))%nat.
Proof.
  intros H1 H2. destruct (build_ok _ _ _ _ _ _ _ H1 H2) as (K & W & L & _). split; [exact W|].
  pose proof (trie_lcp_le_prefixes _ _ K (trie_nodes_covers (map op_key ops))). lia.
Qed.

Theorem no_dup_nodes summer ty rows cols ops bytes stats :
  rows * cols <> 0 ->
  run_extend (new_builder ty rows cols) ops = (fst (run_extend (new_builder ty rows cols) ops), Ok tt) ->
  b_finish_full summer (fst (run_extend (new_builder ty rows cols) ops)) = Ok (bytes, stats) ->
  stats_evictions stats = 0 ->
  NoDup (map snd (build_log ty rows cols ops)).
Proof.
  intros Hg H1 H2 Hev. destruct (build_ok _ _ _ _ _ _ _ H1 H2) as (_ & _ & _ & N1). auto.
Qed.

(* while the counters show no eviction, the cache holds exactly the nodes written so far, and
   looking any of them up again is a hit with the address it was written at *)
Theorem cache_exact_run ty rows cols ops b :
  rows * cols <> 0 ->
  run_extend (new_builder ty rows cols) ops = (b, Ok tt) -> evictions b = 0 ->
  reg_inv (b_reg b) (run_extend_log (new_builder ty rows cols) ops).
Proof.
  intros Hg H Hev. assert (Hs0 : stack_ok (new_builder ty rows cols)) by reflexivity.
  destruct (run_extend_ok _ _ _ _ H Hs0) as (_ & _ & _ & _ & G).
  rewrite <- (app_nil_r (run_extend_log _ ops)). apply (G []); auto.
  split; [exact Hg|]. intros _. apply reg_inv_new. exact Hg.
Qed.

Theorem cache_complete_run ty rows cols ops b a n :
  rows * cols <> 0 ->
  run_extend (new_builder ty rows cols) ops = (b, Ok tt) -> evictions b = 0 ->
  In (a, n) (run_extend_log (new_builder ty rows cols) ops) ->
  exists r', reg_entry (b_reg b) n = (r', Found a).
Proof.
  intros Hg H Hev Hin. pose proof (cache_exact_run _ _ _ _ _ Hg H Hev) as HI.
  destruct (no_evict_complete _ _ _ _ HI Hin) as (r' & E & _). eauto.
Qed.

(* ================= C15: the front ends mean the same thing ================= *)
(* the root is not final before the first accepted key *)
Definition root_fresh (b : builder) : Prop :=
  b_last b = None -> match b_stack b with r :: _ => n_final (u_node r) = false | [] => True end.

Lemma root_fresh_new ty rows cols : root_fresh (new_builder ty rows cols).
Proof. intros _. reflexivity. Qed.

Lemma root_fresh_apply b o : root_fresh b -> root_fresh (fst (apply_op b o)).
Proof.
  intros H. pose proof (apply_op_spec b o) as H1. pose proof (apply_op_last b o) as HL.
  destruct (snd (spec_call (b_last b) o)); [| |tauto].
  - intros E. rewrite HL, (proj2 H1) in E. discriminate.
  - destruct H1 as (-> & _). exact H.
Qed.

Lemma root_fresh_calls ops : forall b, root_fresh b -> root_fresh (fst (run_calls b ops)).
Proof.
  induction ops as [|o r IH]; intros b H; [exact H|].
  rewrite run_calls_cons. cbn [fst]. apply IH, root_fresh_apply, H.
Qed.

(* the unfinished stack spells the last key after any calls that did not panic *)
Lemma stack_ok_new ty rows cols : stack_ok (new_builder ty rows cols).
Proof. reflexivity. Qed.

Lemma stack_ok_apply b o : stack_ok b -> snd (apply_op b o) <> Panic -> stack_ok (fst (apply_op b o)).
Proof.
  intros Hs Hp. destruct (apply_op b o) as [b1 x] eqn:E. cbn [fst snd] in *. destruct x as [u|e|]; [| |congruence].
  - apply (apply_op_ok _ _ _ _ E Hs).
  - destruct (reject_state_identity _ _ _ _ E) as [-> _]. exact Hs.
Qed.

Lemma stack_ok_calls ops : forall b, stack_ok b ->
  Forall (fun r => r <> Panic) (snd (run_calls b ops)) -> stack_ok (fst (run_calls b ops)).
Proof.
  induction ops as [|o r IH]; intros b Hs HF; [exact Hs|].
  rewrite run_calls_cons in *. cbn [fst snd] in *. inversion HF; subst. apply IH; auto.
  apply stack_ok_apply; auto.
Qed.

(* when the stack spells the last key, a key that passes the ordering check and is not the last
   key does not match the whole stack path: the duplicate early-return of `add` is not taken *)
Lemma fcp0_not_full b k :
  stack_ok b -> kle (last_key b) k -> last_key b <> k -> fcp0 (b_stack b) k <> length k.
Proof.
  intros Hs K Hn E. rewrite (fcp0_lcp _ _ _ Hs) in E. apply lcp_full in E; auto.
Qed.

(* add(k) = insert(k, 0) unless k repeats the last key (then insert reports DuplicateKey, and add
   returns early without touching any output).  The unrestricted statement is false on states no
   call sequence reaches (see [add_eq_insert0_needs_fresh_root] and
   [add_eq_insert0_needs_stack_ok] in Properties/C15.v), hence [root_fresh] and [stack_ok]. *)
Theorem add_eq_insert0_gen b k :
  b_last b <> Some k -> (k = [] -> root_fresh b) -> (k <> [] -> stack_ok b) -> b_add b k = b_insert b k 0.
Proof.
  intros Hk Hr Hs. unfold b_add, b_insert, check_last_key.
  destruct (b_last b) as [l|] eqn:E.
  - cbn [andb]. destruct (key_eqb k l) eqn:Ek; [apply key_eqb_eq in Ek; congruence|].
    destruct (key_ltb k l) eqn:L; [reflexivity|].
    destruct k as [|c k].
    { (* [] is not below l and differs from it: impossible *)
      destruct l; [congruence|]. discriminate L. }
    unfold insert_output. cbn [with_last b_stack andb].
    assert (Hf : fcp0 (b_stack b) (c :: k) <> length (c :: k)).
    { apply fcp0_not_full; [apply Hs; discriminate| |]; unfold last_key; rewrite E.
      - now apply key_ltb_false_kle.
      - congruence. }
    apply Nat.eqb_neq in Hf. rewrite Hf. reflexivity.
  - destruct k as [|c k].
    + specialize (Hr eq_refl E). unfold insert_output. cbn [with_last b_stack].
      destruct (b_stack b) as [|r rest]; [reflexivity|]. rewrite Hr. reflexivity.
    + unfold insert_output. cbn [with_last b_stack andb].
      assert (Hf : fcp0 (b_stack b) (c :: k) <> length (c :: k)).
      { apply fcp0_not_full; [apply Hs; discriminate| |]; unfold last_key; rewrite E.
        - apply kle_nil.
        - discriminate. }
      apply Nat.eqb_neq in Hf. rewrite Hf. reflexivity.
Qed.

Theorem add_eq_insert0 ty rows cols ops k :
  let b := fst (run_calls (new_builder ty rows cols) ops) in
  Forall (fun r => r <> Panic) (snd (run_calls (new_builder ty rows cols) ops)) ->
  b_last b <> Some k -> b_add b k = b_insert b k 0.
Proof.
  intros b HF H. apply add_eq_insert0_gen; auto.
  - intros _. apply root_fresh_calls, root_fresh_new.
  - intros _. apply stack_ok_calls; auto. apply stack_ok_new.
Qed.

Theorem build_set_eq summer ty rows cols ks :
  build_set summer ty rows cols ks = build_ops summer ty rows cols (map OpAdd ks).
Proof. reflexivity. Qed.
Theorem build_map_eq summer ty rows cols kvs :
  build_map summer ty rows cols kvs = build_ops summer ty rows cols (map (fun '(k, v) => OpInsert k v) kvs).
Proof. reflexivity. Qed.

(* single calls that all succeed, then finish = from_iter / extend_iter / extend_stream *)
Theorem calls_then_finish_eq_build summer ty rows cols ops :
  Forall (fun r => r = Ok tt) (snd (run_calls (new_builder ty rows cols) ops)) ->
  b_finish summer (fst (run_calls (new_builder ty rows cols) ops)) = build_ops summer ty rows cols ops.
Proof. intros H. unfold build_ops. now rewrite (calls_eq_extend _ _ H). Qed.

(* extending in several pieces = extending once *)
Theorem extend_app ops1 : forall b ops2,
  snd (run_extend b ops1) = Ok tt ->
  run_extend b (ops1 ++ ops2) = run_extend (fst (run_extend b ops1)) ops2.
Proof.
  induction ops1 as [|o r IH]; intros b ops2; [reflexivity|].
  cbn [app run_extend]. destruct (apply_op b o) as [b1 [[]| |]]; cbn [snd]; try discriminate. apply IH.
Qed.

(* a set built from strictly increasing keys = the map with all values 0 *)
Lemma extend_add_eq_insert0 ks : forall b,
  root_fresh b -> stack_ok b ->
  (forall k, hd_error ks = Some k -> b_last b <> Some k) -> sorted_strict ks = true ->
  run_extend b (map OpAdd ks) = run_extend b (map (fun k => OpInsert k 0) ks).
Proof.
  induction ks as [|k ks IH]; intros b Hr Hso Hh Hs; [reflexivity|].
  cbn [map run_extend apply_op]. rewrite (add_eq_insert0_gen b k); auto.
  pose proof (apply_op_last b (OpInsert k 0)) as HL. pose proof (apply_op_spec b (OpInsert k 0)) as HS.
  pose proof (root_fresh_apply b (OpInsert k 0) Hr) as Hr'.
  pose proof (stack_ok_apply b (OpInsert k 0) Hso) as Hso'.
  cbn [apply_op] in *. destruct (b_insert b k 0) as [b1 x]. cbn [fst snd] in *.
  destruct x; auto. apply IH; auto.
  - apply Hso'. discriminate.
  - intros k' Hk'. destruct ks as [|k2 ks]; [discriminate|]. injection Hk' as <-.
    rewrite HL. destruct (snd (spec_call (b_last b) (OpInsert k 0))); [| |tauto].
    + rewrite (proj2 HS). cbn [op_key]. intros [= E2]. rewrite E2 in Hs.
      change (sorted_strict (k2 :: k2 :: ks)) with (key_ltb k2 k2 && sorted_strict (k2 :: ks)) in Hs.
      rewrite key_ltb_irrefl in Hs. discriminate.
    + destruct HS as (HS & _). discriminate.
  - destruct ks; [reflexivity|].
    change (sorted_strict (k :: k0 :: ks)) with (key_ltb k k0 && sorted_strict (k0 :: ks)) in Hs.
    apply andb_true_iff in Hs. tauto.
Qed.

Theorem build_set_eq_map0 summer ty rows cols ks :
  sorted_strict ks = true ->
  build_set summer ty rows cols ks = build_map summer ty rows cols (map (fun k => (k, 0)) ks).
Proof.
  intros Hs. unfold build_set, build_map, build_ops. rewrite map_map.
  rewrite (extend_add_eq_insert0 ks (new_builder ty rows cols)); auto using root_fresh_new, stack_ok_new.
  intros k _. rewrite new_builder_last. discriminate.
Qed.

