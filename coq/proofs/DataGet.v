(* DataGet.v — the PositiveMap view of a byte string (used by the extracted code) and the
   list view (used in proofs) are the same function. *)
Require Import FstV.Base FstV.Pack FstV.Node FstV.Reader FstV.GraphSem FstV.Format FstV.Fst FstV.CodecSpec.
Require Import Coq.FSets.FMapPositive.

Lemma succ_pos_inj : forall a b, N.succ_pos a = N.succ_pos b -> a = b.
Proof.
  intros a b H. apply (f_equal Npos) in H. rewrite !N.succ_pos_spec in H. lia.
Qed.

Lemma data_fill_find : forall l i m j,
  PositiveMap.find (N.succ_pos j) (data_fill l i m) =
  if j <? i then PositiveMap.find (N.succ_pos j) m
  else match nth_error l (N.to_nat (j - i)) with
       | Some b => Some b
       | None => PositiveMap.find (N.succ_pos j) m
       end.
Proof.
  induction l as [|b r IH]; intros i m j.
  - cbn [data_fill]. destruct (j <? i); [reflexivity|].
    destruct (N.to_nat (j - i)); reflexivity.
  - cbn [data_fill]. rewrite IH.
    destruct (N.ltb_spec j (i + 1)) as [H1|H1]; destruct (N.ltb_spec j i) as [H2|H2]; try lia.
    + rewrite PositiveMap.gso; [reflexivity|]. intros E. apply succ_pos_inj in E. lia.
    + assert (j = i) by lia. subst j. rewrite PositiveMap.gss.
      replace (N.to_nat (i - i)) with O by lia. reflexivity.
    + replace (N.to_nat (j - i)) with (S (N.to_nat (j - (i + 1)))) by lia.
      cbn [nth_error].
      destruct (nth_error r (N.to_nat (j - (i + 1)))); [reflexivity|].
      rewrite PositiveMap.gso; [reflexivity|]. intros E. apply succ_pos_inj in E. lia.
Qed.

Theorem data_get_holds : data_get_statement.
Proof.
  unfold data_get_statement, data_get, data_of, list_get. intros bs i.
  rewrite data_fill_find. replace (i <? 0) with false by (symmetry; apply N.ltb_ge; lia).
  rewrite N.sub_0_r. rewrite PositiveMap.gempty.
  destruct (nth_error bs (N.to_nat i)); reflexivity.
Qed.

Print Assumptions data_get_holds.
