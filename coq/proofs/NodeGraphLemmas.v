(* NodeGraphLemmas.v — fuel lemmas for GraphSem.lang: more fuel never changes a result, on a
   well-formed graph fuel = address + 1 always suffices, hence L is the language for any
   sufficient fuel. *)
Require Import FstV.Base FstV.Node FstV.Reader FstV.GraphSem.

Definition is_some {A} (o : option A) : bool := match o with Some _ => true | None => false end.
Definition or_nil {A} (o : option (list A)) : list A := match o with Some l => l | None => [] end.

Definition sub_of (g : graph) (f : nat) (t : trans) : option kmap :=
  match lang g f (t_addr t) with
  | Some l => Some (map (fun kv => (t_inp t :: fst kv, t_out t + snd kv)) l)
  | None => None
  end.

Lemma lang_S : forall g f a,
  lang g (S f) a =
  match gget g a with
  | None => None
  | Some n =>
    if forallb is_some (map (sub_of g f) (g_trans n)) then
      Some ((if g_final n then [([], g_fout n)] else []) ++ concat (map or_nil (map (sub_of g f) (g_trans n))))
    else None
  end.
Proof. reflexivity. Qed.

Lemma lang_mono : forall g f a l, lang g f a = Some l -> forall k, lang g (f + k) a = Some l.
Proof.
  intros g f. induction f as [|f IH]; intros a l H k.
  - discriminate.
  - change (S f + k)%nat with (S (f + k)). rewrite lang_S in *.
    destruct (gget g a) as [n|]; [|discriminate].
    assert (E : map (sub_of g (f + k)) (g_trans n) = map (sub_of g f) (g_trans n)).
    { apply map_ext_in. intros t Hin.
      destruct (forallb is_some (map (sub_of g f) (g_trans n))) eqn:Ef; [|discriminate].
      rewrite forallb_forall in Ef. specialize (Ef _ (in_map (sub_of g f) _ _ Hin)).
      unfold sub_of in *. destruct (lang g f (t_addr t)) as [lt|] eqn:El; [|discriminate].
      rewrite (IH _ _ El k). reflexivity. }
    rewrite E. exact H.
Qed.

Lemma lang_mono_le : forall g f f' a l, lang g f a = Some l -> (f <= f')%nat -> lang g f' a = Some l.
Proof.
  intros g f f' a l H Hle. replace f' with (f + (f' - f))%nat by lia. now apply lang_mono.
Qed.

Lemma lang_total : forall g, wf_graph g -> forall a n, gget g a = Some n ->
  exists l, lang g (S (N.to_nat a)) a = Some l.
Proof.
  intros g Hwf a. induction a as [a IH] using (well_founded_induction N.lt_wf_0).
  intros n Hn. rewrite lang_S, Hn.
  destruct (Hwf a n Hn) as [_ Ht].
  assert (E : forallb is_some (map (sub_of g (N.to_nat a)) (g_trans n)) = true).
  { apply forallb_forall. intros o Ho. apply in_map_iff in Ho. destruct Ho as [t [<- Hin]].
    destruct (Ht t Hin) as [_ [Hlt [n' Hn']]].
    destruct (IH _ Hlt _ Hn') as [l Hl].
    unfold sub_of. rewrite (lang_mono_le _ _ (N.to_nat a) _ _ Hl); [reflexivity|lia]. }
  rewrite E. eexists. reflexivity.
Qed.

Lemma lang_fuel : forall g, wf_graph g -> forall a n f l,
  gget g a = Some n -> (N.to_nat a < f)%nat -> lang g f a = Some l -> L g a = l.
Proof.
  intros g Hwf a n f l Hn Hf Hl. unfold L.
  destruct (lang_total g Hwf a n Hn) as [l' Hl'].
  rewrite Hl'. pose proof (lang_mono_le _ _ f _ _ Hl' ltac:(lia)) as H2. congruence.
Qed.

(* a successful walk starts at an existing node *)
Lemma lang_some_gget : forall g f a l, lang g f a = Some l -> exists n, gget g a = Some n.
Proof.
  intros g [|f] a l H; [discriminate|]. rewrite lang_S in H.
  destruct (gget g a) as [n|]; [eauto|discriminate].
Qed.

Print Assumptions lang_fuel.
