Require Import FstV.Base FstV.Pack FstV.Node FstV.Registry FstV.Builder FstV.Format FstV.proofs.BuilderInv.
Require Import Coq.FSets.FMapPositive Lia ZifyN ZifyBool ZifyNat.

(* BuilderRegLemmas.v — facts about the registry model (Registry.v) needed by the builder
   invariant: boolean equalities reflect, get/set, and every cell of the registry returned by
   [reg_entry] is a cell of the input registry (except the one handed out by NotFound). *)

(* ---------- boolean equalities ---------- *)
Lemma trans_eqb_eq a b : trans_eqb a b = true -> a = b.
Proof.
  unfold trans_eqb. destruct a as [i o d], b as [i' o' d']; cbn [t_inp t_out t_addr].
  intros H. apply andb_true_iff in H. destruct H as [H H3].
  apply andb_true_iff in H. destruct H as [H1 H2].
  apply N.eqb_eq in H1, H2, H3. congruence.
Qed.

Lemma list_eqb_eq {A} (e : A -> A -> bool) :
  (forall x y, e x y = true -> x = y) -> forall a b, list_eqb e a b = true -> a = b.
Proof.
  intros He. induction a as [|x a IH]; intros [|y b]; cbn [list_eqb]; try discriminate; auto.
  intros H. apply andb_true_iff in H. destruct H as [H1 H2].
  apply He in H1. apply IH in H2. congruence.
Qed.

Lemma bnode_eqb_eq a b : bnode_eqb a b = true -> a = b.
Proof.
  unfold bnode_eqb. destruct a as [f o t], b as [f' o' t']; cbn [n_final n_fout n_trans].
  intros H. apply andb_true_iff in H. destruct H as [H H3].
  apply andb_true_iff in H. destruct H as [H1 H2].
  apply Bool.eqb_prop in H1. apply N.eqb_eq in H2.
  apply (list_eqb_eq _ trans_eqb_eq) in H3. congruence.
Qed.

(* ---------- get / set ---------- *)
Lemma succ_pos_inj i j : N.succ_pos i = N.succ_pos j -> i = j.
Proof.
  intros H. rewrite <- (N.pos_pred_succ i), <- (N.pos_pred_succ j). now rewrite H.
Qed.

Lemma rget_rset r i c j : rget (rset r i c) j = if i =? j then c else rget r j.
Proof.
  unfold rget, rset; cbn [r_table].
  destruct (N.eqb_spec i j) as [E|NE].
  - subst. now rewrite PositiveMap.gss.
  - rewrite PositiveMap.gso; [reflexivity|].
    intros H. apply succ_pos_inj in H. congruence.
Qed.

Lemma rget_rset_same r i c : rget (rset r i c) i = c.
Proof. rewrite rget_rset. now rewrite N.eqb_refl. Qed.

Lemma rget_rset_other r i c j : i <> j -> rget (rset r i c) j = rget r j.
Proof. intros H. rewrite rget_rset. destruct (N.eqb_spec i j); congruence. Qed.

(* ---------- cell_matches / find_cell / promote ---------- *)
Lemma cell_matches_true c n :
  cell_matches c n = true -> c_addr c <> NONE_ADDRESS /\ c_node c = n.
Proof.
  unfold cell_matches, cell_is_none. intros H.
  apply andb_true_iff in H. destruct H as [H1 H2].
  split.
  - apply negb_true_iff in H1. now apply N.eqb_neq in H1.
  - now apply bnode_eqb_eq.
Qed.

Lemma find_cell_some r n start : forall k i0 i,
  find_cell r n start k i0 = Some i -> cell_matches (rget r (start + i)) n = true.
Proof.
  induction k as [|k IH]; intros i0 i; cbn [find_cell]; [discriminate|].
  destruct (cell_matches (rget r (start + i0)) n) eqn:M.
  - intros H; inversion H; subst. exact M.
  - apply IH.
Qed.

Lemma promote_spec : forall i r start j,
  (j = start /\ rget (promote r start i) j = rget r (start + N.of_nat i)) \/
  (j <> start /\ exists j', j' <> start + N.of_nat i /\ rget (promote r start i) j = rget r j').
Proof.
  induction i as [|k IH]; intros r start j.
  - cbn [promote]. destruct (N.eq_dec j start) as [E|NE].
    + left. split; [exact E|]. subst. f_equal. lia.
    + right. split; [exact NE|]. exists j. split; [lia|reflexivity].
  - cbn [promote].
    set (a := rget r (start + N.of_nat k)).
    set (b := rget r (start + N.of_nat (S k))).
    set (r2 := rset (rset r (start + N.of_nat k) b) (start + N.of_nat (S k)) a).
    destruct (IH r2 start j) as [[E H]|[NE [j' [Hj' H]]]].
    + left. split; [exact E|]. rewrite H. unfold r2.
      rewrite rget_rset_other by lia. now rewrite rget_rset_same.
    + right. split; [exact NE|]. rewrite H.
      destruct (N.eq_dec j' (start + N.of_nat (S k))) as [E2|NE2].
      * exists (start + N.of_nat k). split; [lia|].
        subst j'. unfold r2. now rewrite rget_rset_same.
      * exists j'. split; [exact NE2|]. unfold r2.
        rewrite rget_rset_other by congruence.
        now rewrite rget_rset_other by congruence.
Qed.

(* ---------- reg_entry ---------- *)
(* every cell of the result is a cell of the input, except the one handed out by NotFound,
   whose node is n *)
Lemma reg_entry_spec r n r' e : reg_entry r n = (r', e) ->
  match e with
  | Found a => (forall j, exists j', rget r' j = rget r j') /\
               exists j', a = c_addr (rget r j') /\ c_addr (rget r j') <> NONE_ADDRESS /\ c_node (rget r j') = n
  | NotFound idx => (forall j, j <> idx -> exists j', rget r' j = rget r j') /\ c_node (rget r' idx) = n
  | Rejected => r' = r
  end.
Proof.
  unfold reg_entry.
  destruct (r_rows r * r_cols r =? 0).
  { intros H; inversion H; subst; reflexivity. }
  set (start := r_cols r * reg_hash r n).
  destruct (r_cols r =? 1).
  { (* one column *)
    destruct (cell_matches (rget r start) n) eqn:M; intros H; inversion H; subst; clear H.
    - apply cell_matches_true in M. destruct M as [M1 M2]. split.
      + intros j; exists j; reflexivity.
      + exists start. auto.
    - split.
      + intros j Hj. exists j. now rewrite rget_rset_other by congruence.
      + now rewrite rget_rset_same. }
  destruct (r_cols r =? 2).
  { (* two columns *)
    destruct (cell_matches (rget r start) n) eqn:M1.
    { intros H; inversion H; subst; clear H.
      apply cell_matches_true in M1. destruct M1 as [Ma Mb]. split.
      + intros j; exists j; reflexivity.
      + exists start. auto. }
    destruct (cell_matches (rget r (start + 1)) n) eqn:M2; intros H; inversion H; subst; clear H.
    - apply cell_matches_true in M2. destruct M2 as [Ma Mb]. split.
      + intros j. rewrite !rget_rset.
        destruct (start + 1 =? j); [exists start; reflexivity|].
        destruct (start =? j); [exists (start + 1); reflexivity|].
        exists j; reflexivity.
      + exists (start + 1). auto.
    - split.
      + intros j Hj. rewrite !rget_rset.
        destruct (start + 1 =? j); [exists start; reflexivity|].
        destruct (N.eqb_spec start j); [congruence|].
        exists j; reflexivity.
      + rewrite rget_rset_other by lia. now rewrite rget_rset_same. }
  (* general case *)
  destruct (find_cell r n start (N.to_nat (r_cols r)) 0) as [i|] eqn:F;
    intros H; inversion H; subst; clear H.
  - apply find_cell_some in F. apply cell_matches_true in F. destruct F as [Fa Fb]. split.
    + intros j.
      destruct (promote_spec (N.to_nat i) r start j) as [[_ P]|[_ [j' [_ P]]]];
        rewrite P; eexists; reflexivity.
    + exists (start + i). auto.
  - set (lastc := r_cols r - 1).
    set (r1 := rset r (start + lastc) (cell_with_node (rget r (start + lastc)) n)).
    split.
    + intros j Hj.
      destruct (promote_spec (N.to_nat lastc) r1 start j) as [[E _]|[_ [j' [Hj' P]]]];
        [congruence|].
      rewrite N2Nat.id in Hj'. rewrite P. exists j'. unfold r1.
      now rewrite rget_rset_other by congruence.
    + destruct (promote_spec (N.to_nat lastc) r1 start start) as [[_ P]|[NE _]];
        [|congruence].
      rewrite P, N2Nat.id. unfold r1. now rewrite rget_rset_same.
Qed.

(* ---------- reg_ok ---------- *)
Lemma cell_ok_cons E c x : cell_ok E c -> cell_ok (x :: E) c.
Proof.
  unfold cell_ok. intros H Hn. destruct (H Hn) as [s [Hin Hs]].
  exists s. split; [now right|exact Hs].
Qed.

Lemma reg_ok_cons E r x : reg_ok E r -> reg_ok (x :: E) r.
Proof. intros H i. apply cell_ok_cons, H. Qed.

Lemma reg_ok_new E rows cols : reg_ok E (reg_new rows cols).
Proof.
  intros i Hn. exfalso. apply Hn.
  unfold rget, reg_new; cbn [r_table]. now rewrite PositiveMap.gempty.
Qed.

Lemma reg_entry_ok E r n r' e : reg_ok E r -> reg_entry r n = (r', e) ->
  match e with
  | Found a => reg_ok E r' /\ exists s, In (a, s) E /\ bn_of s = n
  | NotFound idx => forall a s, bn_of s = n -> reg_ok ((a, s) :: E) (reg_insert r' idx a)
  | Rejected => r' = r
  end.
Proof.
  intros Hok H. apply reg_entry_spec in H. destruct e as [a|idx|].
  - destruct H as [Hall [j' [Ha [Hn Hnode]]]]. split.
    + intros j. destruct (Hall j) as [j2 Hj]. rewrite Hj. apply Hok.
    + destruct (Hok j' Hn) as [s [Hin Hs]]. exists s. subst a. split; [exact Hin|congruence].
  - destruct H as [Hall Hnode]. intros a s Hs j.
    unfold reg_insert. rewrite rget_rset.
    destruct (N.eqb_spec idx j) as [E1|NE].
    + intros _. cbn [c_addr c_node]. exists s. split; [now left|congruence].
    + destruct (Hall j) as [j2 Hj]; [congruence|]. rewrite Hj.
      apply cell_ok_cons, Hok.
  - exact H.
Qed.

Print Assumptions reg_entry_ok.
