(* Closed.v — the end-to-end theorems with every premise discharged: what a builder is given is
   what every reader operation on the produced bytes returns, for every cache geometry.
   builder (BuilderProofs) + codec (NodeCodec) + reader = specification (NodeReader, ParseViews)
   + graph-level reader theorems (ReaderProofs, StreamProofs). *)
Require Import FstV.Base FstV.Pack FstV.Node FstV.Registry FstV.Builder FstV.Reader FstV.Automaton
               FstV.GraphSem FstV.Format FstV.Fst FstV.CodecSpec FstV.Crc.
Require Import FstV.proofs.BuilderInv FstV.proofs.StreamProofs FstV.proofs.ReaderProofs
               FstV.proofs.Compose FstV.proofs.EndToEnd
               FstV.proofs.NodeCodec FstV.proofs.NodeProofs FstV.proofs.DataGet.
Require Import FstV.Properties.C01_builder.

Definition input_ok (kvs : kmap) : Prop :=
  kmap_ok kvs = true /\
  Forall (fun kv => Forall (fun b => b < 256) (fst kv) /\ snd kv < U64) kvs /\
  size_ok kvs.

(* everything the properties C01 C02 C03 C04 C09 C16 say about a built map, in one statement *)
Theorem built_map_answers :
  forall (summer : list N -> N) (ty rows cols : N) (kvs : kmap),
    input_ok kvs -> ty < U64 -> (forall l, summer l < 4294967296) ->
    exists bs,
      build_map summer ty rows cols kvs = Ok bs /\
      (* C09: accepted by the format specification, with this content, type, count, checksum *)
      spec_read bs = Some (3, ty, kvs) /\
      (exists p, spec_parse bs = Some p /\ p_len p = len kvs /\
                 p_checksum p = Some (summer (firstn (length bs - 4) bs))) /\
      (* C01: enumeration and len *)
      api_stream bs = Ok kvs /\ api_len bs = len kvs /\
      (* C02: every probe *)
      (forall k, Forall (fun b => b < 256) k ->
         api_get bs k = Ok (lookup kvs k) /\
         api_contains bs k = Ok (match lookup kvs k with Some _ => true | None => false end)) /\
      (* C03: every list of bound calls *)
      (forall cs, calls_bytes cs -> api_range bs cs = Ok (spec_range kvs cs)) /\
      (* C04: every automaton obeying the contract, with states *)
      (forall A cs, can_match_sound A -> no_eof_hook A -> calls_bytes cs ->
         api_search_with_state bs A cs = Ok (spec_search kvs A cs)) /\
      (* C16: inverse lookup when values increase with the keys *)
      (values_increasing kvs = true -> forall v, api_get_key bs v = Ok (spec_get_key kvs v)).
Proof.
  intros summer ty rows cols kvs (H1 & H2 & H5) H3 H4.
  destruct (build_map_correct_full codec_holds compile_total_holds summer ty rows cols kvs H1 H2 H3 H4 H5)
    as (bs & p & Hb & Hp & Hv & Hty & Hl & Hcont & Hck & Hwf & Hx).
  destruct Hx as (Hbytes & Hfuel & Hcanon & Hroot).
  exists bs. split; [exact Hb|].
  split; [unfold spec_read; rewrite Hp, Hwf, Hv, Hty, Hcont; reflexivity|].
  split; [exists p; auto|].
  pose proof parse_views_holds as PV. pose proof data_get_holds as DG.
  rewrite <- Hcont.
  split; [apply (file_stream PV DG bs p Hbytes Hp Hfuel)|].
  split; [rewrite (file_len PV bs p Hbytes Hp), Hcont; exact Hl|].
  split; [intros k Hk; apply (file_get PV DG bs p Hbytes Hp k Hk)|].
  split; [intros cs Hcs; apply (file_range PV DG bs p Hbytes Hp cs Hfuel Hcs)|].
  split; [intros A cs HA HE Hcs; apply (file_search PV DG bs p Hbytes Hp A cs HA HE Hfuel Hcs)|].
  intros Hinc v.
  destruct (file_views PV DG bs p Hbytes Hp) as (WF & V & R & Ex & C).
  unfold api_get_key. destruct (view_of bs) as [na r] eqn:Ev. cbn [fst snd] in *. subst r.
  rewrite C. apply (get_key_correct _ na WF V (p_root p) v Ex Hcanon Hroot).
  rewrite <- C. exact Hinc.
Qed.

(* sets: repeated keys allowed; the content is the de-duplicated key list with value 0 *)
Theorem built_set_answers :
  forall (summer : list N -> N) (ty rows cols : N) (ks : list key),
    sorted_weak ks = true -> Forall (Forall (fun b => b < 256)) ks -> size_ok_keys ks ->
    ty < U64 -> (forall l, summer l < 4294967296) ->
    let content := map (fun k => (k, 0)) (dedup ks) in
    exists bs,
      build_set summer ty rows cols ks = Ok bs /\
      spec_read bs = Some (3, ty, content) /\
      api_stream bs = Ok content /\ api_len bs = len (dedup ks) /\
      (forall k, Forall (fun b => b < 256) k ->
         api_contains bs k = Ok (match lookup content k with Some _ => true | None => false end)) /\
      (forall cs, calls_bytes cs -> api_range bs cs = Ok (spec_range content cs)) /\
      (forall A cs, can_match_sound A -> no_eof_hook A -> calls_bytes cs ->
         api_search_with_state bs A cs = Ok (spec_search content A cs)).
Proof.
  intros summer ty rows cols ks H1 H2 H5 H3 H4 content.
  destruct (build_set_correct_full codec_holds compile_total_holds summer ty rows cols ks H1 H2 H3 H4 H5)
    as (bs & p & Hb & Hp & Hv & Hty & Hl & Hcont & Hck & Hwf & Hx).
  destruct Hx as (Hbytes & Hfuel & Hcanon & Hroot).
  exists bs. split; [exact Hb|].
  fold content in Hcont.
  split; [unfold spec_read; rewrite Hp, Hwf, Hv, Hty, Hcont; reflexivity|].
  pose proof parse_views_holds as PV. pose proof data_get_holds as DG.
  rewrite <- Hcont.
  split; [apply (file_stream PV DG bs p Hbytes Hp Hfuel)|].
  split; [rewrite (file_len PV bs p Hbytes Hp); exact Hl|].
  split; [intros k Hk; apply (file_get PV DG bs p Hbytes Hp k Hk)|].
  split; [intros cs Hcs; apply (file_range PV DG bs p Hbytes Hp cs Hfuel Hcs)|].
  intros A cs HA HE Hcs; apply (file_search PV DG bs p Hbytes Hp A cs HA HE Hfuel Hcs).
Qed.

Print Assumptions built_map_answers.
Print Assumptions built_set_answers.

(* ---------- per-property corollaries ---------- *)
Corollary C01_closed : forall summer ty rows cols kvs,
  input_ok kvs -> ty < U64 -> (forall l, summer l < 4294967296) ->
  exists bs, build_map summer ty rows cols kvs = Ok bs /\
             api_stream bs = Ok kvs /\ api_len bs = len kvs /\
             ((api_len bs =? 0) = match kvs with [] => true | _ => false end).
Proof.
  intros summer ty rows cols kvs Hi Ht Hs.
  destruct (built_map_answers summer ty rows cols kvs Hi Ht Hs) as (bs & Hb & _ & _ & Hst & Hl & _).
  exists bs. repeat split; auto. rewrite Hl. destruct kvs; cbn; [reflexivity|].
  unfold len. cbn [length]. apply N.eqb_neq. lia.
Qed.

Corollary C02_closed : forall summer ty rows cols kvs,
  input_ok kvs -> ty < U64 -> (forall l, summer l < 4294967296) ->
  exists bs, build_map summer ty rows cols kvs = Ok bs /\
    forall k, Forall (fun b => b < 256) k ->
      api_get bs k = Ok (lookup kvs k) /\
      api_contains bs k = Ok (match lookup kvs k with Some _ => true | None => false end).
Proof.
  intros summer ty rows cols kvs Hi Ht Hs.
  destruct (built_map_answers summer ty rows cols kvs Hi Ht Hs) as (bs & Hb & _ & _ & _ & _ & Hg & _).
  exists bs. split; assumption.
Qed.

Corollary C03_closed : forall summer ty rows cols kvs,
  input_ok kvs -> ty < U64 -> (forall l, summer l < 4294967296) ->
  exists bs, build_map summer ty rows cols kvs = Ok bs /\
    forall cs, calls_bytes cs -> api_range bs cs = Ok (spec_range kvs cs).
Proof.
  intros summer ty rows cols kvs Hi Ht Hs.
  destruct (built_map_answers summer ty rows cols kvs Hi Ht Hs) as (bs & Hb & _ & _ & _ & _ & _ & Hr & _).
  exists bs. split; assumption.
Qed.

Corollary C04_closed : forall summer ty rows cols kvs,
  input_ok kvs -> ty < U64 -> (forall l, summer l < 4294967296) ->
  exists bs, build_map summer ty rows cols kvs = Ok bs /\
    forall A cs, can_match_sound A -> no_eof_hook A -> calls_bytes cs ->
      api_search_with_state bs A cs = Ok (spec_search kvs A cs) /\
      api_search bs A cs = Ok (map (fun it => (fst (fst it), snd (fst it))) (spec_search kvs A cs)).
Proof.
  intros summer ty rows cols kvs Hi Ht Hs.
  destruct (built_map_answers summer ty rows cols kvs Hi Ht Hs) as (bs & Hb & _ & _ & _ & _ & _ & _ & Hsr & _).
  exists bs. split; [assumption|]. intros A cs HA HE Hc. split; [now apply Hsr|].
  specialize (Hsr A cs HA HE Hc). unfold api_search, api_search_with_state in *.
  destruct (view_of bs) as [na r]. unfold search. rewrite Hsr. reflexivity.
Qed.

Corollary C09_closed : forall ty rows cols kvs,
  input_ok kvs -> ty < U64 ->
  exists bs p, build_map spec_masked_crc32c ty rows cols kvs = Ok bs /\
    spec_read bs = Some (3, ty, kvs) /\ spec_parse bs = Some p /\ p_len p = len kvs /\
    p_checksum p = Some (spec_masked_crc32c (firstn (length bs - 4) bs)).
Proof.
  intros ty rows cols kvs Hi Ht.
  destruct (built_map_answers spec_masked_crc32c ty rows cols kvs Hi Ht spec_masked_u32)
    as (bs & Hb & Hr & (p & Hp & Hl & Hc) & _).
  exists bs, p. repeat split; assumption.
Qed.

Corollary C16_closed : forall summer ty rows cols kvs,
  input_ok kvs -> ty < U64 -> (forall l, summer l < 4294967296) ->
  values_increasing kvs = true ->
  exists bs, build_map summer ty rows cols kvs = Ok bs /\
    forall v, api_get_key bs v = Ok (spec_get_key kvs v).
Proof.
  intros summer ty rows cols kvs Hi Ht Hs Hv.
  destruct (built_map_answers summer ty rows cols kvs Hi Ht Hs) as (bs & Hb & _ & _ & _ & _ & _ & _ & _ & Hk).
  exists bs. split; [assumption|]. now apply Hk.
Qed.
