(* BuilderProofs5.v — the finished file: what the format specification reads back. *)
Require Import FstV.Base FstV.Pack FstV.Node FstV.Registry FstV.Builder FstV.GraphSem FstV.Format
               FstV.CodecSpec FstV.Fst.
Require Import FstV.proofs.BuilderInv FstV.proofs.BuilderRegLemmas FstV.proofs.BuilderGraphLemmas
               FstV.proofs.BuilderBytesLemmas FstV.proofs.BuilderSpecLemmas
               FstV.proofs.BuilderProofs1 FstV.proofs.BuilderProofs2 FstV.proofs.BuilderProofs3
               FstV.proofs.BuilderProofs4 FstV.proofs.BuilderNodeBytes FstV.proofs.BuilderGraphFacts
               FstV.proofs.StreamGraphLemmas FstV.proofs.StreamProofs.
Require Import FstV.Generated.SrcParams.
Require Import Lia ZifyN ZifyBool ZifyNat.

Lemma skipn_app_exact {A} (l1 l2 : list A) n : length l1 = n -> skipn n (l1 ++ l2) = l2.
Proof. intros <-. rewrite skipn_app, Nat.sub_diag, skipn_all. reflexivity. Qed.

Lemma store_top_len E : store_ok E -> 15 + len E <= top_addr E.
Proof.
  induction E as [|[a s] E IH]; cbn [store_ok top_addr]; intros H.
  - unfold len; cbn. lia.
  - destruct H as (H1 & _ & H3 & _ & H5). specialize (IH H1). unfold len in *. cbn [length]. lia.
Qed.

(* a file = header, tiled node area, footer, checksum (version 3 only): the format specification accepts it *)
Lemma spec_parse_built ver ty E bd flen root ck :
  1 <= ver <= 3 ->
  store_ok E -> firstn 16 bd = u64_le ver ++ u64_le ty -> len bd = top_addr E + 1 -> tiles_inv ver E bd ->
  ty < U64 -> flen < U64 -> root < U64 -> ck < 4294967296 ->
  (E = [] /\ root = 0 \/ E <> [] /\ root = top_addr E) ->
  spec_parse (bd ++ u64_le flen ++ u64_le root ++ (if 3 <=? ver then u32_le ck else [])) =
    Some (mkParsed ver ty flen root (if 3 <=? ver then Some ck else None)
                   (if root =? 0 then [] else rev E)
                   (if root =? 0 then [([], 0)] else elang E root)).
Proof.
  intros Hver HE Hhdr Hlen Htiles Hty Hflen Hroot Hck Hcase.
  pose proof (store_top_ge _ HE) as Htop.
  set (ckb := if 3 <=? ver then u32_le ck else []).
  set (fl := if 3 <=? ver then 4%nat else 0%nat).
  set (bs := bd ++ u64_le flen ++ u64_le root ++ ckb).
  assert (Hbdl : (16 <= length bd)%nat) by (unfold len in Hlen; lia).
  assert (L8 : forall x, length (u64_le x) = 8%nat) by (intros; apply le_bytes_length).
  assert (Lck : length ckb = fl).
  { unfold ckb, fl. destruct (3 <=? ver); [apply le_bytes_length|reflexivity]. }
  assert (Hn : length bs = (length bd + 16 + fl)%nat).
  { unfold bs. rewrite !app_length, !L8, Lck. lia. }
  (* header *)
  assert (Hbd : bd = u64_le ver ++ u64_le ty ++ skipn 16 bd).
  { rewrite <- (firstn_skipn 16 bd) at 1. rewrite Hhdr, <- app_assoc. reflexivity. }
  assert (H1 : firstn 8 bs = u64_le ver).
  { unfold bs. rewrite Hbd, <- !app_assoc. apply firstn_app_exact. apply L8. }
  assert (H2 : firstn 8 (skipn 8 bs) = u64_le ty).
  { unfold bs. rewrite Hbd, <- !app_assoc. rewrite skipn_app_exact by apply L8.
    apply firstn_app_exact. apply L8. }
  (* footer *)
  assert (H3 : firstn 8 (skipn (length bd) bs) = u64_le flen).
  { unfold bs. rewrite skipn_app_exact by reflexivity. apply firstn_app_exact. apply L8. }
  assert (H4 : firstn 8 (skipn (length bd + 8) bs) = u64_le root).
  { unfold bs. rewrite (app_assoc bd). rewrite skipn_app_exact by (rewrite app_length, L8; reflexivity).
    apply firstn_app_exact. apply L8. }
  assert (H5 : 3 <=? ver = true -> firstn 4 (skipn (length bd + 16) bs) = u32_le ck).
  { intros H3v. unfold bs, ckb. rewrite H3v. rewrite (app_assoc bd), (app_assoc (bd ++ _)).
    rewrite skipn_app_exact by (rewrite !app_length, !L8; lia).
    rewrite <- (app_nil_r (u32_le ck)) at 1. apply firstn_app_exact. apply le_bytes_length. }
  assert (H6 : firstn (length bd) bs = bd).
  { unfold bs. apply firstn_app_exact. reflexivity. }
  unfold spec_parse. fold ckb. fold bs. cbv zeta. rewrite Hn, H1, H2.
  rewrite (le_value_u64 ver) by (unfold U64; lia). rewrite (le_value_u64 ty Hty).
  replace (Nat.ltb (length bd + 16 + fl) 32) with false by (symmetry; apply Nat.ltb_ge; lia).
  replace ((ver =? 0) || (3 <? ver)) with false by (symmetry; apply orb_false_iff; split; [apply N.eqb_neq|apply N.ltb_ge]; lia).
  cbv iota.
  assert (Hfoot : (if 3 <=? ver then 20%nat else 16%nat) = (16 + fl)%nat) by (unfold fl; destruct (3 <=? ver); reflexivity).
  rewrite Hfoot.
  replace (Nat.ltb (length bd + 16 + fl) (16 + (16 + fl))) with false by (symmetry; apply Nat.ltb_ge; lia).
  replace (length bd + 16 + fl - (16 + fl))%nat with (length bd) by lia.
  rewrite H3, H4, H6, (le_value_u64 flen Hflen), (le_value_u64 root Hroot).
  assert (Hcks : (if 3 <=? ver then Some (le_value (firstn 4 (skipn (length bd + 16) bs))) else None) =
                 (if 3 <=? ver then Some ck else None)).
  { destruct (3 <=? ver) eqn:H3v; [|reflexivity]. rewrite (H5 eq_refl), (le_value_u32 ck Hck). reflexivity. }
  rewrite Hcks.
  destruct Hcase as [(-> & ->)|(Hne & ->)].
  - change (0 =? 0) with true. cbv iota. cbn [top_addr] in Hlen.
    replace (Nat.eqb (length bd) 16) with true; [reflexivity|].
    symmetry. apply Nat.eqb_eq. unfold len in Hlen. lia.
  - destruct (N.eqb_spec (top_addr E) 0) as [X|_]; [lia|].
    replace (N.of_nat (length bd) =? top_addr E + 1) with true
      by (symmetry; apply N.eqb_eq; unfold len in Hlen; lia).
    cbn [negb]. pose proof (store_top_len _ HE) as Htl.
    rewrite (Htiles (S (length bd + 16 + fl)) []).
    2:{ unfold len in *. lia. }
    rewrite app_nil_r. rewrite (store_targets_closed _ HE). cbn [negb].
    rewrite (lang_store E HE (S (length bd + 16 + fl)) (top_addr E)).
    + reflexivity.
    + right. destruct E as [|[a s] E0]; [congruence|]. left. reflexivity.
    + unfold len in Hlen. lia.
Qed.

(* what is known about the written nodes of a finished build (used for C12) *)
Definition final_store (p : parsed) (E2 : store) (zg : bool) (ev : N) : Prop :=
  p_nodes p = rev E2 /\ store_ok E2 /\ tgt_ok E2 (p_root p) /\
  (forall a0 s, In (a0, s) E2 -> a0 <> p_root p -> trimmed (bn_of s)) /\
  (forall a0, In a0 (addrs E2) -> a0 <= p_root p) /\
  cgood E2 /\
  Forall (fun x => ~ is_sentinel (snd x)) (strip E2) /\
  (forall a0, In a0 (addrs E2) -> reach E2 (p_root p) a0) /\
  (zg = false -> ev = 0 -> NoDup (map snd (strip E2))) /\
  elang E2 (p_root p) = p_content p.

Section Main.
Hypothesis Hcodec : codec_statement.
Hypothesis Htotal : compile_total_statement.
Variable ty : N.
Variable ver : N.
Variable zg : bool.
Hypothesis Hver : 1 <= ver <= 3.

(* ---------- the fresh builder ---------- *)
Lemma init_inv rows cols G rem :
  zg = (rows * cols =? 0) ->
  1 + rem <= G -> NODE_MAX * G + 100 < U64 ->
  inv ver ty G rem [] [] (new_builder_v ver ty rows cols) /\ last_ok [] (new_builder_v ver ty rows cols) /\
  cinv zg [] (new_builder_v ver ty rows cols).
Proof.
  intros Hzg HG1 HG2. split; [|split; [reflexivity|]].
  2:{ split; [exact I|]. split; [unfold Cstk; cbn; split; [intros t []|exact I]|].
      split; [|intros a []]. split; [constructor|]. subst zg. cbn [new_builder_v b_write b_reg reg_new r_rows r_cols].
      destruct (N.eqb_spec (rows * cols) 0) as [Hz|Hz]; [exact Hz|].
      split; [exact Hz|]. intros _. apply BuilderBasics.reg_inv_new. exact Hz. }
  constructor.
  - split; [exact I|]. split; [|apply reg_ok_new].
    constructor; try reflexivity.
    intros fuel acc0 Hf. destruct fuel; [cbn in Hf; lia|]. reflexivity.
  - constructor.
    + cbn. auto.
    + constructor; [|constructor]. unfold unf_ok. cbn. splits; auto.
    + cbn. splits; auto. split; cbn; [unfold U64; lia|constructor].
    + intros a [].
    + reflexivity.
  - unfold top_empty. cbn. intros u Hu. inversion Hu. reflexivity.
  - reflexivity.
  - cbn. unfold len. cbn. lia.
  - exact HG2.
  - unfold len. cbn. lia.
  - cbn. lia.
  - exact I.
  - intros u _. left. reflexivity.
  - unfold bbytes, body. cbn [new_builder_v b_write b_out rev app concat].
    rewrite app_nil_r. apply Forall_app. split; apply le_bytes_bytes.
Qed.

Lemma key_bytes_rev l : key_bytes (rev l) = key_bytes l.
Proof. clear Hver.
  induction l as [|k l IH]; [reflexivity|]. cbn [rev]. rewrite key_bytes_app, IH.
  unfold key_bytes. cbn [fold_right]. lia.
Qed.
Lemma strim_in E a s : strim E -> In (a, s) E -> trimmed (bn_of s).
Proof. clear Hver.
  induction E as [|[a0 s0] E0 IH]; intros Ht Hin; [destruct Hin|]. cbn [strim] in Ht. destruct Ht as (H1 & H2).
  destruct Hin as [Hin|Hin]; [inversion Hin; subst; exact H2|auto].
Qed.

(* ---------- into_inner ---------- *)
Lemma b_finish_ok summer G E acc b :
  inv ver ty G 0 E acc b -> ty < U64 -> (forall l, summer l < 4294967296) ->
  exists bs p, b_finish summer b = Ok bs /\ spec_parse bs = Some p /\
    p_version p = ver /\ p_ty p = ty /\ p_len p = len acc /\ p_content p = rev acc /\
    p_checksum p = (if 3 <=? ver then Some (summer (firstn (length bs - 4) bs)) else None) /\
    Forall (fun x => x < 256) bs /\
    fuel_ok (graph_of (node_table (p_nodes p))) (p_root p) /\
    (cinv zg E b -> canonical_outputs (graph_of (node_table (p_nodes p)))) /\
    p_root p < U64 /\
    exists stats, b_finish_full summer b = Ok (bs, stats) /\
      (cinv zg E b -> exists E2, final_store p E2 zg (BuilderBasics.stats_evictions stats)).
Proof.
  intros [Hm Hs Htop Hlen Hbud HG Hna Hkb Htrim Htf Hbb] Hty Hsum.
  unfold b_finish, b_finish_full.
  destruct (compile_from b 0) as [b1 r1] eqn:Hcf.
  destruct (compile_from_ok Hcodec Htotal ty ver zg Hver E b (lastkey acc) (rev acc) 0 b1 r1 Hm Hs) as
    (E1 & -> & Hm1 & F1 & F2 & Flen & Fs & _ & Ftrim & Fbb & FC & FGR); auto.
  { unfold len, NODE_MAX in *. lia. }
  cbn [firstn] in Fs. destruct Fs as [Fsh Fu FW Fd FL].
  destruct (b_stack b1) as [|root rest] eqn:Hst1; [destruct Fsh|]. cbn [shape] in Fsh.
  destruct Fsh as (Hrl & ->). rewrite Hrl.
  assert (Fs : sinv E1 ([] ++ [root]) [] (rev acc)) by (constructor; auto; cbn [app shape]; auto).
  pose proof (node_ok_top _ _ _ _ _ Fs Hrl) as Hnok.
  destruct (compile b1 (u_node root)) as [b2 r2] eqn:Hc2.
  assert (Hsz1 : NODE_MAX * (len E1 + 1) + 100 < U64).
  { unfold len, NODE_MAX in *. cbn [length] in *. lia. }
  pose proof (compile_bbytes ver ty E1 b1 _ b2 r2 Hm1 Hnok Hsz1 Hc2 Fbb) as Hbb2.
  destruct (compile_ok Hcodec Htotal ver ty E1 b1 _ b2 r2 Hver Hm1 Hnok Hsz1 Hc2) as (E2 & a & -> & Hm2 & _ & _ & G3 & Hcase & Hstrip).
  cbn [Lstk] in FL. rewrite Hrl, app_nil_r in FL.
  (* the root is the last node written, or the whole file is the empty final node *)
  assert (Hroot : (E2 = [] /\ a = 0 \/ E2 <> [] /\ a = top_addr E2) /\
                  (if a =? 0 then [([], 0)] else elang E2 a) = rev acc /\
                  (forall a0 s, In (a0, s) E2 -> a0 <> a -> trimmed (bn_of s)) /\
                  (cinv zg E b -> cgood E2 /\ Ginv zg b2 E2 /\ (forall a0, In a0 (addrs E2) -> reach E2 a a0))).
  { destruct Hm1 as (HE1 & _). destruct Hm2 as (HE2 & _).
    assert (HFro : cinv zg E b -> cgood E1 /\ Fro (elang E1) (u_node root) /\ Ginv zg b1 E1 /\ Rinv E1 [root]).
    { intros (Hcg & HCs & HGi & HRi). destruct (FC 0 Hcg HCs) as (Hcg1 & HC1). split; [exact Hcg1|].
      destruct (FGR HGi HRi) as (HG1 & HR1). cbn [Cpost] in HC1. tauto. }
    destruct Hcase as [(-> & [(-> & Hsen)|(s & Hin & Hsn)])|(s & -> & Hsn)].
    - (* nothing was ever written *)
      assert (E1 = []).
      { destruct E1 as [|[a0 s0] E0]; [reflexivity|]. exfalso.
        specialize (Fd a0 (or_introl eq_refl)). cbn [dom] in Fd. destruct Hsen as (_ & Hnt & _).
        rewrite Hnt, Hrl in Fd. destruct Fd as [Fd|(Fd & _)]; [inversion Fd|congruence]. }
      subst E1. split; [left; auto|]. change (0 =? 0) with true. cbv iota.
      split; [rewrite <- FL; symmetry; apply lang_node_sentinel; exact Hsen|].
      split; [intros a0 s []|]. intros Hci. destruct (HFro Hci) as (_ & _ & HG1 & _).
      split; [exact I|]. split; [|intros a0 []].
      apply (Ginv_step zg b1 (u_node root) b2 0 [] []); auto. rewrite none_address_1. lia.
    - (* the root cannot be an older node: it points to something at or above every written node *)
      exfalso. destruct (store_in_node_ok _ _ _ HE1 Hin) as (_ & Hlt & _).
      specialize (Fd a (store_in_addrs _ _ _ Hin)). cbn [dom] in Fd. rewrite Hrl in Fd.
      destruct Fd as [Fd|(Fd & _)]; [|congruence].
      apply Exists_exists in Fd. destruct Fd as (x & Hx & Hax).
      rewrite <- Hsn in Hx. cbn [bn_of n_trans] in Hx. rewrite Forall_forall in Hlt. apply Hlt in Hx. lia.
    - assert (Hin : In (a, s) ((a, s) :: E1)) by (left; reflexivity).
      destruct (store_in_node_ok _ _ _ HE2 Hin) as (_ & _ & H16).
      split; [right; split; [discriminate|reflexivity]|].
      destruct (N.eqb_spec a 0) as [X|_]; [lia|].
      split; [rewrite (elang_in _ _ _ HE2 Hin), Hsn; rewrite lang_node_cons; auto|].
      split.
      + intros a0 s0 [Hin0|Hin0] Hne; [inversion Hin0; congruence|]. eapply strim_in; eauto.
      + intros Hci. destruct (HFro Hci) as (A & B & HG1 & HR1). split; [cbn [cgood]; split; [exact A|]; rewrite Hsn; exact B|].
        split.
        * apply (Ginv_step zg b1 (u_node root) b2 a E1 ((a, s) :: E1)); auto. rewrite none_address_1. lia.
        * intros a0 [<-|Ha0]; [constructor|]. destruct (HR1 a0 Ha0) as (x & Hx & Hreach).
          unfold ftargets in Hx. cbn [flat_map] in Hx. rewrite app_nil_r in Hx. apply in_map_iff in Hx.
          destruct Hx as (tx & <- & Htx). eapply reach_step; [left; reflexivity| |].
          -- rewrite <- Hsn in Htx. exact Htx.
          -- eapply reach_ext1; [right; eexists; reflexivity|exact Hreach]. }
  destruct Hroot as (Hroot & Hcontent & Htrim2 & Hcg2).
  destruct Hm2 as (HE2 & [B1 B2 B3 B4 B5 B6] & _).
  set (b3 := b_write b2 [u64_le (b_len b2); u64_le a]).
  assert (Hbody : concat (rev (b_out b3)) = body b2 ++ u64_le (b_len b2) ++ u64_le a ++ []).
  { change (concat (rev (b_out b3))) with (body b3). unfold b3. rewrite body_write. reflexivity. }
  assert (Hv : b_version b3 = ver) by exact B1.
  rewrite Hv. cbn [fst].
  rewrite Hbody, app_nil_r.
  set (bd3 := body b2 ++ u64_le (b_len b2) ++ u64_le a).
  pose proof (top_addr_bound _ HE2) as Htb.
  assert (HlenE2 : len E2 <= G).
  { destruct Hcase as [(-> & _)|(s & -> & _)]; unfold len in *; cbn [length] in *; lia. }
  assert (Hflen : b_len b2 < U64) by (rewrite G3, F2, Hlen; unfold NODE_MAX, U64 in *; lia).
  assert (Haa : a < U64).
  { destruct Hroot as [(_ & ->)|(_ & ->)]; unfold NODE_MAX, U64 in *; lia. }
  assert (Hnodes : (if a =? 0 then [] else rev E2) = rev E2).
  { destruct Hroot as [(-> & ->)|(Hne & ->)]; [reflexivity|].
    pose proof (store_top_ge _ HE2). destruct (N.eqb_spec (top_addr E2) 0); [lia|reflexivity]. }
  assert (Htga : tgt_ok E2 a).
  { destruct Hroot as [(_ & ->)|(Hne & ->)]; [left; reflexivity|right].
    destruct E2 as [|[a0 s0] E0]; [congruence|]. left. reflexivity. }
  assert (Hra : forall a0, In a0 (addrs E2) -> a0 <= a).
  { intros a0 Ha0. destruct Hroot as [(-> & _)|(_ & ->)]; [destruct Ha0|].
    apply (store_addrs_range _ _ HE2 Ha0). }
  exists ((bd3 ++ (if 3 <=? ver then u32_le (summer bd3) else []))). eexists. split; [reflexivity|].
  unfold bd3 at 1. rewrite <- !app_assoc.
  rewrite (spec_parse_built ver ty E2 (body b2) (b_len b2) a (summer bd3)); auto.
  2:{ rewrite B3. exact B2. }
  split; [reflexivity|]. cbn [p_version p_ty p_len p_content p_checksum p_nodes p_root].
  rewrite Hnodes.
  split; [reflexivity|]. split; [reflexivity|]. split; [rewrite G3, F2; exact Hlen|].
  split; [exact Hcontent|]. split.
  { destruct (3 <=? ver); [|reflexivity]. do 2 f_equal. rewrite app_length. unfold u32_le at 1. rewrite le_bytes_length.
    replace (length bd3 + 4 - 4)%nat with (length bd3) by lia.
    symmetry. apply firstn_app_exact. reflexivity. }
  split.
  { apply Forall_app. split; [|destruct (3 <=? ver); [apply le_bytes_bytes|constructor]].
    unfold bd3. apply Forall_app. split; [exact Hbb2|]. apply Forall_app. split; apply le_bytes_bytes. }
  split.
  { (* fuel *)
    destruct (tree_bound E2 HE2 a Htrim2 Hra (S (N.to_nat a)) a ltac:(lia) Htga) as (Hts & _).
    rewrite (L_store E2 HE2 a Htga) in Hts.
    assert (Hpb : pbytes (elang E2 a) <= G).
    { destruct (N.eqb_spec a 0) as [->|_].
      - rewrite elang_zero. cbn. lia.
      - rewrite Hcontent. unfold pbytes, keys_of. rewrite map_rev, key_bytes_rev. rewrite N.add_0_r in Hkb. exact Hkb. }
    unfold fuel_ok. unfold NODE_MAX, U64 in HG. lia. }
  split; [intros Hci; apply canonical_store; auto; apply Hcg2; exact Hci|].
  split; [exact Haa|].
  exists (b_stats b2). split.
  { reflexivity. }
  intros Hci. destruct (Hcg2 Hci) as (Hc2' & (HGs & HGg) & Hreach). exists E2.
  unfold final_store. cbn [p_nodes p_root p_content]. rewrite ?Hnodes. splits; auto.
  - intros Hz Hev. rewrite Hz in HGg. apply (BuilderBasics.ri_nodup (b_reg b2)). apply HGg. exact Hev.
  - destruct (N.eqb_spec a 0) as [->|_]; [apply elang_zero|reflexivity].
Qed.
End Main.

(* ---------- the theorems ---------- *)
Definition build_ops_v (summer : list N -> N) (ver ty rows cols : N) (ops : list op) : res (list N) :=
  let '(b, r) := run_extend (new_builder_v ver ty rows cols) ops in
  match r with Ok _ => b_finish summer b | Err x => Err x | Panic => Panic end.

Definition built_v (summer : list N -> N) (ver ty : N) (content : kmap) (bs : list N) : Prop :=
  exists p, spec_parse bs = Some p /\
    p_version p = ver /\ p_ty p = ty /\ p_len p = len content /\ p_content p = content /\
    p_checksum p = (if 3 <=? ver then Some (summer (firstn (length bs - 4) bs)) else None) /\
    wf_fst_b bs = true /\
    Forall (fun x => x < 256) bs /\
    fuel_ok (graph_of (node_table (p_nodes p))) (p_root p) /\
    canonical_outputs (graph_of (node_table (p_nodes p))) /\
    p_root p < U64.

Definition built (summer : list N -> N) (ty : N) (content : kmap) (bs : list N) : Prop :=
  exists p, spec_parse bs = Some p /\
    p_version p = 3 /\ p_ty p = ty /\ p_len p = len content /\ p_content p = content /\
    p_checksum p = Some (summer (firstn (length bs - 4) bs)) /\
    wf_fst_b bs = true /\
    Forall (fun x => x < 256) bs /\
    fuel_ok (graph_of (node_table (p_nodes p))) (p_root p) /\
    canonical_outputs (graph_of (node_table (p_nodes p))) /\
    p_root p < U64.

Definition built_facts (summer : list N -> N) (ver ty : N) (content : kmap) (bs : list N) (p : parsed) : Prop :=
    spec_parse bs = Some p /\
    p_version p = ver /\ p_ty p = ty /\ p_len p = len content /\ p_content p = content /\
    p_checksum p = (if 3 <=? ver then Some (summer (firstn (length bs - 4) bs)) else None) /\
    wf_fst_b bs = true /\
    Forall (fun x => x < 256) bs /\
    fuel_ok (graph_of (node_table (p_nodes p))) (p_root p) /\
    canonical_outputs (graph_of (node_table (p_nodes p))) /\
    p_root p < U64.

(* everything at once: the run, the finish with its cache counters, the parsed file, the ghost store *)
Theorem build_ops_v_master :
  codec_statement -> compile_total_statement ->
  forall (summer : list N -> N) (ver ty rows cols : N) (ops : list op),
    1 <= ver <= 3 ->
    calls_ok ops -> Forall op_ok ops ->
    ty < U64 -> (forall l, summer l < 4294967296) -> size_ok_ops ops ->
    exists b bs stats p E2,
      run_extend (new_builder_v ver ty rows cols) ops = (b, Ok tt) /\
      b_finish_full summer b = Ok (bs, stats) /\
      built_facts summer ver ty (spec_content None ops []) bs p /\
      final_store p E2 (rows * cols =? 0) (BuilderBasics.stats_evictions stats).
Proof.
  intros Hcodec Htotal summer ver ty rows cols ops Hver Hcalls Hops Hty Hsum Hsize.
  set (G := 1 + key_bytes (map op_key ops)). set (zg := rows * cols =? 0).
  destruct (init_inv ty ver zg Hver rows cols G (key_bytes (map op_key ops) + 0)) as (Hi0 & Hl0 & Hc0).
  { reflexivity. } { unfold G. lia. } { exact Hsize. }
  destruct (run_extend_ok Hcodec Htotal ty ver zg Hver ops G 0 [] [] _ Hi0 Hl0 Hops Hcalls) as (E & acc & b & Hrun & Hinv & Hrev & HC).
  change (b_last (new_builder_v ver ty rows cols)) with (@None key) in Hrev.
  destruct (b_finish_ok Hcodec Htotal ty ver zg Hver summer G E acc b Hinv Hty Hsum) as
    (bs & p & Hfin & Hparse & P1 & P2 & P3 & P4 & P5 & P6 & P7 & P8 & P9 & stats & Hfull & Hstore).
  destruct (Hstore (HC Hc0)) as (E2 & HE2).
  exists b, bs, stats, p, E2. split; [exact Hrun|]. split; [exact Hfull|]. split; [|exact HE2].
  rewrite Hrev in P4. unfold built_facts. splits; auto.
  - rewrite P3. rewrite <- Hrev. unfold len. rewrite rev_length. reflexivity.
  - unfold wf_fst_b. rewrite Hparse, P4.
    rewrite P3. rewrite <- Hrev at 1. replace (len acc =? len (rev acc)) with true.
    2:{ symmetry. apply N.eqb_eq. unfold len. rewrite rev_length. reflexivity. }
    rewrite (spec_content_sorted ops Hcalls), (spec_content_vals_b ops Hops). reflexivity.
Qed.

Theorem build_ops_v_correct_proof :
  codec_statement -> compile_total_statement ->
  forall (summer : list N -> N) (ver ty rows cols : N) (ops : list op),
    1 <= ver <= 3 ->
    calls_ok ops -> Forall op_ok ops ->
    ty < U64 -> (forall l, summer l < 4294967296) -> size_ok_ops ops ->
    exists bs, build_ops_v summer ver ty rows cols ops = Ok bs /\
               built_v summer ver ty (spec_content None ops []) bs.
Proof.
  intros Hcodec Htotal summer ver ty rows cols ops Hver Hcalls Hops Hty Hsum Hsize.
  destruct (build_ops_v_master Hcodec Htotal summer ver ty rows cols ops Hver Hcalls Hops Hty Hsum Hsize)
    as (b & bs & stats & p & E2 & Hrun & Hfull & Hfacts & _).
  exists bs. split.
  - unfold build_ops_v. rewrite Hrun. unfold b_finish. rewrite Hfull. reflexivity.
  - exists p. exact Hfacts.
Qed.

Theorem build_ops_correct_proof :
  codec_statement -> compile_total_statement ->
  forall (summer : list N -> N) (ty rows cols : N) (ops : list op),
    calls_ok ops -> Forall op_ok ops ->
    ty < U64 -> (forall l, summer l < 4294967296) -> size_ok_ops ops ->
    exists bs, build_ops summer ty rows cols ops = Ok bs /\ built summer ty (spec_content None ops []) bs.
Proof.
  intros Hcodec Htotal summer ty rows cols ops Hcalls Hops Hty Hsum Hsize.
  assert (Hv : 1 <= 3 <= 3) by lia.
  exact (build_ops_v_correct_proof Hcodec Htotal summer 3 ty rows cols ops Hv Hcalls Hops Hty Hsum Hsize).
Qed.

(* the reference encoders of the older formats (C10) *)
Theorem build_map_v_correct_proof :
  codec_statement -> compile_total_statement ->
  forall (summer : list N -> N) (ver ty : N) (kvs : kmap),
    1 <= ver <= 3 ->
    kmap_ok kvs = true ->
    Forall (fun kv => Forall (fun b => b < 256) (fst kv) /\ snd kv < U64) kvs ->
    ty < U64 -> (forall l, summer l < 4294967296) -> size_ok kvs ->
    exists bs, build_map_v summer ver ty kvs = Ok bs /\ built_v summer ver ty kvs bs.
Proof.
  intros Hcodec Htotal summer ver ty kvs Hver Hk Hb Hty Hsum Hsize.
  set (ops := map (fun '(k, v) => OpInsert k v) kvs).
  destruct (build_ops_v_correct_proof Hcodec Htotal summer ver ty src_registry_rows src_registry_cols ops Hver)
    as (bs & Hbs & Hbuilt); auto.
  - apply calls_ok_map. exact Hk.
  - unfold ops. apply Forall_map. eapply Forall_impl; [|exact Hb]. intros [k v] H. exact H.
  - unfold size_ok_ops, size_ok in *. unfold ops. rewrite map_map.
    replace (map (fun x => op_key (let '(k, v) := x in OpInsert k v)) kvs) with (keys_of kvs); [exact Hsize|].
    unfold keys_of. apply map_ext. intros [k v]. reflexivity.
  - exists bs. split; [exact Hbs|]. unfold ops in Hbuilt. rewrite (spec_content_map kvs Hk) in Hbuilt. exact Hbuilt.
Qed.

Theorem build_map_correct_proof :
  codec_statement -> compile_total_statement ->
  forall (summer : list N -> N) (ty rows cols : N) (kvs : kmap),
    kmap_ok kvs = true ->
    Forall (fun kv => Forall (fun b => b < 256) (fst kv) /\ snd kv < U64) kvs ->
    ty < U64 -> (forall l, summer l < 4294967296) -> size_ok kvs ->
    exists bs, build_map summer ty rows cols kvs = Ok bs /\ built summer ty kvs bs.
Proof.
  intros Hcodec Htotal summer ty rows cols kvs Hk Hb Hty Hsum Hsize.
  set (ops := map (fun '(k, v) => OpInsert k v) kvs).
  destruct (build_ops_correct_proof Hcodec Htotal summer ty rows cols ops) as (bs & Hbs & Hbuilt); auto.
  - apply calls_ok_map. exact Hk.
  - unfold ops. apply Forall_map. eapply Forall_impl; [|exact Hb]. intros [k v] H. exact H.
  - unfold size_ok_ops, size_ok in *. unfold ops. rewrite map_map.
    replace (map (fun x => op_key (let '(k, v) := x in OpInsert k v)) kvs) with (keys_of kvs); [exact Hsize|].
    unfold keys_of. apply map_ext. intros [k v]. reflexivity.
  - exists bs. split; [exact Hbs|]. unfold ops in Hbuilt. rewrite (spec_content_map kvs Hk) in Hbuilt. exact Hbuilt.
Qed.

Theorem build_set_correct_proof :
  codec_statement -> compile_total_statement ->
  forall (summer : list N -> N) (ty rows cols : N) (ks : list key),
    sorted_weak ks = true ->
    Forall (Forall (fun b => b < 256)) ks ->
    ty < U64 -> (forall l, summer l < 4294967296) -> size_ok_keys ks ->
    exists bs, build_set summer ty rows cols ks = Ok bs /\
               built summer ty (map (fun k => (k, 0)) (dedup ks)) bs.
Proof.
  intros Hcodec Htotal summer ty rows cols ks Hk Hb Hty Hsum Hsize.
  destruct (build_ops_correct_proof Hcodec Htotal summer ty rows cols (map OpAdd ks)) as (bs & Hbs & Hbuilt); auto.
  - apply calls_ok_set. exact Hk.
  - apply Forall_map. eapply Forall_impl; [|exact Hb]. intros k H. split; [exact H|]. cbn. unfold U64. lia.
  - unfold size_ok_ops. rewrite map_map. cbn [op_key]. rewrite map_id. exact Hsize.
  - exists bs. split; [exact Hbs|]. rewrite (spec_content_set ks Hk) in Hbuilt. exact Hbuilt.
Qed.

Print Assumptions build_ops_v_master.
Print Assumptions build_ops_v_correct_proof.
Print Assumptions build_map_v_correct_proof.
Print Assumptions build_ops_correct_proof.
Print Assumptions build_map_correct_proof.
Print Assumptions build_set_correct_proof.
