(* BuilderProofs5.v — the finished file: what the format specification reads back. *)
Require Import FstV.Base FstV.Pack FstV.Node FstV.Registry FstV.Builder FstV.GraphSem FstV.Format
               FstV.CodecSpec FstV.Fst.
Require Import FstV.proofs.BuilderInv FstV.proofs.BuilderRegLemmas FstV.proofs.BuilderGraphLemmas
               FstV.proofs.BuilderBytesLemmas FstV.proofs.BuilderSpecLemmas
               FstV.proofs.BuilderProofs1 FstV.proofs.BuilderProofs2 FstV.proofs.BuilderProofs3
               FstV.proofs.BuilderProofs4.
Require Import Lia ZifyN ZifyBool ZifyNat.

Lemma skipn_app_exact {A} (l1 l2 : list A) n : length l1 = n -> skipn n (l1 ++ l2) = l2.
Proof. intros <-. rewrite skipn_app, Nat.sub_diag, skipn_all. reflexivity. Qed.

Lemma store_top_len E : store_ok E -> 15 + len E <= top_addr E.
Proof.
  induction E as [|[a s] E IH]; cbn [store_ok top_addr]; intros H.
  - unfold len; cbn. lia.
  - destruct H as (H1 & _ & H3 & _ & H5). specialize (IH H1). unfold len in *. cbn [length]. lia.
Qed.

(* a file = header, tiled node area, footer, checksum: the format specification accepts it *)
Lemma spec_parse_built ty E bd flen root ck :
  store_ok E -> firstn 16 bd = u64_le 3 ++ u64_le ty -> len bd = top_addr E + 1 -> tiles_inv E bd ->
  ty < U64 -> flen < U64 -> root < U64 -> ck < 4294967296 ->
  (E = [] /\ root = 0 \/ E <> [] /\ root = top_addr E) ->
  spec_parse (bd ++ u64_le flen ++ u64_le root ++ u32_le ck) =
    Some (mkParsed 3 ty flen root (Some ck)
                   (if root =? 0 then [] else rev E)
                   (if root =? 0 then [([], 0)] else elang E root)).
Proof.
  intros HE Hhdr Hlen Htiles Hty Hflen Hroot Hck Hcase.
  pose proof (store_top_ge _ HE) as Htop.
  set (bs := bd ++ u64_le flen ++ u64_le root ++ u32_le ck).
  assert (Hbdl : (16 <= length bd)%nat) by (unfold len in Hlen; lia).
  assert (L8 : forall x, length (u64_le x) = 8%nat) by (intros; apply le_bytes_length).
  assert (L4 : forall x, length (u32_le x) = 4%nat) by (intros; apply le_bytes_length).
  assert (Hn : length bs = (length bd + 20)%nat).
  { unfold bs. rewrite !app_length, !L8, L4. lia. }
  (* header *)
  assert (Hbd : bd = u64_le 3 ++ u64_le ty ++ skipn 16 bd).
  { rewrite <- (firstn_skipn 16 bd) at 1. rewrite Hhdr, <- app_assoc. reflexivity. }
  assert (H1 : firstn 8 bs = u64_le 3).
  { unfold bs. rewrite Hbd, <- !app_assoc. apply firstn_app_exact. apply L8. }
  assert (H2 : firstn 8 (skipn 8 bs) = u64_le ty).
  { unfold bs. rewrite Hbd, <- !app_assoc. rewrite skipn_app_exact by apply L8.
    apply firstn_app_exact. apply L8. }
  (* footer *)
  assert (H3 : firstn 8 (skipn (length bd) bs) = u64_le flen).
  { unfold bs. rewrite skipn_app_exact by reflexivity. apply firstn_app_exact. apply L8. }
  assert (H4 : firstn 8 (skipn (length bd + 8) bs) = u64_le root).
  { unfold bs. rewrite (app_assoc bd). rewrite skipn_app_exact by (rewrite app_length, L8; reflexivity).
    apply firstn_app_exact. apply L8. }
  assert (H5 : firstn 4 (skipn (length bd + 16) bs) = u32_le ck).
  { unfold bs. rewrite (app_assoc bd), (app_assoc (bd ++ _)).
    rewrite skipn_app_exact by (rewrite !app_length, !L8; lia).
    rewrite <- (app_nil_r (u32_le ck)) at 1. apply firstn_app_exact. apply L4. }
  assert (H6 : firstn (length bd) bs = bd).
  { unfold bs. apply firstn_app_exact. reflexivity. }
  unfold spec_parse. fold bs. cbv zeta. rewrite Hn, H1, H2.
  assert (Hv3 : le_value (u64_le 3) = 3) by reflexivity. rewrite Hv3, (le_value_u64 ty Hty).
  replace (Nat.ltb (length bd + 20) 32) with false by (symmetry; apply Nat.ltb_ge; lia).
  change ((3 =? 0) || (3 <? 3)) with false. change (3 <=? 3) with true. cbv iota.
  replace (Nat.ltb (length bd + 20) (16 + 20)) with false by (symmetry; apply Nat.ltb_ge; lia).
  replace (length bd + 20 - 20)%nat with (length bd) by lia.
  rewrite H3, H4, H5, H6, (le_value_u64 flen Hflen), (le_value_u64 root Hroot), (le_value_u32 ck Hck).
  destruct Hcase as [(-> & ->)|(Hne & ->)].
  - change (0 =? 0) with true. cbv iota. cbn [top_addr] in Hlen.
    replace (Nat.eqb (length bd) 16) with true; [reflexivity|].
    symmetry. apply Nat.eqb_eq. unfold len in Hlen. lia.
  - destruct (N.eqb_spec (top_addr E) 0) as [X|_]; [lia|].
    replace (N.of_nat (length bd) =? top_addr E + 1) with true
      by (symmetry; apply N.eqb_eq; unfold len in Hlen; lia).
    cbn [negb]. pose proof (store_top_len _ HE) as Htl.
    rewrite (Htiles (S (length bd + 20)) []).
    2:{ unfold len in *. lia. }
    rewrite app_nil_r. rewrite (store_targets_closed _ HE). cbn [negb].
    rewrite (lang_store E HE (S (length bd + 20)) (top_addr E)).
    + reflexivity.
    + right. destruct E as [|[a s] E0]; [congruence|]. left. reflexivity.
    + unfold len in Hlen. lia.
Qed.
