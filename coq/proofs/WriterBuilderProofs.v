(* WriterBuilderProofs.v — the builder model's output is append-only, its per-call differences
   are the chunk lists of a Writer.v session, and with the real checksum the session of a builder
   run leaves exactly the builder's bytes in any benign sink. *)
Require Import FstV.Base FstV.Pack FstV.Node FstV.Registry FstV.Generated.SrcParams.
Require Import FstV.Builder FstV.Crc FstV.Writer FstV.WriterBuilder.
Require Import FstV.proofs.WriterProofs FstV.proofs.CrcProofs.
Require Import Lia.

(* ================= b_out is append-only; b_count counts it; the version never changes ================= *)
Definition ext (b b' : builder) : Prop :=
  exists cs, b_out b' = cs ++ b_out b /\ b_count b' = b_count b + len (concat cs) /\
             b_version b' = b_version b.

Lemma ext_refl b : ext b b.
Proof. exists []. cbn. rewrite N.add_0_r. auto. Qed.

Lemma ext_trans a b c : ext a b -> ext b c -> ext a c.
Proof.
  intros (c1 & H1 & H2 & H3) (c2 & H4 & H5 & H6). exists (c2 ++ c1). repeat split.
  - rewrite H4, H1, app_assoc. reflexivity.
  - rewrite H5, H2, concat_app, len_app. lia.
  - congruence.
Qed.

Lemma ext_same b b' : b_out b' = b_out b -> b_count b' = b_count b -> b_version b' = b_version b -> ext b b'.
Proof. intros H1 H2 H3. exists []. cbn. rewrite N.add_0_r. auto. Qed.

Lemma chunks_len_from (cs : list (list N)) : forall a, fold_left (fun a c => a + len c) cs a = a + len (concat cs).
Proof.
  induction cs as [|c cs IH]; intros a; cbn [fold_left concat].
  - cbn. lia.
  - rewrite IH, len_app. lia.
Qed.
Lemma chunks_len_concat cs : chunks_len cs = len (concat cs).
Proof. unfold chunks_len. rewrite chunks_len_from. lia. Qed.
Lemma len_concat_rev (cs : list (list N)) : len (concat (rev cs)) = len (concat cs).
Proof.
  induction cs as [|c cs IH]; [reflexivity|]. cbn [rev concat].
  rewrite concat_app, !len_app, IH. cbn [concat]. rewrite app_nil_r. lia.
Qed.

Lemma ext_write b cs : ext b (b_write b cs).
Proof.
  exists (rev cs). cbn. repeat split. now rewrite len_concat_rev, chunks_len_concat.
Qed.

Ltac ext_same := apply ext_same; reflexivity.

Lemma compile_ext b n : ext b (fst (compile b n)).
Proof.
  unfold compile.
  destruct (n_final n && _ && _); [apply ext_refl|].
  destruct (reg_entry (b_reg b) n) as [reg0 e].
  destruct e as [a|idx|]; cbn [fst]; try ext_same.
  - destruct (compile_node _ _ _ n) as [cs| |]; cbn [fst]; try ext_same.
    eapply ext_trans; [|apply ext_same; reflexivity].
    eapply ext_trans; [|apply (ext_write _ cs)]. ext_same.
  - destruct (compile_node _ _ _ n) as [cs| |]; cbn [fst]; try ext_same.
    eapply ext_trans; [|apply ext_same; reflexivity].
    eapply ext_trans; [|apply (ext_write _ cs)]. ext_same.
Qed.

Lemma compile_from_rev_ext : forall rstack b keep addr, ext b (fst (compile_from_rev b rstack keep addr)).
Proof.
  induction rstack as [|u rest IH]; intros b keep addr; cbn [compile_from_rev]; [apply ext_refl|].
  destruct (Nat.ltb (S keep) (length (u :: rest))); [|apply ext_refl].
  destruct (match addr with None => _ | Some a => _ end) as [n| |]; try apply ext_refl.
  pose proof (compile_ext b n) as Hc. destruct (compile b n) as [b' r]. cbn [fst] in Hc.
  destruct r as [a| |]; try exact Hc.
  destruct (a =? NONE_ADDRESS); [exact Hc|].
  eapply ext_trans; [exact Hc|apply IH].
Qed.

Lemma compile_from_ext b i : ext b (fst (compile_from b i)).
Proof.
  unfold compile_from.
  pose proof (compile_from_rev_ext (rev (b_stack b)) b i None) as H.
  destruct (compile_from_rev b (rev (b_stack b)) i None) as [b' r]. cbn [fst] in H.
  destruct r; cbn [fst]; exact H.
Qed.

Lemma check_last_key_ext b k d : ext b (fst (check_last_key b k d)).
Proof.
  unfold check_last_key. destruct (b_last b); [|ext_same].
  destruct (d && key_eqb k _); [apply ext_refl|]. destruct (key_ltb k _); [apply ext_refl|ext_same].
Qed.

Lemma insert_output_ext b k out : ext b (fst (insert_output b k out)).
Proof.
  unfold insert_output. destruct k as [|x k].
  - destruct (match out with None => _ | Some _ => _ end); [ext_same|].
    destruct (set_root_output _ _); cbn [fst]; try apply ext_refl. ext_same.
  - destruct (_ && _); [apply ext_refl|].
    destruct (fcp _ _ _) as [[[st p] o]| |]; cbn [fst]; try apply ext_refl.
    destruct (Nat.eqb p _).
    + destruct (o =? 0); cbn [fst]; ext_same.
    + set (b2 := with_len _ _).
      pose proof (compile_from_ext b2 p) as H. destruct (compile_from b2 p) as [b3 r]. cbn [fst] in H.
      assert (H2 : ext b b2) by (subst b2; ext_same).
      pose proof (ext_trans _ _ _ H2 H) as H3.
      destruct r; cbn [fst]; try exact H3.
      destruct (add_suffix _ _ _); cbn [fst]; exact H3.
Qed.

Lemma apply_op_ext b o : ext b (fst (apply_op b o)).
Proof.
  destruct o as [k v|k]; cbn [apply_op]; unfold b_insert, b_add.
  - pose proof (check_last_key_ext b k true) as H. destruct (check_last_key b k true) as [b1 r].
    cbn [fst] in H. destruct r; cbn [fst]; try exact H.
    eapply ext_trans; [exact H|apply insert_output_ext].
  - pose proof (check_last_key_ext b k false) as H. destruct (check_last_key b k false) as [b1 r].
    cbn [fst] in H. destruct r; cbn [fst]; try exact H.
    eapply ext_trans; [exact H|apply insert_output_ext].
Qed.

Lemma finish_builder_ext b b3 : b_finish_builder b = Ok b3 -> ext b b3.
Proof.
  unfold b_finish_builder. intros H.
  pose proof (compile_from_ext b O) as H1. destruct (compile_from b 0) as [b1 r]. cbn [fst] in H1.
  destruct r; try discriminate.
  destruct (b_stack b1) as [|root [|? ?]]; try discriminate.
  destruct (u_last root); try discriminate.
  pose proof (compile_ext b1 (u_node root)) as H2. destruct (compile b1 (u_node root)) as [b2 r2].
  cbn [fst] in H2. destruct r2; try discriminate. inversion H; subst.
  eapply ext_trans; [exact H1|]. eapply ext_trans; [exact H2|apply ext_write].
Qed.

(* b_finish_full is b_finish_builder followed by the checksum *)
Lemma finish_full_eq summer b :
  b_finish_full summer b =
  match b_finish_builder b with
  | Ok b3 => let body := concat (rev (b_out b3)) in
             Ok (body ++ (if 3 <=? b_version b3 then u32_le (summer body) else []), b_stats b3)
  | Err x => Err x
  | Panic => Panic
  end.
Proof.
  unfold b_finish_full, b_finish_builder.
  destruct (compile_from b 0) as [b1 r]. destruct r; try reflexivity.
  destruct (b_stack b1) as [|root [|? ?]]; try reflexivity.
  destruct (u_last root); try reflexivity.
  destruct (compile b1 (u_node root)) as [b2 r2]. destruct r2; reflexivity.
Qed.

(* ================= per-call chunk lists ================= *)
Lemma new_chunks_ext b b' : ext b b' ->
  b_out b' = rev (new_chunks b b') ++ b_out b /\
  rev (b_out b') = rev (b_out b) ++ new_chunks b b' /\
  b_count b' = b_count b + len (concat (new_chunks b b')).
Proof.
  intros (cs & H1 & H2 & _). unfold new_chunks. rewrite H1, app_length.
  replace (length cs + length (b_out b) - length (b_out b))%nat with (length cs) by lia.
  rewrite firstn_app, Nat.sub_diag, firstn_all. cbn [firstn]. rewrite app_nil_r, rev_involutive.
  repeat split; auto.
  - now rewrite rev_app_distr.
  - now rewrite len_concat_rev.
Qed.

(* the requested form: b_out after a call = its chunks (newest first) on top of b_out before *)
Theorem chunks_of_call_append b o :
  b_out (fst (apply_op b o)) = rev (chunks_of_call b o) ++ b_out b.
Proof. exact (proj1 (new_chunks_ext _ _ (apply_op_ext b o))). Qed.

Lemma run_calls_fst_cons b o r :
  fst (Builder.run_calls b (o :: r)) = fst (Builder.run_calls (fst (apply_op b o)) r).
Proof.
  cbn [Builder.run_calls]. destruct (apply_op b o) as [b1 x]. cbn [fst].
  destruct (Builder.run_calls b1 r). reflexivity.
Qed.

Lemma calls_of_out : forall ops b,
  rev (b_out (fst (Builder.run_calls b ops))) = rev (b_out b) ++ concat (calls_of b ops).
Proof.
  induction ops as [|o r IH]; intros b.
  - cbn. now rewrite app_nil_r.
  - rewrite run_calls_fst_cons, IH. cbn [calls_of concat].
    destruct (new_chunks_ext _ _ (apply_op_ext b o)) as (_ & H & _). unfold chunks_of_call.
    rewrite H, app_assoc. reflexivity.
Qed.

Lemma calls_of_counts : forall ops b,
  cum_lens (b_count b) (calls_of b ops) = map b_count (states_of b ops).
Proof.
  induction ops as [|o r IH]; intros b; [reflexivity|].
  cbn [calls_of states_of cum_lens map].
  destruct (new_chunks_ext _ _ (apply_op_ext b o)) as (_ & _ & H). unfold chunks_of_call.
  rewrite <- H, IH. reflexivity.
Qed.

Lemma run_calls_version : forall ops b, b_version (fst (Builder.run_calls b ops)) = b_version b.
Proof.
  induction ops as [|o r IH]; intros b; [reflexivity|].
  rewrite run_calls_fst_cons, IH. destruct (apply_op_ext b o) as (_ & _ & _ & H). exact H.
Qed.

(* everything the session of a builder run writes through the CountingWriter, in order, is the
   body of the finished file; and the counters the session must show are the model's b_count *)
Theorem session_of_body ty rows cols ops summer bs :
  b_finish summer (fst (Builder.run_calls (new_builder ty rows cols) ops)) = Ok bs ->
  let '(calls, fin) := session_of ty rows cols ops in
  let body := sess_bytes calls fin in
  bs = body ++ u32_le (summer body) /\
  cum_lens 0 calls = counts_of ty rows cols ops.
Proof.
  intros H. unfold session_of. cbv zeta.
  set (b0 := new_builder ty rows cols) in *. set (b := fst (Builder.run_calls b0 ops)) in *.
  unfold b_finish in H. rewrite finish_full_eq in H. unfold fin_chunks.
  destruct (b_finish_builder b) as [b3| |] eqn:E; try discriminate.
  cbv zeta in H. inversion H; subst bs; clear H.
  pose proof (finish_builder_ext b b3 E) as He.
  destruct (new_chunks_ext _ _ He) as (_ & Hr & _).
  assert (Hv : b_version b3 = 3).
  { destruct He as (_ & _ & _ & Hv). rewrite Hv. unfold b. rewrite run_calls_version. reflexivity. }
  rewrite Hv. change (3 <=? 3) with true. cbv iota.
  assert (Hbody : concat (rev (b_out b3)) = sess_bytes (rev (b_out b0) :: calls_of b0 ops) (new_chunks b b3)).
  { rewrite Hr. unfold b. rewrite calls_of_out. unfold sess_bytes. cbn [concat].
    rewrite !concat_app. rewrite <- app_assoc. reflexivity. }
  rewrite Hbody. split; [reflexivity|].
  unfold counts_of. fold b0. cbn [cum_lens]. rewrite <- calls_of_counts.
  assert (H0 : 0 + len (concat (rev (b_out b0))) = b_count b0) by (vm_compute; reflexivity).
  rewrite H0. reflexivity.
Qed.

(* ================= the real checksum obeys the (restricted) chunking law ================= *)
Lemma real_update_eq s buf : real_update s buf = crc32c_slice16 s buf.
Proof. reflexivity. Qed.

Lemma Forall_firstn_N (P : N -> Prop) n l : Forall P l -> Forall P (firstn n l).
Proof. revert l; induction n; intros [|x l] H; cbn; auto. inversion H; subst. constructor; auto. Qed.
Lemma Forall_skipn_N (P : N -> Prop) n l : Forall P l -> Forall P (skipn n l).
Proof. revert l; induction n; intros [|x l] H; cbn; auto. inversion H; subst. auto. Qed.

Lemma real_law : cond_law real_update (fun s => s < POW32) (fun l => Forall (fun b => b < 256) l).
Proof.
  split.
  - intros s a b Hs Ha Hb. rewrite !real_update_eq. now apply CrcProofs.model_update_app.
  - intros s. rewrite real_update_eq. unfold crc32c_slice16. cbn [slice16_loop fold_left].
    apply CrcProofs.not32_invol.
  - reflexivity.
  - intros s a Hs Ha. rewrite real_update_eq, CrcProofs.slice16_eq_bitwise by assumption.
    now apply CrcProofs.spec_update_u32.
  - constructor.
  - intros a b Ha Hb. apply Forall_app; auto.
  - intros n a. apply Forall_firstn_N.
  - intros n a. apply Forall_skipn_N.
Qed.

Lemma le32_is_u32_le x : Writer.le32 x = u32_le x.
Proof.
  unfold Writer.le32, u32_le. cbn [le_bytes].
  rewrite !N.div_div by lia. reflexivity.
Qed.

Lemma real_footer body :
  Writer.le32 (real_masked (real_update 0 body)) = u32_le (model_masked_crc32c body).
Proof. rewrite le32_is_u32_le. reflexivity. Qed.

(* ================= end to end: builder model -> session -> any benign sink ================= *)
Require Import FstV.Format FstV.CodecSpec FstV.Fst.
Require Import FstV.proofs.BuilderInv FstV.proofs.BuilderBasics FstV.proofs.BuilderNoPanic
               FstV.proofs.BuiltVerifies.

Notation bytes_lt256 l := (Forall (fun b : N => b < 256) l).

(* the finished bytes of any in-range session: they exist, are bytes, are a well-formed file
   holding exactly the accepted keys and values *)
Lemma finished_bytes ty rows cols ops :
  Forall op_ok ops -> size_ok_ops (accepted_ops None ops) -> ty < U64 ->
  exists bs p,
    b_finish model_masked_crc32c (fst (Builder.run_calls (new_builder ty rows cols) ops)) = Ok bs /\
    bytes_lt256 bs /\
    spec_parse bs = Some p /\ p_version p = 3 /\ p_ty p = ty /\
    p_len p = len (spec_content None ops []) /\ p_content p = spec_content None ops [] /\
    wf_fst_b bs = true.
Proof.
  intros Hok Hsize Hty.
  destruct (rejected_leave_no_trace_closed model_masked_crc32c ty rows cols ops Hok Hsize Hty model_masked_u32)
    as (bs & p & H1 & H2 & H3 & H4 & H5 & H6 & H7 & _ & H9).
  destruct (built_ops_verifies ty rows cols (accepted_ops None ops)) as (bs' & m & B1 & _ & _ & _ & _ & _ & B7); auto.
  - apply spec_calls_accepted.
  - apply (op_ok_accepted ops None Hok).
  - exists bs, p. rewrite H2 in B1. inversion B1; subst bs'. repeat split; auto.
Qed.

Lemma Forall_concat_inv {A} (P : A -> Prop) (ls : list (list A)) : Forall P (concat ls) -> Forall (Forall P) ls.
Proof. apply Forall_concat. Qed.

Section EndToEnd.
  Variables (ty rows cols : N) (ops : list op).
  Hypothesis Hok : Forall op_ok ops.
  Hypothesis Hsize : size_ok_ops (accepted_ops None ops).
  Hypothesis Hty : ty < U64.

  (* the chunks of the session are byte strings, and its bytes are the finished file *)
  Lemma session_facts :
    exists bs p,
      b_finish model_masked_crc32c (fst (Builder.run_calls (new_builder ty rows cols) ops)) = Ok bs /\
      let '(calls, fin) := session_of ty rows cols ops in
      Forall (Forall (fun l => bytes_lt256 l)) calls /\ Forall (fun l => bytes_lt256 l) fin /\
      bs = file_bytes real_update real_masked calls fin /\
      cum_lens 0 calls = counts_of ty rows cols ops /\
      spec_parse bs = Some p /\ p_version p = 3 /\ p_ty p = ty /\
      p_len p = len (spec_content None ops []) /\ p_content p = spec_content None ops [] /\
      wf_fst_b bs = true.
  Proof.
    destruct (finished_bytes ty rows cols ops Hok Hsize Hty) as (bs & p & H1 & Hb & Hrest).
    exists bs, p. split; [exact H1|].
    pose proof (session_of_body ty rows cols ops model_masked_crc32c bs H1) as Hs.
    destruct (session_of ty rows cols ops) as [calls fin]. cbv zeta in Hs. destruct Hs as [Hbs Hc].
    assert (Hbody : bytes_lt256 (sess_bytes calls fin)).
    { rewrite Hbs in Hb. apply Forall_app in Hb. tauto. }
    unfold sess_bytes in Hbody. apply Forall_app in Hbody. destruct Hbody as [Hb1 Hb2].
    split; [|split; [|split; [|split; [exact Hc|exact Hrest]]]].
    - apply Forall_concat_inv in Hb1. apply Forall_concat_inv in Hb1. exact Hb1.
    - apply Forall_concat_inv. exact Hb2.
    - rewrite Hbs. unfold file_bytes. now rewrite real_footer.
  Qed.

  Theorem end_to_end_sink oracle prefill : Forall benign oracle ->
    exists bs p,
      b_finish model_masked_crc32c (fst (Builder.run_calls (new_builder ty rows cols) ops)) = Ok bs /\
      let '(calls, fin) := session_of ty rows cols ops in
      let o := real_sink_session oracle FlushOk prefill calls fin in
      s_data (o_final o) = prefill ++ bs /\
      Forall (fun r => st_of r = IoOk tt) (o_calls o) /\
      (exists rf, o_fin o = Some rf /\ st_of rf = IoOk tt) /\
      sink_committed (o_final o) /\
      map bw_of (o_calls o) = counts_of ty rows cols ops /\
      spec_parse bs = Some p /\ p_version p = 3 /\ p_ty p = ty /\
      p_len p = len (spec_content None ops []) /\ p_content p = spec_content None ops [] /\
      wf_fst_b bs = true.
  Proof.
    intros Hben. destruct session_facts as (bs & p & H1 & Hs). exists bs, p. split; [exact H1|].
    destruct (session_of ty rows cols ops) as [calls fin].
    destruct Hs as (Hc & Hf & Hbs & Hcnt & Hrest).
    pose proof (sink_session_good real_update real_masked _ _ real_law oracle prefill calls fin Hc Hf Hben)
      as (A & _ & (rf & C1 & C2 & _) & D & E & F).
    cbv zeta. unfold real_sink_session. rewrite D, <- Hbs, F, Hcnt.
    split; [reflexivity|]. split; [exact A|]. split; [eauto|]. split; [exact E|]. split; [reflexivity|exact Hrest].
  Qed.

  Theorem end_to_end_buf cap oracle prefill : Forall benign oracle ->
    exists bs,
      b_finish model_masked_crc32c (fst (Builder.run_calls (new_builder ty rows cols) ops)) = Ok bs /\
      let '(calls, fin) := session_of ty rows cols ops in
      let o := real_buf_session cap oracle FlushOk prefill calls fin in
      s_data (b_inner (o_final o)) = prefill ++ bs /\ b_buf (o_final o) = [] /\
      Forall (fun r => st_of r = IoOk tt) (o_calls o) /\
      (exists rf, o_fin o = Some rf /\ st_of rf = IoOk tt) /\
      sink_committed (b_inner (o_final o)) /\
      map bw_of (o_calls o) = counts_of ty rows cols ops.
  Proof.
    intros Hben. destruct session_facts as (bs & p & H1 & Hs). exists bs. split; [exact H1|].
    destruct (session_of ty rows cols ops) as [calls fin].
    destruct Hs as (Hc & Hf & Hbs & Hcnt & _).
    pose proof (buf_session_good real_update real_masked _ _ real_law cap oracle prefill calls fin Hc Hf Hben)
      as (A & _ & (rf & C1 & C2 & _) & D & E & G & F).
    cbv zeta. unfold real_buf_session. rewrite D, <- Hbs, F, Hcnt.
    split; [reflexivity|]. split; [exact E|]. split; [exact A|]. split; [eauto|]. split; [exact G|reflexivity].
  Qed.
End EndToEnd.

(* ================= maps: the sink holds a file that answers like the map ================= *)
Require Import FstV.Reader FstV.proofs.BuilderSpecLemmas FstV.proofs.Closed.

Lemma accepted_all_ok : forall ops last,
  Forall (fun r => r = Ok tt) (spec_calls last ops) -> accepted_ops last ops = ops.
Proof.
  induction ops as [|o r IH]; intros last H; [reflexivity|].
  rewrite spec_calls_cons in H. inversion H as [|? ? H1 H2]; subst.
  rewrite accepted_ops_cons, H1. f_equal. apply IH. exact H2.
Qed.

Definition ins_ops (kvs : kmap) : list op := map (fun '(k, v) => OpInsert k v) kvs.

Lemma ins_ops_facts kvs : input_ok kvs ->
  Forall op_ok (ins_ops kvs) /\ accepted_ops None (ins_ops kvs) = ins_ops kvs /\
  size_ok_ops (ins_ops kvs).
Proof.
  intros (Hk & Hb & Hs). repeat split.
  - unfold ins_ops. apply Forall_map. eapply Forall_impl; [|exact Hb]. intros [k v] H. exact H.
  - apply accepted_all_ok. apply (calls_ok_map kvs Hk).
  - unfold size_ok_ops, ins_ops. rewrite map_map.
    replace (map (fun x => BuilderInv.op_key (let '(k, v) := x in OpInsert k v)) kvs) with (keys_of kvs); [exact Hs|].
    unfold keys_of. apply map_ext. intros [k v]. reflexivity.
Qed.

Theorem sink_content_is_the_map ty rows cols kvs oracle prefill :
  input_ok kvs -> ty < U64 -> Forall benign oracle ->
  let '(calls, fin) := session_of ty rows cols (ins_ops kvs) in
  let o := real_sink_session oracle FlushOk prefill calls fin in
  exists bs,
    s_data (o_final o) = prefill ++ bs /\
    build_map model_masked_crc32c ty rows cols kvs = Ok bs /\
    map bw_of (o_calls o) = counts_of ty rows cols (ins_ops kvs) /\
    spec_read bs = Some (3, ty, kvs) /\
    api_stream bs = Ok kvs /\ api_len bs = len kvs /\
    (forall k, Forall (fun b => b < 256) k ->
       api_get bs k = Ok (lookup kvs k) /\
       api_contains bs k = Ok (match lookup kvs k with Some _ => true | None => false end)).
Proof.
  intros Hin Hty Hben.
  destruct (ins_ops_facts kvs Hin) as (Hok & Hacc & Hsz).
  assert (Hsz' : size_ok_ops (accepted_ops None (ins_ops kvs))) by (rewrite Hacc; exact Hsz).
  destruct (end_to_end_sink ty rows cols (ins_ops kvs) Hok Hsz' Hty oracle prefill Hben) as (bs & p & H1 & H2).
  destruct (session_of ty rows cols (ins_ops kvs)) as [calls fin]. cbv zeta in *.
  destruct H2 as (D & _ & _ & _ & F & _).
  exists bs. split; [exact D|].
  rewrite (bytes_function_of_accepted_closed model_masked_crc32c ty rows cols (ins_ops kvs) Hok Hsz'), Hacc in H1.
  change (build_ops model_masked_crc32c ty rows cols (ins_ops kvs)) with (build_map model_masked_crc32c ty rows cols kvs) in H1.
  destruct (built_map_answers model_masked_crc32c ty rows cols kvs Hin Hty model_masked_u32)
    as (bs' & B1 & B2 & _ & B4 & B5 & B6 & _).
  rewrite H1 in B1. inversion B1; subst bs'. repeat split; auto; apply B6; auto.
Qed.
