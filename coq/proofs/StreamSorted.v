Require Import FstV.Base FstV.Node FstV.Reader FstV.GraphSem FstV.proofs.StreamGraphLemmas.
From Coq Require Import ZifyN ZifyBool ZifyNat Sorted.

(* StreamSorted.v — the language of a well-formed graph is strictly sorted by key and every
   key consists of bytes. *)

Definition klt (a b : key) : Prop := lex_cmp a b = Lt.

Lemma SS_sorted_strict l : StronglySorted klt l -> sorted_strict l = true.
Proof.
  induction 1 as [|a r HS IH HF]; [reflexivity|].
  cbn [sorted_strict]. destruct r as [|b r']; [reflexivity|].
  rewrite IH. inversion HF as [|? ? Hab _]; subst. unfold key_ltb. unfold klt in Hab. now rewrite Hab.
Qed.

Lemma SS_app {A} (R : A -> A -> Prop) l1 l2 :
  StronglySorted R l1 -> StronglySorted R l2 ->
  (forall x y, In x l1 -> In y l2 -> R x y) -> StronglySorted R (l1 ++ l2).
Proof.
  induction 1 as [|a r HS IH HF]; intros H2 HX; [exact H2|].
  cbn [app]. constructor.
  - apply IH; [exact H2|]. intros x y Hx Hy. apply HX; [now right|exact Hy].
  - apply Forall_app. split; [exact HF|]. apply Forall_forall. intros y Hy. apply HX; [now left|exact Hy].
Qed.

Lemma SS_map_cons b l : StronglySorted klt l -> StronglySorted klt (map (cons b) l).
Proof.
  induction 1 as [|a r HS IH HF]; cbn [map]; constructor; [exact IH|].
  apply Forall_forall. intros y Hy. apply in_map_iff in Hy. destruct Hy as (y' & <- & Hy').
  rewrite Forall_forall in HF. specialize (HF y' Hy'). unfold klt in *. cbn [lex_cmp].
  now rewrite N.compare_refl.
Qed.

Lemma keys_of_app l1 l2 : keys_of (l1 ++ l2) = keys_of l1 ++ keys_of l2.
Proof. unfold keys_of. apply map_app. Qed.

Lemma keys_of_consT t l : keys_of (map (consT t) l) = map (cons (t_inp t)) (keys_of l).
Proof. unfold keys_of. rewrite !map_map. reflexivity. Qed.

Lemma incr_tail t ts : inputs_increasing (t :: ts) = true -> inputs_increasing ts = true.
Proof.
  destruct ts as [|u r]; [reflexivity|]. cbn [inputs_increasing]. intros H.
  apply andb_true_iff in H. exact (proj2 H).
Qed.

Lemma incr_head : forall ts t, inputs_increasing (t :: ts) = true ->
  forall t', In t' ts -> t_inp t < t_inp t'.
Proof.
  induction ts as [|u r IH]; intros t H t' Hin; [destruct Hin|].
  cbn [inputs_increasing] in H. apply andb_true_iff in H. destruct H as [H1 H2].
  destruct Hin as [<-|Hin]; [lia|].
  specialize (IH u H2 t' Hin). lia.
Qed.

Lemma children_keys_head g : forall ts k, In k (keys_of (children g ts)) ->
  exists t k', In t ts /\ k = t_inp t :: k'.
Proof.
  induction ts as [|t ts IH]; intros k Hk; [destruct Hk|].
  rewrite children_cons, keys_of_app, keys_of_consT in Hk. apply in_app_or in Hk.
  destruct Hk as [Hk|Hk].
  - apply in_map_iff in Hk. destruct Hk as (k' & <- & _). exists t, k'. split; [now left|reflexivity].
  - destruct (IH k Hk) as (t' & k' & Hin & ->). exists t', k'. split; [now right|reflexivity].
Qed.

Lemma children_SS g : forall ts,
  (forall t, In t ts -> StronglySorted klt (keys_of (L g (t_addr t)))) ->
  inputs_increasing ts = true ->
  StronglySorted klt (keys_of (children g ts)).
Proof.
  induction ts as [|t ts IH]; intros HS Hinc; [constructor|].
  rewrite children_cons, keys_of_app, keys_of_consT. apply SS_app.
  - apply SS_map_cons. apply HS. now left.
  - apply IH; [|exact (incr_tail t ts Hinc)]. intros t' Ht'. apply HS. now right.
  - intros x y Hx Hy. apply in_map_iff in Hx. destruct Hx as (x' & <- & _).
    destruct (children_keys_head g ts y Hy) as (t' & y' & Hin & ->).
    pose proof (incr_head ts t Hinc t' Hin) as Hlt. unfold klt. cbn [lex_cmp].
    apply N.compare_lt_iff in Hlt. now rewrite Hlt.
Qed.

Lemma L_SS (g : graph) (wf : wf_graph g) : forall a, StronglySorted klt (keys_of (L g a)).
Proof.
  intros a. induction a as [a IH] using (well_founded_induction N.lt_wf_0).
  destruct (gget g a) as [n|] eqn:Hn.
  - rewrite (L_unfold g wf a n Hn), keys_of_app. apply SS_app.
    + destruct (g_final n); cbn; repeat constructor.
    + apply children_SS; [|exact (wf_incr g wf a n Hn)].
      intros t Ht. apply IH. exact (proj1 (proj2 (wf_child g wf a n t Hn Ht))).
    + intros x y Hx Hy. destruct (children_keys_head g _ y Hy) as (t' & y' & _ & ->).
      destruct (g_final n); cbn in Hx; [|destruct Hx]. destruct Hx as [<-|[]]. reflexivity.
  - rewrite (L_none g a Hn). constructor.
Qed.

Theorem L_sorted : forall (g : graph), wf_graph g -> forall a, sorted_strict (keys_of (L g a)) = true.
Proof. intros g wf a. apply SS_sorted_strict. apply L_SS. exact wf. Qed.

Lemma children_bytes g : forall ts,
  (forall t, In t ts -> t_inp t < 256 /\
     forall k v, In (k, v) (L g (t_addr t)) -> Forall (fun b => b < 256) k) ->
  forall k v, In (k, v) (children g ts) -> Forall (fun b => b < 256) k.
Proof.
  induction ts as [|t ts IH]; intros H k v Hin; [destruct Hin|].
  rewrite children_cons in Hin. apply in_app_or in Hin. destruct Hin as [Hin|Hin].
  - apply in_map_iff in Hin. destruct Hin as ([k' v'] & E & Hin'). unfold consT in E. cbn [fst snd] in E.
    inversion E; subst. destruct (H t (or_introl eq_refl)) as [Hb Hs]. constructor; [exact Hb|].
    exact (Hs k' v' Hin').
  - apply (IH (fun t' Ht' => H t' (or_intror Ht')) k v Hin).
Qed.

Theorem L_keys_bytes : forall (g : graph), wf_graph g -> forall a k v, In (k, v) (L g a) -> Forall (fun b => b < 256) k.
Proof.
  intros g wf a. induction a as [a IH] using (well_founded_induction N.lt_wf_0). intros k v Hin.
  destruct (gget g a) as [n|] eqn:Hn.
  - rewrite (L_unfold g wf a n Hn) in Hin. apply in_app_or in Hin. destruct Hin as [Hin|Hin].
    + destruct (g_final n); cbn in Hin; [|destruct Hin]. destruct Hin as [E|[]]. inversion E. constructor.
    + apply (children_bytes g (g_trans n)) with (v := v); [|exact Hin].
      intros t Ht. destruct (wf_child g wf a n t Hn Ht) as (Hb & Hlt & _). split; [exact Hb|].
      intros k' v' Hin'. exact (IH (t_addr t) Hlt k' v' Hin').
  - rewrite (L_none g a Hn) in Hin. destruct Hin.
Qed.

Print Assumptions L_sorted.
Print Assumptions L_keys_bytes.
