(* BuilderBatches.v — several extend_iter / extend_stream batches on ONE builder (C06).

   Model: Builder.run_batches (fold of run_extend: a batch that stops at a rejected item leaves a
   builder that the next batch goes on with), Builder.batches_written (bytes_written after every
   batch).  Specification: Fst.spec_batches (per batch the accepted prefix judged from the last
   accepted key so far; accepted items overall, one result per batch, last accepted key).

   Proved here, closed (the invariant argument is the one of BuilderNoPanic.v: accepted calls keep
   the full builder invariant, rejected calls return the very same state):
   - batches_results: results = specification, none is Panic, a batch's result is the error of
     its first rejected item or Ok;
   - batches_leave_no_trace: the state after the batches is the state after the accepted items
     alone (single calls or one extend), the finished bytes are those of from_iter over the
     accepted items and their content is exactly the accepted keys and values;
   - batches_eq_extend: cutting a sequence into batches changes nothing but where processing
     stops (extend_app iterated);
   - single calls are batches of one item; a list of batches can be cut anywhere. *)
Require Import FstV.Base FstV.Pack FstV.Node FstV.Registry FstV.Builder FstV.GraphSem FstV.Format
               FstV.CodecSpec FstV.Fst.
Require Import FstV.proofs.BuilderInv FstV.proofs.BuilderSpecLemmas FstV.proofs.BuilderProofs4
               FstV.proofs.BuilderProofs5 FstV.proofs.NodeCodec.
Require Import FstV.proofs.BuilderBasics FstV.proofs.BuilderNoPanic.

(* projections of the specification's triple *)
Definition sb_accepted (last : option key) (batches : list (list op)) : list op := fst (fst (spec_batches last batches)).
Definition sb_results (last : option key) (batches : list (list op)) : list (res unit) := snd (fst (spec_batches last batches)).
Definition sb_last (last : option key) (batches : list (list op)) : option key := snd (spec_batches last batches).

(* ---------- unfolding lemmas ---------- *)
Lemma run_batches_cons b ops r :
  run_batches b (ops :: r) =
  (fst (run_batches (fst (run_extend b ops)) r), snd (run_extend b ops) :: snd (run_batches (fst (run_extend b ops)) r)).
Proof. cbn [run_batches]. destruct (run_extend b ops) as [b1 x]. cbn [fst snd]. now destruct (run_batches b1 r). Qed.

Lemma spec_batches_cons last ops r :
  spec_batches last (ops :: r) =
  let l1 := spec_last last (fst (accepted_prefix last ops)) in
  (fst (accepted_prefix last ops) ++ sb_accepted l1 r, snd (accepted_prefix last ops) :: sb_results l1 r, sb_last l1 r).
Proof.
  unfold sb_accepted, sb_results, sb_last. cbn [spec_batches]. destruct (accepted_prefix last ops) as [p x]. cbn [fst snd].
  now destruct (spec_batches (spec_last last p) r) as [[acc xs] l'].
Qed.

Lemma sb_accepted_cons last ops r :
  sb_accepted last (ops :: r) =
  fst (accepted_prefix last ops) ++ sb_accepted (spec_last last (fst (accepted_prefix last ops))) r.
Proof. unfold sb_accepted at 1. now rewrite spec_batches_cons. Qed.
Lemma sb_results_cons last ops r :
  sb_results last (ops :: r) =
  snd (accepted_prefix last ops) :: sb_results (spec_last last (fst (accepted_prefix last ops))) r.
Proof. unfold sb_results at 1. now rewrite spec_batches_cons. Qed.
Lemma sb_last_cons last ops r :
  sb_last last (ops :: r) = sb_last (spec_last last (fst (accepted_prefix last ops))) r.
Proof. unfold sb_last at 1. now rewrite spec_batches_cons. Qed.

Lemma run_calls_app ops1 : forall b ops2,
  run_calls b (ops1 ++ ops2) =
  (fst (run_calls (fst (run_calls b ops1)) ops2), snd (run_calls b ops1) ++ snd (run_calls (fst (run_calls b ops1)) ops2)).
Proof.
  induction ops1 as [|o r IH]; intros b ops2.
  - cbn [app run_calls fst snd]. now destruct (run_calls b ops2).
  - cbn [app]. rewrite !run_calls_cons. cbn [fst snd]. rewrite IH. reflexivity.
Qed.

(* ---------- the specification of one batch ---------- *)
(* the accepted prefix consists of accepted items only *)
Lemma accepted_ops_prefix ops : forall last,
  accepted_ops last (fst (accepted_prefix last ops)) = fst (accepted_prefix last ops).
Proof.
  induction ops as [|o r IH]; intros last; [reflexivity|].
  rewrite accepted_prefix_cons. destruct (snd (spec_call last o)) as [u|e|] eqn:E; [|reflexivity..].
  cbn [fst]. rewrite accepted_ops_cons, E. f_equal. apply IH.
Qed.

Lemma op_ok_prefix ops : forall last, Forall op_ok ops -> Forall op_ok (fst (accepted_prefix last ops)).
Proof.
  induction ops as [|o r IH]; intros last H; [constructor|]. inversion H; subst.
  rewrite accepted_prefix_cons. destruct (snd (spec_call last o)); cbn [fst]; auto.
Qed.

(* a batch's result is the first result that is not Ok among the results the same items would get
   as single calls, i.e. the error of its first rejected item *)
Lemma accepted_prefix_first_error ops : forall last,
  snd (accepted_prefix last ops) = first_non_ok (spec_calls last ops).
Proof.
  induction ops as [|o r IH]; intros last; [reflexivity|].
  rewrite accepted_prefix_cons, spec_calls_cons. cbn [first_non_ok].
  destruct (snd (spec_call last o)) as [u|e|]; cbn [snd]; auto.
Qed.

Lemma accepted_prefix_result ops : forall last,
  snd (accepted_prefix last ops) = Ok tt \/ exists e, snd (accepted_prefix last ops) = Err e /\ is_order_err e.
Proof.
  induction ops as [|o r IH]; intros last; [left; reflexivity|].
  rewrite accepted_prefix_cons.
  pose proof (spec_call_no_panic last o) as HP.
  destruct (snd (spec_call last o)) as [u|e|] eqn:E; cbn [snd]; [apply IH| |congruence].
  right. exists e. split; [reflexivity|].
  destruct o as [k v|k]; cbn [spec_call] in E; destruct last as [l|]; cbn [andb snd] in E; try discriminate.
  - destruct (key_eqb k l); cbn [snd] in E; [injection E as <-; exact I|].
    destruct (key_ltb k l); cbn [snd] in E; [injection E as <-; exact I|discriminate].
  - destruct (key_ltb k l); cbn [snd] in E; [injection E as <-; exact I|discriminate].
Qed.

(* a fully accepted batch is its own accepted prefix *)
Lemma accepted_prefix_all_ok ops : forall last,
  snd (accepted_prefix last ops) = Ok tt -> fst (accepted_prefix last ops) = ops.
Proof.
  induction ops as [|o r IH]; intros last; [reflexivity|].
  rewrite accepted_prefix_cons. destruct (snd (spec_call last o)) as [u|e|]; cbn [fst snd]; try discriminate.
  intros H. f_equal. apply IH. exact H.
Qed.

(* the last key of the builder after single calls is the specified one *)
Lemma run_calls_last ops : forall b, b_last (fst (run_calls b ops)) = spec_last (b_last b) ops.
Proof.
  induction ops as [|o r IH]; intros b; [reflexivity|].
  rewrite run_calls_cons. cbn [fst spec_last]. rewrite IH, apply_op_last. reflexivity.
Qed.

(* ---------- one batch from a state that satisfies the builder invariant ---------- *)
Lemma extend_inv_post ty ops G rem E acc b :
  inv 3 ty G (key_bytes (map BuilderInv.op_key (fst (accepted_prefix (b_last b) ops))) + rem) E acc b ->
  last_ok acc b -> Forall op_ok ops ->
  run_extend b ops = (fst (run_calls b (fst (accepted_prefix (b_last b) ops))), snd (accepted_prefix (b_last b) ops)) /\
  Forall (fun r => r = Ok tt) (snd (run_calls b (fst (accepted_prefix (b_last b) ops)))) /\
  exists E' acc', inv 3 ty G rem E' acc' (fst (run_extend b ops)) /\ last_ok acc' (fst (run_extend b ops)).
Proof.
  intros Hinv Hlast Hok.
  pose proof (extend_inv ty ops G rem E acc b Hinv Hlast Hok) as Hnp.
  destruct (extend_stops_at_first_error ops b Hnp) as (Hrun & Hall & _).
  split; [exact Hrun|]. split; [exact Hall|].
  rewrite Hrun. cbn [fst].
  rewrite <- (accepted_ops_prefix ops (b_last b)) in Hinv.
  destruct (calls_inv ty (fst (accepted_prefix (b_last b) ops)) G rem E acc b Hinv Hlast (op_ok_prefix ops _ Hok)) as (_ & HE).
  exact HE.
Qed.

Lemma key_bytes_app a : forall c, key_bytes (a ++ c) = key_bytes a + key_bytes c.
Proof.
  induction a as [|k a IHa]; intros c.
  - change (key_bytes c = 0 + key_bytes c). lia.
  - cbn [app]. rewrite !key_bytes_cons, IHa. lia.
Qed.

(* ---------- several batches: no panic, the invariant survives ---------- *)
Lemma batches_inv ty batches : forall G rem E acc b,
  inv 3 ty G (key_bytes (map BuilderInv.op_key (sb_accepted (b_last b) batches)) + rem) E acc b ->
  last_ok acc b -> Forall (Forall op_ok) batches ->
  Forall (fun r => r <> Panic) (snd (run_batches b batches)) /\
  exists E' acc', inv 3 ty G rem E' acc' (fst (run_batches b batches)) /\ last_ok acc' (fst (run_batches b batches)).
Proof.
  induction batches as [|ops r IH]; intros G rem E acc b Hinv Hlast Hok.
  - cbn [run_batches fst snd]. split; [constructor|]. exists E, acc. split; [|exact Hlast].
    eapply inv_rem_eq; [|exact Hinv]. reflexivity.
  - inversion Hok as [|? ? Ho Hoks]; subst.
    rewrite run_batches_cons. cbn [fst snd]. rewrite sb_accepted_cons, map_app in Hinv.
    set (p := fst (accepted_prefix (b_last b) ops)) in *.
    set (l1 := spec_last (b_last b) p) in *.
    rewrite key_bytes_app in Hinv.
    assert (Hinv' : inv 3 ty G (key_bytes (map BuilderInv.op_key p) +
                                (key_bytes (map BuilderInv.op_key (sb_accepted l1 r)) + rem)) E acc b).
    { eapply inv_rem_eq; [|exact Hinv]. lia. }
    destruct (extend_inv_post ty ops G _ E acc b Hinv' Hlast Ho) as (Hrun & Hall & E1 & acc1 & Hi1 & Hl1).
    assert (Hb1 : b_last (fst (run_extend b ops)) = l1).
    { rewrite Hrun. cbn [fst]. apply run_calls_last. }
    rewrite <- Hb1 in Hi1.
    destruct (IH G rem E1 acc1 _ Hi1 Hl1 Hoks) as (HF & HE). split; [|exact HE].
    constructor; [|exact HF]. rewrite Hrun. cbn [snd].
    destruct (accepted_prefix_result ops (b_last b)) as [->|(e & -> & _)]; discriminate.
Qed.

(* ---------- several batches against the specification, given that nothing panics ---------- *)
Lemma batches_spec batches : forall b,
  Forall (fun r => r <> Panic) (snd (run_batches b batches)) ->
  snd (run_batches b batches) = sb_results (b_last b) batches /\
  fst (run_batches b batches) = fst (run_calls b (sb_accepted (b_last b) batches)) /\
  Forall (fun r => r = Ok tt) (snd (run_calls b (sb_accepted (b_last b) batches))) /\
  b_last (fst (run_batches b batches)) = sb_last (b_last b) batches.
Proof.
  induction batches as [|ops r IH]; intros b.
  - intros _. cbn. repeat split; constructor.
  - rewrite run_batches_cons, sb_results_cons, sb_accepted_cons, sb_last_cons. cbn [fst snd].
    intros HF. inversion HF as [|? ? Hx Hr]; subst.
    destruct (extend_stops_at_first_error ops b Hx) as (Hrun & Hall & _).
    set (p := fst (accepted_prefix (b_last b) ops)) in *.
    assert (Hb1 : b_last (fst (run_extend b ops)) = spec_last (b_last b) p).
    { rewrite Hrun. cbn [fst]. apply run_calls_last. }
    destruct (IH _ Hr) as (A & B & C & D). rewrite Hb1 in A, B, C, D.
    rewrite run_calls_app. cbn [fst snd].
    assert (Hst : fst (run_extend b ops) = fst (run_calls b p)) by (rewrite Hrun; reflexivity).
    rewrite Hst in A, B, C, D.
    split; [|split; [|split]].
    + rewrite Hst, A. f_equal. rewrite Hrun. reflexivity.
    + rewrite Hst. exact B.
    + apply Forall_app. split; assumption.
    + rewrite Hst. exact D.
Qed.

(* ---------- (c) cutting a sequence into batches changes only where processing stops ---------- *)
(* as long as the batches so far were fully accepted, a further batch behaves like the tail of one
   long extend: run_batches b (pre ++ [ops]) ends in the state, and with the result, of
   run_extend b (concat pre ++ ops) *)
Theorem batches_eq_extend_gen pre : forall b ops,
  Forall (fun r => r = Ok tt) (snd (run_batches b pre)) ->
  run_extend b (concat pre ++ ops) = run_extend (fst (run_batches b pre)) ops.
Proof.
  induction pre as [|o1 r IH]; intros b ops; [reflexivity|].
  rewrite run_batches_cons. cbn [fst snd concat]. intros HF. inversion HF as [|? ? Hx Hr]; subst.
  rewrite <- app_assoc, (extend_app o1 b _ Hx). apply IH. exact Hr.
Qed.

Theorem batches_eq_extend b batches :
  Forall (fun r => r = Ok tt) (snd (run_batches b batches)) ->
  run_extend b (concat batches) = (fst (run_batches b batches), Ok tt).
Proof.
  intros H. pose proof (batches_eq_extend_gen batches b [] H) as E. rewrite app_nil_r in E. exact E.
Qed.

(* the same on the specification side: if every batch is fully accepted, the accepted items are all items *)
Lemma sb_all_ok batches : forall last,
  Forall (fun r => r = Ok tt) (sb_results last batches) -> sb_accepted last batches = concat batches.
Proof.
  induction batches as [|ops r IH]; intros last; [reflexivity|].
  rewrite sb_results_cons, sb_accepted_cons. intros HF. inversion HF as [|? ? Hx Hr]; subst.
  cbn [concat]. rewrite (IH _ Hr), (accepted_prefix_all_ok _ _ Hx). reflexivity.
Qed.

(* a list of batches can be cut anywhere: the second part starts from the state the first left *)
Theorem run_batches_app bs1 : forall b bs2,
  run_batches b (bs1 ++ bs2) =
  (fst (run_batches (fst (run_batches b bs1)) bs2), snd (run_batches b bs1) ++ snd (run_batches (fst (run_batches b bs1)) bs2)).
Proof.
  induction bs1 as [|o r IH]; intros b bs2.
  - cbn [app run_batches fst snd]. now destruct (run_batches b bs2).
  - cbn [app]. rewrite !run_batches_cons. cbn [fst snd]. rewrite IH. reflexivity.
Qed.

(* single calls are batches of one item each (so "a builder reached by earlier calls and batches" is
   a builder reached by batches) *)
Lemma run_extend_single b o : run_extend b [o] = apply_op b o.
Proof. cbn [run_extend]. destruct (apply_op b o) as [b1 [[]|e|]]; reflexivity. Qed.

Theorem calls_are_batches ops : forall b, run_batches b (map (fun o => [o]) ops) = run_calls b ops.
Proof.
  induction ops as [|o r IH]; intros b; [reflexivity|].
  cbn [map]. rewrite run_batches_cons, run_calls_cons, run_extend_single, IH. reflexivity.
Qed.

(* bytes_written after every batch = b_count of the state after that many batches *)
Theorem batches_written_spec batches : forall b,
  batches_written b batches =
  map (fun n => b_count (fst (run_batches b (firstn n batches)))) (seq 1 (length batches)).
Proof.
  induction batches as [|ops r IH]; intros b; [reflexivity|].
  cbn [batches_written length seq map]. rewrite <- seq_shift, map_map, IH. f_equal.
  - cbn [firstn]. rewrite run_batches_cons. reflexivity.
  - apply map_ext. intros n. cbn [firstn]. rewrite run_batches_cons. reflexivity.
Qed.

(* ---------- closed forms for a new builder ---------- *)
Lemma batches_never_panic ty rows cols batches :
  Forall (Forall op_ok) batches -> size_ok_ops (sb_accepted None batches) ->
  Forall (fun r => r <> Panic) (snd (run_batches (new_builder ty rows cols) batches)).
Proof.
  intros Hok Hsize.
  set (kb := key_bytes (map BuilderInv.op_key (sb_accepted None batches))).
  destruct (init_inv ty 3 (rows * cols =? 0) ver3_ok rows cols (1 + kb) (kb + 0) eq_refl) as (Hi0 & Hl0 & _); [lia|exact Hsize|].
  exact (proj1 (batches_inv ty batches (1 + kb) 0 [] [] (new_builder ty rows cols) Hi0 Hl0 Hok)).
Qed.

(* position i of a list of batches: the batches before it, the batch, the batches after it *)
Lemma nth_error_app_mid {A} (pre : list A) x post : nth_error (pre ++ x :: post) (length pre) = Some x.
Proof. induction pre; cbn; auto. Qed.

(* (a) results *)
Theorem batches_results ty rows cols batches :
  Forall (Forall op_ok) batches -> size_ok_ops (sb_accepted None batches) ->
  let b0 := new_builder ty rows cols in
  snd (run_batches b0 batches) = sb_results None batches /\
  Forall (fun r => r <> Panic) (snd (run_batches b0 batches)) /\
  Forall (fun r => r = Ok tt \/ exists e, r = Err e /\ is_order_err e) (snd (run_batches b0 batches)) /\
  (forall pre ops post, batches = pre ++ ops :: post ->
     (* the result of the batch [ops]: the first result that is not Ok among the results its items
        get one by one, judged from the last key accepted in the batches before it *)
     nth_error (snd (run_batches b0 batches)) (length pre) = Some (first_non_ok (spec_calls (sb_last None pre) ops)) /\
     first_non_ok (spec_calls (sb_last None pre) ops) = first_non_ok (snd (run_calls (fst (run_batches b0 pre)) ops))).
Proof.
  intros Hok Hsize b0.
  pose proof (batches_never_panic ty rows cols batches Hok Hsize) as Hnp. fold b0 in Hnp.
  destruct (batches_spec batches b0 Hnp) as (Hres & _).
  change (b_last b0) with (@None key) in Hres.
  split; [exact Hres|]. split; [exact Hnp|]. split.
  - rewrite Hres. clear. generalize (@None key). induction batches as [|ops r IH]; intros last; [constructor|].
    rewrite sb_results_cons. constructor; [apply accepted_prefix_result|apply IH].
  - intros pre ops post ->.
    rewrite run_batches_app in Hnp. cbn [snd] in Hnp. apply Forall_app in Hnp. destruct Hnp as [Hnp1 Hnp2].
    destruct (batches_spec pre b0 Hnp1) as (Hr1 & _ & _ & Hl1).
    change (b_last b0) with (@None key) in Hr1, Hl1.
    rewrite run_batches_app. cbn [snd].
    assert (Hlen : length (snd (run_batches b0 pre)) = length pre).
    { clear. generalize b0. induction pre as [|o r IH]; intros b; [reflexivity|].
      rewrite run_batches_cons. cbn [snd length]. now rewrite IH. }
    rewrite <- Hlen. rewrite run_batches_cons. cbn [snd]. rewrite nth_error_app_mid.
    rewrite <- extend_first_error.
    rewrite run_batches_cons in Hnp2. cbn [snd] in Hnp2. inversion Hnp2 as [|? ? Hx _]; subst.
    destruct (extend_stops_at_first_error ops _ Hx) as (Hrun & _).
    rewrite Hrun. cbn [snd]. rewrite Hl1, accepted_prefix_first_error. split; reflexivity.
Qed.

Lemma op_ok_sb_accepted batches : forall last,
  Forall (Forall op_ok) batches -> Forall op_ok (sb_accepted last batches).
Proof.
  induction batches as [|ops r IH]; intros last H; [constructor|]. inversion H; subst.
  rewrite sb_accepted_cons. apply Forall_app. split; [apply op_ok_prefix; assumption|apply IH; assumption].
Qed.

(* the accepted items, replayed alone, are all accepted *)
Lemma accepted_ops_app a : forall c l,
  accepted_ops l (a ++ c) = accepted_ops l a ++ accepted_ops (spec_last l a) c.
Proof.
  induction a as [|o a IH]; intros c l; [reflexivity|].
  cbn [app spec_last]. rewrite !accepted_ops_cons, IH. now destruct (snd (spec_call l o)).
Qed.

Lemma sb_accepted_accepted batches : forall last,
  accepted_ops last (sb_accepted last batches) = sb_accepted last batches.
Proof.
  induction batches as [|ops r IH]; intros last; [reflexivity|].
  rewrite sb_accepted_cons, accepted_ops_app, accepted_ops_prefix, IH. reflexivity.
Qed.

(* (b) rejected items and the skipped rest of a failed batch leave no trace *)
Theorem batches_leave_no_trace summer ty rows cols batches :
  Forall (Forall op_ok) batches -> size_ok_ops (sb_accepted None batches) ->
  ty < U64 -> (forall l, summer l < 4294967296) ->
  let b0 := new_builder ty rows cols in
  let accepted := sb_accepted None batches in
  fst (run_batches b0 batches) = fst (run_calls b0 accepted) /\
  run_extend b0 accepted = (fst (run_batches b0 batches), Ok tt) /\
  Forall (fun r => r = Ok tt) (snd (run_calls b0 accepted)) /\
  b_last (fst (run_batches b0 batches)) = sb_last None batches /\
  exists bs p,
    b_finish summer (fst (run_batches b0 batches)) = Ok bs /\
    build_ops summer ty rows cols accepted = Ok bs /\
    spec_parse bs = Some p /\
    p_version p = 3 /\ p_ty p = ty /\ p_len p = len (spec_content None accepted []) /\
    p_content p = spec_content None accepted [] /\
    p_checksum p = Some (summer (firstn (length bs - 4) bs)) /\
    wf_fst_b bs = true.
Proof.
  intros Hok Hsize Hty Hsum b0 accepted.
  pose proof (batches_never_panic ty rows cols batches Hok Hsize) as Hnp. fold b0 in Hnp.
  destruct (batches_spec batches b0 Hnp) as (_ & Hst & Hall & Hlast).
  change (b_last b0) with (@None key) in Hst, Hall, Hlast. fold accepted in Hst, Hall.
  split; [exact Hst|]. split; [rewrite (calls_eq_extend _ _ Hall), Hst; reflexivity|].
  split; [exact Hall|]. split; [exact Hlast|].
  assert (Hacc : accepted_ops None accepted = accepted) by apply sb_accepted_accepted.
  destruct (rejected_leave_no_trace_closed summer ty rows cols accepted) as (bs & p & H1 & H2 & H3); auto.
  - apply op_ok_sb_accepted. exact Hok.
  - rewrite Hacc. exact Hsize.
  - exists bs, p. rewrite Hst. rewrite Hacc in H2. tauto.
Qed.


(* ---------- builders reached by earlier batches (or single calls: batches of one item) ---------- *)
Lemma spec_batches_app h : forall last bs,
  sb_accepted last (h ++ bs) = sb_accepted last h ++ sb_accepted (sb_last last h) bs /\
  sb_results last (h ++ bs) = sb_results last h ++ sb_results (sb_last last h) bs /\
  sb_last last (h ++ bs) = sb_last (sb_last last h) bs.
Proof.
  induction h as [|ops r IH]; intros last bs; [repeat split; reflexivity|].
  cbn [app]. rewrite !sb_accepted_cons, !sb_results_cons, !sb_last_cons.
  destruct (IH (spec_last last (fst (accepted_prefix last ops))) bs) as (A & B & C).
  rewrite A, B, C, app_assoc. repeat split; reflexivity.
Qed.

(* (a) for every builder reachable from a new one by an earlier history of batches: the further
   batches get the specified results, judged from the last key the history got accepted *)
Theorem batches_results_reachable ty rows cols history batches :
  Forall (Forall op_ok) (history ++ batches) -> size_ok_ops (sb_accepted None (history ++ batches)) ->
  let b := fst (run_batches (new_builder ty rows cols) history) in
  b_last b = sb_last None history /\
  snd (run_batches b batches) = sb_results (b_last b) batches /\
  Forall (fun r => r <> Panic) (snd (run_batches b batches)) /\
  fst (run_batches b batches) = fst (run_calls b (sb_accepted (b_last b) batches)).
Proof.
  intros Hok Hsize b.
  pose proof (batches_never_panic ty rows cols _ Hok Hsize) as Hnp.
  rewrite run_batches_app in Hnp. cbn [snd] in Hnp. apply Forall_app in Hnp. destruct Hnp as [Hnp1 Hnp2].
  destruct (batches_spec history _ Hnp1) as (_ & _ & _ & Hl).
  change (b_last (new_builder ty rows cols)) with (@None key) in Hl.
  fold b in Hnp2, Hl.
  destruct (batches_spec batches b Hnp2) as (A & B & _).
  repeat split; assumption.
Qed.
