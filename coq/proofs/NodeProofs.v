(* NodeProofs.v — the five statements of CodecSpec.v, proved.
     codec_holds, compile_total_holds   : proofs/NodeCodec.v
     reader_eq_spec_holds               : proofs/NodeReader.v (+ NodeReaderBase.v)
     data_get_holds                     : proofs/DataGet.v
     parse_views_holds                  : here, from proofs/ParseViews.v (whole-file argument,
                                          parametric in reader = spec) and reader_eq_spec_holds;
                                          fuel independence of GraphSem.lang is in NodeGraphLemmas.v *)
Require Import FstV.Base FstV.CodecSpec.
Require Export FstV.proofs.PackProofs FstV.proofs.NodeCodec FstV.proofs.NodeReader
               FstV.proofs.DataGet FstV.proofs.NodeGraphLemmas FstV.proofs.ParseViews.

Theorem parse_views_holds : parse_views_statement.
Proof. exact (parse_views_from_reader reader_eq_spec_holds). Qed.

Check codec_holds : codec_statement.
Check compile_total_holds : compile_total_statement.
Check reader_eq_spec_holds : reader_eq_spec_statement.
Check data_get_holds : data_get_statement.
Check parse_views_holds : parse_views_statement.

Print Assumptions codec_holds.
Print Assumptions compile_total_holds.
Print Assumptions reader_eq_spec_holds.
Print Assumptions data_get_holds.
Print Assumptions parse_views_holds.
