(* StreamProofs.v — correctness of the stream machinery of src/raw/mod.rs (seek_min, next_with,
   collect) against the graph semantics: search_with_state returns exactly
   spec_search (L g root) A cs.  See Properties/C03.v and C04.v for the statements. *)
Require Import FstV.Base FstV.Loop FstV.Node FstV.Automaton FstV.Reader FstV.GraphSem FstV.Fst.
Require Import FstV.proofs.StreamGraphLemmas.
From Coq Require Import ZifyN ZifyBool ZifyNat.

#[local] Arguments mkFrame {A}.
#[local] Arguments f_node {A}.
#[local] Arguments f_trans {A}.
#[local] Arguments f_out {A}.
#[local] Arguments f_aut {A}.
#[local] Arguments mkStream {A}.
#[local] Arguments s_inp {A}.
#[local] Arguments s_empty_output {A}.
#[local] Arguments s_stack {A}.
#[local] Arguments s_end_at {A}.

(* ---------- lexicographic order ---------- *)
Lemma lex_cmp_app p x y : lex_cmp (p ++ x) (p ++ y) = lex_cmp x y.
Proof. induction p as [|c p IH]; cbn; [reflexivity|]. now rewrite N.compare_refl. Qed.
Lemma key_leb_nil x : key_leb [] x = true.
Proof. destruct x; reflexivity. Qed.
Lemma key_leb_app p x : key_leb p (p ++ x) = true.
Proof. unfold key_leb. rewrite <- (app_nil_r p) at 1. rewrite lex_cmp_app. destruct x; reflexivity. Qed.
Lemma key_leb_cases a b : key_leb a b = true <-> a = b \/ key_ltb a b = true.
Proof.
  unfold key_leb, key_ltb. destruct (lex_cmp a b) eqn:E.
  - apply lex_cmp_eq in E. tauto.
  - tauto.
  - split; [discriminate|]. intros [->|H]; [|discriminate]. now rewrite lex_cmp_refl in E.
Qed.
Lemma key_ltb_trans a b c : key_ltb a b = true -> key_ltb b c = true -> key_ltb a c = true.
Proof.
  unfold key_ltb. destruct (lex_cmp a b) eqn:E1; try discriminate. destruct (lex_cmp b c) eqn:E2; try discriminate.
  now rewrite (lex_cmp_trans_lt _ _ _ E1 E2).
Qed.
Lemma key_ltb_leb_trans a b c : key_ltb a b = true -> key_leb b c = true -> key_ltb a c = true.
Proof. intros H1 H2. apply key_leb_cases in H2. destruct H2 as [->|H2]; [exact H1|]. eapply key_ltb_trans; eauto. Qed.
Lemma key_leb_ltb_trans a b c : key_leb a b = true -> key_ltb b c = true -> key_ltb a c = true.
Proof. intros H1 H2. apply key_leb_cases in H1. destruct H1 as [->|H1]; [exact H2|]. eapply key_ltb_trans; eauto. Qed.
Lemma key_ltb_leb a b : key_ltb a b = true -> key_leb a b = true.
Proof. intros H. apply key_leb_cases. now right. Qed.
Lemma key_leb_trans a b c : key_leb a b = true -> key_leb b c = true -> key_leb a c = true.
Proof.
  intros H1 H2. apply key_leb_cases in H1. destruct H1 as [->|H1]; [exact H2|].
  apply key_ltb_leb. eapply key_ltb_leb_trans; eauto.
Qed.
Lemma key_ltb_app_cons p b c x y : b < c -> key_ltb (p ++ b :: x) (p ++ c :: y) = true.
Proof. intros H. unfold key_ltb. rewrite lex_cmp_app. cbn. apply N.compare_lt_iff in H. now rewrite H. Qed.
Lemma key_ltb_cons_cons b x y : key_ltb (b :: x) (b :: y) = key_ltb x y.
Proof. unfold key_ltb. cbn. now rewrite N.compare_refl. Qed.
Lemma key_leb_cons_cons b x y : key_leb (b :: x) (b :: y) = key_leb x y.
Proof. unfold key_leb. cbn. now rewrite N.compare_refl. Qed.

Lemma exceeded_mono mx a b : exceeded_by mx a = true -> key_leb a b = true -> exceeded_by mx b = true.
Proof.
  destruct mx as [v|v|]; cbn [exceeded_by]; intros H1 H2.
  - eapply key_ltb_leb_trans; eauto.
  - eapply key_leb_trans; eauto.
  - discriminate.
Qed.

(* ---------- list helpers ---------- *)
Lemma nth_error_skipn {X} (l : list X) n x : nth_error l n = Some x -> skipn n l = x :: skipn (S n) l.
Proof. revert n; induction l as [|y l IH]; intros [|n] H; cbn in *; try discriminate. - now inversion H. - now apply IH. Qed.
Lemma filter_nil_all {X} (p : X -> bool) l : (forall x, In x l -> p x = false) -> filter p l = [].
Proof.
  induction l as [|x l IH]; intros H; cbn; [reflexivity|]. rewrite (H x (or_introl eq_refl)). apply IH.
  intros y Hy. apply H. now right.
Qed.
Lemma filter_all {X} (p : X -> bool) l : (forall x, In x l -> p x = true) -> filter p l = l.
Proof.
  induction l as [|x l IH]; intros H; cbn; [reflexivity|]. rewrite (H x (or_introl eq_refl)). f_equal. apply IH.
  intros y Hy. apply H. now right.
Qed.
Lemma filter_map_comm {X Y} (p : Y -> bool) (f : X -> Y) l : filter p (map f l) = map f (filter (fun x => p (f x)) l).
Proof. induction l as [|x l IH]; cbn; [reflexivity|]. destruct (p (f x)); cbn; now rewrite IH. Qed.

(* ---------- increasing inputs ---------- *)
Lemma incr_head t r : inputs_increasing (t :: r) = true ->
  inputs_increasing r = true /\ forall t', In t' r -> t_inp t < t_inp t'.
Proof.
  revert t; induction r as [|u r IH]; intros t H; [split; [reflexivity|intros ? []]|].
  cbn [inputs_increasing] in H. apply andb_true_iff in H. destruct H as [H1 H2].
  split; [exact H2|]. destruct (IH u H2) as [_ H3]. intros t' [<-|Hin]; [lia|]. specialize (H3 t' Hin). lia.
Qed.
Lemma incr_split : forall ts j t, inputs_increasing ts = true -> nth_error ts j = Some t ->
  (forall t', In t' (firstn j ts) -> t_inp t' < t_inp t) /\ (forall t', In t' (skipn (S j) ts) -> t_inp t < t_inp t').
Proof.
  induction ts as [|u ts IH]; intros [|j] t Hi Hn; cbn in Hn; try discriminate.
  - inversion Hn; subst. split; [intros ? []|]. cbn [skipn]. apply (incr_head _ _ Hi).
  - destruct (incr_head _ _ Hi) as [Hi' Hlt]. destruct (IH j t Hi' Hn) as [H1 H2]. split.
    + cbn [firstn]. intros t' [<-|Hin]; [apply Hlt; eapply nth_error_In; eauto|auto].
    + exact H2.
Qed.

(* ---------- bounds ---------- *)
Definition lower (mn : bound) (k : key) : bool :=
  match mn with Included v => key_leb v k | Excluded v => key_ltb v k | Unbounded => true end.
Definition bound_bytes (b : bound) : Prop :=
  match b with Included v | Excluded v => Forall (fun x => x < 256) v | Unbounded => True end.
Definition bcall_key (c : bcall) : key := match c with BGe k | BGt k | BLe k | BLt k => k end.
(* every byte of every bound key is a byte *)
Definition calls_bytes (cs : list bcall) : Prop := Forall (fun c => Forall (fun x => x < 256) (bcall_key c)) cs.

Lemma bounds_of_bytes cs : calls_bytes cs -> bound_bytes (fst (bounds_of cs)) /\ bound_bytes (snd (bounds_of cs)).
Proof.
  unfold bounds_of. assert (H0 : bound_bytes (fst (Unbounded, Unbounded)) /\ bound_bytes (snd (Unbounded, Unbounded)))
    by (split; exact I).
  revert H0. generalize (Unbounded, Unbounded). induction cs as [|c cs IH]; intros mm H0 Hc; [exact H0|].
  inversion Hc; subst. cbn [fold_left]. apply IH; [|assumption].
  destruct H0 as [Ha Hb]. destruct c; cbn [apply_bcall fst snd bound_bytes bcall_key] in *; split; assumption.
Qed.

(* the traversal needs fewer than 2^64 loop iterations: every path of the unfolded graph is
   entered once and left once (tree_size counts these paths) *)
Definition fuel_ok (g : graph) (root : N) : Prop :=
  N.of_nat (2 * tree_size g root + 2) <= 18446744073709551616.     (* 2^64 *)

Lemma fuel_nat n : N.of_nat n <= 18446744073709551616 -> (n <= 2 ^ psize FUEL)%nat.
Proof.
  intros H. change (psize FUEL) with 64%nat.
  pose proof (Nat2N.inj_pow 2 64) as E. change (N.of_nat 2) with 2 in E. change (N.of_nat 64) with 64 in E.
  assert (E2 : 2 ^ 64 = 18446744073709551616) by (vm_compute; reflexivity). rewrite E2 in E.
  remember (2 ^ 64)%nat as P. lia.
Qed.

(* ====================================================================== *)
Section Stream.
Variable g : graph.
Variable node_at : N -> res nview.
Variable root : N.
Variable A : automaton.
Hypothesis wf : wf_graph g.
Hypothesis Hviews : views g node_at.
Hypothesis Hroot : exists r, gget g root = Some r.
Hypothesis Hcm : can_match_sound A.
Hypothesis Heof : no_eof_hook A.
Hypothesis Hfuel : fuel_ok g root.

Notation frame := (Reader.frame A).
Notation stream := (Reader.stream A).
Notation item := (Reader.item A).

(* ---------- nodes of the graph as seen through node_at ---------- *)
Definition node_ok (v : nview) : Prop :=
  exists n, gget g (nv_addr v) = Some n /\ node_at (nv_addr v) = Ok v /\
            nv_final v = g_final n /\ nv_fout v = g_fout n /\ nv_trans v = g_trans n /\
            forall b, b < 256 -> nv_find v b = Ok (find_pos b (g_trans n) 0).

Lemma views_ok a n : gget g a = Some n -> exists v, node_at a = Ok v /\ nv_addr v = a /\ node_ok v.
Proof.
  intros Hn. destruct (Hviews a n Hn) as (v & Hv & Ha & Hf & Ho & Ht & Hfi).
  exists v. split; [exact Hv|]. split; [exact Ha|]. exists n. rewrite Ha. auto 10.
Qed.

Lemma node_ok_child v t : node_ok v -> In t (nv_trans v) ->
  t_inp t < 256 /\ t_addr t < nv_addr v /\
  exists v', node_at (t_addr t) = Ok v' /\ nv_addr v' = t_addr t /\ node_ok v'.
Proof.
  intros (n & Hn & _ & _ & _ & Ht & _) Hin. rewrite Ht in Hin.
  destruct (wf_child g wf _ _ _ Hn Hin) as (Hb & Hlt & n' & Hn').
  split; [exact Hb|]. split; [exact Hlt|]. exact (views_ok _ _ Hn').
Qed.

Lemma node_ok_L v : node_ok v ->
  L g (nv_addr v) = (if nv_final v then [([], nv_fout v)] else []) ++ children g (nv_trans v).
Proof. intros (n & Hn & _ & Hf & Ho & Ht & _). rewrite Hf, Ho, Ht. now apply L_unfold. Qed.

Lemma node_ok_incr v : node_ok v -> inputs_increasing (nv_trans v) = true.
Proof. intros (n & Hn & _ & _ & _ & Ht & _). rewrite Ht. eapply wf_incr; eauto. Qed.

Lemma node_ok_size v : node_ok v -> tree_size g (nv_addr v) = S (kids_size g (nv_trans v)).
Proof. intros (n & Hn & _ & _ & _ & Ht & _). rewrite Ht. now apply tree_size_unfold. Qed.

(* ---------- what a stack still has to emit ---------- *)
Definition items_of (p : key) (out : N) (aut : St A) (m : kmap) : list item :=
  map (fun kv => (p ++ fst kv, out + snd kv, run A aut (fst kv))) m.
Definition rest_of (f : frame) : list trans := skipn (N.to_nat (f_trans f)) (nv_trans (f_node f)).
Definition frame_pending (p : key) (f : frame) : list item :=
  items_of p (f_out f) (f_aut f) (children g (rest_of f)).
Fixpoint pending (st : list frame) (inp : list N) : list item :=
  match st with
  | [] => []
  | f :: rest => frame_pending (rev inp) f ++ pending rest (tl inp)
  end.
Definition ikey (it : item) : key := fst (fst it).
Definition keep (mx : bound) (it : item) : bool :=
  negb (exceeded_by mx (ikey it)) && is_match A (snd it).

Lemma ikey_mk (k : key) (v : N) (x : St A) : ikey (k, v, x) = k.
Proof. reflexivity. Qed.

Lemma items_of_app p out aut m1 m2 : items_of p out aut (m1 ++ m2) = items_of p out aut m1 ++ items_of p out aut m2.
Proof. apply map_app. Qed.
Lemma items_of_consT p out aut t m :
  items_of p out aut (map (consT t) m) = items_of (p ++ [t_inp t]) (out + t_out t) (accept A aut (t_inp t)) m.
Proof.
  unfold items_of. rewrite map_map. apply map_ext. intros [k v]. cbn [consT fst snd].
  rewrite <- app_assoc. cbn [app run fold_left]. now rewrite N.add_assoc.
Qed.
Lemma items_of_key p out aut m it : In it (items_of p out aut m) -> exists k, ikey it = p ++ k /\ snd it = run A aut k.
Proof. intros H. apply in_map_iff in H. destruct H as ([k v] & <- & _). exists k. split; reflexivity. Qed.

(* keys of the children of a transition list start with one of its inputs *)
Lemma children_key ts kv : In kv (children g ts) -> exists t k, In t ts /\ fst kv = t_inp t :: k.
Proof.
  unfold children. intros H. apply in_flat_map in H. destruct H as (t & Ht & H).
  apply in_map_iff in H. destruct H as (kv' & <- & _). exists t, (fst kv'). split; [exact Ht|reflexivity].
Qed.

(* ---------- the stack invariant ---------- *)
Definition link (f below : frame) (b : N) : Prop :=
  exists t, 1 <= f_trans below /\
            nth_error (nv_trans (f_node below)) (N.to_nat (f_trans below - 1)) = Some t /\
            t_inp t = b /\ node_at (t_addr t) = Ok (f_node f) /\
            f_out f = f_out below + t_out t /\ f_aut f = accept A (f_aut below) b.

Fixpoint chain (st : list frame) (inp : list N) : Prop :=
  match st with
  | [] => False
  | f :: rest =>
    node_ok (f_node f) /\
    match rest with
    | [] => inp = [] /\ nv_addr (f_node f) = root
    | below :: _ => match inp with [] => False | b :: inp' => link f below b /\ chain rest inp' end
    end
  end.

Definition good (s : stream) : Prop := s_stack s = [] \/ chain (s_stack s) (s_inp s).

Lemma chain_top_irrel f f' rest inp :
  chain (f :: rest) inp -> f_node f' = f_node f -> f_out f' = f_out f -> f_aut f' = f_aut f ->
  chain (f' :: rest) inp.
Proof.
  cbn [chain]. intros [H1 H2] En Eo Ea. rewrite En. split; [exact H1|].
  destruct rest as [|below rest]; [exact H2|]. destruct inp as [|b inp]; [exact H2|].
  destruct H2 as [(t & Ha & Hb & Hc & Hd & He & Hf) H3]. split; [|exact H3].
  exists t. rewrite En, Eo, Ea. auto 10.
Qed.

Lemma link_addr f below b : node_ok (f_node below) -> link f below b ->
  nv_addr (f_node f) < nv_addr (f_node below).
Proof.
  intros Hok (t & _ & Hn & _ & Hv & _). apply nth_error_In in Hn.
  destruct (node_ok_child _ _ Hok Hn) as (_ & Hlt & v' & Hv' & Ha' & _).
  rewrite Hv in Hv'. inversion Hv'; subst v'. lia.
Qed.

Lemma chain_addr_le : forall st inp f, chain (f :: st) inp ->
  nv_addr (f_node f) <= root /\ (st <> [] -> nv_addr (f_node f) < root).
Proof.
  induction st as [|below st IH]; intros inp f H.
  - cbn in H. destruct H as (_ & _ & ->). split; [lia|congruence].
  - cbn [chain] in H. destruct H as [Hok H]. destruct inp as [|b inp]; [destruct H|].
    destruct H as [Hl Hc]. destruct (IH inp below Hc) as [Hle _].
    assert (Hb : node_ok (f_node below)) by (destruct st; cbn in Hc; tauto).
    pose proof (link_addr _ _ _ Hb Hl). split; [lia|intros _; lia].
Qed.

(* every pending key extends or follows the current input *)
Lemma pending_gt : forall rest below inp b t sfx it,
  chain (below :: rest) inp -> 1 <= f_trans below ->
  nth_error (nv_trans (f_node below)) (N.to_nat (f_trans below - 1)) = Some t -> t_inp t = b ->
  In it (pending (below :: rest) inp) -> key_ltb (rev inp ++ b :: sfx) (ikey it) = true.
Proof.
  induction rest as [|below' rest IH]; intros below inp b t sfx it Hc H1 Hn Hb Hin;
    cbn [pending] in Hin; apply in_app_or in Hin.
  - destruct Hin as [Hin|[]]. destruct Hc as [Hok _].
    unfold frame_pending in Hin. apply in_map_iff in Hin. destruct Hin as (kv & <- & Hkv).
    apply children_key in Hkv. destruct Hkv as (t' & k & Ht' & Ek). rewrite ikey_mk. destruct kv as [kk vv]. cbn [fst snd] in *. subst kk.
    apply key_ltb_app_cons. subst b.
    destruct (incr_split _ _ _ (node_ok_incr _ Hok) Hn) as [_ H2]. apply H2.
    unfold rest_of in Ht'. replace (S (N.to_nat (f_trans below - 1))) with (N.to_nat (f_trans below)) by lia. exact Ht'.
  - destruct Hin as [Hin|Hin].
    + destruct Hc as [Hok _].
      unfold frame_pending in Hin. apply in_map_iff in Hin. destruct Hin as (kv & <- & Hkv).
      apply children_key in Hkv. destruct Hkv as (t' & k & Ht' & Ek). rewrite ikey_mk. destruct kv as [kk vv]. cbn [fst snd] in *. subst kk.
      apply key_ltb_app_cons. subst b.
      destruct (incr_split _ _ _ (node_ok_incr _ Hok) Hn) as [_ H2]. apply H2.
      unfold rest_of in Ht'. replace (S (N.to_nat (f_trans below - 1))) with (N.to_nat (f_trans below)) by lia. exact Ht'.
    + cbn [chain] in Hc. destruct Hc as [Hok Hc]. destruct inp as [|b' inp]; [destruct Hc|].
      destruct Hc as [(t' & Ha & Hb' & Hc' & _) Hc]. cbn [tl] in Hin.
      pose proof (IH below' inp b' t' (b :: sfx) it Hc Ha Hb' Hc' Hin) as H.
      cbn [rev]. rewrite <- app_assoc. exact H.
Qed.

Lemma pending_ge st inp it : chain st inp -> In it (pending st inp) -> key_leb (rev inp) (ikey it) = true.
Proof.
  destruct st as [|f rest]; [intros []|]. intros Hc Hin. cbn [pending] in Hin. apply in_app_or in Hin.
  destruct Hin as [Hin|Hin].
  - apply items_of_key in Hin. destruct Hin as (k & -> & _). apply key_leb_app.
  - destruct rest as [|below rest]; [destruct Hin|]. cbn [chain] in Hc. destruct Hc as [_ Hc].
    destruct inp as [|b inp]; [destruct Hc|]. destruct Hc as [(t & Ha & Hb & Hc' & _) Hc]. cbn [tl] in Hin.
    apply key_ltb_leb. pose proof (pending_gt rest below inp b t [] it Hc Ha Hb Hc' Hin) as H.
    cbn [rev]. exact H.
Qed.

(* ---------- termination measure ---------- *)
Definition weight (f : frame) : nat := S (2 * kids_size g (rest_of f)).
Definition mu (st : list frame) : nat := list_sum (map weight st).

Lemma mu_cons f st : mu (f :: st) = (weight f + mu st)%nat.
Proof. reflexivity. Qed.

Lemma kids_skipn_le : forall ts i, (kids_size g (skipn i ts) <= kids_size g ts)%nat.
Proof.
  induction ts as [|t ts IH]; intros [|i]; cbn [skipn]; try lia.
  rewrite kids_size_cons. specialize (IH i). lia.
Qed.
Lemma kids_skipn_nth ts i t : nth_error ts i = Some t ->
  kids_size g (skipn i ts) = (tree_size g (t_addr t) + kids_size g (skipn (S i) ts))%nat.
Proof. intros H. rewrite (nth_error_skipn _ _ _ H). apply kids_size_cons. Qed.

Lemma mu_chain : forall rest inp f, chain (f :: rest) inp ->
  (mu rest + 2 * tree_size g (nv_addr (f_node f)) <= 2 * tree_size g root)%nat.
Proof.
  induction rest as [|below rest IH]; intros inp f H.
  - cbn in H. destruct H as (_ & _ & ->). cbn. lia.
  - cbn [chain] in H. destruct H as [Hok H]. destruct inp as [|b inp]; [destruct H|].
    destruct H as [Hl Hc]. specialize (IH inp below Hc).
    assert (Hb : node_ok (f_node below)) by (destruct rest; cbn in Hc; tauto).
    destruct Hl as (t & Ha & Hn & _ & Hv & _).
    pose proof (nth_error_In _ _ Hn) as Hin.
    destruct (node_ok_child _ _ Hb Hin) as (_ & _ & v' & Hv' & Ha' & _).
    rewrite Hv in Hv'. inversion Hv'; subst v'. rewrite Ha'.
    rewrite mu_cons. unfold weight, rest_of.
    rewrite (node_ok_size _ Hb) in IH.
    pose proof (kids_skipn_nth _ _ _ Hn) as E1.
    pose proof (kids_skipn_le (nv_trans (f_node below)) (N.to_nat (f_trans below - 1))) as E2.
    replace (S (N.to_nat (f_trans below - 1))) with (N.to_nat (f_trans below)) in E1 by lia.
    lia.
Qed.

Lemma mu_bound st inp : chain st inp -> (mu st + 1 <= 2 * tree_size g root)%nat.
Proof.
  destruct st as [|f rest]; [intros []|]. intros H. pose proof (mu_chain _ _ _ H) as H1.
  destruct H as [Hok _]. rewrite (node_ok_size _ Hok) in H1.
  rewrite mu_cons. unfold weight, rest_of.
  pose proof (kids_skipn_le (nv_trans (f_node f)) (N.to_nat (f_trans f))). lia.
Qed.

(* ---------- one iteration of the loop of next_with ---------- *)
Definition out (s : stream) : list item := filter (keep (s_end_at s)) (pending (s_stack s) (s_inp s)).

Lemma pending_cons f rest inp : pending (f :: rest) inp = frame_pending (rev inp) f ++ pending rest (tl inp).
Proof. reflexivity. Qed.

Lemma keep_pruned mx p o aut m : can_match A aut = false -> filter (keep mx) (items_of p o aut m) = [].
Proof.
  intros H. apply filter_nil_all. intros it Hin. apply items_of_key in Hin. destruct Hin as (k & _ & E).
  unfold keep. rewrite E, (Hcm _ H). apply andb_false_r.
Qed.

Definition step_post (s : stream) (r : stream + res (stream * option item)) : Prop :=
  match r with
  | inl s' => good s' /\ s_empty_output s' = None /\ s_end_at s' = s_end_at s /\ out s' = out s /\
              (mu (s_stack s') < mu (s_stack s))%nat
  | inr (Ok (s', Some it)) =>
              good s' /\ s_empty_output s' = None /\ s_end_at s' = s_end_at s /\ out s = it :: out s' /\
              (mu (s_stack s') < mu (s_stack s))%nat
  | inr (Ok (s', None)) => s_stack s' = [] /\ s_empty_output s' = None /\ s_end_at s' = s_end_at s /\ out s = []
  | inr _ => False
  end.

Lemma step_spec s : s_empty_output s = None -> good s -> step_post s (next_step node_at root A s).
Proof.
  destruct s as [inp eo st mx]. cbn [s_empty_output]. intros -> Hg. unfold good in Hg. cbn [s_stack s_inp] in Hg.
  unfold next_step. cbn [s_stack s_inp s_empty_output s_end_at].
  destruct st as [|f rest].
  { cbn. auto. }
  destruct Hg as [Hg|Hc]; [discriminate|].
  assert (Hok : node_ok (f_node f)) by (destruct Hc; assumption).
  destruct ((len (nv_trans (f_node f)) <=? f_trans f) || negb (can_match A (f_aut f))) eqn:Epop.
  - (* the frame is exhausted or pruned *)
    assert (Hfp : filter (keep mx) (frame_pending (rev inp) f) = []).
    { apply orb_true_iff in Epop. destruct Epop as [E|E].
      - unfold frame_pending, rest_of. rewrite skipn_all2; [reflexivity|]. unfold len in E. lia.
      - apply keep_pruned. destruct (can_match A (f_aut f)); [discriminate|reflexivity]. }
    assert (Hw : (1 <= weight f)%nat) by (unfold weight; lia).
    destruct rest as [|below rest].
    + destruct Hc as (_ & -> & Ea). rewrite Ea, N.eqb_refl. cbn [negb].
      unfold step_post, good, out. cbn [s_stack s_inp s_empty_output s_end_at pending].
      split; [now left|]. do 2 (split; [reflexivity|]). split.
      * rewrite filter_app, Hfp. reflexivity.
      * rewrite mu_cons. cbn. lia.
    + destruct (chain_addr_le _ _ _ Hc) as [_ Hlt]. specialize (Hlt ltac:(discriminate)).
      replace (nv_addr (f_node f) =? root) with false by lia. cbn [negb].
      cbn [chain] in Hc. destruct Hc as [_ Hc]. destruct inp as [|b inp]; [destruct Hc|]. destruct Hc as [_ Hc].
      unfold step_post, good, out. cbn [s_stack s_inp s_empty_output s_end_at].
      split; [now right|]. do 2 (split; [reflexivity|]). split.
      * rewrite (pending_cons f). cbn [tl]. rewrite filter_app, Hfp. reflexivity.
      * rewrite (mu_cons f). lia.
  - (* take transition f_trans f *)
    apply orb_false_iff in Epop. destruct Epop as [E1 E2].
    destruct (nth_error (nv_trans (f_node f)) (N.to_nat (f_trans f))) as [t|] eqn:Hn;
      [|apply nth_error_None in Hn; unfold len in E1; lia].
    destruct (node_ok_child _ _ Hok (nth_error_In _ _ Hn)) as (Hb & Hlt & v' & Hv' & Ha' & Hok').
    rewrite Hv'. rewrite (Heof (accept A (f_aut f) (t_inp t))).
    set (child := mkFrame v' 0 (f_out f + t_out t) (accept A (f_aut f) (t_inp t))).
    set (f' := mkFrame (f_node f) (f_trans f + 1) (f_out f) (f_aut f)).
    set (it := (rev (t_inp t :: inp), f_out f + t_out t + nv_fout v', accept A (f_aut f) (t_inp t)) : item).
    assert (Hc' : chain (child :: f' :: rest) (t_inp t :: inp)).
    { cbn [chain]. split; [exact Hok'|]. split.
      - exists t. unfold child, f'. cbn [f_trans f_node f_out f_aut].
        replace (f_trans f + 1 - 1) with (f_trans f) by lia. repeat split; try reflexivity; try assumption. lia.
      - apply (chain_top_irrel f); [exact Hc|reflexivity..]. }
    assert (Hpend : pending (f :: rest) inp =
                    (if nv_final v' then [it] else []) ++ pending (child :: f' :: rest) (t_inp t :: inp)).
    { rewrite !pending_cons. cbn [tl]. rewrite !app_assoc. f_equal.
      unfold frame_pending at 1, rest_of. rewrite (nth_error_skipn _ _ _ Hn), children_cons, items_of_app, items_of_consT.
      rewrite <- Ha', (node_ok_L _ Hok'), items_of_app. f_equal; [f_equal|].
      - destruct (nv_final v'); [|reflexivity]. unfold items_of, it. cbn [map fst snd rev run fold_left].
        now rewrite app_nil_r.
      - unfold frame_pending, rest_of, f'. cbn [f_trans f_node f_out f_aut].
        replace (N.to_nat (f_trans f + 1)) with (S (N.to_nat (f_trans f))) by lia. reflexivity. }
    assert (Hmu : (mu (child :: f' :: rest) < mu (f :: rest))%nat).
    { rewrite !mu_cons. unfold weight, rest_of, child, f'. cbn [f_trans f_node].
      replace (N.to_nat (f_trans f + 1)) with (S (N.to_nat (f_trans f))) by lia.
      rewrite (kids_skipn_nth _ _ _ Hn). rewrite <- Ha', (node_ok_size _ Hok'). cbn [N.to_nat skipn]. lia. }
    cbv zeta.
    destruct (exceeded_by mx (rev (t_inp t :: inp))) eqn:Eex.
    + unfold step_post, out. cbn [s_stack s_inp s_empty_output s_end_at]. do 3 (split; [reflexivity|]).
      apply filter_nil_all. intros x Hx. rewrite Hpend in Hx. apply in_app_or in Hx.
      assert (Hge : key_leb (rev (t_inp t :: inp)) (ikey x) = true).
      { destruct Hx as [Hx|Hx].
        - destruct (nv_final v'); [|destruct Hx]. destruct Hx as [<-|[]]. unfold it. rewrite ikey_mk.
          rewrite <- (app_nil_r (rev (t_inp t :: inp))) at 2. apply key_leb_app.
        - eapply pending_ge; eauto. }
      unfold keep. rewrite (exceeded_mono _ _ _ Eex Hge). reflexivity.
    + destruct (nv_final v' && is_match A (accept A (f_aut f) (t_inp t))) eqn:Efm.
      * apply andb_true_iff in Efm. destruct Efm as [Ef Em]. rewrite Ef in *. cbn [andb].
        rewrite Em. unfold step_post, good, out. cbn [s_stack s_inp s_empty_output s_end_at].
        split; [right; exact Hc'|]. do 2 (split; [reflexivity|]). split; [|exact Hmu].
        rewrite Hpend. cbn [app filter]. unfold keep at 1. unfold it at 1 2. rewrite ikey_mk. cbn [snd].
        rewrite Eex, Em. reflexivity.
      * assert (Hif : (nv_final v' && (if nv_final v' then is_match A (accept A (f_aut f) (t_inp t))
                                       else is_match A (accept A (f_aut f) (t_inp t)))) = false)
          by (destruct (nv_final v'); exact Efm).
        rewrite Hif. unfold step_post, good, out. cbn [s_stack s_inp s_empty_output s_end_at].
        split; [right; exact Hc'|]. do 2 (split; [reflexivity|]). split; [|exact Hmu].
        rewrite Hpend. destruct (nv_final v'); [|reflexivity]. cbn [app filter]. unfold keep at 2. unfold it at 1 2.
        rewrite ikey_mk. cbn [snd]. cbn [andb] in Efm. rewrite Efm, andb_false_r. reflexivity.
Qed.

(* ---------- the loop of next_with ---------- *)
Definition run_post (s s' : stream) (r : option item) : Prop :=
  s_empty_output s' = None /\ s_end_at s' = s_end_at s /\
  match r with
  | Some it => good s' /\ out s = it :: out s' /\ (mu (s_stack s') < mu (s_stack s))%nat
  | None => s_stack s' = [] /\ out s = []
  end.

Lemma steps_spec : forall n s, (mu (s_stack s) < n)%nat -> s_empty_output s = None -> good s ->
  exists m s' r, (m <= n)%nat /\ iter (next_step node_at root A) m s = inr (Ok (s', r)) /\ run_post s s' r.
Proof.
  induction n as [|n IH]; intros s Hmu He Hg; [lia|].
  pose proof (step_spec s He Hg) as Hs. unfold step_post in Hs.
  destruct (next_step node_at root A s) as [s1|[[s1 [it|]]| |]] eqn:E; try contradiction.
  - destruct Hs as (Hg1 & He1 & Hx1 & Ho1 & Hm1).
    destruct (IH s1 ltac:(lia) He1 Hg1) as (m & s' & r & Hm & Hi & He' & Hx' & Hr).
    exists (S m), s', r. split; [lia|]. split; [cbn [iter]; rewrite E; exact Hi|].
    split; [exact He'|]. split; [congruence|]. rewrite <- Ho1. destruct r; [|exact Hr].
    destruct Hr as (? & ? & ?). repeat split; auto. lia.
  - exists 1%nat, s1, (Some it). split; [lia|]. split; [cbn [iter]; rewrite E; reflexivity|].
    destruct Hs as (? & ? & ? & ? & ?). repeat split; auto.
  - exists 1%nat, s1, None. split; [lia|]. split; [cbn [iter]; rewrite E; reflexivity|].
    destruct Hs as (? & ? & ? & ?). repeat split; auto.
Qed.

Lemma good_mu s : good s -> N.of_nat (mu (s_stack s) + 3) <= 18446744073709551616.
Proof.
  unfold fuel_ok in Hfuel. intros [H|H].
  - rewrite H. change (mu []) with 0%nat. lia.
  - pose proof (mu_bound _ _ H). lia.
Qed.

Lemma run_spec s : s_empty_output s = None -> good s ->
  exists s' r, loop (next_step node_at root A) FUEL s = inr (Ok (s', r)) /\ run_post s s' r.
Proof.
  intros He Hg. destruct (steps_spec (S (mu (s_stack s))) s ltac:(lia) He Hg) as (m & s' & r & Hm & Hi & Hr).
  exists s', r. split; [|exact Hr]. eapply loop_complete; [exact Hi|].
  apply fuel_nat. pose proof (good_mu s Hg). lia.
Qed.

(* ---------- next_with, including the empty key ---------- *)
Definition eo_items (s : stream) : list item :=
  match s_empty_output s with Some o => [([], o, start A)] | None => [] end.
Definition pendf (s : stream) : list item := eo_items s ++ pending (s_stack s) (s_inp s).
Definition outf (s : stream) : list item := filter (keep (s_end_at s)) (pendf s).
Definition mu' (s : stream) : nat :=
  (mu (s_stack s) + match s_empty_output s with Some _ => 1 | None => 0 end)%nat.

Definition next_post (s s' : stream) (r : option item) : Prop :=
  s_empty_output s' = None /\ s_end_at s' = s_end_at s /\
  match r with
  | Some it => good s' /\ outf s = it :: outf s' /\ (mu' s' < mu' s)%nat
  | None => s_stack s' = [] /\ outf s = []
  end.

Lemma outf_no_eo s : s_empty_output s = None -> outf s = out s.
Proof. intros H. unfold outf, pendf, eo_items. rewrite H. reflexivity. Qed.

Lemma next_with_spec s : good s -> exists s' r, next_with node_at root A s = Ok (s', r) /\ next_post s s' r.
Proof.
  intros Hg. unfold next_with. cbv zeta. destruct (s_empty_output s) as [o|] eqn:Eo.
  - destruct s as [inp eo st mx]. cbn [s_empty_output s_inp s_stack s_end_at] in *. subst eo.
    set (s0 := mkStream inp None st mx).
    assert (Hg0 : good s0) by exact Hg.
    destruct (exceeded_by mx []) eqn:Eex.
    + eexists _, None. split; [reflexivity|]. unfold next_post. cbn [s_empty_output s_end_at s_stack].
      do 3 (split; [reflexivity|]). apply filter_nil_all. intros x _. unfold keep.
      rewrite (exceeded_mono _ _ _ Eex (key_leb_nil _)). reflexivity.
    + destruct (is_match A (start A)) eqn:Em.
      * eexists s0, (Some _). split; [reflexivity|]. unfold next_post. cbn [s_empty_output s_end_at s_stack s0].
        do 2 (split; [reflexivity|]). split; [exact Hg0|]. split.
        -- unfold outf, pendf, eo_items. cbn [s_empty_output s_end_at s_stack s_inp s0 app filter].
           unfold keep at 1. rewrite ikey_mk. cbn [snd]. rewrite Eex, Em. reflexivity.
        -- unfold mu'. cbn [s_empty_output s_stack s0]. lia.
      * destruct (run_spec s0 eq_refl Hg0) as (s' & r & Hl & He' & Hx' & Hr). rewrite Hl.
        exists s', r. split; [reflexivity|]. split; [exact He'|]. split; [exact Hx'|].
        assert (E : outf (mkStream inp (Some o) st mx) = out s0).
        { unfold outf, pendf, eo_items, out. cbn [s_empty_output s_end_at s_stack s_inp s0 app filter].
          unfold keep at 1. rewrite ikey_mk. cbn [snd]. rewrite Eex, Em. reflexivity. }
        rewrite E. destruct r as [it|]; [|exact Hr]. destruct Hr as (Hg' & Ho & Hm).
        split; [exact Hg'|]. split; [rewrite (outf_no_eo s' He'); exact Ho|].
        unfold mu'. rewrite He'. cbn [s_empty_output s_stack s0] in *. lia.
  - destruct (run_spec s Eo Hg) as (s' & r & Hl & He' & Hx' & Hr). rewrite Hl.
    exists s', r. split; [reflexivity|]. split; [exact He'|]. split; [exact Hx'|].
    rewrite (outf_no_eo s Eo). destruct r as [it|]; [|exact Hr]. destruct Hr as (Hg' & Ho & Hm).
    split; [exact Hg'|]. split; [rewrite (outf_no_eo s' He'); exact Ho|].
    unfold mu'. rewrite He', Eo. lia.
Qed.

(* ---------- draining the stream ---------- *)
Lemma collect_iter : forall n s acc, (mu' s < n)%nat -> good s ->
  exists m, (m <= n)%nat /\ iter (collect_step node_at root A) m (s, acc) = inr (Ok (rev acc ++ outf s)).
Proof.
  induction n as [|n IH]; intros s acc Hmu Hg; [lia|].
  destruct (next_with_spec s Hg) as (s' & r & Hn & He' & Hx' & Hr).
  destruct r as [it|].
  - destruct Hr as (Hg' & Ho & Hm). destruct (IH s' (it :: acc) ltac:(lia) Hg') as (m & Hle & Hi).
    exists (S m). split; [lia|]. cbn [iter]. unfold collect_step at 1. rewrite Hn, Hi, Ho.
    cbn [rev]. now rewrite <- app_assoc.
  - destruct Hr as (_ & Ho). exists 1%nat. split; [lia|]. cbn [iter]. unfold collect_step. rewrite Hn, Ho.
    now rewrite app_nil_r.
Qed.

Lemma collect_spec s : good s -> collect node_at root A s = Ok (outf s).
Proof.
  intros Hg. destruct (collect_iter (S (mu' s)) s [] ltac:(lia) Hg) as (m & Hle & Hi).
  unfold collect. rewrite (loop_complete (collect_step node_at root A) FUEL _ Hi); [reflexivity|].
  apply fuel_nat. pose proof (good_mu s Hg). unfold mu' in Hle. destruct (s_empty_output s); lia.
Qed.

(* ---------- lower bounds on the graph language ---------- *)
Definition lowerk (incl : bool) (k x : key) : bool := if incl then key_leb k x else key_ltb k x.
Definition lowerP (incl : bool) (k : key) (x : kv) : bool := lowerk incl k (fst x).

Lemma lowerk_cons_nil incl b k : lowerk incl (b :: k) [] = false.
Proof. destruct incl; reflexivity. Qed.
Lemma lowerk_cons_eq incl b k x : lowerk incl (b :: k) (b :: x) = lowerk incl k x.
Proof. destruct incl; cbn [lowerk]; [apply key_leb_cons_cons|apply key_ltb_cons_cons]. Qed.
Lemma lowerk_cons_lt incl b c k x : c < b -> lowerk incl (b :: k) (c :: x) = false.
Proof.
  intros H. assert (E : lex_cmp (b :: k) (c :: x) = Gt) by (cbn; apply N.compare_gt_iff in H; now rewrite H).
  destruct incl; cbn [lowerk]; unfold key_leb, key_ltb; now rewrite E.
Qed.
Lemma lowerk_cons_gt incl b c k x : b < c -> lowerk incl (b :: k) (c :: x) = true.
Proof.
  intros H. assert (E : lex_cmp (b :: k) (c :: x) = Lt) by (cbn; apply N.compare_lt_iff in H; now rewrite H).
  destruct incl; cbn [lowerk]; unfold key_leb, key_ltb; now rewrite E.
Qed.

Lemma children_filter_lt incl b k ts : (forall t, In t ts -> t_inp t < b) ->
  filter (lowerP incl (b :: k)) (children g ts) = [].
Proof.
  intros H. apply filter_nil_all. intros x Hx. apply children_key in Hx. destruct Hx as (t & k' & Ht & E).
  unfold lowerP. destruct x as [xk xv]. cbn [fst] in *. subst xk. apply lowerk_cons_lt. auto.
Qed.
Lemma children_filter_gt incl b k ts : (forall t, In t ts -> b < t_inp t) ->
  filter (lowerP incl (b :: k)) (children g ts) = children g ts.
Proof.
  intros H. apply filter_all. intros x Hx. apply children_key in Hx. destruct Hx as (t & k' & Ht & E).
  unfold lowerP. destruct x as [xk xv]. cbn [fst] in *. subst xk. apply lowerk_cons_gt. auto.
Qed.

Lemma find_pos_spec b : forall ts i0 i, find_pos b ts i0 = Some i ->
  exists j t, i = i0 + N.of_nat j /\ nth_error ts j = Some t /\ t_inp t = b.
Proof.
  induction ts as [|u ts IH]; intros i0 i H; cbn [find_pos] in H; [discriminate|].
  destruct (t_inp u =? b) eqn:E.
  - inversion H; subst. exists 0%nat, u. repeat split; [lia|lia].
  - destruct (IH _ _ H) as (j & t & -> & Hn & Ht). exists (S j), t. repeat split; [lia|exact Hn|exact Ht].
Qed.
Lemma find_pos_none b : forall ts i0, find_pos b ts i0 = None -> forall t, In t ts -> t_inp t <> b.
Proof.
  induction ts as [|u ts IH]; intros i0 H t Hin; [destruct Hin|]. cbn [find_pos] in H.
  destruct (t_inp u =? b) eqn:E; [discriminate|]. destruct Hin as [<-|Hin]; [lia|eauto].
Qed.
Lemma first_gt_spec b : forall ts i0, inputs_increasing ts = true ->
  exists j, first_gt ts b i0 = i0 + N.of_nat j /\
            (forall t, In t (firstn j ts) -> t_inp t <= b) /\ (forall t, In t (skipn j ts) -> b < t_inp t).
Proof.
  induction ts as [|u ts IH]; intros i0 Hi; cbn [first_gt].
  - exists 0%nat. repeat split; [lia|intros ? []|intros ? []].
  - destruct (incr_head _ _ Hi) as [Hi' Hlt]. destruct (b <? t_inp u) eqn:E.
    + exists 0%nat. repeat split; [lia|intros ? []|]. cbn [skipn]. intros t [<-|Hin]; [lia|]. specialize (Hlt t Hin). lia.
    + destruct (IH (i0 + 1) Hi') as (j & -> & H1 & H2). exists (S j). repeat split; [lia| |exact H2].
      cbn [firstn]. intros t [<-|Hin]; [lia|auto].
Qed.

Lemma filter_final_nil (p : kv -> bool) (fin : bool) (fo : N) :
  p ([], fo) = false -> filter p (if fin then [([], fo)] else []) = [].
Proof. intros H. destruct fin; [|reflexivity]. cbn [filter]. now rewrite H. Qed.

Lemma lower_unfold incl b k v : node_ok v ->
  filter (lowerP incl (b :: k)) (L g (nv_addr v)) =
  match find_pos b (nv_trans v) 0 with
  | Some i =>
    match nth_error (nv_trans v) (N.to_nat i) with
    | Some t => map (consT t) (filter (lowerP incl k) (L g (t_addr t))) ++
                children g (skipn (N.to_nat (i + 1)) (nv_trans v))
    | None => []
    end
  | None => children g (skipn (N.to_nat (first_gt (nv_trans v) b 0)) (nv_trans v))
  end.
Proof.
  intros Hok. rewrite (node_ok_L _ Hok), filter_app.
  rewrite filter_final_nil by (unfold lowerP; cbn [fst]; apply lowerk_cons_nil).
  cbn [app]. pose proof (node_ok_incr _ Hok) as Hi.
  destruct (find_pos b (nv_trans v) 0) as [i|] eqn:Efp.
  - destruct (find_pos_spec _ _ _ _ Efp) as (j & t & -> & Hn & Ht).
    replace (N.to_nat (0 + N.of_nat j)) with j by lia. rewrite Hn.
    replace (N.to_nat (0 + N.of_nat j + 1)) with (S j) by lia.
    destruct (incr_split _ _ _ Hi Hn) as [H1 H2].
    rewrite <- (firstn_skipn j (nv_trans v)) at 1. rewrite (nth_error_skipn _ _ _ Hn).
    rewrite children_app, children_cons, !filter_app.
    rewrite children_filter_lt by (intros; subst b; auto).
    rewrite children_filter_gt by (intros; subst b; auto). cbn [app]. f_equal.
    rewrite filter_map_comm. f_equal. apply filter_ext. intros [xk xv]. unfold lowerP, consT. cbn [fst].
    rewrite Ht. apply lowerk_cons_eq.
  - destruct (first_gt_spec b _ 0 Hi) as (j & -> & H1 & H2).
    replace (N.to_nat (0 + N.of_nat j)) with j by lia.
    rewrite <- (firstn_skipn j (nv_trans v)) at 1. rewrite children_app, filter_app.
    rewrite (children_filter_gt _ _ _ (skipn j _)) by exact H2. rewrite children_filter_lt; [reflexivity|].
    intros t Ht. specialize (H1 t Ht). pose proof (find_pos_none _ _ _ Efp t) as H3.
    assert (In t (nv_trans v)) by (rewrite <- (firstn_skipn j (nv_trans v)); apply in_or_app; now left).
    specialize (H3 H). lia.
Qed.

Lemma lower_nil incl v : node_ok v ->
  filter (lowerP incl []) (L g (nv_addr v)) = if incl then L g (nv_addr v) else children g (nv_trans v).
Proof.
  intros Hok. destruct incl.
  - apply filter_all. intros x _. unfold lowerP. cbn [lowerk]. apply key_leb_nil.
  - rewrite (node_ok_L _ Hok), filter_app.
    rewrite filter_final_nil by reflexivity. cbn [app]. apply filter_all. intros x Hx. apply children_key in Hx.
    destruct Hx as (t & k' & _ & E). destruct x as [xk xv]. cbn [fst] in E. subst xk. reflexivity.
Qed.

(* ---------- seek_min ---------- *)
Definition seek_finish (inclusive : bool) (x : list N * list frame * bool * nview * N * St A) (max : bound)
  : res stream :=
  let '(inp, stack, early, nd, out, aut) := x in
  if early then Ok (mkStream inp None stack max) else
  match stack with
  | [] => Ok (mkStream inp None stack max)
  | top :: rest =>
    if inclusive then
      if f_trans top =? 0 then Panic else
      Ok (mkStream (tl inp) None (mkFrame (f_node top) (f_trans top - 1) (f_out top) (f_aut top) :: rest) max)
    else
      if f_trans top =? 0 then Panic else
      match nth_error (nv_trans (f_node top)) (N.to_nat (f_trans top - 1)) with
      | None => Panic
      | Some t =>
        do nd' <- node_at (t_addr t);
        Ok (mkStream inp None (mkFrame nd' 0 out aut :: stack) max)
      end
  end.

Lemma seek_spec incl mx : forall k nd out aut inp stack,
  Forall (fun b => b < 256) k ->
  chain (mkFrame nd 0 out aut :: stack) inp ->
  (k = [] -> stack <> []) ->
  exists x s, seek_loop node_at A k nd out aut inp stack = Ok x /\ seek_finish incl x mx = Ok s /\
    s_empty_output s = None /\ s_end_at s = mx /\ chain (s_stack s) (s_inp s) /\
    pending (s_stack s) (s_inp s) =
      items_of (rev inp) out aut (filter (lowerP incl k) (L g (nv_addr nd))) ++ pending stack (tl inp).
Proof.
  induction k as [|b k IH]; intros nd out aut inp stack Hk Hc Hne.
  - destruct stack as [|top rest]; [exfalso; now apply Hne|]. clear Hne.
    pose proof Hc as Hc0. cbn [chain] in Hc. destruct Hc as [Hok Hc]. cbn [f_node] in Hok.
    destruct inp as [|b inp]; [destruct Hc|]. destruct Hc as [Hl Hc].
    destruct Hl as (t & H1 & Hn & Hb & Hv & Ho & Ha). cbn [f_node f_out f_aut] in Hv, Ho, Ha.
    assert (Htop : node_ok (f_node top)) by (destruct rest; cbn in Hc; tauto).
    destruct (node_ok_child _ _ Htop (nth_error_In _ _ Hn)) as (_ & _ & v' & Hv' & Ha' & _).
    rewrite Hv in Hv'. inversion Hv'; subst v'. clear Hv'.
    exists (b :: inp, top :: rest, false, nd, out, aut).
    rewrite (lower_nil incl _ Hok). destruct incl.
    + eexists. split; [reflexivity|]. split.
      { unfold seek_finish. replace (f_trans top =? 0) with false by lia. reflexivity. }
      cbn [s_empty_output s_end_at s_stack s_inp tl]. do 2 (split; [reflexivity|]). split.
      { apply (chain_top_irrel top); [exact Hc|reflexivity..]. }
      rewrite !pending_cons. cbn [tl]. rewrite app_assoc. f_equal.
      unfold frame_pending at 1, rest_of. cbn [f_node f_trans f_out f_aut].
      rewrite (nth_error_skipn _ _ _ Hn), children_cons, items_of_app, items_of_consT.
      replace (S (N.to_nat (f_trans top - 1))) with (N.to_nat (f_trans top)) by lia.
      rewrite Ha', Hb, <- Ho, <- Ha. reflexivity.
    + eexists. split; [reflexivity|]. split.
      { unfold seek_finish. replace (f_trans top =? 0) with false by lia. rewrite Hn, Hv. reflexivity. }
      cbn [s_empty_output s_end_at s_stack s_inp]. do 2 (split; [reflexivity|]). split; [exact Hc0|].
      rewrite (pending_cons (mkFrame nd 0 out aut)). reflexivity.
  - inversion Hk as [|? ? Hb Hk']; subst. pose proof Hc as Hc0. destruct Hc as [Hok _]. cbn [f_node] in Hok.
    pose proof Hok as Hok0. destruct Hok as (n & Hn & Hat & Hf & Ho & Ht & Hfind).
    cbn [seek_loop]. rewrite (Hfind b Hb). cbn [bind]. rewrite <- Ht.
    pose proof (lower_unfold incl b k nd Hok0) as HL.
    destruct (find_pos b (nv_trans nd) 0) as [i|] eqn:Efp.
    + destruct (find_pos_spec _ _ _ _ Efp) as (j & t & Ei & Hnth & Hti).
      replace (N.to_nat i) with j in * by lia. rewrite Hnth in *.
      destruct (node_ok_child _ _ Hok0 (nth_error_In _ _ Hnth)) as (_ & _ & v' & Hv' & Ha' & Hok').
      rewrite Hv'. cbn [bind].
      destruct (IH v' (out + t_out t) (accept A aut b) (b :: inp) (mkFrame nd (i + 1) out aut :: stack) Hk')
        as (x & s & Hx & Hs & He & Hm & Hch & Hp).
      { cbn [chain]. split; [exact Hok'|]. split.
        - exists t. cbn [f_trans f_node f_out f_aut]. replace (N.to_nat (i + 1 - 1)) with j by lia.
          repeat split; try assumption; try reflexivity. lia.
        - apply (chain_top_irrel (mkFrame nd 0 out aut)); [exact Hc0|reflexivity..]. }
      { discriminate. }
      exists x, s. split; [exact Hx|]. split; [exact Hs|]. do 3 (split; [assumption|]).
      rewrite Hp, HL, items_of_app, items_of_consT, pending_cons, <- app_assoc. cbn [tl rev].
      rewrite Ha', Hti. reflexivity.
    + eexists _, _. split; [reflexivity|]. split; [reflexivity|].
      cbn [s_empty_output s_end_at s_stack s_inp]. do 2 (split; [reflexivity|]). split.
      { apply (chain_top_irrel (mkFrame nd 0 out aut)); [exact Hc0|reflexivity..]. }
      rewrite pending_cons, HL. reflexivity.
Qed.

Lemma seek_min_spec mn mx : bound_bytes mn ->
  exists s, seek_min node_at root A mn mx = Ok s /\ good s /\ s_end_at s = mx /\
            pendf s = filter (fun it => lower mn (ikey it)) (items_of [] 0 (start A) (L g root)).
Proof.
  intros Hb. destruct Hroot as (rn & Hrn). destruct (views_ok _ _ Hrn) as (r & Hr & Har & Hokr).
  assert (Hc0 : forall (o : N) (a : St A), chain [mkFrame r 0 o a] []).
  { intros o a. cbn [chain f_node]. auto. }
  assert (Hmap : forall (incl : bool) (k : key), items_of [] 0 (start A) (filter (lowerP incl k) (L g root)) =
                 filter (fun it => lowerk incl k (ikey it)) (items_of [] 0 (start A) (L g root))).
  { intros incl k. unfold items_of. rewrite filter_map_comm. f_equal. }
  assert (Hfull : forall (incl : bool) (b : N) (k : key), mn = (if incl then Included (b :: k) else Excluded (b :: k)) ->
    exists s, seek_min node_at root A mn mx = Ok s /\ good s /\ s_end_at s = mx /\
              pendf s = filter (fun it => lowerk incl (b :: k) (ikey it)) (items_of [] 0 (start A) (L g root))).
  { intros incl b k E.
    assert (Hk : Forall (fun x => x < 256) (b :: k)) by (subst mn; destruct incl; exact Hb).
    destruct (seek_spec incl mx (b :: k) r 0 (start A) [] [] Hk (Hc0 _ _) ltac:(discriminate))
      as (x & s & Hx & Hs & He & Hm & Hch & Hp).
    exists s. split.
    { subst mn. unfold seek_min, Reader.root. destruct incl; cbn [bound_is_empty]; rewrite Hr; cbn [bind];
        rewrite Hx; cbn [bind]; exact Hs. }
    split; [right; exact Hch|]. split; [exact Hm|].
    unfold pendf, eo_items. rewrite He, Hp. cbn [app rev tl pending]. rewrite app_nil_r, Har. apply Hmap. }
  assert (Hempty : forall (incl : bool), mn = (if incl then Included [] else Excluded []) \/ (mn = Unbounded /\ incl = true) ->
    exists s, seek_min node_at root A mn mx = Ok s /\ good s /\ s_end_at s = mx /\
              pendf s = filter (fun it => lowerk incl [] (ikey it)) (items_of [] 0 (start A) (L g root))).
  { intros incl E. pose proof (lower_nil incl _ Hokr) as HLn. pose proof (node_ok_L _ Hokr) as HLr.
    rewrite Har in HLn, HLr. rewrite <- Hmap, HLn.
    assert (Es : seek_min node_at root A mn mx =
                 Ok (mkStream [] (if incl then (if nv_final r then Some (nv_fout r) else None) else None)
                              [mkFrame r 0 0 (start A)] mx)).
    { unfold seek_min, empty_final_output, Reader.root.
      destruct E as [E|[E ->]]; subst mn; [destruct incl|]; cbn [bound_is_empty bound_is_inclusive];
        rewrite Hr; reflexivity. }
    eexists. split; [exact Es|]. split; [right; apply Hc0|]. split; [reflexivity|].
    unfold pendf, eo_items. cbn [s_empty_output s_stack s_inp pending rev tl]. rewrite app_nil_r.
    unfold frame_pending, rest_of. cbn [f_node f_trans f_out f_aut N.to_nat skipn].
    destruct incl; [|reflexivity]. rewrite HLr, items_of_app. f_equal.
    destruct (nv_final r); [|reflexivity]. unfold items_of. cbn [map fst snd app run fold_left].
    now rewrite N.add_0_l. }
  destruct mn as [[|b k]|[|b k]|].
  - destruct (Hempty true (or_introl eq_refl)) as (s & ? & ? & ? & ?). exists s. auto.
  - destruct (Hfull true b k eq_refl) as (s & ? & ? & ? & ?). exists s. auto.
  - destruct (Hempty false (or_introl eq_refl)) as (s & ? & ? & ? & ?). exists s. auto.
  - destruct (Hfull false b k eq_refl) as (s & ? & ? & ? & ?). exists s. auto.
  - destruct (Hempty true (or_intror (conj eq_refl eq_refl))) as (s & ? & ? & ? & E). exists s.
    do 3 (split; [assumption|]). rewrite E. apply filter_ext. intros it. cbn [lower lowerk]. apply key_leb_nil.
Qed.

Lemma spec_search_eq mn mx m :
  filter (keep mx) (filter (fun it => lower mn (ikey it)) (items_of [] 0 (start A) m)) =
  flat_map (fun x : kv => if in_bounds mn mx (fst x) && is_match A (run A (start A) (fst x))
                          then [(fst x, snd x, run A (start A) (fst x))] else []) m.
Proof.
  induction m as [|[k v] m IH]; [reflexivity|].
  change (items_of [] 0 (start A) ((k, v) :: m))
    with ((k, 0 + v, run A (start A) k) :: items_of [] 0 (start A) m).
  cbn [flat_map fst snd]. rewrite <- IH. rewrite N.add_0_l. cbn [filter]. rewrite ikey_mk.
  unfold in_bounds. fold (lower mn k). destruct (lower mn k); cbn [andb filter app]; [|reflexivity].
  unfold keep at 1. rewrite ikey_mk. cbn [snd].
  destruct (negb (exceeded_by mx k) && is_match A (run A (start A) k)); reflexivity.
Qed.

Theorem search_correct_sec cs : calls_bytes cs ->
  search_with_state node_at root A cs = Ok (spec_search (L g root) A cs).
Proof.
  intros Hcs. unfold search_with_state, spec_search. destruct (bounds_of_bytes cs Hcs) as [Hmn _].
  destruct (bounds_of cs) as [mn mx]. cbn [fst] in Hmn.
  destruct (seek_min_spec mn mx Hmn) as (s & Hs & Hg & Hm & Hp). rewrite Hs. cbn [bind].
  rewrite (collect_spec s Hg). unfold outf. rewrite Hm, Hp. f_equal. apply spec_search_eq.
Qed.
End Stream.

(* ====================================================================== *)
(* the theorems, closed *)

Definition proj_kv {A : automaton} (it : item A) : key * N := (fst (fst it), snd (fst it)).

Theorem search_correct :
  forall (g : graph) (node_at : N -> res nview) (root : N) (A : automaton),
    wf_graph g -> views g node_at -> (exists r, gget g root = Some r) ->
    can_match_sound A -> no_eof_hook A -> fuel_ok g root ->
    forall cs : list bcall, calls_bytes cs ->
      search_with_state node_at root A cs = Ok (spec_search (L g root) A cs).
Proof. intros. eapply search_correct_sec; eauto. Qed.

Definition search_correct_full_statement : Prop :=
  forall (g : graph) (node_at : N -> res nview) (root : N) (A : automaton),
    wf_graph g -> views g node_at -> (exists r, gget g root = Some r) ->
    can_match_sound A -> no_eof_hook A -> fuel_ok g root ->
    forall cs : list bcall, calls_bytes cs ->
      search_with_state node_at root A cs = Ok (spec_search (L g root) A cs).
Theorem search_correct_full : search_correct_full_statement.
Proof. exact search_correct. Qed.

Theorem search_correct_plain :
  forall g node_at root A, wf_graph g -> views g node_at -> (exists r, gget g root = Some r) ->
    can_match_sound A -> no_eof_hook A -> fuel_ok g root ->
    forall cs, calls_bytes cs ->
      search node_at root A cs = Ok (map proj_kv (spec_search (L g root) A cs)).
Proof. intros. unfold search. erewrite search_correct by eauto. reflexivity. Qed.

Lemma always_can_match_sound : can_match_sound always_aut.
Proof. intros s H. discriminate. Qed.
Lemma always_no_eof : no_eof_hook always_aut.
Proof. intros s. reflexivity. Qed.

Lemma spec_search_always m cs : map proj_kv (spec_search m always_aut cs) = spec_range m cs.
Proof.
  unfold spec_search, spec_range. destruct (bounds_of cs) as [mn mx].
  induction m as [|[k v] m IH]; [reflexivity|]. cbn [flat_map filter fst snd].
  change (is_match always_aut _) with true. rewrite andb_true_r.
  destruct (in_bounds mn mx k); cbn [app map]; [apply (f_equal2 cons); [reflexivity|exact IH]|exact IH].
Qed.

Theorem range_correct :
  forall g node_at root, wf_graph g -> views g node_at -> (exists r, gget g root = Some r) -> fuel_ok g root ->
    forall cs, calls_bytes cs -> range node_at root cs = Ok (spec_range (L g root) cs).
Proof.
  intros. unfold range.
  erewrite search_correct_plain by eauto using always_can_match_sound, always_no_eof.
  now rewrite spec_search_always.
Qed.

Lemma spec_range_nil m : spec_range m [] = m.
Proof. unfold spec_range. cbn. apply filter_all. intros x _. reflexivity. Qed.

Theorem stream_all_correct :
  forall g node_at root, wf_graph g -> views g node_at -> (exists r, gget g root = Some r) -> fuel_ok g root ->
    stream_all node_at root = Ok (L g root).
Proof.
  intros. unfold stream_all. erewrite range_correct by (eauto; constructor). now rewrite spec_range_nil.
Qed.

(* ---------- the pruning hints do not matter ---------- *)
Definition with_hints (A : automaton) (cm wam : St A -> bool) : automaton :=
  {| St := St A; start := start A; is_match := is_match A; can_match := cm; will_always_match := wam;
     accept := accept A; accept_eof := accept_eof A |}.

Theorem hints_irrelevant :
  forall g node_at root A (cm wam : St A -> bool),
    wf_graph g -> views g node_at -> (exists r, gget g root = Some r) -> fuel_ok g root ->
    no_eof_hook A -> can_match_sound A -> can_match_sound (with_hints A cm wam) ->
    forall cs, calls_bytes cs ->
      search_with_state node_at root (with_hints A cm wam) cs = search_with_state node_at root A cs.
Proof.
  intros g node_at root A cm wam Hwf Hv Hr Hf He H1 H2 cs Hcs.
  rewrite (search_correct g node_at root A Hwf Hv Hr H1 He Hf cs Hcs).
  rewrite (search_correct g node_at root (with_hints A cm wam) Hwf Hv Hr H2 He Hf cs Hcs).
  reflexivity.
Qed.

(* ---------- setting the same kind of bound twice: the last setting wins ---------- *)
Definition is_lower (c : bcall) : bool := match c with BGe _ | BGt _ => true | _ => false end.
Definition lo_step (acc : bound) (c : bcall) : bound :=
  match c with BGe k => Included k | BGt k => Excluded k | _ => acc end.
Definition up_step (acc : bound) (c : bcall) : bound :=
  match c with BLe k => Included k | BLt k => Excluded k | _ => acc end.

Lemma fold_bcall_split : forall cs a b,
  fold_left apply_bcall cs (a, b) = (fold_left lo_step cs a, fold_left up_step cs b).
Proof. induction cs as [|c cs IH]; intros a b; [reflexivity|]. cbn [fold_left]. destruct c; cbn; apply IH. Qed.

Lemma fold_step_last (step : bound -> bcall -> bound) c' :
  (forall a a', step a c' = step a' c') ->
  forall X cs3 a a', fold_left step (X ++ c' :: cs3) a = fold_left step (c' :: cs3) a'.
Proof. intros H X cs3 a a'. rewrite fold_left_app. cbn [fold_left]. now rewrite (H _ a'). Qed.
Lemma fold_step_skip (step : bound -> bcall -> bound) c :
  (forall a, step a c = a) -> forall cs1 Y a, fold_left step (cs1 ++ c :: Y) a = fold_left step (cs1 ++ Y) a.
Proof. intros H cs1 Y a. rewrite !fold_left_app. cbn [fold_left]. now rewrite H. Qed.

Theorem bounds_last_wins : forall cs1 c cs2 c' cs3, is_lower c = is_lower c' ->
  bounds_of (cs1 ++ c :: cs2 ++ c' :: cs3) = bounds_of (cs1 ++ cs2 ++ c' :: cs3).
Proof.
  intros cs1 c cs2 c' cs3 H. unfold bounds_of. rewrite !fold_bcall_split.
  destruct (is_lower c) eqn:Ec.
  - f_equal.
    + rewrite (app_assoc cs1 cs2), (fold_step_last lo_step c' ltac:(destruct c'; try discriminate; reflexivity)
                                     (cs1 ++ cs2) cs3 Unbounded Unbounded).
      change (cs1 ++ c :: cs2 ++ c' :: cs3) with (cs1 ++ (c :: cs2) ++ c' :: cs3). rewrite app_assoc.
      apply fold_step_last. destruct c'; try discriminate; reflexivity.
    + apply fold_step_skip. destruct c; try discriminate; reflexivity.
  - f_equal.
    + apply fold_step_skip. destruct c; try discriminate; reflexivity.
    + rewrite (app_assoc cs1 cs2), (fold_step_last up_step c' ltac:(destruct c'; try discriminate; reflexivity)
                                     (cs1 ++ cs2) cs3 Unbounded Unbounded).
      change (cs1 ++ c :: cs2 ++ c' :: cs3) with (cs1 ++ (c :: cs2) ++ c' :: cs3). rewrite app_assoc.
      apply fold_step_last. destruct c'; try discriminate; reflexivity.
Qed.

(* the same, as a closed form: the last ge/gt call and the last le/lt call *)
Theorem bounds_of_last : forall cs,
  bounds_of cs =
  (match find is_lower (rev cs) with Some (BGe k) => Included k | Some (BGt k) => Excluded k | _ => Unbounded end,
   match find (fun c => negb (is_lower c)) (rev cs) with
   | Some (BLe k) => Included k | Some (BLt k) => Excluded k | _ => Unbounded end).
Proof.
  induction cs as [|c cs IH] using rev_ind; [reflexivity|].
  unfold bounds_of in *. rewrite fold_left_app, rev_app_distr. cbn [fold_left rev app find]. rewrite IH.
  destruct c; reflexivity.
Qed.

(* ---------- a finished stream stays finished ---------- *)
Lemma iter_inr_inv {X Y} (f : X -> X + Y) (P : X -> Prop) :
  (forall a a', P a -> f a = inl a' -> P a') ->
  forall n a b, P a -> iter f n a = inr b -> exists a', P a' /\ f a' = inr b.
Proof.
  intros Hp. induction n as [|n IH]; intros a b Ha H; cbn [iter] in H; [discriminate|].
  destruct (f a) as [a1|b1] eqn:E.
  - eapply IH; [|exact H]. eapply Hp; eauto.
  - inversion H; subst. exists a. split; assumption.
Qed.

Section Ends.
Variable node_at : N -> res nview.
Variable root : N.
Variable A : automaton.

Lemma next_step_inl s s' : next_step node_at root A s = inl s' -> s_empty_output s' = s_empty_output s.
Proof.
  unfold next_step. destruct (s_stack s) as [|f rest]; [discriminate|].
  destruct (_ || _).
  - destruct (negb _); [destruct (s_inp s); [discriminate|]|]; intros H; inversion H; reflexivity.
  - destruct (nth_error _ _) as [t|]; [|discriminate]. destruct (node_at (t_addr t)) as [v| |]; try discriminate.
    cbv zeta. destruct (exceeded_by _ _); [discriminate|]. destruct (_ && _); [discriminate|].
    intros H; inversion H; reflexivity.
Qed.
Lemma next_step_none s s' : next_step node_at root A s = inr (Ok (s', None)) ->
  s_stack s' = [] /\ s_empty_output s' = s_empty_output s.
Proof.
  unfold next_step. destruct (s_stack s) as [|f rest] eqn:Es.
  - intros H; inversion H; subst. auto.
  - destruct (_ || _).
    + destruct (negb _); [destruct (s_inp s)|]; discriminate.
    + destruct (nth_error _ _) as [t|]; [|discriminate]. destruct (node_at (t_addr t)) as [v| |]; try discriminate.
      cbv zeta. destruct (exceeded_by _ _); [intros H; inversion H; auto|]. destruct (_ && _); discriminate.
Qed.

Lemma next_with_none s s' : next_with node_at root A s = Ok (s', None) ->
  s_stack s' = [] /\ s_empty_output s' = None.
Proof.
  assert (Hrun : forall s0, s_empty_output s0 = None ->
            match loop (next_step node_at root A) FUEL s0 with inr x => x | inl _ => Panic end = Ok (s', None) ->
            s_stack s' = [] /\ s_empty_output s' = None).
  { intros s0 H0 H. destruct (loop _ FUEL s0) as [|x] eqn:El; [discriminate|]. subst x.
    rewrite loop_iter in El.
    destruct (iter_inr_inv (next_step node_at root A) (fun a => s_empty_output a = None)
                (fun a a' Ha E => eq_trans (next_step_inl a a' E) Ha) _ _ _ H0 El) as (a' & Ha' & E).
    destruct (next_step_none _ _ E) as [H1 H2]. split; [exact H1|congruence]. }
  unfold next_with. cbv zeta. destruct (s_empty_output s) as [o|] eqn:Eo.
  - destruct (exceeded_by _ _); [intros H; inversion H; auto|].
    destruct (is_match _ _); [discriminate|]. apply Hrun. reflexivity.
  - apply Hrun. exact Eo.
Qed.

Theorem ends_after_none s s' : next_with node_at root A s = Ok (s', None) ->
  next_with node_at root A s' = Ok (s', None).
Proof.
  intros H. destruct (next_with_none _ _ H) as [Hs He]. unfold next_with. cbv zeta. rewrite He.
  assert (E : iter (next_step node_at root A) 1 s' = inr (Ok (s', None))).
  { cbn [iter]. unfold next_step. rewrite Hs. reflexivity. }
  rewrite (loop_complete (next_step node_at root A) FUEL _ E); [reflexivity|].
  apply fuel_nat. cbn. lia.
Qed.
End Ends.

Print Assumptions search_correct.
Print Assumptions range_correct.
Print Assumptions stream_all_correct.
Print Assumptions hints_irrelevant.
Print Assumptions bounds_last_wins.
Print Assumptions ends_after_none.
