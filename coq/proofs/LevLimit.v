(* LevLimit.v — C17, Part 4: the state limit.  build_with_limit tests states.len() > limit
   at the end of every iteration of the worklist, the number of states never shrinks, and an
   iteration does not depend on the limit otherwise.  Hence: the construction fails with
   TooManyStates(limit) exactly when the automaton built without hindrance has more than
   `limit` states, and every limit that is large enough yields the same automaton. *)
Require Import FstV.Base FstV.Loop FstV.Automaton FstV.Levenshtein.
Require Import FstV.proofs.LevDfa FstV.proofs.LevBuild.
Require Import Lia.
Open Scope nat_scope.

(* one iteration without the final test *)
Definition build_body (L : dynlev) (S0 : bstate) : bstate + res dfa :=
  match bs_stack S0 with
  | [] => inr (Ok (b_dfa (bs_b S0)))
  | lev_state :: stack0 =>
    match cached_state L (bs_b S0) lev_state with
    | (_, None) => inr Panic
    | (B1, Some dfa_si) =>
      let (B2, mismatch) := add_mismatch_utf8_states L B1 dfa_si lev_state in
      let (stack1, seen1) :=
          match mismatch with
          | Some (next_si, lev_next) => push_unseen next_si lev_next stack0 (bs_seen S0)
          | None => (stack0, bs_seen S0)
          end in
      let '(B3, stack2, seen2) := chars_loop L dfa_si lev_state 0 (dl_query L) B2 stack1 seen1 in
      inl {| bs_b := B3; bs_stack := stack2; bs_seen := seen2 |}
    end
  end.

Definition states_of (S : bstate) : nat := length (b_dfa (bs_b S)).

Lemma build_step_body L limit S :
  build_step L limit S =
  match build_body L S with
  | inl S' => if (limit <? N.of_nat (states_of S'))%N then inr (Err (ETooManyStates limit)) else inl S'
  | inr r => inr r
  end.
Proof.
  unfold build_step, build_body. destruct (bs_stack S) as [|r st]; [reflexivity|].
  destruct (cached_state L (bs_b S) r) as [B1 [si|]]; [|reflexivity].
  destruct (add_mismatch_utf8_states L B1 si r) as [B2 mm].
  destruct (match mm with Some (a, b) => _ | None => _ end) as [stack1 seen1].
  destruct (chars_loop L si r 0 (dl_query L) B2 stack1 seen1) as [[B3 stack2] seen2].
  reflexivity.
Qed.

Lemma build_body_no_err L S e : build_body L S <> inr (Err e).
Proof.
  unfold build_body. destruct (bs_stack S) as [|r st]; [discriminate|].
  destruct (cached_state L (bs_b S) r) as [B1 [si|]]; [|discriminate].
  destruct (add_mismatch_utf8_states L B1 si r) as [B2 mm].
  destruct (match mm with Some (a, b) => _ | None => _ end) as [stack1 seen1].
  destruct (chars_loop L si r 0 (dl_query L) B2 stack1 seen1) as [[B3 stack2] seen2]. discriminate.
Qed.

(* ---- the number of states never shrinks ---- *)
Lemma cached_grows L B r : length (b_dfa B) <= length (b_dfa (fst (cached L B r))).
Proof.
  unfold cached. destruct (negb _); [cbn; lia|]. destruct (cache_get _ _); cbn; [lia|].
  rewrite app_length. lia.
Qed.

Lemma add_sequences_grows ow d si to lo hi : length d <= length (add_utf8_sequences ow d si to lo hi).
Proof. rewrite add_utf8_sequences_eq. apply add_seqs_frame. Qed.

Lemma chars_loop_grows L si r : forall cs i B stack seen,
  length (b_dfa B) <= length (b_dfa (fst (fst (chars_loop L si r i cs B stack seen)))).
Proof.
  induction cs as [|x cs IH]; intros i B stack seen; [cbn; lia|].
  cbn [chars_loop]. destruct (dl_dist L <? nth i r 0); [apply IH|].
  rewrite cached_state_eq. pose proof (cached_grows L B (dl_accept L r (Some x))) as Hg.
  destruct (cached L B (dl_accept L r (Some x))) as [B1 res]. cbn [fst snd] in *.
  destruct res as [[n w]|]; cbn [option_map fst].
  - destruct (push_unseen _ _ _ _) as [s1 s2]. eapply Nat.le_trans; [|apply IH].
    cbn [with_dfa b_dfa]. pose proof (add_sequences_grows true (b_dfa B1) si n x x). lia.
  - eapply Nat.le_trans; [|apply IH]. exact Hg.
Qed.

Lemma build_body_grows L S S' : build_body L S = inl S' -> states_of S <= states_of S'.
Proof.
  unfold build_body, states_of. destruct (bs_stack S) as [|r st]; [discriminate|].
  rewrite cached_state_eq. pose proof (cached_grows L (bs_b S) r) as H1.
  destruct (cached L (bs_b S) r) as [B1 res]. cbn [fst snd] in *. destruct res as [[si w]|]; [|discriminate].
  cbn [option_map fst].
  assert (length (b_dfa B1) <= length (b_dfa (fst (add_mismatch_utf8_states L B1 si r)))) as H2.
  { unfold add_mismatch_utf8_states. pose proof (cached_grows L B1 (dl_accept L r None)) as Hg.
    destruct (cached L B1 (dl_accept L r None)) as [B1' res']. cbn [fst] in Hg.
    destruct res' as [[to w']|]; cbn [fst with_dfa b_dfa]; [|exact Hg].
    pose proof (add_sequences_grows false (b_dfa B1') si to 0%N 0x10FFFF%N). lia. }
  destruct (add_mismatch_utf8_states L B1 si r) as [B2 mm]. cbn [fst] in H2.
  destruct (match mm with Some (a, b) => _ | None => _ end) as [stack1 seen1].
  pose proof (chars_loop_grows L si r (dl_query L) 0 B2 stack1 seen1) as H3.
  destruct (chars_loop L si r 0 (dl_query L) B2 stack1 seen1) as [[B3 stack2] seen2]. cbn [fst] in H3.
  intros Hq; inversion Hq; subst S'. cbn [bs_b]. lia.
Qed.

(* ---- runs under different limits ---- *)
Section Limits.
Variable L : dynlev.

Lemma step_inl_mono lim lim' S S' : (lim <= lim')%N ->
  build_step L lim S = inl S' -> build_step L lim' S = inl S'.
Proof.
  intros Hl. rewrite !build_step_body. destruct (build_body L S) as [S1|r]; [|discriminate].
  destruct (N.ltb_spec lim (N.of_nat (states_of S1))); [discriminate|]. intros Hq; inversion Hq; subst S1.
  destruct (N.ltb_spec lim' (N.of_nat (states_of S'))); [lia|reflexivity].
Qed.

Lemma step_inr_any lim lim' S r : (forall e, r <> Err e) ->
  build_step L lim S = inr r -> build_step L lim' S = inr r.
Proof.
  intros Hr. rewrite !build_step_body. destruct (build_body L S) as [S1|r1]; [|auto].
  destruct (N.ltb_spec lim (N.of_nat (states_of S1))); [|discriminate].
  intros Hq; inversion Hq; subst r. exfalso. eapply Hr; reflexivity.
Qed.

Lemma iter_inl_mono lim lim' : (lim <= lim')%N -> forall n S S',
  iter (build_step L lim) n S = inl S' -> iter (build_step L lim') n S = inl S'.
Proof.
  intros Hl. induction n as [|n IH]; intros S S' H; [exact H|]. cbn [iter] in *.
  destruct (build_step L lim S) as [S1|r] eqn:E; [|discriminate].
  rewrite (step_inl_mono lim lim' S S1 Hl E). now apply IH.
Qed.

Lemma iter_inr_mono lim lim' r : (lim <= lim')%N -> (forall e, r <> Err e) -> forall n S,
  iter (build_step L lim) n S = inr r -> iter (build_step L lim') n S = inr r.
Proof.
  intros Hl Hr. induction n as [|n IH]; intros S H; [discriminate|]. cbn [iter] in *.
  destruct (build_step L lim S) as [S1|r1] eqn:E.
  - rewrite (step_inl_mono lim lim' S S1 Hl E). now apply IH.
  - inversion H; subst r1. now rewrite (step_inr_any lim lim' S r Hr E).
Qed.

(* every state of a successful run has at most as many DFA states as the result *)
Lemma iter_ok_grows lim : forall n S d,
  iter (build_step L lim) n S = inr (Ok d) -> states_of S <= length d.
Proof.
  induction n as [|n IH]; intros S d H; [discriminate|]. cbn [iter] in H.
  rewrite build_step_body in H. destruct (build_body L S) as [S1|r] eqn:Eb.
  - destruct (N.ltb_spec lim (N.of_nat (states_of S1))); [discriminate|].
    apply IH in H. apply build_body_grows in Eb. lia.
  - inversion H; subst r. unfold build_body in Eb. destruct (bs_stack S) as [|r st].
    + inversion Eb. unfold states_of. lia.
    + destruct (cached_state L (bs_b S) r) as [B1 [si|]]; [|discriminate].
      destruct (add_mismatch_utf8_states L B1 si r) as [B2 mm].
      destruct (match mm with Some (a, b) => _ | None => _ end) as [stack1 seen1].
      destruct (chars_loop L si r 0 (dl_query L) B2 stack1 seen1) as [[B3 stack2] seen2]. discriminate.
Qed.

(* the same run succeeds under any limit that admits the result *)
Lemma iter_ok_lower lim lim' : forall n S d,
  iter (build_step L lim) n S = inr (Ok d) -> (N.of_nat (length d) <= lim')%N ->
  iter (build_step L lim') n S = inr (Ok d).
Proof.
  induction n as [|n IH]; intros S d H Hd; [discriminate|]. cbn [iter] in *.
  rewrite build_step_body in H |- *. destruct (build_body L S) as [S1|r] eqn:Eb; [|exact H].
  destruct (N.ltb_spec lim (N.of_nat (states_of S1))); [discriminate|].
  pose proof (iter_ok_grows lim n S1 d H).
  destruct (N.ltb_spec lim' (N.of_nat (states_of S1))); [lia|]. now apply IH.
Qed.

(* a successful run ends below its own limit (unless it does not iterate at all) *)
Lemma iter_ok_below lim : forall n S d,
  iter (build_step L lim) n S = inr (Ok d) ->
  (bs_stack S = [] -> (N.of_nat (states_of S) <= lim)%N) -> (N.of_nat (length d) <= lim)%N.
Proof.
  induction n as [|n IH]; intros S d H H0; [discriminate|]. cbn [iter] in H.
  rewrite build_step_body in H. destruct (build_body L S) as [S1|r] eqn:Eb.
  - destruct (N.ltb_spec lim (N.of_nat (states_of S1))); [discriminate|]. apply (IH S1 d H). auto.
  - inversion H; subst r. unfold build_body in Eb. destruct (bs_stack S) as [|r st].
    + inversion Eb. now apply H0.
    + destruct (cached_state L (bs_b S) r) as [B1 [si|]]; [|discriminate].
      destruct (add_mismatch_utf8_states L B1 si r) as [B2 mm].
      destruct (match mm with Some (a, b) => _ | None => _ end) as [stack1 seen1].
      destruct (chars_loop L si r 0 (dl_query L) B2 stack1 seen1) as [[B3 stack2] seen2]. discriminate.
Qed.

(* where a failing run fails *)
Lemma iter_err lim : forall n S e,
  iter (build_step L lim) n S = inr (Err e) ->
  e = ETooManyStates lim /\
  exists m S1 S2, m < n /\ iter (build_step L lim) m S = inl S1 /\ build_body L S1 = inl S2 /\
                  (lim < N.of_nat (states_of S2))%N.
Proof.
  induction n as [|n IH]; intros S e H; [discriminate|]. cbn [iter] in H.
  destruct (build_step L lim S) as [S1|r] eqn:E.
  - destruct (IH S1 e H) as (He & m & Sa & Sb & Hm & Hit & Hb & Hl). split; [exact He|].
    exists (Datatypes.S m), Sa, Sb. split; [lia|]. cbn [iter]. rewrite E. auto.
  - inversion H; subst r. rewrite build_step_body in E. destruct (build_body L S) as [S1|r1] eqn:Eb.
    + destruct (N.ltb_spec lim (N.of_nat (states_of S1))); [|discriminate]. inversion E; subst e.
      split; [reflexivity|]. exists 0, S, S1. cbn [iter]. repeat split; auto. lia.
    + inversion E; subst r1. exfalso. now apply (build_body_no_err L S e).
Qed.

Lemma limits_gen p lim d :
  loop (build_step L lim) p (build_init L) = inr (Ok d) ->
  (N.of_nat (length d) <= lim)%N /\
  forall lim',
    loop (build_step L lim') p (build_init L) =
    inr (if (lim' <? N.of_nat (length d))%N then Err (ETooManyStates lim') else Ok d).
Proof.
  rewrite loop_iter. intros H.
  assert (N.of_nat (length d) <= lim)%N as Hbelow.
  { apply (iter_ok_below lim _ _ _ H). cbn. discriminate. }
  split; [exact Hbelow|]. intros lim'. rewrite loop_iter.
  destruct (N.ltb_spec lim' (N.of_nat (length d))) as [Hlt|Hge].
  - (* too small: the run cannot succeed, cannot panic, cannot run out of fuel *)
    assert (lim' <= lim)%N as Hle by lia.
    destruct (iter (build_step L lim') (2 ^ psize p) (build_init L)) as [S|[d'|e|]] eqn:E.
    + apply (iter_inl_mono lim' lim Hle) in E. congruence.
    + pose proof (iter_inr_mono lim' lim (Ok d') Hle ltac:(discriminate) _ _ E) as E2.
      assert (d' = d) by congruence. subst d'.
      assert (N.of_nat (length d) <= lim')%N by (apply (iter_ok_below lim' _ _ _ E); cbn; discriminate).
      lia.
    + destruct (iter_err lim' _ _ _ E) as [-> _]. reflexivity.
    + apply (iter_inr_mono lim' lim Panic Hle ltac:(discriminate)) in E. congruence.
  - now apply (iter_ok_lower lim lim').
Qed.
End Limits.

Lemma build_with_limit_of_loop L limit r :
  loop (build_step L limit) build_fuel (build_init L) = inr r -> build_with_limit L limit = Some r.
Proof. unfold build_with_limit. generalize build_fuel. intros p ->. reflexivity. Qed.

(* Ok under one limit determines the outcome under every limit *)
Theorem too_many_states_exact L lim d : build_with_limit L lim = Some (Ok d) ->
  (N.of_nat (length d) <= lim)%N /\
  forall lim', build_with_limit L lim' =
               Some (if (lim' <? N.of_nat (length d))%N then Err (ETooManyStates lim') else Ok d).
Proof.
  intros H. apply build_with_limit_loop in H. destruct (limits_gen L _ lim d H) as [H1 H2].
  split; [exact H1|]. intros lim'. apply build_with_limit_of_loop, H2.
Qed.

(* an error is TooManyStates(limit), raised at the end of the first iteration that leaves
   more than `limit` states *)
Theorem too_many_states_where L lim e : build_with_limit L lim = Some (Err e) ->
  e = ETooManyStates lim /\
  exists m S1 S2, iter (build_step L lim) m (build_init L) = inl S1 /\ build_body L S1 = inl S2 /\
                  (lim < N.of_nat (states_of S2))%N.
Proof.
  intros H. apply build_with_limit_loop in H. rewrite loop_iter in H.
  destruct (iter_err L lim _ _ _ H) as (He & m & S1 & S2 & _ & H1 & H2 & H3). eauto 8.
Qed.

(* conversely (within the fuel of the model) *)
Theorem too_many_states_when L lim m S1 S2 :
  iter (build_step L lim) m (build_init L) = inl S1 -> build_body L S1 = inl S2 ->
  (lim < N.of_nat (states_of S2))%N -> Datatypes.S m <= 2 ^ psize build_fuel ->
  build_with_limit L lim = Some (Err (ETooManyStates lim)).
Proof.
  intros H1 H2 H3 Hf. apply build_with_limit_of_loop.
  apply (loop_complete (build_step L lim) build_fuel (n := Datatypes.S m)); [|exact Hf].
  replace (Datatypes.S m) with (m + 1) by lia. rewrite iter_add, H1. cbn [iter].
  rewrite build_step_body, H2. apply N.ltb_lt in H3. now rewrite H3.
Qed.

(* ---- the same, for Levenshtein::new_with_limit ---- *)
Theorem search_filter q dist limit d :
  forallb is_scalar q = true -> lev_new_with_limit q dist limit = Some (Ok d) ->
  forall keys, Forall (fun k => forallb is_scalar k = true) keys ->
  filter (fun k => accepts (lev_aut d) (utf8_bytes k)) keys = filter (spec_match q dist) keys.
Proof.
  intros Hq Hb keys Hk. rewrite lev_new_with_limit_eq in Hb.
  destruct (build_closed {| dl_query := q; dl_dist := dist |} limit d Hq Hb) as (cache & Hcd).
  induction Hk as [|k keys Hk _ IH]; [reflexivity|].
  cbn [filter]. rewrite IH. rewrite (closed_accepts _ d cache Hcd k Hk). reflexivity.
Qed.

Theorem new_too_many_states q dist lim d :
  lev_new_with_limit q dist lim = Some (Ok d) ->
  (N.of_nat (length d) <= lim)%N /\
  forall lim', lev_new_with_limit q dist lim' =
               Some (if (lim' <? N.of_nat (length d))%N then Err (ETooManyStates lim') else Ok d).
Proof.
  intros H. rewrite lev_new_with_limit_eq in H. destruct (too_many_states_exact _ lim d H) as [H1 H2].
  split; [exact H1|]. intros lim'. rewrite lev_new_with_limit_eq. apply H2.
Qed.

Theorem new_too_many_states_where q dist lim e :
  lev_new_with_limit q dist lim = Some (Err e) ->
  let L := {| dl_query := q; dl_dist := dist |} in
  e = ETooManyStates lim /\
  exists m S1 S2, iter (build_step L lim) m (build_init L) = inl S1 /\ build_body L S1 = inl S2 /\
                  (lim < N.of_nat (states_of S2))%N.
Proof. intros H L. rewrite lev_new_with_limit_eq in H. now apply too_many_states_where. Qed.

Theorem new_too_many_states_when q dist lim m S1 S2 :
  let L := {| dl_query := q; dl_dist := dist |} in
  iter (build_step L lim) m (build_init L) = inl S1 -> build_body L S1 = inl S2 ->
  (lim < N.of_nat (states_of S2))%N -> Datatypes.S m <= 2 ^ psize build_fuel ->
  lev_new_with_limit q dist lim = Some (Err (ETooManyStates lim)).
Proof. intros L H1 H2 H3 H4. rewrite lev_new_with_limit_eq. now apply (too_many_states_when L lim m S1 S2). Qed.

Theorem new_no_panic q dist limit :
  forallb is_scalar q = true -> lev_new_with_limit q dist limit <> Some Panic.
Proof. intros Hq. rewrite lev_new_with_limit_eq. now apply build_no_panic. Qed.

Theorem new_terminates q dist limit :
  forallb is_scalar q = true -> (limit < 2 ^ 64 - 1)%N -> lev_new_with_limit q dist limit <> None.
Proof. intros Hq Hl. rewrite lev_new_with_limit_eq. now apply build_terminates. Qed.

(* the two outcomes of Levenshtein::new_with_limit *)
Theorem new_outcome q dist limit :
  forallb is_scalar q = true -> (limit < 2 ^ 64 - 1)%N ->
  (exists d, lev_new_with_limit q dist limit = Some (Ok d)) \/
  lev_new_with_limit q dist limit = Some (Err (ETooManyStates limit)).
Proof.
  intros Hq Hl. pose proof (new_terminates q dist limit Hq Hl) as Ht.
  pose proof (new_no_panic q dist limit Hq) as Hp.
  destruct (lev_new_with_limit q dist limit) as [[d|e|]|] eqn:E; try congruence.
  - left. eauto.
  - right. destruct (new_too_many_states_where q dist limit e E) as [-> _]. reflexivity.
Qed.
