(* Compose.v — chaining the layers: bytes accepted by the format specification
   --(CodecSpec.parse_views)--> graph --(ReaderProofs / StreamProofs)--> API-level answers.
   The byte-level statements of CodecSpec.v enter as explicit premises, so this file
   does not depend on how far their proofs have got. *)
Require Import FstV.Base FstV.Loop FstV.Pack FstV.Node FstV.Reader FstV.Automaton FstV.GraphSem
               FstV.Format FstV.Fst FstV.CodecSpec.
Require Import FstV.proofs.GraphProofs FstV.proofs.ReaderProofs FstV.proofs.StreamProofs.

(* ---------- the reader only depends on the values of [get], not on its representation ---------- *)
Section GetExt.
Variables g1 g2 : N -> option N.
Hypothesis E : forall i, g1 i = g2 i.

Lemma rd_ext lim i : rd g1 lim i = rd g2 lim i.
Proof. unfold rd. now rewrite E. Qed.
Lemma rd_le_ext lim i n : rd_le g1 lim i n = rd_le g2 lim i n.
Proof.
  revert i; induction n as [|n IH]; intros i; cbn [rd_le]; [reflexivity|].
  rewrite rd_ext. destruct (rd g2 lim i); cbn [bind]; try reflexivity. now rewrite IH.
Qed.
Lemma unpack_uint_ext lim i n : unpack_uint g1 lim i n = unpack_uint g2 lim i n.
Proof. unfold unpack_uint. destruct (_ && _); [apply rd_le_ext|reflexivity]. Qed.
Lemma unpack_delta_ext lim i t e : unpack_delta g1 lim i t e = unpack_delta g2 lim i t e.
Proof. unfold unpack_delta. now rewrite unpack_uint_ext. Qed.

(* peel nested binds from the left, replacing reads through g1 by reads through g2 *)
Ltac head_of t :=
  lazymatch t with
  | bind ?r _ => head_of r
  | _ => constr:(t)
  end.
Ltac ext_step :=
  lazymatch goal with
  | |- ?lhs = _ =>
    let h := head_of lhs in
    lazymatch h with
    | rd g1 ?l ?i => rewrite (rd_ext l i); destruct (rd g2 l i); cbn [bind]
    | unpack_uint g1 ?l ?i ?n => rewrite (unpack_uint_ext l i n); destruct (unpack_uint g2 l i n); cbn [bind]
    | unpack_delta g1 ?l ?i ?t ?e => rewrite (unpack_delta_ext l i t e); destruct (unpack_delta g2 l i t e); cbn [bind]
    | csub ?a ?b => destruct (csub a b); cbn [bind]
    | if ?c then _ else _ => destruct c
    | Ok _ => progress cbn [bind]
    end
  end.

Lemma node_new_ext v a : node_new g1 v a = node_new g2 v a.
Proof.
  unfold node_new. destruct (a =? EMPTY_ADDRESS); [reflexivity|].
  ext_step; try reflexivity.
  match goal with |- context [match ?x / 64 with _ => _ end] => destruct (x / 64) as [|[[q|q|]|[q|q|]|]] end.
  all: repeat (first [reflexivity | ext_step]).
Qed.

Lemma one_input_ext nd v : one_input g1 nd v = one_input g2 nd v.
Proof.
  unfold one_input. destruct (common_input _); [reflexivity|].
  destruct (csub _ _); cbn [bind]; try reflexivity. apply rd_ext.
Qed.

Lemma transition_ext nd i : transition g1 nd i = transition g2 nd i.
Proof.
  unfold transition. destruct (nd_state nd).
  - destruct (negb _); [reflexivity|]. now rewrite one_input_ext.
  - destruct (negb _); [reflexivity|]. rewrite one_input_ext.
    destruct (one_input g2 nd v); cbn [bind]; try reflexivity.
    destruct (osize_of _ =? 0).
    + cbn [bind]. destruct (csub _ _); cbn [bind]; try reflexivity. now rewrite unpack_delta_ext.
    + destruct (csub _ _); cbn [bind]; try reflexivity. rewrite unpack_uint_ext.
      destruct (unpack_uint g2 _ _ _); cbn [bind]; try reflexivity.
      destruct (csub _ _); cbn [bind]; try reflexivity. now rewrite unpack_delta_ext.
  - destruct (csub _ _); cbn [bind]; try reflexivity. rewrite rd_ext.
    destruct (rd g2 _ _); cbn [bind]; try reflexivity.
    destruct (osize_of _ =? 0).
    + cbn [bind]. destruct (negb _); [reflexivity|].
      destruct (csub _ _); cbn [bind]; try reflexivity. now rewrite unpack_delta_ext.
    + destruct (csub _ _); cbn [bind]; try reflexivity. rewrite unpack_uint_ext.
      destruct (unpack_uint g2 _ _ _); cbn [bind]; try reflexivity.
      destruct (negb _); [reflexivity|].
      destruct (csub _ _); cbn [bind]; try reflexivity. now rewrite unpack_delta_ext.
  - reflexivity.
Qed.

Lemma transitions_from_ext nd i n : transitions_from g1 nd i n = transitions_from g2 nd i n.
Proof.
  revert i; induction n as [|n IH]; intros i; cbn [transitions_from]; [reflexivity|].
  rewrite transition_ext. destruct (transition g2 nd i); cbn [bind]; try reflexivity. now rewrite IH.
Qed.

Lemma scan_inputs_ext lim st n k b : scan_inputs g1 lim st n k b = scan_inputs g2 lim st n k b.
Proof.
  revert k; induction n as [|n IH]; intros k; cbn [scan_inputs]; [reflexivity|].
  rewrite rd_ext. destruct (rd g2 lim _); cbn [bind]; try reflexivity.
  destruct (_ =? b); [reflexivity|apply IH].
Qed.

Lemma find_input_ext nd b : find_input g1 nd b = find_input g2 nd b.
Proof.
  unfold find_input. destruct (nd_state nd); try reflexivity.
  - now rewrite one_input_ext.
  - now rewrite one_input_ext.
  - destruct (_ && _).
    + destruct (csub _ _); cbn [bind]; try reflexivity. now rewrite rd_ext.
    + destruct (csub _ _); cbn [bind]; try reflexivity.
      destruct (nd_ntrans nd =? 0).
      * cbn [bind]. now rewrite scan_inputs_ext.
      * rewrite rd_ext. destruct (rd g2 _ _); cbn [bind]; try reflexivity. now rewrite scan_inputs_ext.
Qed.

Lemma views_ext (g : graph) v : views g (concrete_node_at g1 v) -> views g (concrete_node_at g2 v).
Proof.
  intros V a n Hn. destruct (V a n Hn) as (w & Hw & Ha & Hf & Ho & Ht & Hfind).
  unfold concrete_node_at in *. rewrite <- node_new_ext.
  destruct (node_new g1 v a) as [nd| |]; cbn [bind] in *; try discriminate.
  unfold transitions in *. rewrite <- transitions_from_ext.
  destruct (transitions_from g1 nd 0 _) as [ts| |]; cbn [bind] in *; try discriminate.
  inversion Hw; subst w; clear Hw. cbn in *.
  eexists. split; [reflexivity|]. cbn. repeat split; try assumption.
  intros b Hb. rewrite <- find_input_ext. now apply Hfind.
Qed.
End GetExt.

(* ---------- files accepted by the format specification answer every query correctly ---------- *)
Section OnParsedFiles.
Hypothesis PV : parse_views_statement.
Hypothesis DG : data_get_statement.

Variables (bs : list N) (p : parsed).
Hypothesis Hbytes : Forall (fun b => b < 256) bs.
Hypothesis Hparse : spec_parse bs = Some p.

Let g := graph_of (node_table (p_nodes p)).

Lemma file_views :
  wf_graph g /\ views g (fst (view_of bs)) /\ snd (view_of bs) = p_root p /\
  (exists r, gget g (p_root p) = Some r) /\ p_content p = L g (p_root p).
Proof.
  destruct (PV bs p Hbytes Hparse) as (WF & V & R & C & Mv & Mr & _ & _).
  fold g in WF, V, R, C. unfold view_of. cbn [fst snd].
  split; [exact WF|]. split; [|split; [exact Mr|split; [exact R|exact C]]].
  rewrite Mv. eapply views_ext; [|exact V]. intros i. symmetry. apply DG.
Qed.

Theorem file_get : forall k, Forall (fun b => b < 256) k ->
  api_get bs k = Ok (lookup (p_content p) k) /\
  api_contains bs k = Ok (match lookup (p_content p) k with Some _ => true | None => false end).
Proof.
  intros k Hk. destruct file_views as (WF & V & R & Ex & C).
  unfold api_get, api_contains. destruct (view_of bs) as [na r] eqn:Ev. cbn [fst snd] in *. subst r.
  rewrite C. split.
  - apply (get_correct g na WF V (p_root p) Ex k Hk).
  - apply (contains_correct g na WF V (p_root p) Ex k Hk).
Qed.

Theorem file_search : forall (A : automaton) (cs : list bcall),
  can_match_sound A -> no_eof_hook A -> fuel_ok g (p_root p) -> calls_bytes cs ->
  api_search_with_state bs A cs = Ok (spec_search (p_content p) A cs).
Proof.
  intros A cs HA HE HF HC. destruct file_views as (WF & V & R & Ex & C).
  unfold api_search_with_state. destruct (view_of bs) as [na r] eqn:Ev. cbn [fst snd] in *. subst r.
  rewrite C. apply (search_correct g na (p_root p) A WF V Ex HA HE HF cs HC).
Qed.

Theorem file_range : forall cs, fuel_ok g (p_root p) -> calls_bytes cs ->
  api_range bs cs = Ok (spec_range (p_content p) cs).
Proof.
  intros cs HF HC. destruct file_views as (WF & V & R & Ex & C).
  unfold api_range. destruct (view_of bs) as [na r] eqn:Ev. cbn [fst snd] in *. subst r.
  rewrite C. apply (range_correct g na (p_root p) WF V Ex HF cs HC).
Qed.

Theorem file_stream : fuel_ok g (p_root p) -> api_stream bs = Ok (p_content p).
Proof.
  intros HF. unfold api_stream. rewrite file_range; [|exact HF|constructor].
  unfold spec_range, bounds_of. cbn. f_equal.
  induction (p_content p) as [|x l IH]; cbn; [reflexivity|]. now rewrite IH.
Qed.

Theorem file_len : api_len bs = p_len p.
Proof. destruct (PV bs p Hbytes Hparse) as (_ & _ & _ & _ & _ & _ & Ml & _). exact Ml. Qed.
End OnParsedFiles.
