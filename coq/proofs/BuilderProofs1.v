(* BuilderProofs1.v — Builder::compile: one call keeps the byte-level, store and registry invariants,
   and returns an address whose node is exactly the requested one. *)
Require Import FstV.Base FstV.Pack FstV.Node FstV.Registry FstV.Builder FstV.GraphSem FstV.Format
               FstV.CodecSpec FstV.Fst.
Require Import FstV.proofs.BuilderInv FstV.proofs.BuilderRegLemmas FstV.proofs.BuilderGraphLemmas
               FstV.proofs.BuilderBytesLemmas FstV.proofs.BuilderNodeBytes.
Require Import Lia ZifyN ZifyBool ZifyNat.

Definition sentinel (n : bnode) : Prop := n_final n = true /\ n_trans n = [] /\ n_fout n = 0.
Definition tiles_inv (ver : N) (E : store) (pre : list N) : Prop :=
  forall fuel acc0, (length E < fuel)%nat ->
    tiles ver fuel (rev pre) (top_addr E) acc0 = Some (rev E ++ acc0).

Lemma top_addr_bound E : store_ok E -> top_addr E <= 15 + NODE_MAX * len E.
Proof.
  induction E as [|[a s] E IH]; cbn [store_ok top_addr]; intros H.
  - unfold len; cbn. lia.
  - destruct H as (H1 & _ & _ & H4 & H5). specialize (IH H1).
    unfold len in *. cbn [length]. unfold NODE_MAX in *. lia.
Qed.

Lemma len_length {A} (l : list A) : N.to_nat (len l) = length l.
Proof. unfold len. lia. Qed.

Lemma node_ok_length E n : node_ok E n -> (length (n_trans n) <= 256)%nat.
Proof.
  intros (Hi & Hf & _). apply increasing_length; auto.
  eapply Forall_impl; [|exact Hf]. intros t (H & _). exact H.
Qed.

Lemma snode_ok_of E n sz :
  store_ok E -> node_ok E n ->
  snode_ok (top_addr E + 1) (mkSnode (n_final n) (n_fout n) (n_trans n) sz) = true.
Proof.
  intros HE Hn. pose proof (node_ok_length _ _ Hn) as Hl. destruct Hn as (Hi & Hf & _).
  unfold snode_ok. cbn [sn_trans]. rewrite <- inputs_increasing_strict, Hi. cbn [andb].
  apply andb_true_iff. split.
  - unfold len. apply N.leb_le. lia.
  - apply forallb_forall. intros t Ht. rewrite Forall_forall in Hf. destruct (Hf t Ht) as (H1 & _ & H3).
    apply andb_true_iff. split; [apply N.ltb_lt; exact H1|].
    destruct H3 as [H3|H3]; [rewrite H3; reflexivity|].
    apply (store_addrs_range _ _ HE) in H3.
    apply orb_true_iff. right. apply andb_true_iff. split; [apply N.leb_le|apply N.ltb_lt]; lia.
Qed.

Section Codec.
Hypothesis Hcodec : codec_statement.

Lemma tiles_extend ver E pre la n cs :
  1 <= ver <= 3 ->
  store_ok E -> len pre = top_addr E + 1 -> bnode_ok la (top_addr E + 1) n -> node_ok E n ->
  compile_node ver la (top_addr E + 1) n = Ok cs ->
  tiles_inv ver E pre ->
  let sz := len (concat cs) in
  let E' := (top_addr E + sz, mkSnode (n_final n) (n_fout n) (n_trans n) sz) :: E in
  0 < sz /\ store_ok E' /\ tiles_inv ver E' (pre ++ concat cs).
Proof.
  intros Hver HE Hpre Hbn Hn Hc Ht sz E'.
  destruct (Hcodec ver la (top_addr E + 1) n cs pre) as (Hpos & Hspec); try lia; auto.
  fold sz in Hpos, Hspec.
  replace (top_addr E + 1 + sz - 1) with (top_addr E + sz) in Hspec by lia.
  assert (Hsz : sz <= NODE_MAX).
  { apply spec_node_size in Hspec; [tauto|]. cbn [sn_trans]. eapply node_ok_length; eauto. }
  split; [exact Hpos|]. split.
  - cbn [store_ok E' bn_of sn_final sn_fout sn_trans sn_size]. repeat split; auto.
    + destruct Hn; tauto. + destruct Hn; tauto. + destruct Hn; tauto. + destruct Hn; tauto.
  - intros fuel acc0 Hf. destruct fuel as [|f]; [cbn in Hf; lia|].
    cbn [tiles top_addr E']. pose proof (store_top_ge _ HE) as Htop.
    destruct (N.eqb_spec (top_addr E + sz) 15) as [Hx|_]; [lia|].
    rewrite Hspec. cbn [sn_size].
    replace (top_addr E + sz + 1 - sz) with (top_addr E + 1) by lia.
    rewrite (snode_ok_of E n sz HE Hn). cbn [negb].
    destruct (N.ltb_spec (top_addr E + sz) (15 + sz)) as [Hx|_]; [lia|].
    rewrite rev_app_distr.
    assert (Hsk : skipn (N.to_nat sz) (rev (concat cs) ++ rev pre) = rev pre).
    { assert (Hl : N.to_nat sz = length (rev (concat cs))) by (rewrite rev_length; unfold sz, len; lia).
      rewrite Hl, skipn_app, skipn_all, Nat.sub_diag. reflexivity. }
    rewrite Hsk. replace (top_addr E + sz - sz) with (top_addr E) by lia.
    rewrite Ht; [|unfold E' in Hf; cbn [length] in Hf; lia].
    unfold E'. cbn [rev]. rewrite <- app_assoc. reflexivity.
Qed.
End Codec.

Lemma body_write b cs : body (b_write b cs) = body b ++ concat cs.
Proof.
  unfold body, b_write. cbn [b_out]. rewrite rev_app_distr, rev_involutive, concat_app. reflexivity.
Qed.

Lemma sentinel_test n :
  n_final n && (match n_trans n with [] => true | _ => false end) && (n_fout n =? 0) = true <-> sentinel n.
Proof.
  unfold sentinel. destruct (n_final n), (n_trans n), (N.eqb_spec (n_fout n) 0); cbn; split; intros; try tauto;
    try discriminate; try (destruct H as (?&?&?); congruence).
Qed.

Lemma bnode_ok_of E n la :
  store_ok E -> node_ok E n -> ~ sentinel n ->
  la = match E with [] => NONE_ADDRESS | _ => top_addr E end ->
  top_addr E + 1 < U64 ->
  bnode_ok la (top_addr E + 1) n.
Proof.
  intros HE Hn Hs Hla Hlt. pose proof (node_ok_length _ _ Hn) as Hl.
  pose proof (store_top_ge _ HE) as Htop.
  destruct Hn as (Hi & Hf & Ho & Hnf). rewrite Forall_forall in Hf.
  unfold bnode_ok. repeat split; auto; try lia.
  - apply (Hf t H). - apply (Hf t H).
  - destruct (Hf t H) as (_ & _ & [H3|H3]); [left; exact H3|right].
    apply (store_addrs_range _ _ HE) in H3. lia.
  - intros t Ht Ha. destruct (Hf t Ht) as (_ & _ & [H3|H3]).
    + destruct E; subst la; [rewrite H3 in Ha; discriminate|]. lia.
    + destruct E; [destruct H3|]. subst la. reflexivity.
Qed.

Section Compile.
Hypothesis Hcodec : codec_statement.
Hypothesis Htotal : compile_total_statement.

Lemma compile_ok ver ty E b n b' r :
  1 <= ver <= 3 ->
  minv ver ty E b -> node_ok E n ->
  NODE_MAX * (len E + 1) + 100 < U64 ->
  compile b n = (b', r) ->
  exists E' a, r = Ok a /\ minv ver ty E' b' /\
    b_stack b' = b_stack b /\ b_last b' = b_last b /\ b_len b' = b_len b /\
    ((E' = E /\ ((a = 0 /\ sentinel n) \/ exists s, In (a, s) E /\ bn_of s = n)) \/
     (exists s, E' = (a, s) :: E /\ bn_of s = n)) /\
    strip E' = BuilderBasics.compile_log b n ++ strip E.
Proof.
  intros Hver (HE & HB & HR) Hn Hsize Hc. pose proof Hc as Hc0. unfold compile in Hc.
  assert (Hlog : BuilderBasics.compile_log b n =
            if n_final n && (match n_trans n with [] => true | _ => false end) && (n_fout n =? 0) then []
            else match snd (reg_entry (b_reg b) n) with Found _ => [] | _ =>
                   match snd (compile b n) with Ok a => [(a, n)] | _ => [] end end) by reflexivity.
  destruct (n_final n && (match n_trans n with [] => true | _ => false end) && (n_fout n =? 0)) eqn:Hs.
  { apply sentinel_test in Hs. inversion Hc; subst. exists E, 0.
    split; [reflexivity|]. split; [unfold minv; auto|]. do 3 (split; [reflexivity|]).
    split; [left; auto|]. rewrite Hlog. reflexivity. }
  assert (Hns : ~ sentinel n) by (intro X; apply sentinel_test in X; congruence).
  destruct (reg_entry (b_reg b) n) as [reg0 e] eqn:He.
  pose proof (reg_entry_ok E _ _ _ _ HR He) as Hre.
  destruct HB as [Bver Bcnt Blen Bhdr Btiles Bla].
  destruct e as [a|idx|].
  - (* Found *)
    inversion Hc; subst; clear Hc. destruct Hre as (Hr' & s & Hin & Hs').
    exists E, a. split; [reflexivity|]. split.
    { split; [exact HE|]. split; [constructor; cbn [b_version b_count b_out b_last_addr body]; auto|cbn [b_reg]; exact Hr']. }
    do 3 (split; [reflexivity|]). split; [left; split; auto; right; eauto|].
    rewrite Hlog. reflexivity.
  - (* NotFound: the node is written *)
    pose proof (top_addr_bound _ HE) as Htb.
    assert (Hbn : bnode_ok (b_last_addr b) (top_addr E + 1) n).
    { apply bnode_ok_of; auto. unfold NODE_MAX, U64 in *. lia. }
    destruct (Htotal ver (b_last_addr b) (top_addr E + 1) n) as (cs & Hcs); try lia; auto.
    assert (Hcs' : compile_node (b_version b) (b_last_addr b) (b_count b) n = Ok cs) by (rewrite Bver, Bcnt; exact Hcs).
    rewrite Hcs' in Hc.
    destruct (tiles_extend Hcodec ver E (body b) (b_last_addr b) n cs Hver HE) as (Hpos & HE' & Ht'); auto; try lia.
    set (sz := len (concat cs)) in *.
    set (s := mkSnode (n_final n) (n_fout n) (n_trans n) sz) in *.
    inversion Hc; subst b' r; clear Hc.
    exists ((top_addr E + sz, s) :: E), (top_addr E + sz).
    cbn [b_write b_count b_out b_stack b_last b_len b_reg b_last_addr b_version b_stats].
    rewrite chunks_len_concat. fold sz.
    replace (b_count b + sz - 1) with (top_addr E + sz) by lia.
    split; [reflexivity|]. split.
    + split; [exact HE'|]. split.
      * constructor; cbn [b_version b_count b_last_addr top_addr]; auto; try lia.
        -- change (len (body (b_write b cs)) = b_count b + sz). rewrite body_write.
           rewrite len_app. fold sz. lia.
        -- change (firstn 16 (body (b_write b cs)) = u64_le ver ++ u64_le ty). rewrite body_write.
           rewrite firstn_app. replace (16 - length (body b))%nat with 0%nat.
           2:{ pose proof (store_top_ge _ HE). unfold len in Blen. lia. }
           cbn [firstn]. rewrite app_nil_r. exact Bhdr.
        -- change (tiles_inv ver ((top_addr E + sz, s) :: E) (body (b_write b cs))). rewrite body_write. exact Ht'.
      * cbn [b_reg]. apply Hre. destruct n; reflexivity.
    + do 3 (split; [reflexivity|]). split; [right; exists s; split; auto; destruct n; reflexivity|].
      rewrite Hlog, Hc0. cbn [snd strip map fst app b_write b_count]. f_equal. f_equal; [rewrite chunks_len_concat; fold sz; lia|destruct n; reflexivity].
  - (* Rejected: the node is written, the registry is untouched *)
    pose proof (top_addr_bound _ HE) as Htb.
    assert (Hbn : bnode_ok (b_last_addr b) (top_addr E + 1) n).
    { apply bnode_ok_of; auto. unfold NODE_MAX, U64 in *. lia. }
    destruct (Htotal ver (b_last_addr b) (top_addr E + 1) n) as (cs & Hcs); try lia; auto.
    assert (Hcs' : compile_node (b_version b) (b_last_addr b) (b_count b) n = Ok cs) by (rewrite Bver, Bcnt; exact Hcs).
    rewrite Hcs' in Hc.
    destruct (tiles_extend Hcodec ver E (body b) (b_last_addr b) n cs Hver HE) as (Hpos & HE' & Ht'); auto; try lia.
    set (sz := len (concat cs)) in *.
    set (s := mkSnode (n_final n) (n_fout n) (n_trans n) sz) in *.
    inversion Hc; subst b' r; clear Hc.
    exists ((top_addr E + sz, s) :: E), (top_addr E + sz).
    cbn [b_write b_count b_out b_stack b_last b_len b_reg b_last_addr b_version b_stats].
    rewrite chunks_len_concat. fold sz.
    replace (b_count b + sz - 1) with (top_addr E + sz) by lia.
    split; [reflexivity|]. split.
    + split; [exact HE'|]. split.
      * constructor; cbn [b_version b_count b_last_addr top_addr]; auto; try lia.
        -- change (len (body (b_write b cs)) = b_count b + sz). rewrite body_write.
           rewrite len_app. fold sz. lia.
        -- change (firstn 16 (body (b_write b cs)) = u64_le ver ++ u64_le ty). rewrite body_write.
           rewrite firstn_app. replace (16 - length (body b))%nat with 0%nat.
           2:{ pose proof (store_top_ge _ HE). unfold len in Blen. lia. }
           cbn [firstn]. rewrite app_nil_r. exact Bhdr.
        -- change (tiles_inv ver ((top_addr E + sz, s) :: E) (body (b_write b cs))). rewrite body_write. exact Ht'.
      * cbn [b_reg]. subst reg0. apply reg_ok_cons. exact HR.
    + do 3 (split; [reflexivity|]). split; [right; exists s; split; auto; destruct n; reflexivity|].
      rewrite Hlog, Hc0. cbn [snd strip map fst app b_write b_count]. f_equal. f_equal; [rewrite chunks_len_concat; fold sz; lia|destruct n; reflexivity].
Qed.
End Compile.

(* everything compile writes is a byte *)
Lemma Forall_concat {A} (P : A -> Prop) (ls : list (list A)) : Forall (Forall P) ls -> Forall P (concat ls).
Proof. induction 1; cbn [concat]; [constructor|]. apply Forall_app. auto. Qed.

Lemma compile_bbytes ver ty E b n b' r :
  minv ver ty E b -> node_ok E n ->
  NODE_MAX * (len E + 1) + 100 < U64 ->
  compile b n = (b', r) -> bbytes b -> bbytes b'.
Proof.
  intros (HE & HB & HR) Hn Hsize Hc Hbb. unfold compile in Hc.
  destruct (n_final n && (match n_trans n with [] => true | _ => false end) && (n_fout n =? 0)) eqn:Hs.
  { inversion Hc; subst. exact Hbb. }
  assert (Hns : ~ sentinel n) by (intro X; apply sentinel_test in X; congruence).
  destruct (reg_entry (b_reg b) n) as [reg0 e] eqn:He.
  destruct HB as [Bver Bcnt Blen Bhdr Btiles Bla].
  pose proof (top_addr_bound _ HE) as Htb.
  assert (Hbn : bnode_ok (b_last_addr b) (b_count b) n).
  { rewrite Bcnt. apply bnode_ok_of; auto. unfold NODE_MAX, U64 in *. lia. }
  assert (Hw : forall cs, compile_node (b_version b) (b_last_addr b) (b_count b) n = Ok cs ->
            Forall (fun x => x < 256) (concat (rev (rev cs ++ b_out b)))).
  { intros cs Hcs. rewrite rev_app_distr, rev_involutive, concat_app. apply Forall_app. split; [exact Hbb|].
    apply Forall_concat. eapply compile_node_bytes; eauto. }
  destruct (compile_node (b_version b) (b_last_addr b) (b_count b) n) as [cs| |] eqn:Hcs;
    destruct e as [a|idx|]; inversion Hc; subst; try exact Hbb; apply (Hw cs eq_refl).
Qed.
