(* BuilderSpecLemmas.v — pure facts about the call specification of Fst.v (spec_call,
   spec_calls, spec_content): the accumulator view, and what sorted maps / weakly sorted sets /
   accepted call sequences produce. *)
Require Import FstV.Base FstV.Pack FstV.Node FstV.Builder FstV.Fst FstV.CodecSpec FstV.proofs.BuilderInv.
Require Import Lia ZifyN ZifyBool ZifyNat.

(* ---------- order facts ---------- *)
Lemma key_ltb_lt a b : key_ltb a b = true <-> lex_cmp a b = Lt.
Proof. unfold key_ltb. destruct (lex_cmp a b); split; congruence. Qed.

Lemma key_ltb_flip a b : key_ltb a b = true -> key_eqb b a = false /\ key_ltb b a = false.
Proof.
  intros H. apply key_ltb_lt in H. unfold key_eqb, key_ltb.
  rewrite (lex_cmp_antisym a b), H. cbn. auto.
Qed.

Lemma key_leb_flip a b : key_leb a b = true -> key_ltb b a = false.
Proof.
  unfold key_leb, key_ltb. rewrite (lex_cmp_antisym a b).
  destruct (lex_cmp a b); cbn; congruence.
Qed.

Lemma key_eqb_sym a b : key_eqb a b = key_eqb b a.
Proof. unfold key_eqb. rewrite (lex_cmp_antisym b a). destruct (lex_cmp b a); reflexivity. Qed.

(* neither equal nor smaller: strictly greater *)
Lemma key_gt_of a b : key_eqb a b = false -> key_ltb a b = false -> key_ltb b a = true.
Proof.
  unfold key_eqb, key_ltb. rewrite (lex_cmp_antisym a b).
  destruct (lex_cmp a b); cbn; congruence.
Qed.

(* ---------- the accumulator ---------- *)
Lemma spec_content_acc ops : forall last acc, spec_content last ops acc = rev acc ++ spec_content last ops [].
Proof.
  induction ops as [|o r IH]; intros last acc; cbn [spec_content].
  - cbn [rev]. now rewrite app_nil_r.
  - destruct (spec_call last o) as [l' x]. destruct x as [u| |]; try apply IH.
    match goal with |- context [if ?c then _ else _] => destruct c end; [apply IH|].
    rewrite IH. rewrite (IH l' [_]). cbn [rev app]. now rewrite <- app_assoc.
Qed.

(* the accumulator view used by the builder invariant: acc is newest-first *)
Definition step_acc (last : option key) (acc : kmap) (o : op) : kmap :=
  if (match last with Some l => key_eqb (op_key o) l | None => false end) then acc else (op_key o, op_val o) :: acc.

Lemma spec_call_ok last o l' : spec_call last o = (l', Ok tt) ->
  l' = Some (op_key o) /\
  match last with Some l => key_ltb (op_key o) l = false | None => True end.
Proof.
  unfold spec_call. destruct o as [k v|k]; cbn [op_key]; destruct last as [l|]; intros H;
    try (inversion H; auto; fail).
  - destruct (true && key_eqb k l); [discriminate|].
    destruct (key_ltb k l) eqn:E; [discriminate|]. inversion H; auto.
  - cbn [andb] in H.
    destruct (key_ltb k l) eqn:E; [discriminate|]. inversion H; auto.
Qed.

Lemma spec_content_step last o r acc l' : spec_call last o = (l', Ok tt) ->
  spec_content last (o :: r) acc = spec_content l' r (step_acc last acc o) /\ l' = Some (op_key o).
Proof.
  intros H. split; [|apply (spec_call_ok _ _ _ H)].
  cbn [spec_content]. rewrite H. unfold step_acc.
  destruct o as [k v|k]; reflexivity.
Qed.

(* the same without accumulator *)
Lemma spec_content_cons last o r l' : spec_call last o = (l', Ok tt) ->
  spec_content last (o :: r) [] = rev (step_acc last [] o) ++ spec_content (Some (op_key o)) r [].
Proof.
  intros H. destruct (spec_content_step last o r [] l' H) as [E ->].
  rewrite E. apply spec_content_acc.
Qed.

(* ---------- maps ---------- *)
Definition ins_of (kvs : kmap) : list op := map (fun '(k, v) => OpInsert k v) kvs.

Lemma map_gen kvs : forall l v, kmap_ok ((l, v) :: kvs) = true ->
  Forall (fun r => r = Ok tt) (spec_calls (Some l) (ins_of kvs)) /\
  spec_content (Some l) (ins_of kvs) [] = kvs.
Proof.
  induction kvs as [|[k w] kvs IH]; intros l v H.
  - split; [constructor|reflexivity].
  - unfold kmap_ok in *. cbn [keys_of map fst sorted_strict] in H. cbn [keys_of map fst] in IH.
    apply andb_true_iff in H. destruct H as [Hlk Hs].
    destruct (key_ltb_flip _ _ Hlk) as [He Hl].
    assert (spec_call (Some l) (OpInsert k w) = (Some k, Ok tt)) as Hc.
    { unfold spec_call. rewrite He, Hl. reflexivity. }
    destruct (IH k w Hs) as [IH1 IH2].
    unfold ins_of in *. cbn [map]. split.
    + cbn [spec_calls]. rewrite Hc. constructor; auto.
    + rewrite (spec_content_cons _ _ _ _ Hc). cbn [op_key]. rewrite IH2.
      unfold step_acc. cbn [op_key op_val]. rewrite He. reflexivity.
Qed.

Lemma map_none kvs : kmap_ok kvs = true ->
  calls_ok (ins_of kvs) /\ spec_content None (ins_of kvs) [] = kvs.
Proof.
  destruct kvs as [|[k w] kvs]; intros H.
  - split; [constructor|reflexivity].
  - destruct (map_gen kvs k w H) as [H1 H2].
    assert (spec_call None (OpInsert k w) = (Some k, Ok tt)) as Hc by reflexivity.
    unfold calls_ok, ins_of in *. cbn [map]. split.
    + cbn [spec_calls]. rewrite Hc. constructor; auto.
    + rewrite (spec_content_cons _ _ _ _ Hc). cbn [op_key]. rewrite H2. reflexivity.
Qed.

Lemma calls_ok_map kvs : kmap_ok kvs = true -> calls_ok (map (fun '(k, v) => OpInsert k v) kvs).
Proof. intros H. apply (map_none kvs H). Qed.

Lemma spec_content_map kvs : kmap_ok kvs = true ->
  spec_content None (map (fun '(k, v) => OpInsert k v) kvs) [] = kvs.
Proof. intros H. apply (map_none kvs H). Qed.

(* ---------- sets ---------- *)
Lemma set_gen ks : forall l, sorted_weak (l :: ks) = true ->
  Forall (fun r => r = Ok tt) (spec_calls (Some l) (map OpAdd ks)) /\
  (l, 0) :: spec_content (Some l) (map OpAdd ks) [] = map (fun k => (k, 0)) (dedup (l :: ks)).
Proof.
  induction ks as [|k ks IH]; intros l H.
  - split; [constructor|reflexivity].
  - cbn [sorted_weak] in H. apply andb_true_iff in H. destruct H as [Hlk Hs].
    pose proof (key_leb_flip _ _ Hlk) as Hl.
    assert (spec_call (Some l) (OpAdd k) = (Some k, Ok tt)) as Hc.
    { unfold spec_call. cbn [andb]. rewrite Hl. reflexivity. }
    destruct (IH k Hs) as [IH1 IH2].
    cbn [map]. split.
    + cbn [spec_calls]. rewrite Hc. constructor; auto.
    + rewrite (spec_content_cons _ _ _ _ Hc). cbn [op_key].
      unfold step_acc. cbn [op_key op_val].
      change (dedup (l :: k :: ks)) with (if key_eqb l k then dedup (k :: ks) else l :: dedup (k :: ks)).
      rewrite (key_eqb_sym l k).
      destruct (key_eqb k l) eqn:E.
      * apply key_eqb_eq in E. subst l. cbn [rev app]. exact IH2.
      * cbn [rev app map]. rewrite <- IH2. reflexivity.
Qed.

Lemma set_none ks : sorted_weak ks = true ->
  calls_ok (map OpAdd ks) /\ spec_content None (map OpAdd ks) [] = map (fun k => (k, 0)) (dedup ks).
Proof.
  destruct ks as [|k ks]; intros H.
  - split; [constructor|reflexivity].
  - destruct (set_gen ks k H) as [H1 H2].
    assert (spec_call None (OpAdd k) = (Some k, Ok tt)) as Hc by reflexivity.
    unfold calls_ok. cbn [map]. split.
    + cbn [spec_calls]. rewrite Hc. constructor; auto.
    + rewrite (spec_content_cons _ _ _ _ Hc). cbn [op_key]. exact H2.
Qed.

Lemma calls_ok_set ks : sorted_weak ks = true -> calls_ok (map OpAdd ks).
Proof. intros H. apply (set_none ks H). Qed.

Lemma spec_content_set ks : sorted_weak ks = true ->
  spec_content None (map OpAdd ks) [] = map (fun k => (k, 0)) (dedup ks).
Proof. intros H. apply (set_none ks H). Qed.

(* ---------- general op lists ---------- *)
(* the content after [last] is strictly sorted and starts above [last] *)
Definition above (last : option key) (c : kmap) : Prop :=
  match last, c with Some l, (k, _) :: _ => key_ltb l k = true | _, _ => True end.

Lemma sorted_gen ops : forall last, Forall (fun r => r = Ok tt) (spec_calls last ops) ->
  kmap_ok (spec_content last ops []) = true /\ above last (spec_content last ops []).
Proof.
  induction ops as [|o r IH]; intros last H.
  - split; [reflexivity|]. destruct last; exact I.
  - cbn [spec_calls] in H. destruct (spec_call last o) as [l' x] eqn:Hc.
    inversion H as [|? ? Hx Hr]; subst.
    destruct (spec_call_ok _ _ _ Hc) as [-> Hlt].
    rewrite (spec_content_cons _ _ _ _ Hc).
    destruct (IH _ Hr) as [IHs IHa].
    unfold step_acc. destruct last as [l|].
    + destruct (key_eqb (op_key o) l) eqn:E.
      * apply key_eqb_eq in E. subst l. cbn [rev app]. auto.
      * cbn [rev app]. split.
        -- unfold kmap_ok in *. cbn [keys_of map fst sorted_strict].
           unfold above in IHa. destruct (spec_content (Some (op_key o)) r []) as [|[k2 v2] c]; [reflexivity|].
           cbn [keys_of map fst] in *. rewrite IHa, IHs. reflexivity.
        -- unfold above. apply key_gt_of; assumption.
    + cbn [rev app]. split; [|exact I].
      unfold kmap_ok in *. cbn [keys_of map fst sorted_strict].
      unfold above in IHa. destruct (spec_content (Some (op_key o)) r []) as [|[k2 v2] c]; [reflexivity|].
      cbn [keys_of map fst] in *. rewrite IHa, IHs. reflexivity.
Qed.

Lemma spec_content_sorted ops : calls_ok ops -> kmap_ok (spec_content None ops []) = true.
Proof. intros H. apply (sorted_gen ops None H). Qed.

Lemma vals_gen (P : kv -> Prop) ops : Forall (fun o => P (op_key o, op_val o)) ops ->
  forall last acc, Forall P acc -> Forall P (spec_content last ops acc).
Proof.
  induction 1 as [|o r Ho Hr IH]; intros last acc Ha; cbn [spec_content].
  - apply Forall_forall. intros x Hx. apply in_rev in Hx. revert x Hx. now apply Forall_forall.
  - destruct (spec_call last o) as [l' x]. destruct x as [u| |]; try (apply IH; assumption).
    apply IH. match goal with |- context [if ?c then _ else _] => destruct c end; [assumption|].
    constructor; [|assumption]. destruct o; exact Ho.
Qed.

Lemma spec_content_vals ops : Forall op_ok ops -> Forall (fun kv => snd kv < U64) (spec_content None ops []).
Proof.
  intros H. apply vals_gen; [|constructor].
  eapply Forall_impl; [|exact H]. intros o [_ Hv]. exact Hv.
Qed.

Lemma spec_content_vals_b ops : Forall op_ok ops ->
  forallb (fun kv => snd kv <? 18446744073709551616) (spec_content None ops []) = true.
Proof.
  intros H. apply forallb_forall. intros x Hx.
  pose proof (spec_content_vals ops H) as F. rewrite Forall_forall in F.
  specialize (F x Hx). unfold U64 in F. apply N.ltb_lt. exact F.
Qed.

Lemma key_bytes_app a b : key_bytes (a ++ b) = key_bytes a + key_bytes b.
Proof.
  induction a as [|k a IH].
  - change (key_bytes ([] ++ b)) with (key_bytes b). change (key_bytes []) with 0. lia.
  - change (key_bytes ((k :: a) ++ b)) with (len k + key_bytes (a ++ b)).
    change (key_bytes (k :: a)) with (len k + key_bytes a). lia.
Qed.

Print Assumptions spec_content_sorted.
Print Assumptions spec_content_set.
Print Assumptions spec_content_map.
