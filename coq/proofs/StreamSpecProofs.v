(* StreamSpecProofs.v — what spec_range / spec_search list (membership, order, states), the
   reading of in_bounds as two comparisons, last-setting-wins at the level of range/search,
   and a small concrete graph used by the non-vacuity examples of C03 / C04. *)
Require Import FstV.Base FstV.Loop FstV.Node FstV.Automaton FstV.Reader FstV.GraphSem FstV.Fst.
Require Import FstV.proofs.StreamGraphLemmas FstV.proofs.StreamSorted FstV.proofs.StreamProofs.
From Coq Require Import ZifyN ZifyBool ZifyNat Sorted.

(* ---------- in_bounds as two comparisons ---------- *)
Definition upper (mx : bound) (k : key) : bool :=
  match mx with Included v => key_leb k v | Excluded v => key_ltb k v | Unbounded => true end.

Lemma key_leb_negb_ltb a b : key_leb a b = negb (key_ltb b a).
Proof. unfold key_leb, key_ltb. rewrite (lex_cmp_antisym a b). destruct (lex_cmp a b); reflexivity. Qed.

Theorem in_bounds_meaning mn mx k : in_bounds mn mx k = lower mn k && upper mx k.
Proof.
  unfold in_bounds. fold (lower mn k). f_equal. destruct mx as [v|v|]; cbn [exceeded_by upper].
  - now rewrite key_leb_negb_ltb.
  - now rewrite key_leb_negb_ltb, negb_involutive.
  - reflexivity.
Qed.

(* ---------- spec_range ---------- *)
Theorem spec_range_in m cs k v :
  In (k, v) (spec_range m cs) <-> In (k, v) m /\ in_bounds (fst (bounds_of cs)) (snd (bounds_of cs)) k = true.
Proof. unfold spec_range. destruct (bounds_of cs) as [mn mx]. cbn [fst snd]. apply filter_In. Qed.

Lemma SS_filter (p : kv -> bool) m : StronglySorted klt (keys_of m) -> StronglySorted klt (keys_of (filter p m)).
Proof.
  induction m as [|x m IH]; intros H; [exact H|]. cbn [keys_of map] in H. inversion H as [|? ? HS HF]; subst.
  cbn [filter]. destruct (p x); [|apply IH; exact HS].
  cbn [keys_of map]. constructor; [apply IH; exact HS|].
  rewrite Forall_forall in *. intros y Hy. apply HF. unfold keys_of in *.
  apply in_map_iff in Hy. destruct Hy as (z & <- & Hz). apply filter_In in Hz. apply in_map. tauto.
Qed.

Theorem spec_range_sorted g a cs : wf_graph g -> sorted_strict (keys_of (spec_range (L g a) cs)) = true.
Proof.
  intros wf. apply SS_sorted_strict. unfold spec_range. destruct (bounds_of cs) as [mn mx].
  apply SS_filter. now apply L_SS.
Qed.

(* ---------- spec_search ---------- *)
Theorem spec_search_proj m A cs :
  map proj_kv (spec_search m A cs) =
  filter (fun x => in_bounds (fst (bounds_of cs)) (snd (bounds_of cs)) (fst x) && accepts A (fst x)) m.
Proof.
  unfold spec_search, accepts. destruct (bounds_of cs) as [mn mx]. cbn [fst snd].
  induction m as [|[k v] m IH]; [reflexivity|]. cbn [flat_map filter fst snd].
  destruct (in_bounds mn mx k && is_match A (run A (start A) k)); cbn [app map];
    [apply (f_equal2 cons); [reflexivity|exact IH]|exact IH].
Qed.

Theorem spec_search_in m A cs k v s :
  In (k, v, s) (spec_search m A cs) <->
  In (k, v) m /\ in_bounds (fst (bounds_of cs)) (snd (bounds_of cs)) k = true /\ accepts A k = true /\
  s = run A (start A) k.
Proof.
  unfold spec_search, accepts. destruct (bounds_of cs) as [mn mx]. cbn [fst snd]. rewrite in_flat_map. split.
  - intros ([k' v'] & Hin & H). cbn [fst snd] in H.
    destruct (in_bounds mn mx k' && is_match A (run A (start A) k')) eqn:E; [|destruct H].
    destruct H as [H|[]]. inversion H; subst. apply andb_true_iff in E. tauto.
  - intros (Hin & Hb & Hm & ->). exists (k, v). split; [exact Hin|]. cbn [fst snd]. rewrite Hb, Hm. now left.
Qed.

Theorem spec_search_sorted g a A cs : wf_graph g ->
  sorted_strict (keys_of (map proj_kv (spec_search (L g a) A cs))) = true.
Proof. intros wf. rewrite spec_search_proj. apply SS_sorted_strict, SS_filter. now apply L_SS. Qed.

(* ---------- the last setting of a bound wins, at the level of the streams ---------- *)
Theorem search_last_wins node_at root A cs1 c cs2 c' cs3 : is_lower c = is_lower c' ->
  search_with_state node_at root A (cs1 ++ c :: cs2 ++ c' :: cs3) =
  search_with_state node_at root A (cs1 ++ cs2 ++ c' :: cs3).
Proof. intros H. unfold search_with_state. now rewrite (bounds_last_wins cs1 c cs2 c' cs3 H). Qed.

Theorem range_last_wins node_at root cs1 c cs2 c' cs3 : is_lower c = is_lower c' ->
  range node_at root (cs1 ++ c :: cs2 ++ c' :: cs3) = range node_at root (cs1 ++ cs2 ++ c' :: cs3).
Proof. intros H. unfold range, search. now rewrite (search_last_wins _ _ _ cs1 c cs2 c' cs3 H). Qed.

(* ---------- a concrete graph: the map {"a" -> 5, "ab" -> 7, "b" -> 9} ---------- *)
(* node 2 (root): a/5 -> 1, b/9 -> 0;   node 1 (final): b/2 -> 0;   node 0: the shared empty final node *)
Definition ex_graph : graph := fun a =>
  match a with
  | 1 => Some (mkG true 0 [mkTrans 98 2 0])
  | 2 => Some (mkG false 0 [mkTrans 97 5 1; mkTrans 98 9 0])
  | _ => None
  end.
Definition ex_node_at : N -> res nview := node_at_of ex_graph.
Definition ex_root : N := 2.

Lemma ex_wf : wf_graph ex_graph.
Proof.
  intros a n H. unfold gget in H.
  destruct a as [|[p|[p|p|]|]]; cbn in H; try discriminate; inversion H; subst; clear H;
    (split; [reflexivity|]); intros t Ht; cbn in Ht;
    repeat (destruct Ht as [<-|Ht]; [cbn; repeat split; try lia; eexists; reflexivity|]); destruct Ht.
Qed.
Lemma ex_views : views ex_graph ex_node_at.
Proof. apply views_node_at_of. Qed.
Lemma ex_root_ok : exists r, gget ex_graph ex_root = Some r.
Proof. eexists. reflexivity. Qed.
Lemma ex_fuel : fuel_ok ex_graph ex_root.
Proof. unfold fuel_ok. vm_compute. intros H. discriminate H. Qed.
Lemma ex_L : L ex_graph ex_root = [([97], 5); ([97; 98], 7); ([98], 9)].
Proof. vm_compute. reflexivity. Qed.
