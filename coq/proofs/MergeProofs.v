(* MergeProofs.v — proofs about the merge pipeline model (Merge.v). *)
Require Import FstV.Base FstV.Merge.
From Coq Require Import Permutation Lia.

(* ================= order facts ================= *)
Definition kle (a b : key) : Prop := lex_cmp a b <> Gt.

Lemma lex_gt_lt a b : lex_cmp a b = Gt <-> lex_cmp b a = Lt.
Proof. rewrite (lex_cmp_antisym b a). destruct (lex_cmp b a); cbn; split; congruence. Qed.

Lemma lex_lt_irrefl a : lex_cmp a a <> Lt.
Proof. rewrite lex_cmp_refl. discriminate. Qed.

Lemma kle_cases a b : kle a b <-> (lex_cmp a b = Lt \/ a = b).
Proof.
  unfold kle. rewrite <- lex_cmp_eq. destruct (lex_cmp a b); split; intros; try congruence; auto.
  destruct H; discriminate.
Qed.

Lemma lt_le_trans a b c : lex_cmp a b = Lt -> kle b c -> lex_cmp a c = Lt.
Proof. intros H1 H2. apply kle_cases in H2 as [H2|H2]; [eapply lex_cmp_trans_lt; eauto|now subst]. Qed.

Lemma kle_trans a b c : kle a b -> kle b c -> kle a c.
Proof.
  intros H1 H2. apply kle_cases in H1 as [H1|H1].
  - apply kle_cases. left. eapply lt_le_trans; eauto.
  - now subst.
Qed.

Lemma kle_neq_lt a b : kle a b -> a <> b -> lex_cmp a b = Lt.
Proof. intros H N. apply kle_cases in H as [H|H]; [assumption|contradiction]. Qed.

Lemma key_eqb_false a b : key_eqb a b = false <-> a <> b.
Proof. rewrite <- key_eqb_eq. destruct (key_eqb a b); split; congruence. Qed.

Lemma key_eqb_sym a b : key_eqb a b = key_eqb b a.
Proof.
  destruct (key_eqb a b) eqn:E; symmetry.
  - apply key_eqb_eq in E. subst. apply key_eqb_refl.
  - apply key_eqb_false. apply key_eqb_false in E. congruence.
Qed.

(* strictly ascending, all-pairs form *)
Fixpoint sstrict (l : list key) : Prop :=
  match l with
  | [] => True
  | a :: r => Forall (fun b => lex_cmp a b = Lt) r /\ sstrict r
  end.

Lemma sstrict_sorted_strict l : sstrict l -> sorted_strict l = true.
Proof.
  induction l as [|a r IH]; [reflexivity|]. intros [H1 H2]. cbn [sorted_strict].
  destruct r as [|b r']; [reflexivity|]. inversion H1; subst. unfold key_ltb. rewrite H3. cbn. now apply IH.
Qed.

Lemma sstrict_NoDup l : sstrict l -> NoDup l.
Proof.
  induction l as [|a r IH]; intros H; constructor; destruct H as [H1 H2]; auto.
  intros Hin. rewrite Forall_forall in H1. apply H1 in Hin. now apply lex_lt_irrefl in Hin.
Qed.

Lemma sstrict_ext l l' : sstrict l -> sstrict l' -> (forall x, In x l <-> In x l') -> l = l'.
Proof.
  revert l'. induction l as [|a r IH]; intros [|b r'] H H' E.
  - reflexivity.
  - exfalso. apply (E b). now left.
  - exfalso. apply (E a). now left.
  - destruct H as [H1 H2], H' as [H1' H2']. rewrite Forall_forall in H1, H1'.
    assert (a = b) as ->.
    { destruct (proj1 (E a) (or_introl eq_refl)) as [Hb|Hb]; [congruence|].
      destruct (proj2 (E b) (or_introl eq_refl)) as [Ha|Ha]; [congruence|].
      apply H1 in Ha. apply H1' in Hb. exfalso. apply (lex_lt_irrefl a). eapply lex_cmp_trans_lt; eauto. }
    f_equal. apply IH; auto. intros x; split; intros Hx.
    + destruct (proj1 (E x) (or_intror Hx)) as [Hb|Hb]; [|assumption].
      subst x. apply H1 in Hx. now apply lex_lt_irrefl in Hx.
    + destruct (proj2 (E x) (or_intror Hx)) as [Hb|Hb]; [|assumption].
      subst x. apply H1' in Hx. now apply lex_lt_irrefl in Hx.
Qed.

(* ================= key_set ================= *)
Lemma key_insert_In k l x : In x (key_insert k l) <-> x = k \/ In x l.
Proof.
  induction l as [|y r IH]; cbn [key_insert].
  - cbn. intuition.
  - destruct (lex_cmp k y) eqn:E.
    + apply lex_cmp_eq in E. subst. cbn. intuition.
    + cbn. intuition.
    + cbn [In]. rewrite IH. intuition.
Qed.

Lemma key_set_In l x : In x (key_set l) <-> In x l.
Proof.
  induction l as [|y r IH]; cbn [key_set fold_right]; [reflexivity|].
  fold (key_set r). rewrite key_insert_In, IH. cbn. intuition.
Qed.

Lemma key_insert_sstrict k l : sstrict l -> sstrict (key_insert k l).
Proof.
  induction l as [|y r IH]; intros H; cbn [key_insert].
  - cbn. auto.
  - destruct H as [H1 H2]. destruct (lex_cmp k y) eqn:E.
    + cbn. auto.
    + cbn [sstrict]. split; [|cbn; auto]. constructor; [assumption|].
      rewrite Forall_forall in *. intros z Hz. eapply lex_cmp_trans_lt; eauto.
    + cbn [sstrict]. split; [|auto]. rewrite Forall_forall in *. intros z Hz.
      apply key_insert_In in Hz as [->|Hz]; [now apply lex_gt_lt|auto].
Qed.

Lemma key_set_sstrict l : sstrict (key_set l).
Proof. induction l; cbn [key_set fold_right]; [exact I|]. now apply key_insert_sstrict. Qed.

Lemma key_set_ext l l' : (forall x, In x l <-> In x l') -> key_set l = key_set l'.
Proof.
  intros E. apply sstrict_ext; try apply key_set_sstrict.
  intros x. rewrite !key_set_In. apply E.
Qed.

Lemma key_set_id l : sstrict l -> key_set l = l.
Proof. intros H. apply sstrict_ext; auto using key_set_sstrict. apply key_set_In. Qed.

Lemma key_set_cons_lt k l : Forall (fun b => lex_cmp k b = Lt) l -> key_set (k :: l) = k :: key_set l.
Proof.
  intros H. cbn [key_set fold_right]. fold (key_set l).
  assert (H' : Forall (fun b => lex_cmp k b = Lt) (key_set l)).
  { rewrite Forall_forall in *. intros x Hx. apply H. now apply key_set_In. }
  destruct (key_set l) as [|y r]; [reflexivity|]. cbn [key_insert]. inversion H'; subst. now rewrite H2.
Qed.

(* ================= folding with an associative-commutative merger ================= *)
Section AC.
  Variable f : N -> N -> N.
  Hypothesis Hac : assoc_comm f.

  Lemma fl_shift l a b : fold_left f l (f a b) = f a (fold_left f l b).
  Proof.
    destruct Hac as [Ha _]. revert a b. induction l as [|x l IH]; intros a b; cbn [fold_left]; [reflexivity|].
    now rewrite Ha, IH.
  Qed.

  Lemma fold1_cons a l : l <> [] -> fold1 f (a :: l) = f a (fold1 f l).
  Proof. destruct l as [|x r]; [congruence|]. intros _. cbn [fold1]. cbn [fold_left]. apply fl_shift. Qed.

  (* order independence *)
  Lemma fold1_perm l l' : Permutation l l' -> fold1 f l = fold1 f l'.
  Proof.
    destruct Hac as [_ Hc].
    induction 1 as [|x l l' HP IH|x y l|l l' l'' H1 IH1 H2 IH2].
    - reflexivity.
    - destruct l as [|z r].
      + apply Permutation_nil in HP. now subst.
      + assert (l' <> []) by (intros ->; apply Permutation_sym, Permutation_nil in HP; discriminate).
        rewrite (fold1_cons x (z :: r)) by discriminate. rewrite (fold1_cons x l') by assumption. now rewrite IH.
    - cbn [fold1 fold_left]. now rewrite (Hc y x).
    - congruence.
  Qed.

  (* grouping independence *)
  Lemma fold1_app l1 l2 : l1 <> [] -> l2 <> [] -> fold1 f (l1 ++ l2) = f (fold1 f l1) (fold1 f l2).
  Proof.
    destruct Hac as [Ha _]. induction l1 as [|a r IH]; [congruence|]. intros _ H2.
    destruct r as [|b r'].
    - cbn [app]. now rewrite fold1_cons.
    - rewrite <- app_comm_cons. rewrite fold1_cons by (destruct r'; discriminate).
      rewrite IH by (auto; discriminate). rewrite (fold1_cons a (b :: r')) by discriminate. now rewrite Ha.
  Qed.

  Lemma fold1_concat groups : groups <> [] -> Forall (fun g => g <> []) groups ->
    fold1 f (map (fold1 f) groups) = fold1 f (concat groups).
  Proof.
    induction groups as [|g gs IH]; [congruence|]. intros _ HF. inversion HF as [|? ? Hg HF']; subst.
    destruct gs as [|g' gs'].
    - cbn. now rewrite app_nil_r.
    - cbn [map]. rewrite fold1_cons by discriminate. cbn [map] in IH. rewrite IH by (auto; discriminate).
      change (concat (g :: g' :: gs')) with (g ++ concat (g' :: gs')).
      rewrite (fold1_app g (concat (g' :: gs'))); auto.
      inversion HF' as [|? ? Hg' _]; subst. cbn [concat]. destruct g'; [congruence|discriminate].
  Qed.

  (* the generic statement: a multiset of values, cut into non-empty groups in any way, the groups
     folded separately and the partial results folded in any order, gives the fold of the whole *)
  Theorem fold1_regroup (vs : list N) (groups : list (list N)) (order : list N) :
    groups <> [] -> Forall (fun g => g <> []) groups ->
    Permutation (concat groups) vs -> Permutation (map (fold1 f) groups) order ->
    fold1 f order = fold1 f vs.
  Proof.
    intros Hne HF Hvs Hord. rewrite <- (fold1_perm _ _ Hord), fold1_concat by assumption.
    now apply fold1_perm.
  Qed.
End AC.

(* the three mergers of `fst map` *)
Lemma sum_ac : assoc_comm (fun x y => (x + y) mod TWO64).
Proof.
  split; intros.
  - rewrite N.add_mod_idemp_l, N.add_mod_idemp_r by (unfold TWO64; lia). f_equal. lia.
  - f_equal. lia.
Qed.
Lemma max_ac : assoc_comm N.max.
Proof. split; intros; lia. Qed.
Lemma min_ac : assoc_comm N.min.
Proof. split; intros; lia. Qed.

Fixpoint nsum (l : list N) : N := match l with [] => 0 | x :: r => x + nsum r end.
Lemma fold_sum_mod r a :
  fold_left (fun x y => (x + y) mod TWO64) r a mod TWO64 = (a + nsum r) mod TWO64.
Proof.
  revert a. induction r as [|x r IH]; intros a; cbn [fold_left nsum].
  - f_equal. lia.
  - rewrite IH. rewrite N.add_mod_idemp_l by (unfold TWO64; lia). f_equal. lia.
Qed.
Lemma fold_sum_lt r a : a < TWO64 -> fold_left (fun x y => (x + y) mod TWO64) r a < TWO64.
Proof.
  revert a. induction r as [|x r IH]; intros a Ha; cbn [fold_left]; [assumption|].
  apply IH. apply N.mod_lt. unfold TWO64; lia.
Qed.
Lemma sum_exact vs : Forall (fun v => v < TWO64) vs -> nsum vs < TWO64 ->
  fold1 (fun x y => (x + y) mod TWO64) vs = nsum vs.
Proof.
  destruct vs as [|v r]; [reflexivity|]. intros HF Hs. cbn [fold1].
  inversion HF; subst.
  rewrite <- (N.mod_small (fold_left _ r v) TWO64) by now apply fold_sum_lt.
  rewrite fold_sum_mod. cbn [nsum] in *. now apply N.mod_small.
Qed.

(* ================= the specification ================= *)
Lemma keys_of_spec mg l : keys_of (spec_merge mg l) = key_set (keys_of l).
Proof. unfold spec_merge, keys_of. rewrite map_map. cbn. apply map_id. Qed.

Lemma spec_sstrict mg l : sstrict (keys_of (spec_merge mg l)).
Proof. rewrite keys_of_spec. apply key_set_sstrict. Qed.

Lemma lookup_map_In (g : key -> N) ks k : In k ks -> lookup (map (fun k => (k, g k)) ks) k = Some (g k).
Proof.
  induction ks as [|x r IH]; [contradiction|]. intros Hin. cbn [map lookup].
  destruct (key_eqb k x) eqn:E.
  - apply key_eqb_eq in E. now subst.
  - apply key_eqb_false in E. destruct Hin; [congruence|auto].
Qed.
Lemma lookup_map_notIn (g : key -> N) ks k : ~ In k ks -> lookup (map (fun k => (k, g k)) ks) k = None.
Proof.
  induction ks as [|x r IH]; [reflexivity|]. intros Hin. cbn [map lookup].
  destruct (key_eqb k x) eqn:E.
  - apply key_eqb_eq in E. subst. exfalso. apply Hin. now left.
  - apply IH. intros H. apply Hin. now right.
Qed.

Lemma lookup_spec_In mg l k : In k (keys_of l) ->
  lookup (spec_merge mg l) k = Some (merge_outputs mg (values_in k l)).
Proof. intros H. unfold spec_merge. apply (lookup_map_In (fun k => merge_outputs mg (values_in k l))). now apply key_set_In. Qed.
Lemma lookup_spec_notIn mg l k : ~ In k (keys_of l) -> lookup (spec_merge mg l) k = None.
Proof. intros H. unfold spec_merge. apply (lookup_map_notIn (fun k => merge_outputs mg (values_in k l))). now rewrite key_set_In. Qed.

Lemma values_in_cons k x l :
  values_in k (x :: l) = if key_eqb (fst x) k then snd x :: values_in k l else values_in k l.
Proof. unfold values_in. cbn [filter]. destruct (key_eqb (fst x) k); reflexivity. Qed.
Lemma values_in_app k l1 l2 : values_in k (l1 ++ l2) = values_in k l1 ++ values_in k l2.
Proof. unfold values_in. now rewrite filter_app, map_app. Qed.
Lemma values_in_concat k cs : values_in k (concat cs) = concat (map (values_in k) cs).
Proof. induction cs as [|c cs IH]; [reflexivity|]. cbn [concat map]. now rewrite values_in_app, IH. Qed.
Lemma values_in_notin k l : ~ In k (keys_of l) -> values_in k l = [].
Proof.
  induction l as [|x r IH]; [reflexivity|]. intros H. rewrite values_in_cons.
  destruct (key_eqb (fst x) k) eqn:E.
  - apply key_eqb_eq in E. exfalso. apply H. left. assumption.
  - apply IH. intros H'. apply H. now right.
Qed.
Lemma values_in_nonempty k l : In k (keys_of l) -> values_in k l <> [].
Proof.
  induction l as [|x r IH]; [contradiction|]. intros H. rewrite values_in_cons.
  destruct (key_eqb (fst x) k) eqn:E; [discriminate|].
  apply key_eqb_false in E. destruct H; [contradiction|auto].
Qed.

Lemma filter_perm {A} (p : A -> bool) l l' : Permutation l l' -> Permutation (filter p l) (filter p l').
Proof.
  induction 1; cbn [filter].
  - constructor.
  - destruct (p x); auto.
  - destruct (p x), (p y); auto. constructor.
  - eapply Permutation_trans; eauto.
Qed.
Lemma values_in_perm k l l' : Permutation l l' -> Permutation (values_in k l) (values_in k l').
Proof. intros H. unfold values_in. apply Permutation_map. now apply filter_perm. Qed.

Lemma merger_ok_incl mg l l' : (forall x, In x l' -> In x l) -> merger_ok mg l -> merger_ok mg l'.
Proof.
  destruct mg as [f|]; cbn; [auto|]. intros Hi H. rewrite Forall_forall in *. auto.
Qed.
Lemma merger_ok_perm mg l l' : Permutation l l' -> merger_ok mg l -> merger_ok mg l'.
Proof. intros HP. apply merger_ok_incl. intros x Hx. eapply Permutation_in; [apply Permutation_sym|]; eauto. Qed.

(* the specification does not depend on the order of the rows *)
Lemma spec_perm mg l l' : merger_ok mg l -> Permutation l l' -> spec_merge mg l = spec_merge mg l'.
Proof.
  intros Hok HP. unfold spec_merge.
  assert (HK : key_set (keys_of l) = key_set (keys_of l')).
  { apply key_set_ext. intros x. unfold keys_of. split; apply Permutation_in; [|apply Permutation_sym]; now apply Permutation_map. }
  rewrite HK. apply map_ext. intros k. f_equal.
  destruct mg as [f|]; cbn [merge_outputs]; [|reflexivity].
  apply fold1_perm; [exact Hok|]. now apply values_in_perm.
Qed.

(* two adjacent rows with the same key can be merged into one *)
Lemma spec_head_merge mg k v v' r :
  spec_merge mg ((k, v) :: (k, v') :: r) = spec_merge mg ((k, apply_mg mg v v') :: r).
Proof.
  unfold spec_merge.
  assert (HK : key_set (keys_of ((k, v) :: (k, v') :: r)) = key_set (keys_of ((k, apply_mg mg v v') :: r))).
  { apply key_set_ext. intros x. cbn. intuition. }
  rewrite HK. apply map_ext. intros k'.
  destruct mg as [f|]; cbn [merge_outputs]; [|reflexivity].
  rewrite !values_in_cons. cbn [fst snd apply_mg]. destruct (key_eqb k k'); reflexivity.
Qed.

(* a first row whose key is below all others stands alone *)
Lemma spec_head_strict mg k v r : Forall (fun x => lex_cmp k (fst x) = Lt) r ->
  spec_merge mg ((k, v) :: r) = (k, merge_outputs mg [v]) :: spec_merge mg r.
Proof.
  intros HF. unfold spec_merge. cbn [keys_of map fst].
  assert (HF' : Forall (fun b => lex_cmp k b = Lt) (map fst r)) by (now rewrite Forall_map).
  rewrite (key_set_cons_lt k (map fst r) HF'). cbn [map]. f_equal.
  - f_equal. f_equal. rewrite values_in_cons. cbn [fst snd]. rewrite key_eqb_refl.
    rewrite values_in_notin; [reflexivity|]. intros Hin. rewrite Forall_forall in HF'.
    apply HF' in Hin. now apply lex_lt_irrefl in Hin.
  - apply map_ext_in. intros k' Hk'. f_equal. f_equal. rewrite values_in_cons. cbn [fst].
    destruct (key_eqb k k') eqn:E; [|reflexivity]. apply key_eqb_eq in E. subst k'.
    apply (proj1 (key_set_In _ _)) in Hk'. rewrite Forall_forall in HF'. apply HF' in Hk'. now apply lex_lt_irrefl in Hk'.
Qed.

(* ================= raw::Builder discipline ================= *)
Lemma builder_go_ok b last m :
  match last with None => True | Some l => Forall (fun k => lex_cmp l k = Lt) (keys_of m) end ->
  sstrict (keys_of m) -> builder_go b last m = Ok m.
Proof.
  revert last. induction m as [|[k v] r IH]; intros last HL HS; [reflexivity|].
  cbn [builder_go]. cbn [keys_of map fst sstrict] in HS. destruct HS as [H1 H2].
  assert (E : builder_go b (Some k) r = Ok r) by (apply IH; assumption).
  destruct last as [l|].
  - cbn [keys_of map fst] in HL. inversion HL; subst. rewrite H3, E. reflexivity.
  - rewrite E. reflexivity.
Qed.
Lemma builder_ok b m : sstrict (keys_of m) -> builder_go b None m = Ok m.
Proof. intros. now apply builder_go_ok. Qed.

(* ================= KvBatch ================= *)
Fixpoint ksorted (l : list kv) : Prop :=
  match l with
  | [] => True
  | a :: r => Forall (fun b => kle (fst a) (fst b)) r /\ ksorted r
  end.

Lemma kv_leb_true x y : kv_leb x y = true -> kle (fst x) (fst y).
Proof. unfold kv_leb, kle. destruct (lex_cmp (fst x) (fst y)); congruence. Qed.
Lemma kv_leb_false x y : kv_leb x y = false -> kle (fst y) (fst x).
Proof.
  unfold kv_leb, kle. rewrite (lex_cmp_antisym (fst x) (fst y)).
  destruct (lex_cmp (fst x) (fst y)); cbn; congruence.
Qed.

Lemma kv_insert_perm x l : Permutation (x :: l) (kv_insert x l).
Proof.
  induction l as [|y r IH]; cbn [kv_insert]; [auto|].
  destruct (kv_leb x y); [auto|]. eapply Permutation_trans; [apply perm_swap|]. now constructor.
Qed.
Lemma kv_sort_perm l : Permutation l (kv_sort l).
Proof.
  induction l as [|x r IH]; cbn [kv_sort fold_right]; [constructor|].
  eapply Permutation_trans; [|apply kv_insert_perm]. now constructor.
Qed.
Lemma kv_insert_sorted x l : ksorted l -> ksorted (kv_insert x l).
Proof.
  induction l as [|y r IH]; intros H; cbn [kv_insert].
  - cbn. auto.
  - destruct H as [H1 H2]. destruct (kv_leb x y) eqn:E.
    + cbn [ksorted]. split; [|cbn; auto]. apply kv_leb_true in E. constructor; [assumption|].
      rewrite Forall_forall in *. intros z Hz. eapply kle_trans; eauto.
    + cbn [ksorted]. split; [|auto]. apply kv_leb_false in E.
      eapply Permutation_Forall; [apply kv_insert_perm|]. now constructor.
Qed.
Lemma kv_sort_sorted l : ksorted (kv_sort l).
Proof. induction l; cbn [kv_sort fold_right]; [exact I|]. now apply kv_insert_sorted. Qed.

Definition zero_if_none (mg : vmerger) (l : list kv) : Prop :=
  match mg with Some _ => True | None => Forall (fun x => snd x = 0) l end.
Lemma merger_ok_zero mg l : merger_ok mg l -> zero_if_none mg l.
Proof. destruct mg; cbn; auto. Qed.

Lemma merge_outputs_single mg k v l : zero_if_none mg ((k, v) :: l) -> merge_outputs mg [v] = v.
Proof. destruct mg; cbn; [reflexivity|]. intros H. inversion H; subst. now cbn in *. Qed.

(* the loop of KvBatch::create_fst on a key-sorted vector computes the specification of that vector
   (no commutativity needed here: the fold runs left to right like the specification) *)
Lemma merge_from_spec mg l : forall cur, zero_if_none mg (cur :: l) -> ksorted (cur :: l) ->
  merge_from mg cur l = spec_merge mg (cur :: l).
Proof.
  induction l as [|[k v] r IH]; intros [k0 v0] HZ HS.
  - cbn [merge_from]. rewrite spec_head_strict by constructor. cbn.
    now rewrite (merge_outputs_single mg k0 v0 []).
  - cbn [merge_from fst snd]. destruct HS as [H1 [H2 H3]]. inversion H1 as [|? ? Hk H1']; subst. cbn [fst] in *.
    destruct (key_eqb k0 k) eqn:E.
    + apply key_eqb_eq in E. subst k. rewrite spec_head_merge. apply IH.
      * destruct mg; cbn in *; [exact I|]. inversion HZ as [|? ? Hz HZ']; subst. inversion HZ'; subst. now constructor.
      * cbn [ksorted fst]. auto.
    + apply key_eqb_false in E. rewrite IH.
      * etransitivity; [|symmetry; apply (spec_head_strict mg k0 v0 ((k, v) :: r))].
        -- now rewrite (merge_outputs_single mg k0 v0 ((k, v) :: r)).
        -- assert (L : lex_cmp k0 k = Lt) by now apply kle_neq_lt.
           constructor; [assumption|]. rewrite Forall_forall in *. intros z Hz. eapply lt_le_trans; eauto.
      * destruct mg; cbn in *; [exact I|]. now inversion HZ.
      * cbn [ksorted fst]. auto.
Qed.

Lemma zero_if_none_perm mg l l' : Permutation l l' -> zero_if_none mg l -> zero_if_none mg l'.
Proof. destruct mg; cbn; [auto|]. intros. eapply Permutation_Forall; eauto. Qed.

Theorem kv_batch_create_spec mg kvs : merger_ok mg kvs -> kv_batch_create mg kvs = Ok (spec_merge mg kvs).
Proof.
  intros Hok. unfold kv_batch_create.
  assert (HP := kv_sort_perm kvs). assert (HS := kv_sort_sorted kvs).
  rewrite (spec_perm mg kvs (kv_sort kvs) Hok HP).
  destruct (kv_sort kvs) as [|c l] eqn:E.
  - reflexivity.
  - cbn [merge_runs]. rewrite merge_from_spec; auto.
    + apply builder_ok, spec_sstrict.
    + eapply zero_if_none_perm; [exact HP|]. now apply merger_ok_zero.
Qed.

(* ================= UnionBatch ================= *)
Lemma lookup_In m k : In k (keys_of m) -> exists v, lookup m k = Some v.
Proof.
  induction m as [|[k' v'] r IH]; [contradiction|]. intros H. cbn [lookup].
  destruct (key_eqb k k') eqn:E; [eauto|]. apply key_eqb_false in E.
  destruct H as [H|H]; [cbn in H; congruence|auto].
Qed.

(* `outputs[0]` exists for every key the union stream yields, whatever the inputs are *)
Lemma union_outputs_nonempty uo fsts k vs :
  (forall fs k l, Permutation l (uo fs k l)) ->
  In (k, vs) (union_stream uo fsts) -> vs <> [].
Proof.
  intros Huo Hin. unfold union_stream in Hin. apply in_map_iff in Hin as [k' [E Hk]]. inversion E; subst k' vs.
  apply (proj1 (key_set_In _ _)) in Hk. apply in_flat_map in Hk as [m [Hm Hk]].
  assert (values_of k fsts <> []).
  { unfold values_of. intros Hnil. apply lookup_In in Hk as [v Hv].
    assert (In v (flat_map (fun m => match lookup m k with Some v => [v] | None => [] end) fsts)).
    { apply in_flat_map. exists m. split; [assumption|]. rewrite Hv. now left. }
    rewrite Hnil in H. contradiction. }
  intros Hnil. apply H. specialize (Huo fsts k (values_of k fsts)). rewrite Hnil in Huo.
  now apply Permutation_sym, Permutation_nil in Huo.
Qed.

Definition nonnil {A} (l : list A) : bool := match l with [] => false | _ => true end.
Lemma concat_filter_nonnil {A} (gs : list (list A)) : concat (filter nonnil gs) = concat gs.
Proof. induction gs as [|g gs IH]; [reflexivity|]. cbn [filter]. destruct g; cbn; [assumption|]. now rewrite IH. Qed.
Lemma filter_nonnil_Forall {A} (gs : list (list A)) : Forall (fun g => g <> []) (filter nonnil gs).
Proof. apply Forall_forall. intros g Hg. apply filter_In in Hg as [_ Hg]. destruct g; [discriminate|discriminate]. Qed.

Lemma values_of_spec f k cs :
  values_of k (map (spec_merge (Some f)) cs) = map (fold1 f) (filter nonnil (map (values_in k) cs)).
Proof.
  induction cs as [|c cs IH]; [reflexivity|]. unfold values_of in *. cbn [map flat_map filter]. rewrite IH.
  destruct (values_in k c) as [|v vs] eqn:E.
  - cbn [nonnil]. rewrite lookup_spec_notIn; [reflexivity|]. intros H. now apply values_in_nonempty in H.
  - cbn [nonnil map]. rewrite lookup_spec_In.
    + cbn [merge_outputs]. now rewrite E.
    + destruct (in_dec (list_eq_dec N.eq_dec) k (keys_of c)) as [H|H]; [assumption|].
      apply values_in_notin in H. congruence.
Qed.

Lemma keys_of_concat cs x : In x (keys_of (concat cs)) <-> exists c, In c cs /\ In x (keys_of c).
Proof.
  unfold keys_of. rewrite in_map_iff. split.
  - intros [kv0 [E H]]. apply in_concat in H as [c [Hc Hin]]. exists c. split; [assumption|]. apply in_map_iff. eauto.
  - intros [c [Hc H]]. apply in_map_iff in H as [kv0 [E Hin]]. exists kv0. split; [assumption|]. apply in_concat. eauto.
Qed.

Theorem union_batch_spec mg uo cs :
  merger_ok mg (concat cs) -> (forall fs k l, Permutation l (uo fs k l)) ->
  union_batch_create mg uo (map (spec_merge mg) cs) = Ok (spec_merge mg (concat cs)).
Proof.
  intros Hok Huo. unfold union_batch_create, union_stream. rewrite map_map. cbn [fst snd].
  set (fsts := map (spec_merge mg) cs).
  assert (HK : key_set (flat_map keys_of fsts) = key_set (keys_of (concat cs))).
  { apply key_set_ext. intros x. rewrite in_flat_map, keys_of_concat. unfold fsts. split.
    - intros [m [Hm Hx]]. apply in_map_iff in Hm as [c [<- Hc]]. exists c. split; [assumption|].
      rewrite keys_of_spec in Hx. now apply key_set_In.
    - intros [c [Hc Hx]]. exists (spec_merge mg c). split; [now apply in_map|].
      rewrite keys_of_spec. now apply key_set_In. }
  rewrite HK.
  assert (HE : map (fun k => (k, merge_outputs mg (uo fsts k (values_of k fsts)))) (key_set (keys_of (concat cs)))
               = spec_merge mg (concat cs)).
  { unfold spec_merge. apply map_ext_in. intros k Hk. f_equal. apply (proj1 (key_set_In _ _)) in Hk.
    destruct mg as [f|]; cbn [merge_outputs]; [|reflexivity].
    rewrite <- (fold1_perm f Hok _ _ (Huo fsts k (values_of k fsts))).
    unfold fsts. rewrite values_of_spec, values_in_concat.
    rewrite <- (concat_filter_nonnil (map (values_in k) cs)).
    apply fold1_concat; [exact Hok| |apply filter_nonnil_Forall].
    intros Hnil. apply values_in_nonempty in Hk. apply Hk.
    rewrite values_in_concat, <- concat_filter_nonnil, Hnil. reflexivity. }
  rewrite HE. apply builder_ok, spec_sstrict.
Qed.

(* ================= batcher ================= *)
Lemma batcher_go_concat {T} bs (items batch : list T) : concat (batcher_go bs items batch) = batch ++ items.
Proof.
  revert batch. induction items as [|x r IH]; intros batch; cbn [batcher_go].
  - destruct batch; cbn; [reflexivity|]. now rewrite !app_nil_r.
  - destruct (bs <=? len (batch ++ [x])).
    + cbn [concat]. rewrite IH. cbn. now rewrite <- app_assoc.
    + rewrite IH. now rewrite <- app_assoc.
Qed.
Lemma batcher_concat {T} bs (items : list T) : concat (batcher bs items) = items.
Proof. apply batcher_go_concat. Qed.

Lemma batcher_go_map {T U} (g : T -> U) bs items batch :
  batcher_go bs (map g items) (map g batch) = map (map g) (batcher_go bs items batch).
Proof.
  revert batch. induction items as [|x r IH]; intros batch; cbn [batcher_go map].
  - destruct batch; reflexivity.
  - replace (map g batch ++ [g x]) with (map g (batch ++ [x])) by (now rewrite map_app).
    unfold len. rewrite map_length. destruct (bs <=? N.of_nat (length (batch ++ [x]))).
    + cbn [map]. f_equal. apply (IH []).
    + apply IH.
Qed.
Lemma batcher_map {T U} (g : T -> U) bs items : batcher bs (map g items) = map (map g) (batcher bs items).
Proof. apply (batcher_go_map g bs items []). Qed.

(* with a limit of at least 2 every batch but the last holds two or more items *)
Lemma batcher_go_shrinks {T} bs (items batch : list T) : 2 <= bs ->
  (2 * length (batcher_go bs items batch) <= length items + length batch + 1)%nat.
Proof.
  intros Hbs. revert batch. induction items as [|x r IH]; intros batch; cbn [batcher_go].
  - destruct batch; cbn [length]; lia.
  - unfold len. rewrite app_length. cbn [length].
    destruct (bs <=? N.of_nat (length batch + 1)) eqn:E.
    + apply N.leb_le in E. cbn [length]. specialize (IH []). cbn [length] in IH. lia.
    + specialize (IH (batch ++ [x])). rewrite app_length in IH. cbn [length] in IH. lia.
Qed.
Lemma batcher_shrinks {T} bs (items : list T) : 2 <= bs -> (2 <= length items)%nat ->
  (length (batcher bs items) < length items)%nat.
Proof. intros H1 H2. pose proof (batcher_go_shrinks bs items [] H1). cbn [length] in H. unfold batcher. lia. Qed.

Lemma batcher_nonempty {T} bs (items : list T) : items <> [] -> batcher bs items <> [].
Proof. intros H E. apply H. rewrite <- (batcher_concat bs items), E. reflexivity. Qed.

(* with a limit of 0 or 1 every item is a batch of its own *)
Lemma batcher_singletons {T} bs (items : list T) : bs <= 1 -> batcher bs items = map (fun x => [x]) items.
Proof.
  intros Hbs. unfold batcher. induction items as [|x r IH]; [reflexivity|]. cbn [batcher_go app map].
  unfold len. cbn [length]. destruct (bs <=? N.of_nat 1) eqn:E.
  - now rewrite IH.
  - apply N.leb_gt in E. lia.
Qed.

(* ================= Sorters / results ================= *)
Lemma seq_res_ok {A} (l : list A) : seq_res (map Ok l) = Ok l.
Proof. induction l as [|a r IH]; [reflexivity|]. cbn [map seq_res bind]. now rewrite IH. Qed.

Lemma concat_perm {A} (l l' : list (list A)) : Permutation l l' -> Permutation (concat l) (concat l').
Proof.
  induction 1; cbn [concat].
  - constructor.
  - now apply Permutation_app_head.
  - rewrite !app_assoc. apply Permutation_app_tail, Permutation_app_comm.
  - eapply Permutation_trans; eauto.
Qed.

Lemma concat_map_concat {A} (l : list (list (list A))) : concat (map (@concat A) l) = concat (concat l).
Proof. induction l as [|x r IH]; [reflexivity|]. cbn [map concat]. now rewrite concat_app, IH. Qed.

(* what one round of workers returns: the results of the batches, all of them successes, in the
   order chosen by the scheduling oracle *)
Lemma sorters_round {B C} threads (perm : list (res kmap) -> list (res kmap)) (create : B -> res kmap)
      (enc : C -> B) (h : C -> kmap) (src : list C) :
  threads <> 0 -> (forall l, Permutation l (perm l)) ->
  (forall c, In c src -> create (enc c) = Ok (h c)) ->
  exists src', Permutation src src' /\
    exists rs, sorters_results threads perm create (map enc src) = Ok rs /\ seq_res rs = Ok (map h src').
Proof.
  intros Ht Hp Hc. unfold sorters_results.
  destruct src as [|c0 cs] eqn:Es.
  - exists []. split; [constructor|]. exists []. split; reflexivity.
  - rewrite <- Es in *.
    destruct (map enc src) as [|b0 bs'] eqn:Em; [subst src; discriminate|]. rewrite <- Em.
    assert (E : map create (map enc src) = map Ok (map h src)).
    { rewrite !map_map. apply map_ext_in. exact Hc. }
    rewrite (proj2 (N.eqb_neq _ _) Ht). rewrite E.
    pose proof (Hp (map Ok (map h src))) as P. apply Permutation_sym in P.
    set (R := perm (map Ok (map h src))) in *.
    rewrite map_map in P. apply Permutation_map_inv in P as [l3 [E3 P3]].
    exists l3. split; [exact P3|]. exists R. split; [reflexivity|]. rewrite E3.
    replace (map (fun x => Ok (h x)) l3) with (map (@Ok kmap) (map h l3)) by apply map_map.
    apply seq_res_ok.
Qed.

(* ================= the generations ================= *)
Section Pipeline.
  Variables (mg : vmerger) (o : oracle) (fd threads : N).
  Hypothesis Ho : oracle_ok o.
  Hypothesis Ht : threads <> 0.

  (* one union generation over the results [map spec cs]: the chunks are grouped as the batcher
     groups them, every group becomes the specification of its concatenation, in some order *)
  Lemma union_generation gen cs : merger_ok mg (concat cs) ->
    exists cs', Permutation (map (@concat kv) (batcher fd cs)) cs' /\
      exists rs, sorters_results threads (sched o gen) (union_batch_create mg (uord o))
                                 (batcher fd (map (spec_merge mg) cs)) = Ok rs
                 /\ seq_res rs = Ok (map (spec_merge mg) cs').
  Proof.
    intros Hok. destruct Ho as [Hs Hu]. rewrite batcher_map.
    destruct (sorters_round threads (sched o gen) (union_batch_create mg (uord o))
                (map (spec_merge mg)) (fun g => spec_merge mg (concat g)) (batcher fd cs) Ht (Hs gen))
      as [gs' [HP [rs [E1 E2]]]].
    - intros g Hg. apply union_batch_spec; [|exact Hu].
      eapply merger_ok_incl; [|exact Hok]. intros x Hx. apply in_concat in Hx as [c [Hc Hx]].
      apply in_concat. exists c. split; [|assumption].
      rewrite <- (batcher_concat fd cs). apply in_concat. exists g. split; assumption.
    - exists (map (@concat kv) gs'). split; [now apply Permutation_map|]. exists rs. split; [assumption|].
      rewrite E2. now rewrite map_map.
  Qed.

  Lemma generation_content cs cs' : Permutation (map (@concat kv) (batcher fd cs)) cs' ->
    Permutation (concat cs) (concat cs').
  Proof.
    intros P. eapply Permutation_trans; [|apply concat_perm, P].
    rewrite concat_map_concat, batcher_concat. apply Permutation_refl.
  Qed.

  Lemma union_gens_correct input : merger_ok mg input -> 2 <= fd ->
    forall fuel gen cs, cs <> [] -> Permutation (concat cs) input -> (length cs <= fuel)%nat ->
    union_gens fuel mg o fd threads gen (map (spec_merge mg) cs) = Returns (Ok (spec_merge mg input)).
  Proof.
    intros Hok Hfd. induction fuel as [|fuel IH]; intros gen cs Hne HP Hlen.
    - destruct cs; [congruence|cbn in Hlen; lia].
    - cbn [union_gens]. rewrite map_length.
      assert (Hokc : merger_ok mg (concat cs)) by (eapply merger_ok_perm; [apply Permutation_sym; exact HP|exact Hok]).
      destruct (length cs <=? 1)%nat eqn:E.
      + apply Nat.leb_le in E. destruct cs as [|c [|c' cs']]; [congruence| |cbn in E; lia].
        cbn [map finish]. do 2 f_equal. cbn [concat] in *. rewrite app_nil_r in *. now apply spec_perm.
      + apply Nat.leb_gt in E.
        destruct (union_generation (S gen) cs Hokc) as [cs' [P' [rs [E1 E2]]]].
        rewrite E1, E2. apply IH.
        * intros ->. apply Permutation_sym, Permutation_nil, map_eq_nil in P'. revert P'. apply batcher_nonempty. assumption.
        * eapply Permutation_trans; [apply Permutation_sym, generation_content, P'|exact HP].
        * rewrite <- (Permutation_length P'), map_length. pose proof (batcher_shrinks fd cs Hfd). lia.
  Qed.

  Theorem merge_all_fuel_correct bs input fuel : merger_ok mg input -> 2 <= fd ->
    (length (batcher bs input) <= fuel)%nat ->
    merge_all_fuel fuel mg o bs fd threads input = Returns (Ok (spec_merge mg input)).
  Proof.
    intros Hok Hfd Hfuel. unfold merge_all_fuel. destruct Ho as [Hs Hu].
    destruct (sorters_round threads (sched o 0%nat) (kv_batch_create mg) (fun g => g) (spec_merge mg)
                (batcher bs input) Ht (Hs 0%nat)) as [gs' [HP [rs [E1 E2]]]].
    - intros g Hg. apply kv_batch_create_spec. eapply merger_ok_incl; [|exact Hok].
      intros x Hx. rewrite <- (batcher_concat bs input). apply in_concat. eauto.
    - rewrite map_id in E1. rewrite E1, E2.
      destruct gs' as [|g gs''] eqn:Eg.
      + cbn [map]. apply Permutation_sym, Permutation_nil in HP.
        assert (input = []) as -> by (rewrite <- (batcher_concat bs input), HP; reflexivity). reflexivity.
      + cbn [map]. change (spec_merge mg g :: map (spec_merge mg) gs'') with (map (spec_merge mg) (g :: gs'')).
        apply union_gens_correct; auto.
        * discriminate.
        * eapply Permutation_trans; [apply Permutation_sym, concat_perm, HP|]. rewrite batcher_concat. apply Permutation_refl.
        * rewrite <- (Permutation_length HP). assumption.
  Qed.

  Corollary merge_all_correct bs input : merger_ok mg input -> 2 <= fd ->
    merge_all mg o bs fd threads input = Returns (Ok (spec_merge mg input)).
  Proof. intros. unfold merge_all. now apply merge_all_fuel_correct. Qed.

  (* fd_limit 0 or 1: every union batch has one input, the number of results never drops *)
  Lemma union_gens_diverges : fd <= 1 -> forall fuel gen cs, merger_ok mg (concat cs) -> (2 <= length cs)%nat ->
    union_gens fuel mg o fd threads gen (map (spec_merge mg) cs) = Diverges.
  Proof.
    intros Hfd. induction fuel as [|fuel IH]; intros gen cs Hok Hlen; cbn [union_gens]; rewrite map_length;
      destruct (length cs <=? 1)%nat eqn:E; try (apply Nat.leb_le in E; lia); [reflexivity|].
    destruct (union_generation (S gen) cs Hok) as [cs' [P' [rs [E1 E2]]]]. rewrite E1, E2. apply IH.
    - eapply merger_ok_perm; [|exact Hok]. now apply generation_content.
    - rewrite <- (Permutation_length P'), map_length, (batcher_singletons fd cs Hfd), map_length. assumption.
  Qed.

  Theorem merge_all_fd1_diverges bs input fuel : merger_ok mg input -> fd <= 1 ->
    (2 <= length (batcher bs input))%nat ->
    merge_all_fuel fuel mg o bs fd threads input = Diverges.
  Proof.
    intros Hok Hfd Hlen. unfold merge_all_fuel. destruct Ho as [Hs Hu].
    destruct (sorters_round threads (sched o 0%nat) (kv_batch_create mg) (fun g => g) (spec_merge mg)
                (batcher bs input) Ht (Hs 0%nat)) as [gs' [HP [rs [E1 E2]]]].
    - intros g Hg. apply kv_batch_create_spec. eapply merger_ok_incl; [|exact Hok].
      intros x Hx. rewrite <- (batcher_concat bs input). apply in_concat. eauto.
    - rewrite map_id in E1. rewrite E1, E2. rewrite (Permutation_length HP) in Hlen.
      destruct gs' as [|g gs''] eqn:Eg; [cbn in Hlen; lia|].
      cbn [map]. change (spec_merge mg g :: map (spec_merge mg) gs'') with (map (spec_merge mg) (g :: gs'')).
      apply union_gens_diverges; auto.
      eapply merger_ok_perm; [|exact Hok].
      eapply Permutation_trans; [|apply concat_perm, HP]. rewrite batcher_concat. apply Permutation_refl.
  Qed.
End Pipeline.

(* without workers the first hand-over panics *)
Lemma merge_all_no_threads mg o bs fd input fuel : input <> [] ->
  merge_all_fuel fuel mg o bs fd 0 input = Returns Panic.
Proof.
  intros H. unfold merge_all_fuel, sorters_results. pose proof (batcher_nonempty bs input H).
  destruct (batcher bs input); [congruence|reflexivity].
Qed.

(* ================= result facts ================= *)
Lemma spec_keys_exact mg input k : In k (keys_of (spec_merge mg input)) <-> In k (keys_of input).
Proof. rewrite keys_of_spec. apply key_set_In. Qed.

Lemma spec_kmap_ok mg input : kmap_ok (spec_merge mg input) = true.
Proof. unfold kmap_ok. apply sstrict_sorted_strict, spec_sstrict. Qed.

(* inputs without repeated keys: the result is the sorted input, which a sorted build accepts *)
Lemma ksorted_nodup_strict (l : list kv) : ksorted l -> NoDup (keys_of l) ->
  forall mg, zero_if_none mg l -> spec_merge mg l = l.
Proof.
  induction l as [|[k v] r IH]; intros HS HN mg HZ; [reflexivity|].
  destruct HS as [H1 H2]. cbn [keys_of map fst] in HN. inversion HN as [|? ? Hnin HN']; subst.
  rewrite spec_head_strict.
  - rewrite (merge_outputs_single mg k v r HZ). f_equal. apply IH; auto.
    destruct mg; cbn in *; [exact I|]. now inversion HZ.
  - rewrite Forall_forall in *. intros x Hx. apply kle_neq_lt; [now apply H1|].
    intros ->. apply Hnin. now apply in_map.
Qed.

Theorem spec_no_repeats mg input : merger_ok mg input -> NoDup (keys_of input) ->
  spec_merge mg input = kv_sort input /\ builder_go false None (kv_sort input) = Ok (kv_sort input).
Proof.
  intros Hok HN. assert (HP := kv_sort_perm input).
  assert (E : spec_merge mg input = kv_sort input).
  { rewrite (spec_perm mg _ _ Hok HP). apply ksorted_nodup_strict.
    - apply kv_sort_sorted.
    - eapply Permutation_NoDup; [|exact HN]. unfold keys_of. now apply Permutation_map.
    - eapply zero_if_none_perm; [exact HP|]. now apply merger_ok_zero. }
  split; [assumption|]. rewrite <- E. apply builder_ok, spec_sstrict.
Qed.

(* ================= the concrete oracles are oracles ================= *)
Lemma nth_remove_perm {A} (l : list A) j d : (j < length l)%nat -> Permutation l (nth j l d :: remove_nth j l).
Proof.
  revert j. induction l as [|x r IH]; intros j H; [cbn in H; lia|].
  destruct j; cbn [nth remove_nth]; [apply Permutation_refl|].
  eapply Permutation_trans; [|apply perm_swap]. constructor. apply IH. cbn in H. lia.
Qed.

Lemma pick_perm_permutation {A} code (l : list A) : Permutation l (pick_perm code l).
Proof.
  revert l. induction code as [|c code IH]; intros l; cbn [pick_perm]; [apply Permutation_refl|].
  destruct l as [|d r] eqn:E; [constructor|]. rewrite <- E.
  set (j := N.to_nat (c mod len l)).
  assert (Hj : (j < length l)%nat).
  { unfold j, len. assert (Hn : N.of_nat (length l) <> 0) by (subst; cbn [length]; lia).
    pose proof (N.mod_lt c _ Hn). lia. }
  eapply Permutation_trans; [apply (nth_remove_perm l j d Hj)|]. constructor. apply IH.
Qed.

Lemma remove_nth_middle {A} (l1 l2 : list A) x : remove_nth (length l1) (l1 ++ x :: l2) = l1 ++ l2.
Proof. induction l1 as [|a r IH]; [reflexivity|]. cbn [length app remove_nth]. now rewrite IH. Qed.

(* every permutation is the meaning of some code, so quantifying over codes loses nothing *)
Lemma pick_perm_complete {A} (l' l : list A) : Permutation l l' -> exists code, pick_perm code l = l'.
Proof.
  revert l. induction l' as [|x t IH]; intros l HP.
  - apply Permutation_sym, Permutation_nil in HP. subst. now exists [].
  - assert (Hin : In x l) by (eapply Permutation_in; [apply Permutation_sym; exact HP|now left]).
    apply in_split in Hin as [l1 [l2 ->]].
    apply Permutation_sym, Permutation_cons_app_inv, Permutation_sym in HP.
    destruct (IH _ HP) as [code Hc]. exists (N.of_nat (length l1) :: code). cbn [pick_perm].
    destruct (l1 ++ x :: l2) as [|d r] eqn:E; [now destruct l1|]. rewrite <- E.
    assert (Hj : N.to_nat (N.of_nat (length l1) mod len (l1 ++ x :: l2)) = length l1).
    { unfold len. rewrite app_length. cbn [length]. rewrite N.mod_small by lia. apply Nat2N.id. }
    rewrite Hj, nth_middle, remove_nth_middle, Hc. reflexivity.
Qed.

Lemma n_insert_perm x l : Permutation (x :: l) (n_insert x l).
Proof.
  induction l as [|y r IH]; cbn [n_insert]; [auto|].
  destruct (x <=? y); [auto|]. eapply Permutation_trans; [apply perm_swap|]. now constructor.
Qed.
Lemma n_sort_perm l : Permutation l (n_sort l).
Proof.
  induction l as [|x r IH]; cbn [n_sort fold_right]; [constructor|].
  eapply Permutation_trans; [|apply n_insert_perm]. now constructor.
Qed.

Lemma oracle_of_ok codes desc : oracle_ok (oracle_of codes desc).
Proof.
  split; cbn [oracle_of sched uord].
  - intros g l. apply pick_perm_permutation.
  - intros _ _ l. destruct desc.
    + eapply Permutation_trans; [apply n_sort_perm|apply Permutation_rev].
    + apply n_sort_perm.
Qed.
