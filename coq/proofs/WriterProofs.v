(* WriterProofs.v — proofs about the write path model (Writer.v). *)
Require Import FstV.Base FstV.Writer.
Require Import Lia.

Local Open Scope nat_scope.

Ltac nilpre := exists []; split; [cbn; rewrite ?app_nil_r; reflexivity | cbn; rewrite ?app_nil_r; congruence].

(* ================= generic facts about the write_all loop ================= *)
Section LoopSpec.
  Context {W : Type}.
  Variable write : W -> list N -> iores nat * W.
  Variable budget : W -> nat.
  Variable acc : W -> list N.

  (* what every writer in this development does on one write call, under ANY script *)
  Definition sane_write : Prop :=
    forall st buf r st', buf <> [] -> write st buf = (r, st') ->
      budget st' <= budget st /\
      match r with
      | IoOk n => n <= length buf /\ acc st' = acc st ++ firstn n buf /\ (n = 0 -> budget st' < budget st)
      | IoErr _ => acc st' = acc st /\ budget st' < budget st
      | IoPanic | IoDiverge => False
      end.

  Hypothesis Hsane : sane_write.

  Lemma write_loop_sane : forall fuel st buf r st' rest,
      length buf + budget st + 1 <= fuel ->
      write_loop write fuel st buf = (r, st', rest) ->
      (exists pre, buf = pre ++ rest /\ acc st' = acc st ++ pre) /\ budget st' <= budget st /\
      match r with
      | IoOk _ => rest = []
      | IoErr _ => budget st' < budget st
      | IoPanic | IoDiverge => False
      end.
  Proof.
    induction fuel as [|f IH]; intros st buf r st' rest Hf H.
    - destruct buf; cbn in *; [|lia]. inversion H; subst. repeat split; auto.
      nilpre.
    - destruct buf as [|b buf].
      + cbn in H. inversion H; subst. repeat split; auto. nilpre.
      + cbn [write_loop] in H.
        destruct (write st (b :: buf)) as [r0 st1] eqn:E.
        apply Hsane in E; [|discriminate]. destruct E as [Hb E].
        destruct r0 as [[|m]|k| |]; try contradiction.
        * destruct E as (_ & Ha & Hz). inversion H; subst. specialize (Hz eq_refl).
          cbn [firstn] in Ha. rewrite app_nil_r in Ha.
          repeat split; auto. nilpre.
        * destruct E as (Hle & Ha & _).
          assert (Hl : (S m <=? length (b :: buf)) = true) by (apply Nat.leb_le; exact Hle).
          rewrite Hl in H. apply IH in H.
          -- destruct H as ((pre & Hp & H1) & H2 & H3). repeat split.
             ++ exists (firstn (S m) (b :: buf) ++ pre). split.
                ** rewrite <- app_assoc, <- Hp. symmetry. apply firstn_skipn.
                ** rewrite H1, Ha, <- app_assoc. reflexivity.
             ++ lia.
             ++ destruct r; auto. lia.
          -- rewrite skipn_length. cbn [length] in *. lia.
        * destruct E as (Ha & Hlt). destruct (is_interrupted k).
          -- apply IH in H; [|cbn [length] in *; lia].
             destruct H as ((pre & Hp & H1) & H2 & H3). rewrite Ha in H1. repeat split; try lia.
             ++ exists pre; auto.
             ++ destruct r; auto. lia.
          -- inversion H; subst. repeat split; auto; try lia. nilpre.
  Qed.

  (* an invariant of single writes is an invariant of the loop; P = a property of the buffers
     handed to write that survives taking a suffix *)
  Lemma write_loop_inv (inv : W -> Prop) (P : list N -> Prop) :
    (forall n buf, P buf -> P (skipn n buf)) ->
    (forall st buf r st', buf <> [] -> P buf -> inv st -> write st buf = (r, st') -> inv st') ->
    forall fuel st buf r st' rest, P buf -> inv st -> write_loop write fuel st buf = (r, st', rest) -> inv st'.
  Proof.
    intros HP Hinv. induction fuel as [|f IH]; intros st buf r st' rest Hp Hi H.
    - destruct buf; cbn in H; inversion H; subst; auto.
    - destruct buf as [|b buf]; [cbn in H; inversion H; subst; auto|].
      cbn [write_loop] in H. destruct (write st (b :: buf)) as [r0 st1] eqn:E.
      apply Hinv in E; auto; [|discriminate].
      destruct r0 as [[|m]|k| |]; try (inversion H; subst; auto; fail).
      + destruct (S m <=? length (b :: buf)); [eapply IH; [| |exact H]; auto|inversion H; subst; auto].
      + destruct (is_interrupted k); [eapply IH; eauto|inversion H; subst; auto].
  Qed.

  (* ---- benign scripts: every response is a non-empty acceptance or Interrupted ---- *)
  Variable good : W -> Prop.
  Definition good_write : Prop :=
    forall st buf r st', good st -> buf <> [] -> write st buf = (r, st') ->
      good st' /\ ((exists n, r = IoOk (S n)) \/ r = IoErr IoInterrupted).
  Hypothesis Hgood : good_write.

  Lemma write_loop_good : forall fuel st buf,
      good st -> length buf + budget st + 1 <= fuel ->
      exists st', write_loop write fuel st buf = (IoOk tt, st', []) /\
                  good st' /\ acc st' = acc st ++ buf /\ budget st' <= budget st.
  Proof.
    induction fuel as [|f IH]; intros st buf Hg Hf.
    - destruct buf; cbn in *; [|lia]. exists st. rewrite app_nil_r. auto.
    - destruct buf as [|b buf].
      + exists st. cbn. rewrite app_nil_r. auto.
      + cbn [write_loop]. destruct (write st (b :: buf)) as [r0 st1] eqn:E.
        assert (Hne : b :: buf <> []) by discriminate.
        pose proof (Hsane _ _ _ _ Hne E) as [Hb Hs].
        pose proof (Hgood _ _ _ _ Hg Hne E) as [Hg1 [[n ->]| ->]].
        * destruct Hs as (Hle & Ha & _).
          assert (Hl : (S n <=? length (b :: buf)) = true) by (apply Nat.leb_le; exact Hle).
          rewrite Hl.
          destruct (IH st1 (skipn (S n) (b :: buf)) Hg1) as (st' & H1 & H2 & H3 & H4).
          { rewrite skipn_length. cbn [length] in *. lia. }
          exists st'. repeat split; auto; [|lia].
          rewrite H3, Ha, <- app_assoc. f_equal. apply firstn_skipn.
        * destruct Hs as (Ha & Hlt). cbn [is_interrupted].
          destruct (IH st1 (b :: buf) Hg1) as (st' & H1 & H2 & H3 & H4).
          { cbn [length] in *. lia. }
          exists st'. repeat split; auto; [congruence|lia].
  Qed.

  (* ---- one fault: benign responses, then one Zero / Fail ---- *)
  Variable armed fired : W -> Prop.
  Variable kf : ioerr.
  Definition fault_write : Prop :=
    forall st buf r st', armed st -> buf <> [] -> write st buf = (r, st') ->
      (armed st' /\ ((exists n, r = IoOk (S n)) \/ r = IoErr IoInterrupted)) \/
      (fired st' /\ ((r = IoOk 0 /\ kf = IoWriteZero) \/ (r = IoErr kf /\ is_interrupted kf = false))).
  Hypothesis Hfault : fault_write.

  Lemma write_loop_fault : forall fuel st buf,
      armed st -> length buf + budget st + 1 <= fuel ->
      exists st' rest,
        (write_loop write fuel st buf = (IoOk tt, st', []) /\ armed st') \/
        (write_loop write fuel st buf = (IoErr kf, st', rest) /\ fired st').
  Proof.
    induction fuel as [|f IH]; intros st buf Ha Hf.
    - destruct buf; cbn in *; [|lia]. exists st, []. auto.
    - destruct buf as [|b buf].
      + exists st, []. cbn. auto.
      + cbn [write_loop]. destruct (write st (b :: buf)) as [r0 st1] eqn:E.
        assert (Hne : b :: buf <> []) by discriminate.
        pose proof (Hsane _ _ _ _ Hne E) as [Hb Hs].
        destruct (Hfault _ _ _ _ Ha Hne E) as [[Ha1 [[n ->]| ->]]|[Hfi [[-> Hk]|[-> Hk]]]].
        * destruct Hs as (Hle & _ & _).
          assert (Hl : (S n <=? length (b :: buf)) = true) by (apply Nat.leb_le; exact Hle).
          rewrite Hl. apply IH; auto. rewrite skipn_length. cbn [length] in *. lia.
        * cbn [is_interrupted]. apply IH; auto. cbn [length] in *. lia.
        * exists st1, (b :: buf). right. rewrite Hk. auto.
        * exists st1, (b :: buf). right. rewrite Hk. auto.
  Qed.
End LoopSpec.

(* ================= writer specifications ================= *)
(* acc: bytes the writer has accepted (logically); phys: bytes the bottom sink holds *)
Record sane_writer {W} (wr : writer W) (acc phys : W -> list N) (flushed : W -> Prop) : Prop := {
  sw_write : sane_write (w_write wr) (w_budget wr) acc;
  sw_write_all : forall st buf r st', buf <> [] -> w_write_all wr st buf = (r, st') ->
      w_budget wr st' <= w_budget wr st /\
      match r with
      | IoOk _ => acc st' = acc st ++ buf
      | IoErr _ => (exists pre post, buf = pre ++ post /\ acc st' = acc st ++ pre) /\
                   w_budget wr st' < w_budget wr st
      | IoPanic | IoDiverge => False
      end;
  sw_flush : forall st r st', w_flush wr st = (r, st') ->
      w_budget wr st' <= w_budget wr st /\ acc st' = acc st /\
      match r with
      | IoOk _ => phys st' = acc st' /\ flushed st'
      | IoErr _ => True
      | IoPanic | IoDiverge => False
      end
}.

Record good_writer {W} (wr : writer W) (good : W -> Prop) : Prop := {
  gw_write : good_write (w_write wr) good;
  gw_write_all : forall st buf, good st -> buf <> [] ->
      exists st', w_write_all wr st buf = (IoOk tt, st') /\ good st';
  gw_flush : forall st, good st -> exists st', w_flush wr st = (IoOk tt, st') /\ good st'
}.

(* ================= the scripted sink ================= *)
Definition benign (r : resp) : Prop :=
  match r with Accept n => 1 <= n | Interrupted => True | Zero | Fail _ => False end.

(* at least one flush succeeded *)
Definition sink_flushed (s : sink) : Prop := 0 < s_flushes s.
(* ... and nothing was accepted after the last successful flush: every byte the sink holds was
   committed by a flush that came AFTER it (the prefill was there before the session) *)
Definition sink_committed (s : sink) : Prop := sink_flushed s /\ s_unflushed s = 0.
(* behind a BufWriter: the same for the sink, and nothing is left in the BufWriter's own buffer *)
Definition buf_committed (b : bufw sink) : Prop := sink_committed (b_inner b) /\ b_buf b = [].

Lemma sink_committed_flushed s : sink_committed s -> sink_flushed s.
Proof. intros [H _]. exact H. Qed.

(* the counter means what it says: one write call adds exactly the bytes it made the sink accept,
   a successful flush resets it, a failing flush and a refused write leave it *)
Lemma sink_write_unflushed s buf r s' : sink_write s buf = (r, s') ->
  s_unflushed s' + length (s_data s) = s_unflushed s + length (s_data s') /\
  s_flushes s' = s_flushes s.
Proof.
  unfold sink_write. intros H.
  destruct (s_oracle s) as [|[n| | |k] o]; inversion H; subst; clear H; cbn;
    rewrite ?app_length, ?firstn_length; split; auto; lia.
Qed.

Lemma sink_flush_unflushed s r s' : sink_flush s = (r, s') ->
  s_data s' = s_data s /\
  match r with
  | IoOk _ => s_unflushed s' = 0 /\ s_flushes s' = S (s_flushes s)
  | _ => s' = s
  end.
Proof.
  unfold sink_flush. intros H. destruct (s_fresp s); inversion H; subst; cbn; auto.
Qed.

Lemma sink_write_sane : sane_write sink_write sink_budget s_data.
Proof.
  intros s buf r s' Hne H. unfold sink_write, sink_budget in *.
  destruct (s_oracle s) as [|[n| | |k] o] eqn:Eo; inversion H; subst; clear H; cbn.
  - rewrite firstn_all. repeat split; auto. intros E. destruct buf; [congruence|discriminate].
  - repeat split; auto; try lia.
  - repeat split; auto.
  - rewrite app_nil_r. repeat split; auto; lia.
  - repeat split; auto.
Qed.

Lemma sink_sane : sane_writer sink_writer s_data s_data sink_committed.
Proof.
  split.
  - exact sink_write_sane.
  - intros s buf r s' Hne H. cbn in H. unfold default_write_all in H.
    destruct (write_loop _ _ _ _) as [[r0 s0] rest] eqn:E. inversion H; subst; clear H.
    apply (write_loop_sane _ _ _ sink_write_sane) in E; [|unfold loop_fuel; lia].
    destruct E as ((pre & Hp & Ha) & Hb & Hr). split; [exact Hb|].
    destruct r; auto.
    + subst rest. rewrite app_nil_r in Hp. now subst pre.
    + split; auto. exists pre, rest. auto.
  - intros s r s' H. cbn in H. unfold sink_flush in H.
    destruct (s_fresp s); inversion H; subst; cbn; repeat split; auto.
    unfold sink_flushed; cbn; lia.
Qed.

(* benign script; the flush response is carried along unchanged *)
Definition sink_good (fl : fresp) (s : sink) : Prop :=
  Forall benign (s_oracle s) /\ s_fresp s = fl.

Lemma sink_write_good fl : good_write sink_write (sink_good fl).
Proof.
  intros s buf r s' [Hg Hfl] Hne H. unfold sink_write in H.
  destruct (s_oracle s) as [|[n| | |k] o] eqn:Eo; inversion H; subst; clear H; unfold sink_good; cbn.
  - split; [split; auto|]. left. destruct buf; [congruence|]. cbn. eauto.
  - inversion Hg; subst. cbn in H1. split; [split; auto|]. left.
    destruct buf; [congruence|]. cbn [length]. destruct n; [lia|]. cbn. eauto.
  - inversion Hg; subst. split; [split; auto|]. now right.
  - inversion Hg; subst. contradiction.
  - inversion Hg; subst. contradiction.
Qed.

Lemma sink_write_all_good fl s buf : sink_good fl s ->
  exists s', default_write_all sink_write sink_budget s buf = (IoOk tt, s') /\ sink_good fl s' /\
             s_data s' = s_data s ++ buf.
Proof.
  intros Hg. unfold default_write_all.
  destruct (write_loop_good _ _ _ sink_write_sane _ (sink_write_good fl) (loop_fuel sink_budget s buf) s buf Hg)
    as (s' & H1 & H2 & H3 & _); [unfold loop_fuel; lia|].
  rewrite H1. eauto.
Qed.

Lemma sink_good_writer : good_writer sink_writer (sink_good FlushOk).
Proof.
  split.
  - apply sink_write_good.
  - intros s buf Hg _. cbn. destruct (sink_write_all_good _ s buf Hg) as (s' & H1 & H2 & _). eauto.
  - intros s [Hg Hfl]. cbn. unfold sink_flush. rewrite Hfl. eexists. split; [reflexivity|].
    split; cbn; auto.
Qed.

(* ================= BufWriter over a sane / good writer ================= *)
Section BufSpec.
  Context {W : Type}.
  Variable wr : writer W.
  Variables acc phys : W -> list N.
  Variable flushed : W -> Prop.
  Hypothesis Hin : sane_writer wr acc phys flushed.

  Definition bacc (b : bufw W) : list N := acc (b_inner b) ++ b_buf b.
  Definition bphys (b : bufw W) : list N := phys (b_inner b).
  Definition bflushed (b : bufw W) : Prop := flushed (b_inner b) /\ b_buf b = [].
  Definition bbudget (b : bufw W) : nat := w_budget wr (b_inner b).

  Lemma bw_flush_buf_sane b r b1 : bw_flush_buf wr b = (r, b1) ->
    b_cap b1 = b_cap b /\ bacc b1 = bacc b /\ bbudget b1 <= bbudget b /\
    match r with
    | IoOk _ => b_buf b1 = []
    | IoErr _ => bbudget b1 < bbudget b
    | IoPanic | IoDiverge => False
    end.
  Proof.
    unfold bw_flush_buf. intros H.
    destruct (write_loop _ _ _ _) as [[r0 i'] rest] eqn:E. inversion H; subst; clear H.
    apply (write_loop_sane _ _ _ (sw_write _ _ _ _ Hin)) in E; [|unfold loop_fuel; lia].
    destruct E as ((pre & Hp & Ha) & Hb & Hr). unfold bacc, bbudget; cbn.
    repeat split; auto. rewrite Ha, Hp, app_assoc. reflexivity.
  Qed.

  Lemma bw_write_sane : sane_write (bw_write wr) bbudget bacc.
  Proof.
    intros b buf r b' Hne H. unfold bw_write in H.
    assert (Hlen : 0 < length buf) by (destruct buf; [congruence|cbn; lia]).
    destruct (length buf <? bw_spare b) eqn:E1.
    { inversion H; subst; clear H. unfold bacc, bbudget; cbn. rewrite firstn_all, app_assoc.
      repeat split; auto. lia. }
    apply Nat.ltb_ge in E1.
    destruct (if bw_spare b <? length buf then bw_flush_buf wr b else (IoOk tt, b)) as [r1 b1] eqn:E2.
    assert (Hf : b_cap b1 = b_cap b /\ bacc b1 = bacc b /\ bbudget b1 <= bbudget b /\
                 match r1 with
                 | IoOk _ => b_cap b1 <= length buf -> b_buf b1 = []
                 | IoErr _ => bbudget b1 < bbudget b
                 | _ => False end).
    { destruct (bw_spare b <? length buf) eqn:E3.
      - apply bw_flush_buf_sane in E2. destruct E2 as (A & B & C & D). repeat split; auto.
        destruct r1; auto.
      - inversion E2; subst. repeat split; auto. intros Hc. apply Nat.ltb_ge in E3.
        unfold bw_spare in *. destruct (b_buf b1); auto. cbn [length] in *. lia. }
    destruct Hf as (Hc & Ha & Hb & Hr).
    destruct r1 as [[]|k| |]; try contradiction.
    - destruct (b_cap b1 <=? length buf) eqn:E4.
      + apply Nat.leb_le in E4. specialize (Hr E4).
        destruct (w_write wr (b_inner b1) buf) as [r2 i'] eqn:E5. inversion H; subst; clear H.
        apply (sw_write _ _ _ _ Hin) in E5; auto. destruct E5 as [Hb2 Hs].
        unfold bacc, bbudget in *; cbn. rewrite Hr in *. rewrite app_nil_r in *.
        split; [lia|]. destruct r as [n|k| |]; auto.
        * destruct Hs as (H1 & H2 & H3). repeat split; auto; [congruence|]. intros; specialize (H3 H); lia.
        * destruct Hs as (H1 & H2). split; [congruence|lia].
      + inversion H; subst; clear H. unfold bacc, bbudget in *; cbn. rewrite firstn_all.
        rewrite app_assoc, Ha. repeat split; auto. lia.
    - inversion H; subst; clear H. repeat split; auto; lia.
  Qed.

  Lemma bufw_sane : sane_writer (bufw_writer wr) bacc bphys bflushed.
  Proof.
    split.
    - exact bw_write_sane.
    - intros b buf r b' Hne H. cbn in H. unfold bw_write_all in H. cbn [w_budget bufw_writer].
      fold (bbudget b) (bbudget b').
      assert (Hlen : 0 < length buf) by (destruct buf; [congruence|cbn; lia]).
      destruct (length buf <? bw_spare b) eqn:E1.
      { inversion H; subst; clear H. unfold bacc, bbudget; cbn. rewrite app_assoc. auto. }
      apply Nat.ltb_ge in E1.
      destruct (if bw_spare b <? length buf then bw_flush_buf wr b else (IoOk tt, b)) as [r1 b1] eqn:E2.
      assert (Hf : b_cap b1 = b_cap b /\ bacc b1 = bacc b /\ bbudget b1 <= bbudget b /\
                   match r1 with
                   | IoOk _ => b_cap b1 <= length buf -> b_buf b1 = []
                   | IoErr _ => bbudget b1 < bbudget b
                   | _ => False end).
      { destruct (bw_spare b <? length buf) eqn:E3.
        - apply bw_flush_buf_sane in E2. destruct E2 as (A & B & C & D). repeat split; auto.
          destruct r1; auto.
        - inversion E2; subst. repeat split; auto. intros Hc. apply Nat.ltb_ge in E3.
          unfold bw_spare in *. destruct (b_buf b1); auto. cbn [length] in *. lia. }
      destruct Hf as (Hc & Ha & Hb & Hr).
      destruct r1 as [[]|k| |]; try contradiction.
      + destruct (b_cap b1 <=? length buf) eqn:E4.
        * apply Nat.leb_le in E4. specialize (Hr E4).
          destruct (w_write_all wr (b_inner b1) buf) as [r2 i'] eqn:E5. inversion H; subst; clear H.
          apply (sw_write_all _ _ _ _ Hin) in E5; auto. destruct E5 as [Hb2 Hs].
          unfold bacc, bbudget in *; cbn. rewrite Hr in *. rewrite app_nil_r in *.
          split; [lia|]. destruct r as [n|k| |]; auto.
          -- congruence.
          -- destruct Hs as ((pre & post & H1 & H2) & H3). split; [|lia].
             exists pre, post. split; auto. congruence.
        * inversion H; subst; clear H. unfold bacc, bbudget in *; cbn.
          rewrite app_assoc, Ha. auto.
      + inversion H; subst; clear H. split; [lia|]. split; [|lia]. exists [], buf.
        rewrite app_nil_r. auto.
    - intros b r b' H. cbn in H. unfold bw_flush in H. cbn [w_budget bufw_writer].
      fold (bbudget b) (bbudget b').
      destruct (bw_flush_buf wr b) as [r1 b1] eqn:E1.
      apply bw_flush_buf_sane in E1. destruct E1 as (Hc & Ha & Hb & Hr).
      destruct r1 as [[]|k| |]; try contradiction.
      + destruct (w_flush wr (b_inner b1)) as [r2 i'] eqn:E2. inversion H; subst; clear H.
        apply (sw_flush _ _ _ _ Hin) in E2. destruct E2 as (Hb2 & Ha2 & Hs).
        unfold bacc, bbudget, bphys, bflushed in *; cbn. rewrite Hr in *. rewrite app_nil_r in *.
        split; [lia|]. split; [congruence|]. destruct r; auto.
        destruct Hs. repeat split; auto.
      + inversion H; subst; clear H. repeat split; auto.
  Qed.

  Variable good : W -> Prop.
  Hypothesis Hgood : good_writer wr good.
  Definition bgood (b : bufw W) : Prop := good (b_inner b).

  Lemma bw_flush_buf_good b : bgood b ->
    exists b1, bw_flush_buf wr b = (IoOk tt, b1) /\ bgood b1 /\ b_buf b1 = [] /\ b_cap b1 = b_cap b.
  Proof.
    intros Hg. unfold bw_flush_buf.
    destruct (write_loop_good _ _ _ (sw_write _ _ _ _ Hin) _ (gw_write _ _ Hgood)
                              (loop_fuel (w_budget wr) (b_inner b) (b_buf b)) (b_inner b) (b_buf b) Hg)
      as (i' & H1 & H2 & _); [unfold loop_fuel; lia|].
    rewrite H1. eexists. split; [reflexivity|]. cbn. auto.
  Qed.

  Lemma bufw_good : good_writer (bufw_writer wr) bgood.
  Proof.
    split.
    - intros b buf r b' Hg Hne H. cbn in H. unfold bw_write in H.
      assert (Hlen : exists n, length buf = S n) by (destruct buf; [congruence|cbn; eauto]).
      destruct Hlen as [n Hn].
      destruct (length buf <? bw_spare b).
      { inversion H; subst. split; [exact Hg|]. left. eauto. }
      destruct (if bw_spare b <? length buf then bw_flush_buf wr b else (IoOk tt, b)) as [r1 b1] eqn:E2.
      assert (Hf : r1 = IoOk tt /\ bgood b1).
      { destruct (bw_spare b <? length buf).
        - destruct (bw_flush_buf_good b Hg) as (b2 & A & B & _). rewrite A in E2. inversion E2; subst. auto.
        - inversion E2; subst. auto. }
      destruct Hf as [-> Hg1].
      destruct (b_cap b1 <=? length buf).
      + destruct (w_write wr (b_inner b1) buf) as [r2 i'] eqn:E5. inversion H; subst; clear H.
        apply (gw_write _ _ Hgood) in E5; auto.
      + inversion H; subst. split; [exact Hg1|]. left. eauto.
    - intros b buf Hg Hne. cbn. unfold bw_write_all.
      destruct (length buf <? bw_spare b).
      { eexists. split; [reflexivity|]. exact Hg. }
      destruct (if bw_spare b <? length buf then bw_flush_buf wr b else (IoOk tt, b)) as [r1 b1] eqn:E2.
      assert (Hf : r1 = IoOk tt /\ bgood b1).
      { destruct (bw_spare b <? length buf).
        - destruct (bw_flush_buf_good b Hg) as (b2 & A & B & _). rewrite A in E2. inversion E2; subst. auto.
        - inversion E2; subst. auto. }
      destruct Hf as [-> Hg1].
      destruct (b_cap b1 <=? length buf).
      + destruct (gw_write_all _ _ Hgood (b_inner b1) buf Hg1 Hne) as (i' & A & B). rewrite A.
        eexists. split; [reflexivity|]. exact B.
      + eexists. split; [reflexivity|]. exact Hg1.
    - intros b Hg. cbn. unfold bw_flush.
      destruct (bw_flush_buf_good b Hg) as (b1 & A & B & _). rewrite A.
      destruct (gw_flush _ _ Hgood (b_inner b1) B) as (i' & C & D). rewrite C.
      eexists. split; [reflexivity|]. exact D.
  Qed.
End BufSpec.

(* ================= CountingWriter and the builder session ================= *)
Definition st_of (r : callres) : iores unit := fst (fst (fst r)).
Definition bw_of (r : callres) : N := snd (fst (fst r)).
Definition wc_of (r : callres) : nat := snd (fst r).
Definition wa_of (r : callres) : nat := snd r.
Definition is_ok (s : iores unit) : Prop := s = IoOk tt.
Definition ok_or_err (s : iores unit) : Prop :=
  match s with IoOk _ | IoErr _ => True | IoPanic | IoDiverge => False end.

Lemma len_app {A} (a b : list A) : len (a ++ b) = (len a + len b)%N.
Proof. unfold len. rewrite app_length. lia. Qed.

(* bytes_written() after each call of a session in which every call succeeds *)
Fixpoint cum_lens (n : N) (calls : list (list (list N))) : list N :=
  match calls with
  | [] => []
  | c :: r => (n + len (concat c))%N :: cum_lens (n + len (concat c))%N r
  end.

(* The chunking law, possibly restricted to well-formed checksum states (okS) and buffers (okB):
   the model of the table-driven CRC obeys it for sums < 2^32 and byte buffers only. *)
Record cond_law (crc_update : N -> list N -> N) (okS : N -> Prop) (okB : list N -> Prop) : Prop := {
  cl_app : forall s a b, okS s -> okB a -> okB b -> crc_update (crc_update s a) b = crc_update s (a ++ b);
  cl_nil : forall s, crc_update s [] = s;
  cl_s0 : okS 0%N;
  cl_step : forall s a, okS s -> okB a -> okS (crc_update s a);
  cl_bnil : okB [];
  cl_bapp : forall a b, okB a -> okB b -> okB (a ++ b);
  cl_bfirstn : forall n a, okB a -> okB (firstn n a);
  cl_bskipn : forall n a, okB a -> okB (skipn n a)
}.

Lemma uncond_law crc_update :
  (forall s a b, crc_update (crc_update s a) b = crc_update s (a ++ b)) ->
  (forall s, crc_update s [] = s) -> cond_law crc_update (fun _ => True) (fun _ => True).
Proof. intros H1 H2. split; auto. Qed.

Lemma okB_concat (okB : list N -> Prop) : okB [] -> (forall a b, okB a -> okB b -> okB (a ++ b)) ->
  forall l, Forall okB l -> okB (concat l).
Proof. intros H0 Ha l H. induction H; cbn; auto. Qed.

Section CwSpec.
  Variable crc_update : N -> list N -> N.
  Variable masked : N -> N.
  Variable okS : N -> Prop.
  Variable okB : list N -> Prop.
  Hypothesis Hlaw : cond_law crc_update okS okB.
  Context {W : Type}.
  Variable wr : writer W.
  Variables acc phys : W -> list N.
  Variable flushed : W -> Prop.
  Hypothesis Hin : sane_writer wr acc phys flushed.
  Variables wcalls wacc : W -> nat.
  Hypothesis Hwacc : forall st, wacc st = length (acc st).

  Notation cww := (cw_write crc_update wr false).
  Notation cwa := (cw_write_all crc_update wr false).
  Notation cwc := (cw_write_chunks crc_update wr false).
  Notation rcalls := (run_calls crc_update wr false wcalls wacc).
  Notation rfin := (run_finish crc_update masked wr false).

  Definition cacc (c : cw W) : list N := acc (c_inner c).
  (* the counter and the checksum describe exactly the bytes accepted since construction *)
  Definition cw_inv (a0 : list N) (c : cw W) : Prop :=
    exists bytes, acc (c_inner c) = a0 ++ bytes /\ c_cnt c = len bytes /\ c_sum c = crc_update 0%N bytes /\
                  okB bytes.

  Lemma cw_write_sane : sane_write cww (cw_budget wr) cacc.
  Proof.
    intros c buf r c' Hne H. unfold cw_write in H. cbv iota in H.
    destruct (w_write wr (c_inner c) buf) as [r0 i'] eqn:E.
    apply (sw_write _ _ _ _ Hin) in E; auto. destruct E as [Hb Hs]. unfold cw_budget, cacc.
    destruct r0 as [n|k| |]; try contradiction.
    - destruct Hs as (Hle & Ha & Hz). apply Nat.leb_le in Hle. rewrite Hle in H.
      inversion H; subst; clear H. cbn. apply Nat.leb_le in Hle. auto.
    - inversion H; subst; clear H. cbn. auto.
  Qed.

  Lemma cw_write_inv a0 c buf r c' : buf <> [] -> okB buf -> cw_inv a0 c -> cww c buf = (r, c') -> cw_inv a0 c'.
  Proof.
    intros Hne Hokb (bytes & Ha & Hc & Hs & Hob) H. unfold cw_write in H. cbv iota in H.
    destruct (w_write wr (c_inner c) buf) as [r0 i'] eqn:E.
    apply (sw_write _ _ _ _ Hin) in E; auto. destruct E as [Hb Hsn].
    destruct r0 as [n|k| |]; try contradiction.
    - destruct Hsn as (Hle & Ha' & _). pose proof Hle as Hle'. apply Nat.leb_le in Hle. rewrite Hle in H.
      inversion H; subst; clear H. exists (bytes ++ firstn n buf). cbn. repeat split.
      + rewrite Ha', Ha, app_assoc. reflexivity.
      + rewrite Hc, len_app. unfold len. rewrite firstn_length. f_equal. f_equal. lia.
      + rewrite Hs. apply (cl_app _ _ _ Hlaw); auto; [apply (cl_s0 _ _ _ Hlaw)|apply (cl_bfirstn _ _ _ Hlaw); auto].
      + apply (cl_bapp _ _ _ Hlaw); auto. apply (cl_bfirstn _ _ _ Hlaw); auto.
    - destruct Hsn as (Ha' & _). inversion H; subst; clear H. exists bytes. cbn. repeat split; auto.
      congruence.
  Qed.

  Lemma cw_write_all_sane a0 c buf r c' : okB buf -> cw_inv a0 c -> cwa c buf = (r, c') ->
    cw_inv a0 c' /\ cw_budget wr c' <= cw_budget wr c /\
    match r with
    | IoOk _ => cacc c' = cacc c ++ buf
    | IoErr _ => True
    | IoPanic | IoDiverge => False
    end.
  Proof.
    intros Hokb Hi H. unfold cw_write_all, default_write_all in H.
    destruct (write_loop _ _ _ _) as [[r0 c0] rest] eqn:E. inversion H; subst; clear H.
    split.
    - eapply (write_loop_inv cww (cw_inv a0) okB); [| |exact Hokb|exact Hi|exact E].
      + intros; apply (cl_bskipn _ _ _ Hlaw); auto.
      + intros; eapply cw_write_inv; eauto.
    - apply (write_loop_sane _ _ _ cw_write_sane) in E; [|unfold loop_fuel; lia].
      destruct E as ((pre & Hp & Ha) & Hb & Hr). split; auto.
      destruct r; auto. subst rest. rewrite app_nil_r in Hp. now subst.
  Qed.

  Lemma cw_chunks_sane a0 : forall chunks c r c', Forall okB chunks -> cw_inv a0 c -> cwc c chunks = (r, c') ->
    cw_inv a0 c' /\ cw_budget wr c' <= cw_budget wr c /\
    match r with
    | IoOk _ => cacc c' = cacc c ++ concat chunks
    | IoErr _ => True
    | IoPanic | IoDiverge => False
    end.
  Proof.
    induction chunks as [|ch chunks IH]; intros c r c' Hoks Hi H; cbn [cw_write_chunks] in H.
    - inversion H; subst. cbn. rewrite app_nil_r. auto.
    - inversion Hoks as [|? ? Hok1 Hok2]; subst.
      destruct (cwa c ch) as [r0 c0] eqn:E. apply (cw_write_all_sane a0) in E; auto.
      destruct E as (Hi0 & Hb0 & Hr0).
      destruct r0 as [[]|k| |]; try contradiction.
      + apply IH in H; auto. destruct H as (Hi1 & Hb1 & Hr1). repeat split; auto; [lia|].
        destruct r; auto. cbn [concat]. rewrite Hr1, Hr0, app_assoc. reflexivity.
      + inversion H; subst. auto.
  Qed.

  (* per-call record: never a panic, and bytes_written() = bytes accepted since construction *)
  Definition res_sane (a0 : list N) (r : callres) : Prop :=
    ok_or_err (st_of r) /\ N.of_nat (wa_of r) = (len a0 + bw_of r)%N.

  Lemma mk_res_sane a0 s c : ok_or_err s -> cw_inv a0 c -> res_sane a0 (mk_res wcalls wacc s c).
  Proof.
    intros Hs (bytes & Ha & Hc & _). split; [exact Hs|].
    unfold mk_res, wa_of, bw_of; cbn. rewrite Hwacc, Ha, Hc. apply len_app.
  Qed.

  Lemma cw_inv_cnt a0 c c0 x : cw_inv a0 c -> cw_inv a0 c0 -> cacc c0 = cacc c ++ x ->
    c_cnt c0 = (c_cnt c + len x)%N.
  Proof.
    intros (b & Ha & Hc & _) (b0 & Ha0 & Hc0 & _) H. unfold cacc in H.
    rewrite Ha0, Ha, <- app_assoc in H. apply app_inv_head in H. subst b0.
    rewrite Hc0, Hc. apply len_app.
  Qed.

  Lemma run_calls_sane a0 : forall calls c rs c' alive, Forall (Forall okB) calls ->
    cw_inv a0 c -> rcalls c calls = (rs, c', alive) ->
    cw_inv a0 c' /\ cw_budget wr c' <= cw_budget wr c /\ Forall (res_sane a0) rs /\
    (alive = true -> Forall (fun r => is_ok (st_of r)) rs /\ length rs = length calls /\
                     cacc c' = cacc c ++ concat (concat calls) /\
                     map bw_of rs = cum_lens (c_cnt c) calls) /\
    (alive = false -> exists rs0 r k, rs = rs0 ++ [r] /\ Forall (fun r => is_ok (st_of r)) rs0 /\
                                       st_of r = IoErr k /\ length rs <= length calls).
  Proof.
    induction calls as [|ca calls IH]; intros c rs c' alive Hoks Hi H; cbn [run_calls] in H.
    - inversion H; subst. cbn. rewrite app_nil_r. repeat split; auto. discriminate.
    - inversion Hoks as [|? ? Hok1 Hok2]; subst.
      destruct (cwc c ca) as [r0 c0] eqn:E. apply (cw_chunks_sane a0) in E; auto.
      destruct E as (Hi0 & Hb0 & Hr0).
      destruct r0 as [[]|k| |]; try contradiction.
      + destruct (rcalls c0 calls) as [[rs1 c1] al1] eqn:E1. inversion H; subst; clear H.
        apply IH in E1; auto. destruct E1 as (Hi1 & Hb1 & Hf1 & Ht & Hfa).
        split; [exact Hi1|]. split; [lia|]. split.
        { constructor; auto. apply mk_res_sane; cbn; auto. }
        split.
        * intros Hal. destruct (Ht Hal) as (A & B & C & D). repeat split.
          -- constructor; auto. reflexivity.
          -- cbn. lia.
          -- cbn [concat]. rewrite concat_app, C, Hr0, app_assoc. reflexivity.
          -- cbn [map cum_lens]. rewrite D. unfold bw_of, mk_res. cbn [fst snd].
             rewrite (cw_inv_cnt a0 c c0 (concat ca) Hi Hi0 Hr0). reflexivity.
        * intros Hal. destruct (Hfa Hal) as (rs0 & r & k & A & B & C & D).
          exists (mk_res wcalls wacc (IoOk tt) c0 :: rs0), r, k. subst rs1. repeat split; auto.
          -- constructor; auto. reflexivity.
          -- cbn in *. lia.
      + inversion H; subst; clear H. split; [exact Hi0|]. split; [exact Hb0|]. split; [|split].
        * constructor; auto. apply mk_res_sane; cbn; auto.
        * discriminate.
        * intros _. exists [], (mk_res wcalls wacc (IoErr k) c'), k. repeat split; auto. cbn. lia.
  Qed.

  (* into_inner under any script: Ok means everything was accepted and flushed *)
  Lemma run_finish_sane a0 c fin r c' : Forall okB fin -> cw_inv a0 c -> rfin c fin = (r, c') ->
    ok_or_err r /\
    (r = IoOk tt ->
       exists bytes, acc (c_inner c) ++ concat fin = a0 ++ bytes /\
                     phys (c_inner c') = a0 ++ bytes ++ le32 (masked (crc_update 0%N bytes)) /\
                     c_cnt c' = len bytes /\ flushed (c_inner c')).
  Proof.
    intros Hokf Hi H. unfold run_finish in H.
    destruct (cwc c fin) as [r0 c0] eqn:E. apply (cw_chunks_sane a0) in E; auto.
    destruct E as ((bytes & Ha & Hc & Hs & _) & Hb0 & Hr0).
    destruct r0 as [[]|k| |]; try contradiction.
    - destruct (w_write_all wr (c_inner c0) _) as [r1 i1] eqn:E1.
      apply (sw_write_all _ _ _ _ Hin) in E1; [|discriminate]. destruct E1 as (Hb1 & Hr1).
      destruct r1 as [[]|k| |]; try contradiction.
      + destruct (w_flush wr i1) as [r2 i2] eqn:E2. inversion H; subst; clear H.
        apply (sw_flush _ _ _ _ Hin) in E2. destruct E2 as (Hb2 & Ha2 & Hr2).
        destruct r as [[]|k| |]; try contradiction; split; cbn; auto; try discriminate.
        intros _. destruct Hr2 as [Hp Hfl]. exists bytes. cbn. repeat split; auto.
        * unfold cacc in Hr0. congruence.
        * rewrite Hp, Ha2, Hr1, Ha, Hs, <- app_assoc. reflexivity.
      + inversion H; subst; clear H. split; cbn; auto. discriminate.
    - inversion H; subst; clear H. split; cbn; auto. discriminate.
  Qed.

  (* ---- benign scripts ---- *)
  Variable good : W -> Prop.
  Hypothesis Hgw : good_write (w_write wr) good.

  Lemma cw_write_good : good_write cww (fun c => good (c_inner c)).
  Proof.
    intros c buf r c' Hg Hne H. unfold cw_write in H. cbv iota in H.
    destruct (w_write wr (c_inner c) buf) as [r0 i'] eqn:E.
    pose proof (sw_write _ _ _ _ Hin _ _ _ _ Hne E) as [_ Hs].
    apply Hgw in E; auto. destruct E as [Hg' [[n ->]| ->]].
    - destruct Hs as (Hle & _). apply Nat.leb_le in Hle. rewrite Hle in H. inversion H; subst. cbn. eauto.
    - inversion H; subst. cbn. auto.
  Qed.

  Lemma cw_write_all_good c buf : good (c_inner c) ->
    exists c', cwa c buf = (IoOk tt, c') /\ good (c_inner c').
  Proof.
    intros Hg. unfold cw_write_all, default_write_all.
    destruct (write_loop_good _ _ _ cw_write_sane _ cw_write_good
                              (loop_fuel (cw_budget wr) c buf) c buf Hg)
      as (c' & H1 & H2 & _); [unfold loop_fuel; lia|].
    rewrite H1. eauto.
  Qed.

  Lemma cw_chunks_good : forall chunks c, good (c_inner c) ->
    exists c', cwc c chunks = (IoOk tt, c') /\ good (c_inner c').
  Proof.
    induction chunks as [|ch chunks IH]; intros c Hg; cbn [cw_write_chunks].
    - eauto.
    - destruct (cw_write_all_good c ch Hg) as (c0 & -> & Hg0). apply IH; auto.
  Qed.

  Lemma run_calls_good : forall calls c, good (c_inner c) ->
    exists rs c', rcalls c calls = (rs, c', true) /\ good (c_inner c').
  Proof.
    induction calls as [|ca calls IH]; intros c Hg; cbn [run_calls].
    - eauto.
    - destruct (cw_chunks_good ca c Hg) as (c0 & -> & Hg0).
      destruct (IH c0 Hg0) as (rs & c' & -> & Hg'). eauto.
  Qed.

  (* ---- the session ---- *)
  Notation rsess := (run_session crc_update masked wr false wcalls wacc).

  Lemma cw_inv_init st0 : cw_inv (acc st0) (mkCw st0 0%N 0%N).
  Proof.
    exists []. cbn. rewrite app_nil_r, (cl_nil _ _ _ Hlaw). repeat split; auto. apply (cl_bnil _ _ _ Hlaw).
  Qed.

  (* any script: no panic, at most the last call fails, and a finished build is complete *)
  Theorem session_sane st0 calls fin : Forall (Forall okB) calls -> Forall okB fin ->
    let o := rsess st0 calls fin in
    let bytes := concat (concat calls) ++ concat fin in
    Forall (res_sane (acc st0)) (o_calls o) /\
    match o_fin o with
    | None => exists rs0 r k, o_calls o = rs0 ++ [r] /\ Forall (fun r => is_ok (st_of r)) rs0 /\
                              st_of r = IoErr k /\ length (o_calls o) <= length calls
    | Some rf =>
      Forall (fun r => is_ok (st_of r)) (o_calls o) /\ length (o_calls o) = length calls /\
      ok_or_err (st_of rf) /\
      (st_of rf = IoOk tt ->
         phys (o_final o) = acc st0 ++ bytes ++ le32 (masked (crc_update 0%N bytes)) /\
         bw_of rf = len bytes /\ flushed (o_final o) /\
         map bw_of (o_calls o) = cum_lens 0%N calls)
    end.
  Proof.
    intros Hokc Hokf. cbv zeta. unfold run_session.
    destruct (rcalls _ calls) as [[rs c] alive] eqn:E.
    apply (run_calls_sane (acc st0)) in E; [|exact Hokc|apply cw_inv_init].
    destruct E as (Hi & _ & Hf & Ht & Hfa).
    destruct alive.
    - destruct (Ht eq_refl) as (A & B & C & D).
      destruct (rfin c fin) as [r c'] eqn:E2. cbn.
      apply (run_finish_sane (acc st0)) in E2; auto. destruct E2 as [Hok Hc].
      split; [exact Hf|]. split; [exact A|]. split; [exact B|]. split; [exact Hok|].
      intros Hr. subst r.
      destruct (Hc eq_refl) as (bytes & H1 & H2 & H3 & H4).
      unfold cacc in C; cbn in C. rewrite C, <- app_assoc in H1. apply app_inv_head in H1. subst bytes.
      unfold bw_of; cbn. auto.
    - cbn. split; [exact Hf|]. exact (Hfa eq_refl).
  Qed.

  (* the counter after any sequence of API calls, under any script *)
  Theorem calls_count st0 calls : Forall (Forall okB) calls ->
    let '(rs, c, _) := rcalls (mkCw st0 0%N 0%N) calls in
    (exists bytes, acc (c_inner c) = acc st0 ++ bytes /\ c_cnt c = len bytes /\
                   c_sum c = crc_update 0%N bytes) /\
    Forall (fun r => ok_or_err (st_of r) /\ N.of_nat (wa_of r) = (len (acc st0) + bw_of r)%N) rs.
  Proof.
    intros Hokc. destruct (rcalls _ calls) as [[rs c] alive] eqn:E.
    apply (run_calls_sane (acc st0)) in E; [|exact Hokc|apply cw_inv_init].
    destruct E as ((bytes & H1 & H2 & H3 & _) & _ & Hf & _). split; eauto.
  Qed.

  Hypothesis Hgood : good_writer wr good.

  Lemma run_finish_good c fin : good (c_inner c) -> exists c', rfin c fin = (IoOk tt, c').
  Proof.
    intros Hg. unfold run_finish.
    destruct (cw_chunks_good fin c Hg) as (c0 & -> & Hg0).
    destruct (gw_write_all _ _ Hgood (c_inner c0) (le32 (masked (c_sum c0))) Hg0) as (i1 & -> & Hg1);
      [discriminate|].
    destruct (gw_flush _ _ Hgood i1 Hg1) as (i2 & -> & _). eauto.
  Qed.

  (* benign script: every call succeeds and the sink ends up with the in-memory bytes *)
  Theorem session_good st0 calls fin : Forall (Forall okB) calls -> Forall okB fin -> good st0 ->
    let o := rsess st0 calls fin in
    let bytes := concat (concat calls) ++ concat fin in
    Forall (fun r => is_ok (st_of r)) (o_calls o) /\ length (o_calls o) = length calls /\
    (exists rf, o_fin o = Some rf /\ st_of rf = IoOk tt /\ bw_of rf = len bytes) /\
    phys (o_final o) = acc st0 ++ bytes ++ le32 (masked (crc_update 0%N bytes)) /\
    flushed (o_final o) /\ map bw_of (o_calls o) = cum_lens 0%N calls.
  Proof.
    intros Hokc Hokf Hg. pose proof (session_sane st0 calls fin Hokc Hokf) as Hs. cbv zeta in *.
    unfold run_session in *.
    destruct (run_calls_good calls (mkCw st0 0%N 0%N) Hg) as (rs & c & E & Hg').
    rewrite E in *.
    destruct (run_finish_good c fin Hg') as (c' & E2). rewrite E2 in *. cbn in *.
    destruct Hs as (_ & A & B & _ & C). destruct (C eq_refl) as (C1 & C2 & C3 & C4).
    repeat split; auto. eexists. split; [reflexivity|]. split; auto.
  Qed.
End CwSpec.

(* ================= one fault in the script (direct sink) ================= *)
Definition faulty (bad : resp) (kf : ioerr) : Prop :=
  (bad = Zero /\ kf = IoWriteZero) \/ (bad = Fail kf /\ is_interrupted kf = false).

Definition flush_status (fl : fresp) : iores unit :=
  match fl with FlushOk => IoOk tt | FlushFail k => IoErr k end.

Section SinkFault.
  Variable K : nat.            (* index of the faulty response = number of benign ones before it *)
  Variable bad : resp.
  Variable kf : ioerr.
  Variable post : list resp.
  Variable fl : fresp.
  Hypothesis Hbad : faulty bad kf.

  Definition armed (s : sink) : Prop :=
    exists pre, s_oracle s = pre ++ bad :: post /\ Forall benign pre /\ s_calls s + length pre = K /\
                s_fresp s = fl.
  Definition fired (s : sink) : Prop := s_calls s = S K.

  Lemma armed_calls s : armed s -> s_calls s <= K.
  Proof. intros (pre & _ & _ & H & _). lia. Qed.

  Lemma sink_fault_write : fault_write sink_write armed fired kf.
  Proof.
    intros s buf r s' (pre & Ho & Hb & Hk & Hfl) Hne H. unfold sink_write in H. rewrite Ho in H.
    destruct pre as [|p pre]; cbn [app] in H.
    - right. destruct Hbad as [[-> ->]|[-> Hi]]; inversion H; subst; clear H; unfold fired; cbn.
      + split; [cbn in Hk; lia|]. left; auto.
      + split; [cbn in Hk; lia|]. right; auto.
    - left. inversion Hb; subst. destruct p as [n| | |k]; cbn in H2; try contradiction;
        inversion H; subst; clear H.
      + split.
        * exists pre. cbn in *. repeat split; auto. lia.
        * left. destruct buf; [congruence|]. destruct n; [lia|]. cbn. eauto.
      + split.
        * exists pre. cbn in *. repeat split; auto. lia.
        * right; auto.
  Qed.

  Variable crc_update : N -> list N -> N.
  Variable masked : N -> N.
  Notation cww := (cw_write crc_update sink_writer false).
  Notation cwa := (cw_write_all crc_update sink_writer false).
  Notation cwc := (cw_write_chunks crc_update sink_writer false).
  Notation wa := (fun s : sink => length (s_data s)).
  Notation rcalls := (run_calls crc_update sink_writer false s_calls wa).
  Notation rfin := (run_finish crc_update masked sink_writer false).

  Definition armed_c (c : cw sink) := armed (c_inner c).
  Definition fired_c (c : cw sink) := fired (c_inner c).

  Lemma cw_fault_write : fault_write cww armed_c fired_c kf.
  Proof.
    intros c buf r c' Ha Hne H. unfold cw_write in H. cbv iota in H.
    destruct (w_write sink_writer (c_inner c) buf) as [r0 i'] eqn:E.
    pose proof (sink_write_sane _ _ _ _ Hne E) as [_ Hs].
    destruct (sink_fault_write _ _ _ _ Ha Hne E) as [[Ha1 [[n ->]| ->]]|[Hfi [[-> Hk]|[-> Hk]]]].
    - destruct Hs as (Hle & _). apply Nat.leb_le in Hle. rewrite Hle in H. inversion H; subst.
      left. split; [exact Ha1|]. eauto.
    - inversion H; subst. left. split; [exact Ha1|]. auto.
    - cbn in H. inversion H; subst. right. split; [exact Hfi|]. auto.
    - inversion H; subst. right. split; [exact Hfi|]. auto.
  Qed.

  Lemma cw_write_all_fault c buf : armed_c c ->
    exists c', (cwa c buf = (IoOk tt, c') /\ armed_c c') \/ (cwa c buf = (IoErr kf, c') /\ fired_c c').
  Proof.
    intros Ha. unfold cw_write_all, default_write_all.
    destruct (write_loop_fault cww (cw_budget sink_writer) (fun c => s_data (c_inner c))
                (cw_write_sane crc_update sink_writer s_data s_data sink_committed sink_sane)
                armed_c fired_c kf cw_fault_write
                (loop_fuel (cw_budget sink_writer) c buf) c buf Ha)
      as (c' & rest & [[H1 H2]|[H1 H2]]); [unfold loop_fuel; lia| |]; rewrite H1; eauto.
  Qed.

  Lemma cw_chunks_fault : forall chunks c, armed_c c ->
    exists c', (cwc c chunks = (IoOk tt, c') /\ armed_c c') \/ (cwc c chunks = (IoErr kf, c') /\ fired_c c').
  Proof.
    induction chunks as [|ch chunks IH]; intros c Ha; cbn [cw_write_chunks].
    - eauto.
    - destruct (cw_write_all_fault c ch Ha) as (c0 & [[-> Ha0]|[-> Hf0]]).
      + apply IH; auto.
      + eauto.
  Qed.

  (* what C11 says about one call record *)
  Definition before_fault (r : callres) : Prop := wc_of r <= K /\ st_of r = IoOk tt.
  Definition at_fault (r : callres) : Prop := wc_of r = S K /\ st_of r = IoErr kf.

  Lemma run_calls_fault : forall calls c, armed_c c ->
    exists rs c', (rcalls c calls = (rs, c', true) /\ armed_c c' /\ Forall before_fault rs) \/
                  (rcalls c calls = (rs, c', false) /\ fired_c c' /\
                   exists rs0 r, rs = rs0 ++ [r] /\ Forall before_fault rs0 /\ at_fault r).
  Proof.
    induction calls as [|ca calls IH]; intros c Ha; cbn [run_calls].
    - exists [], c. left. auto.
    - destruct (cw_chunks_fault ca c Ha) as (c0 & [[-> Ha0]|[-> Hf0]]).
      + destruct (IH c0 Ha0) as (rs & c' & [(-> & Ha' & Hf)|(-> & Hf' & rs0 & r & -> & Hf & Hr)]).
        * eexists _, c'. left. split; [reflexivity|]. split; auto. constructor; auto.
          split; [|reflexivity]. unfold mk_res, wc_of; cbn. apply armed_calls; exact Ha0.
        * eexists _, c'. right. split; [reflexivity|]. split; auto.
          eexists (_ :: rs0), r. split; [reflexivity|]. split; auto. constructor; auto.
          split; [|reflexivity]. unfold mk_res, wc_of; cbn. apply armed_calls; exact Ha0.
      + eexists _, c0. right. split; [reflexivity|]. split; auto.
        exists [], (mk_res s_calls wa (IoErr kf) c0). split; [reflexivity|]. split; auto.
        split; [|reflexivity]. exact Hf0.
  Qed.

  Lemma sink_write_all_fault s buf : armed s ->
    exists s', (default_write_all sink_write sink_budget s buf = (IoOk tt, s') /\ armed s') \/
               (default_write_all sink_write sink_budget s buf = (IoErr kf, s') /\ fired s').
  Proof.
    intros Ha. unfold default_write_all.
    destruct (write_loop_fault sink_write sink_budget s_data sink_write_sane armed fired kf
                               sink_fault_write (loop_fuel sink_budget s buf) s buf Ha)
      as (s' & rest & [[H1 H2]|[H1 H2]]); [unfold loop_fuel; lia| |]; rewrite H1; eauto.
  Qed.

  Lemma run_finish_fault c fin : armed_c c ->
    exists c', (rfin c fin = (flush_status fl, c') /\ s_calls (c_inner c') <= K) \/
               (rfin c fin = (IoErr kf, c') /\ fired_c c').
  Proof.
    intros Ha. unfold run_finish.
    destruct (cw_chunks_fault fin c Ha) as (c0 & [[-> Ha0]|[-> Hf0]]); [|eauto].
    cbn [w_write_all sink_writer].
    destruct (sink_write_all_fault (c_inner c0) (le32 (masked (c_sum c0))) Ha0) as (s1 & [[-> Ha1]|[-> Hf1]]).
    - cbn [w_flush sink_writer]. unfold sink_flush.
      pose proof (armed_calls _ Ha1) as Hc. destruct Ha1 as (pre & _ & _ & _ & Hfl). rewrite Hfl.
      destruct fl; eexists; left; split; try reflexivity; cbn; auto.
    - eexists. right. split; [reflexivity|]. exact Hf1.
  Qed.

  Theorem sink_session_fault pre prefill calls fin :
    Forall benign pre -> length pre = K ->
    let o := run_sink_session crc_update masked false (pre ++ bad :: post) fl prefill calls fin in
    match o_fin o with
    | Some rf => Forall before_fault (o_calls o) /\ wc_of rf = s_calls (o_final o) /\
                 ((wc_of rf <= K /\ st_of rf = flush_status fl) \/ at_fault rf)
    | None => exists rs0 r, o_calls o = rs0 ++ [r] /\ Forall before_fault rs0 /\ at_fault r
    end.
  Proof.
    intros Hb HK. cbv zeta. unfold run_sink_session, run_session.
    assert (Ha : armed_c (mkCw (new_sink (pre ++ bad :: post) fl prefill) 0%N 0%N)).
    { exists pre. cbn. auto. }
    destruct (run_calls_fault calls _ Ha) as (rs & c' & [(-> & Ha' & Hf)|(-> & Hf' & Hex)]).
    - destruct (run_finish_fault c' fin Ha') as (c2 & [[-> Hc]|[-> Hf2]]); cbn.
      + split; auto.
      + split; auto. split; auto. right. split; [exact Hf2|reflexivity].
    - cbn. exact Hex.
  Qed.
End SinkFault.

(* ================= the two concrete stacks ================= *)
Lemma new_sink_good oracle fl prefill : Forall benign oracle -> sink_good fl (new_sink oracle fl prefill).
Proof. intros H. split; auto. Qed.

Section Stacks.
  Variable crc_update : N -> list N -> N.
  Variable masked : N -> N.
  Variable okS : N -> Prop.
  Variable okB : list N -> Prop.
  Hypothesis Hlaw : cond_law crc_update okS okB.

  Definition sess_bytes (calls : list (list (list N))) (fin : list (list N)) : list N :=
    concat (concat calls) ++ concat fin.
  Definition file_bytes (calls : list (list (list N))) (fin : list (list N)) : list N :=
    sess_bytes calls fin ++ le32 (masked (crc_update 0%N (sess_bytes calls fin))).

  (* write_all (the default loop) on the scripted sink: any fuel >= len buf + len oracle + 1
     is enough, because every iteration takes at least one byte or consumes one response, and an
     exhausted script accepts everything *)
  Theorem write_all_delivers_fuel (s : sink) buf fuel :
    Forall benign (s_oracle s) -> length buf + length (s_oracle s) + 1 <= fuel ->
    exists s', write_loop sink_write fuel s buf = (IoOk tt, s', []) /\
               s_data s' = s_data s ++ buf /\ Forall benign (s_oracle s') /\
               length (s_oracle s') <= length (s_oracle s).
  Proof.
    intros Hb Hf.
    destruct (write_loop_good _ _ _ sink_write_sane _ (sink_write_good (s_fresp s)) fuel s buf)
      as (s' & H1 & [H2 _] & H3 & H4); [split; auto|exact Hf|].
    exists s'. auto.
  Qed.

  Theorem write_all_delivers_sink (s : sink) buf :
    Forall benign (s_oracle s) ->
    exists s', w_write_all sink_writer s buf = (IoOk tt, s') /\ s_data s' = s_data s ++ buf /\
               Forall benign (s_oracle s').
  Proof.
    intros Hb. cbn [w_write_all sink_writer].
    destruct (sink_write_all_good (s_fresp s) s buf) as (s' & H1 & [H2 _] & H3); [split; auto|].
    exists s'. auto.
  Qed.

  (* ---- direct sink ---- *)
  Notation sink_sess := (run_sink_session crc_update masked false).

  Theorem sink_session_good oracle prefill calls fin :
    Forall (Forall okB) calls -> Forall okB fin -> Forall benign oracle ->
    let o := sink_sess oracle FlushOk prefill calls fin in
    Forall (fun r => st_of r = IoOk tt) (o_calls o) /\ length (o_calls o) = length calls /\
    (exists rf, o_fin o = Some rf /\ st_of rf = IoOk tt /\ bw_of rf = len (sess_bytes calls fin)) /\
    s_data (o_final o) = prefill ++ file_bytes calls fin /\ sink_committed (o_final o) /\
    map bw_of (o_calls o) = cum_lens 0%N calls.
  Proof.
    intros Hokc Hokf Hb.
    exact (session_good crc_update masked okS okB Hlaw sink_writer s_data s_data sink_committed
             sink_sane s_calls (fun s => length (s_data s)) (fun _ => eq_refl)
             (sink_good FlushOk) (sink_write_good FlushOk) sink_good_writer
             (new_sink oracle FlushOk prefill) calls fin Hokc Hokf (new_sink_good _ _ _ Hb)).
  Qed.

  Theorem sink_session_sane oracle fl prefill calls fin :
    Forall (Forall okB) calls -> Forall okB fin ->
    let o := sink_sess oracle fl prefill calls fin in
    Forall (res_sane prefill) (o_calls o) /\
    match o_fin o with
    | None => exists rs0 r k, o_calls o = rs0 ++ [r] /\ Forall (fun r => is_ok (st_of r)) rs0 /\
                              st_of r = IoErr k /\ length (o_calls o) <= length calls
    | Some rf =>
      Forall (fun r => is_ok (st_of r)) (o_calls o) /\ length (o_calls o) = length calls /\
      ok_or_err (st_of rf) /\
      (st_of rf = IoOk tt ->
         s_data (o_final o) = prefill ++ file_bytes calls fin /\
         bw_of rf = len (sess_bytes calls fin) /\ sink_committed (o_final o) /\
         map bw_of (o_calls o) = cum_lens 0%N calls)
    end.
  Proof.
    exact (session_sane crc_update masked okS okB Hlaw sink_writer s_data s_data sink_committed
             sink_sane s_calls (fun s => length (s_data s)) (fun _ => eq_refl)
             (new_sink oracle fl prefill) calls fin).
  Qed.

  Theorem sink_calls_count oracle fl prefill calls : Forall (Forall okB) calls ->
    let '(rs, c, _) := run_calls crc_update sink_writer false s_calls (fun s => length (s_data s))
                                 (mkCw (new_sink oracle fl prefill) 0%N 0%N) calls in
    (exists bytes, s_data (c_inner c) = prefill ++ bytes /\ c_cnt c = len bytes /\
                   c_sum c = crc_update 0%N bytes) /\
    Forall (fun r => ok_or_err (st_of r) /\ N.of_nat (wa_of r) = (len prefill + bw_of r)%N) rs.
  Proof.
    exact (calls_count crc_update okS okB Hlaw sink_writer s_data s_data sink_committed
             sink_sane s_calls (fun s => length (s_data s)) (fun _ => eq_refl)
             (new_sink oracle fl prefill) calls).
  Qed.

  (* benign script, failing flush: everything is accepted, into_inner returns the flush error *)
  Theorem sink_session_flush oracle fl prefill calls fin :
    Forall (Forall okB) calls -> Forall okB fin -> Forall benign oracle ->
    let o := sink_sess oracle fl prefill calls fin in
    Forall (fun r => st_of r = IoOk tt) (o_calls o) /\ length (o_calls o) = length calls /\
    (exists rf, o_fin o = Some rf /\ st_of rf = flush_status fl) /\
    s_data (o_final o) = prefill ++ file_bytes calls fin.
  Proof.
    intros Hokc Hokf Hb. cbv zeta.
    pose proof (sink_session_sane oracle fl prefill calls fin Hokc Hokf) as Hs. cbv zeta in Hs.
    unfold run_sink_session, run_session in *.
    pose proof (new_sink_good oracle fl prefill Hb) as Hg.
    destruct (run_calls_good crc_update sink_writer s_data s_data sink_committed sink_sane s_calls
                (fun s => length (s_data s)) (sink_good fl) (sink_write_good fl) calls
                (mkCw (new_sink oracle fl prefill) 0%N 0%N) Hg) as (rs & c & E & Hg').
    rewrite E in *.
    pose proof (calls_count crc_update okS okB Hlaw sink_writer s_data s_data sink_committed
             sink_sane s_calls (fun s => length (s_data s)) (fun _ => eq_refl)
             (new_sink oracle fl prefill) calls Hokc) as Hcnt. rewrite E in Hcnt.
    pose proof (run_calls_sane crc_update okS okB Hlaw sink_writer s_data s_data sink_committed sink_sane
                  s_calls (fun s => length (s_data s)) (fun _ => eq_refl) prefill calls _ _ _ _ Hokc
                  (cw_inv_init crc_update okS okB Hlaw s_data (new_sink oracle fl prefill)) E)
      as (Hi & _ & _ & Ht & _).
    destruct (Ht eq_refl) as (_ & _ & Hacc & _). unfold cacc in Hacc; cbn in Hacc.
    unfold run_finish in *.
    destruct (cw_chunks_good crc_update sink_writer s_data s_data sink_committed sink_sane
                (sink_good fl) (sink_write_good fl) fin c Hg') as (c0 & E0 & Hg0).
    pose proof (cw_chunks_sane crc_update okS okB Hlaw sink_writer s_data s_data sink_committed sink_sane
                  prefill fin c _ _ Hokf Hi E0) as ((bytes & Hb1 & Hb2 & Hb3 & _) & _ & Hacc0).
    unfold cacc in Hacc0.
    rewrite E0 in *. cbn [w_write_all sink_writer w_flush] in *.
    destruct (sink_write_all_good fl (c_inner c0) (le32 (masked (c_sum c0))) Hg0) as (s1 & E1 & [_ Hfl1] & Hd1).
    rewrite E1 in *. unfold sink_flush in *. rewrite Hfl1 in *.
    assert (Hdata : s_data s1 = prefill ++ file_bytes calls fin).
    { rewrite Hd1, Hb3. rewrite Hacc0, Hacc in Hb1. rewrite <- app_assoc in Hb1.
      apply app_inv_head in Hb1. subst bytes. rewrite Hacc0, Hacc. unfold file_bytes, sess_bytes.
      rewrite <- !app_assoc. reflexivity. }
    destruct fl; cbn in *; destruct Hs as (_ & A & B & _); repeat split; auto; eexists; split; reflexivity.
  Qed.

  (* ---- BufWriter over the scripted sink ---- *)
  Notation buf_sess := (run_buf_session crc_update masked false).
  Notation bw_wa := (fun b : bufw sink => length (s_data (b_inner b)) + length (b_buf b)).

  Lemma bw_wa_ok : forall b : bufw sink, bw_wa b = length (bacc s_data b).
  Proof. intros b. unfold bacc. now rewrite app_length. Qed.

  Theorem buf_session_good cap oracle prefill calls fin :
    Forall (Forall okB) calls -> Forall okB fin -> Forall benign oracle ->
    let o := buf_sess cap oracle FlushOk prefill calls fin in
    Forall (fun r => st_of r = IoOk tt) (o_calls o) /\ length (o_calls o) = length calls /\
    (exists rf, o_fin o = Some rf /\ st_of rf = IoOk tt /\ bw_of rf = len (sess_bytes calls fin)) /\
    s_data (b_inner (o_final o)) = prefill ++ file_bytes calls fin /\
    b_buf (o_final o) = [] /\ sink_committed (b_inner (o_final o)) /\
    map bw_of (o_calls o) = cum_lens 0%N calls.
  Proof.
    intros Hokc Hokf Hb.
    pose proof (session_good crc_update masked okS okB Hlaw (bufw_writer sink_writer)
             (bacc s_data) (bphys s_data) (bflushed sink_committed)
             (bufw_sane sink_writer s_data s_data sink_committed sink_sane)
             (fun b => s_calls (b_inner b)) bw_wa bw_wa_ok
             (bgood (sink_good FlushOk))
             (gw_write _ _ (bufw_good sink_writer s_data s_data sink_committed sink_sane _ sink_good_writer))
             (bufw_good sink_writer s_data s_data sink_committed sink_sane _ sink_good_writer)
             (mkBuf (new_sink oracle FlushOk prefill) [] cap) calls fin Hokc Hokf (new_sink_good _ _ _ Hb)) as H.
    cbv zeta in *. unfold bacc, bphys, bflushed in H. cbn [b_inner b_buf new_sink s_data] in H.
    rewrite app_nil_r in H. destruct H as (A & B & C & D & (E & F) & G).
    split; [exact A|]. split; [exact B|]. split; [exact C|]. split; [exact D|].
    split; [exact F|]. split; [exact E|exact G].
  Qed.

  Theorem buf_session_sane cap oracle fl prefill calls fin :
    Forall (Forall okB) calls -> Forall okB fin ->
    let o := buf_sess cap oracle fl prefill calls fin in
    Forall (res_sane prefill) (o_calls o) /\
    match o_fin o with
    | None => exists rs0 r k, o_calls o = rs0 ++ [r] /\ Forall (fun r => is_ok (st_of r)) rs0 /\
                              st_of r = IoErr k /\ length (o_calls o) <= length calls
    | Some rf =>
      Forall (fun r => is_ok (st_of r)) (o_calls o) /\ length (o_calls o) = length calls /\
      ok_or_err (st_of rf) /\
      (st_of rf = IoOk tt ->
         s_data (b_inner (o_final o)) = prefill ++ file_bytes calls fin /\
         bw_of rf = len (sess_bytes calls fin) /\
         (sink_committed (b_inner (o_final o)) /\ b_buf (o_final o) = []) /\
         map bw_of (o_calls o) = cum_lens 0%N calls)
    end.
  Proof.
    intros Hokc Hokf.
    pose proof (session_sane crc_update masked okS okB Hlaw (bufw_writer sink_writer)
             (bacc s_data) (bphys s_data) (bflushed sink_committed)
             (bufw_sane sink_writer s_data s_data sink_committed sink_sane)
             (fun b => s_calls (b_inner b)) bw_wa bw_wa_ok
             (mkBuf (new_sink oracle fl prefill) [] cap) calls fin Hokc Hokf) as H.
    cbv zeta in *. unfold bacc, bphys, bflushed in H. cbn [b_inner b_buf new_sink s_data] in H.
    rewrite app_nil_r in H. exact H.
  Qed.

  Theorem buf_calls_count cap oracle fl prefill calls : Forall (Forall okB) calls ->
    let '(rs, c, _) := run_calls crc_update (bufw_writer sink_writer) false
                                 (fun b => s_calls (b_inner b)) bw_wa
                                 (mkCw (mkBuf (new_sink oracle fl prefill) [] cap) 0%N 0%N) calls in
    (exists bytes, s_data (b_inner (c_inner c)) ++ b_buf (c_inner c) = prefill ++ bytes /\
                   c_cnt c = len bytes /\ c_sum c = crc_update 0%N bytes) /\
    Forall (fun r => ok_or_err (st_of r) /\ N.of_nat (wa_of r) = (len prefill + bw_of r)%N) rs.
  Proof.
    intros Hokc.
    pose proof (calls_count crc_update okS okB Hlaw (bufw_writer sink_writer)
             (bacc s_data) (bphys s_data) (bflushed sink_committed)
             (bufw_sane sink_writer s_data s_data sink_committed sink_sane)
             (fun b => s_calls (b_inner b)) bw_wa bw_wa_ok
             (mkBuf (new_sink oracle fl prefill) [] cap) calls Hokc) as H.
    unfold bacc in H. cbn [b_inner b_buf new_sink s_data] in H. rewrite app_nil_r in H. exact H.
  Qed.
End Stacks.

(* ================= converse guard: a write after the last flush is seen ================= *)
(* bytes the sink holds = bytes committed by the last successful flush (d) + pending ones *)
Definition pending_inv (d f : nat) (s : sink) : Prop :=
  length (s_data s) = d + s_unflushed s /\ s_flushes s = f.

Lemma sink_write_pending d f s buf r s' :
  pending_inv d f s -> sink_write s buf = (r, s') -> pending_inv d f s'.
Proof.
  intros [H1 H2] H. apply sink_write_unflushed in H. destruct H as [H3 H4].
  unfold pending_inv. split; lia.
Qed.

Lemma write_all_pending d f s buf r s' :
  pending_inv d f s -> w_write_all sink_writer s buf = (r, s') -> pending_inv d f s'.
Proof.
  intros Hi H. cbn in H. unfold default_write_all in H.
  destruct (write_loop _ _ _ _) as [[r0 s0] rest] eqn:E. inversion H; subst; clear H.
  eapply (write_loop_inv sink_write (pending_inv d f) (fun _ => True)); [| |exact I|exact Hi|exact E]; auto.
  intros st b r1 st' _ _ Hs Hw. eapply sink_write_pending; eauto.
Qed.

(* any sink that accepts writes benignly and flushes successfully: `flush; write_all buf` leaves
   the bytes in the sink, the sink has been flushed - and the predicate does NOT hold *)
Theorem write_after_flush_not_committed (s : sink) (buf : list N) :
  Forall benign (s_oracle s) -> s_fresp s = FlushOk -> buf <> [] ->
  let s1 := snd (sink_flush s) in
  let s2 := snd (w_write_all sink_writer s1 buf) in
  fst (sink_flush s) = IoOk tt /\ fst (w_write_all sink_writer s1 buf) = IoOk tt /\
  s_data s2 = s_data s ++ buf /\ sink_flushed s2 /\ s_unflushed s2 = length buf /\
  ~ sink_committed s2.
Proof.
  intros Hb Hfl Hne. cbv zeta.
  set (s1 := mkSink (s_data s) (s_oracle s) (s_calls s) (s_fresp s) (S (s_flushes s)) 0).
  assert (Hf : sink_flush s = (IoOk tt, s1)) by (unfold sink_flush, s1; destruct (s_fresp s); [reflexivity|discriminate]).
  rewrite Hf. cbn [fst snd].
  destruct (write_all_delivers_sink s1 buf Hb) as (s2 & E & Hd & _).
  assert (Hp : pending_inv (length (s_data s)) (S (s_flushes s)) s1) by (split; cbn; lia).
  pose proof (write_all_pending _ _ _ _ _ _ Hp E) as [Hp1 Hp2].
  rewrite E. cbn [fst snd]. rewrite Hd, app_length in Hp1. cbn [s_data s1] in *.
  assert (Hu : s_unflushed s2 = length buf) by lia.
  split; [reflexivity|]. split; [reflexivity|]. split; [exact Hd|]. split; [unfold sink_flushed; lia|].
  split; [exact Hu|]. intros [_ H0]. destruct buf; [congruence|]. cbn [length] in Hu. lia.
Qed.

(* the seeded change C07-4 (Writer.run_finish_flush_first: `flush` before the checksum write) on a
   concrete session: same bytes as the real order, flushed once, into_inner returns Ok - but the 4
   checksum bytes are pending in a direct sink, resp. still in the buffer of a BufWriter (and
   pending in the sink after the BufWriter is dropped) *)
Definition flush_first_sink_session (oracle : list resp) (calls : list (list (list N))) fin :=
  let '(_, c, _) := run_calls standin_update sink_writer false s_calls (fun s => length (s_data s))
                              (mkCw (new_sink oracle FlushOk []) 0%N 0%N) calls in
  run_finish_flush_first standin_update standin_masked sink_writer false c fin.
Definition flush_first_buf_session (cap : nat) (oracle : list resp) (calls : list (list (list N))) fin :=
  let '(_, c, _) := run_calls standin_update (bufw_writer sink_writer) false (fun b => s_calls (b_inner b))
                              (fun b => length (s_data (b_inner b)) + length (b_buf b))
                              (mkCw (mkBuf (new_sink oracle FlushOk []) [] cap) 0%N 0%N) calls in
  run_finish_flush_first standin_update standin_masked (bufw_writer sink_writer) false c fin.

Lemma flush_first_is_seen :
  let good := run_sink_session standin_update standin_masked false [Accept 2; Interrupted] FlushOk []
                               [[[1; 2; 3]]; [[4]; [5; 6]]]%N [[7]]%N in
  let '(r, c) := flush_first_sink_session [Accept 2; Interrupted] [[[1; 2; 3]]; [[4]; [5; 6]]]%N [[7]]%N in
  let '(rb, cb) := flush_first_buf_session 8 [Accept 2; Interrupted] [[[1; 2; 3]]; [[4]; [5; 6]]]%N [[7]]%N in
  let dropped := bw_drop sink_writer (c_inner cb) in
  (sink_committed (o_final good) /\ length (s_data (o_final good)) = 11) /\
  (r = IoOk tt /\ s_data (c_inner c) = s_data (o_final good) /\ sink_flushed (c_inner c) /\
   s_unflushed (c_inner c) = 4 /\ ~ sink_committed (c_inner c)) /\
  (rb = IoOk tt /\ length (b_buf (c_inner cb)) = 4 /\ ~ buf_committed (c_inner cb) /\
   s_data (b_inner dropped) = s_data (o_final good) /\ sink_flushed (b_inner dropped) /\
   s_unflushed (b_inner dropped) = 4 /\ ~ sink_committed (b_inner dropped)).
Proof.
  vm_compute. repeat split; auto; try lia; try discriminate; intros [[_ H] ?] || intros [_ H]; discriminate.
Qed.

(* ================= the stand-in checksum satisfies the chunking law ================= *)
Lemma standin_app s a b : standin_update (standin_update s a) b = standin_update s (a ++ b).
Proof. unfold standin_update. now rewrite fold_left_app. Qed.
Lemma standin_nil s : standin_update s [] = s.
Proof. reflexivity. Qed.

(* ================= regression witness for the repaired defect ================= *)
(* A writer that checksums the whole buffer before the inner write (and again on every retry)
   computes a different sum as soon as one write is short or interrupted. *)
Definition old_witness_calls : list (list (list N)) := [[[1; 2; 3]]]%N.

Lemma old_behaviour_short_write :
  let o_old := run_sink_session standin_update standin_masked true [Accept 1; Accept 1; Accept 1] FlushOk [] old_witness_calls [] in
  let o_new := run_sink_session standin_update standin_masked false [Accept 1; Accept 1; Accept 1] FlushOk [] old_witness_calls [] in
  let m := mem_session standin_update standin_masked old_witness_calls [] in
  s_data (o_final o_new) = s_data (o_final m) /\
  s_data (o_final o_old) <> s_data (o_final m) /\
  o_sum o_old <> standin_update 0%N [1; 2; 3]%N /\
  o_sum o_new = standin_update 0%N [1; 2; 3]%N /\
  firstn 3 (s_data (o_final o_old)) = [1; 2; 3]%N.
Proof. vm_compute. repeat split; discriminate. Qed.

Lemma old_behaviour_interrupted :
  let o_old := run_sink_session standin_update standin_masked true [Interrupted] FlushOk [] old_witness_calls [] in
  let m := mem_session standin_update standin_masked old_witness_calls [] in
  s_data (o_final o_old) <> s_data (o_final m) /\ o_cnt o_old = 3%N.
Proof. vm_compute. repeat split; discriminate. Qed.

(* helpers for instantiating the restricted law with no restriction *)
Lemma forall_true {A} (l : list A) : Forall (fun _ => True) l.
Proof. induction l; constructor; auto. Qed.
Lemma forall_forall_true {A} (l : list (list A)) : Forall (Forall (fun _ => True)) l.
Proof. induction l; constructor; auto using forall_true. Qed.
