(* PackProofs.v — facts about Pack.v (little-endian packed integers) and the big-endian
   readers of Format.v over the reversed bytes. *)
Require Import FstV.Base FstV.Pack FstV.Node FstV.Format.
From Coq Require Import ZArith ZifyN ZifyBool ZifyNat.
Ltac Zify.zify_post_hook ::= Z.div_mod_to_equations.
Local Open Scope N_scope.

(* ---------- le_bytes / le_value ---------- *)
Lemma le_bytes_length n k : length (le_bytes n k) = k.
Proof. revert n; induction k; intros; cbn [le_bytes length]; auto. Qed.

Lemma le_bytes_byte n k : Forall (fun b => b < 256) (le_bytes n k).
Proof.
  revert n; induction k; intros; cbn [le_bytes]; constructor; auto.
  apply N.mod_lt. lia.
Qed.

Lemma pow256_succ k : 256 ^ N.of_nat (S k) = 256 * 256 ^ N.of_nat k.
Proof. rewrite Nat2N.inj_succ, N.pow_succ_r'. reflexivity. Qed.

Lemma le_value_le_bytes k : forall n, n < 256 ^ N.of_nat k -> le_value (le_bytes n k) = n.
Proof.
  induction k; intros n H.
  - change (256 ^ N.of_nat 0) with 1 in H. cbn [le_bytes le_value]. lia.
  - rewrite pow256_succ in H. cbn [le_bytes le_value].
    rewrite IHk.
    + lia.
    + set (p := 256 ^ N.of_nat k) in *. clearbody p. lia.
Qed.

Lemma le_value_bound l : Forall (fun b => b < 256) l -> le_value l < 256 ^ N.of_nat (length l).
Proof.
  induction 1.
  - cbn. change (256 ^ 0) with 1. lia.
  - cbn [length le_value]. rewrite pow256_succ.
    set (p := 256 ^ N.of_nat (length l)) in *. clearbody p. lia.
Qed.

(* ---------- pack_size ---------- *)
Lemma pack_size_range n : 1 <= pack_size n /\ pack_size n <= 8.
Proof.
  unfold pack_size.
  repeat match goal with |- context [if ?c then _ else _] => destruct c end; lia.
Qed.

Lemma pack_size_cases n :
  (pack_size n = 1 /\ n < 256) \/ (pack_size n = 2 /\ n < 65536) \/ (pack_size n = 3 /\ n < 16777216) \/
  (pack_size n = 4 /\ n < 4294967296) \/ (pack_size n = 5 /\ n < 1099511627776) \/
  (pack_size n = 6 /\ n < 281474976710656) \/ (pack_size n = 7 /\ n < 72057594037927936) \/
  (pack_size n = 8).
Proof.
  unfold pack_size.
  repeat match goal with |- context [if ?a <? ?b then _ else _] => destruct (N.ltb_spec a b) end;
    try (left; split; [reflexivity|assumption]); right;
    try (left; split; [reflexivity|assumption]); right;
    try (left; split; [reflexivity|assumption]); right;
    try (left; split; [reflexivity|assumption]); right;
    try (left; split; [reflexivity|assumption]); right;
    try (left; split; [reflexivity|assumption]); right;
    try (left; split; [reflexivity|assumption]); right; reflexivity.
Qed.

Lemma pack_size_bound n : n < 18446744073709551616 -> n < 256 ^ pack_size n.
Proof.
  intros H.
  destruct (pack_size_cases n) as [[-> ?]|[[-> ?]|[[-> ?]|[[-> ?]|[[-> ?]|[[-> ?]|[[-> ?]| ->]]]]]]].
  - change (256 ^ 1) with 256. assumption.
  - change (256 ^ 2) with 65536. assumption.
  - change (256 ^ 3) with 16777216. assumption.
  - change (256 ^ 4) with 4294967296. assumption.
  - change (256 ^ 5) with 1099511627776. assumption.
  - change (256 ^ 6) with 281474976710656. assumption.
  - change (256 ^ 7) with 72057594037927936. assumption.
  - change (256 ^ 8) with 18446744073709551616. assumption.
Qed.

Lemma pow256_mono a b : a <= b -> 256 ^ a <= 256 ^ b.
Proof. intros. apply N.pow_le_mono_r; lia. Qed.

(* a value that fits its pack size fits any larger size *)
Lemma pack_size_fits n s : n < 18446744073709551616 -> pack_size n <= s -> n < 256 ^ s.
Proof.
  intros H1 H2. eapply N.lt_le_trans; [apply pack_size_bound; assumption|apply pow256_mono; assumption].
Qed.

Lemma pack_uint_in_ok n s : 1 <= s -> s <= 8 -> pack_uint_in n s = Ok (le_bytes n (N.to_nat s)).
Proof.
  intros. unfold pack_uint_in.
  destruct (N.leb_spec 1 s); [|lia]. destruct (N.leb_spec s 8); [|lia]. reflexivity.
Qed.

(* ---------- big-endian reads of reversed little-endian bytes ---------- *)
Fixpoint be_value (l : list N) (acc : N) : N :=
  match l with [] => acc | b :: r => be_value r (acc * 256 + b) end.

Lemma take_be_app l : forall r acc, take_be (length l) (l ++ r) acc = Some (be_value l acc, r).
Proof. induction l; intros; cbn [length take_be app be_value]; auto. Qed.

Lemma be_value_snoc l : forall b acc, be_value (l ++ [b]) acc = be_value l acc * 256 + b.
Proof. induction l; intros; cbn [app be_value]; auto. Qed.

Lemma be_value_rev l : be_value (rev l) 0 = le_value l.
Proof.
  induction l; cbn [rev be_value le_value]; auto.
  rewrite be_value_snoc, IHl. lia.
Qed.

Lemma take_be_rev l r : take_be (length l) (rev l ++ r) 0 = Some (le_value l, r).
Proof. rewrite <- (rev_length l), take_be_app, be_value_rev. reflexivity. Qed.

Lemma take_be_rev' k l r : length l = k -> take_be k (rev l ++ r) 0 = Some (le_value l, r).
Proof. intros <-. apply take_be_rev. Qed.

Lemma take_be_le_bytes k n r : n < 256 ^ N.of_nat k ->
  take_be k (rev (le_bytes n k) ++ r) 0 = Some (n, r).
Proof.
  intros H. rewrite (take_be_rev' k) by apply le_bytes_length.
  rewrite le_value_le_bytes; auto.
Qed.

Lemma take_be_zero l : take_be 0 l 0 = Some (0, l).
Proof. reflexivity. Qed.

Lemma take_n_app {A} (l : list A) : forall r, take_n (length l) (l ++ r) = Some (l, r).
Proof.
  induction l; intros; cbn [length take_n app]; auto. rewrite IHl. reflexivity.
Qed.

Lemma take_n_app' {A} k (l r : list A) : length l = k -> take_n k (l ++ r) = Some (l, r).
Proof. intros <-. apply take_n_app. Qed.

(* take_nums over a concatenation of reversed chunks of width k *)
Lemma take_nums_chunks k (ls : list (list N)) : forall r,
  Forall (fun l => length l = k) ls ->
  take_nums (length ls) k (concat (map (@rev N) ls) ++ r) = Some (map le_value ls, r).
Proof.
  induction ls as [|l ls IH]; intros r H; cbn [length take_nums map concat app]; auto.
  inversion H; subst. rewrite <- app_assoc, take_be_rev. rewrite IH by assumption. reflexivity.
Qed.

Lemma take_nums_le_bytes k (xs : list N) r :
  Forall (fun x => x < 256 ^ N.of_nat k) xs ->
  take_nums (length xs) k (concat (map (fun x => rev (le_bytes x k)) xs) ++ r) = Some (xs, r).
Proof.
  intros H.
  replace (map (fun x => rev (le_bytes x k)) xs) with (map (@rev N) (map (fun x => le_bytes x k) xs))
    by (rewrite map_map; reflexivity).
  rewrite <- (map_length (fun x => le_bytes x k) xs).
  rewrite take_nums_chunks.
  - f_equal. f_equal. rewrite map_map. rewrite <- (map_id xs) at 2. apply map_ext_in.
    intros x Hx. apply le_value_le_bytes. rewrite Forall_forall in H. auto.
  - apply Forall_forall. intros l Hl. apply in_map_iff in Hl. destruct Hl as [x [<- _]].
    apply le_bytes_length.
Qed.

(* width 0: every number is 0 *)
Lemma take_nums_zero n l : take_nums n 0 l = Some (repeat 0 n, l).
Proof. induction n; cbn [take_nums repeat take_be]; auto. rewrite IHn. reflexivity. Qed.

(* ---------- rev / concat algebra ---------- *)
Lemma rev_concat {A} (ls : list (list A)) : rev (concat ls) = concat (map (@rev A) (rev ls)).
Proof.
  induction ls as [|l ls IH]; cbn [concat rev map]; auto.
  rewrite rev_app_distr, IH, map_app, concat_app. cbn [map concat]. rewrite app_nil_r. reflexivity.
Qed.

Lemma len_app {A} (a b : list A) : len (a ++ b) = len a + len b.
Proof. unfold len. rewrite app_length. lia. Qed.

Lemma length_concat_const {A} k (ls : list (list A)) :
  Forall (fun l => length l = k) ls -> length (concat ls) = (length ls * k)%nat.
Proof.
  induction 1; cbn [concat length]; auto. rewrite app_length, IHForall, H. lia.
Qed.

(* ---------- inversion: what a successful read says about the input ---------- *)
Lemma take_be_inv_be k : forall l acc x r, take_be k l acc = Some (x, r) ->
  exists c, length c = k /\ l = c ++ r /\ x = be_value c acc.
Proof.
  induction k; intros l acc x r H; cbn [take_be] in H.
  - inversion H; subst. exists []. auto.
  - destruct l as [|b l']; [discriminate|]. apply IHk in H. destruct H as [c [H1 [H2 H3]]].
    exists (b :: c). cbn [length app be_value]. subst. auto.
Qed.

(* [c] is the chunk in ascending-address (little-endian) order *)
Lemma take_be_inv k l x r : take_be k l 0 = Some (x, r) ->
  exists c, length c = k /\ l = rev c ++ r /\ x = le_value c.
Proof.
  intros H. apply take_be_inv_be in H. destruct H as [c [H1 [H2 H3]]].
  exists (rev c). rewrite rev_length, rev_involutive. repeat split; auto.
  rewrite <- be_value_rev, rev_involutive. assumption.
Qed.

Lemma take_n_inv {A} k : forall (l a b : list A), take_n k l = Some (a, b) -> length a = k /\ l = a ++ b.
Proof.
  induction k; intros l a b H; cbn [take_n] in H.
  - inversion H; subst. auto.
  - destruct l as [|x l']; [discriminate|]. destruct (take_n k l') as [[a' b']|] eqn:E; [|discriminate].
    inversion H; subst. apply IHk in E. destruct E as [E1 E2]. subst. auto.
Qed.

Lemma take_nums_inv n k : forall l xs r, take_nums n k l = Some (xs, r) ->
  exists cs, length cs = n /\ Forall (fun c => length c = k) cs /\
             l = concat (map (@rev N) cs) ++ r /\ xs = map le_value cs.
Proof.
  induction n; intros l xs r H; cbn [take_nums] in H.
  - inversion H; subst. exists []. auto.
  - destruct (take_be k l 0) as [[x r1]|] eqn:E1; [|discriminate].
    destruct (take_nums n k r1) as [[xs' r']|] eqn:E2; [|discriminate].
    inversion H; subst. apply take_be_inv in E1. destruct E1 as [c [C1 [C2 C3]]].
    apply IHn in E2. destruct E2 as [cs [D1 [D2 [D3 D4]]]].
    exists (c :: cs). cbn [length map concat]. subst. rewrite <- app_assoc. auto.
Qed.

Lemma nth_error_rev {A} (l : list A) j : (j < length l)%nat ->
  nth_error (rev l) j = nth_error l (length l - 1 - j).
Proof.
  intros H. rewrite <- (rev_involutive l) at 2.
  destruct (nth_error (rev l) j) eqn:E.
  - symmetry. rewrite <- rev_length. rewrite <- E.
    rewrite (nth_error_nth' (rev (rev l)) a), (nth_error_nth' (rev l) a);
      rewrite ?rev_length; try lia.
    f_equal. rewrite rev_nth; rewrite rev_length; try lia. f_equal. lia.
  - apply nth_error_None in E. rewrite rev_length in E. lia.
Qed.

Print Assumptions le_value_le_bytes.
Print Assumptions pack_size_range.
Print Assumptions pack_size_bound.
Print Assumptions take_be_le_bytes.
Print Assumptions take_nums_le_bytes.
