Require Import FstV.Base FstV.Pack FstV.Node FstV.GraphSem FstV.Format FstV.CodecSpec FstV.Generated.SrcParams.
Require Import Lia ZifyN ZifyBool ZifyNat.
(* BuilderNodeBytes.v — everything Node::compile writes is a byte (< 256). *)
Require Import ZArith.
Open Scope N_scope.
Ltac Zify.zify_post_hook ::= Z.div_mod_to_equations.

Notation BY := (fun b : N => b < 256).

(* ---------- packing ---------- *)
Lemma le_bytes_bytes k : forall n, Forall BY (le_bytes n k).
Proof.
  induction k as [|k IH]; intros n; cbn [le_bytes]; constructor; auto.
  apply N.mod_lt; lia.
Qed.

Lemma pack_size_bounds n : 1 <= pack_size n /\ pack_size n <= 8.
Proof. unfold pack_size. repeat (destruct (_ <? _)); lia. Qed.

Lemma pack_uint_in_bytes n k bs : pack_uint_in n k = Ok bs -> Forall BY bs.
Proof.
  unfold pack_uint_in. destruct (_ && _); [|discriminate].
  intros H; inversion H; apply le_bytes_bytes.
Qed.

Lemma pack_delta_in_bytes a b k bs : pack_delta_in a b k = Ok bs -> Forall BY bs.
Proof.
  unfold pack_delta_in. destruct (delta_of a b); cbn [bind]; try discriminate.
  apply pack_uint_in_bytes.
Qed.

Lemma pack_delta_size_bound a b k : pack_delta_size a b = Ok k -> k <= 8.
Proof.
  unfold pack_delta_size. destruct (delta_of a b) as [d| |]; cbn [bind]; try discriminate.
  intros H; inversion H. apply pack_size_bounds.
Qed.

Lemma common_idx_le input m : common_idx input m <= m.
Proof.
  unfold common_idx.
  generalize ((nth (N.to_nat input) src_COMMON_INPUTS 0 + 1) mod 256); intros v.
  cbv zeta. destruct (m <? v) eqn:E; lia.
Qed.

(* ---------- list helpers ---------- *)
Lemma res_map_Forall {A B} (f : A -> res B) (P : B -> Prop) :
  forall l ys, res_map f l = Ok ys ->
    (forall x y, In x l -> f x = Ok y -> P y) -> Forall P ys.
Proof.
  induction l as [|x l IH]; intros ys H HP; cbn [res_map] in H.
  - inversion H; constructor.
  - destruct (f x) as [y| |] eqn:Ex; cbn [bind] in H; try discriminate.
    destruct (res_map f l) as [ys'| |] eqn:El; cbn [bind] in H; try discriminate.
    inversion H; subst. constructor.
    + apply (HP x); [left; reflexivity|assumption].
    + apply IH; [reflexivity|]. intros x0 y0 Hin; apply HP; right; assumption.
Qed.

Lemma fold_max_le b : forall l a, a <= b -> Forall (fun x => x <= b) l -> fold_left N.max l a <= b.
Proof.
  induction l as [|x l IH]; intros a Ha Hl; cbn [fold_left]; [assumption|].
  inversion Hl; subst. apply IH; [lia|assumption].
Qed.

Lemma set_nth_bytes x : x < 256 -> forall tbl k, Forall BY tbl -> Forall BY (set_nth tbl k x).
Proof.
  intros Hx. induction tbl as [|y tbl IH]; intros k H; cbn [set_nth]; [constructor|].
  inversion H; subst. destruct k; constructor; auto.
Qed.

Lemma repeatN_bytes x : x < 256 -> forall m, Forall BY (repeatN x m).
Proof. intros Hx. induction m; cbn [repeatN]; constructor; auto. Qed.

Lemma index_table_bytes : forall ts i tbl, Forall BY tbl -> Forall BY (index_table ts i tbl).
Proof.
  induction ts as [|t ts IH]; intros i tbl H; cbn [index_table]; [assumption|].
  apply IH. apply set_nth_bytes; [apply N.mod_lt; lia|assumption].
Qed.

Lemma single_bytes x : x < 256 -> Forall BY [x].
Proof. intros; constructor; [assumption|constructor]. Qed.

Ltac split_chunks := repeat match goal with
  | |- Forall (Forall _) (_ ++ _) => apply Forall_app; split
  | |- Forall (Forall _) (_ :: _) => apply Forall_cons
  | |- Forall (Forall _) [] => apply Forall_nil
  end.

(* ---------- the three node forms ---------- *)
Lemma compile_otn_bytes input cs :
  input < 256 -> compile_otn input = Ok cs -> Forall (Forall BY) cs.
Proof.
  intros Hi H. unfold compile_otn in H. cbv zeta in H. inversion H; subst; clear H.
  pose proof (common_idx_le input 63) as Hc.
  split_chunks.
  - destruct (common_input _); repeat constructor; assumption.
  - apply single_bytes. lia.
Qed.

Lemma compile_ot_bytes addr t cs :
  t_inp t < 256 -> compile_ot addr t = Ok cs -> Forall (Forall BY) cs.
Proof.
  intros Hi H. unfold compile_ot in H. cbv zeta in H.
  destruct (if t_out t =? 0 then Ok [] else _) as [obytes| |] eqn:Eo in H;
    cbn [bind] in H; try discriminate.
  destruct (pack_delta_size addr (t_addr t)) as [tsize| |] eqn:Ets; cbn [bind] in H; try discriminate.
  destruct (pack_delta_in addr (t_addr t) tsize) as [tbytes| |] eqn:Etb; cbn [bind] in H; try discriminate.
  inversion H; subst; clear H.
  pose proof (common_idx_le (t_inp t) 63) as Hc.
  pose proof (pack_delta_size_bound _ _ _ Ets) as Hts.
  pose proof (pack_size_bounds (t_out t)) as Hos.
  split_chunks.
  - destruct (t_out t =? 0).
    + inversion Eo; constructor.
    + destruct (pack_uint_in _ _) as [b| |] eqn:Eb; cbn [bind] in Eo; try discriminate.
      inversion Eo; subst. constructor; [|constructor]. eapply pack_uint_in_bytes; eassumption.
  - eapply pack_delta_in_bytes; eassumption.
  - apply single_bytes. destruct (t_out t =? 0); lia.
  - destruct (common_input _); repeat constructor; assumption.
  - apply single_bytes. lia.
Qed.

Lemma compile_any_bytes version addr n cs :
  (length (n_trans n) <= 256)%nat ->
  (forall t, In t (n_trans n) -> t_inp t < 256) ->
  compile_any version addr n = Ok cs -> Forall (Forall BY) cs.
Proof.
  intros Hlen Hin H. unfold compile_any in H. cbv zeta in H.
  remember (repeatN 255 256) as tbl0 eqn:Etbl.
  assert (Htbl : Forall BY tbl0) by (subst tbl0; apply repeatN_bytes; lia).
  clear Etbl.
  destruct (256 <? len (n_trans n)); [discriminate|].
  destruct (res_map (fun t => pack_delta_size addr (t_addr t)) (n_trans n)) as [tsizes| |] eqn:Ets;
    cbn [bind] in H; try discriminate.
  set (tsize := fold_left N.max tsizes 0) in *.
  set (osize := fold_left N.max (map (fun t => pack_size (t_out t)) (n_trans n)) (pack_size (n_fout n))) in *.
  set (any_outs := negb (n_fout n =? 0) || existsb (fun t => negb (t_out t =? 0)) (n_trans n)) in *.
  destruct (if any_outs && n_final n then _ else Ok []) as [fo| |] eqn:Efo in H;
    cbn [bind] in H; try discriminate.
  destruct (if any_outs then res_map _ _ else Ok []) as [outs| |] eqn:Eouts in H;
    cbn [bind] in H; try discriminate.
  destruct (res_map (fun t => pack_delta_in addr (t_addr t) tsize) (rev (n_trans n))) as [deltas| |] eqn:Ed;
    cbn [bind] in H; try discriminate.
  inversion H; subst cs; clear H.
  assert (Htsize : tsize <= 8).
  { apply fold_max_le; [lia|].
    eapply res_map_Forall; [exact Ets|]. cbv beta.
    intros x y _ Hy. eapply pack_delta_size_bound; eassumption. }
  assert (Hosize : osize <= 8).
  { apply fold_max_le; [apply pack_size_bounds|].
    apply Forall_map. apply Forall_forall. intros x _. apply pack_size_bounds. }
  assert (Hntr : len (n_trans n) <= 256) by (unfold len; lia).
  split_chunks.
  - destruct (any_outs && n_final n).
    + destruct (pack_uint_in _ _) as [b| |] eqn:Eb; cbn [bind] in Efo; try discriminate.
      inversion Efo; subst. constructor; [|constructor]. eapply pack_uint_in_bytes; eassumption.
    + inversion Efo; constructor.
  - destruct any_outs.
    + eapply res_map_Forall; [exact Eouts|]. cbv beta.
      intros x y _ Hy. eapply pack_uint_in_bytes; eassumption.
    + inversion Eouts; constructor.
  - eapply res_map_Forall; [exact Ed|]. cbv beta.
    intros x y _ Hy. eapply pack_delta_in_bytes; eassumption.
  - apply Forall_map. apply Forall_rev. apply Forall_forall. intros t Ht.
    apply single_bytes. apply Hin; assumption.
  - destruct ((2 <=? version) && _); [|constructor]. constructor; [|constructor].
    apply index_table_bytes. exact Htbl.
  - apply single_bytes. destruct any_outs; lia.
  - destruct (_ mod 64 =? 0); [|constructor]. constructor; [|constructor]. apply single_bytes.
    destruct (len (n_trans n) =? 256) eqn:E; lia.
  - apply single_bytes.
    destruct (n_final n); destruct (len (n_trans n) <=? 63) eqn:E; lia.
Qed.

(* everything Node::compile writes is a byte *)
Lemma compile_node_bytes version la addr n cs :
  bnode_ok la addr n -> compile_node version la addr n = Ok cs ->
  Forall (Forall (fun b => b < 256)) cs.
Proof.
  intros Hok H.
  destruct Hok as (Hlen & _ & _ & _ & Htr & _).
  assert (Hin : forall t, In t (n_trans n) -> t_inp t < 256) by (intros t Ht; apply Htr; assumption).
  unfold compile_node in H.
  destruct (n_trans n) as [|t [|t' r]] eqn:Etr.
  - destruct (n_final n && (n_fout n =? 0)).
    + inversion H; constructor.
    + eapply compile_any_bytes; [| |exact H]; rewrite Etr; assumption.
  - assert (Ht : t_inp t < 256) by (apply Hin; left; reflexivity).
    destruct (n_final n).
    + eapply compile_any_bytes; [| |exact H]; rewrite Etr; assumption.
    + destruct (_ && _).
      * eapply compile_otn_bytes; eassumption.
      * eapply compile_ot_bytes; eassumption.
  - eapply compile_any_bytes; [| |exact H]; rewrite Etr; assumption.
Qed.

Print Assumptions compile_node_bytes.
