(* NodeReader.v — reader = specification: where Format.spec_node parses a structurally valid
   node, Node::new and its accessors (Node.v part 2) return the same node and never panic. *)
Require Import FstV.Base FstV.Pack FstV.Node FstV.Format FstV.Reader FstV.GraphSem FstV.Fst
  FstV.ParamsTie FstV.CodecSpec FstV.proofs.PackProofs FstV.proofs.NodeReaderBase.
From Coq Require Import ZArith ZifyN ZifyBool ZifyNat.
Ltac Zify.zify_post_hook ::= Z.div_mod_to_equations.
Local Open Scope N_scope.

Definition agrees (v : nview) (a : N) (sn : snode) : Prop :=
  nv_addr v = a /\ nv_final v = sn_final sn /\ nv_fout v = sn_fout sn /\
  nv_trans v = sn_trans sn /\
  forall b, b < 256 -> nv_find v b = Ok (find_pos b (sn_trans sn) 0).

Lemma common_input_zero : common_input 0 = None.
Proof. reflexivity. Qed.
Lemma common_input_pos c : c <> 0 -> common_input c = Some (nth (N.to_nat (c - 1)) SrcParams.src_COMMON_INPUTS_INV 0).
Proof. intros H. unfold common_input. destruct (N.eqb_spec c 0); [contradiction|reflexivity]. Qed.

Lemma len_chunks k (cs : list (list N)) :
  Forall (fun c => length c = N.to_nat k) cs -> len (concat (map (@rev N) cs)) = len cs * k.
Proof.
  intros HF. unfold len. rewrite (length_concat_const (N.to_nat k)).
  - rewrite map_length. lia.
  - apply Forall_forall. intros x Hx. apply in_map_iff in Hx. destruct Hx as [y [<- Hy]].
    rewrite rev_length. rewrite Forall_forall in HF. auto.
Qed.

Lemma mul_slot j n k : j < n -> j * k + k <= n * k.
Proof.
  intros H. replace (j * k + k) with ((j + 1) * k) by lia. apply N.mul_le_mono_r. lia.
Qed.

Lemma match64 {T} (n : N) (x y z : T) :
  n <> 3 -> n <> 2 -> match n with 3 => x | 2 => y | _ => z end = z.
Proof.
  intros H3 H2. destruct n as [|[[|[]|]|[]|]]; try reflexivity; contradiction.
Qed.

Section Forms.
Variable get : N -> option N.
Variable a : N.
Variable rv : list N.
Hypothesis Hlen : len rv = a + 1.
Hypothesis Hget : forall p, p <= a -> get (a - p) = nth_error rv (N.to_nat p).
Hypothesis Ha0 : a <> 0.

Local Notation rdmid := (rd_mid get a rv Hlen Hget).
Local Notation unpackc := (unpack_chunk get a rv Hlen Hget).

Lemma unpack_chunk0 X c R k off :
  rv = X ++ rev c ++ R -> length c = N.to_nat k -> k <= 8 -> off + 1 = len X + k -> off <= a ->
  (if k =? 0 then Ok 0 else do at_ <- csub a off; unpack_uint get a at_ k) = Ok (le_value c).
Proof.
  intros Hrv Hc H8 Hoff Ha.
  destruct (N.eqb_spec k 0) as [E|E].
  - destruct c; [reflexivity|]. cbn [length] in Hc. lia.
  - rewrite csub_ok by assumption. cbn [bind]. eapply unpackc; eauto; lia.
Qed.

Lemma node_new_head version s r0 : rv = s :: r0 ->
  node_new get version a =
  (let v := s in let dlen := a + 1 in
  match v / 64 with
  | 3 => (* OneTransNext *)
    do e <- csub (dlen - 1) (input_len v);
    Ok (mkNode version (OneTransNext v) a e false 1 0 0)
  | 2 => (* OneTrans *)
    do i <- csub (dlen - 1) (input_len v + 1);
    do sizes <- rd get a i;
    do e <- csub (dlen - 1) (input_len v + 1 + tsize_of sizes + osize_of sizes);
    Ok (mkNode version (OneTrans v) a e false 1 sizes 0)
  | _ => (* AnyTrans *)
    do i <- csub (dlen - 1) (any_ntrans_len v + 1);
    do sizes <- rd get a i;
    do ntrans <- (if (v mod 64) =? 0
                  then do j <- csub dlen 2; do n <- rd get a j; Ok (if n =? 1 then 256 else n)
                  else Ok (v mod 64));
    let osize := osize_of sizes in
    let final_osize := if any_is_final v then osize else 0 in
    do e <- csub (dlen - 1) (any_ntrans_len v + 1 + total_trans_size version sizes ntrans
                              + ntrans * osize + final_osize);
    do fo <- (if (osize =? 0) || negb (any_is_final v) then Ok 0
              else do at_ <- csub (dlen - 1) (any_ntrans_len v + 1 + total_trans_size version sizes ntrans
                                               + ntrans * osize + osize);
                   unpack_uint get a at_ osize);
    Ok (mkNode version (AnyTrans v) a e (any_is_final v) ntrans sizes fo)
  end).
Proof.
  intros Hrv. unfold node_new.
  destruct (N.eqb_spec a EMPTY_ADDRESS) as [E|_]; [exfalso; apply Ha0; exact E|].
  rewrite (rd_pos get a rv Hlen Hget a 0%nat s) by (subst rv; reflexivity || lia).
  reflexivity.
Qed.

Lemma input_len_eq s : input_len s = if s mod 64 =? 0 then 1 else 0.
Proof.
  unfold input_len, common_input. destruct (s mod 64 =? 0); reflexivity.
Qed.

Lemma one_input_ok nd s r0 inp : rv = s :: r0 -> nd_start nd = a ->
  (s mod 64 = 0 /\ exists r, r0 = inp :: r) \/ (s mod 64 <> 0 /\ common_of (s mod 64) = Some inp) ->
  one_input get nd s = Ok inp.
Proof.
  intros Hrv Hst [[Hc [r Hr]]|[Hc Hco]]; unfold one_input; rewrite Hst.
  - rewrite Hc, common_input_zero. subst r0.
    assert (1 <= a) by (unfold len in Hlen; rewrite Hrv in Hlen; cbn [length] in Hlen; lia).
    rewrite csub_ok by assumption. cbn [bind].
    apply (rd_pos get a rv Hlen Hget (a - 1) 1%nat inp); [rewrite Hrv; reflexivity|lia].
  - rewrite common_of_eq in Hco by lia. rewrite Hco. reflexivity.
Qed.

Lemma concrete_ok version nd sn :
  node_new get version a = Ok nd -> nd_start nd = a ->
  nd_final nd = sn_final sn -> nd_fout nd = sn_fout sn ->
  transitions get nd = Ok (sn_trans sn) ->
  (forall b, b < 256 -> find_input get nd b = Ok (find_pos b (sn_trans sn) 0)) ->
  exists v, concrete_node_at get version a = Ok v /\ agrees v a sn.
Proof.
  intros H1 H2 H3 H4 H5 H6. unfold concrete_node_at. rewrite H1. cbn [bind]. rewrite H5. cbn [bind].
  eexists. split; [reflexivity|]. unfold agrees. cbn [nv_addr nv_final nv_fout nv_trans nv_find]. auto.
Qed.

(* a one-transition node: transitions / find_input from transition 0 *)
Lemma one_trans_ok nd t :
  nd_ntrans nd = 1 -> transition get nd 0 = Ok t -> transitions get nd = Ok [t].
Proof.
  intros Hn Ht. unfold transitions. rewrite Hn. change (N.to_nat 1) with 1%nat.
  cbn [transitions_from]. rewrite Ht. reflexivity.
Qed.

Lemma reader_otn version s r0 sn :
  rv = s :: r0 -> 192 <= s -> s < 256 ->
  spec_node version rv a = Some sn ->
  exists v, concrete_node_at get version a = Ok v /\ agrees v a sn.
Proof.
  intros Hrv Hs Hs' H.
  pose proof (node_new_head version s r0 Hrv) as Hnew. cbv zeta in Hnew.
  assert (s / 64 = 3) as E3 by lia. rewrite E3 in Hnew. clear E3.
  rewrite Hrv in H. unfold spec_node in H.
  destruct (N.leb_spec 192 s); [|lia].
  rewrite input_len_eq in Hnew.
  destruct (N.eqb_spec (s mod 64) 0) as [Hc|Hc].
  - destruct r0 as [|b r]; [discriminate|].
    destruct (N.leb_spec 2 a); [|discriminate]. inversion H; subst sn; clear H.
    rewrite csub_ok in Hnew by lia. cbn [bind] in Hnew.
    assert (Hin : forall nd, nd_start nd = a -> one_input get nd s = Ok b)
      by (intros; eapply one_input_ok; eauto).
    eapply concrete_ok; [exact Hnew|reflexivity..| |]; cbn [sn_trans].
    + apply one_trans_ok; [reflexivity|]. unfold transition. cbn [nd_state nd_end].
      change (negb (0 =? 0)) with false. cbv iota. rewrite Hin by reflexivity.
      cbn [bind]. rewrite csub_ok by lia. cbn [bind]. do 2 f_equal. lia.
    + intros x _. unfold find_input. cbn [nd_state]. rewrite Hin by reflexivity. reflexivity.
  - destruct (common_of (s mod 64)) as [b|] eqn:Hco; [|discriminate].
    destruct (N.leb_spec 1 a); [|discriminate]. inversion H; subst sn; clear H.
    rewrite csub_ok in Hnew by lia. cbn [bind] in Hnew.
    assert (Hin : forall nd, nd_start nd = a -> one_input get nd s = Ok b)
      by (intros; eapply one_input_ok; eauto).
    eapply concrete_ok; [exact Hnew|reflexivity..| |]; cbn [sn_trans].
    + apply one_trans_ok; [reflexivity|]. unfold transition. cbn [nd_state nd_end].
      change (negb (0 =? 0)) with false. cbv iota. rewrite Hin by reflexivity.
      cbn [bind]. rewrite csub_ok by lia. cbn [bind]. do 2 f_equal. lia.
    + intros x _. unfold find_input. cbn [nd_state]. rewrite Hin by reflexivity. reflexivity.
Qed.

Ltac regroup H := rewrite H; repeat rewrite <- app_assoc; cbn [app]; reflexivity.

Lemma reader_ot version s r0 sn :
  rv = s :: r0 -> 128 <= s -> s < 192 ->
  spec_node version rv a = Some sn ->
  exists v, concrete_node_at get version a = Ok v /\ agrees v a sn.
Proof.
  intros Hrv Hs Hs' H.
  pose proof (node_new_head version s r0 Hrv) as Hnew. cbv zeta in Hnew.
  assert (s / 64 = 2) as E3 by lia. rewrite E3 in Hnew. clear E3.
  rewrite Hrv in H. unfold spec_node in H.
  destruct (N.leb_spec 192 s); [lia|]. destruct (N.leb_spec 128 s); [|lia].
  cbv beta zeta in H.
  match type of H with match ?e with _ => _ end = _ => destruct e as [[[inp r1] used]|] eqn:Ehead; [|discriminate] end.
  assert (Hhead : exists ib, r0 = ib ++ r1 /\ len ib = input_len s /\ used = input_len s + 1 /\
                  forall nd, nd_start nd = a -> one_input get nd s = Ok inp).
  { rewrite input_len_eq. destruct (N.eqb_spec (s mod 64) 0) as [Hc|Hc].
    - destruct r0 as [|b r]; [discriminate|]. injection Ehead as E1 E2 E3; subst inp r1 used. exists [b].
      repeat split; auto. intros; eapply one_input_ok; eauto.
    - destruct (common_of (s mod 64)) as [b|] eqn:Hco; [|discriminate]. injection Ehead as E1 E2 E3; subst inp r1 used.
      exists []. repeat split; auto. intros; eapply one_input_ok; eauto. }
  clear Ehead. destruct Hhead as [ib [Hr0 [Hib [Hused Hin]]]].
  destruct r1 as [|sizes r2]; [discriminate|].
  set (tsize := sizes / 16) in *. set (osize := sizes mod 16) in *.
  destruct ((tsize =? 0) || (8 <? tsize) || (8 <? osize)) eqn:Eb; [discriminate|].
  assert (Hts : 1 <= tsize /\ tsize <= 8 /\ osize <= 8) by lia. clear Eb.
  destruct (take_be (N.to_nat tsize) r2 0) as [[delta r3]|] eqn:Ed; [|discriminate].
  destruct (take_be (N.to_nat osize) r3 0) as [[out r4]|] eqn:Eo; [|discriminate].
  apply take_be_inv in Ed. destruct Ed as [dc [Ldc [Hr2 Hdelta]]].
  apply take_be_inv in Eo. destruct Eo as [oc [Loc [Hr3 Hout]]].
  set (size := used + 1 + tsize + osize) in *.
  destruct (N.ltb_spec (a + 1) size) as [|Hsz]; [discriminate|].
  assert (Hrv' : rv = [s] ++ ib ++ [sizes] ++ rev dc ++ rev oc ++ r4)
    by (rewrite Hrv, Hr0, Hr2, Hr3; reflexivity).
  assert (Hl : 1 + len ib + 1 + tsize + osize + len r4 = a + 1).
  { rewrite <- Hlen, Hrv'. repeat rewrite len_app. unfold len. rewrite !rev_length, Ldc, Loc.
    cbn [length]. lia. }
  clear Hrv Hr0 Hr2 Hr3 r0 r2 r3.
  remember (input_len s) as il eqn:Eil.
  assert (HX1 : len ([s] ++ ib) = 1 + il) by (rewrite len_app, Hib; reflexivity).
  assert (HX2 : len ([s] ++ ib ++ [sizes]) = 1 + il + 1) by (rewrite !len_app, Hib; unfold len; cbn [length]; lia).
  rewrite csub_ok in Hnew by lia. cbn [bind] in Hnew.
  rewrite (rdmid ([s] ++ ib) [sizes] (rev dc ++ rev oc ++ r4) 0%nat sizes) in Hnew;
    [|regroup Hrv'|reflexivity|lia].
  cbn [bind] in Hnew. unfold tsize_of, osize_of in Hnew. fold tsize osize in Hnew.
  rewrite csub_ok in Hnew by lia. cbn [bind] in Hnew.
  assert (Htgt : exists tgt, sn = mkSnode false 0 [mkTrans inp out tgt] size /\
            ((delta = 0 /\ tgt = 0) \/ (delta <> 0 /\ delta <= a + 1 - size /\ tgt = a + 1 - size - delta))).
  { destruct (N.eqb_spec delta 0) as [Ez|Ez].
    - injection H as <-. eexists; split; [reflexivity|]. left; auto.
    - destruct (N.leb_spec delta (a + 1 - size)); [|discriminate].
      injection H as <-. eexists; split; [reflexivity|]. right; auto. }
  clear H. destruct Htgt as [tgt [-> Htgt]].
  eapply concrete_ok; [exact Hnew|reflexivity..| |]; cbn [sn_trans].
  - apply one_trans_ok; [reflexivity|]. unfold transition. cbn [nd_state nd_end nd_sizes nd_start].
    unfold tsize_of, osize_of; fold tsize osize.
    change (negb (0 =? 0)) with false; cbv iota; rewrite Hin by reflexivity; cbn [bind]; rewrite <- Eil.
    rewrite (unpack_chunk0 ([s] ++ ib ++ [sizes] ++ rev dc) oc r4 osize); [|regroup Hrv'|assumption|lia| |lia].
    2:{ rewrite !len_app, Hib. unfold len. rewrite rev_length, Ldc. cbn [length]. lia. }
    cbn [bind]. rewrite csub_ok by lia. cbn [bind]. unfold unpack_delta.
    rewrite (unpackc ([s] ++ ib ++ [sizes]) dc (rev oc ++ r4)); [|regroup Hrv'|assumption|lia|lia|lia].
    cbn [bind]. change EMPTY_ADDRESS with 0. rewrite <- Hdelta, <- Hout.
    destruct Htgt as [[Ez ->]|[Ez [Hle ->]]].
    + rewrite Ez. reflexivity.
    + destruct (N.eqb_spec delta 0); [contradiction|]. rewrite csub_ok by lia. cbn [bind].
      do 2 f_equal. lia.
  - intros x _. unfold find_input. cbn [nd_state]. rewrite Hin by reflexivity. reflexivity.
Qed.

(* ---------- the general form ---------- *)
Section Any.
Variables version s sizes ntrans tsize osize ntl idx fosz : N.
Variables cnt index_rev inputs fc rest : list N.
Variables dcs ocs : list (list N).
Hypothesis Hrv : rv = [s] ++ cnt ++ [sizes] ++ index_rev ++ inputs ++ concat (map (@rev N) dcs)
                      ++ concat (map (@rev N) ocs) ++ rev fc ++ rest.
Hypothesis Hs : s < 128.
Hypothesis Htsz : tsize = sizes / 16.
Hypothesis Hosz : osize = sizes mod 16.
Hypothesis Hntl : ntl = any_ntrans_len s.
Hypothesis Lcnt : len cnt = ntl.
Hypothesis Hidx : idx = trans_index_size version ntrans.
Hypothesis Lidx : len index_rev = idx.
Hypothesis Lin : len inputs = ntrans.
Hypothesis Ldcs : len dcs = ntrans.
Hypothesis Fdcs : Forall (fun c => length c = N.to_nat tsize) dcs.
Hypothesis Locs : len ocs = ntrans.
Hypothesis Focs : Forall (fun c => length c = N.to_nat osize) ocs.
Hypothesis Hfosz : fosz = if any_is_final s then osize else 0.
Hypothesis Lfc : length fc = N.to_nat fosz.
Hypothesis Hts8 : tsize <= 8.
Hypothesis Hos8 : osize <= 8.
Hypothesis Hts1 : ntrans <> 0 -> 1 <= tsize.

Definition any_size : N := 1 + ntl + 1 + idx + ntrans + ntrans * tsize + ntrans * osize + fosz.
Definition any_nd : node :=
  mkNode version (AnyTrans s) a (a + 1 - any_size) (any_is_final s) ntrans sizes (le_value fc).

Lemma any_len : any_size + len rest = a + 1.
Proof.
  rewrite <- Hlen, Hrv. repeat rewrite len_app. rewrite (len_chunks tsize), (len_chunks osize) by assumption.
  rewrite Lcnt, Lidx, Lin, Ldcs, Locs. unfold any_size, len. rewrite rev_length, Lfc. cbn [length]. lia.
Qed.

Lemma any_X1 : len ([s] ++ cnt) = 1 + ntl.
Proof. rewrite len_app, Lcnt. reflexivity. Qed.
Lemma any_X2 : len ([s] ++ cnt ++ [sizes]) = 1 + ntl + 1.
Proof. rewrite !len_app, Lcnt. unfold len; cbn [length]; lia. Qed.
Lemma any_X3 : len ([s] ++ cnt ++ [sizes] ++ index_rev) = 1 + ntl + 1 + idx.
Proof. rewrite !len_app, Lcnt, Lidx. unfold len; cbn [length]; lia. Qed.
Lemma any_X4 : len ([s] ++ cnt ++ [sizes] ++ index_rev ++ inputs) = 1 + ntl + 1 + idx + ntrans.
Proof. rewrite !len_app, Lcnt, Lidx, Lin. unfold len; cbn [length]; lia. Qed.
Lemma any_X5 : len ([s] ++ cnt ++ [sizes] ++ index_rev ++ inputs ++ concat (map (@rev N) dcs))
  = 1 + ntl + 1 + idx + ntrans + ntrans * tsize.
Proof.
  rewrite !len_app, (len_chunks tsize), Lcnt, Lidx, Lin, Ldcs by assumption.
  unfold len; cbn [length]; lia.
Qed.
Lemma any_X6 : len ([s] ++ cnt ++ [sizes] ++ index_rev ++ inputs ++ concat (map (@rev N) dcs)
                    ++ concat (map (@rev N) ocs))
  = 1 + ntl + 1 + idx + ntrans + ntrans * tsize + ntrans * osize.
Proof.
  rewrite !len_app, (len_chunks tsize), (len_chunks osize), Lcnt, Lidx, Lin, Ldcs, Locs by assumption.
  unfold len; cbn [length]; lia.
Qed.

Lemma any_node_new :
  (s mod 64 = 0 /\ exists cb, cnt = [cb] /\ ntrans = if cb =? 1 then 256 else cb) \/
  (s mod 64 <> 0 /\ cnt = [] /\ ntrans = s mod 64) ->
  node_new get version a = Ok any_nd.
Proof.
  intros Hcnt. pose proof any_len as Hl. unfold any_size in Hl.
  rewrite (node_new_head version s _ Hrv). cbv zeta.
  rewrite match64 by lia.
  rewrite <- Hntl. rewrite csub_ok by lia. cbn [bind].
  pose proof any_X1 as HX1.
  erewrite (rdmid ([s] ++ cnt) [sizes] _ 0%nat sizes); [|regroup Hrv|reflexivity|lia].
  cbn [bind].
  assert (Hnt : (if s mod 64 =? 0
                 then do j <- csub (a + 1) 2; do n <- rd get a j; Ok (if n =? 1 then 256 else n)
                 else Ok (s mod 64)) = Ok ntrans).
  { destruct Hcnt as [[Hc [cb [Hcb Hn]]]|[Hc [Hcb Hn]]].
    - rewrite Hc. change (0 =? 0) with true. cbv iota.
      assert (ntl = 1) by (rewrite <- Lcnt, Hcb; reflexivity).
      rewrite csub_ok by lia. cbn [bind].
      erewrite (rdmid [s] cnt _ 0%nat cb); [|regroup Hrv|rewrite Hcb; reflexivity|unfold len; cbn [length]; lia].
      cbn [bind]. rewrite Hn. reflexivity.
    - destruct (N.eqb_spec (s mod 64) 0); [contradiction|]. rewrite Hn. reflexivity. }
  rewrite Hnt. cbn [bind]. clear Hnt Hcnt.
  unfold total_trans_size, tsize_of, osize_of. rewrite <- Htsz, <- Hosz, <- Hidx, <- Hfosz.
  rewrite csub_ok by lia. cbn [bind].
  replace (a + 1 - 1) with a by lia.
  assert (Hfo : (if (osize =? 0) || negb (any_is_final s) then Ok 0
                 else do at_ <- csub a (ntl + 1 + (ntrans + ntrans * tsize + idx) + ntrans * osize + osize);
                      unpack_uint get a at_ osize) = Ok (le_value fc)).
  { pose proof Hfosz as Hf. pose proof Lfc as Lf. pose proof any_X6 as HX6. destruct (any_is_final s).
    - cbn [negb]. rewrite orb_false_r. rewrite Hf in Lf.
      rewrite (unpack_chunk0 ([s] ++ cnt ++ [sizes] ++ index_rev ++ inputs ++ concat (map (@rev N) dcs)
                    ++ concat (map (@rev N) ocs)) fc rest osize); [reflexivity|regroup Hrv|assumption|assumption|lia|lia].
    - cbn [negb]. rewrite orb_true_r. rewrite Hf in Lf. destruct fc; [reflexivity|discriminate]. }
  rewrite Hfo. cbn [bind]. unfold any_nd, any_size. do 2 f_equal. lia.
Qed.

Local Notation X3 := ([s] ++ cnt ++ [sizes] ++ index_rev).
Local Notation X4 := ([s] ++ cnt ++ [sizes] ++ index_rev ++ inputs).
Local Notation X5 := ([s] ++ cnt ++ [sizes] ++ index_rev ++ inputs ++ concat (map (@rev N) dcs)).

Lemma any_transition j inp dc oc tgt :
  nth_error inputs j = Some inp -> nth_error dcs j = Some dc -> nth_error ocs j = Some oc ->
  (le_value dc = 0 /\ tgt = 0) \/
  (le_value dc <> 0 /\ le_value dc <= a + 1 - any_size /\ tgt = a + 1 - any_size - le_value dc) ->
  transition get any_nd (N.of_nat j) = Ok (mkTrans inp (le_value oc) tgt).
Proof.
  intros Hi Hd Ho Htgt. pose proof any_len as Hl. unfold any_size in Hl.
  pose proof any_X3 as HX3. pose proof any_X4 as HX4. pose proof any_X5 as HX5.
  assert (Hj : N.of_nat j < ntrans).
  { rewrite <- Lin. unfold len. assert (j < length inputs)%nat by (apply nth_error_Some; congruence). lia. }
  pose proof (mul_slot _ _ tsize Hj) as Ht. pose proof (mul_slot _ _ osize Hj) as Hos.
  assert (1 <= tsize) as Ht1 by (apply Hts1; lia).
  unfold transition, any_nd. cbn [nd_state nd_sizes nd_start nd_end nd_ntrans nd_version].
  unfold total_trans_size, tsize_of, osize_of. rewrite <- Htsz, <- Hosz, <- Hidx, <- Hntl.
  set (i := N.of_nat j) in *.
  set (nt := ntrans * tsize) in *. set (no := ntrans * osize) in *.
  set (it := i * tsize) in *. set (io := i * osize) in *.
  rewrite csub_ok by lia. cbn [bind].
  rewrite (rdmid X3 inputs (concat (map (@rev N) dcs) ++ concat (map (@rev N) ocs) ++ rev fc ++ rest) j inp);
    [|regroup Hrv|assumption|lia].
  cbn [bind].
  rewrite (unpack_nth_chunk0 get a rv Hlen Hget X5 ocs (rev fc ++ rest) j oc osize);
    [|regroup Hrv|assumption|assumption|assumption|fold i io; lia|lia].
  cbn [bind]. destruct (N.ltb_spec i ntrans); [|lia]. cbn [negb]. cbv iota.
  rewrite csub_ok by lia. cbn [bind]. unfold unpack_delta.
  rewrite (unpack_nth_chunk get a rv Hlen Hget X4 dcs (concat (map (@rev N) ocs) ++ rev fc ++ rest) j dc);
    [|regroup Hrv|assumption|assumption|assumption|assumption|fold i it; lia].
  cbn [bind]. change EMPTY_ADDRESS with 0.
  destruct Htgt as [[Ez ->]|[Ez [Hle ->]]].
  - rewrite Ez. reflexivity.
  - destruct (N.eqb_spec (le_value dc) 0); [contradiction|]. fold nt no. rewrite csub_ok by assumption. reflexivity.
Qed.

Definition any_resolve (delta : N) : option N :=
  if delta =? 0 then Some 0
  else if delta <=? a + 1 - any_size then Some (a + 1 - any_size - delta) else None.
Definition any_ts (tgts : list (option N)) : list trans :=
  map (fun x => mkTrans (fst (fst x)) (snd (fst x)) (match snd x with Some a => a | None => 0 end))
      (combine (combine inputs (map le_value ocs)) tgts).

Lemma any_ts_length tgts : tgts = map any_resolve (map le_value dcs) -> length (any_ts tgts) = N.to_nat ntrans.
Proof.
  intros ->. unfold any_ts. rewrite map_length, !combine_length, !map_length.
  unfold len in Lin, Ldcs, Locs. lia.
Qed.

Lemma any_ts_inputs tgts : tgts = map any_resolve (map le_value dcs) -> map t_inp (any_ts tgts) = inputs.
Proof.
  intros ->. unfold any_ts. rewrite map_map. cbn [t_inp].
  rewrite <- (map_map fst fst). rewrite !map_fst_combine; auto.
  - rewrite map_length. unfold len in Lin, Locs. lia.
  - rewrite combine_length, !map_length. unfold len in Lin, Ldcs, Locs. lia.
Qed.

Lemma any_transitions tgts :
  tgts = map any_resolve (map le_value dcs) ->
  forallb (fun o : option N => match o with Some _ => true | None => false end) tgts = true ->
  transitions get any_nd = Ok (any_ts tgts).
Proof.
  intros Htg Hall. unfold transitions. cbn [any_nd nd_ntrans]. rewrite <- (any_ts_length tgts Htg).
  apply (transitions_from_ok get a rv Hlen Hget any_nd). intros j t Hj. cbn [N.add]. rewrite N.add_0_l.
  unfold any_ts in Hj. rewrite nth_error_map in Hj.
  destruct (nth_error (combine (combine inputs (map le_value ocs)) tgts) j) as [[[inp out] tg]|] eqn:E;
    [|discriminate].
  cbn [option_map fst snd] in Hj. injection Hj as <-.
  apply nth_error_combine_inv in E. destruct E as [E Etg].
  apply nth_error_combine_inv in E. destruct E as [Einp Eout].
  rewrite nth_error_map in Eout. destruct (nth_error ocs j) as [oc|] eqn:Eoc; [|discriminate].
  cbn [option_map] in Eout. injection Eout as <-.
  rewrite forallb_forall in Hall. pose proof (Hall tg (nth_error_In _ _ Etg)) as Hsome.
  rewrite Htg, !nth_error_map in Etg. destruct (nth_error dcs j) as [dc|] eqn:Edc; [|discriminate].
  cbn [option_map] in Etg. injection Etg as <-.
  apply (any_transition j inp dc oc); auto.
  unfold any_resolve in *. destruct (N.eqb_spec (le_value dc) 0).
  - left; auto.
  - destruct (N.leb_spec (le_value dc) (a + 1 - any_size)); [|discriminate]. right; auto.
Qed.

Lemma any_find_index b :
  2 <= version -> 32 < ntrans -> ntrans <= 256 -> b < 256 ->
  match find_index (fun i => i =? b) inputs with
  | Some i => nth (N.to_nat b) (rev index_rev) 255 = N.of_nat i mod 256
  | None => ntrans <= nth (N.to_nat b) (rev index_rev) 255
  end ->
  find_input get any_nd b = Ok (option_map N.of_nat (find_index (fun i => i =? b) inputs)).
Proof.
  intros Hv Hn Hn256 Hb Hix. pose proof any_len as Hl. unfold any_size in Hl.
  pose proof any_X2 as HX2.
  assert (Ei : idx = 256).
  { rewrite Hidx. unfold trans_index_size. change TRANS_INDEX_THRESHOLD with 32.
    destruct (N.leb_spec 2 version); [|lia]. destruct (N.ltb_spec 32 ntrans); [|lia]. reflexivity. }
  unfold find_input, any_nd. cbn [nd_state nd_sizes nd_start nd_end nd_ntrans nd_version].
  rewrite <- Hidx, <- Hntl. change TRANS_INDEX_THRESHOLD with 32.
  destruct (N.leb_spec 2 version); [|lia]. destruct (N.ltb_spec 32 ntrans); [|lia]. cbn [andb].
  set (nt := ntrans * tsize) in *. set (no := ntrans * osize) in *.
  rewrite csub_ok by lia. cbn [bind].
  assert (Li : length index_rev = N.to_nat 256) by (unfold len in Lidx; lia).
  rewrite (rdmid ([s] ++ cnt ++ [sizes]) index_rev
             (inputs ++ concat (map (@rev N) dcs) ++ concat (map (@rev N) ocs) ++ rev fc ++ rest)
             (N.to_nat (255 - b)) (nth (N.to_nat b) (rev index_rev) 255)); [|regroup Hrv| |lia].
  2:{ rewrite rev_nth by lia. rewrite (nth_error_nth' index_rev 255) by lia. do 2 f_equal. lia. }
  cbn [bind]. set (e := nth (N.to_nat b) (rev index_rev) 255) in *.
  destruct (find_index (fun i => i =? b) inputs) as [i|] eqn:Ef; cbn [option_map].
  - apply find_index_lt in Ef. unfold len in Lin.
    destruct (N.leb_spec ntrans e); [lia|]. do 2 f_equal. lia.
  - destruct (N.leb_spec ntrans e); [reflexivity|lia].
Qed.

Lemma any_find_scan b :
  (2 <=? version) && (32 <? ntrans) = false -> strictly_increasing inputs = true ->
  find_input get any_nd b = Ok (option_map N.of_nat (find_index (fun i => i =? b) inputs)).
Proof.
  intros Hc Hinc. pose proof any_len as Hl. unfold any_size in Hl.
  pose proof any_X3 as HX3.
  assert (Ei : idx = 0).
  { rewrite Hidx. unfold trans_index_size. change TRANS_INDEX_THRESHOLD with 32. rewrite Hc. reflexivity. }
  unfold find_input, any_nd. cbn [nd_state nd_sizes nd_start nd_end nd_ntrans nd_version].
  rewrite <- Hntl. change TRANS_INDEX_THRESHOLD with 32. rewrite Hc.
  set (nt := ntrans * tsize) in *. set (no := ntrans * osize) in *.
  rewrite csub_ok by lia. cbn [bind].
  assert (Hrd : forall j x, nth_error inputs j = Some x ->
            rd get a (a - (ntl + 1 + ntrans) + (ntrans - 1 - N.of_nat j)) = Ok x).
  { intros j x Hj.
    assert (j < length inputs)%nat by (apply nth_error_Some; congruence). unfold len in Lin.
    apply (rdmid X3 inputs (concat (map (@rev N) dcs) ++ concat (map (@rev N) ocs) ++ rev fc ++ rest) j x);
      [regroup Hrv|assumption|lia]. }
  assert (Hchk : (if ntrans =? 0 then Ok 0 else rd get a (a - (ntl + 1 + ntrans) + ntrans - 1)) = Ok
                   (if ntrans =? 0 then 0 else nth 0 inputs 0)).
  { destruct (N.eqb_spec ntrans 0); [reflexivity|].
    replace (a - (ntl + 1 + ntrans) + ntrans - 1) with (a - (ntl + 1 + ntrans) + (ntrans - 1 - N.of_nat 0)) by lia.
    apply Hrd. apply nth_error_nth'. unfold len in Lin. lia. }
  rewrite Hchk. cbn [bind]. clear Hchk.
  replace (N.to_nat ntrans) with (length (rev inputs)) by (rewrite rev_length; unfold len in Lin; lia).
  rewrite (scan_inputs_ok get a rv Hlen Hget).
  2:{ intros j x Hj. assert (j < length inputs)%nat by (rewrite <- rev_length; apply nth_error_Some; congruence).
      rewrite nth_error_rev in Hj by assumption. apply Hrd in Hj. rewrite <- Hj. f_equal.
      unfold len in Lin. lia. }
  cbn [bind]. pose proof (find_index_rev_inj b inputs Hinc) as Hrev.
  destruct (find_index (fun x => x =? b) (rev inputs)) as [k|]; cbn [option_map].
  - destruct Hrev as [Hk ->]. cbn [option_map]. do 2 f_equal. unfold len in Lin. lia.
  - rewrite Hrev. reflexivity.
Qed.

End Any.

Lemma reader_any version s r0 sn :
  rv = s :: r0 -> s < 128 ->
  spec_node version rv a = Some sn ->
  snode_ok (a + 1 - sn_size sn) sn = true ->
  exists v, concrete_node_at get version a = Ok v /\ agrees v a sn.
Proof.
  intros Hrv Hs H Hok.
  rewrite Hrv in H. unfold spec_node in H.
  destruct (N.leb_spec 192 s); [lia|]. destruct (N.leb_spec 128 s); [lia|].
  cbv beta zeta in H.
  match type of H with match ?e with _ => _ end = _ => destruct e as [[[ntrans r1] used]|] eqn:Ehead; [|discriminate] end.
  assert (Hhead : exists cnt, r0 = cnt ++ r1 /\ len cnt = any_ntrans_len s /\ used = any_ntrans_len s + 1 /\
            ((s mod 64 = 0 /\ exists cb, cnt = [cb] /\ ntrans = if cb =? 1 then 256 else cb) \/
             (s mod 64 <> 0 /\ cnt = [] /\ ntrans = s mod 64))).
  { unfold any_ntrans_len. destruct (N.eqb_spec (s mod 64) 0) as [Hc|Hc].
    - destruct r0 as [|b r]; [discriminate|]. injection Ehead as E1 E2 E3; subst ntrans r1 used. exists [b].
      repeat split; auto. left. split; auto. exists b; auto.
    - injection Ehead as E1 E2 E3; subst ntrans r1 used. exists []. repeat split; auto. }
  clear Ehead. destruct Hhead as [cnt [Hr0 [Lcnt [Hused Hcnt]]]].
  destruct r1 as [|sizes r2]; [discriminate|].
  set (tsize := sizes / 16) in *. set (osize := sizes mod 16) in *.
  destruct ((8 <? tsize) || (8 <? osize) || (tsize =? 0) && negb (ntrans =? 0)) eqn:Eb; [discriminate|].
  assert (Hts : tsize <= 8 /\ osize <= 8 /\ (ntrans <> 0 -> 1 <= tsize)) by lia. clear Eb.
  set (has_index := (2 <=? version) && (FMT_INDEX_THRESHOLD <? ntrans)) in *.
  match type of H with match ?e with _ => _ end = _ => destruct e as [[index_rev r3]|] eqn:Eidx; [|discriminate] end.
  destruct (take_n (N.to_nat ntrans) r3) as [[inputs r4]|] eqn:Ein; [|discriminate].
  destruct (take_nums (N.to_nat ntrans) (N.to_nat tsize) r4) as [[deltas r5]|] eqn:Ed; [|discriminate].
  destruct (take_nums (N.to_nat ntrans) (N.to_nat osize) r5) as [[outs r6]|] eqn:Eo; [|discriminate].
  match type of H with match ?e with _ => _ end = _ => destruct e as [[fout r7]|] eqn:Ef; [|discriminate] end.
  set (idx := if has_index then 256 else 0) in *.
  set (fosz := if 64 <=? s then osize else 0) in *.
  set (size := used + 1 + idx + ntrans + ntrans * tsize + ntrans * osize + fosz) in *.
  destruct (N.ltb_spec (a + 1) size) as [|Hsz]; [discriminate|].
  set (tgts := map (fun delta : N => _) deltas) in *.
  destruct (forallb _ tgts) eqn:Hall; [|discriminate].
  match type of H with (if ?e then _ else _) = _ => destruct e eqn:Hix; [|discriminate] end.
  injection H as <-. cbn [sn_size sn_trans] in Hok.
  assert (Hidx : length index_rev = N.to_nat idx /\ r2 = index_rev ++ r3).
  { subst idx. destruct has_index.
    - apply take_n_inv in Eidx. destruct Eidx as [E1 E2]. split; [|assumption].
      rewrite E1. vm_compute. reflexivity.
    - injection Eidx as <- <-. split; reflexivity. }
  clear Eidx. destruct Hidx as [Lidx Hr2].
  apply take_n_inv in Ein. destruct Ein as [Lin Hr3].
  apply take_nums_inv in Ed. destruct Ed as [dcs [Ldcs [Fdcs [Hr4 Hdeltas]]]].
  apply take_nums_inv in Eo. destruct Eo as [ocs [Locs [Focs [Hr5 Houts]]]].
  assert (Hfc : exists fc, length fc = N.to_nat fosz /\ r6 = rev fc ++ r7 /\ fout = le_value fc).
  { subst fosz. destruct (64 <=? s).
    - apply take_be_inv in Ef. exact Ef.
    - injection Ef as <- <-. exists []. repeat split. }
  clear Ef. destruct Hfc as [fc [Lfc [Hr6 Hfout]]].
  assert (Hrv' : rv = [s] ++ cnt ++ [sizes] ++ index_rev ++ inputs ++ concat (map (@rev N) dcs)
                      ++ concat (map (@rev N) ocs) ++ rev fc ++ r7).
  { rewrite Hrv, Hr0, Hr2, Hr3, Hr4, Hr5, Hr6. repeat rewrite <- app_assoc. reflexivity. }
  clear Hr0 Hr2 Hr3 Hr4 Hr5 Hr6.
  destruct Hts as [Hts8 [Hos8 Hts1]].
  assert (Hfin : any_is_final s = (64 <=? s)).
  { unfold any_is_final. destruct (N.leb_spec 64 s); destruct (N.eqb_spec ((s / 64) mod 2) 1); auto; lia. }
  assert (HidxE : idx = trans_index_size version ntrans) by reflexivity.
  assert (LidxN : len index_rev = idx) by (unfold len; lia).
  assert (LinN : len inputs = ntrans) by (unfold len; lia).
  assert (LdcsN : len dcs = ntrans) by (unfold len; lia).
  assert (LocsN : len ocs = ntrans) by (unfold len; lia).
  assert (HfoszE : fosz = if any_is_final s then osize else 0) by (rewrite Hfin; reflexivity).
  set (ntl := any_ntrans_len s) in *.
  assert (Esize : size = any_size ntrans tsize osize ntl idx fosz) by (unfold any_size, size; lia).
  subst deltas outs.
  assert (Etgts : tgts = map (any_resolve ntrans tsize osize ntl idx fosz) (map le_value dcs)).
  { unfold tgts, any_resolve. rewrite <- Esize. reflexivity. }
  pose proof (any_node_new version s sizes ntrans tsize osize ntl idx fosz cnt index_rev inputs fc r7 dcs ocs
                Hrv' Hs eq_refl eq_refl eq_refl Lcnt HidxE LidxN LinN LdcsN Fdcs LocsN Focs HfoszE Lfc
                Hts8 Hos8 Hts1 Hcnt) as Hnew.
  pose proof (any_transitions version s sizes ntrans tsize osize ntl idx fosz cnt index_rev inputs fc r7 dcs ocs
                Hrv' Hs eq_refl eq_refl eq_refl Lcnt HidxE LidxN LinN LdcsN Fdcs LocsN Focs HfoszE Lfc
                Hts8 Hos8 Hts1 tgts Etgts Hall) as Htrs.
  pose proof (any_ts_inputs version s sizes ntrans tsize osize ntl idx fosz cnt index_rev inputs fc dcs ocs
                Hs eq_refl eq_refl eq_refl Lcnt HidxE LidxN LinN LdcsN LocsN HfoszE Lfc
                Hts8 Hos8 Hts1 tgts Etgts) as Hinp.
  pose proof (any_ts_length version s sizes ntrans tsize osize ntl idx fosz cnt index_rev inputs fc dcs ocs
                Hs eq_refl eq_refl eq_refl Lcnt HidxE LidxN LinN LdcsN LocsN HfoszE Lfc
                Hts8 Hos8 Hts1 tgts Etgts) as Hlts.
  unfold any_ts in Htrs, Hinp, Hlts.
  match goal with |- context [mkSnode _ _ ?l _] => set (ts := l) in * end.
  clearbody ts.
  unfold snode_ok in Hok. cbn [sn_trans] in Hok.
  apply andb_true_iff in Hok. destruct Hok as [Hok _].
  apply andb_true_iff in Hok. destruct Hok as [Hinc Hn256].
  rewrite Hinp in Hinc.
  assert (Hnt256 : ntrans <= 256) by (unfold len in Hn256; lia). clear Hn256.
  eapply concrete_ok; [exact Hnew|reflexivity|exact Hfin|symmetry; exact Hfout|exact Htrs|].
  cbn [sn_trans]. intros b Hb.
  rewrite find_pos_find_index, Hinp.
  assert (Hgoal : find_input get (any_nd version s sizes ntrans tsize osize ntl idx fosz fc) b
                  = Ok (option_map N.of_nat (find_index (fun i => i =? b) inputs))).
  { destruct has_index eqn:Ehi.
    - unfold has_index in Ehi. change FMT_INDEX_THRESHOLD with 32 in Ehi.
      cbn [negb orb] in Hix. rewrite forallb_forall in Hix.
      assert (Hinb : In b (map N.of_nat (seq 0 256))).
      { apply in_map_iff. exists (N.to_nat b). split; [apply N2Nat.id|]. apply in_seq. lia. }
      specialize (Hix b Hinb).
      apply (any_find_index version s sizes ntrans tsize osize ntl idx fosz cnt index_rev inputs fc r7 dcs ocs
                Hrv' Hs eq_refl eq_refl eq_refl Lcnt HidxE LidxN LinN LdcsN Fdcs LocsN Focs HfoszE Lfc
                Hts8 Hos8 Hts1 b); try lia.
      destruct (find_index (fun i => i =? b) inputs); lia.
    - apply (any_find_scan version s sizes ntrans tsize osize ntl idx fosz cnt index_rev inputs fc r7 dcs ocs
                Hrv' Hs eq_refl eq_refl eq_refl Lcnt HidxE LidxN LinN LdcsN Fdcs LocsN Focs HfoszE Lfc
                Hts8 Hos8 Hts1 b); [exact Ehi|exact Hinc]. }
  rewrite Hgoal. f_equal.
Qed.

End Forms.

Theorem reader_eq_spec_holds : reader_eq_spec_statement.
Proof.
  intros version bs a sn Hv1 Hv3 Hbytes Ha0 Halen Hspec Hok.
  destruct (view_of_list bs a Halen) as [Hlen Hget].
  set (rv := rev (firstn (N.to_nat a + 1) bs)) in *. clearbody rv.
  change (exists v, concrete_node_at (list_get bs) version a = Ok v /\ agrees v a sn).
  destruct rv as [|s r0] eqn:Hrv; [discriminate|].
  assert (Hs : s < 256).
  { assert (H0 : 0 <= a) by lia. pose proof (Hget 0 H0) as Hg. rewrite N.sub_0_r in Hg.
    change (nth_error (s :: r0) (N.to_nat 0)) with (Some s) in Hg. unfold list_get in Hg.
    apply nth_error_In in Hg. rewrite Forall_forall in Hbytes. auto. }
  rewrite <- Hrv in *.
  destruct (N.leb_spec 192 s).
  - eapply reader_otn; eauto.
  - destruct (N.leb_spec 128 s).
    + eapply reader_ot; eauto.
    + eapply reader_any; eauto.
Qed.

Print Assumptions reader_eq_spec_holds.
