(* BuilderInvTest.v — the decidable parts of the invariant of BuilderInv.v, evaluated after every
   insert of a few concrete builds (sanity test of the invariant; nothing here is used by proofs). *)
Require Import FstV.Base FstV.Pack FstV.Node FstV.Registry FstV.Builder FstV.GraphSem FstV.Format
               FstV.CodecSpec FstV.Fst FstV.proofs.BuilderInv.
Require Import Coq.FSets.FMapPositive.

Definition store_of (b : builder) : option store :=
  match tiles 3 (S (N.to_nat (b_count b))) (rev (body b)) (b_count b - 1) [] with
  | Some l => Some (rev l) | None => None end.

Definition mem (a : N) (l : list N) := existsb (N.eqb a) l.
Definition tgt_ok_b E a := (a =? 0) || mem a (addrs E).
Definition node_ok_b E (n : bnode) :=
  inputs_increasing (n_trans n) &&
  forallb (fun t => (t_inp t <? 256) && (t_out t <? U64) && tgt_ok_b E (t_addr t)) (n_trans n) &&
  (n_fout n <? U64) && (n_final n || (n_fout n =? 0)).
Fixpoint store_ok_b (E : store) : bool :=
  match E with [] => true
  | (a, s) :: E' => store_ok_b E' && node_ok_b E' (bn_of s) && (0 <? sn_size s) && (sn_size s <=? NODE_MAX)
                    && (a =? top_addr E' + sn_size s) end.
Fixpoint shape_b (st : list unf) (k : key) : bool :=
  match st with [] => false
  | u :: rest => match k with
                 | [] => match u_last u, rest with None, [] => true | _, _ => false end
                 | c :: k' => match u_last u with Some (i, _) => (i =? c) && shape_b rest k' | None => false end
                 end end.
Definition unf_ok_b E (u : unf) :=
  inputs_increasing (n_trans (u_node u)) &&
  forallb (fun t => (t_inp t <? 256) && tgt_ok_b E (t_addr t)) (n_trans (u_node u)) &&
  (n_final (u_node u) || (n_fout (u_node u) =? 0)) &&
  match u_last u with Some (i, _) => (i <? 256) && forallb (fun t => t_inp t <? i) (n_trans (u_node u)) | None => true end.
Fixpoint W_b (pre : N) (st : list unf) : bool :=
  match st with [] => true
  | u :: rest => (pre + n_fout (u_node u) <? U64) && forallb (fun t => pre + t_out t <? U64) (n_trans (u_node u)) &&
                 match u_last u with Some (_, o) => (pre + o <? U64) && W_b (pre + o) rest | None => true end end.
Fixpoint dom_b (st : list unf) (a : N) : bool :=
  match st with [] => false
  | u :: rest => existsb (fun t => a <=? t_addr t) (n_trans (u_node u)) ||
                 (match u_last u with Some _ => true | None => false end && dom_b rest a) end.
Definition kv_eqb (x y : kv) := list_eqb N.eqb (fst x) (fst y) && (snd x =? snd y).
Definition cell_ok_b (E : store) (c : cell) :=
  (c_addr c =? NONE_ADDRESS) ||
  existsb (fun x => (fst x =? c_addr c) && bnode_eqb (bn_of (snd x)) (c_node c)) E.
Definition reg_ok_b E (r : registry) := forallb (fun x => cell_ok_b E (snd x)) (PositiveMap.elements (r_table r)).

Definition check (acc : kmap) (b : builder) : list bool :=
  match store_of b with
  | None => [false]
  | Some E =>
    [ store_ok_b E; b_count b =? top_addr E + 1; len (body b) =? b_count b;
      b_last_addr b =? (match E with [] => NONE_ADDRESS | _ => top_addr E end);
      reg_ok_b E (b_reg b); shape_b (b_stack b) (lastkey acc); forallb (unf_ok_b E) (b_stack b);
      W_b 0 (b_stack b);
      match last_opt (b_stack b) with Some u => match n_trans (u_node u) with [] => true | _ => false end | None => false end;
      forallb (dom_b (b_stack b)) (addrs E);
      list_eqb kv_eqb (Lstk (elang E) (b_stack b) []) (rev acc); b_len b =? len acc;
      match b_last b, acc with None, [] => true | Some k, (k', _) :: _ => list_eqb N.eqb k k' | _, _ => false end ]
  end.

(* run ops, checking after each; acc follows spec_content *)
Fixpoint run_check (b : builder) (last : option key) (acc : kmap) (ops : list op) : list (list bool) * builder :=
  match ops with
  | [] => ([], b)
  | o :: r =>
    let '(b1, x) := apply_op b o in
    let '(l', y) := spec_call last o in
    let kv := (op_key o, op_val o) in
    let rep := match last with Some l => key_eqb (fst kv) l | None => false end in
    let acc' := match y with Ok _ => if rep then acc else kv :: acc | _ => acc end in
    let '(cs, b2) := run_check b1 l' acc' r in
    ((match x, y with Ok _, Ok _ => true | Err _, Err _ => true | _, _ => false end :: check acc' b1) :: cs, b2)
  end.

Definition summer0 (l : list N) : N := (fold_left N.add l 7) mod 4294967296.
Definition final_check (rows cols : N) (ops : list op) : bool * bool :=
  match build_ops summer0 5 rows cols ops with
  | Ok bs => match spec_parse bs with
             | Some p => (list_eqb kv_eqb (p_content p) (spec_content None ops []) && (p_ty p =? 5) && (p_version p =? 3)
                          && (p_len p =? len (p_content p))
                          && match p_checksum p with Some c => c =? summer0 (firstn (length bs - 4) bs) | None => false end,
                          wf_fst_b bs && forallb (fun x => x <? 256) bs &&
                          (let g := graph_of (node_table (p_nodes p)) in
                           forallb (fun x => forallb (fun t => match min_value (L g (t_addr t)) with Some 0 => true | _ => false end)
                                                     (sn_trans (snd x))) (p_nodes p)))
             | None => (false, false) end
  | _ => (false, false) end.

Definition allb (rows cols : N) (ops : list op) : bool * (bool * bool) :=
  (forallb (forallb (fun x => x)) (fst (run_check (new_builder 5 rows cols) None [] ops)), final_check rows cols ops).

Definition kvs1 : kmap := [([], 7); ([1], 5); ([1;2], 3); ([1;2;3], 9); ([1;3], 4); ([2;2;3], 9); ([2;3], 1); ([3;2;3], 2)].
Definition ops1 := map (fun '(k, v) => OpInsert k v) kvs1.
Definition ops2 := [OpAdd []; OpAdd []; OpInsert [1] 5; OpAdd [1]; OpAdd [1;2]; OpInsert [1;2;3] 18446744073709551615; OpAdd [1;2;3];
                    OpAdd [1;3]; OpInsert [2;2;3] 9; OpInsert [2;3] 0; OpAdd [2;3]; OpInsert [3;2;3] 18446744073709551615].
Definition ops3 := [OpInsert [] 0].
Definition ops4 := [OpInsert [] 3].
Definition ops5 : list op := [].
Definition ops6 := [OpInsert [97;97] 1; OpInsert [97;98] 1; OpInsert [98;97] 1;OpInsert [98;98] 1; OpInsert [99;97;97] 1; OpInsert [99;97;98] 1].
Definition geos : list (N * N) := [(10000, 2); (1, 1); (0, 0); (3, 1); (2, 3); (1, 5); (7, 0)].
Definition ops7 := [OpInsert [1] 5; OpInsert [2] 7; OpAdd [2]; OpAdd [2;1]; OpAdd [2;1]; OpInsert [3] 9].
Definition all_tests := map (fun g => map (allb (fst g) (snd g)) [ops1; ops2; ops3; ops4; ops5; ops6; ops7]) geos.
Eval vm_compute in all_tests.
Eval vm_compute in (fst (run_check (new_builder 5 1 1) None [] ops2)).
