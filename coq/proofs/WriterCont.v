(* WriterCont.v — the caller that keeps going after a failed call (Writer.run_session_cont):
   it sees exactly what the caller that stops at the first error sees, followed by one
   Err(Io(Other)) per remaining call and for into_inner, and nothing is written after the
   failed call. Every theorem about run_session therefore carries over. *)
Require Import FstV.Base FstV.Writer.
Require Import Lia.

Local Open Scope nat_scope.

Section Cont.
  Variable crc_update : N -> list N -> N.
  Variable masked : N -> N.
  Context {W : Type}.
  Variable wr : writer W.
  Variable old : bool.
  Variable wcalls : W -> nat.
  Variable wacc : W -> nat.

  Notation chunks := (cw_write_chunks crc_update wr old).
  Notation calls_stop := (run_calls crc_update wr old wcalls wacc).
  Notation calls_cont := (run_calls_cont crc_update wr old wcalls wacc).
  Notation res_of := (mk_res wcalls wacc).
  Notation session := (run_session crc_update masked wr old wcalls wacc).
  Notation session_cont := (run_session_cont crc_update masked wr old wcalls wacc).

  Definition poisoned_res (c : cw W) : callres := res_of (IoErr IoOther) c.

  Lemma calls_cont_failed : forall calls c,
    calls_cont true c calls = (map (fun _ => poisoned_res c) calls, c, true).
  Proof.
    induction calls as [|ca r IH]; intros c; cbn [run_calls_cont map]; [reflexivity|].
    rewrite IH. reflexivity.
  Qed.

  (* the stopping caller's log is a prefix of the continuing caller's log *)
  Lemma calls_cont_alive : forall calls c,
    let '(rs, c1, alive) := calls_stop c calls in
    calls_cont false c calls =
      if alive then (rs, c1, false)
      else (rs ++ map (fun _ => poisoned_res c1) (skipn (length rs) calls), c1, true).
  Proof.
    induction calls as [|ca r IH]; intros c; cbn [run_calls run_calls_cont]; [reflexivity|].
    destruct (chunks c ca) as [[u| k | |] c'] eqn:E.
    - specialize (IH c'). destruct (calls_stop c' r) as [[rs c1] alive].
      rewrite IH. destruct alive; cbn [length skipn app]; reflexivity.
    - rewrite calls_cont_failed. cbn [length skipn app]. reflexivity.
    - rewrite calls_cont_failed. cbn [length skipn app]. reflexivity.
    - rewrite calls_cont_failed. cbn [length skipn app]. reflexivity.
  Qed.

  Lemma calls_stop_length : forall calls c,
    let '(rs, _, alive) := calls_stop c calls in
    length rs <= length calls /\ (alive = true -> length rs = length calls) /\ (alive = false -> 1 <= length rs).
  Proof.
    induction calls as [|ca r IH]; intros c; cbn [run_calls length]; [repeat split; auto; discriminate|].
    destruct (chunks c ca) as [[u| k | |] c'] eqn:E; cbn [length]; try (repeat split; auto; try lia; discriminate).
    specialize (IH c'). destruct (calls_stop c' r) as [[rs c1] alive]. cbn [length].
    destruct IH as (A & B & C). repeat split; [lia| |lia]. intros H. rewrite (B H). reflexivity.
  Qed.

  (* the session-level statement *)
  Theorem cont_is_stop_plus_refusals : forall st0 calls fin,
    let o := session st0 calls fin in
    let oc := session_cont st0 calls fin in
    match o_fin o with
    | Some _ => oc = o                                   (* nothing failed before into_inner *)
    | None =>
      let refusal : callres := (IoErr IoOther, o_cnt o, wcalls (o_final o), wacc (o_final o)) in
      (length (o_calls o) = 1 -> oc = o) /\              (* the constructor failed: no builder *)
      (1 < length (o_calls o) ->
         o_calls oc = o_calls o ++ map (fun _ => refusal) (skipn (length (o_calls o)) calls) /\
         o_fin oc = Some refusal /\
         o_final oc = o_final o /\ o_cnt oc = o_cnt o /\ o_sum oc = o_sum o)
    end.
  Proof.
    intros st0 calls fin. cbv zeta. unfold run_session_cont, run_session.
    destruct calls as [|cnew rest].
    - cbn [run_calls]. destruct (run_finish _ _ _ _ _) as [r c']. cbn [o_fin]. reflexivity.
    - cbn [run_calls].
      destruct (chunks {| c_inner := st0; c_cnt := 0; c_sum := 0 |} cnew) as [[u| k | |] c0] eqn:E.
      + pose proof (calls_cont_alive rest c0) as HC. pose proof (calls_stop_length rest c0) as HL.
        destruct (calls_stop c0 rest) as [[rs c1] alive]. rewrite HC. destruct alive.
        * destruct (run_finish _ _ _ _ _) as [r c']. cbn [o_fin]. destruct u. reflexivity.
        * cbn [o_fin o_calls o_final o_cnt o_sum length]. split; [intros H; destruct HL as (_ & _ & H1); specialize (H1 eq_refl); lia|].
          intros _. destruct u. cbn [skipn app]. repeat split; reflexivity.
      + cbn [o_fin o_calls length]. split; [reflexivity|lia].
      + cbn [o_fin o_calls length]. split; [reflexivity|lia].
      + cbn [o_fin o_calls length]. split; [reflexivity|lia].
  Qed.

  (* consequences in the shape the property speaks about *)
  Corollary cont_never_finishes_after_a_failure : forall st0 calls fin,
    o_fin (session st0 calls fin) = None ->
    match o_fin (session_cont st0 calls fin) with
    | None => True                                        (* the constructor failed *)
    | Some (st, _, _, _) => st = IoErr IoOther
    end.
  Proof.
    intros st0 calls fin H. pose proof (cont_is_stop_plus_refusals st0 calls fin) as T.
    cbv zeta in T. rewrite H in T. destruct T as [T1 T2].
    destruct (Nat.eq_dec (length (o_calls (session st0 calls fin))) 1) as [e|ne].
    - rewrite (T1 e), H. exact I.
    - assert (L : 1 <= length (o_calls (session st0 calls fin))).
      { unfold run_session in *. destruct calls as [|cnew rest].
        - cbn [run_calls] in H. destruct (run_finish _ _ _ _ _); discriminate.
        - pose proof (calls_stop_length (cnew :: rest) {| c_inner := st0; c_cnt := 0; c_sum := 0 |}) as HL.
          destruct (calls_stop _ (cnew :: rest)) as [[rs c1] alive]. destruct alive.
          + destruct (run_finish _ _ _ _ _); discriminate.
          + cbn [o_calls]. destruct HL as (_ & _ & X). exact (X eq_refl). }
      destruct T2 as (_ & F & _); [lia|]. rewrite F. reflexivity.
  Qed.

  Corollary cont_writes_nothing_after_a_failure : forall st0 calls fin,
    o_fin (session st0 calls fin) = None ->
    o_final (session_cont st0 calls fin) = o_final (session st0 calls fin) /\
    o_cnt (session_cont st0 calls fin) = o_cnt (session st0 calls fin).
  Proof.
    intros st0 calls fin H. pose proof (cont_is_stop_plus_refusals st0 calls fin) as T.
    cbv zeta in T. rewrite H in T. destruct T as [T1 T2].
    destruct (Nat.eq_dec (length (o_calls (session st0 calls fin))) 1) as [e|ne].
    - rewrite (T1 e). split; reflexivity.
    - assert (L : 1 <= length (o_calls (session st0 calls fin))).
      { unfold run_session in *. destruct calls as [|cnew rest].
        - cbn [run_calls] in H. destruct (run_finish _ _ _ _ _); discriminate.
        - pose proof (calls_stop_length (cnew :: rest) {| c_inner := st0; c_cnt := 0; c_sum := 0 |}) as HL.
          destruct (calls_stop _ (cnew :: rest)) as [[rs c1] alive]. destruct alive.
          + destruct (run_finish _ _ _ _ _); discriminate.
          + cbn [o_calls]. destruct HL as (_ & _ & X). exact (X eq_refl). }
      destruct T2 as (_ & _ & A & B & _); [lia|]. split; assumption.
  Qed.
End Cont.
