(* GraphProofs.v — facts about the language of a well-formed graph (GraphSem.lang / L):
   fuel independence, the one-step unfolding, sortedness of keys and the lookup equations. *)
Require Import FstV.Base FstV.Node FstV.Reader FstV.GraphSem.
From Coq Require Import Sorted RelationClasses Lia ZifyN ZifyBool ZifyNat.

(* ---------- generic list facts ---------- *)
Section SS.
  Context {A : Type} (R : A -> A -> Prop).

  Lemma SS_app l1 l2 :
    StronglySorted R l1 -> StronglySorted R l2 ->
    (forall x y, In x l1 -> In y l2 -> R x y) -> StronglySorted R (l1 ++ l2).
  Proof.
    induction l1 as [|a l1 IH]; intros H1 H2 Hc; cbn; [exact H2|].
    inversion H1; subst. constructor.
    - apply IH; auto. intros; apply Hc; cbn; auto.
    - apply Forall_app. split; [assumption|].
      apply Forall_forall. intros y Hy. apply Hc; cbn; auto.
  Qed.

  Lemma SS_app_inv l1 l2 :
    StronglySorted R (l1 ++ l2) ->
    StronglySorted R l1 /\ StronglySorted R l2 /\ (forall x y, In x l1 -> In y l2 -> R x y).
  Proof.
    induction l1 as [|a l1 IH]; cbn; intros H.
    - repeat split; [constructor|assumption|intros ? ? []].
    - inversion H; subst. destruct (IH H2) as [S1 [S2 Hc]].
      apply Forall_app in H3. destruct H3 as [F1 F2].
      repeat split; [constructor; assumption|assumption|].
      intros x y [<-|Hx] Hy; [|auto]. rewrite Forall_forall in F2. auto.
  Qed.
End SS.

Lemma SS_map {A B} (R : A -> A -> Prop) (S : B -> B -> Prop) (f : A -> B) l :
  (forall x y, R x y -> S (f x) (f y)) -> StronglySorted R l -> StronglySorted S (map f l).
Proof.
  intros Hf H. induction H; cbn; constructor; auto.
  apply Forall_forall. intros y Hy. apply in_map_iff in Hy. destruct Hy as [z [<- Hz]].
  rewrite Forall_forall in H0. auto.
Qed.

Lemma SS_map_inv {A B} (R : A -> A -> Prop) (S : B -> B -> Prop) (f : A -> B) l :
  (forall x y, S (f x) (f y) -> R x y) -> StronglySorted S (map f l) -> StronglySorted R l.
Proof.
  intros Hf. induction l as [|a l IH]; cbn; intros H; [constructor|].
  inversion H; subst. constructor; auto.
  apply Forall_forall. intros y Hy. apply Hf. rewrite Forall_forall in H3. apply H3.
  now apply in_map.
Qed.

(* ---------- the key order ---------- *)
Definition klt (a b : key) : Prop := lex_cmp a b = Lt.

Lemma klt_trans : Transitive klt.
Proof. intros a b c. apply lex_cmp_trans_lt. Qed.

Lemma key_ltb_klt a b : key_ltb a b = true <-> klt a b.
Proof. unfold key_ltb, klt. destruct (lex_cmp a b); split; congruence. Qed.

Lemma sorted_strict_Sorted l : sorted_strict l = true <-> Sorted klt l.
Proof.
  induction l as [|a l IH]; [split; [constructor|reflexivity]|].
  cbn [sorted_strict]. destruct l as [|b l].
  - split; [repeat constructor|reflexivity].
  - rewrite andb_true_iff, key_ltb_klt, IH. split.
    + intros [H1 H2]. constructor; [assumption|]. constructor. assumption.
    + intros H. inversion H; subst. inversion H3; subst. auto.
Qed.

Lemma sorted_strict_SS l : sorted_strict l = true <-> StronglySorted klt l.
Proof.
  rewrite sorted_strict_Sorted. split.
  - apply Sorted_StronglySorted. exact klt_trans.
  - apply StronglySorted_Sorted.
Qed.

Lemma klt_irrefl a : ~ klt a a.
Proof. unfold klt. rewrite lex_cmp_refl. discriminate. Qed.

Lemma SS_klt_NoDup l : StronglySorted klt l -> NoDup l.
Proof.
  induction 1; constructor; auto.
  intros Hin. rewrite Forall_forall in H0. exact (klt_irrefl _ (H0 _ Hin)).
Qed.

Lemma klt_cons b x y : klt x y -> klt (b :: x) (b :: y).
Proof. unfold klt. cbn. now rewrite N.compare_refl. Qed.

Lemma klt_cons_lt b c x y : b < c -> klt (b :: x) (c :: y).
Proof. unfold klt. cbn. intros H. apply N.compare_lt_iff in H. now rewrite H. Qed.

(* ---------- lookup ---------- *)
Lemma lookup_app m1 m2 k :
  lookup (m1 ++ m2) k = match lookup m1 k with Some v => Some v | None => lookup m2 k end.
Proof.
  induction m1 as [|[k' v] m1 IH]; cbn [lookup app]; [reflexivity|].
  destruct (key_eqb k k'); [reflexivity|apply IH].
Qed.

Lemma lookup_none m k : (forall kv, In kv m -> fst kv <> k) -> lookup m k = None.
Proof.
  induction m as [|[k' v] m IH]; intros H; cbn [lookup]; [reflexivity|].
  destruct (key_eqb k k') eqn:E.
  - apply key_eqb_eq in E. exfalso. apply (H (k', v)); cbn; auto.
  - apply IH. intros; apply H; cbn; auto.
Qed.

Lemma lookup_In_1 m k v : lookup m k = Some v -> In (k, v) m.
Proof.
  induction m as [|[k' v'] m IH]; cbn [lookup]; [discriminate|].
  destruct (key_eqb k k') eqn:E.
  - apply key_eqb_eq in E. intros H; inversion H; subst. cbn; auto.
  - intros H. right. auto.
Qed.

(* on a map with strictly increasing keys, lookup is membership *)
Lemma lookup_In m k v : kmap_ok m = true -> (lookup m k = Some v <-> In (k, v) m).
Proof.
  intros Hok. split; [apply lookup_In_1|].
  unfold kmap_ok in Hok. apply sorted_strict_SS in Hok. apply SS_klt_NoDup in Hok.
  induction m as [|[k' v'] m IH]; cbn [lookup In]; [intros []|].
  cbn in Hok. inversion Hok as [|? ? Hni Hnd]; subst. intros [H|H].
  - inversion H; subst. now rewrite key_eqb_refl.
  - destruct (key_eqb k k') eqn:E; [|auto].
    apply key_eqb_eq in E. subst. exfalso. apply Hni.
    change k' with (fst (k', v)). now apply in_map.
Qed.

Lemma lookup_map_cons b o (l : kmap) k :
  lookup (map (fun kv => (b :: fst kv, o + snd kv)) l) (b :: k) = option_map (N.add o) (lookup l k).
Proof.
  induction l as [|[k' v] l IH]; cbn [lookup map fst snd]; [reflexivity|].
  unfold key_eqb at 1. cbn [lex_cmp]. rewrite N.compare_refl.
  fold (key_eqb k k'). destruct (key_eqb k k'); [reflexivity|apply IH].
Qed.

(* ---------- transitions ---------- *)
Definition find_trans (b : N) (ts : list trans) : option trans := find (fun t => t_inp t =? b) ts.

Lemma find_pos_spec b ts : forall i,
  match find_pos b ts i with
  | Some j => exists idx t, j = i + N.of_nat idx /\ nth_error ts idx = Some t /\
                            t_inp t = b /\ find_trans b ts = Some t
  | None => find_trans b ts = None
  end.
Proof.
  induction ts as [|t r IH]; intros i; cbn [find_pos find_trans find]; [reflexivity|].
  destruct (N.eqb_spec (t_inp t) b) as [E|E].
  - exists O, t. repeat split; auto. lia.
  - specialize (IH (i + 1)). destruct (find_pos b r (i + 1)); [|exact IH].
    destruct IH as [idx [t' [Hj [Hn [Hb Hf]]]]]. exists (S idx), t'. repeat split; auto. lia.
Qed.

Lemma inputs_increasing_tail t r : inputs_increasing (t :: r) = true -> inputs_increasing r = true.
Proof. cbn [inputs_increasing]. destruct r; [reflexivity|]. now rewrite andb_true_iff. Qed.

Lemma inputs_increasing_head t r :
  inputs_increasing (t :: r) = true -> forall t', In t' r -> t_inp t < t_inp t'.
Proof.
  revert t. induction r as [|u r IH]; intros t H t' Hin; [destruct Hin|].
  cbn [inputs_increasing] in H. apply andb_true_iff in H. destruct H as [H1 H2].
  destruct Hin as [<-|Hin]; [lia|]. specialize (IH u H2 t' Hin). lia.
Qed.

Lemma find_trans_none b ts : find_trans b ts = None -> forall t, In t ts -> t_inp t <> b.
Proof.
  unfold find_trans. intros H t Hin E. apply (find_none _ _ H) in Hin. lia.
Qed.

(* ---------- the language ---------- *)
Definition shift (t : trans) (l : kmap) : kmap := map (fun kv => (t_inp t :: fst kv, t_out t + snd kv)) l.

Section Graph.
Variable g : graph.
Hypothesis WF : wf_graph g.

Lemma lang_some f : forall a n, gget g a = Some n -> (N.to_nat a < f)%nat -> exists l, lang g f a = Some l.
Proof.
  induction f as [|f IH]; intros a n Hn Hlt; [lia|].
  cbn [lang]. rewrite Hn.
  destruct (WF a n Hn) as [_ Ht].
  match goal with |- context [forallb ?p ?l] => assert (E: forallb p l = true) end.
  { apply forallb_forall. intros o Ho. apply in_map_iff in Ho. destruct Ho as [t [<- Hin]].
    destruct (Ht t Hin) as [_ [Hlt' [n' Hn']]].
    destruct (IH (t_addr t) n' Hn') as [l Hl]; [lia|]. now rewrite Hl. }
  rewrite E. eauto.
Qed.

Lemma lang_indep f1 : forall f2 a n, gget g a = Some n ->
  (N.to_nat a < f1)%nat -> (N.to_nat a < f2)%nat -> lang g f1 a = lang g f2 a.
Proof.
  induction f1 as [|f1 IH]; intros [|f2] a n Hn H1 H2; try lia.
  cbn [lang]. rewrite Hn. destruct (WF a n Hn) as [_ Ht].
  erewrite map_ext_in; [reflexivity|].
  intros t Hin. cbv beta. destruct (Ht t Hin) as [_ [Hlt' [n' Hn']]].
  rewrite (IH f2 (t_addr t) n' Hn'); [reflexivity|lia|lia].
Qed.

(* fuel independence *)
Theorem lang_fuel : forall f a n, gget g a = Some n -> (N.to_nat a < f)%nat ->
  exists l, lang g f a = Some l /\ lang g (S (N.to_nat a)) a = Some l.
Proof.
  intros f a n Hn Hlt. destruct (lang_some f a n Hn Hlt) as [l Hl]. exists l. split; [assumption|].
  rewrite <- Hl. apply (lang_indep _ _ a n Hn); lia.
Qed.

Lemma lang_L f a n : gget g a = Some n -> (N.to_nat a < f)%nat -> lang g f a = Some (L g a).
Proof.
  intros Hn Hlt. destruct (lang_fuel f a n Hn Hlt) as [l [H1 H2]]. unfold L. now rewrite H2.
Qed.

Theorem L_unfold a n : gget g a = Some n ->
  L g a = (if g_final n then [([], g_fout n)] else []) ++
          flat_map (fun t => map (fun kv => (t_inp t :: fst kv, t_out t + snd kv)) (L g (t_addr t))) (g_trans n).
Proof.
  intros Hn. unfold L at 1. cbn [lang]. rewrite Hn. destruct (WF a n Hn) as [_ Ht].
  rewrite (map_ext_in _ (fun t => Some (map (fun kv => (t_inp t :: fst kv, t_out t + snd kv)) (L g (t_addr t))))).
  2:{ intros t Hin. destruct (Ht t Hin) as [_ [Hlt' [n' Hn']]].
      rewrite (lang_L _ _ n' Hn'); [reflexivity|lia]. }
  match goal with |- context [forallb ?p ?l] => assert (E: forallb p l = true) end.
  { apply forallb_forall. intros o Ho. apply in_map_iff in Ho. destruct Ho as [t [<- _]]. reflexivity. }
  rewrite E, map_map, flat_map_concat_map. reflexivity.
Qed.

Lemma L_zero : L g 0 = [([], 0)].
Proof. rewrite (L_unfold 0 g_empty_final) by reflexivity. reflexivity. Qed.

Lemma keys_of_app (m1 m2 : kmap) : keys_of (m1 ++ m2) = keys_of m1 ++ keys_of m2.
Proof. apply map_app. Qed.

Lemma blocks_SS (K : trans -> kmap) ts :
  inputs_increasing ts = true ->
  (forall t, In t ts -> StronglySorted klt (keys_of (K t))) ->
  StronglySorted klt (keys_of (flat_map (fun t => shift t (K t)) ts)).
Proof.
  induction ts as [|t r IH]; intros Hi Hs; cbn [flat_map]; [constructor|].
  rewrite keys_of_app. apply SS_app.
  - unfold keys_of, shift. rewrite map_map. cbn [fst].
    rewrite <- (map_map fst (cons (t_inp t))).
    apply (SS_map klt klt); [intros; now apply klt_cons|]. apply Hs; cbn; auto.
  - apply IH; [eapply inputs_increasing_tail; eauto|]. intros; apply Hs; cbn; auto.
  - intros x y Hx Hy. unfold keys_of in Hx, Hy.
    apply in_map_iff in Hx. destruct Hx as [[kx vx] [<- Hx]].
    apply in_map_iff in Hy. destruct Hy as [[ky vy] [<- Hy]].
    apply in_map_iff in Hx. destruct Hx as [kv [E _]]. inversion E; subst.
    apply in_flat_map in Hy. destruct Hy as [t' [Hin Hy]].
    apply in_map_iff in Hy. destruct Hy as [kv' [E' _]]. inversion E'; subst.
    cbn [fst]. apply klt_cons_lt. eapply inputs_increasing_head; eauto.
Qed.

Lemma L_sorted_fuel f : forall a n, (N.to_nat a < f)%nat -> gget g a = Some n ->
  StronglySorted klt (keys_of (L g a)).
Proof.
  induction f as [|f IH]; intros a n Hlt Hn; [lia|].
  rewrite (L_unfold a n Hn). destruct (WF a n Hn) as [Hi Ht].
  rewrite keys_of_app. apply SS_app.
  - destruct (g_final n); cbn; repeat constructor.
  - apply (blocks_SS (fun t => L g (t_addr t))); [assumption|].
    intros t Hin. destruct (Ht t Hin) as [_ [Hlt' [n' Hn']]]. apply (IH _ n'); [lia|assumption].
  - intros x y Hx Hy. destruct (g_final n); [|destruct Hx]. destruct Hx as [<-|[]].
    unfold keys_of in Hy. apply in_map_iff in Hy. destruct Hy as [[ky vy] [<- Hy]].
    apply in_flat_map in Hy. destruct Hy as [t' [Hin Hy]].
    apply in_map_iff in Hy. destruct Hy as [kv' [E' _]]. inversion E'; subst. reflexivity.
Qed.

(* keys of the language are strictly increasing in lex_cmp order *)
Theorem L_sorted a n : gget g a = Some n -> kmap_ok (L g a) = true.
Proof.
  intros Hn. unfold kmap_ok. apply sorted_strict_SS.
  apply (L_sorted_fuel (S (N.to_nat a)) a n); [lia|assumption].
Qed.

Corollary L_keys_NoDup a n : gget g a = Some n -> NoDup (keys_of (L g a)).
Proof.
  intros Hn. apply SS_klt_NoDup. apply sorted_strict_SS. exact (L_sorted a n Hn).
Qed.

Corollary L_lookup_In a n k v : gget g a = Some n -> (lookup (L g a) k = Some v <-> In (k, v) (L g a)).
Proof. intros Hn. apply lookup_In. exact (L_sorted a n Hn). Qed.

(* ---------- lookup equations ---------- *)
Theorem L_lookup_nil a n : gget g a = Some n ->
  lookup (L g a) [] = if g_final n then Some (g_fout n) else None.
Proof.
  intros Hn. rewrite (L_unfold a n Hn), lookup_app.
  destruct (g_final n); [reflexivity|]. cbn [lookup].
  apply lookup_none. intros kv Hin. apply in_flat_map in Hin. destruct Hin as [t [_ Hin]].
  apply in_map_iff in Hin. destruct Hin as [kv' [<- _]]. discriminate.
Qed.

Lemma lookup_blocks (K : trans -> kmap) ts b k :
  inputs_increasing ts = true ->
  lookup (flat_map (fun t => shift t (K t)) ts) (b :: k) =
  match find_trans b ts with
  | Some t => option_map (N.add (t_out t)) (lookup (K t) k)
  | None => None
  end.
Proof.
  induction ts as [|t r IH]; intros Hi; cbn [flat_map find_trans find]; [reflexivity|].
  rewrite lookup_app. destruct (N.eqb_spec (t_inp t) b) as [E|E].
  - subst b. unfold shift at 1. rewrite lookup_map_cons.
    destruct (lookup (K t) k); [reflexivity|]. cbn [option_map].
    apply lookup_none. intros kv Hin. apply in_flat_map in Hin. destruct Hin as [t' [Hin' Hin]].
    apply in_map_iff in Hin. destruct Hin as [kv' [<- _]]. cbn [fst].
    pose proof (inputs_increasing_head t r Hi t' Hin'). intros E; inversion E; lia.
  - rewrite (lookup_none (shift t (K t))).
    + apply IH. eapply inputs_increasing_tail; eauto.
    + intros kv Hin. apply in_map_iff in Hin. destruct Hin as [kv' [<- _]]. cbn [fst]. congruence.
Qed.

Theorem L_lookup_cons a n b k : gget g a = Some n ->
  lookup (L g a) (b :: k) =
  match find_trans b (g_trans n) with
  | Some t => option_map (N.add (t_out t)) (lookup (L g (t_addr t)) k)
  | None => None
  end.
Proof.
  intros Hn. rewrite (L_unfold a n Hn), lookup_app. destruct (WF a n Hn) as [Hi _].
  match goal with |- match ?x with _ => _ end = _ => assert (E : x = None) by (destruct (g_final n); reflexivity) end.
  rewrite E.
  apply (lookup_blocks (fun t => L g (t_addr t))). assumption.
Qed.

End Graph.
