(* OpenProofs.v — C20: Fst::new never panics and verify() never panics on anything that opened;
   C08: a single-byte change of a file that opened and verified is never certified as valid. *)
Require Import FstV.Base FstV.Generated.SrcParams FstV.Crc FstV.Open FstV.proofs.CrcProofs.
From Coq Require Import ZArith ZifyN ZifyBool ZifyNat.

(* ---------- the readers succeed exactly on long enough slices ---------- *)
Definition u64_at (s : list N) : N := match read_u64_le s with Ok v => v | _ => 0 end.
Definition u32_at (s : list N) : N := match read_u32_le s with Ok v => v | _ => 0 end.
Lemma read_u64_le_ok s : (8 <= length s)%nat -> read_u64_le s = Ok (u64_at s).
Proof.
  intros H. do 8 (destruct s as [|? s]; [cbn [length] in H; lia|]). reflexivity.
Qed.
Lemma read_u32_le_ok s : (4 <= length s)%nat -> read_u32_le s = Ok (u32_at s).
Proof.
  intros H. do 4 (destruct s as [|? s]; [cbn [length] in H; lia|]). reflexivity.
Qed.
Lemma read_u32_le_short s : (length s < 4)%nat -> read_u32_le s = Panic.
Proof. intros H. do 4 (destruct s as [|? s]; [reflexivity|]). cbn [length] in H. lia. Qed.

Lemma usize_sub_ok a b : b <= a -> usize_sub a b = Ok (a - b).
Proof. intros H. unfold usize_sub. destruct (N.leb_spec b a); [reflexivity|lia]. Qed.
Lemma slice_from_ok s i : i <= len s -> slice_from s i = Ok (skipn (N.to_nat i) s).
Proof. intros H. unfold slice_from. destruct (N.leb_spec i (len s)); [reflexivity|lia]. Qed.
Lemma slice_to_ok s i : i <= len s -> slice_to s i = Ok (firstn (N.to_nat i) s).
Proof. intros H. unfold slice_to. destruct (N.leb_spec i (len s)); [reflexivity|lia]. Qed.

Ltac side := unfold len in *; rewrite ?skipn_length; lia.

(* ---------- one symbolic run of Fst::new ---------- *)
Lemma fst_new_char bs :
  match fst_new bs with
  | Panic => False
  | Err e => e = EFormat (len bs) \/ exists v, e = EVersion src_VERSION v
  | Ok m =>
      32 <= len bs /\
      match m_checksum m with
      | None => True
      | Some c => 36 <= len bs /\ read_u32_le (skipn (N.to_nat (len bs - 4)) bs) = Ok c
      end
  end.
Proof.
  unfold fst_new.
  destruct (N.ltb_spec (len bs) 32) as [|H32]; [now left|].
  rewrite (read_u64_le_ok bs) by side. cbn [bind].
  set (version := u64_at bs).
  destruct ((version =? 0) || (src_VERSION <? version)) eqn:Ev; [right; now eexists|].
  destruct ((3 <=? version) && (len bs <? 36)) eqn:E3; [now left|].
  rewrite (slice_from_ok bs 8) by side. cbn [bind].
  rewrite read_u64_le_ok by side. cbn [bind].
  assert (Hfin : forall (m : meta) (ra et ao : N),
            ao <= 1000 ->
            match (if (ra =? src_EMPTY_ADDRESS) && negb (len bs =? et)
                   then do s <- usize_add ra ao; if negb (s =? len bs) then Err (EFormat (len bs)) else Ok m
                   else Ok m) with
            | Panic => False | Err e => e = EFormat (len bs)
            | Ok m' => m' = m end).
  { intros m ra et ao Hao.
    destruct ((ra =? src_EMPTY_ADDRESS) && negb (len bs =? et)) eqn:Er; [|reflexivity].
    apply andb_true_iff in Er as [Er _]. apply N.eqb_eq in Er. subst ra.
    unfold usize_add, src_EMPTY_ADDRESS, U64MAX. destruct (N.leb_spec (0 + ao) 18446744073709551615); [|lia].
    cbn [bind]. destruct (negb (0 + ao =? len bs)); reflexivity. }
  destruct (version <=? 2) eqn:E2; cbn [bind].
  - rewrite (usize_sub_ok (len bs) 8) by side. cbn [bind].
    rewrite slice_from_ok by side. cbn [bind].
    rewrite read_u64_le_ok by side. cbn [bind].
    rewrite (usize_sub_ok (len bs) 16) by side. cbn [bind].
    rewrite slice_from_ok by side. cbn [bind].
    rewrite read_u64_le_ok by side. cbn [bind]. unfold u64_to_usize.
    match goal with |- match (if _ then do s <- usize_add ?ra ?ao; if _ then _ else Ok ?m else _) with _ => _ end =>
      pose proof (Hfin m ra src_open_empty_total_v12 ao) as Hf end.
    match type of Hf with _ -> match ?X with _ => _ end =>
      destruct X as [m'|e|]; [|left; apply Hf; unfold src_open_addr_offset_v12; lia|apply Hf; unfold src_open_addr_offset_v12; lia] end.
    rewrite Hf by (unfold src_open_addr_offset_v12; lia). cbn [m_checksum]. split; [exact H32|exact I].
  - assert (H36 : 36 <= len bs).
    { apply andb_false_iff in E3. apply N.leb_gt in E2.
      destruct E3 as [E3|E3]; [apply N.leb_gt in E3; lia|apply N.ltb_ge in E3; exact E3]. }
    rewrite (usize_sub_ok (len bs) 4) by side. cbn [bind].
    rewrite slice_from_ok by side. cbn [bind].
    rewrite read_u32_le_ok by side. cbn [bind].
    rewrite (usize_sub_ok (len bs - 4) 8) by side. cbn [bind].
    rewrite slice_from_ok by side. cbn [bind].
    rewrite read_u64_le_ok by side. cbn [bind].
    rewrite (usize_sub_ok (len bs - 4) 16) by side. cbn [bind].
    rewrite slice_from_ok by side. cbn [bind].
    rewrite read_u64_le_ok by side. cbn [bind]. unfold u64_to_usize.
    match goal with |- match (if _ then do s <- usize_add ?ra ?ao; if _ then _ else Ok ?m else _) with _ => _ end =>
      pose proof (Hfin m ra src_open_empty_total_v3 ao) as Hf end.
    match type of Hf with _ -> match ?X with _ => _ end =>
      destruct X as [m'|e|]; [|left; apply Hf; unfold src_open_addr_offset_v3; lia|apply Hf; unfold src_open_addr_offset_v3; lia] end.
    rewrite Hf by (unfold src_open_addr_offset_v3; lia). cbn [m_checksum].
    split; [exact H32|]. split; [exact H36|reflexivity].
Qed.

(* C20 *)
Theorem open_total bs : fst_new bs <> Panic.
Proof. intros E. pose proof (fst_new_char bs) as H. now rewrite E in H. Qed.

(* the only errors Fst::new returns: Format with the input length, Version with the crate's VERSION *)
Theorem open_errors bs e : fst_new bs = Err e ->
  e = EFormat (len bs) \/ exists v, e = EVersion src_VERSION v.
Proof. intros E. pose proof (fst_new_char bs) as H. now rewrite E in H. Qed.

Lemma open_ok_len bs m : fst_new bs = Ok m -> 32 <= len bs.
Proof. intros E. pose proof (fst_new_char bs) as H. rewrite E in H. apply H. Qed.
Lemma open_ok_checksum bs m c : fst_new bs = Ok m -> m_checksum m = Some c ->
  36 <= len bs /\ read_u32_le (skipn (N.to_nat (len bs - 4)) bs) = Ok c.
Proof. intros E Hc. pose proof (fst_new_char bs) as H. rewrite E, Hc in H. apply H. Qed.

(* verify never panics once the length is at least 4 — in particular on everything that opened *)
Lemma verify_cases bs m : 4 <= len bs ->
  verify bs m =
  match m_checksum m with
  | None => Err EChecksumMissing
  | Some expected =>
      let got := model_masked_crc32c (firstn (N.to_nat (len bs - 4)) bs) in
      if expected =? got then Ok tt else Err (EChecksumMismatch expected got)
  end.
Proof.
  intros H. unfold verify. destruct (m_checksum m) as [c|]; [|reflexivity].
  rewrite usize_sub_ok by exact H. cbn [bind]. rewrite slice_to_ok by lia. cbn [bind]. reflexivity.
Qed.
Theorem verify_total bs m : fst_new bs = Ok m -> verify bs m <> Panic.
Proof.
  intros E. apply open_ok_len in E. rewrite verify_cases by lia.
  destruct (m_checksum m) as [c|]; [|discriminate]. cbv zeta.
  destruct (c =? _); discriminate.
Qed.
Theorem verify_errors bs m e : fst_new bs = Ok m -> verify bs m = Err e ->
  e = EChecksumMissing \/ exists expected got, e = EChecksumMismatch expected got /\ expected <> got.
Proof.
  intros E. apply open_ok_len in E. rewrite verify_cases by lia.
  destruct (m_checksum m) as [c|]; [|intros H; left; congruence]. cbv zeta.
  destruct (N.eqb_spec c (model_masked_crc32c (firstn (N.to_nat (len bs - 4)) bs))) as [|Hne]; [discriminate|].
  intros H. right. do 2 eexists. split; [|exact Hne]. congruence.
Qed.
Theorem open_verify_total bs : open_verify bs <> Panic.
Proof.
  unfold open_verify. destruct (fst_new bs) as [m| |] eqn:E; cbn [bind]; [|discriminate|now apply open_total in E].
  pose proof (verify_total bs m E). destruct (verify bs m) as [[]| |]; cbn [bind]; congruence.
Qed.

(* ---------- set_nth against firstn / skipn ---------- *)
Lemma firstn_set_nth_lt {A} (l : list A) : forall i k x, (i < k)%nat ->
  firstn k (set_nth l i x) = set_nth (firstn k l) i x.
Proof.
  induction l as [|y l IH]; intros i k x H; [destruct i, k; reflexivity|].
  destruct k as [|k]; [lia|]. destruct i as [|i]; cbn [set_nth firstn]; [reflexivity|].
  f_equal. apply IH. lia.
Qed.
Lemma firstn_set_nth_ge {A} (l : list A) : forall i k x, (k <= i)%nat ->
  firstn k (set_nth l i x) = firstn k l.
Proof.
  induction l as [|y l IH]; intros i k x H; [destruct i; reflexivity|].
  destruct k as [|k]; [reflexivity|]. destruct i as [|i]; [lia|]. cbn [set_nth firstn].
  f_equal. apply IH. lia.
Qed.
Lemma skipn_set_nth_lt {A} (l : list A) : forall i k x, (i < k)%nat ->
  skipn k (set_nth l i x) = skipn k l.
Proof.
  induction l as [|y l IH]; intros i k x H; [destruct i, k; reflexivity|].
  destruct k as [|k]; [lia|]. destruct i as [|i]; cbn [set_nth skipn]; [reflexivity|].
  apply IH. lia.
Qed.
Lemma skipn_set_nth_ge {A} (l : list A) : forall i k x, (k <= i)%nat ->
  skipn k (set_nth l i x) = set_nth (skipn k l) (i - k) x.
Proof.
  induction l as [|y l IH]; intros i k x H; [destruct i, k; reflexivity|].
  destruct k as [|k]; [now rewrite Nat.sub_0_r|]. destruct i as [|i]; [lia|]. cbn [set_nth skipn Nat.sub].
  apply IH. lia.
Qed.
Lemma nth_skipn {A} (l : list A) : forall k j d, nth j (skipn k l) d = nth (k + j) l d.
Proof.
  induction l as [|y l IH]; intros k j d; [destruct k, j; reflexivity|].
  destruct k as [|k]; [reflexivity|]. cbn [skipn Nat.add nth]. apply IH.
Qed.
Lemma nth_firstn {A} (l : list A) : forall k i d, (i < k)%nat -> nth i (firstn k l) d = nth i l d.
Proof.
  induction l as [|y l IH]; intros k i d H; [destruct k, i; reflexivity|].
  destruct k as [|k]; [lia|]. destruct i as [|i]; [reflexivity|]. cbn [firstn nth]. apply IH. lia.
Qed.
Lemma Forall_firstn {A} (P : A -> Prop) l k : Forall P l -> Forall P (firstn k l).
Proof. intros H. rewrite <- (firstn_skipn k l) in H. now apply Forall_app in H. Qed.
Lemma Forall_skipn {A} (P : A -> Prop) l k : Forall P l -> Forall P (skipn k l).
Proof. intros H. rewrite <- (firstn_skipn k l) in H. now apply Forall_app in H. Qed.

Lemma len_set_nth (l : list N) i x : len (set_nth l i x) = len l.
Proof. unfold len. now rewrite set_nth_length. Qed.

(* changing one of four bytes changes the little-endian word *)
Lemma read_u32_set_nth s j x c : Forall (fun b => b < 256) s -> length s = 4%nat -> (j < 4)%nat ->
  x < 256 -> read_u32_le s = Ok c -> read_u32_le (set_nth s j x) = Ok c -> x = nth j s 0.
Proof.
  intros HB L Hj Hx E1 E2.
  destruct s as [|a0 [|a1 [|a2 [|a3 [|]]]]]; try discriminate L.
  repeat match goal with H : Forall _ (_ :: _) |- _ => inversion H; clear H; subst end.
  destruct j as [|[|[|[|j]]]]; try lia; cbn [set_nth read_u32_le nth] in *;
    rewrite <- E1 in E2; injection E2 as E2; apply le32_inj in E2; tauto.
Qed.

(* ---------- C08: corruption is never certified ---------- *)
Theorem corruption_never_certified bs m i x :
  Forall (fun b => b < 256) bs -> fst_new bs = Ok m -> verify bs m = Ok tt ->
  (i < length bs)%nat -> x < 256 -> x <> nth i bs 0 ->
  (exists e, fst_new (set_nth bs i x) = Err e) \/
  (exists m' e, fst_new (set_nth bs i x) = Ok m' /\ verify (set_nth bs i x) m' = Err e).
Proof.
  intros HB Eo Ev Hi Hx Hne.
  pose proof (open_ok_len bs m Eo) as H32.
  rewrite verify_cases in Ev by lia.
  destruct (m_checksum m) as [c|] eqn:Ec; [|discriminate]. cbv zeta in Ev.
  destruct (N.eqb_spec c (model_masked_crc32c (firstn (N.to_nat (len bs - 4)) bs))) as [Hc|]; [|discriminate].
  destruct (open_ok_checksum bs m c Eo Ec) as [H36 Hr].
  set (bs' := set_nth bs i x).
  destruct (fst_new bs') as [m'|e|] eqn:Eo'; [|left; now exists e|now apply open_total in Eo'].
  right. exists m'.
  assert (Hl : len bs' = len bs) by apply len_set_nth.
  rewrite verify_cases by lia. rewrite Hl.
  destruct (m_checksum m') as [c'|] eqn:Ec'; [|now exists EChecksumMissing]. cbv zeta.
  destruct (N.eqb_spec c' (model_masked_crc32c (firstn (N.to_nat (len bs - 4)) bs'))) as [Hc'|];
    [exfalso|eexists; split; reflexivity].
  destruct (open_ok_checksum bs' m' c' Eo' Ec') as [_ Hr']. rewrite Hl in Hr'.
  set (k := N.to_nat (len bs - 4)) in *.
  assert (Hk : (k + 4 = length bs)%nat) by (unfold k, len in *; lia).
  destruct (Nat.lt_ge_cases i k) as [Hik|Hik]; unfold bs' in *.
  - (* a body byte: the stored checksum is unchanged, the computed one is not *)
    rewrite skipn_set_nth_lt in Hr' by exact Hik. rewrite Hr in Hr'. injection Hr' as <-.
    rewrite firstn_set_nth_lt in Hc' by exact Hik.
    rewrite Hc in Hc'. symmetry in Hc'. revert Hc'.
    apply single_byte_masked; auto using Forall_firstn.
    + rewrite firstn_length. lia.
    + rewrite nth_firstn by exact Hik. exact Hne.
  - (* a checksum byte: the computed checksum is unchanged, the stored one is not *)
    rewrite firstn_set_nth_ge in Hc' by exact Hik. rewrite <- Hc in Hc'. subst c'.
    rewrite skipn_set_nth_ge in Hr' by exact Hik.
    apply Hne. rewrite (read_u32_set_nth (skipn k bs) (i - k) x c); auto using Forall_skipn.
    + rewrite nth_skipn. f_equal. lia.
    + rewrite skipn_length. lia.
    + lia.
Qed.

(* ---------- C08: whatever went through the CountingWriter, the finished file verifies ---------- *)
Lemma Forall_concat {A} (P : A -> Prop) ls : Forall (Forall P) ls -> Forall P (concat ls).
Proof. induction 1; cbn [concat]; [constructor|]. apply Forall_app; auto. Qed.

Lemma Ok_inj {A} (a b : A) : Ok a = Ok b -> a = b.
Proof. intros H. now injection H. Qed.

Theorem writer_footer_verifies chunks m :
  Forall (Forall (fun x => x < 256)) chunks ->
  fst_new (writer_finish chunks) = Ok m -> m_checksum m <> None ->
  verify (writer_finish chunks) m = Ok tt.
Proof.
  intros HB Eo Hc. destruct (m_checksum m) as [c|] eqn:Ec; [clear Hc|congruence].
  destruct (open_ok_checksum _ m c Eo Ec) as [H36 Hr].
  rewrite verify_cases by lia. rewrite Ec. cbv zeta.
  unfold writer_finish in *. set (body := concat chunks) in *.
  set (f := summer_masked (summer_feed summer_new chunks)) in *.
  assert (Hk : N.to_nat (len (body ++ u32_to_le f) - 4) = length body).
  { unfold len. rewrite app_length. cbn [u32_to_le length]. lia. }
  rewrite Hk in *.
  rewrite firstn_app, Nat.sub_diag, firstn_all. cbn [firstn]. rewrite app_nil_r.
  rewrite skipn_app, Nat.sub_diag, skipn_all in Hr. cbn [skipn app u32_to_le read_u32_le] in Hr.
  assert (Hf : f = spec_masked_crc32c body) by (apply footer_value; exact HB).
  assert (HBb : Forall (fun x => x < 256) body) by (apply Forall_concat; exact HB).
  clearbody f body.
  apply Ok_inj in Hr. subst c.
  rewrite le32_of_le by (rewrite Hf; apply spec_masked_u32).
  rewrite model_masked_eq_spec by exact HBb.
  rewrite Hf, N.eqb_refl. reflexivity.
Qed.
