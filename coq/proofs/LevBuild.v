(* LevBuild.v — C17, Part 3c: DfaBuilder::build_with_limit.  The worklist closes the set of
   reachable rows under the character step, and in the finished DFA every processed row's
   state has, for every scalar value, a UTF-8 path to the state of the next row. *)
Require Import FstV.Base FstV.Loop FstV.Automaton FstV.Levenshtein.
Require Import FstV.proofs.LevProofs FstV.proofs.LevDfa FstV.proofs.LevUtf8.
Require Import Lia.
Open Scope nat_scope.

(* ================= more about rows ================= *)
Definition len_ok (L : dynlev) (r : row) : Prop := length r = length (dl_query L) + 1.

Lemma accept_go_length d chr q : forall prev st, length st = length q + 1 ->
  length (dl_accept_go d chr q prev st) = length q.
Proof.
  induction q as [|x q IH]; intros prev st H; [reflexivity|].
  destruct st as [|si [|si1 st]]; cbn [length] in H; try lia.
  cbn [dl_accept_go length]. rewrite IH; cbn [length]; lia.
Qed.

Lemma accept_len_ok L s chr : len_ok L s -> len_ok L (dl_accept L s chr).
Proof.
  unfold len_ok, dl_accept. intros H. destruct s as [|s0 s]; [cbn in H; lia|].
  cbn [length]. rewrite accept_go_length by exact H. lia.
Qed.

Lemma dl_start_len_ok L : len_ok L (dl_start L).
Proof. unfold len_ok, dl_start. apply seq_length. Qed.

Lemma accept_head L s chr : s <> [] -> nth 0 (dl_accept L s chr) 0 = nth 0 s 0 + 1.
Proof. destruct s; [congruence|reflexivity]. Qed.

Lemma accept_not_start L s chr : len_ok L s -> dl_accept L s chr <> dl_start L.
Proof.
  intros H E. assert (s <> []) as Hs by (intros ->; unfold len_ok in H; cbn in H; lia).
  pose proof (accept_head L s chr Hs) as H0. rewrite E in H0.
  unfold dl_start in H0. rewrite Nat.add_1_r in H0. cbn in H0. lia.
Qed.

Lemma dl_start_can_match L : dl_can_match L (dl_start L) = true.
Proof.
  rewrite can_match_existsb. unfold dl_start. rewrite Nat.add_1_r. cbn [seq existsb]. reflexivity.
Qed.

(* a character class can only lower the entries w.r.t. the mismatch class *)
Lemma accept_go_le d chr q : forall prev prev' st, prev <= prev' ->
  Forall2 le (dl_accept_go d chr q prev st) (dl_accept_go d None q prev' st).
Proof.
  induction q as [|x q IH]; intros prev prev' st Hp; [constructor|].
  destruct st as [|si [|si1 st]]; [constructor|constructor|].
  cbn [dl_accept_go chr_eqb]. constructor.
  - destruct (chr_eqb x chr); lia.
  - apply IH. destruct (chr_eqb x chr); lia.
Qed.

Lemma existsb_le_mono d a b : Forall2 le a b -> existsb (fun e => e <=? d) b = true -> existsb (fun e => e <=? d) a = true.
Proof.
  induction 1 as [|x y a b Hxy _ IH]; cbn; [auto|]. intros H. apply orb_true_iff in H as [H|H].
  - apply Nat.leb_le in H. apply orb_true_iff. left. apply Nat.leb_le. lia.
  - apply orb_true_iff. right. auto.
Qed.

Lemma accept_can_match_mono L s chr :
  dl_can_match L (dl_accept L s None) = true -> dl_can_match L (dl_accept L s chr) = true.
Proof.
  rewrite !can_match_existsb. apply existsb_le_mono. unfold dl_accept. destruct s as [|s0 s]; constructor.
  - lia.
  - apply accept_go_le. lia.
Qed.

(* a query character all of whose positions hold entries above dist behaves like a mismatch *)
Lemma accept_go_skip d c q : forall prev st,
  (forall j x, nth_error q j = Some x -> x = c -> d < nth j st 0) ->
  dl_accept_go d (Some c) q prev st = dl_accept_go d None q prev st.
Proof.
  induction q as [|x q IH]; intros prev st H; [reflexivity|].
  destruct st as [|si [|si1 st]]; [reflexivity|reflexivity|].
  cbn [dl_accept_go chr_eqb].
  assert (Nat.min (Nat.min (Nat.min (prev + 1) (si1 + 1)) (si + (if N.eqb x c then 0 else 1))) (d + 1)
          = Nat.min (Nat.min (Nat.min (prev + 1) (si1 + 1)) (si + 1)) (d + 1)) as ->.
  { destruct (N.eqb_spec x c) as [E|E]; [|reflexivity]. specialize (H 0 x eq_refl E). cbn in H. lia. }
  f_equal. apply IH. intros j y Hj Hy. exact (H (S j) y Hj Hy).
Qed.

Lemma accept_skip L s c :
  (forall j x, nth_error (dl_query L) j = Some x -> x = c -> dl_dist L < nth j s 0) ->
  dl_accept L s (Some c) = dl_accept L s None.
Proof. intros H. unfold dl_accept. destruct s as [|s0 s]; [reflexivity|]. f_equal. now apply accept_go_skip. Qed.

Lemma row_eqb_eq a b : row_eqb a b = true <-> a = b.
Proof.
  unfold row_eqb. revert b; induction a as [|x a IH]; intros [|y b]; cbn; try (split; congruence).
  rewrite andb_true_iff, Nat.eqb_eq, IH. split; [intros [-> ->]; reflexivity|intros H; inversion H; auto].
Qed.
Lemma row_eqb_refl a : row_eqb a a = true.
Proof. now apply row_eqb_eq. Qed.

(* ================= the cache ================= *)
Definition real (c : list (row * nat)) (i : nat) : Prop := In i (map snd c).

Lemma cache_get_real r c i : cache_get r c = Some i -> real c i.
Proof.
  induction c as [|[k v] c IH]; cbn; [discriminate|]. destruct (row_eqb r k).
  - intros H; inversion H. now left.
  - intros H. right. now apply IH.
Qed.

Lemma cache_get_inj c : NoDup (map snd c) -> forall r r' i,
  cache_get r c = Some i -> cache_get r' c = Some i -> r = r'.
Proof.
  induction c as [|[k v] c IH]; cbn; [discriminate|]. intros Hnd r r' i H1 H2.
  inversion Hnd as [|? ? Hnotin Hnd']; subst.
  destruct (row_eqb r k) eqn:E1, (row_eqb r' k) eqn:E2.
  - apply row_eqb_eq in E1, E2. congruence.
  - inversion H1; subst. apply cache_get_real in H2. contradiction.
  - inversion H2; subst. apply cache_get_real in H1. contradiction.
  - eauto.
Qed.

(* ================= static well-formedness of a builder ================= *)
Record bwf (L : dynlev) (B : builder) : Prop := {
  bwf_tables : wf_tables (b_dfa B);
  bwf_idx : forall i, real (b_cache B) i -> i < length (b_dfa B);
  bwf_nodup : NoDup (map snd (b_cache B));
  bwf_rows : forall r i, cache_get r (b_cache B) = Some i ->
             dl_can_match L r = true /\ len_ok L r /\
             option_map st_match (nth_error (b_dfa B) i) = Some (dl_is_match L r)
}.

(* B' arises from B by steps that leave every old state other than [sj] alone *)
Record bext (sj : nat) (B B' : builder) : Prop := {
  bext_len : length (b_dfa B) <= length (b_dfa B');
  bext_old : forall i, i < length (b_dfa B) -> i <> sj -> nth_error (b_dfa B') i = nth_error (b_dfa B) i;
  bext_match : forall i, i < length (b_dfa B) ->
               option_map st_match (nth_error (b_dfa B') i) = option_map st_match (nth_error (b_dfa B) i);
  bext_cache : forall r i, cache_get r (b_cache B) = Some i -> cache_get r (b_cache B') = Some i;
  bext_real : forall i, real (b_cache B') i -> real (b_cache B) i \/ length (b_dfa B) <= i
}.

Lemma bext_refl sj B : bext sj B B.
Proof. constructor; auto. Qed.

Lemma bext_trans sj B1 B2 B3 : bext sj B1 B2 -> bext sj B2 B3 -> bext sj B1 B3.
Proof.
  intros [l1 o1 m1 c1 r1] [l2 o2 m2 c2 r2]. constructor.
  - lia.
  - intros i Hi Hn. rewrite o2 by lia. now apply o1.
  - intros i Hi. rewrite m2 by lia. now apply m1.
  - auto.
  - intros i Hi. destruct (r2 i Hi) as [H|H]; [destruct (r1 i H); [now left|right; lia]|right; lia].
Qed.

(* ================= tries ================= *)
Definition tgt (L : dynlev) (c : list (row * nat)) (r : row) : option nat :=
  if dl_can_match L r then cache_get r c else None.
Definition nonreal (B : builder) (i : nat) : Prop := i < length (b_dfa B) /\ ~ real (b_cache B) i.

(* state [si] sends the UTF-8 bytes of every scalar value c to the state of the row [delta c],
   through intermediate states that belong to no row *)
Definition trie_for (L : dynlev) (B : builder) (si : nat) (delta : N -> row) : Prop :=
  forall c, is_scalar c = true ->
    tpath (nonreal B) (b_dfa B) si (utf8_encode c) (tgt L (b_cache B) (delta c)) /\
    (dl_can_match L (delta c) = true -> cache_get (delta c) (b_cache B) <> None).

Lemma trie_for_ext_delta L B si d1 d2 : (forall c, is_scalar c = true -> d1 c = d2 c) ->
  trie_for L B si d1 -> trie_for L B si d2.
Proof. intros E H c Hc. rewrite <- E by exact Hc. now apply H. Qed.

Lemma trie_ext L sj B B' si delta :
  bwf L B -> bext sj B B' -> si <> sj -> si < length (b_dfa B) ->
  (real (b_cache B) sj \/ length (b_dfa B) <= sj) ->
  trie_for L B si delta -> trie_for L B' si delta.
Proof.
  intros Hwf [l o m cc rr] Hne Hsi Hsj H c Hc. destruct (H c Hc) as [Hp Hcache].
  assert (tgt L (b_cache B') (delta c) = tgt L (b_cache B) (delta c)) as Et.
  { unfold tgt. destruct (dl_can_match L (delta c)); [|reflexivity].
    destruct (cache_get (delta c) (b_cache B)) as [j|] eqn:E; [now apply cc|]. now specialize (Hcache eq_refl). }
  split.
  - rewrite Et. destruct (utf8_encode c) as [|b r]; [exact Hp|]. cbn [tpath] in *.
    rewrite (get_next_of_nth _ _ _ _ (o si Hsi Hne)).
    eapply wpath_weaken; [|eapply wpath_agree; [|exact Hp]].
    + intros i [Hi Hr]. split; [lia|]. intros Hr'. destruct (rr i Hr'); [contradiction|lia].
    + intros i b' [Hi Hr]. apply get_next_of_nth, o; [exact Hi|].
      intros ->. destruct Hsj; [contradiction|lia].
  - intros Hcm. specialize (Hcache Hcm). destruct (cache_get (delta c) (b_cache B)) as [j|] eqn:E; [|congruence].
    rewrite (cc _ _ E). discriminate.
Qed.

(* ================= the operations of the builder ================= *)
Lemma cached_spec L B r B' res : bwf L B -> len_ok L r -> cached L B r = (B', res) ->
  (dl_can_match L r = false /\ B' = B /\ res = None) \/
  (dl_can_match L r = true /\ exists i was, res = Some (i, was) /\
     cache_get r (b_cache B') = Some i /\ bwf L B' /\ (forall sj, bext sj B B') /\
     ((B' = B /\ cache_get r (b_cache B) = Some i) \/
      (cache_get r (b_cache B) = None /\ i = length (b_dfa B) /\
       b_dfa B' = b_dfa B ++ [new_st (dl_is_match L r)] /\ b_cache B' = (r, i) :: b_cache B))).
Proof.
  intros Hwf Hlen. unfold cached. destruct (dl_can_match L r) eqn:Ecm; cbn [negb].
  2:{ intros H; inversion H. left. auto. }
  destruct (cache_get r (b_cache B)) as [i|] eqn:Eg; intros H; inversion H; subst B' res; clear H; right;
    (split; [reflexivity|]).
  - exists i, true. split; [reflexivity|]. split; [exact Eg|]. split; [exact Hwf|].
    split; [intros; apply bext_refl|left; auto].
  - exists (length (b_dfa B)), false. destruct Hwf as [wt wi wn wr].
    assert (~ real (b_cache B) (length (b_dfa B))) as Hfresh by (intros Hr; apply wi in Hr; lia).
    split; [reflexivity|]. split; [cbn; now rewrite row_eqb_refl|]. split; [|split].
    + constructor; cbn [b_dfa b_cache].
      * now apply wf_tables_app.
      * intros j [<-|Hj]; rewrite app_length; cbn; [lia|]. apply wi in Hj. lia.
      * cbn. constructor; assumption.
      * intros r0 j. cbn [cache_get]. destruct (row_eqb r0 r) eqn:E0.
        -- apply row_eqb_eq in E0. subst r0. intros Hj; inversion Hj; subst j.
           repeat split; try assumption. rewrite nth_error_app2, Nat.sub_diag by lia. reflexivity.
        -- intros Hj. destruct (wr _ _ Hj) as (a & b & c). repeat split; try assumption.
           rewrite nth_error_app1; [exact c|]. apply wi. eapply cache_get_real; eauto.
    + intros sj. constructor; cbn [b_dfa b_cache].
      * rewrite app_length. lia.
      * intros j Hj _. now rewrite nth_error_app1.
      * intros j Hj. now rewrite nth_error_app1.
      * intros r0 j Hj. cbn [cache_get]. destruct (row_eqb r0 r) eqn:E0; [|exact Hj].
        apply row_eqb_eq in E0. subst r0. congruence.
      * intros j [<-|Hj]; [right; cbn; lia|now left].
    + right. auto.
Qed.

Lemma with_dfa_ext L B si d' :
  bwf L B -> length (b_dfa B) <= length d' -> wf_tables d' ->
  (forall i, i < length (b_dfa B) -> i <> si -> nth_error d' i = nth_error (b_dfa B) i) ->
  (forall i, i < length (b_dfa B) -> option_map st_match (nth_error d' i) = option_map st_match (nth_error (b_dfa B) i)) ->
  bwf L (with_dfa B d') /\ bext si B (with_dfa B d').
Proof.
  intros [wt wi wn wr] Hl Hw Ho Hm. split; constructor; cbn [with_dfa b_dfa b_cache]; auto.
  - intros i Hi. apply wi in Hi. lia.
  - intros r i Hg. destruct (wr _ _ Hg) as (a & b & c). repeat split; try assumption.
    rewrite Hm; [exact c|]. apply wi. eapply cache_get_real; eauto.
Qed.

Definition add_seqs (ow : bool) (si to : nat) (seqs : list utf8_seq) (d : dfa) : dfa :=
  fold_left (fun d seq => add_utf8_seq ow d si to seq) seqs d.

Lemma add_seqs_frame ow si to seqs : forall d,
  length d <= length (add_seqs ow si to seqs d) /\
  (wf_tables d -> wf_tables (add_seqs ow si to seqs d)) /\
  (forall i, i < length d -> i <> si -> nth_error (add_seqs ow si to seqs d) i = nth_error d i) /\
  (forall i, i < length d ->
     option_map st_match (nth_error (add_seqs ow si to seqs d) i) = option_map st_match (nth_error d i)).
Proof.
  induction seqs as [|rs seqs IH]; intros d; [cbn; auto|].
  cbn [add_seqs fold_left]. fold (add_seqs ow si to seqs (add_utf8_seq ow d si to rs)).
  destruct (IH (add_utf8_seq ow d si to rs)) as (l & w & o & m).
  pose proof (add_seq_length ow rs d si to) as l0.
  repeat split.
  - lia.
  - intros H. apply w. now apply add_seq_wf.
  - intros i Hi Hn. rewrite o by lia. now apply add_seq_other.
  - intros i Hi. rewrite m by lia. now apply add_seq_match.
Qed.

Lemma add_utf8_sequences_eq ow d si to lo hi :
  add_utf8_sequences ow d si to lo hi = add_seqs ow si to (utf8_sequences lo hi) d.
Proof. reflexivity. Qed.

Lemma add_sequences_ext L B ow si to lo hi :
  bwf L B ->
  bwf L (with_dfa B (add_utf8_sequences ow (b_dfa B) si to lo hi)) /\
  bext si B (with_dfa B (add_utf8_sequences ow (b_dfa B) si to lo hi)).
Proof.
  intros Hwf. rewrite add_utf8_sequences_eq.
  destruct (add_seqs_frame ow si to (utf8_sequences lo hi) (b_dfa B)) as (l & w & o & m).
  apply with_dfa_ext; auto. apply w, Hwf.
Qed.

(* the mismatch trie: all sequences, no overwrite, from a state with an empty table *)
Lemma seqs_nw si to seqs : forall d,
  wf_tables d -> si < length d ->
  Forall (fun rs => rs <> [] /\ Forall range_ok rs) seqs ->
  ForallOrdPairs (fun a b => heads_apart a b /\ heads_apart b a) seqs ->
  (forall rs, In rs seqs -> forall b, in_range (hd (0, 0)%N rs) b = true -> get_next d si b = None) ->
  let d' := add_seqs false si to seqs d in
  (forall b, (forall rs, In rs seqs -> in_range (hd (0, 0)%N rs) b = false) -> get_next d' si b = get_next d si b) /\
  (forall rs, In rs seqs -> forall bs, matches rs bs -> tpath (newer d d') d' si bs (Some to)).
Proof.
  induction seqs as [|rs0 seqs IH]; intros d Hwf Hsi Hok Hap Hnone.
  - split; [reflexivity|intros rs []].
  - cbn [add_seqs fold_left]. fold (add_seqs false si to seqs (add_utf8_seq false d si to rs0)).
    set (d0 := add_utf8_seq false d si to rs0).
    inversion Hok as [|? ? [Hne0 Hr0] Hok']; subst.
    inversion Hap as [|? ? Hap0 Hap']; subst. rewrite Forall_forall in Hap0.
    destruct (seq_nw rs0 d si to Hwf Hsi Hr0 Hne0 (Hnone rs0 (or_introl eq_refl))) as [Ha0 He0].
    fold d0 in Ha0, He0.
    assert (length d <= length d0) as Hl0 by apply add_seq_length.
    assert (wf_tables d0) as Hwf0 by now apply add_seq_wf.
    assert (forall rs, In rs seqs -> forall b, in_range (hd (0, 0)%N rs) b = true -> get_next d0 si b = None) as Hnone0.
    { intros rs Hin b Hb. rewrite Ha0; [apply (Hnone rs (or_intror Hin) b Hb)|].
      destruct (Hap0 rs Hin) as [_ H]. now apply H. }
    destruct (IH d0 Hwf0 ltac:(lia) Hok' Hap' Hnone0) as [IHa IHe].
    destruct (add_seqs_frame false si to seqs d0) as (l & _ & o & _).
    set (d' := add_seqs false si to seqs d0) in *. cbv zeta. split.
    + intros b Hb. rewrite IHa by (intros rs Hin; apply Hb; now right).
      apply Ha0. apply Hb. now left.
    + intros rs [E|Hin] bs Hm.
      * subst rs. specialize (He0 bs Hm). destruct bs as [|b1 r]; [exact He0|]. cbn [tpath] in *.
        rewrite IHa.
        2:{ intros rs Hin. destruct (Hap0 rs Hin) as [H _]. apply H.
            inversion Hm as [|r1 b1' rs1 bs1 Hb1 Hm1 E1 E2]. cbn [hd]. exact Hb1. }
        eapply wpath_weaken; [|eapply wpath_agree; [|exact He0]].
        -- unfold newer. intros; lia.
        -- unfold newer. intros i b Hi. apply get_next_of_nth, o; lia.
      * eapply tpath_weaken; [|exact (IHe rs Hin bs Hm)]. unfold newer. intros; lia.
Qed.

(* ================= building the trie of one state ================= *)
Lemma newer_nonreal L B d' i : bwf L B -> length (b_dfa B) <= length d' ->
  newer (b_dfa B) d' i -> nonreal (with_dfa B d') i.
Proof.
  intros Hwf Hl [H1 H2]. split; [exact H2|]. cbn. intros Hr. apply (bwf_idx L B Hwf) in Hr. lia.
Qed.

Lemma trie_none L B si m :
  (forall b, get_next (b_dfa B) si b = None) -> dl_can_match L m = false -> trie_for L B si (fun _ => m).
Proof.
  intros He Hm c Hc. unfold tgt. rewrite Hm. split; [|discriminate].
  pose proof (utf8_encode_nonempty c). destruct (utf8_encode c) as [|b r]; [congruence|].
  cbn [tpath]. rewrite He. apply wpath_none.
Qed.

Lemma trie_mismatch L B si to m :
  bwf L B -> si < length (b_dfa B) -> (forall b, get_next (b_dfa B) si b = None) ->
  cache_get m (b_cache B) = Some to -> dl_can_match L m = true ->
  trie_for L (with_dfa B (add_utf8_sequences false (b_dfa B) si to 0%N 0x10FFFF%N)) si (fun _ => m).
Proof.
  intros Hwf Hsi He Hg Hm c Hc. rewrite add_utf8_sequences_eq, utf8_sequences_full.
  pose proof sequences_all_ok as Hok. pose proof sequences_all_apart as Hap.
  destruct (seqs_nw si to utf8_sequences_all (b_dfa B) (bwf_tables L B Hwf) Hsi Hok Hap (fun _ _ b _ => He b))
    as [_ Hpaths].
  destruct (add_seqs_frame false si to utf8_sequences_all (b_dfa B)) as (l & _).
  pose proof (encode_in_sequences c Hc) as Hex. apply Exists_exists in Hex as (rs & Hin & Hmt).
  unfold tgt. rewrite Hm. cbn [with_dfa b_cache b_dfa]. rewrite Hg. split; [|congruence].
  eapply tpath_weaken; [|exact (Hpaths rs Hin _ Hmt)].
  intros i Hi. exact (newer_nonreal L B _ i Hwf l Hi).
Qed.

Lemma trie_overwrite L B si nsi c row' delta :
  bwf L B -> real (b_cache B) si -> is_scalar c = true ->
  cache_get row' (b_cache B) = Some nsi -> dl_can_match L row' = true ->
  trie_for L B si delta ->
  trie_for L (with_dfa B (add_utf8_sequences true (b_dfa B) si nsi c c)) si
           (fun c' => if N.eqb c' c then row' else delta c').
Proof.
  intros Hwf Hsi Hc Hg Hcm Ht c' Hc'.
  rewrite add_utf8_sequences_eq, utf8_sequences_char. cbn [add_seqs fold_left].
  assert (si < length (b_dfa B)) as Hsil by now apply (bwf_idx L B Hwf).
  destruct (seq_ow (utf8_encode c) (b_dfa B) si nsi (bwf_tables L B Hwf) Hsil
                   (fun x Hx => encode_bytes c Hc x Hx) (utf8_encode_nonempty c)) as [H1 H2].
  set (d' := add_utf8_seq true (b_dfa B) si nsi (singles (utf8_encode c))) in *.
  assert (length (b_dfa B) <= length d') as Hl by apply add_seq_length.
  destruct (N.eqb_spec c' c) as [->|Hne].
  - unfold tgt. rewrite Hcm. cbn [with_dfa b_cache b_dfa]. rewrite Hg. split; [|congruence].
    eapply tpath_weaken; [|exact H1]. intros i Hi. exact (newer_nonreal L B _ i Hwf Hl Hi).
  - destruct (Ht c' Hc') as [Hp Hcache]. split; [|exact Hcache].
    cbn [with_dfa b_cache b_dfa].
    eapply tpath_weaken; [|apply (H2 (nonreal B) (utf8_encode c') _ (encode_diverge c c' Hc Hc' (not_eq_sym Hne)))].
    + intros i [Hi|Hi]; [|exact (newer_nonreal L B _ i Hwf Hl Hi)].
      destruct Hi as [Hi Hr]. split; [cbn; lia|exact Hr].
    + intros i [Hi Hr]. split; [exact Hi|]. intros ->. contradiction.
    + exact Hp.
Qed.

(* a trie only depends on delta through the target of each row *)
Lemma trie_for_tgt_ext L B si d1 d2 :
  (forall c, is_scalar c = true ->
     dl_can_match L (d1 c) = dl_can_match L (d2 c) /\ (dl_can_match L (d1 c) = true -> d1 c = d2 c)) ->
  trie_for L B si d1 -> trie_for L B si d2.
Proof.
  intros E H c Hc. destruct (E c Hc) as [E1 E2]. destruct (H c Hc) as [Hp Hcache].
  unfold tgt in *. rewrite <- E1. destruct (dl_can_match L (d1 c)) eqn:Ecm.
  - rewrite <- (E2 eq_refl). auto.
  - split; [exact Hp|discriminate].
Qed.

(* ================= the worklist invariant ================= *)
Record inv (L : dynlev) (B : builder) (stack : list row) (seen : list nat) (done : list row)
       (cur : option row) : Prop := {
  inv_wf : bwf L B;
  inv_done : forall r, In r done -> exists i, cache_get r (b_cache B) = Some i /\
               trie_for L B i (fun c => dl_accept L r (cls (dl_query L) c));
  inv_stack : forall r, In r stack -> dl_can_match L r = true /\ len_ok L r /\
               forall i, cache_get r (b_cache B) = Some i -> forall b, get_next (b_dfa B) i b = None;
  inv_nodup : NoDup stack;
  inv_disj : forall r, In r stack -> ~ In r done /\ cur <> Some r;
  inv_cur : forall r, cur = Some r -> ~ In r done /\ exists i, cache_get r (b_cache B) = Some i;
  inv_closed : forall r i, cache_get r (b_cache B) = Some i -> In r done \/ In r stack \/ cur = Some r;
  inv_seen1 : forall r, In r stack \/ In r done \/ cur = Some r ->
               r = dl_start L \/ exists i, cache_get r (b_cache B) = Some i /\ In i seen;
  inv_seen2 : forall i, In i seen -> exists r, cache_get r (b_cache B) = Some i /\
               (In r stack \/ In r done \/ cur = Some r);
  inv_start : cache_get (dl_start L) (b_cache B) = Some 0 \/
              (b_cache B = [] /\ b_dfa B = [] /\ stack = [dl_start L] /\ done = [] /\ cur = None /\ seen = [])
}.

Lemma inv_init L : inv L {| b_dfa := []; b_cache := [] |} [dl_start L] [] [] None.
Proof.
  constructor; cbn.
  - constructor; cbn; try (intros; contradiction); try constructor; try discriminate.
    intros i s E. destruct i; discriminate.
  - intros r [].
  - intros r [<-|[]]. split; [apply dl_start_can_match|]. split; [apply dl_start_len_ok|discriminate].
  - constructor; [intros []|constructor].
  - intros r _. split; [intros []|discriminate].
  - discriminate.
  - discriminate.
  - intros r [[<-|[]]|[[]|H]]; [now left|discriminate].
  - intros i [].
  - right. repeat split.
Qed.

Lemma bwf_inj L B r1 r2 i : bwf L B ->
  cache_get r1 (b_cache B) = Some i -> cache_get r2 (b_cache B) = Some i -> r1 = r2.
Proof. intros H. apply cache_get_inj. apply (bwf_nodup L B H). Qed.

(* (T2) a change of tables that spares every old state except the current one *)
Lemma inv_dfa_step L B B' stack seen done r si :
  inv L B stack seen done (Some r) -> cache_get r (b_cache B) = Some si ->
  b_cache B' = b_cache B -> bwf L B' -> bext si B B' ->
  inv L B' stack seen done (Some r).
Proof.
  intros [wf dn st nd dj cu cl s1 s2 sta] Hsi Ec Hwf' Hext.
  assert (real (b_cache B) si) as Hreal by (eapply cache_get_real; eauto).
  constructor; try rewrite Ec; auto.
  - intros r0 Hr0. destruct (dn r0 Hr0) as (i & Hi & Ht). exists i. split; [exact Hi|].
    apply (trie_ext L si B B' i _ wf Hext); [| |left; exact Hreal|exact Ht].
    + intros E. subst i. assert (r0 = r) by (apply (bwf_inj L B r0 r si wf Hi Hsi)). subst r0.
      destruct (cu r eq_refl) as [Hnd _]. contradiction.
    + apply (bwf_idx L B wf). eapply cache_get_real; eauto.
  - intros r0 Hr0. destruct (st r0 Hr0) as (a & b & c). repeat split; try assumption.
    intros i Hi b0. rewrite <- (c i Hi b0). apply get_next_of_nth. apply (bext_old si B B' Hext).
    + apply (bwf_idx L B wf). eapply cache_get_real; eauto.
    + intros E. subst i. assert (r0 = r) by (apply (bwf_inj L B r0 r si wf Hi Hsi)). subst r0.
      destruct (dj r Hr0) as [_ Hn]. congruence.
  - destruct sta as [H|(_ & _ & _ & _ & H & _)]; [now left|discriminate].
Qed.

(* (T4) the current row is finished *)
Lemma inv_finish L B stack seen done r si :
  inv L B stack seen done (Some r) -> cache_get r (b_cache B) = Some si ->
  trie_for L B si (fun c => dl_accept L r (cls (dl_query L) c)) ->
  inv L B stack seen (r :: done) None.
Proof.
  intros [wf dn st nd dj cu cl s1 s2 sta] Hsi Ht. constructor; auto.
  - intros r0 [<-|Hr0]; [eauto|auto].
  - intros r0 Hr0. destruct (dj r0 Hr0) as [a b]. split; [|discriminate].
    intros [<-|H]; [congruence|contradiction].
  - discriminate.
  - intros r0 i Hi. destruct (cl r0 i Hi) as [H|[H|H]]; [left; now right|now (right; left)|].
    inversion H. left. now left.
  - intros r0 H. apply s1. destruct H as [H|[[<-|H]|H]]; auto. discriminate.
  - intros i Hi. destruct (s2 i Hi) as (r0 & Hg & [H|[H|H]]); exists r0; (split; [exact Hg|]); auto.
    + right. left. now right.
    + inversion H. right. left. now left.
  - destruct sta as [H|(_ & _ & _ & _ & H & _)]; [now left|discriminate].
Qed.

Lemma existsb_eqb_in n l : existsb (Nat.eqb n) l = true <-> In n l.
Proof.
  rewrite existsb_exists. split.
  - intros (x & Hx & E). apply Nat.eqb_eq in E. now subst.
  - intros H. exists n. split; [exact H|apply Nat.eqb_refl].
Qed.

Lemma cache_get_cons_ne r0 r n c : r0 <> r -> cache_get r0 ((r, n) :: c) = cache_get r0 c.
Proof. intros H. cbn. destruct (row_eqb r0 r) eqn:E; [apply row_eqb_eq in E; contradiction|reflexivity]. Qed.
Lemma cache_get_cons_eq r n c : cache_get r ((r, n) :: c) = Some n.
Proof. cbn. now rewrite row_eqb_refl. Qed.

(* (T1) pop a row: it becomes the current one, and its state has an empty table *)
Lemma inv_pop L B r stack seen done B1 si :
  inv L B (r :: stack) seen done None -> cached_state L B r = (B1, Some si) ->
  inv L B1 stack seen done (Some r) /\ cache_get r (b_cache B1) = Some si /\
  (forall b, get_next (b_dfa B1) si b = None).
Proof.
  intros [wf dn st nd dj cu cl s1 s2 sta] Hc. unfold cached_state in Hc.
  destruct (cached L B r) as [B' res] eqn:E. inversion Hc; subst B'. clear Hc.
  destruct (st r (or_introl eq_refl)) as (Hcm & Hlen & Hempty).
  inversion nd as [|? ? Hnotin nd']; subst.
  destruct (cached_spec L B r B1 res wf Hlen E) as [(Hf & _)|(_ & i & was & -> & Hg & wf1 & Hext & Hcase)]; [congruence|].
  cbn in H1. inversion H1; subst i. clear H1.
  assert (forall r0, In r0 stack -> r0 <> r) as Hne by (intros r0 H0 ->; contradiction).
  destruct Hcase as [[-> Hg0]|(Hg0 & Hn & Ed & Ec)].
  - (* the row was already cached: its state was created when it was pushed *)
    split; [|split; [exact Hg|now apply Hempty]].
    constructor; auto.
    + intros r0 H0. apply st. now right.
    + intros r0 H0. destruct (dj r0 (or_intror H0)) as [a _]. split; [exact a|]. intros H; inversion H. now apply (Hne r0).
    + intros r0 H; inversion H; subst r0. destruct (dj r (or_introl eq_refl)) as [a _]. eauto.
    + intros r0 i Hi. destruct (cl r0 i Hi) as [H|[[<-|H]|H]]; auto. discriminate.
    + intros r0 H. apply s1. destruct H as [H|[H|H]]; [left; now right|auto|inversion H; left; now left].
    + intros i Hi. destruct (s2 i Hi) as (r0 & Hr0 & H). exists r0. split; [exact Hr0|].
      destruct H as [[E0|H]|[H|H]]; [subst r0; auto|auto|auto|discriminate].
    + destruct sta as [H|(H & _)]; [now left|]. rewrite H in Hg0. discriminate.
  - (* the row is new (this only happens for the start row) *)
    assert (forall r0 i, r0 <> r -> cache_get r0 (b_cache B1) = Some i -> cache_get r0 (b_cache B) = Some i) as Hback.
    { intros r0 i H0 Hi. rewrite Ec, cache_get_cons_ne in Hi by exact H0. exact Hi. }
    split; [|split; [exact Hg|]].
    2:{ intros b. rewrite Ed, Hn. apply get_next_new. }
    constructor; auto.
    + intros r0 H0. destruct (dn r0 H0) as (i & Hi & Ht). exists i. split; [now apply (bext_cache si B B1 (Hext si))|].
      assert (i < length (b_dfa B)) by (apply (bwf_idx L B wf); eapply cache_get_real; eauto).
      apply (trie_ext L (length (b_dfa B)) B B1 i _ wf (Hext _)); [lia|assumption|right; lia|exact Ht].
    + intros r0 H0. destruct (st r0 (or_intror H0)) as (a & b & c). repeat split; try assumption.
      intros i Hi b0. apply Hback in Hi; [|now apply Hne].
      rewrite Ed, get_next_app_old; [now apply c|]. apply (bwf_idx L B wf). eapply cache_get_real; eauto.
    + intros r0 H0. destruct (dj r0 (or_intror H0)) as [a _]. split; [exact a|]. intros H; inversion H. now apply (Hne r0).
    + intros r0 H; inversion H; subst r0. destruct (dj r (or_introl eq_refl)) as [a _]. eauto.
    + intros r0 i Hi. destruct (list_eq_dec Nat.eq_dec r0 r) as [->|H0]; [auto|].
      apply Hback in Hi; [|exact H0]. destruct (cl r0 i Hi) as [H|[[E0|H]|H]]; [auto|congruence|auto|discriminate].
    + intros r0 H.
      assert (In r0 (r :: stack) \/ In r0 done \/ None = Some r0) as H'
        by (destruct H as [H|[H|H]]; [left; now right|auto|inversion H; left; now left]).
      destruct (s1 r0 H') as [E0|(i & Hi & Hs)]; [now left|]. right. exists i. split; [|exact Hs].
      now apply (bext_cache si B B1 (Hext si)).
    + intros i Hi. destruct (s2 i Hi) as (r0 & Hr0 & H). exists r0.
      split; [now apply (bext_cache si B B1 (Hext si))|].
      destruct H as [[<-|H]|[H|H]]; auto. discriminate.
    + left. destruct sta as [H|(Hc0 & Hd0 & Hs0 & _)]; [now apply (bext_cache si B B1 (Hext si))|].
      inversion Hs0 as [[Er Es]]. rewrite Ec, Hn, Hd0, Er. apply cache_get_cons_eq.
Qed.

(* (T3) `cached` on a successor row followed by the conditional push *)
Lemma inv_push L B r r' stack seen done B1 n was stack1 seen1 :
  inv L B stack seen done (Some r) -> len_ok L r' -> r' <> dl_start L ->
  cached L B r' = (B1, Some (n, was)) -> push_unseen n r' stack seen = (stack1, seen1) ->
  inv L B1 stack1 seen1 done (Some r) /\ (forall sj, bext sj B B1) /\
  cache_get r' (b_cache B1) = Some n /\ dl_can_match L r' = true.
Proof.
  intros [wf dn st nd dj cu cl s1 s2 sta] Hlen Hns E Hp.
  destruct (cached_spec L B r' B1 _ wf Hlen E) as [(_ & _ & Hf)|(Hcm & i & was' & Hres & Hg & wf1 & Hext & Hcase)]; [discriminate|].
  inversion Hres; subst i was'. clear Hres.
  split; [|auto]. unfold push_unseen in Hp.
  destruct Hcase as [[-> Hg0]|(Hg0 & Hn & Ed & Ec)].
  - (* known row: it has been pushed before, so its index is in seen *)
    assert (In n seen) as Hin.
    { assert (In r' stack \/ In r' done \/ Some r = Some r') as H' by (destruct (cl r' n Hg0) as [H|[H|H]]; auto).
      destruct (s1 r' H') as [H|(i & Hi & Hs)]; [contradiction|]. congruence. }
    apply existsb_eqb_in in Hin. rewrite Hin in Hp. inversion Hp; subst. constructor; auto.
  - (* new row: fresh state, pushed *)
    assert (~ In n seen) as Hnotin.
    { intros Hin. destruct (s2 n Hin) as (r0 & Hr0 & _). apply cache_get_real in Hr0.
      apply (bwf_idx L B wf) in Hr0. lia. }
    destruct (existsb (Nat.eqb n) seen) eqn:Eex; [apply existsb_eqb_in in Eex; contradiction|].
    inversion Hp; subst stack1 seen1. clear Hp.
    assert (forall r0, (exists i, cache_get r0 (b_cache B) = Some i) -> r0 <> r') as Hne
      by (intros r0 (i & Hi) ->; congruence).
    assert (forall r0, In r0 stack \/ In r0 done \/ Some r = Some r0 -> r0 <> r') as Hne2.
    { intros r0 H0 ->. destruct (s1 r' H0) as [H|(i & Hi & _)]; [contradiction|congruence]. }
    assert (forall r0 i, r0 <> r' -> cache_get r0 (b_cache B1) = Some i -> cache_get r0 (b_cache B) = Some i) as Hback.
    { intros r0 i H0 Hi. rewrite Ec, cache_get_cons_ne in Hi by exact H0. exact Hi. }
    constructor; auto.
    + intros r0 H0. destruct (dn r0 H0) as (i & Hi & Ht). exists i. split; [now apply (bext_cache 0 B B1 (Hext 0))|].
      assert (i < length (b_dfa B)) by (apply (bwf_idx L B wf); eapply cache_get_real; eauto).
      apply (trie_ext L (length (b_dfa B)) B B1 i _ wf (Hext _)); [lia|assumption|right; lia|exact Ht].
    + intros r0 [<-|H0].
      * repeat split; try assumption. intros i Hi b. rewrite Hg in Hi. inversion Hi; subst i.
        rewrite Ed, Hn. apply get_next_new.
      * destruct (st r0 H0) as (a & b & c). repeat split; try assumption.
        intros i Hi b0. apply Hback in Hi; [|apply Hne2; auto].
        rewrite Ed, get_next_app_old; [now apply c|]. apply (bwf_idx L B wf). eapply cache_get_real; eauto.
    + constructor; [|exact nd]. intros H0. apply (Hne2 r'); auto.
    + intros r0 [E0|H0]; [subst r0|now apply dj]. split.
      * intros H0. apply (Hne2 r'); auto.
      * intros H0. apply (Hne2 r'); auto.
    + intros r0 H; inversion H; subst r0. destruct (cu r eq_refl) as [a (i & Hi)]. split; [exact a|].
      exists i. now apply (bext_cache 0 B B1 (Hext 0)).
    + intros r0 i Hi. destruct (list_eq_dec Nat.eq_dec r0 r') as [->|H0]; [right; left; now left|].
      apply Hback in Hi; [|exact H0]. destruct (cl r0 i Hi) as [H|[H|H]]; auto. right. left. now right.
    + intros r0 H. destruct (list_eq_dec Nat.eq_dec r0 r') as [->|H0].
      * right. exists n. split; [exact Hg|now left].
      * assert (In r0 stack \/ In r0 done \/ Some r = Some r0) as H'
          by (destruct H as [[E0|H]|[H|H]]; auto; congruence).
        destruct (s1 r0 H') as [E0|(i & Hi & Hs)]; [now left|]. right. exists i.
        split; [now apply (bext_cache 0 B B1 (Hext 0))|now right].
    + intros i [<-|Hi].
      * exists r'. split; [exact Hg|left; now left].
      * destruct (s2 i Hi) as (r0 & Hr0 & H). exists r0. split; [now apply (bext_cache 0 B B1 (Hext 0))|].
        destruct H as [H|[H|H]]; auto. left. now right.
    + left. destruct sta as [H|(_ & _ & _ & _ & H & _)]; [now apply (bext_cache 0 B B1 (Hext 0))|discriminate].
Qed.

(* ================= one iteration of the worklist ================= *)
(* which characters of the prefix [cs] of the query have been given their own transition:
   those with an entry <= dist at one of their positions *)
Fixpoint proc (d : nat) (cs : list N) (st : row) (c : N) : bool :=
  match cs, st with
  | x :: cs', e :: st' => (N.eqb x c && (e <=? d)) || proc d cs' st' c
  | _, _ => false
  end.
Definition delta_at (L : dynlev) (r : row) (pre : list N) (c : N) : row :=
  if proc (dl_dist L) pre r c then dl_accept L r (Some c) else dl_accept L r None.

Lemma proc_snoc d x c pre : forall st, length pre < length st ->
  proc d (pre ++ [x]) st c = proc d pre st c || (N.eqb x c && (nth (length pre) st 0 <=? d)).
Proof.
  induction pre as [|y pre IH]; intros st H.
  - destruct st as [|e st]; [cbn in H; lia|]. cbn. destruct st; now rewrite orb_false_r.
  - destruct st as [|e st]; [cbn in H; lia|]. cbn [app proc length nth]. rewrite IH by (cbn in H; lia).
    now rewrite orb_assoc.
Qed.

Lemma proc_false d c q : forall st, proc d q st c = false -> length q <= length st ->
  forall j x, nth_error q j = Some x -> x = c -> d < nth j st 0.
Proof.
  induction q as [|y q IH]; intros st H Hl j x Hj Hx; [destruct j; discriminate|].
  destruct st as [|e st]; [cbn in Hl; lia|]. cbn [proc] in H. apply orb_false_iff in H as [H1 H2].
  destruct j as [|j]; cbn in Hj |- *.
  - inversion Hj; subst y. subst x. rewrite N.eqb_refl in H1. cbn in H1. apply Nat.leb_gt in H1. exact H1.
  - apply (IH st H2 ltac:(cbn in Hl; lia) j x Hj Hx).
Qed.

Lemma proc_true_in d c q : forall st, proc d q st c = true -> In c q.
Proof.
  induction q as [|y q IH]; intros st H; [discriminate|]. destruct st as [|e st]; [discriminate|].
  cbn [proc] in H. apply orb_true_iff in H as [H|H].
  - apply andb_true_iff in H as [H _]. apply N.eqb_eq in H. now left.
  - right. eauto.
Qed.

Lemma delta_final L r c : len_ok L r ->
  delta_at L r (dl_query L) c = dl_accept L r (cls (dl_query L) c).
Proof.
  intros Hlen. unfold delta_at, cls. destruct (proc _ _ _ _) eqn:Ep.
  - apply proc_true_in in Ep.
    assert (existsb (N.eqb c) (dl_query L) = true) as ->
        by (apply existsb_exists; exists c; split; [exact Ep|apply N.eqb_refl]).
    reflexivity.
  - destruct (existsb (N.eqb c) (dl_query L)); [|reflexivity].
    symmetry. apply accept_skip. apply (proc_false _ _ _ _ Ep). unfold len_ok in Hlen. lia.
Qed.

Lemma cached_state_eq L B r : cached_state L B r = (fst (cached L B r), option_map fst (snd (cached L B r))).
Proof. unfold cached_state. now destruct (cached L B r). Qed.

Lemma chars_loop_spec L r si done :
  forallb is_scalar (dl_query L) = true -> len_ok L r ->
  forall cs pre B stack seen B' stack' seen', dl_query L = pre ++ cs ->
  inv L B stack seen done (Some r) -> cache_get r (b_cache B) = Some si ->
  trie_for L B si (delta_at L r pre) ->
  chars_loop L si r (length pre) cs B stack seen = (B', stack', seen') ->
  inv L B' stack' seen' done (Some r) /\ cache_get r (b_cache B') = Some si /\
  trie_for L B' si (delta_at L r (dl_query L)).
Proof.
  intros Hsc Hlen. induction cs as [|x cs IH]; intros pre B stack seen B' stack' seen' Eq Hinv Hsi Ht Hrun.
  - cbn in Hrun. inversion Hrun; subst. rewrite app_nil_r in Eq. subst pre. auto.
  - assert (dl_query L = (pre ++ [x]) ++ cs) as Eq' by (rewrite <- app_assoc; exact Eq).
    assert (length (pre ++ [x]) = S (length pre)) as Elen by (rewrite app_length; cbn; lia).
    assert (length pre < length r) as Hpl.
    { unfold len_ok in Hlen. rewrite Hlen, Eq, app_length. cbn. lia. }
    assert (is_scalar x = true) as Hx.
    { rewrite forallb_forall in Hsc. apply Hsc. rewrite Eq. apply in_or_app. right. now left. }
    cbn [chars_loop] in Hrun.
    destruct (dl_dist L <? nth (length pre) r 0) eqn:Eskip.
    + (* continue *)
      rewrite <- Elen in Hrun. apply (IH _ _ _ _ _ _ _ Eq' Hinv Hsi); [|exact Hrun].
      eapply trie_for_ext_delta; [|exact Ht]. intros c _. unfold delta_at.
      rewrite proc_snoc by exact Hpl. apply Nat.ltb_lt in Eskip.
      replace (nth (length pre) r 0 <=? dl_dist L) with false by (symmetry; apply Nat.leb_gt; exact Eskip).
      now rewrite andb_false_r, orb_false_r.
    + apply Nat.ltb_ge in Eskip.
      set (lev_next := dl_accept L r (Some x)) in *.
      assert (len_ok L lev_next) as Hln by now apply accept_len_ok.
      assert (lev_next <> dl_start L) as Hns by now apply accept_not_start.
      rewrite cached_state_eq in Hrun. destruct (cached L B lev_next) as [B1 res] eqn:Ec.
      cbn [fst snd] in Hrun.
      assert (forall c, delta_at L r (pre ++ [x]) c =
                        if N.eqb c x then (if proc (dl_dist L) pre r c then delta_at L r pre c else lev_next)
                        else delta_at L r pre c) as Hdelta.
      { intros c. unfold delta_at. rewrite proc_snoc by exact Hpl.
        replace (nth (length pre) r 0 <=? dl_dist L) with true by (symmetry; apply Nat.leb_le; exact Eskip).
        rewrite andb_true_r, (N.eqb_sym x c). destruct (N.eqb_spec c x) as [->|Hne].
        - destruct (proc _ _ _ _); reflexivity.
        - now rewrite orb_false_r. }
      destruct res as [[nsi was]|]; cbn [option_map fst] in Hrun.
      * (* the successor row can match: overwrite the character's path *)
        destruct (push_unseen nsi lev_next stack seen) as [stack1 seen1] eqn:Ep.
        destruct (inv_push L B r lev_next stack seen done B1 nsi was stack1 seen1 Hinv Hln Hns Ec Ep)
          as (Hinv1 & Hext & Hg & Hcm).
        pose proof (inv_wf _ _ _ _ _ _ Hinv) as Hwf.
        pose proof (inv_wf _ _ _ _ _ _ Hinv1) as Hwf1.
        assert (cache_get r (b_cache B1) = Some si) as Hsi1 by now apply (bext_cache 0 B B1 (Hext 0)).
        assert (si < length (b_dfa B)) as Hsil by (apply (bwf_idx L B Hwf); eapply cache_get_real; eauto).
        destruct (add_sequences_ext L B1 true si nsi x x Hwf1) as [Hwf2 Hext2].
        set (B2 := with_dfa B1 (add_utf8_sequences true (b_dfa B1) si nsi x x)) in *.
        rewrite <- Elen in Hrun. apply (IH _ _ _ _ _ _ _ Eq') in Hrun; [exact Hrun| | |].
        -- apply (inv_dfa_step L B1 B2 stack1 seen1 done r si Hinv1 Hsi1 eq_refl Hwf2 Hext2).
        -- exact Hsi1.
        -- assert (trie_for L B1 si (delta_at L r pre)) as Ht1
             by (apply (trie_ext L (length (b_dfa B)) B B1 si _ Hwf (Hext _)); [lia|assumption|right; lia|exact Ht]).
           pose proof (trie_overwrite L B1 si nsi x lev_next _ Hwf1 (cache_get_real _ _ _ Hsi1) Hx Hg Hcm Ht1) as Ht2.
           eapply trie_for_ext_delta; [|exact Ht2]. intros c _. cbv beta. rewrite Hdelta.
           destruct (N.eqb_spec c x) as [->|]; [|reflexivity].
           destruct (proc _ _ _ _) eqn:Epr; [|reflexivity]. unfold delta_at. now rewrite Epr.
      * (* the successor row cannot match: neither can the mismatch row, nothing to do *)
        destruct (cached_spec L B lev_next B1 None (inv_wf _ _ _ _ _ _ Hinv) Hln Ec)
          as [(Hcm & -> & _)|(_ & i & w & Hf & _)]; [|discriminate].
        rewrite <- Elen in Hrun. apply (IH _ _ _ _ _ _ _ Eq' Hinv Hsi); [|exact Hrun].
        eapply trie_for_tgt_ext; [|exact Ht]. intros c _. rewrite Hdelta.
        destruct (N.eqb_spec c x) as [->|]; [|auto].
        destruct (proc (dl_dist L) pre r x) eqn:Epr; [auto|].
        unfold delta_at. rewrite Epr. fold lev_next.
        assert (dl_can_match L (dl_accept L r None) = false) as Hm0.
        { destruct (dl_can_match L (dl_accept L r None)) eqn:E0; [|reflexivity].
          apply (accept_can_match_mono L r (Some x)) in E0. fold lev_next in E0. congruence. }
        rewrite Hm0, Hcm. split; [reflexivity|discriminate].
Qed.

Lemma mismatch_spec L r si done B stack seen B' mm stack1 seen1 :
  inv L B stack seen done (Some r) -> cache_get r (b_cache B) = Some si -> len_ok L r ->
  (forall b, get_next (b_dfa B) si b = None) ->
  add_mismatch_utf8_states L B si r = (B', mm) ->
  match mm with
  | Some (next_si, lev_next) => push_unseen next_si lev_next stack seen
  | None => (stack, seen)
  end = (stack1, seen1) ->
  inv L B' stack1 seen1 done (Some r) /\ cache_get r (b_cache B') = Some si /\
  trie_for L B' si (delta_at L r []).
Proof.
  intros Hinv Hsi Hlen Hempty Hm Hp. unfold add_mismatch_utf8_states in Hm.
  set (m := dl_accept L r None) in *.
  assert (len_ok L m) as Hlm by now apply accept_len_ok.
  assert (m <> dl_start L) as Hns by now apply accept_not_start.
  pose proof (inv_wf _ _ _ _ _ _ Hinv) as Hwf.
  assert (si < length (b_dfa B)) as Hsil by (apply (bwf_idx L B Hwf); eapply cache_get_real; eauto).
  destruct (cached L B m) as [B1 res] eqn:Ec. destruct res as [[to was]|].
  - inversion Hm; subst B' mm. clear Hm.
    destruct (inv_push L B r m stack seen done B1 to was stack1 seen1 Hinv Hlm Hns Ec Hp)
      as (Hinv1 & Hext & Hg & Hcm).
    pose proof (inv_wf _ _ _ _ _ _ Hinv1) as Hwf1.
    assert (cache_get r (b_cache B1) = Some si) as Hsi1 by now apply (bext_cache 0 B B1 (Hext 0)).
    destruct (add_sequences_ext L B1 false si to 0%N 0x10FFFF%N Hwf1) as [Hwf2 Hext2].
    set (B2 := with_dfa B1 (add_utf8_sequences false (b_dfa B1) si to 0%N 0x10FFFF%N)) in *.
    split; [|split].
    + apply (inv_dfa_step L B1 B2 stack1 seen1 done r si Hinv1 Hsi1 eq_refl Hwf2 Hext2).
    + exact Hsi1.
    + apply (trie_for_ext_delta L B2 si (fun _ => m)); [intros c _; reflexivity|].
      unfold B2. apply trie_mismatch; try assumption.
      * pose proof (bext_len _ _ _ (Hext 0)). lia.
      * intros b. rewrite <- (Hempty b). apply get_next_of_nth.
        apply (bext_old (length (b_dfa B)) B B1 (Hext _)); lia.
  - inversion Hm; subst B' mm. clear Hm. inversion Hp; subst stack1 seen1.
    destruct (cached_spec L B m B1 None Hwf Hlm Ec) as [(Hcm & -> & _)|(_ & i & w & Hf & _)]; [|discriminate].
    split; [exact Hinv|]. split; [exact Hsi|].
    apply (trie_for_ext_delta L B si (fun _ => m)); [intros c _; reflexivity|]. now apply trie_none.
Qed.

Lemma build_step_inv L limit S done :
  forallb is_scalar (dl_query L) = true ->
  inv L (bs_b S) (bs_stack S) (bs_seen S) done None ->
  match build_step L limit S with
  | inl S' => exists r, ~ In r done /\ inv L (bs_b S') (bs_stack S') (bs_seen S') (r :: done) None /\
                        (N.of_nat (length (b_dfa (bs_b S'))) <= limit)%N
  | inr (Ok d) => bs_stack S = [] /\ d = b_dfa (bs_b S)
  | inr (Err e) => e = ETooManyStates limit
  | inr Panic => False
  end.
Proof.
  intros Hsc Hinv. unfold build_step. destruct (bs_stack S) as [|r stack0] eqn:Es; [auto|].
  destruct (inv_stack _ _ _ _ _ _ Hinv r (or_introl eq_refl)) as (Hcm & Hlen & _).
  rewrite cached_state_eq. destruct (cached L (bs_b S) r) as [B1 res] eqn:Ec. cbn [fst snd].
  destruct (cached_spec L (bs_b S) r B1 res (inv_wf _ _ _ _ _ _ Hinv) Hlen Ec)
    as [(Hf & _)|(_ & si & was & -> & _)]; [congruence|]. cbn [option_map fst].
  assert (cached_state L (bs_b S) r = (B1, Some si)) as Ecs by (rewrite cached_state_eq, Ec; reflexivity).
  destruct (inv_pop L (bs_b S) r stack0 (bs_seen S) done B1 si Hinv Ecs) as (Hinv1 & Hsi1 & Hempty).
  destruct (add_mismatch_utf8_states L B1 si r) as [B2 mm] eqn:Em.
  destruct (match mm with
            | Some (next_si, lev_next) => push_unseen next_si lev_next stack0 (bs_seen S)
            | None => (stack0, bs_seen S)
            end) as [stack1 seen1] eqn:Ep.
  destruct (mismatch_spec L r si done B1 stack0 (bs_seen S) B2 mm stack1 seen1 Hinv1 Hsi1 Hlen Hempty Em Ep)
    as (Hinv2 & Hsi2 & Ht2).
  destruct (chars_loop L si r 0 (dl_query L) B2 stack1 seen1) as [[B3 stack2] seen2] eqn:El.
  destruct (chars_loop_spec L r si done Hsc Hlen (dl_query L) [] B2 stack1 seen1 B3 stack2 seen2 eq_refl
                            Hinv2 Hsi2 Ht2 El) as (Hinv3 & Hsi3 & Ht3).
  destruct (N.ltb_spec limit (N.of_nat (length (b_dfa B3)))) as [|Hle]; [reflexivity|].
  exists r. cbn [bs_b bs_stack bs_seen].
  split; [exact (proj1 (inv_cur _ _ _ _ _ _ Hinv3 r eq_refl))|]. split; [|exact Hle].
  apply (inv_finish L B3 stack2 seen2 done r si Hinv3 Hsi3).
  eapply trie_for_ext_delta; [|exact Ht3]. intros c _. now apply delta_final.
Qed.

Lemma build_iter_inv L limit : forallb is_scalar (dl_query L) = true ->
  forall n S done d, inv L (bs_b S) (bs_stack S) (bs_seen S) done None ->
  iter (build_step L limit) n S = inr (Ok d) ->
  exists B seen done', inv L B [] seen done' None /\ d = b_dfa B.
Proof.
  intros Hsc. induction n as [|n IH]; intros S done d Hinv Hit; [discriminate|].
  cbn [iter] in Hit. pose proof (build_step_inv L limit S done Hsc Hinv) as Hstep.
  destruct (build_step L limit S) as [S'|[d'|e|]].
  - destruct Hstep as (r & _ & Hinv' & _). eauto.
  - inversion Hit; subst d'. destruct Hstep as [Hs ->]. rewrite Hs in Hinv. eauto.
  - discriminate.
  - discriminate.
Qed.

(* ================= the finished DFA ================= *)
(* what the worklist has established when build_with_limit returns Ok *)
Record closed_dfa (L : dynlev) (d : dfa) (cache : list (row * nat)) : Prop := {
  cd_wf : bwf L {| b_dfa := d; b_cache := cache |};
  cd_start : cache_get (dl_start L) cache = Some 0;
  cd_step : forall r i, cache_get r cache = Some i ->
            trie_for L {| b_dfa := d; b_cache := cache |} i (fun c => dl_accept L r (cls (dl_query L) c))
}.

Lemma build_closed_gen L limit d p : forallb is_scalar (dl_query L) = true ->
  loop (build_step L limit) p (build_init L) = inr (Ok d) -> exists cache, closed_dfa L d cache.
Proof.
  intros Hsc Hit. rewrite loop_iter in Hit.
  destruct (build_iter_inv L limit Hsc _ (build_init L) [] d (inv_init L) Hit) as (B & seen & done & Hinv & ->).
  exists (b_cache B). destruct B as [d cache]. cbn [b_dfa b_cache] in *.
  destruct Hinv as [wf dn st nd dj cu cl s1 s2 sta]. constructor.
  - exact wf.
  - destruct sta as [H|(_ & _ & H & _)]; [exact H|discriminate].
  - intros r i Hi. destruct (cl r i Hi) as [H|[[]|H]]; [|discriminate].
    destruct (dn r H) as (j & Hj & Ht). cbn [b_cache] in Hj. rewrite Hi in Hj. inversion Hj; subst j. exact Ht.
Qed.

Lemma build_with_limit_loop L limit r :
  build_with_limit L limit = Some r -> loop (build_step L limit) build_fuel (build_init L) = inr r.
Proof.
  unfold build_with_limit. generalize build_fuel. intros p.
  destruct (loop (build_step L limit) p (build_init L)); [discriminate|]. intros H; inversion H. reflexivity.
Qed.

Theorem build_closed L limit d : forallb is_scalar (dl_query L) = true ->
  build_with_limit L limit = Some (Ok d) -> exists cache, closed_dfa L d cache.
Proof. intros Hsc Hb. apply build_with_limit_loop in Hb. exact (build_closed_gen L limit d _ Hsc Hb). Qed.

(* ---- walking the finished DFA along the UTF-8 bytes of scalar values ---- *)
Lemma walk_app d s a b : walk d s (a ++ b) = walk d (walk d s a) b.
Proof. unfold walk. apply fold_left_app. Qed.

Lemma utf8_bytes_snoc k c : utf8_bytes (k ++ [c]) = utf8_bytes k ++ utf8_encode c.
Proof. unfold utf8_bytes. rewrite flat_map_app. cbn. now rewrite app_nil_r. Qed.

Lemma closed_walk L d cache : closed_dfa L d cache ->
  forall k, forallb is_scalar k = true ->
  walk d (Some 0) (utf8_bytes k) = tgt L cache (dyn_run L k) /\
  (dl_can_match L (dyn_run L k) = true -> cache_get (dyn_run L k) cache <> None).
Proof.
  intros [wf st step]. induction k as [|c k IH] using rev_ind; intros Hk.
  - cbn. unfold tgt, dyn_run. cbn [fold_left]. rewrite dl_start_can_match, st. split; [reflexivity|discriminate].
  - rewrite forallb_app in Hk. apply andb_true_iff in Hk as [Hk Hc]. cbn in Hc. rewrite andb_true_r in Hc.
    destruct (IH Hk) as [IH1 IH2]. rewrite utf8_bytes_snoc, walk_app, IH1, dyn_run_snoc.
    unfold tgt at 1. destruct (dl_can_match L (dyn_run L k)) eqn:Ecm.
    + destruct (cache_get (dyn_run L k) cache) as [i|] eqn:Eg; [|now specialize (IH2 eq_refl)].
      destruct (step _ _ Eg c Hc) as [Hp Hcache]. cbn [b_dfa b_cache] in *.
      split; [exact (tpath_walk _ _ _ _ _ Hp)|exact Hcache].
    + rewrite walk_none. pose proof (accept_dead L _ (cls (dl_query L) c) Ecm) as Hd.
      unfold tgt. rewrite Hd. split; [reflexivity|discriminate].
Qed.

Lemma run_lev_aut d s w : run (lev_aut d) s w = walk d s w.
Proof. reflexivity. Qed.

(* the automaton accepts the UTF-8 bytes of k iff k is within the distance *)
Theorem closed_accepts L d cache : closed_dfa L d cache ->
  forall k, forallb is_scalar k = true ->
  accepts (lev_aut d) (utf8_bytes k) = (lev (dl_query L) k <=? dl_dist L).
Proof.
  intros Hcd k Hk. destruct (closed_walk L d cache Hcd k Hk) as [Hw Hc].
  unfold accepts. change (start (lev_aut d)) with (Some 0). rewrite run_lev_aut, Hw.
  rewrite <- (is_match_sim L k _ (row_sim_run L k)).
  unfold tgt. destruct (dl_can_match L (dyn_run L k)) eqn:Ecm.
  - destruct (cache_get (dyn_run L k) cache) as [i|] eqn:Eg; [|now specialize (Hc eq_refl)].
    destruct (bwf_rows L _ (cd_wf L d cache Hcd) _ _ Eg) as (_ & _ & Hm). cbn [b_dfa] in Hm.
    cbn [is_match lev_aut]. destruct (nth_error d i); cbn in Hm; [congruence|discriminate].
  - cbn. destruct (dl_is_match L (dyn_run L k)) eqn:Em; [|reflexivity].
    apply is_match_can_match in Em. congruence.
Qed.

Lemma lev_new_with_limit_eq q dist limit :
  lev_new_with_limit q dist limit = build_with_limit {| dl_query := q; dl_dist := dist |} limit.
Proof. reflexivity. Qed.

Theorem lev_correct q dist limit d :
  forallb is_scalar q = true -> lev_new_with_limit q dist limit = Some (Ok d) ->
  forall k, forallb is_scalar k = true ->
  (accepts (lev_aut d) (utf8_bytes k) = true <-> lev q k <= dist).
Proof.
  intros Hq Hb k Hk. rewrite lev_new_with_limit_eq in Hb.
  destruct (build_closed {| dl_query := q; dl_dist := dist |} limit d Hq Hb) as (cache & Hcd).
  rewrite (closed_accepts _ d cache Hcd k Hk). cbn [dl_query dl_dist]. apply Nat.leb_le.
Qed.

(* can_match (= the state is not None) is sound: from None nothing is accepted *)
Lemma lev_aut_none d w : is_match (lev_aut d) (run (lev_aut d) None w) = false.
Proof. rewrite run_lev_aut, walk_none. reflexivity. Qed.

(* the character step of the finished DFA, in the words of the property *)
Theorem dfa_char_step q dist limit d :
  forallb is_scalar q = true -> lev_new_with_limit q dist limit = Some (Ok d) ->
  let L := {| dl_query := q; dl_dist := dist |} in
  exists state_of : row -> option nat,
    state_of (dl_start L) = Some 0 /\
    (forall s, dl_can_match L s = false -> state_of s = None) /\
    (forall w, forallb is_scalar w = true ->
       walk d (Some 0) (utf8_bytes w) = state_of (dyn_run L w) /\
       (dl_can_match L (dyn_run L w) = true -> state_of (dyn_run L w) <> None)) /\
    (forall s i c, state_of s = Some i -> is_scalar c = true ->
       i < length d /\
       option_map st_match (nth_error d i) = Some (dl_is_match L s) /\
       walk d (Some i) (utf8_encode c) = state_of (dl_accept L s (if existsb (N.eqb c) q then Some c else None))).
Proof.
  intros Hq Hb L. rewrite lev_new_with_limit_eq in Hb. fold L in Hb.
  destruct (build_closed L limit d Hq Hb) as (cache & Hcd).
  exists (tgt L cache). split; [|split; [|split]].
  - unfold tgt. rewrite dl_start_can_match. apply (cd_start L d cache Hcd).
  - intros s Hs. unfold tgt. now rewrite Hs.
  - intros w Hw. destruct (closed_walk L d cache Hcd w Hw) as [H1 H2]. split; [exact H1|].
    intros Hcm. unfold tgt. rewrite Hcm. now apply H2.
  - intros s i c Hs Hc. unfold tgt in Hs. destruct (dl_can_match L s) eqn:Ecm; [|discriminate].
    pose proof (cd_wf L d cache Hcd) as wf.
    destruct (bwf_rows L _ wf _ _ Hs) as (_ & _ & Hm). cbn [b_dfa] in Hm.
    split; [|split; [exact Hm|]].
    + apply (bwf_idx L _ wf). cbn. eapply cache_get_real; eauto.
    + destruct (cd_step L d cache Hcd s i Hs c Hc) as [Hp _]. exact (tpath_walk _ _ _ _ _ Hp).
Qed.

(* ---- the construction never panics (the `.unwrap()` of cached_state on a popped row) ---- *)
Lemma build_iter_no_panic L limit : forallb is_scalar (dl_query L) = true ->
  forall n S done, inv L (bs_b S) (bs_stack S) (bs_seen S) done None ->
  iter (build_step L limit) n S <> inr Panic.
Proof.
  intros Hsc. induction n as [|n IH]; intros S done Hinv; [discriminate|].
  cbn [iter]. pose proof (build_step_inv L limit S done Hsc Hinv) as Hstep.
  destruct (build_step L limit S) as [S'|[d'|e|]]; try discriminate.
  - destruct Hstep as (r & _ & Hinv' & _). eauto.
  - destruct Hstep.
Qed.

Theorem build_no_panic L limit : forallb is_scalar (dl_query L) = true ->
  build_with_limit L limit <> Some Panic.
Proof.
  intros Hsc H. apply build_with_limit_loop in H. rewrite loop_iter in H.
  exact (build_iter_no_panic L limit Hsc _ (build_init L) [] (inv_init L) H).
Qed.

(* ---- termination: the fuel of the model always suffices ---- *)
Lemma NoDup_map_on {A B} (f : A -> B) (l : list A) :
  NoDup l -> (forall x y, In x l -> In y l -> f x = f y -> x = y) -> NoDup (map f l).
Proof.
  induction 1 as [|a l Ha Hl IH]; intros Hinj; cbn; constructor.
  - intros Hin. apply in_map_iff in Hin as (y & Hy & Hyin).
    assert (y = a) by (apply Hinj; [now right|now left|exact Hy]). subst y. contradiction.
  - apply IH. intros x y Hx Hy. apply Hinj; now right.
Qed.

(* finished rows have pairwise distinct states, so there are at most states.len() of them *)
Lemma done_bound L B stack seen done cur : inv L B stack seen done cur -> NoDup done ->
  length done <= length (b_dfa B).
Proof.
  intros Hinv Hnd. pose proof (inv_wf _ _ _ _ _ _ Hinv) as wf.
  set (f := fun r => cache_get r (b_cache B)).
  assert (NoDup (map f done)) as Hnd'.
  { apply NoDup_map_on; [exact Hnd|]. intros x y Hx Hy E. unfold f in E.
    destruct (inv_done _ _ _ _ _ _ Hinv x Hx) as (i & Hi & _). rewrite Hi in E. symmetry in E.
    apply (bwf_inj L B x y i wf Hi E). }
  assert (incl (map f done) (map Some (seq 0 (length (b_dfa B))))) as Hincl.
  { intros o Ho. apply in_map_iff in Ho as (r & <- & Hr).
    destruct (inv_done _ _ _ _ _ _ Hinv r Hr) as (i & Hi & _). unfold f. rewrite Hi.
    apply in_map, in_seq. split; [lia|]. cbn. apply (bwf_idx L B wf). eapply cache_get_real; eauto. }
  pose proof (NoDup_incl_length Hnd' Hincl) as Hlen. rewrite !map_length, seq_length in Hlen. exact Hlen.
Qed.

(* after n iterations that all continued, n rows are finished *)
Lemma build_iter_count L limit : forallb is_scalar (dl_query L) = true ->
  forall n S done S', inv L (bs_b S) (bs_stack S) (bs_seen S) done None -> NoDup done ->
  iter (build_step L limit) n S = inl S' ->
  exists done', inv L (bs_b S') (bs_stack S') (bs_seen S') done' None /\ NoDup done' /\ length done' = n + length done /\
                (n <> 0 -> (N.of_nat (length (b_dfa (bs_b S'))) <= limit)%N).
Proof.
  intros Hsc. induction n as [|n IH]; intros S done S' Hinv Hnd Hit.
  - inversion Hit; subst S'. exists done. split; [exact Hinv|]. split; [exact Hnd|]. split; [reflexivity|].
    intros H; congruence.
  - cbn [iter] in Hit. pose proof (build_step_inv L limit S done Hsc Hinv) as Hstep.
    destruct (build_step L limit S) as [S1|r1]; [|discriminate].
    destruct Hstep as (r & Hr & Hinv1 & Hle).
    destruct (IH S1 (r :: done) S' Hinv1 ltac:(constructor; assumption) Hit) as (done' & Hi' & Hn' & Hl' & Hb').
    exists done'. split; [exact Hi'|]. split; [exact Hn'|]. split; [cbn [length] in Hl'; lia|].
    intros _. destruct n as [|n]; [|apply Hb'; discriminate].
    inversion Hit; subst S'. exact Hle.
Qed.

Lemma psize_build_fuel : psize build_fuel = 64.
Proof. reflexivity. Qed.

Lemma iter_inl_prefix {A B} (f : A -> A + B) : forall n m a a',
  iter f (n + m) a = inl a' -> exists a1, iter f n a = inl a1.
Proof.
  intros n m a a' H. rewrite iter_add in H. destruct (iter f n a) as [a1|b]; [eauto|discriminate].
Qed.

Lemma build_with_limit_none L limit : build_with_limit L limit = None ->
  exists S, loop (build_step L limit) build_fuel (build_init L) = inl S.
Proof.
  unfold build_with_limit. generalize build_fuel. intros p.
  destruct (loop (build_step L limit) p (build_init L)); [eauto|discriminate].
Qed.

Theorem build_terminates L limit : forallb is_scalar (dl_query L) = true -> (limit < 2 ^ 64 - 1)%N ->
  build_with_limit L limit <> None.
Proof.
  intros Hsc Hlim Hnone. destruct (build_with_limit_none L limit Hnone) as (S' & El). clear Hnone.
  rewrite loop_iter, psize_build_fuel in El.
  assert (N.of_nat (2 ^ 64) = 18446744073709551616%N) as HK by (rewrite Nat2N.inj_pow; reflexivity).
  revert El HK. generalize (2 ^ 64). intros K El HK.
  (* already limit+2 iterations cannot all continue *)
  set (n := N.to_nat limit + 2).
  assert (n <= K) as HnK by (unfold n; lia).
  replace K with (n + (K - n)) in El by lia.
  apply iter_inl_prefix in El as (S1 & E1).
  destruct (build_iter_count L limit Hsc n (build_init L) [] S1 (inv_init L) (NoDup_nil _) E1)
    as (done' & Hinv' & Hnd' & Hlen' & Hb').
  pose proof (done_bound _ _ _ _ _ _ Hinv' Hnd') as Hdb.
  specialize (Hb' ltac:(unfold n; lia)). cbn [length] in Hlen'. unfold n in *. lia.
Qed.
