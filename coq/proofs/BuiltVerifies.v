(* BuiltVerifies.v — C08: every file a builder produces opens (model of Fst::new) and verifies
   (model of Fst::verify), with the model of the real checksummer plugged into the builder.
   Bridge between the format specification's view of header/footer (Format.spec_parse:
   arithmetic little-endian values le_value) and Open.fst_new's (read_u64_le / read_u32_le:
   lor/shift words), then the builder theorems of Properties/C01_builder.v. *)
Require Import FstV.Base FstV.Generated.SrcParams FstV.Pack FstV.Builder FstV.Format FstV.CodecSpec FstV.Fst FstV.Crc FstV.Open.
Require Import FstV.proofs.CrcProofs FstV.proofs.OpenProofs FstV.proofs.BuilderInv
               FstV.proofs.NodeCodec FstV.proofs.NodeProofs FstV.proofs.Closed.
Require Import FstV.Properties.C01_builder.
From Coq Require Import ZArith ZifyN ZifyBool ZifyNat.

Notation bytes_ok l := (Forall (fun b : N => b < 256) l).

(* ---------- lor/shift little-endian words = arithmetic little-endian values ---------- *)
Lemma lor_shiftl_add a r k : a < 2 ^ k -> N.lor a (N.shiftl r k) = a + r * 2 ^ k.
Proof.
  intros H.
  assert (D : N.land a (N.shiftl r k) = 0).
  { apply N.bits_inj. intro n. rewrite N.land_spec, N.bits_0.
    destruct (N.lt_ge_cases n k) as [L|G].
    - rewrite N.shiftl_spec_low by exact L. apply andb_false_r.
    - assert (N.testbit a n = false) as ->; [|reflexivity].
      destruct (N.eq_dec a 0) as [->|Ha]; [apply N.bits_0|].
      apply N.bits_above_log2. apply N.log2_lt_pow2; [lia|].
      apply N.lt_le_trans with (2 ^ k); [exact H|]. apply N.pow_le_mono_r; [discriminate|exact G]. }
  rewrite <- N.lxor_lor by exact D. rewrite <- N.add_nocarry_lxor by exact D.
  now rewrite N.shiftl_mul_pow2.
Qed.
Lemma lor_shiftl8 a r : a < 256 -> N.lor a (N.shiftl r 8) = a + 256 * r.
Proof. intros H. rewrite (lor_shiftl_add a r 8) by exact H. change (2 ^ 8) with 256. lia. Qed.

Lemma le32_value b0 b1 b2 b3 : b0 < 256 -> b1 < 256 -> b2 < 256 -> b3 < 256 ->
  le32 b0 b1 b2 b3 = le_value [b0; b1; b2; b3].
Proof.
  intros H0 H1 H2 H3. rewrite le32_nested, !lor_shiftl8 by assumption. cbn [le_value]. lia.
Qed.
Lemma le64_value b0 b1 b2 b3 b4 b5 b6 b7 :
  bytes_ok [b0; b1; b2; b3; b4; b5; b6; b7] ->
  le64 b0 b1 b2 b3 b4 b5 b6 b7 = le_value [b0; b1; b2; b3; b4; b5; b6; b7].
Proof.
  intros HB. repeat match goal with H : Forall _ (_ :: _) |- _ => inversion H; clear H; subst end.
  unfold le64. rewrite (lor_shiftl_add _ _ 32) by (apply le32_u32; assumption).
  rewrite !le32_value by assumption. cbn [le_value]. change (2 ^ 32) with 4294967296. lia.
Qed.

Lemma u64_at_value s : (8 <= length s)%nat -> bytes_ok s -> u64_at s = le_value (firstn 8 s).
Proof.
  intros H HB. do 8 (destruct s as [|? s]; [cbn [length] in H; lia|]).
  unfold u64_at. cbn [read_u64_le firstn]. apply le64_value.
  repeat match goal with H : Forall _ (_ :: _) |- _ => inversion H; clear H; subst end.
  repeat constructor; assumption.
Qed.
Lemma u32_at_value s : (4 <= length s)%nat -> bytes_ok s -> u32_at s = le_value (firstn 4 s).
Proof.
  intros H HB. do 4 (destruct s as [|? s]; [cbn [length] in H; lia|]).
  unfold u32_at. cbn [read_u32_le firstn].
  repeat match goal with H : Forall _ (_ :: _) |- _ => inversion H; clear H; subst end.
  apply le32_value; assumption.
Qed.

(* ---------- Fst::new on a version-3 file whose root-address test passes ---------- *)
Lemma fst_new_v3 bs : 36 <= len bs -> u64_at bs = 3 ->
  (u64_at (skipn (N.to_nat (len bs - 4 - 8)) bs) = 0 -> len bs = 36) ->
  fst_new bs = Ok {| Open.m_version := 3;
                     Open.m_root_addr := u64_at (skipn (N.to_nat (len bs - 4 - 8)) bs);
                     Open.m_ty := u64_at (skipn (N.to_nat 8) bs);
                     Open.m_len := u64_at (skipn (N.to_nat (len bs - 4 - 16)) bs);
                     Open.m_checksum := Some (u32_at (skipn (N.to_nat (len bs - 4)) bs)) |}.
Proof.
  intros H36 Hv Hroot. unfold fst_new.
  destruct (N.ltb_spec (len bs) 32); [lia|].
  rewrite (read_u64_le_ok bs) by (unfold len in *; lia). cbn [bind]. rewrite Hv.
  change ((3 =? 0) || (src_VERSION <? 3)) with false. cbv iota.
  change (3 <=? 3) with true. cbn [andb].
  destruct (N.ltb_spec (len bs) 36); [lia|].
  rewrite (slice_from_ok bs 8) by lia. cbn [bind].
  rewrite read_u64_le_ok by (unfold len in *; rewrite skipn_length; lia). cbn [bind].
  change (3 <=? 2) with false. cbv iota.
  rewrite (usize_sub_ok (len bs) 4) by lia. cbn [bind].
  rewrite slice_from_ok by lia. cbn [bind].
  rewrite read_u32_le_ok by (unfold len in *; rewrite skipn_length; lia). cbn [bind].
  rewrite (usize_sub_ok (len bs - 4) 8) by lia. cbn [bind].
  rewrite slice_from_ok by lia. cbn [bind].
  rewrite read_u64_le_ok by (unfold len in *; rewrite skipn_length; lia). cbn [bind].
  rewrite (usize_sub_ok (len bs - 4) 16) by lia. cbn [bind].
  rewrite slice_from_ok by lia. cbn [bind].
  rewrite read_u64_le_ok by (unfold len in *; rewrite skipn_length; lia). cbn [bind].
  unfold u64_to_usize.
  set (root := u64_at (skipn (N.to_nat (len bs - 4 - 8)) bs)) in *.
  destruct (N.eqb_spec root src_EMPTY_ADDRESS) as [E|E]; cbn [andb]; [|reflexivity].
  rewrite (Hroot E). change (36 =? src_open_empty_total_v3) with true. reflexivity.
Qed.

(* ---------- the header and footer facts inside spec_parse ---------- *)
Lemma spec_parse_v3_fields bs p : spec_parse bs = Some p -> p_version p = 3 ->
  let n := length bs in
  (36 <= n)%nat /\
  le_value (firstn 8 bs) = 3 /\
  p_ty p = le_value (firstn 8 (skipn 8 bs)) /\
  p_len p = le_value (firstn 8 (skipn (n - 20) bs)) /\
  p_root p = le_value (firstn 8 (skipn (n - 20 + 8) bs)) /\
  p_checksum p = Some (le_value (firstn 4 (skipn (n - 20 + 16) bs))) /\
  (p_root p = 0 -> n = 36%nat).
Proof.
  intros H Hv. unfold spec_parse in H. cbv zeta.
  set (version := le_value (firstn 8 bs)) in *.
  destruct (Nat.ltb (length bs) 32) eqn:E32; [discriminate|].
  destruct ((version =? 0) || (3 <? version)) eqn:Ev; [discriminate|].
  assert (Hfields : p_version p = version).
  { repeat match type of H with
           | (if ?c then _ else _) = Some _ => destruct c
           | match ?x with Some _ => _ | None => _ end = Some _ => destruct x
           end; try discriminate; inversion H; reflexivity. }
  rewrite Hv in Hfields. rewrite <- Hfields in *. clear Hfields version.
  change (3 <=? 3) with true in H. cbv iota in H.
  destruct (Nat.ltb (length bs) (16 + 20)) eqn:Ef; [discriminate|]. apply Nat.ltb_ge in Ef.
  set (body_end := (length bs - 20)%nat) in *.
  set (root := le_value (firstn 8 (skipn (body_end + 8) bs))) in *.
  destruct (root =? 0) eqn:Er.
  - destruct (Nat.eqb_spec body_end 16) as [Eb|]; [|discriminate].
    inversion H; subst p; cbn [p_ty p_len p_root p_checksum].
    repeat split; try reflexivity; lia.
  - apply N.eqb_neq in Er.
    repeat match type of H with
           | (if ?c then _ else _) = Some _ => destruct c
           | match ?x with Some _ => _ | None => _ end = Some _ => destruct x
           end; try discriminate; inversion H; subst p; cbn [p_ty p_len p_root p_checksum];
      (repeat split; try reflexivity; try lia; intros E0; congruence).
Qed.

Lemma Forall_skipn' (P : N -> Prop) l k : Forall P l -> Forall P (skipn k l).
Proof. intros H. rewrite <- (firstn_skipn k l) in H. now apply Forall_app in H. Qed.

(* ---------- whatever the format specification accepts as a version-3 file with the right
   checksum, the model of Fst::new opens with the same fields and the model of verify accepts ---------- *)
Theorem parsed_v3_opens_and_verifies bs p :
  bytes_ok bs -> spec_parse bs = Some p -> p_version p = 3 ->
  p_checksum p = Some (model_masked_crc32c (firstn (length bs - 4) bs)) ->
  exists m, fst_new bs = Ok m /\ verify bs m = Ok tt /\
            Open.m_version m = 3 /\ Open.m_ty m = p_ty p /\ Open.m_len m = p_len p /\
            Open.m_root_addr m = p_root p.
Proof.
  intros HB Hp Hv Hck.
  destruct (spec_parse_v3_fields bs p Hp Hv) as (H36 & Hver & Hty & Hlen & Hroot & Hcs & Hr0).
  assert (L36 : 36 <= len bs) by (unfold len; lia).
  replace (length bs - 20 + 8)%nat with (N.to_nat (len bs - 4 - 8)) in Hroot by (unfold len; lia).
  replace (length bs - 20 + 16)%nat with (N.to_nat (len bs - 4)) in Hcs by (unfold len; lia).
  replace (length bs - 20)%nat with (N.to_nat (len bs - 4 - 16)) in Hlen by (unfold len; lia).
  rewrite <- u64_at_value in Hver, Hty, Hlen, Hroot
    by (first [rewrite skipn_length; unfold len in *; lia | unfold len in *; lia | apply Forall_skipn'; exact HB | exact HB]).
  rewrite <- u32_at_value in Hcs
    by (first [rewrite skipn_length; unfold len in *; lia | apply Forall_skipn'; exact HB]).
  eexists. split.
  - apply fst_new_v3; [exact L36|exact Hver|].
    intros E. rewrite <- Hroot in E. specialize (Hr0 E). unfold len. lia.
  - cbn [Open.m_version Open.m_ty Open.m_len Open.m_root_addr].
    split; [|change (N.to_nat 8) with 8%nat; repeat split; congruence].
    rewrite verify_cases by lia. cbn [Open.m_checksum]. cbv zeta.
    rewrite Hck in Hcs. injection Hcs as Hcs. rewrite <- Hcs.
    replace (N.to_nat (len bs - 4)) with (length bs - 4)%nat by (unfold len; lia).
    rewrite N.eqb_refl. reflexivity.
Qed.

(* the model of the real checksummer is a function into u32, on every list *)
Lemma model_masked_u32 l : model_masked_crc32c l < 4294967296.
Proof.
  unfold model_masked_crc32c, summer_masked. rewrite land_mask32. apply N.mod_lt. discriminate.
Qed.

(* ---------- C08: every built file opens and verifies ---------- *)
Theorem built_map_verifies : forall ty rows cols kvs,
  input_ok kvs -> ty < U64 ->
  exists bs m, build_map model_masked_crc32c ty rows cols kvs = Ok bs /\
               fst_new bs = Ok m /\ verify bs m = Ok tt /\
               Open.m_len m = len kvs /\ Open.m_ty m = ty /\ Open.m_version m = 3 /\ bytes_ok bs.
Proof.
  intros ty rows cols kvs (H1 & H2 & H5) Hty.
  destruct (build_map_correct_full codec_holds compile_total_holds model_masked_crc32c ty rows cols kvs
              H1 H2 Hty model_masked_u32 H5)
    as (bs & p & Hb & Hp & Hv & Hpty & Hl & _ & Hck & _ & (Hbytes & _)).
  destruct (parsed_v3_opens_and_verifies bs p Hbytes Hp Hv Hck) as (m & Ho & Hvf & Mv & Mty & Ml & _).
  exists bs, m. repeat split; try assumption; congruence.
Qed.

Theorem built_set_verifies : forall ty rows cols ks,
  sorted_weak ks = true -> Forall (Forall (fun b => b < 256)) ks -> size_ok_keys ks -> ty < U64 ->
  exists bs m, build_set model_masked_crc32c ty rows cols ks = Ok bs /\
               fst_new bs = Ok m /\ verify bs m = Ok tt /\
               Open.m_len m = len (dedup ks) /\ Open.m_ty m = ty /\ Open.m_version m = 3 /\ bytes_ok bs.
Proof.
  intros ty rows cols ks H1 H2 H5 Hty.
  destruct (build_set_correct_full codec_holds compile_total_holds model_masked_crc32c ty rows cols ks
              H1 H2 Hty model_masked_u32 H5)
    as (bs & p & Hb & Hp & Hv & Hpty & Hl & _ & Hck & _ & (Hbytes & _)).
  destruct (parsed_v3_opens_and_verifies bs p Hbytes Hp Hv Hck) as (m & Ho & Hvf & Mv & Mty & Ml & _).
  exists bs, m. repeat split; try assumption; congruence.
Qed.

(* any accepted sequence of insert/add calls *)
Theorem built_ops_verifies : forall ty rows cols ops,
  Forall (fun r => r = Ok tt) (spec_calls None ops) ->
  Forall (fun o => Forall (fun b => b < 256) (op_key o) /\ op_val o < U64) ops ->
  size_ok_ops ops -> ty < U64 ->
  exists bs m, build_ops model_masked_crc32c ty rows cols ops = Ok bs /\
               fst_new bs = Ok m /\ verify bs m = Ok tt /\
               Open.m_len m = len (spec_content None ops []) /\ Open.m_ty m = ty /\
               Open.m_version m = 3 /\ bytes_ok bs.
Proof.
  intros ty rows cols ops H1 H2 H5 Hty.
  destruct (build_ops_correct_full codec_holds compile_total_holds model_masked_crc32c ty rows cols ops
              H1 H2 Hty model_masked_u32 H5)
    as (bs & p & Hb & Hp & Hv & Hpty & Hl & _ & Hck & _ & (Hbytes & _)).
  destruct (parsed_v3_opens_and_verifies bs p Hbytes Hp Hv Hck) as (m & Ho & Hvf & Mv & Mty & Ml & _).
  exists bs, m. repeat split; try assumption; congruence.
Qed.

(* ---------- and a single changed byte of a built file is never certified ---------- *)
Definition never_certified (bs : list N) : Prop :=
  forall i x, (i < length bs)%nat -> x < 256 -> x <> nth i bs 0 ->
    (exists e, fst_new (set_nth bs i x) = Err e) \/
    (exists m' e, fst_new (set_nth bs i x) = Ok m' /\ verify (set_nth bs i x) m' = Err e).

Theorem built_map_then_corrupted : forall ty rows cols kvs,
  input_ok kvs -> ty < U64 ->
  exists bs, build_map model_masked_crc32c ty rows cols kvs = Ok bs /\ never_certified bs.
Proof.
  intros ty rows cols kvs Hi Hty.
  destruct (built_map_verifies ty rows cols kvs Hi Hty) as (bs & m & Hb & Ho & Hv & _ & _ & _ & HB).
  exists bs. split; [exact Hb|]. intros i x Hi' Hx Hne.
  exact (corruption_never_certified bs m i x HB Ho Hv Hi' Hx Hne).
Qed.
Theorem built_set_then_corrupted : forall ty rows cols ks,
  sorted_weak ks = true -> Forall (Forall (fun b => b < 256)) ks -> size_ok_keys ks -> ty < U64 ->
  exists bs, build_set model_masked_crc32c ty rows cols ks = Ok bs /\ never_certified bs.
Proof.
  intros ty rows cols ks H1 H2 H5 Hty.
  destruct (built_set_verifies ty rows cols ks H1 H2 H5 Hty) as (bs & m & Hb & Ho & Hv & _ & _ & _ & HB).
  exists bs. split; [exact Hb|]. intros i x Hi' Hx Hne.
  exact (corruption_never_certified bs m i x HB Ho Hv Hi' Hx Hne).
Qed.
