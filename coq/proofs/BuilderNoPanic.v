(* BuilderNoPanic.v — the builder model never panics on inputs within the byte / value / size
   bounds, whatever mix of accepted and rejected calls it sees; closed forms (without the premise
   "no call returned Panic") of the C06 / C15 theorems of BuilderBasics.v.

   Ingredients: the full builder invariant [inv] (BuilderInv.v) is kept by every accepted call
   (BuilderProofs4.apply_op_ok, which needs the two codec laws, proved in NodeCodec.v) and holds of
   the new builder (BuilderProofs5.init_inv); a rejected call returns the very same state
   (BuilderBasics.apply_op_spec), so the invariant survives it and no budget is used up: the size
   budget is therefore stated over the ACCEPTED calls only. *)
Require Import FstV.Base FstV.Pack FstV.Node FstV.Registry FstV.Builder FstV.GraphSem FstV.Format
               FstV.CodecSpec FstV.Fst.
Require Import FstV.proofs.BuilderInv FstV.proofs.BuilderSpecLemmas FstV.proofs.BuilderProofs4
               FstV.proofs.BuilderProofs5 FstV.proofs.NodeCodec.
Require Import FstV.proofs.BuilderBasics.

(* the two definitions of the key of a call (BuilderInv / BuilderBasics) are the same function *)
Lemma op_key_same o : BuilderInv.op_key o = BuilderBasics.op_key o.
Proof. destruct o; reflexivity. Qed.

Lemma key_bytes_cons k l : key_bytes (k :: l) = len k + key_bytes l.
Proof. reflexivity. Qed.

Lemma ver3_ok : 1 <= 3 <= 3. Proof. lia. Qed.

Lemma inv_rem_eq ty G r1 r2 E acc b : r1 = r2 -> inv 3 ty G r1 E acc b -> inv 3 ty G r2 E acc b.
Proof. intros ->. auto. Qed.

(* ---------- single calls: the invariant survives accepted and rejected calls alike ---------- *)
Lemma calls_inv ty ops : forall G rem E acc b,
  inv 3 ty G (key_bytes (map BuilderInv.op_key (accepted_ops (b_last b) ops)) + rem) E acc b ->
  last_ok acc b -> Forall op_ok ops ->
  Forall (fun r => r <> Panic) (snd (run_calls b ops)) /\
  exists E' acc', inv 3 ty G rem E' acc' (fst (run_calls b ops)) /\ last_ok acc' (fst (run_calls b ops)).
Proof.
  induction ops as [|o r IH]; intros G rem E acc b Hinv Hlast Hok.
  - cbn [run_calls fst snd accepted_ops map] in *. split; [constructor|]. exists E, acc. split; auto.
  - inversion Hok as [|? ? Ho Hoks]; subst.
    rewrite run_calls_cons. cbn [fst snd]. rewrite accepted_ops_cons in Hinv.
    pose proof (BuilderBasics.apply_op_spec b o) as Hsp.
    destruct (spec_call (b_last b) o) as [l' x] eqn:Hsc. cbn [fst snd] in *.
    destruct x as [[]|e|]; [| |contradiction].
    + cbn [map] in Hinv. rewrite key_bytes_cons in Hinv.
      assert (Hinv' : inv 3 ty G (len (BuilderInv.op_key o) + (key_bytes (map BuilderInv.op_key (accepted_ops l' r)) + rem)) E acc b).
      { eapply inv_rem_eq; [|exact Hinv]. lia. }
      destruct (BuilderProofs4.apply_op_ok codec_holds compile_total_holds ty 3 false ver3_ok G _ E acc b o l' Hinv' Hlast Ho Hsc)
        as (E1 & b1 & Hap & Hi1 & Hl1 & Hbl1 & _).
      rewrite Hap. cbn [fst snd]. subst l'.
      destruct (IH G rem E1 _ b1 Hi1 Hl1 Hoks) as (HF & HE). split; [|exact HE].
      constructor; [discriminate|exact HF].
    + destruct Hsp as (Hap & Hl & _). rewrite Hap. cbn [fst snd]. subst l'.
      destruct (IH G rem E acc b Hinv Hlast Hoks) as (HF & HE). split; [|exact HE].
      constructor; [discriminate|exact HF].
Qed.

(* (1) no call ever panics: any mix of valid, duplicate, smaller and empty keys *)
Theorem calls_never_panic ty rows cols ops :
  Forall op_ok ops -> size_ok_ops (accepted_ops None ops) ->
  Forall (fun r => r <> Panic) (snd (run_calls (new_builder ty rows cols) ops)).
Proof.
  intros Hok Hsize.
  set (kb := key_bytes (map BuilderInv.op_key (accepted_ops None ops))).
  destruct (init_inv ty 3 (rows * cols =? 0) ver3_ok rows cols (1 + kb) (kb + 0) eq_refl) as (Hi0 & Hl0 & _); [lia|exact Hsize|].
  exact (proj1 (calls_inv ty ops (1 + kb) 0 [] [] (new_builder ty rows cols) Hi0 Hl0 Hok)).
Qed.

(* the budget over all calls implies the budget over the accepted ones *)
Lemma accepted_key_bytes_le ops : forall last,
  key_bytes (map BuilderInv.op_key (accepted_ops last ops)) <= key_bytes (map BuilderInv.op_key ops).
Proof.
  induction ops as [|o r IH]; intros last; [cbn; lia|].
  rewrite accepted_ops_cons. cbn [map]. rewrite key_bytes_cons.
  destruct (snd (spec_call last o)); [cbn [map]; rewrite key_bytes_cons|..];
    specialize (IH (fst (spec_call last o))); lia.
Qed.
Lemma size_ok_accepted ops last : size_ok_ops ops -> size_ok_ops (accepted_ops last ops).
Proof.
  unfold size_ok_ops, size_ok_keys. intros H. pose proof (accepted_key_bytes_le ops last).
  eapply N.le_lt_trans; [|exact H]. apply N.add_le_mono_r, N.mul_le_mono_l. lia.
Qed.
Lemma op_ok_accepted ops : forall last, Forall op_ok ops -> Forall op_ok (accepted_ops last ops).
Proof.
  induction ops as [|o r IH]; intros last H; [constructor|]. inversion H; subst.
  rewrite accepted_ops_cons. destruct (snd (spec_call last o)); auto.
Qed.

(* ---------- (2) closed forms of the C06 theorems ---------- *)
Theorem calls_results_closed ty rows cols ops :
  Forall op_ok ops -> size_ok_ops (accepted_ops None ops) ->
  snd (run_calls (new_builder ty rows cols) ops) = spec_calls None ops.
Proof.
  intros Hok Hsize. rewrite (calls_results_spec ops _ (calls_never_panic ty rows cols ops Hok Hsize)).
  reflexivity.
Qed.

Theorem rejected_leave_no_trace_closed summer ty rows cols ops :
  Forall op_ok ops -> size_ok_ops (accepted_ops None ops) ->
  ty < U64 -> (forall l, summer l < 4294967296) ->
  exists bs p,
    b_finish summer (fst (run_calls (new_builder ty rows cols) ops)) = Ok bs /\
    build_ops summer ty rows cols (accepted_ops None ops) = Ok bs /\
    spec_parse bs = Some p /\
    p_version p = 3 /\ p_ty p = ty /\ p_len p = len (spec_content None ops []) /\
    p_content p = spec_content None ops [] /\
    p_checksum p = Some (summer (firstn (length bs - 4) bs)) /\
    wf_fst_b bs = true.
Proof.
  intros Hok Hsize Hty Hsum.
  pose proof (rejected_leave_no_trace_build summer ty rows cols ops (calls_never_panic ty rows cols ops Hok Hsize)) as Heq.
  destruct (build_ops_correct_proof codec_holds compile_total_holds summer ty rows cols (accepted_ops None ops))
    as (bs & Hb & p & Hp); auto.
  - apply spec_calls_accepted.
  - apply op_ok_accepted. exact Hok.
  - rewrite <- spec_content_accepted in Hp. exists bs, p. rewrite Heq. tauto.
Qed.

(* extend_iter / extend_stream / from_iter: only the calls before the first rejected one are
   executed, so the budget is over the accepted prefix *)
Lemma extend_inv ty ops : forall G rem E acc b,
  inv 3 ty G (key_bytes (map BuilderInv.op_key (fst (accepted_prefix (b_last b) ops))) + rem) E acc b ->
  last_ok acc b -> Forall op_ok ops -> snd (run_extend b ops) <> Panic.
Proof.
  induction ops as [|o r IH]; intros G rem E acc b Hinv Hlast Hok; [discriminate|].
  inversion Hok as [|? ? Ho Hoks]; subst.
  rewrite accepted_prefix_cons in Hinv. cbn [run_extend].
  pose proof (BuilderBasics.apply_op_spec b o) as Hsp.
  destruct (spec_call (b_last b) o) as [l' x] eqn:Hsc. cbn [fst snd] in *.
  destruct x as [[]|e|]; [| |contradiction].
  - cbn [fst map] in Hinv. rewrite key_bytes_cons in Hinv.
    assert (Hinv' : inv 3 ty G (len (BuilderInv.op_key o) + (key_bytes (map BuilderInv.op_key (fst (accepted_prefix l' r))) + rem)) E acc b).
    { eapply inv_rem_eq; [|exact Hinv]. lia. }
    destruct (BuilderProofs4.apply_op_ok codec_holds compile_total_holds ty 3 false ver3_ok G _ E acc b o l' Hinv' Hlast Ho Hsc)
      as (E1 & b1 & Hap & Hi1 & Hl1 & Hbl1 & _).
    rewrite Hap. subst l'. exact (IH G rem E1 _ b1 Hi1 Hl1 Hoks).
  - destruct Hsp as (Hap & _). rewrite Hap. discriminate.
Qed.

Theorem extend_closed ty rows cols ops :
  Forall op_ok ops -> size_ok_ops (fst (accepted_prefix None ops)) ->
  let b0 := new_builder ty rows cols in
  run_extend b0 ops = (fst (run_calls b0 (fst (accepted_prefix None ops))), snd (accepted_prefix None ops)) /\
  Forall (fun r => r = Ok tt) (snd (run_calls b0 (fst (accepted_prefix None ops)))) /\
  snd (run_extend b0 ops) <> Panic /\
  (forall e, snd (run_extend b0 ops) = Err e -> is_order_err e).
Proof.
  intros Hok Hsize b0.
  set (kb := key_bytes (map BuilderInv.op_key (fst (accepted_prefix None ops)))).
  destruct (init_inv ty 3 (rows * cols =? 0) ver3_ok rows cols (1 + kb) (kb + 0) eq_refl) as (Hi0 & Hl0 & _); [lia|exact Hsize|].
  pose proof (extend_inv ty ops (1 + kb) 0 [] [] b0 Hi0 Hl0 Hok) as Hnp.
  destruct (extend_stops_at_first_error ops b0 Hnp) as (A & B & C). auto.
Qed.

(* ---------- closed form of the C15 theorem ---------- *)
Theorem add_eq_insert0_closed ty rows cols ops k :
  Forall op_ok ops -> size_ok_ops (accepted_ops None ops) ->
  let b := fst (run_calls (new_builder ty rows cols) ops) in
  b_last b <> Some k -> b_add b k = b_insert b k 0.
Proof.
  intros Hok Hsize b Hk. apply add_eq_insert0; auto. apply calls_never_panic; auto.
Qed.

(* single calls with rejected ones in between, then finish = from_iter over the accepted calls *)
Theorem bytes_function_of_accepted_closed summer ty rows cols ops :
  Forall op_ok ops -> size_ok_ops (accepted_ops None ops) ->
  b_finish summer (fst (run_calls (new_builder ty rows cols) ops)) =
  build_ops summer ty rows cols (accepted_ops None ops).
Proof.
  intros Hok Hsize. apply rejected_leave_no_trace_build, calls_never_panic; auto.
Qed.
