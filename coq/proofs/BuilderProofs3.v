(* BuilderProofs3.v — compile_from, insert_output, the call loop: every accepted call keeps the
   invariant of BuilderInv.v. *)
Require Import FstV.Base FstV.Pack FstV.Node FstV.Registry FstV.Builder FstV.GraphSem FstV.Format
               FstV.CodecSpec FstV.Fst.
Require Import FstV.proofs.BuilderInv FstV.proofs.BuilderRegLemmas FstV.proofs.BuilderGraphLemmas
               FstV.proofs.BuilderBytesLemmas FstV.proofs.BuilderSpecLemmas
               FstV.proofs.BuilderProofs1 FstV.proofs.BuilderProofs2.
Require Import Lia ZifyN ZifyBool ZifyNat.

Lemma none_address_1 : NONE_ADDRESS = 1.
Proof. reflexivity. Qed.

Lemma lang_node_sentinel cl n : sentinel n -> lang_node cl n = [([], 0)].
Proof. intros (H1 & H2 & H3). unfold lang_node. rewrite H1, H2, H3. reflexivity. Qed.

Lemma compile_geom0 b n b' r :
  r_rows (b_reg b) * r_cols (b_reg b) = 0 -> compile b n = (b', r) -> b_reg b' = b_reg b.
Proof.
  intros Hg Hc. unfold compile in Hc.
  destruct (n_final n && _ && _); [inversion Hc; reflexivity|].
  unfold reg_entry in Hc. rewrite Hg in Hc. change (0 =? 0) with true in Hc. cbv iota in Hc.
  destruct (compile_node _ _ _ n); inversion Hc; reflexivity.
Qed.

Lemma compile_log_nosent b n x : In x (BuilderBasics.compile_log b n) -> ~ is_sentinel (snd x).
Proof.
  unfold BuilderBasics.compile_log. destruct (BuilderBasics.trivial_node n) eqn:Ht; [intros []|].
  assert (Hn : ~ is_sentinel n).
  { intros (H1 & H2 & H3). unfold BuilderBasics.trivial_node in Ht. rewrite H1, H2, H3 in Ht. discriminate. }
  destruct (snd (reg_entry (b_reg b) n)); [intros []| |];
    (destruct (snd (compile b n)); [intros [<-|[]]; exact Hn|intros []|intros []]).
Qed.

Lemma Ginv_step zg b n b' a E E' :
  compile b n = (b', Ok a) -> a <> NONE_ADDRESS ->
  strip E' = BuilderBasics.compile_log b n ++ strip E ->
  Ginv zg b E -> Ginv zg b' E'.
Proof.
  intros Hc Hna Hstrip (G1 & G2). split.
  - rewrite Hstrip. apply Forall_app. split; [|exact G1]. apply Forall_forall. intros x Hx.
    eapply compile_log_nosent; eauto.
  - destruct zg.
    + rewrite (compile_geom0 b n b' _ G2 Hc). exact G2.
    + rewrite Hstrip. destruct (BuilderBasics.compile_ok b n b' a Hc) as (_ & _ & _ & HH).
      apply (HH _ G2). exact Hna.
Qed.

Section Main.
Hypothesis Hcodec : codec_statement.
Hypothesis Htotal : compile_total_statement.
Variable ty : N.
Variable ver : N.
Variable zg : bool.
Hypothesis Hver : 1 <= ver <= 3.

(* compile, as seen from the stack: the returned address denotes the requested node *)
Lemma compile_ok2 E b n b' r :
  minv ver ty E b -> node_ok E n ->
  NODE_MAX * (len E + 1) + 100 < U64 ->
  compile b n = (b', r) ->
  exists E' a, r = Ok a /\ minv ver ty E' b' /\
    b_stack b' = b_stack b /\ b_last b' = b_last b /\ b_len b' = b_len b /\
    ext1 E E' /\ len E' <= len E + 1 /\ tgt_ok E' a /\ a <> NONE_ADDRESS /\
    elang E' a = lang_node (elang E) n /\
    (forall x, In x (n_trans n) -> t_addr x <= a) /\
    (forall a0, In a0 (addrs E') -> In a0 (addrs E) \/ a0 = a) /\
    (E' = E \/ exists s, E' = (a, s) :: E /\ bn_of s = n) /\
    (bbytes b -> bbytes b') /\
    ((a = 0 /\ n_trans n = []) \/ exists s, In (a, s) E' /\ bn_of s = n) /\
    (Ginv zg b E -> Ginv zg b' E').
Proof.
  intros Hm Hn Hsz Hc.
  pose proof (compile_bbytes ver ty E b n b' r Hm Hn Hsz Hc) as Hbb.
  destruct (compile_ok Hcodec Htotal ver ty E b n b' r Hver Hm Hn Hsz Hc)
    as (E' & a & Hr & Hm' & F1 & F2 & F3 & Hcase & Hstrip).
  assert (Hstr : E' = E \/ exists s, E' = (a, s) :: E /\ bn_of s = n).
  { destruct Hcase as [(-> & _)|(s & -> & Hs)]; [left; reflexivity|right; exists s; auto]. }
  assert (Hnode : (a = 0 /\ n_trans n = []) \/ exists s, In (a, s) E' /\ bn_of s = n).
  { destruct Hcase as [(-> & [(-> & _ & Hnt & _)|(s & Hin & Hs)])|(s & -> & Hs)]; [left; auto|right; eauto|].
    right. exists s. split; [left; reflexivity|exact Hs]. }
  assert (Hna0 : a <> NONE_ADDRESS).
  { destruct Hnode as [(-> & _)|(s & Hin & _)]; [rewrite none_address_1; lia|].
    destruct Hm' as (HE' & _). destruct (store_in_node_ok _ _ _ HE' Hin) as (_ & _ & H16). rewrite none_address_1. lia. }
  assert (HG : Ginv zg b E -> Ginv zg b' E').
  { subst r. apply (Ginv_step zg b n b' a E E'); auto. }
  exists E', a. split; [exact Hr|]. split; [exact Hm'|]. do 3 (split; [assumption|]).
  cut (ext1 E E' /\ len E' <= len E + 1 /\ tgt_ok E' a /\ a <> NONE_ADDRESS /\
       elang E' a = lang_node (elang E) n /\
       (forall x, In x (n_trans n) -> t_addr x <= a) /\
       (forall a0, In a0 (addrs E') -> In a0 (addrs E) \/ a0 = a)).
  { intros X. decompose [and] X. splits; auto. }
  clear Hstr Hbb Hnode HG Hna0 Hstrip.
  destruct Hm as (HE & _). destruct Hm' as (HE' & _).
  destruct Hcase as [(-> & [(-> & Hs)|(s & Hin & Hs)])|(s & -> & Hs)].
  - split; [left; reflexivity|]. split; [lia|]. split; [left; reflexivity|].
    split; [rewrite none_address_1; lia|]. split; [rewrite elang_zero, lang_node_sentinel; auto|].
    split; [|auto]. destruct Hs as (_ & -> & _). intros x [].
  - destruct (store_in_node_ok _ _ _ HE Hin) as (_ & Hlt & H16). subst n.
    split; [left; reflexivity|]. split; [lia|]. split; [right; eapply store_in_addrs; eauto|].
    split; [rewrite none_address_1; lia|]. split; [apply elang_in; auto|].
    split; [|auto]. rewrite Forall_forall in Hlt. intros x Hx. apply Hlt in Hx. lia.
  - assert (Hin : In (a, s) ((a, s) :: E)) by (left; reflexivity).
    destruct (store_in_node_ok _ _ _ HE' Hin) as (_ & Hlt & H16). subst n.
    split; [right; eauto|]. split; [unfold len; cbn [length]; lia|]. split; [right; left; reflexivity|].
    split; [rewrite none_address_1; lia|].
    split; [rewrite (elang_in _ _ _ HE' Hin); apply lang_node_cons; auto|].
    split.
    + rewrite Forall_forall in Hlt. intros x Hx. apply Hlt in Hx. lia.
    + intros a0 [Ha0|Ha0]; [right; symmetry; exact Ha0|left; exact Ha0].
Qed.

(* the top of the stack while compile_from runs: its pending transition already points at [addr] *)
Definition vtop (u : unf) (addr : option N) : unf :=
  match addr with None => u | Some a => mkUnf (freeze u a) None end.

Lemma node_ok_top E lo t k L : sinv E (lo ++ [t]) k L -> u_last t = None -> node_ok E (u_node t).
Proof. clear Hver.
  intros [Hs Hu HW _ _] Ht.
  destruct (shape_app_inv lo [t] k Hs) as (Hlo & _); [discriminate|].
  apply Forall_app in Hu. destruct Hu as (_ & Hu). inversion Hu as [|? ? Hu1 _]; subst.
  apply (W_app 0 lo _ [t] Hlo) in HW. destruct HW as (_ & HW). cbn [W] in HW. destruct HW as ((HW1 & HW2) & _).
  destruct Hu1 as (U1 & U2 & U3 & _). unfold node_ok. splits; auto; [|lia].
  rewrite Forall_forall in *. intros x Hx. destruct (U2 x Hx) as (A & B). specialize (HW2 x Hx).
  unfold trans_ok. splits; auto. cbn in HW2. lia.
Qed.

Lemma shape_two lo p t k : shape (lo ++ [p; t]) k ->
  lasts lo (firstn (length lo) k) /\ exists c o, u_last p = Some (c, o) /\ u_last t = None.
Proof. clear Hver.
  intros Hs. destruct (shape_app_inv lo [p; t] k Hs) as (Hlo & Hpt); [discriminate|]. split; [exact Hlo|].
  destruct (skipn (length lo) k) as [|c [|c2 k2]]; cbn [shape] in Hpt.
  - destruct Hpt as (_ & X); discriminate.
  - destruct Hpt as ((o & Hp) & Ht & _). eauto.
  - destruct Hpt as (_ & _ & []).
Qed.

Lemma Cpost_top_Fro cl lo p t k q v : shape (lo ++ [p; t]) k -> (q <= length lo)%nat ->
  Cpost cl (lo ++ [p; t]) [] q v -> Fro cl (u_node t).
Proof. clear Hver.
  intros Hs Hq HC. destruct (shape_two _ _ _ _ Hs) as (Hlo & c & o & Hp & Ht).
  apply (Cpost_app _ lo _ _ _ _ _ Hlo Hq) in HC. destruct HC as (_ & HC).
  cbn [Cpost] in HC. rewrite Hp in HC. tauto.
Qed.

Lemma trimmed_freeze p c o a : u_last p = Some (c, o) -> trimmed (freeze p a).
Proof. clear Hver. intros H. right. unfold freeze. rewrite H. cbn [n_trans]. destruct (n_trans (u_node p)); discriminate. Qed.

Lemma cfr_ok : forall rest u b addr E k L keep b' r,
  minv ver ty E b ->
  sinv E (rev rest ++ [vtop u addr]) k L ->
  (addr = None -> u_last u = None) ->
  NODE_MAX * (len E + len (u :: rest)) + 100 < U64 ->
  strim E -> bbytes b -> ((keep < length rest)%nat -> trimmed (u_node (vtop u addr))) ->
  compile_from_rev b (u :: rest) keep addr = (b', r) ->
  exists E' rst, r = Ok rst /\ minv ver ty E' b' /\ b_last b' = b_last b /\ b_len b' = b_len b /\
    len E' + len rst <= len E + len (u :: rest) /\
    sinv E' (rev rst) (firstn keep k) L /\
    (((length rest <= keep)%nat /\ rst = vtop u addr :: rest /\ E' = E) \/
     ((keep < length rest)%nat /\ exists lo p hi a, rev rest = lo ++ p :: hi /\ length lo = keep /\
          rev rst = lo ++ [mkUnf (freeze p a) None])) /\
    strim E' /\ bbytes b' /\
    (forall v, cgood E -> Cpost (elang E) (rev rest ++ [vtop u addr]) [] keep v ->
               cgood E' /\ Cpost (elang E') (rev rst) [] keep v) /\
    (Ginv zg b E -> Rinv E (rev rest ++ [vtop u addr]) -> Ginv zg b' E' /\ Rinv E' (rev rst)).
Proof.
  induction rest as [|p rest IH]; intros u b addr E k L keep b' r Hm Hs Hnone Hsz Htrim Hbb Htt Hc.
  - (* nothing to pop *)
    cbn [compile_from_rev length] in Hc.
    assert (Hlt : Nat.ltb (S keep) 1 = false) by (apply Nat.ltb_ge; lia). rewrite Hlt in Hc.
    assert (Hv : (match addr with
                  | None => match u_last u with Some _ => mkUnf (freeze u NONE_ADDRESS) None :: [] | None => [u] end
                  | Some a => [mkUnf (freeze u a) None] end) = [vtop u addr]).
    { destruct addr; [reflexivity|]. rewrite (Hnone eq_refl). reflexivity. }
    rewrite Hv in Hc. inversion Hc; subst b' r; clear Hc.
    exists E, [vtop u addr]. splits; auto; try (unfold len; cbn [length]; lia).
    + pose proof (shape_length _ _ (s_shape _ _ _ _ Hs)) as Hl. cbn in Hl.
      rewrite firstn_all2; [exact Hs|lia].
    + left. cbn [length]. splits; auto. lia.
  - cbn [compile_from_rev] in Hc.
    destruct (Nat.ltb_spec (S keep) (length (u :: p :: rest))) as [Hlt|Hge].
    + (* pop the top, compile it, freeze the node below *)
      assert (Hnode : (match addr with
                       | None => match u_last u with None => Ok (u_node u) | Some _ => Panic end
                       | Some a => Ok (freeze u a) end) = Ok (u_node (vtop u addr))).
      { destruct addr; [reflexivity|]. rewrite (Hnone eq_refl). reflexivity. }
      rewrite Hnode in Hc. clear Hnode.
      assert (Hvl : u_last (vtop u addr) = None) by (destruct addr; [reflexivity|apply Hnone; reflexivity]).
      cbn [rev] in Hs. rewrite <- app_assoc in Hs. cbn [app] in Hs.
      assert (Hs2 : sinv E ((rev rest ++ [p]) ++ [vtop u addr]) k L) by (rewrite <- app_assoc; exact Hs).
      pose proof (node_ok_top _ _ _ _ _ Hs2 Hvl) as Hnok.
      destruct (shape_two _ _ _ _ (s_shape _ _ _ _ Hs)) as (_ & c0 & o0 & Hp0 & _).
      destruct (compile b (u_node (vtop u addr))) as [b1 r1] eqn:Hc1.
      destruct (compile_ok2 E b _ b1 r1 Hm Hnok) as
        (E1 & a1 & -> & Hm1 & F1 & F2 & F3 & Hext & Hlen & Htg & Hna & Hla & Hle & Hnew & Hstr & Hbb1 & Hnode1 & HG1); auto.
      { unfold len in *. cbn [length] in Hsz. lia. }
      destruct (N.eqb_spec a1 NONE_ADDRESS) as [X|_]; [contradiction|].
      destruct Hm1 as (HE1 & Hm1').
      pose proof (pop_step E E1 (rev rest) p (vtop u addr) a1 k L Hext HE1 Hs Htg Hla Hle Hnew) as Hs1.
      rewrite rev_length in Hs1.
      assert (Htrim1 : strim E1).
      { destruct Hstr as [->|(s & -> & Hsn)]; [exact Htrim|]. cbn [strim]. split; [exact Htrim|].
        rewrite Hsn. apply Htt. cbn [length] in Hlt |- *. lia. }
      destruct (IH p b1 (Some a1) E1 (firstn (length rest) k) L keep b' r) as
        (E' & rst & Hr & Hm' & G1 & G2 & Glen & Gs & Gcase & Gtrim & Gbb & GC & GGR); auto.
      { split; auto. }
      { discriminate. }
      { unfold len, NODE_MAX in *. cbn [length] in *. lia. }
      { intros _. cbn [vtop u_node]. eapply trimmed_freeze; eauto. }
      exists E', rst. splits; auto; try congruence.
      * unfold len in *. cbn [length] in *. lia.
      * rewrite firstn_firstn in Gs. replace (Nat.min keep (length rest)) with keep in Gs; [exact Gs|].
        cbn [length] in Hlt. lia.
      * right. split; [cbn [length] in *; lia|].
        destruct Gcase as [(Gl & -> & ->)|(Gl & lo & p0 & hi & a & Grev & Glo & Grst)].
        -- exists (rev rest), p, [], a1. cbn [rev vtop]. splits; auto.
           rewrite rev_length. cbn [length] in Hlt. lia.
        -- exists lo, p0, (hi ++ [p]), a. cbn [rev]. rewrite Grev, <- app_assoc. splits; auto.
      * intros v Hcg HC. cbn [rev] in HC. rewrite <- app_assoc in HC. cbn [app] in HC.
        assert (Hq : (keep <= length (rev rest))%nat) by (rewrite rev_length; cbn [length] in Hlt; lia).
        apply GC.
        -- destruct Hstr as [->|(s & -> & Hsn)]; [exact Hcg|]. cbn [cgood]. split; [exact Hcg|].
           rewrite Hsn. eapply Cpost_top_Fro; eauto. exact (s_shape _ _ _ _ Hs).
        -- cbn [vtop]. eapply pop_step_C; eauto.
      * intros HG HR. cbn [rev] in HR. rewrite <- app_assoc in HR. cbn [app] in HR.
        apply GGR; [apply HG1; exact HG|]. cbn [vtop].
        eapply pop_step_R; eauto.
    + assert (Hlt : Nat.ltb (S keep) (length (u :: p :: rest)) = false) by (apply Nat.ltb_ge; lia).
      cbn [length] in Hge.
      assert (Hv : (match addr with
                    | None => match u_last u with Some _ => mkUnf (freeze u NONE_ADDRESS) None :: p :: rest | None => u :: p :: rest end
                    | Some a => mkUnf (freeze u a) None :: p :: rest end) = vtop u addr :: p :: rest).
      { destruct addr; [reflexivity|]. rewrite (Hnone eq_refl). reflexivity. }
      rewrite Hv in Hc. inversion Hc; subst b' r; clear Hc.
      exists E, (vtop u addr :: p :: rest). splits; auto; try (unfold len; cbn [length]; lia).
      * pose proof (shape_length _ _ (s_shape _ _ _ _ Hs)) as Hl. rewrite app_length, rev_length in Hl.
        cbn [length] in Hl. rewrite firstn_all2; [exact Hs|lia].
      * left. cbn [length]. splits; auto. lia.
Qed.

Lemma minv_frame E b b2 :
  b_out b2 = b_out b -> b_count b2 = b_count b -> b_reg b2 = b_reg b -> b_last_addr b2 = b_last_addr b ->
  b_version b2 = b_version b -> minv ver ty E b -> minv ver ty E b2.
Proof.
  intros H1 H2 H3 H4 H5 (HE & [B1 B2 B3 B4 B5 B6] & HR). split; [exact HE|]. split.
  - constructor; unfold body in *; rewrite ?H1, ?H2, ?H4, ?H5; auto.
  - rewrite H3. exact HR.
Qed.

Lemma shape_top st k : shape st k -> exists lo t, st = lo ++ [t] /\ u_last t = None /\ lasts lo k.
Proof. clear Hver.
  revert k; induction st as [|u st IH]; intros k; cbn [shape]; [tauto|].
  destruct k as [|c k].
  - intros (Hu & ->). exists [], u. cbn. auto.
  - intros (Ho & Hs). destruct (IH k Hs) as (lo & t & -> & Ht & Hl). exists (u :: lo), t. cbn [app lasts]. auto.
Qed.

Lemma bbytes_frame b b2 : b_out b2 = b_out b -> bbytes b -> bbytes b2.
Proof. clear Hver. unfold bbytes, body. intros ->. auto. Qed.

Lemma compile_from_ok E b k L keep b' r :
  minv ver ty E b -> sinv E (b_stack b) k L ->
  NODE_MAX * (len E + len (b_stack b)) + 100 < U64 ->
  strim E -> bbytes b -> top_final (b_stack b) ->
  compile_from b keep = (b', r) ->
  exists E', r = Ok tt /\ minv ver ty E' b' /\ b_last b' = b_last b /\ b_len b' = b_len b /\
    len E' + len (b_stack b') <= len E + len (b_stack b) /\
    sinv E' (b_stack b') (firstn keep k) L /\
    (((length k <= keep)%nat /\ b_stack b' = b_stack b /\ E' = E) \/
     ((keep < length k)%nat /\ exists lo p hi a, b_stack b = lo ++ p :: hi /\ length lo = keep /\
          b_stack b' = lo ++ [mkUnf (freeze p a) None])) /\
    strim E' /\ bbytes b' /\
    (forall v, cgood E -> Cpost (elang E) (b_stack b) [] keep v ->
               cgood E' /\ Cpost (elang E') (b_stack b') [] keep v) /\
    (Ginv zg b E -> Rinv E (b_stack b) -> Ginv zg b' E' /\ Rinv E' (b_stack b')).
Proof.
  intros Hm Hs Hsz Htrim Hbb Htf Hc. unfold compile_from in Hc.
  destruct (shape_top _ _ (s_shape _ _ _ _ Hs)) as (lo0 & t & Hst & Ht & Hlo0).
  pose proof (lasts_length _ _ Hlo0) as Hll.
  rewrite Hst, rev_app_distr in Hc. cbn [rev app] in Hc.
  destruct (compile_from_rev b (t :: rev lo0) keep None) as [b1 r1] eqn:Hc1.
  destruct (cfr_ok (rev lo0) t b None E k L keep b1 r1) as
    (E' & rst & -> & Hm' & G1 & G2 & Glen & Gs & Gcase & Gtrim & Gbb & GC & GGR); auto.
  { cbn [vtop]. rewrite rev_involutive, <- Hst. exact Hs. }
  { rewrite Hst in Hsz. unfold len in *. rewrite app_length in Hsz. cbn [length] in *. rewrite rev_length. lia. }
  { rewrite rev_length. intros Hk. cbn [vtop]. destruct (Htf t) as [X|X].
    - rewrite Hst. clear. induction lo0 as [|x lo IH]; [reflexivity|].
      cbn [app]. destruct (lo ++ [t]) eqn:X; [destruct lo; discriminate|]. exact IH.
    - rewrite Hst, app_length in X. cbn [length] in X. lia.
    - left. exact X. }
  inversion Hc; subst b' r; clear Hc. exists E'. cbn [with_stack b_stack b_last b_len].
  splits; auto.
  - eapply minv_frame; [..|exact Hm']; reflexivity.
  - rewrite Hst. unfold len in *. rewrite app_length. cbn [length] in *. rewrite rev_length in *. lia.
  - rewrite rev_length in Gcase. destruct Gcase as [(Gl & -> & ->)|(Gl & lo & p & hi & a & Grev & Glo & Grst)].
    + left. splits; auto; [lia|]. cbn [rev vtop]. rewrite rev_involutive. auto.
    + right. split; [lia|]. rewrite rev_involutive in Grev. exists lo, p, (hi ++ [t]), a.
      rewrite Hst, Grev, <- app_assoc. splits; auto.
  - intros v Hcg HC. apply GC; auto. cbn [vtop]. rewrite rev_involutive, <- Hst. exact HC.
  - intros HG HR.
    assert (HR' : Rinv E (rev (rev lo0) ++ [vtop t None])) by (cbn [vtop]; rewrite rev_involutive, <- Hst; exact HR).
    destruct (GGR HG HR') as (A & B). split; [exact A|exact B].
Qed.

(* ---------- order facts about the common prefix ---------- *)
Lemma cpl_spec : forall k bs, lex_cmp bs k <> Lt ->
  firstn (cpl k bs) bs = firstn (cpl k bs) k /\
  (cpl k bs <= length k)%nat /\ (cpl k bs <= length bs)%nat /\
  (cpl k bs = length bs -> bs = k) /\
  ((cpl k bs < length bs)%nat -> (cpl k bs < length k)%nat ->
     exists c b k2 bs2, skipn (cpl k bs) k = c :: k2 /\ skipn (cpl k bs) bs = b :: bs2 /\ c < b).
Proof. clear Hver.
  induction k as [|c k IH]; intros [|b bs] Hcmp; cbn [cpl lex_cmp firstn length] in *.
  - splits; auto; lia.
  - splits; auto; try lia; discriminate.
  - congruence.
  - destruct (N.eqb_spec c b) as [->|Hne].
    + rewrite N.compare_refl in Hcmp. destruct (IH bs Hcmp) as (A1 & A2 & A3 & A4 & A5).
      cbn [firstn length skipn]. splits; try lia.
      * f_equal; auto.
      * intros H. f_equal. apply A4. lia.
      * intros H1 H2. apply A5; lia.
    + cbn [firstn skipn]. splits; auto; try lia.
      intros _ _. exists c, b, k, bs. splits; auto.
      destruct (N.compare_spec b c) as [X|X|X]; try congruence; lia.
Qed.

Lemma cpl_refl k : cpl k k = length k.
Proof. clear Hver. induction k as [|c k IH]; cbn [cpl length]; [reflexivity|]. rewrite N.eqb_refl, IH. reflexivity. Qed.

Lemma skipn_cons_length {A} n (l : list A) : (n < length l)%nat -> exists x r, skipn n l = x :: r.
Proof. clear Hver.
  revert l; induction n as [|n IH]; intros [|y l] H; cbn [length skipn] in *; try lia; eauto.
  apply IH. lia.
Qed.
End Main.
