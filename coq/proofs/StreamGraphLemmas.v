(* StreamGraphLemmas.v — facts about GraphSem.lang / L needed by the stream proofs:
   fuel independence, the unfolding equation of L, the size of the unfolded graph
   (tree_size, used as termination measure), and the canonical node_at of a graph. *)
Require Import FstV.Base FstV.Node FstV.Reader FstV.GraphSem.
From Coq Require Import ZifyN ZifyBool ZifyNat.

Lemma flat_map_ext_in' {A B} (f g : A -> list B) l :
  (forall a, In a l -> f a = g a) -> flat_map f l = flat_map g l.
Proof.
  induction l as [|x l IH]; intros H; cbn; [reflexivity|].
  rewrite (H x (or_introl eq_refl)), IH; [reflexivity|]. intros a Ha. apply H. now right.
Qed.

(* ---------- the canonical view of a graph ---------- *)
Definition node_at_of (g : graph) (a : N) : res nview :=
  match gget g a with
  | Some n => Ok (mkView a (g_final n) (g_fout n) (g_trans n) (fun b => Ok (find_pos b (g_trans n) 0)))
  | None => Panic
  end.
Lemma views_node_at_of g : views g (node_at_of g).
Proof.
  intros a n H. unfold node_at_of. rewrite H. eexists. split; [reflexivity|]. cbn. repeat split; reflexivity.
Qed.

(* ---------- lang: fuel independence and totality ---------- *)
Definition consT (t : trans) (x : kv) : kv := (t_inp t :: fst x, t_out t + snd x).
Definition sub1 (g : graph) (f : nat) (t : trans) : option kmap :=
  match lang g f (t_addr t) with Some l => Some (map (consT t) l) | None => None end.
Definition is_some {A} (o : option A) : bool := match o with Some _ => true | None => false end.
Definition unopt {A} (o : option (list A)) : list A := match o with Some l => l | None => [] end.

Lemma lang_S g f a :
  lang g (S f) a =
  match gget g a with
  | None => None
  | Some n =>
    if forallb is_some (map (sub1 g f) (g_trans n)) then
      Some ((if g_final n then [([], g_fout n)] else []) ++ concat (map unopt (map (sub1 g f) (g_trans n))))
    else None
  end.
Proof. reflexivity. Qed.

Section Graph.
Variable g : graph.
Hypothesis wf : wf_graph g.

Lemma wf_child a n t : gget g a = Some n -> In t (g_trans n) ->
  t_inp t < 256 /\ t_addr t < a /\ exists n', gget g (t_addr t) = Some n'.
Proof. intros H Hin. destruct (wf a n H) as [_ W]. exact (W t Hin). Qed.
Lemma wf_incr a n : gget g a = Some n -> inputs_increasing (g_trans n) = true.
Proof. intros H. exact (proj1 (wf a n H)). Qed.

Lemma lang_indep : forall f1 f2 a, (N.to_nat a < f1)%nat -> (N.to_nat a < f2)%nat -> lang g f1 a = lang g f2 a.
Proof.
  induction f1 as [|f1 IH]; intros f2 a H1 H2; [lia|]. destruct f2 as [|f2]; [lia|].
  rewrite !lang_S. destruct (gget g a) as [n|] eqn:Hn; [|reflexivity].
  assert (E : map (sub1 g f1) (g_trans n) = map (sub1 g f2) (g_trans n)).
  { apply map_ext_in. intros t Ht. destruct (wf_child a n t Hn Ht) as (_ & Hlt & _).
    unfold sub1. rewrite (IH f2 (t_addr t)); [reflexivity|lia|lia]. }
  rewrite E. reflexivity.
Qed.

Lemma lang_total : forall f a n, (N.to_nat a < f)%nat -> gget g a = Some n -> exists l, lang g f a = Some l.
Proof.
  induction f as [|f IH]; intros a n Hf Hn; [lia|]. rewrite lang_S, Hn.
  assert (E : forallb is_some (map (sub1 g f) (g_trans n)) = true).
  { apply forallb_forall. intros o Ho. apply in_map_iff in Ho. destruct Ho as (t & <- & Ht).
    destruct (wf_child a n t Hn Ht) as (_ & Hlt & n' & Hn').
    unfold sub1. destruct (IH (t_addr t) n' ltac:(lia) Hn') as (l & ->). reflexivity. }
  rewrite E. eexists. reflexivity.
Qed.

Definition children (ts : list trans) : kmap := flat_map (fun t => map (consT t) (L g (t_addr t))) ts.

Lemma children_cons t ts : children (t :: ts) = map (consT t) (L g (t_addr t)) ++ children ts.
Proof. reflexivity. Qed.
Lemma children_app ts1 ts2 : children (ts1 ++ ts2) = children ts1 ++ children ts2.
Proof. unfold children. apply flat_map_app. Qed.

Theorem L_unfold a n : gget g a = Some n ->
  L g a = (if g_final n then [([], g_fout n)] else []) ++ children (g_trans n).
Proof.
  intros Hn. unfold L at 1. rewrite lang_S, Hn.
  assert (E : map (sub1 g (N.to_nat a)) (g_trans n) = map (fun t => Some (map (consT t) (L g (t_addr t)))) (g_trans n)).
  { apply map_ext_in. intros t Ht. destruct (wf_child a n t Hn Ht) as (_ & Hlt & n' & Hn').
    unfold sub1, L. rewrite (lang_indep (N.to_nat a) (S (N.to_nat (t_addr t))) (t_addr t)) by lia.
    destruct (lang_total (S (N.to_nat (t_addr t))) (t_addr t) n' ltac:(lia) Hn') as (l & ->). reflexivity. }
  rewrite E.
  match goal with |- context [forallb ?f ?l] => assert (F : forallb f l = true) end.
  { apply forallb_forall. intros o Ho. apply in_map_iff in Ho. destruct Ho as (t & <- & _). reflexivity. }
  rewrite F. f_equal. rewrite map_map. cbn [unopt]. unfold children. now rewrite flat_map_concat_map.
Qed.

Lemma L_none a : gget g a = None -> L g a = [].
Proof. intros H. unfold L. rewrite lang_S, H. reflexivity. Qed.

(* ---------- size of the unfolded graph (number of paths from a) ---------- *)
Fixpoint tsz (fuel : nat) (a : N) : nat :=
  match fuel with
  | O => O
  | S f =>
    match gget g a with
    | None => O
    | Some n => S (list_sum (map (fun t => tsz f (t_addr t)) (g_trans n)))
    end
  end.
Definition tree_size (a : N) : nat := tsz (S (N.to_nat a)) a.

Lemma tsz_indep : forall f1 f2 a, (N.to_nat a < f1)%nat -> (N.to_nat a < f2)%nat -> tsz f1 a = tsz f2 a.
Proof.
  induction f1 as [|f1 IH]; intros f2 a H1 H2; [lia|]. destruct f2 as [|f2]; [lia|].
  cbn [tsz]. destruct (gget g a) as [n|] eqn:Hn; [|reflexivity]. do 2 f_equal.
  apply map_ext_in. intros t Ht. destruct (wf_child a n t Hn Ht) as (_ & Hlt & _). apply IH; lia.
Qed.

Definition kids_size (ts : list trans) : nat := list_sum (map (fun t => tree_size (t_addr t)) ts).

Theorem tree_size_unfold a n : gget g a = Some n -> tree_size a = S (kids_size (g_trans n)).
Proof.
  intros Hn. unfold tree_size at 1. cbn [tsz]. rewrite Hn. unfold kids_size. do 2 f_equal.
  apply map_ext_in. intros t Ht. destruct (wf_child a n t Hn Ht) as (_ & Hlt & _).
  unfold tree_size. apply tsz_indep; lia.
Qed.
Lemma kids_size_cons t ts : kids_size (t :: ts) = (tree_size (t_addr t) + kids_size ts)%nat.
Proof. reflexivity. Qed.
End Graph.
