(* BuilderProofs2.v — the unfinished stack, as pure list lemmas: decomposition of the stack
   predicates, find_common_prefix_and_set_output, one pop-compile-freeze step, add_suffix. *)
Require Import FstV.Base FstV.Pack FstV.Node FstV.Registry FstV.Builder FstV.GraphSem FstV.Format
               FstV.CodecSpec FstV.Fst.
Require Import FstV.proofs.BuilderInv FstV.proofs.BuilderGraphLemmas FstV.proofs.BuilderBytesLemmas
               FstV.proofs.BuilderProofs1.
Require Import Lia ZifyN ZifyBool ZifyNat.

Ltac splits := repeat match goal with |- _ /\ _ => split end.

(* all nodes have a pending transition, spelling k *)
Fixpoint lasts (st : list unf) (k : key) : Prop :=
  match st, k with
  | [], [] => True
  | u :: r, c :: k' => (exists o, u_last u = Some (c, o)) /\ lasts r k'
  | _, _ => False
  end.
(* length of the common prefix of the last key and the new key *)
Fixpoint cpl (k bs : key) : nat :=
  match k, bs with
  | c :: k', b :: bs' => if c =? b then S (cpl k' bs') else O
  | _, _ => O
  end.

(* ---------- decomposition lemmas ---------- *)
Lemma lasts_length st k : lasts st k -> length st = length k.
Proof. revert k; induction st as [|u st IH]; intros [|c k]; cbn; try tauto. intros (_ & H). f_equal; auto. Qed.

Lemma shape_length st k : shape st k -> length st = S (length k).
Proof.
  revert k; induction st as [|u st IH]; intros k; cbn [shape]; [tauto|].
  destruct k as [|c k]; [intros (_ & ->); reflexivity|]. intros (_ & H). cbn [length]. f_equal. auto.
Qed.

Lemma shape_join st1 k1 st2 k2 : lasts st1 k1 -> shape st2 k2 -> shape (st1 ++ st2) (k1 ++ k2).
Proof.
  revert k1; induction st1 as [|u st1 IH]; intros [|c k1]; cbn [lasts]; try tauto.
  intros (Ho & Hl) Hs. cbn [app shape]. split; auto.
Qed.

Lemma shape_split st k n : shape st k -> (n <= length k)%nat ->
  lasts (firstn n st) (firstn n k) /\ shape (skipn n st) (skipn n k).
Proof.
  revert st k; induction n as [|n IH]; intros st k Hs Hn; [cbn; auto|].
  destruct st as [|u st]; [destruct Hs|]. destruct k as [|c k]; [cbn in Hn; lia|].
  cbn [shape] in Hs. destruct Hs as (Ho & Hs). cbn [firstn skipn lasts].
  destruct (IH st k Hs) as (H1 & H2); [cbn in Hn; lia|]. auto.
Qed.

Lemma shape_app_inv st1 st2 k : shape (st1 ++ st2) k -> st2 <> [] ->
  lasts st1 (firstn (length st1) k) /\ shape st2 (skipn (length st1) k).
Proof.
  intros Hs Hne. pose proof (shape_length _ _ Hs) as Hl. rewrite app_length in Hl.
  assert (length st2 <> 0)%nat by (destruct st2; cbn; congruence).
  destruct (shape_split _ _ (length st1) Hs) as (H1 & H2); [lia|].
  rewrite firstn_app, Nat.sub_diag, firstn_all in H1. cbn [firstn] in H1. rewrite app_nil_r in H1.
  rewrite skipn_app, Nat.sub_diag, skipn_all in H2. cbn [skipn app] in H2. auto.
Qed.

Lemma Lstk_app cl st1 st2 tail : Lstk cl (st1 ++ st2) tail = Lstk cl st1 (Lstk cl st2 tail).
Proof.
  induction st1 as [|u st1 IH]; cbn [app Lstk]; [reflexivity|].
  destruct (u_last u) as [[i o]|]; [rewrite IH|]; reflexivity.
Qed.

Lemma W_app pre st1 k1 st2 : lasts st1 k1 ->
  (W pre (st1 ++ st2) <-> W pre st1 /\ W (pre + psum st1) st2).
Proof.
  revert pre k1; induction st1 as [|u st1 IH]; intros pre [|c k1]; cbn [lasts]; try tauto.
  - intros _. cbn [app W psum]. rewrite N.add_0_r. tauto.
  - intros ((o & Ho) & Hl). cbn [app W psum]. rewrite Ho.
    rewrite (IH (pre + o) k1 Hl). rewrite N.add_assoc. tauto.
Qed.

Lemma dom_app st1 k1 st2 a : lasts st1 k1 -> (dom (st1 ++ st2) a <-> dom st1 a \/ dom st2 a).
Proof.
  revert k1; induction st1 as [|u st1 IH]; intros [|c k1]; cbn [lasts]; try tauto.
  - intros _. cbn [app dom]. tauto.
  - intros ((o & Ho) & Hl). cbn [app dom]. rewrite (IH k1 Hl), Ho.
    assert (Some (c, o) <> None) by discriminate. tauto.
Qed.

Lemma map_addv_cons_tr p b o l : map (addv p) (map (cons_tr b o) l) = map (cons_tr b (p + o)) l.
Proof. rewrite map_map. apply map_ext. intros [k v]. unfold addv, cons_tr; cbn. f_equal. lia. Qed.
Lemma map_cons_tr_addv p b o l : map (cons_tr b o) (map (addv p) l) = map (cons_tr b (o + p)) l.
Proof. rewrite map_map. apply map_ext. intros [k v]. unfold addv, cons_tr; cbn. f_equal. lia. Qed.
Lemma map_addv_0 l : map (addv 0) l = l.
Proof. rewrite <- (map_id l) at 2. apply map_ext. intros [k v]. unfold addv; cbn. f_equal. Qed.

(* ---------- canonical-output predicates: decomposition ---------- *)
Lemma Cpost_0 cl st tail v v' : Cpost cl st tail 0 v -> Cpost cl st tail 0 v'.
Proof.
  induction st as [|u st IH]; cbn [Cpost]; [auto|]. intros (H1 & H2). split; [exact H1|].
  destruct (u_last u); [|exact I]. destruct H2; auto.
Qed.

Lemma Cpost_app cl lo : forall k X tail p v, lasts lo k -> (p <= length lo)%nat ->
  (Cpost cl (lo ++ X) tail p v <-> Cpost cl lo (Lstk cl X tail) p v /\ Cpost cl X tail 0 v).
Proof.
  induction lo as [|u lo IH]; intros [|c k] X tail p v; cbn [lasts]; try tauto.
  - intros _ Hp. cbn [length] in Hp. assert (p = 0%nat) by lia. subst p. cbn [app Cpost]. tauto.
  - intros ((o & Ho) & Hl) Hp. cbn [app Cpost]. rewrite Ho, Lstk_app. destruct p as [|p'].
    + rewrite (IH k X tail 0%nat v Hl) by lia. tauto.
    + cbn [length] in Hp. rewrite (IH k X tail p' v Hl) by lia.
      rewrite firstn_app. replace (p' - length lo)%nat with 0%nat by lia. cbn [firstn]. rewrite app_nil_r. tauto.
Qed.

Lemma has0_addv0 l : has0 (map (addv 0) l) <-> has0 l.
Proof. rewrite map_addv_0. tauto. Qed.

Lemma has0_app_l l1 l2 : has0 l1 -> has0 (l1 ++ l2).
Proof. intros (k & H). exists k. apply in_or_app. auto. Qed.
Lemma has0_app_r l1 l2 : has0 l2 -> has0 (l1 ++ l2).
Proof. intros (k & H). exists k. apply in_or_app. auto. Qed.

Section Stack.
Variable E : store.
Let cl := elang E.

(* ---------- add_output_prefix ---------- *)
Lemma lang_node_aop u p :
  lang_node cl (u_node (add_output_prefix u p)) = map (addv p) (lang_node cl (u_node u)).
Proof.
  unfold lang_node, add_output_prefix; cbn [u_node n_final n_fout n_trans].
  rewrite map_app. f_equal.
  - destruct (n_final (u_node u)); reflexivity.
  - induction (n_trans (u_node u)) as [|t ts IH]; [reflexivity|].
    cbn [map flat_map]. rewrite map_app, IH. f_equal.
    cbn [t_inp t_out t_addr]. symmetry. apply map_addv_cons_tr.
Qed.

Lemma Lstk_aop u rest p tail :
  Lstk cl (add_output_prefix u p :: rest) tail = map (addv p) (Lstk cl (u :: rest) tail).
Proof.
  cbn [Lstk]. rewrite lang_node_aop, map_app. f_equal.
  unfold add_output_prefix; cbn [u_last]. destruct (u_last u) as [[i o]|]; [|reflexivity].
  symmetry. apply map_addv_cons_tr.
Qed.

Lemma inputs_increasing_map f ts : (forall t, t_inp (f t) = t_inp t) ->
  inputs_increasing (map f ts) = inputs_increasing ts.
Proof.
  intros Hf. rewrite !inputs_increasing_strict, map_map. f_equal. apply map_ext. exact Hf.
Qed.

Lemma unf_ok_aop u p : unf_ok E u -> unf_ok E (add_output_prefix u p).
Proof.
  intros (H1 & H2 & H3 & H4). unfold unf_ok, add_output_prefix. cbn [u_node u_last n_trans n_final n_fout].
  split; [|split; [|split]].
  - rewrite inputs_increasing_map; auto.
  - apply Forall_map. eapply Forall_impl; [|exact H2]. cbn. auto.
  - intros Hf. rewrite Hf. auto.
  - destruct (u_last u) as [[i o]|]; [|exact I]. destruct H4 as (Hi & H4). split; auto.
    apply Forall_map. eapply Forall_impl; [|exact H4]. cbn. auto.
Qed.

Lemma W_aop pre q p u rest : pre = q + p -> W pre (u :: rest) -> W q (add_output_prefix u p :: rest).
Proof.
  intros -> (( Hf & Ht) & Hl). cbn [W]. unfold add_output_prefix at 1 2. cbn [u_node u_last]. split.
  - split; cbn [n_fout n_trans].
    + destruct (n_final (u_node u)); lia.
    + apply Forall_map. eapply Forall_impl; [|exact Ht]. cbn. intros; lia.
  - destruct (u_last u) as [[i o]|]; [|exact I]. destruct Hl as (Hl1 & Hl2). split; [lia|].
    replace (q + (p + o)) with (q + p + o) by lia. exact Hl2.
Qed.

Lemma dom_aop u p rest a : dom (u :: rest) a -> dom (add_output_prefix u p :: rest) a.
Proof.
  cbn [dom]. unfold add_output_prefix at 1 2. cbn [u_node u_last n_trans]. intros [H|(H1 & H2)].
  - left. apply Exists_exists in H. destruct H as (t & Ht & Hle). apply Exists_exists.
    exists (mkTrans (t_inp t) (p + t_out t) (t_addr t)). split; [|exact Hle].
    apply in_map_iff. exists t. auto.
  - right. split; auto. destruct (u_last u) as [[i o]|]; congruence.
Qed.

Lemma shape_aop u p rest k : shape (u :: rest) k -> shape (add_output_prefix u p :: rest) k.
Proof.
  cbn [shape]. unfold add_output_prefix at 1 2. cbn [u_last]. destruct k as [|c k].
  - intros (-> & ->). auto.
  - intros ((o & ->) & H). split; eauto.
Qed.

Lemma top_empty_aop u p rest : top_empty (u :: rest) -> top_empty (add_output_prefix u p :: rest).
Proof.
  unfold top_empty. destruct rest as [|r rr].
  - cbn [last_opt]. intros H v Hv. inversion Hv; subst. cbn [add_output_prefix u_node n_trans].
    rewrite (H u eq_refl). reflexivity.
  - cbn [last_opt]. auto.
Qed.

Lemma Fro_aop u p : Fro cl (u_node u) -> Fro cl (u_node (add_output_prefix u p)).
Proof.
  unfold Fro, add_output_prefix. cbn [u_node n_trans]. intros H t Ht. apply in_map_iff in Ht.
  destruct Ht as (t0 & <- & Ht0). cbn [t_addr]. auto.
Qed.

Lemma Cstk_aop u p rest : Cstk cl (u :: rest) -> Cstk cl (add_output_prefix u p :: rest).
Proof.
  unfold Cstk. cbn [Cpost]. intros (H1 & H2). split; [apply Fro_aop; exact H1|].
  unfold add_output_prefix at 1. cbn [u_last]. destruct (u_last u) as [[i o]|]; auto.
Qed.

(* ---------- find_common_prefix_and_set_output ---------- *)
Definition finals (st : list unf) : list bool := map (fun u => n_final (u_node u)) st.

Lemma fcp_ok : forall bs stack k out pre,
  shape stack k -> Forall (unf_ok E) stack -> W pre stack -> pre + out < U64 -> top_empty stack ->
  exists st o2,
    fcp stack bs out = Ok (st, cpl k bs, o2) /\
    shape st k /\ Forall (unf_ok E) st /\ W pre st /\ top_empty st /\
    Lstk cl st [] = Lstk cl stack [] /\
    (forall a, dom stack a -> dom st a) /\
    psum (firstn (cpl k bs) st) + o2 = out /\
    finals st = finals stack /\
    (Cstk cl stack -> Cpost cl st [] (cpl k bs) o2) /\
    ftargets st = ftargets stack.
Proof.
  induction bs as [|b bs IH]; intros stack k out pre Hs Hu HW Hout Hte.
  - exists stack, out. destruct k; cbn [fcp cpl firstn psum]; splits; auto; try apply Cpost_0.
  - destruct stack as [|u rest]; [destruct Hs|]. cbn [fcp].
    destruct k as [|c k].
    { cbn [shape] in Hs. destruct Hs as (Hl & ->). rewrite Hl. exists [u], out.
      cbn [cpl firstn psum]. splits; auto; try reflexivity; try (cbn [shape]; auto; fail); try apply Cpost_0. }
    cbn [shape] in Hs. destruct Hs as ((o & Ho) & Hs). rewrite Ho. cbn [cpl].
    destruct (N.eqb_spec c b) as [Heq|Hne].
    2:{ exists (u :: rest), out. cbn [firstn psum]. splits; auto; try (cbn [shape]; eauto; fail); try apply Cpost_0. }
    subst c. destruct rest as [|r rr]; [destruct Hs|].
    set (common := N.min o out). set (addp := o - common). set (out' := out - common).
    inversion Hu as [|? ? Hu1 Hu2]; subst.
    cbn [W] in HW. rewrite Ho in HW. destruct HW as (HW1 & HW2 & HW3).
    assert (Hte' : top_empty (r :: rr)) by (unfold top_empty in *; cbn [last_opt] in *; auto).
    (* the stack below, after pushing the excess output down *)
    assert (Hrest : exists r',
       (if addp =? 0 then Ok (r :: rr)
        else match r :: rr with r0 :: rr0 => Ok (add_output_prefix r0 addp :: rr0) | [] => Panic end) = Ok (r' :: rr) /\
       shape (r' :: rr) k /\ Forall (unf_ok E) (r' :: rr) /\ W (pre + common) (r' :: rr) /\ top_empty (r' :: rr) /\
       Lstk cl (r' :: rr) [] = map (addv addp) (Lstk cl (r :: rr) []) /\
       (forall a, dom (r :: rr) a -> dom (r' :: rr) a) /\
       finals (r' :: rr) = finals (r :: rr) /\
       (Cstk cl (r :: rr) -> Cstk cl (r' :: rr)) /\
       ftargets (r' :: rr) = ftargets (r :: rr)).
    { destruct (N.eqb_spec addp 0) as [Hz|Hnz].
      - exists r. assert (common = o) by (unfold addp, common in *; lia).
        rewrite Hz, map_addv_0. replace (pre + common) with (pre + o) by lia. splits; auto.
      - exists (add_output_prefix r addp). split; [reflexivity|].
        inversion Hu2; subst.
        split; [apply shape_aop; auto|]. split; [constructor; auto; apply unf_ok_aop; auto|].
        split; [apply (W_aop (pre + o)); auto; unfold addp, common; lia|].
        split; [apply top_empty_aop; auto|]. split; [apply Lstk_aop|].
        split; [intros a; apply dom_aop|]. split; [reflexivity|]. split; [apply Cstk_aop|].
        unfold ftargets. cbn [flat_map add_output_prefix u_node n_trans]. f_equal.
        rewrite map_map. reflexivity. }
    destruct Hrest as (r' & Hr & Hs' & Hu' & HW' & Hte'' & HL' & Hd' & Hfin' & HC' & Hft').
    rewrite Hr. cbn [bind].
    destruct (IH (r' :: rr) k out' (pre + common) Hs' Hu' HW') as (st & o2 & Hf & A1 & A2 & A3 & A4 & A5 & A6 & A7 & A8 & A9 & A10); auto.
    { unfold out', common. lia. }
    fold common addp out'. rewrite Hf. cbn [bind].
    exists (mkUnf (u_node u) (Some (b, common)) :: st), o2.
    split; [reflexivity|].
    split; [cbn [shape u_last]; eauto|].
    split. { constructor; auto. destruct Hu1 as (U1 & U2 & U3 & U4). unfold unf_ok. cbn [u_node u_last].
             rewrite Ho in U4. auto. }
    split. { cbn [W u_node u_last]. split; auto. split; auto. unfold common. lia. }
    split. { unfold top_empty in *. destruct st as [|s0 st0]; [destruct A1|]. cbn [last_opt]. auto. }
    split. { cbn [Lstk u_node u_last]. rewrite Ho. f_equal. rewrite A5, HL', map_cons_tr_addv.
             f_equal. f_equal. unfold addp, common. lia. }
    split. { intros a. cbn [dom u_node u_last]. rewrite Ho. intros [H|(H1 & H2)]; [left; auto|right].
             split; [discriminate|]. auto. }
    split. { cbn [firstn psum u_last]. unfold out', common in *. lia. }
    split. { unfold finals in *. cbn [map u_node]. rewrite A8, Hfin'. reflexivity. }
    split. 2:{ unfold ftargets in *. cbn [flat_map u_node]. rewrite A10, Hft'. reflexivity. }
    intros HC. unfold Cstk in HC. cbn [Cpost] in HC. rewrite Ho in HC. destruct HC as (HC1 & HC2 & HC3).
    cbn [Cpost u_node u_last]. split; [exact HC1|]. split; [|apply A9, HC', HC3].
    rewrite A5, HL'. destruct (N.eqb_spec addp 0) as [Hz|Hnz].
    + left. rewrite Hz. apply has0_addv0. exact HC2.
    + right. unfold out', addp, common in *. lia.
Qed.
End Stack.

(* ---------- growing the store by at most one node ---------- *)
Definition ext1 (E E' : store) : Prop := E' = E \/ exists x, E' = x :: E.

Lemma tgt_ok_ext1 E E' a : ext1 E E' -> tgt_ok E a -> tgt_ok E' a.
Proof. intros [->|(x & ->)]; auto. apply tgt_ok_cons. Qed.

Lemma unf_ok_ext1 E E' u : ext1 E E' -> unf_ok E u -> unf_ok E' u.
Proof.
  intros He (H1 & H2 & H3 & H4). unfold unf_ok. splits; auto.
  eapply Forall_impl; [|exact H2]. cbn. intros t (Ha & Hb). split; auto. eapply tgt_ok_ext1; eauto.
Qed.

Lemma elang_ext1 E E' a : ext1 E E' -> store_ok E' -> tgt_ok E a -> elang E' a = elang E a.
Proof. intros [->|(x & ->)] Hs Ht; auto. apply elang_cons; auto. Qed.

Lemma lang_node_unf_ext1 E E' u : ext1 E E' -> store_ok E' -> unf_ok E u ->
  lang_node (elang E') (u_node u) = lang_node (elang E) (u_node u).
Proof.
  intros He Hs (_ & H2 & _). apply lang_node_ext. intros t Ht.
  rewrite Forall_forall in H2. apply elang_ext1; auto. apply (H2 t Ht).
Qed.

Lemma Lstk_ext1 E E' st tail : ext1 E E' -> store_ok E' -> Forall (unf_ok E) st ->
  Lstk (elang E') st tail = Lstk (elang E) st tail.
Proof.
  intros He Hs. induction st as [|u st IH]; intros Hu; [reflexivity|].
  inversion Hu; subst. cbn [Lstk]. rewrite (lang_node_unf_ext1 E E' u), IH; auto.
Qed.

Lemma inputs_increasing_snoc ts t :
  inputs_increasing ts = true -> Forall (fun x => t_inp x < t_inp t) ts ->
  inputs_increasing (ts ++ [t]) = true.
Proof.
  induction ts as [|a [|b r] IH]; intros Hi Hf; [reflexivity| |].
  - cbn [app inputs_increasing]. inversion Hf; subst. apply andb_true_iff. split; [apply N.ltb_lt; auto|reflexivity].
  - change (inputs_increasing (a :: (b :: r) ++ [t]) = true).
    cbn [inputs_increasing app] in *. apply andb_true_iff in Hi. destruct Hi as (H1 & H2).
    inversion Hf; subst. apply andb_true_iff. split; auto.
Qed.

Lemma lang_node_freeze cl u i o a : u_last u = Some (i, o) ->
  lang_node cl (freeze u a) = lang_node cl (u_node u) ++ map (cons_tr i o) (cl a).
Proof.
  intros Hl. unfold freeze. rewrite Hl. unfold lang_node. cbn [n_final n_fout n_trans].
  rewrite flat_map_app. cbn [flat_map t_inp t_out t_addr]. rewrite app_nil_r, app_assoc. reflexivity.
Qed.

(* ---------- one step of compile_from: the top node t has been compiled to a' ---------- *)
Lemma pop_step E E' lo p t a' k L :
  ext1 E E' -> store_ok E' ->
  sinv E (lo ++ [p; t]) k L ->
  tgt_ok E' a' -> elang E' a' = lang_node (elang E) (u_node t) ->
  (forall x, In x (n_trans (u_node t)) -> t_addr x <= a') ->
  (forall a, In a (addrs E') -> In a (addrs E) \/ a = a') ->
  sinv E' (lo ++ [mkUnf (freeze p a') None]) (firstn (length lo) k) L.
Proof.
  intros He HE' [Hs Hu HW Hd HL] Ha' Hla' Hle Hnew. subst L.
  destruct (shape_app_inv lo [p; t] k Hs) as (Hlo & Hpt); [discriminate|].
  destruct (skipn (length lo) k) as [|c [|c2 k2]] eqn:Hk; cbn [shape] in Hpt.
  { destruct Hpt as (_ & X); discriminate. }
  2:{ destruct Hpt as (_ & _ & []). }
  destruct Hpt as ((o & Hp) & Ht & _).
  apply Forall_app in Hu. destruct Hu as (Hulo & Hupt).
  inversion Hupt as [|? ? Hup Hut']; subst. inversion Hut' as [|? ? Hut _]; subst.
  apply (W_app 0 lo _ [p; t] Hlo) in HW. destruct HW as (HWlo & HWpt).
  cbn [W] in HWpt. rewrite Hp in HWpt. destruct HWpt as ((HWp1 & HWp2) & HWo & HWt).
  constructor.
  - rewrite <- (app_nil_r (firstn (length lo) k)). apply shape_join; auto. cbn [shape u_last]. auto.
  - apply Forall_app. split.
    + eapply Forall_impl; [|exact Hulo]. intros u. apply unf_ok_ext1; auto.
    + constructor; [|constructor]. destruct Hup as (U1 & U2 & U3 & U4). rewrite Hp in U4. destruct U4 as (U4 & U5).
      unfold unf_ok, freeze. rewrite Hp. cbn [u_node u_last n_trans n_final n_fout]. splits; auto.
      * apply inputs_increasing_snoc; auto.
      * apply Forall_app. split.
        -- eapply Forall_impl; [|exact U2]. cbn. intros x (Hx1 & Hx2). split; auto. eapply tgt_ok_ext1; eauto.
        -- constructor; [|constructor]. cbn. auto.
  - apply (W_app 0 lo _ _ Hlo). split; auto. cbn [W u_node u_last]. split; [|exact I].
    unfold freeze. rewrite Hp. split; cbn [n_fout n_trans]; auto.
    apply Forall_app. split; auto.
  - intros a Hin. apply (dom_app lo _ _ a Hlo).
    assert (Hnew' : Exists (fun x => a <= t_addr x) (n_trans (freeze p a')) -> dom [mkUnf (freeze p a') None] a)
      by (cbn [dom u_node]; auto).
    assert (Hlast : a <= a' -> Exists (fun x => a <= t_addr x) (n_trans (freeze p a'))).
    { intros Hl. unfold freeze. rewrite Hp. cbn [n_trans]. apply Exists_app. right. constructor. exact Hl. }
    destruct (Hnew a Hin) as [Hold| ->]; [|right; apply Hnew', Hlast; lia].
    apply Hd in Hold. apply (dom_app lo _ _ a Hlo) in Hold. destruct Hold as [Hold|Hold]; [left; exact Hold|right].
    apply Hnew'. cbn [dom] in Hold. destruct Hold as [Hold|(_ & [Hold|(_ & [])])].
    + unfold freeze. rewrite Hp. cbn [n_trans]. apply Exists_app. left. exact Hold.
    + apply Hlast. apply Exists_exists in Hold. destruct Hold as (x & Hx & Hax). specialize (Hle x Hx). lia.
  - rewrite Lstk_app. rewrite (Lstk_ext1 E E'); auto. rewrite (Lstk_app _ lo [p; t]). f_equal.
    cbn [Lstk u_node u_last]. rewrite Hp, Ht. rewrite (lang_node_freeze _ p c o a' Hp).
    assert (Hpe : lang_node (elang E') (u_node p) = lang_node (elang E) (u_node p))
      by (apply lang_node_unf_ext1; auto).
    rewrite Hpe, Hla', !app_nil_r. reflexivity.
Qed.

(* ---------- add_suffix ---------- *)
Lemma Lstk_snoc cl lo k X k' v' : lasts lo k ->
  Lstk cl lo (X ++ [(k', v')]) = Lstk cl lo X ++ [(k ++ k', psum lo + v')].
Proof.
  revert k; induction lo as [|u lo IH]; intros [|c k]; cbn [lasts]; try tauto.
  intros ((o & Ho) & Hl). cbn [Lstk psum]. rewrite Ho, (IH k Hl), map_app, app_assoc. f_equal.
    cbn [map]. unfold cons_tr. cbn [fst snd app]. f_equal. f_equal. lia.
Qed.

Lemma Lstk_suffix cl r : Lstk cl (suffix_nodes r) [] = [(r, 0)].
Proof.
  induction r as [|c r IH]; cbn [suffix_nodes Lstk u_node u_last]; [reflexivity|].
  rewrite IH. reflexivity.
Qed.

Lemma shape_suffix r : shape (suffix_nodes r) r.
Proof. induction r as [|c r IH]; cbn [suffix_nodes shape u_last]; eauto. Qed.

Lemma unf_ok_suffix E r : Forall (fun b => b < 256) r -> Forall (unf_ok E) (suffix_nodes r).
Proof.
  induction r as [|c r IH]; intros Hr; cbn [suffix_nodes].
  - constructor; [|constructor]. unfold unf_ok. cbn. splits; auto.
  - inversion Hr; subst. constructor; auto. unfold unf_ok. cbn. splits; auto.
Qed.

Lemma W_suffix pre r : pre < U64 -> W pre (suffix_nodes r).
Proof.
  revert pre; induction r as [|c r IH]; intros pre Hp; cbn [suffix_nodes W u_node u_last].
  - split; [|exact I]. split; cbn; [lia|constructor].
  - split; [split; cbn; [lia|constructor]|]. split; [lia|]. apply IH. lia.
Qed.

Lemma last_opt_app_suffix (l : list unf) r : last_opt (l ++ suffix_nodes r) = Some (mkUnf (empty_bnode true) None).
Proof.
  induction l as [|u l IH].
  - cbn [app]. induction r as [|c r IHr]; [reflexivity|]. cbn [suffix_nodes].
    destruct (suffix_nodes r) eqn:Hs; [destruct r; discriminate|]. exact IHr.
  - cbn [app]. destruct (l ++ suffix_nodes r) eqn:Hs; [destruct l; destruct r; discriminate|]. exact IH.
Qed.

Lemma add_suffix_ok E lo top k L b r o2 :
  sinv E (lo ++ [top]) k L ->
  Forall (fun x => t_inp x < b) (n_trans (u_node top)) -> b < 256 -> Forall (fun c => c < 256) r ->
  psum lo + o2 < U64 ->
  exists st', add_suffix (lo ++ [top]) (b :: r) o2 = Ok st' /\
    sinv E st' (k ++ b :: r) (L ++ [(k ++ b :: r, psum lo + o2)]) /\ top_empty st' /\
    length st' = (length lo + 1 + length (b :: r))%nat.
Proof.
  intros [Hs Hu HW Hd HL] Hlt Hb Hr Ho. subst L.
  destruct (shape_app_inv lo [top] k Hs) as (Hlo & Ht); [discriminate|].
  destruct (skipn (length lo) k) as [|c k2] eqn:Hk; cbn [shape] in Ht; [|destruct Ht as (_ & [])].
  destruct Ht as (Ht & _).
  assert (Hkk : firstn (length lo) k = k).
  { rewrite <- (firstn_skipn (length lo) k) at 2. rewrite Hk, app_nil_r. reflexivity. }
  rewrite Hkk in Hlo.
  unfold add_suffix. rewrite rev_app_distr. cbn [rev app]. rewrite Ht, rev_involutive.
  set (top' := mkUnf (u_node top) (Some (b, o2))).
  exists (lo ++ [top'] ++ suffix_nodes r). split; [reflexivity|].
  apply Forall_app in Hu. destruct Hu as (Hulo & Hut). inversion Hut as [|? ? Hut1 _]; subst.
  apply (W_app 0 lo _ [top] Hlo) in HW. destruct HW as (HWlo & HWt). cbn [W] in HWt. destruct HWt as (HWt & _).
  split; [constructor|split].
  - apply shape_join; auto. cbn [app shape top' u_last]. split; eauto. apply shape_suffix.
  - apply Forall_app. split; auto. cbn [app]. constructor; [|apply unf_ok_suffix; auto].
    destruct Hut1 as (U1 & U2 & U3 & _). unfold unf_ok, top'. cbn [u_node u_last]. splits; auto.
  - apply (W_app 0 lo _ _ Hlo). split; auto. cbn [app W top' u_node u_last]. splits; auto.
    apply W_suffix. lia.
  - intros a Hin. apply (dom_app lo _ _ a Hlo). apply Hd in Hin. apply (dom_app lo _ _ a Hlo) in Hin.
    destruct Hin as [Hin|Hin]; [left; auto|right]. cbn [dom] in Hin. destruct Hin as [Hin|(_ & [])].
    cbn [app dom top' u_node]. left. exact Hin.
  - rewrite Lstk_app. cbn [app Lstk top' u_node u_last]. rewrite Lstk_suffix. cbn [map].
    change [cons_tr b o2 (r, 0)] with [(b :: r, o2 + 0)].
    rewrite (Lstk_snoc _ lo k _ _ _ Hlo). rewrite Lstk_app. cbn [Lstk]. rewrite Ht, app_nil_r.
    do 3 f_equal. lia.
  - unfold top_empty. intros u Hu. change (lo ++ [top'] ++ suffix_nodes r) with (lo ++ [top'] ++ suffix_nodes r) in Hu.
    rewrite app_assoc, last_opt_app_suffix in Hu. inversion Hu; reflexivity.
  - rewrite !app_length. cbn [length]. assert (length (suffix_nodes r) = S (length r)).
    { clear. induction r; cbn [suffix_nodes length]; auto. } lia.
Qed.

(* ---------- canonical outputs through compile_from and add_suffix ---------- *)
Lemma Fro_unf_ext1 E E' u : ext1 E E' -> store_ok E' -> unf_ok E u ->
  Fro (elang E) (u_node u) -> Fro (elang E') (u_node u).
Proof.
  intros He Hs (_ & H2 & _) HF t Ht. rewrite Forall_forall in H2.
  rewrite (elang_ext1 E E'); auto. apply (H2 t Ht).
Qed.

Lemma Cpost_ext1 E E' st tail : ext1 E E' -> store_ok E' -> Forall (unf_ok E) st ->
  forall p v, Cpost (elang E) st tail p v -> Cpost (elang E') st tail p v.
Proof.
  intros He Hs. induction st as [|u st IH]; intros Hu p v; cbn [Cpost]; [auto|].
  inversion Hu as [|? ? Hu1 Hu2]; subst. intros (C1 & C2). split; [eapply Fro_unf_ext1; eauto|].
  destruct (u_last u); [|exact I]. rewrite (Lstk_ext1 E E'); auto.
  destruct p; destruct C2 as (C2 & C3); split; auto.
Qed.

Lemma pop_step_C E E' lo p t a' k L q v :
  ext1 E E' -> store_ok E' ->
  sinv E (lo ++ [p; t]) k L ->
  elang E' a' = lang_node (elang E) (u_node t) ->
  (q <= length lo)%nat ->
  Cpost (elang E) (lo ++ [p; t]) [] q v ->
  Cpost (elang E') (lo ++ [mkUnf (freeze p a') None]) [] q v.
Proof.
  intros He HE' [Hs Hu _ _ _] Hla' Hq HC.
  destruct (shape_app_inv lo [p; t] k Hs) as (Hlo & Hpt); [discriminate|].
  destruct (skipn (length lo) k) as [|c [|c2 k2]] eqn:Hk; cbn [shape] in Hpt.
  { destruct Hpt as (_ & X); discriminate. }
  2:{ destruct Hpt as (_ & _ & []). }
  destruct Hpt as ((o & Hp) & Ht & _).
  apply Forall_app in Hu. destruct Hu as (Hulo & Hupt).
  inversion Hupt as [|? ? Hup _]; subst.
  apply (Cpost_app _ lo _ _ _ _ _ Hlo Hq) in HC. destruct HC as (HC1 & HC2).
  cbn [Cpost] in HC2. rewrite Hp, Ht in HC2. destruct HC2 as (HFp & Hh0 & HFt & _).
  apply (Cpost_app _ lo _ _ _ _ _ Hlo Hq). split.
  - assert (HL : Lstk (elang E') [mkUnf (freeze p a') None] [] = Lstk (elang E) [p; t] []).
    { cbn [Lstk u_node u_last]. rewrite Hp, Ht. rewrite (lang_node_freeze _ p c o a' Hp).
      rewrite (lang_node_unf_ext1 E E' p), Hla', !app_nil_r; auto. }
    rewrite HL. apply (Cpost_ext1 E E'); auto.
  - cbn [Cpost u_node u_last]. split; [|exact I].
    intros x Hx. unfold freeze in Hx. rewrite Hp in Hx. cbn [n_trans] in Hx. apply in_app_or in Hx.
    destruct Hx as [Hx|[<-|[]]].
    + eapply Fro_unf_ext1; eauto.
    + cbn [t_addr]. rewrite Hla'. cbn [Lstk] in Hh0. rewrite Ht, app_nil_r in Hh0. exact Hh0.
Qed.

Lemma Cstk_suffix cl r v : Cpost cl (suffix_nodes r) [] 0 v.
Proof.
  induction r as [|c r IH]; cbn [suffix_nodes Cpost u_node u_last].
  - split; [|exact I]. intros t [].
  - split; [intros t []|]. split; [|exact IH]. rewrite Lstk_suffix. exists r. left. reflexivity.
Qed.

Lemma Cpost_settle cl lo : forall k T v k' v', lasts lo k ->
  Cpost cl lo T (length lo) v -> Cpost cl lo (T ++ [(k', v)]) 0 v'.
Proof.
  induction lo as [|u lo IH]; intros [|c k] T v k' v'; cbn [lasts]; try tauto.
  intros ((o & Ho) & Hl). cbn [length Cpost]. rewrite Ho. intros (H1 & H2 & H3).
  split; [exact H1|]. split; [|eapply IH; eauto].
  rewrite (Lstk_snoc _ lo k _ _ _ Hl). destruct H2 as [H2|H2].
  - apply has0_app_l. exact H2.
  - apply has0_app_r. rewrite firstn_all in H2. rewrite H2. eexists. left. reflexivity.
Qed.

Lemma add_suffix_C cl lo k top b r o2 :
  lasts lo k -> u_last top = None ->
  Cpost cl (lo ++ [top]) [] (length lo) o2 ->
  Cstk cl (lo ++ [mkUnf (u_node top) (Some (b, o2))] ++ suffix_nodes r).
Proof.
  intros Hlo Ht HC. apply (Cpost_app _ lo _ _ _ _ _ Hlo (le_n _)) in HC. destruct HC as (HC1 & HC2).
  cbn [Cpost] in HC2. destruct HC2 as (HFt & _).
  unfold Cstk. apply (Cpost_app _ lo _ _ _ _ _ Hlo (Nat.le_0_l _)). split.
  - cbn [app Lstk u_node u_last]. rewrite Lstk_suffix. cbn [map].
    change [cons_tr b o2 (r, 0)] with [(b :: r, o2 + 0)]. replace (o2 + 0) with o2 by lia.
    cbn [Lstk] in HC1. rewrite Ht in HC1. rewrite app_nil_r in HC1.
    eapply Cpost_settle; eauto.
  - cbn [app Cpost u_node u_last]. split; [exact HFt|]. split; [|apply Cstk_suffix].
    rewrite Lstk_suffix. exists r. left. reflexivity.
Qed.

(* the new top of the stack is the final node of the new key *)
Lemma top_final_suffix (l : list unf) r : top_final (l ++ suffix_nodes r).
Proof. intros u Hu. rewrite last_opt_app_suffix in Hu. inversion Hu. right. reflexivity. Qed.

(* ---------- reachability of the written nodes from the frozen transitions ---------- *)
Lemma reach_ext1 E E' x a : ext1 E E' -> reach E x a -> reach E' x a.
Proof.
  intros He H. induction H; [constructor|]. econstructor; eauto.
  destruct He as [->|(y & ->)]; [assumption|right; assumption].
Qed.

Lemma ftargets_app a b : ftargets (a ++ b) = ftargets a ++ ftargets b.
Proof. unfold ftargets. apply flat_map_app. Qed.

Lemma ftargets_suffix r : ftargets (suffix_nodes r) = [].
Proof. induction r as [|c r IH]; cbn; [reflexivity|exact IH]. Qed.

(* one pop: the compiled top node t now lives at a' (or is the sentinel and has no transitions) *)
Lemma pop_step_R E E' lo p t a' c o :
  ext1 E E' -> u_last p = Some (c, o) ->
  ((a' = 0 /\ n_trans (u_node t) = []) \/ exists s, In (a', s) E' /\ bn_of s = u_node t) ->
  (forall a, In a (addrs E') -> In a (addrs E) \/ a = a') ->
  Rinv E (lo ++ [p; t]) -> Rinv E' (lo ++ [mkUnf (freeze p a') None]).
Proof.
  intros He Hp Hnode Hnew HR a Ha.
  assert (Hfz : ftargets [mkUnf (freeze p a') None] = map t_addr (n_trans (u_node p)) ++ [a']).
  { unfold ftargets, freeze. cbn [flat_map u_node]. rewrite Hp. cbn [n_trans]. rewrite map_app, app_nil_r. reflexivity. }
  rewrite ftargets_app, Hfz.
  destruct (Hnew a Ha) as [Hold| ->].
  2:{ exists a'. split; [|constructor]. apply in_or_app. right. apply in_or_app. right. left. reflexivity. }
  destruct (HR a Hold) as (x & Hx & Hreach). apply (reach_ext1 E E' _ _ He) in Hreach.
  rewrite ftargets_app in Hx. apply in_app_or in Hx. destruct Hx as [Hx|Hx].
  { exists x. split; [apply in_or_app; left; exact Hx|exact Hreach]. }
  unfold ftargets in Hx. cbn [flat_map] in Hx. rewrite app_nil_r in Hx. apply in_app_or in Hx.
  destruct Hx as [Hx|Hx].
  { exists x. split; [|exact Hreach]. apply in_or_app. right. apply in_or_app. left. exact Hx. }
  (* x is a target of the popped node: it is now a target of the node at a' *)
  exists a'. split; [apply in_or_app; right; apply in_or_app; right; left; reflexivity|].
  apply in_map_iff in Hx. destruct Hx as (tx & <- & Htx).
  destruct Hnode as [(_ & Hnil)|(s & Hin & Hs)]; [rewrite Hnil in Htx; destruct Htx|].
  eapply reach_step; eauto. rewrite <- Hs in Htx. exact Htx.
Qed.
