(* NodeCodec.v — printer/parser law for nodes: what Node.compile_node writes is read back by
   Format.spec_node as exactly that node; compile_node is total on admissible nodes. *)
Require Import FstV.Base FstV.Pack FstV.Node FstV.Reader FstV.GraphSem FstV.Format FstV.Fst.
Require Import FstV.CodecSpec FstV.ParamsTie FstV.proofs.PackProofs.
From Coq Require Import ZArith ZifyN ZifyBool ZifyNat.
Ltac Zify.zify_post_hook ::= Z.div_mod_to_equations.
Local Open Scope N_scope.

(* ---------- generic helpers ---------- *)
Lemma res_map_ok {A B} (f : A -> res B) (g : A -> B) l :
  (forall x, In x l -> f x = Ok (g x)) -> res_map f l = Ok (map g l).
Proof.
  induction l as [|x l IH]; intros H; cbn [res_map map]; auto.
  rewrite H by (left; reflexivity). cbn [bind]. rewrite IH by (intros; apply H; right; assumption).
  reflexivity.
Qed.

Lemma fold_max_init l : forall i, i <= fold_left N.max l i.
Proof. induction l; intros; cbn [fold_left]; [lia|]. specialize (IHl (N.max i a)). lia. Qed.

Lemma fold_max_ge l : forall i x, In x l -> x <= fold_left N.max l i.
Proof.
  induction l; intros i x H; cbn [fold_left]; [destruct H|].
  destruct H as [->|H]; [|auto]. pose proof (fold_max_init l (N.max i x)). lia.
Qed.

Lemma fold_max_le l : forall i B, i <= B -> (forall x, In x l -> x <= B) -> fold_left N.max l i <= B.
Proof.
  induction l; intros i B Hi H; cbn [fold_left]; auto.
  apply IHl; [|intros; apply H; right; assumption]. specialize (H a (or_introl eq_refl)). lia.
Qed.

Lemma concat_singletons {A B} (f : A -> B) l : concat (map (fun t => [f t]) l) = map f l.
Proof. induction l; cbn [map concat app]; auto. rewrite IHl. reflexivity. Qed.

Lemma rev_chunks {A} (g : A -> N) k ts :
  rev (concat (map (fun t => le_bytes (g t) k) (rev ts)))
  = concat (map (fun x => rev (le_bytes x k)) (map g ts)).
Proof.
  rewrite rev_concat, <- map_rev, rev_involutive, !map_map. reflexivity.
Qed.

Lemma length_chunks {A} (g : A -> N) k l :
  length (concat (map (fun t => le_bytes (g t) k) l)) = (length l * k)%nat.
Proof.
  induction l; cbn [map concat length]; auto. rewrite app_length, le_bytes_length, IHl. lia.
Qed.

Lemma combine3_map {A B C D} (f : A -> B) (g : A -> C) (h : A -> D) l :
  combine (combine (map f l) (map g l)) (map h l) = map (fun t => (f t, g t, h t)) l.
Proof. induction l; cbn [map combine]; auto. rewrite IHl. reflexivity. Qed.

Lemma repeatN_length {A} (x : A) n : length (repeatN x n) = n.
Proof. induction n; cbn [repeatN length]; auto. Qed.

Lemma nth_repeatN {A} (x : A) n i : nth i (repeatN x n) x = x.
Proof. revert i; induction n; intros [|i]; cbn [repeatN nth]; auto. Qed.

Lemma set_nth_length {A} (l : list A) : forall i x, length (set_nth l i x) = length l.
Proof. induction l; intros [|i] x; cbn [set_nth length]; auto. Qed.

Lemma nth_set_nth_eq {A} (l : list A) : forall i x d, (i < length l)%nat -> nth i (set_nth l i x) d = x.
Proof. induction l; intros [|i] x d H; cbn [set_nth nth length] in *; auto; try lia. apply IHl. lia. Qed.

Lemma nth_set_nth_neq {A} (l : list A) : forall i j x d, i <> j -> nth j (set_nth l i x) d = nth j l d.
Proof.
  induction l; intros [|i] [|j] x d H; cbn [set_nth nth]; auto; try congruence.
Qed.

(* ---------- inputs_increasing ---------- *)
Lemma incr_tail t r : inputs_increasing (t :: r) = true -> inputs_increasing r = true.
Proof.
  destruct r as [|u r]; [reflexivity|]. cbn [inputs_increasing]. intros H.
  apply andb_true_iff in H. apply H.
Qed.

Lemma incr_head_lt r : forall t, inputs_increasing (t :: r) = true -> forall u, In u r -> t_inp t < t_inp u.
Proof.
  induction r as [|v r IH]; intros t H u Hu; [destruct Hu|].
  cbn [inputs_increasing] in H. apply andb_true_iff in H. destruct H as [H1 H2].
  apply N.ltb_lt in H1. destruct Hu as [->|Hu]; [assumption|].
  specialize (IH v H2 u Hu). lia.
Qed.

Lemma incr_nodup ts : inputs_increasing ts = true -> NoDup (map t_inp ts).
Proof.
  induction ts as [|t r IH]; intros H; cbn [map]; constructor.
  - intros Hin. apply in_map_iff in Hin. destruct Hin as [u [E Hu]].
    pose proof (incr_head_lt r t H u Hu). lia.
  - apply IH. eapply incr_tail; eassumption.
Qed.

Lemma find_index_none {A} (p : A -> bool) l : (forall x, In x l -> p x = false) -> find_index p l = None.
Proof.
  induction l; intros H; cbn [find_index]; auto.
  rewrite H by (left; reflexivity). rewrite IHl; auto. intros; apply H; right; assumption.
Qed.

Lemma find_index_some_lt {A} (p : A -> bool) l : forall i, find_index p l = Some i -> (i < length l)%nat.
Proof.
  induction l; intros i H; cbn [find_index] in H; [discriminate|].
  destruct (p a); [inversion H; cbn; lia|].
  destruct (find_index p l) eqn:E; [|discriminate]. inversion H. specialize (IHl n eq_refl). cbn. lia.
Qed.

Lemma find_index_none_notin l b : find_index (fun i => i =? b) l = None -> ~ In b l.
Proof.
  induction l; intros H Hin; cbn [find_index] in H; [destruct Hin|].
  destruct (N.eqb_spec a b); [discriminate|].
  destruct (find_index (fun i => i =? b) l); [discriminate|].
  destruct Hin; [congruence|]. apply IHl; auto.
Qed.

(* ---------- the 256-entry index ---------- *)
Lemma index_table_length ts : forall i tbl, length (index_table ts i tbl) = length tbl.
Proof. induction ts; intros; cbn [index_table]; auto. rewrite IHts, set_nth_length. reflexivity. Qed.

Lemma index_table_spec ts : forall i tbl b,
  length tbl = 256%nat -> b < 256 ->
  (forall t, In t ts -> t_inp t < 256) -> inputs_increasing ts = true ->
  nth (N.to_nat b) (index_table ts i tbl) 255 =
  match find_index (fun x => x =? b) (map t_inp ts) with
  | Some j => (i + N.of_nat j) mod 256
  | None => nth (N.to_nat b) tbl 255
  end.
Proof.
  induction ts as [|t r IH]; intros i tbl b Hl Hb Hin Hinc; cbn [index_table map find_index]; auto.
  rewrite IH; auto.
  2: rewrite set_nth_length; assumption.
  2: intros; apply Hin; right; assumption.
  2: eapply incr_tail; eassumption.
  destruct (N.eqb_spec (t_inp t) b) as [E|E].
  - rewrite find_index_none.
    + subst b. rewrite nth_set_nth_eq by lia. f_equal. lia.
    + intros x Hx. apply in_map_iff in Hx. destruct Hx as [u [<- Hu]].
      pose proof (incr_head_lt r t Hinc u Hu). apply N.eqb_neq. lia.
  - destruct (find_index (fun x => x =? b) (map t_inp r)) as [j|]; cbn [option_map].
    + f_equal. lia.
    + apply nth_set_nth_neq. lia.
Qed.

(* pigeonhole: a byte missing from strictly increasing byte inputs leaves at most 255 of them *)
Lemma missing_input_bound ts b :
  b < 256 -> (forall t, In t ts -> t_inp t < 256) -> inputs_increasing ts = true ->
  ~ In b (map t_inp ts) -> (length ts <= 255)%nat.
Proof.
  intros Hb Hin Hinc Hnot.
  assert (NoDup (b :: map t_inp ts)) as ND by (constructor; [assumption|apply incr_nodup; assumption]).
  assert (incl (b :: map t_inp ts) (map N.of_nat (seq 0 256))) as I.
  { intros x [<-|Hx]; apply in_map_iff.
    - exists (N.to_nat b). split; [apply N2Nat.id|apply in_seq; lia].
    - apply in_map_iff in Hx. destruct Hx as [u [<- Hu]]. specialize (Hin u Hu).
      exists (N.to_nat (t_inp u)). split; [apply N2Nat.id|apply in_seq; lia]. }
  pose proof (NoDup_incl_length ND I) as L.
  cbn [length] in L. rewrite !map_length, seq_length in L. lia.
Qed.

Lemma index_ok_holds ts :
  (length ts <= 256)%nat ->
  (forall t, In t ts -> t_inp t < 256) -> inputs_increasing ts = true ->
  forallb (fun b => let e := nth (N.to_nat b) (index_table ts 0 (repeatN 255 256)) 255 in
                    match find_index (fun i => i =? b) (map t_inp ts) with
                    | Some i => e =? (N.of_nat i) mod 256
                    | None => len ts <=? e end)
          (map N.of_nat (seq 0 256)) = true.
Proof.
  intros Hlen Hin Hinc. apply forallb_forall. intros b Hb.
  apply in_map_iff in Hb. destruct Hb as [k [<- Hk]]. apply in_seq in Hk.
  cbv zeta. rewrite index_table_spec; auto; try lia.
  all: try apply repeatN_length.
  destruct (find_index (fun x => x =? N.of_nat k) (map t_inp ts)) as [j|] eqn:E.
  - apply N.eqb_eq. f_equal.
  - rewrite nth_repeatN. apply N.leb_le.
    apply find_index_none_notin in E.
    pose proof (missing_input_bound ts (N.of_nat k) ltac:(lia) Hin Hinc E). unfold len. lia.
Qed.

(* ---------- common inputs ---------- *)
Lemma common_idx_le b : common_idx b 63 <= 63.
Proof. unfold common_idx. cbv zeta. destruct (N.ltb_spec 63 ((nth (N.to_nat b) SrcParams.src_COMMON_INPUTS 0 + 1) mod 256)); lia. Qed.

Lemma common_input_zero : common_input 0 = None.
Proof. reflexivity. Qed.

Lemma common_cases b : b < 256 ->
  let c := common_idx b 63 in
  (c = 0 /\ common_input c = None) \/
  (1 <= c /\ c <= 63 /\ common_input c = Some b /\ common_of c = Some b).
Proof.
  intros Hb c. pose proof (common_idx_le b) as Hle. fold c in Hle.
  pose proof (common_idx_roundtrip b Hb) as R. fold c in R.
  destruct (N.eq_dec c 0) as [E|E].
  - left. rewrite E. split; reflexivity.
  - right. assert (common_input c = Some b) as CI.
    { unfold common_input in *. destruct (N.eqb_spec c 0); [contradiction|]. rewrite R. reflexivity. }
    repeat split; try lia; auto. rewrite common_of_eq by lia. assumption.
Qed.

(* ---------- deltas ---------- *)
Definition dl (addr : N) (t : trans) : N := if t_addr t =? 0 then 0 else addr - t_addr t.

Lemma delta_of_ok addr t : (t_addr t = 0 \/ t_addr t < addr) -> delta_of addr (t_addr t) = Ok (dl addr t).
Proof.
  intros H. unfold delta_of, dl. change EMPTY_ADDRESS with 0.
  destruct (N.eqb_spec (t_addr t) 0); [reflexivity|].
  unfold csub. destruct (N.leb_spec (t_addr t) addr); [reflexivity|lia].
Qed.

Lemma dl_lt addr t : addr < U64 -> dl addr t < 18446744073709551616.
Proof. unfold dl, U64. destruct (t_addr t =? 0); lia. Qed.

Definition resolve_ (first delta : N) : option N :=
  if delta =? 0 then Some 0 else if delta <=? first then Some (first - delta) else None.

Lemma resolve_dl addr t : (t_addr t = 0 \/ (0 < t_addr t /\ t_addr t < addr)) ->
  resolve_ addr (dl addr t) = Some (t_addr t).
Proof.
  intros H. unfold resolve_, dl.
  destruct (N.eqb_spec (t_addr t) 0) as [E|E].
  - rewrite E. reflexivity.
  - destruct (N.eqb_spec (addr - t_addr t) 0); [lia|].
    destruct (N.leb_spec (addr - t_addr t) addr); [|lia]. f_equal. lia.
Qed.

(* ---------- one transition, next ---------- *)
Lemma codec_otn version addr inp pre cs :
  inp < 256 -> len pre = addr -> 16 <= addr ->
  compile_otn inp = Ok cs ->
  0 < len (concat cs) /\
  spec_node version (rev (pre ++ concat cs)) (addr + len (concat cs) - 1)
  = Some (mkSnode false 0 [mkTrans inp 0 (addr - 1)] (len (concat cs))).
Proof.
  intros Hi Hp Ha H. unfold compile_otn in H. cbv zeta in H.
  pose proof (common_cases inp Hi) as C. cbv zeta in C.
  set (c := common_idx inp 63) in *.
  assert ((192 + c) mod 64 = c) as M by (pose proof (common_idx_le inp); fold c in H0; lia).
  rewrite M in H.
  destruct C as [[C0 C1]|[C1 [C2 [C3 C4]]]].
  - rewrite C1 in H. inversion H; subst cs; clear H.
    cbn [app concat]. split; [reflexivity|].
    rewrite rev_app_distr. cbn [rev app].
    change (len [inp; 192 + c]) with 2.
    unfold spec_node.
    replace (192 <=? 192 + c) with true by (symmetry; apply N.leb_le; lia).
    rewrite M. rewrite C0. cbn [N.eqb]. 
    change (0 =? 0) with true. cbv iota beta.
    destruct (N.leb_spec 2 (addr + 2 - 1)); [|lia]. replace (addr + 2 - 1 - 2) with (addr - 1) by lia. reflexivity.
  - rewrite C3 in H. inversion H; subst cs; clear H.
    cbn [app concat]. split; [reflexivity|].
    rewrite rev_app_distr. cbn [rev app].
    change (len [192 + c]) with 1.
    unfold spec_node.
    replace (192 <=? 192 + c) with true by (symmetry; apply N.leb_le; lia).
    rewrite M. destruct (N.eqb_spec c 0); [lia|]. rewrite C4.
    destruct (N.leb_spec 1 (addr + 1 - 1)); [|lia]. replace (addr + 1 - 1 - 1) with (addr - 1) by lia. reflexivity.
Qed.

(* ---------- one transition ---------- *)
Definition ot_chunks (addr : N) (t : trans) : list (list N) :=
  let out := t_out t in
  let osize := if out =? 0 then 0 else pack_size out in
  let tsize := pack_size (dl addr t) in
  let st := 128 + common_idx (t_inp t) 63 in
  (if out =? 0 then [] else [le_bytes out (N.to_nat osize)]) ++ [le_bytes (dl addr t) (N.to_nat tsize)]
  ++ [[tsize * 16 + osize]]
  ++ (match common_input (st mod 64) with None => [[t_inp t]] | Some _ => [] end) ++ [[st]].

Lemma compile_ot_eq addr t :
  (t_addr t = 0 \/ t_addr t < addr) -> compile_ot addr t = Ok (ot_chunks addr t).
Proof.
  intros Ht. unfold compile_ot, ot_chunks, pack_delta_size, pack_delta_in. cbv zeta.
  rewrite delta_of_ok by assumption. cbn [bind].
  pose proof (pack_size_range (dl addr t)) as [R1 R2].
  rewrite (pack_uint_in_ok _ _ R1 R2). cbn [bind].
  destruct (t_out t =? 0); cbn [bind].
  - reflexivity.
  - pose proof (pack_size_range (t_out t)) as [R3 R4].
    rewrite (pack_uint_in_ok _ _ R3 R4). cbn [bind]. reflexivity.
Qed.

Lemma codec_ot version addr t pre :
  t_inp t < 256 -> t_out t < U64 -> addr < U64 -> len pre = addr -> 16 <= addr ->
  (t_addr t = 0 \/ (0 < t_addr t /\ t_addr t < addr)) ->
  let body := concat (ot_chunks addr t) in
  0 < len body /\
  spec_node version (rev (pre ++ body)) (addr + len body - 1)
  = Some (mkSnode false 0 [t] (len body)).
Proof.
  intros Hi Ho Ha Hp H16 Ht. cbv zeta. unfold ot_chunks. cbv zeta.
  pose proof (common_cases (t_inp t) Hi) as C. cbv zeta in C.
  set (c := common_idx (t_inp t) 63) in *.
  assert ((128 + c) mod 64 = c) as M by (pose proof (common_idx_le (t_inp t)) as Q; fold c in Q; lia).
  rewrite M.
  set (d := dl addr t). set (tsize := pack_size d).
  set (osize := if t_out t =? 0 then 0 else pack_size (t_out t)).
  set (ob := if t_out t =? 0 then [] else [le_bytes (t_out t) (N.to_nat osize)]).
  set (ib := match common_input c with None => [[t_inp t]] | Some _ => [] end).
  pose proof (pack_size_range d) as [T1 T2]. fold tsize in T1, T2.
  assert (osize <= 8 /\ len (concat ob) = osize /\
          take_be (N.to_nat osize) (rev (concat ob) ++ rev pre) 0 = Some (t_out t, rev pre)) as [O1 [O2 O3]].
  { subst osize ob. destruct (N.eqb_spec (t_out t) 0) as [E|E].
    - rewrite E. repeat split; try reflexivity. lia.
    - pose proof (pack_size_range (t_out t)) as [R3 R4]. split; [assumption|]. split.
      + cbn [concat]. rewrite app_nil_r. unfold len. rewrite le_bytes_length. apply N2Nat.id.
      + cbn [concat]. rewrite app_nil_r. apply take_be_le_bytes. rewrite N2Nat.id.
        apply pack_size_bound. exact Ho. }
  assert (take_be (N.to_nat tsize) (rev (le_bytes d (N.to_nat tsize)) ++ rev (concat ob) ++ rev pre) 0
          = Some (d, rev (concat ob) ++ rev pre)) as D3.
  { apply take_be_le_bytes. rewrite N2Nat.id. apply pack_size_bound. apply dl_lt. assumption. }
  set (body := concat (ob ++ [le_bytes d (N.to_nat tsize)] ++ [[tsize * 16 + osize]] ++ ib ++ [[128 + c]])).
  assert (len body = osize + tsize + 1 + len (concat ib) + 1) as Lb.
  { subst body. rewrite !concat_app, !len_app, O2. cbn [concat]. rewrite !app_nil_r.
    unfold len. rewrite le_bytes_length. cbn [length]. lia. }
  assert (rev (pre ++ body) = (128 + c) :: rev (concat ib) ++ (tsize * 16 + osize) ::
            rev (le_bytes d (N.to_nat tsize)) ++ rev (concat ob) ++ rev pre) as Rb.
  { subst body. rewrite !concat_app, !rev_app_distr. cbn [concat]. rewrite !app_nil_r.
    cbn [rev app]. rewrite <- !app_assoc. reflexivity. }
  rewrite Rb, Lb. clearbody body. clear Rb Lb body.
  split; [lia|].
  assert ((tsize * 16 + osize) / 16 = tsize /\ (tsize * 16 + osize) mod 16 = osize) as [S1 S2] by lia.
  assert (resolve_ addr d = Some (t_addr t)) as Rs by (apply resolve_dl; assumption).
  unfold resolve_ in Rs.
  unfold spec_node.
  replace (192 <=? 128 + c) with false by (symmetry; apply N.leb_gt; pose proof (common_idx_le (t_inp t)) as Q; fold c in Q; lia).
  replace (128 <=? 128 + c) with true by (symmetry; apply N.leb_le; lia).
  rewrite M.
  assert (((tsize =? 0) || (8 <? tsize) || (8 <? osize)) = false) as G.
  { destruct (N.eqb_spec tsize 0); [lia|]. destruct (N.ltb_spec 8 tsize); [lia|].
    destruct (N.ltb_spec 8 osize); [lia|]. reflexivity. }
  destruct t as [ti to ta]. cbn [t_inp t_out t_addr] in *.
  destruct C as [[C0 C1]|[C1 [C2 [C3 C4]]]].
  - subst ib. rewrite C1. cbn [concat rev app]. rewrite C0.
    change (0 =? 0) with true. cbv iota beta. rewrite S1, S2, G, D3, O3.
    change (len [ti]) with 1.
    destruct (N.ltb_spec (addr + (osize + tsize + 1 + 1 + 1) - 1 + 1) (2 + 1 + tsize + osize)); [lia|].
    replace (addr + (osize + tsize + 1 + 1 + 1) - 1 + 1 - (2 + 1 + tsize + osize)) with addr by lia.
    rewrite Rs. f_equal. f_equal. lia.
  - subst ib. rewrite C3. cbn [concat rev app].
    destruct (N.eqb_spec c 0); [lia|]. rewrite C4. rewrite S1, S2, G, D3, O3.
    change (len []) with 0.
    destruct (N.ltb_spec (addr + (osize + tsize + 1 + 0 + 1) - 1 + 1) (1 + 1 + tsize + osize)); [lia|].
    replace (addr + (osize + tsize + 1 + 0 + 1) - 1 + 1 - (1 + 1 + tsize + osize)) with addr by lia.
    rewrite Rs. f_equal. f_equal. lia.
Qed.

(* ---------- any number of transitions ---------- *)
Definition any_tsize (addr : N) (ts : list trans) : N :=
  fold_left N.max (map (fun t => pack_size (dl addr t)) ts) 0.
Definition any_osize (n : bnode) : N :=
  fold_left N.max (map (fun t => pack_size (t_out t)) (n_trans n)) (pack_size (n_fout n)).
Definition any_outs (n : bnode) : bool :=
  negb (n_fout n =? 0) || existsb (fun t => negb (t_out t =? 0)) (n_trans n).
Definition any_st (n : bnode) : N :=
  (if n_final n then 64 else 0) + (if len (n_trans n) <=? 63 then len (n_trans n) else 0).
Definition any_chunks (version addr : N) (n : bnode) : list (list N) :=
  let ts := n_trans n in
  let ntr := len ts in
  let tsize := any_tsize addr ts in
  let osize := any_osize n in
  let ao := any_outs n in
  let sizes := tsize * 16 + (if ao then osize else 0) in
  let st := any_st n in
  (if ao && n_final n then [le_bytes (n_fout n) (N.to_nat osize)] else []) ++
  (if ao then map (fun t => le_bytes (t_out t) (N.to_nat osize)) (rev ts) else []) ++
  map (fun t => le_bytes (dl addr t) (N.to_nat tsize)) (rev ts) ++
  map (fun t => [t_inp t]) (rev ts) ++
  (if (2 <=? version) && (TRANS_INDEX_THRESHOLD <? ntr) then [index_table ts 0 (repeatN 255 256)] else []) ++
  [[sizes]] ++ (if (st mod 64) =? 0 then [[if ntr =? 256 then 1 else ntr]] else []) ++ [[st]].

Lemma any_tsize_range addr ts : any_tsize addr ts <= 8 /\ (ts <> [] -> 1 <= any_tsize addr ts).
Proof.
  unfold any_tsize. split.
  - apply fold_max_le; [lia|]. intros x Hx. apply in_map_iff in Hx. destruct Hx as [t [<- _]].
    apply pack_size_range.
  - intros Hne. destruct ts as [|t r]; [congruence|].
    pose proof (fold_max_ge (map (fun t => pack_size (dl addr t)) (t :: r)) 0 (pack_size (dl addr t))
                  (or_introl eq_refl)) as G.
    pose proof (pack_size_range (dl addr t)). lia.
Qed.

Lemma any_tsize_ge addr ts t : In t ts -> pack_size (dl addr t) <= any_tsize addr ts.
Proof. intros H. unfold any_tsize. apply fold_max_ge. apply in_map_iff. exists t. auto. Qed.

Lemma any_osize_range n : 1 <= any_osize n /\ any_osize n <= 8.
Proof.
  unfold any_osize. pose proof (pack_size_range (n_fout n)). split.
  - pose proof (fold_max_init (map (fun t => pack_size (t_out t)) (n_trans n)) (pack_size (n_fout n))). lia.
  - apply fold_max_le; [lia|]. intros x Hx. apply in_map_iff in Hx. destruct Hx as [t [<- _]].
    apply pack_size_range.
Qed.

Lemma any_osize_ge n t : In t (n_trans n) -> pack_size (t_out t) <= any_osize n.
Proof. intros H. unfold any_osize. apply fold_max_ge. apply in_map_iff. exists t. auto. Qed.

Lemma any_osize_ge_fout n : pack_size (n_fout n) <= any_osize n.
Proof. unfold any_osize. apply fold_max_init. Qed.

Lemma compile_any_eq version addr n :
  (length (n_trans n) <= 256)%nat ->
  (forall t, In t (n_trans n) -> t_addr t = 0 \/ t_addr t < addr) ->
  compile_any version addr n = Ok (any_chunks version addr n).
Proof.
  intros Hlen Hts. unfold compile_any, any_chunks. cbv zeta.
  destruct (N.ltb_spec 256 (len (n_trans n))) as [L|L]; [unfold len in L; lia|].
  rewrite (res_map_ok _ (fun t => pack_size (dl addr t))).
  2:{ intros t Ht. unfold pack_delta_size. rewrite delta_of_ok by auto. reflexivity. }
  cbn [bind]. fold (any_tsize addr (n_trans n)). fold (any_osize n). fold (any_outs n). fold (any_st n).
  pose proof (any_osize_range n) as [O1 O2].
  pose proof (any_tsize_range addr (n_trans n)) as [T1 T2].
  rewrite (res_map_ok (fun t => pack_delta_in addr (t_addr t) (any_tsize addr (n_trans n)))
             (fun t => le_bytes (dl addr t) (N.to_nat (any_tsize addr (n_trans n))))).
  2:{ intros t Ht. apply in_rev in Ht. unfold pack_delta_in. rewrite delta_of_ok by auto. cbn [bind].
      apply pack_uint_in_ok; [|assumption]. apply T2. intros E. rewrite E in Ht. destruct Ht. }
  rewrite (pack_uint_in_ok _ _ O1 O2).
  rewrite (res_map_ok (fun t => pack_uint_in (t_out t) (any_osize n))
             (fun t => le_bytes (t_out t) (N.to_nat (any_osize n)))).
  2:{ intros t _. apply pack_uint_in_ok; assumption. }
  destruct (any_outs n), (n_final n); cbn [andb bind]; reflexivity.
Qed.

(* the AnyTrans branch of Format.spec_node, after the state byte, the count and the sizes byte *)
Definition spec_any_body (version addr : N) (final : bool) (ntrans used sizes : N) (r2 : list N) : option snode :=
    let resolve (size delta : N) : option N :=
      if delta =? 0 then Some 0
      else let first := addr + 1 - size in if delta <=? first then Some (first - delta) else None in
          let tsize := sizes / 16 in let osize := sizes mod 16 in
          if (8 <? tsize) || (8 <? osize) || ((tsize =? 0) && negb (ntrans =? 0)) then None else
          let has_index := (2 <=? version) && (FMT_INDEX_THRESHOLD <? ntrans) in
          match (if has_index then take_n 256 r2 else Some ([], r2)) with
          | Some (index_rev, r3) =>
            match take_n (N.to_nat ntrans) r3 with
            | Some (inputs, r4) =>
              match take_nums (N.to_nat ntrans) (N.to_nat tsize) r4 with
              | Some (deltas, r5) =>
                match take_nums (N.to_nat ntrans) (N.to_nat osize) r5 with
                | Some (outs, r6) =>
                  match (if final then take_be (N.to_nat osize) r6 0 else Some (0, r6)) with
                  | Some (fout, _) =>
                    let size := used + 1 + (if has_index then 256 else 0) + ntrans + ntrans * tsize
                                + ntrans * osize + (if final then osize else 0) in
                    if addr + 1 <? size then None else
                    let tgts := map (resolve size) deltas in
                    if forallb (fun o => match o with Some _ => true | None => false end) tgts then
                      let ts := map (fun x => mkTrans (fst (fst x)) (snd (fst x)) (match snd x with Some a => a | None => 0 end))
                                    (combine (combine inputs outs) tgts) in
                      let index := rev index_rev in
                      let index_ok :=
                        negb has_index ||
                        forallb (fun b => let e := nth (N.to_nat b) index 255 in
                                          match find_index (fun i => i =? b) inputs with
                                          | Some i => e =? (N.of_nat i) mod 256
                                          | None => ntrans <=? e end)
                                (map N.of_nat (seq 0 256)) in
                      if index_ok then Some (mkSnode final fout ts size) else None
                    else None
                  | None => None end
                | None => None end
              | None => None end
            | None => None end
          | None => None end.

Lemma spec_node_any version st r0 addr : st < 128 ->
  spec_node version (st :: r0) addr =
  match (if st mod 64 =? 0 then match r0 with b :: r => Some ((if b =? 1 then 256 else b), r, 2) | [] => None end
         else Some (st mod 64, r0, 1)) with
  | Some (ntrans, r1, used) =>
    match r1 with
    | sizes :: r2 => spec_any_body version addr (64 <=? st) ntrans used sizes r2
    | [] => None end
  | None => None end.
Proof.
  intros H. unfold spec_node.
  replace (192 <=? st) with false by (symmetry; apply N.leb_gt; lia).
  replace (128 <=? st) with false by (symmetry; apply N.leb_gt; lia).
  reflexivity.
Qed.

Lemma take_nums_ts {A} (g : A -> N) k (ts : list A) r :
  (forall t, In t ts -> g t < 256 ^ N.of_nat k) ->
  take_nums (length ts) k (concat (map (fun x => rev (le_bytes x k)) (map g ts)) ++ r) = Some (map g ts, r).
Proof.
  intros H. rewrite <- (map_length g ts) at 1. apply take_nums_le_bytes.
  apply Forall_forall. intros x Hx. apply in_map_iff in Hx. destruct Hx as [t [<- Ht]]. auto.
Qed.

Lemma codec_any_body version addr (ts : list trans) (final : bool) (fout used tsize os : N) IDXr Fr R R' :
  let ntr := len ts in
  let hi := (2 <=? version) && (FMT_INDEX_THRESHOLD <? ntr) in
  let size := used + 1 + (if hi then 256 else 0) + ntr + ntr * tsize + ntr * os + (if final then os else 0) in
  (length ts <= 256)%nat -> inputs_increasing ts = true ->
  (forall t, In t ts -> t_inp t < 256 /\ (t_addr t = 0 \/ (0 < t_addr t /\ t_addr t < addr))) ->
  tsize <= 8 -> os <= 8 -> (ts <> [] -> 1 <= tsize) ->
  (forall t, In t ts -> dl addr t < 256 ^ tsize) ->
  (forall t, In t ts -> t_out t < 256 ^ os) ->
  IDXr = (if hi then rev (index_table ts 0 (repeatN 255 256)) else []) ->
  (if final then take_be (N.to_nat os) (Fr ++ R) 0 else Some (0, Fr ++ R)) = Some (fout, R') ->
  1 <= addr ->
  spec_any_body version (addr + size - 1) final ntr used (tsize * 16 + os)
    (IDXr ++ map t_inp ts
     ++ concat (map (fun x => rev (le_bytes x (N.to_nat tsize))) (map (dl addr) ts))
     ++ concat (map (fun x => rev (le_bytes x (N.to_nat os))) (map t_out ts))
     ++ Fr ++ R)
  = Some (mkSnode final fout ts size).
Proof.
  intros ntr hi size Hlen Hinc Hts T8 O8 T1 Hd Ho HI HF Ha.
  unfold spec_any_body. cbv zeta.
  assert ((tsize * 16 + os) / 16 = tsize /\ (tsize * 16 + os) mod 16 = os) as [S1 S2] by lia.
  rewrite S1, S2.
  assert (((8 <? tsize) || (8 <? os) || ((tsize =? 0) && negb (ntr =? 0))) = false) as G.
  { destruct (N.ltb_spec 8 tsize); [lia|]. destruct (N.ltb_spec 8 os); [lia|]. cbn [orb].
    destruct (N.eqb_spec tsize 0) as [E|E]; [|reflexivity]. cbn [andb].
    destruct (N.eqb_spec ntr 0) as [E2|E2]; [reflexivity|].
    assert (ts <> []) as NE by (intros ->; apply E2; reflexivity). specialize (T1 NE). lia. }
  rewrite G. fold hi.
  assert (forall X, (if hi then take_n 256 (IDXr ++ X) else Some ([], IDXr ++ X)) = Some (IDXr, X)) as IS.
  { intros X. rewrite HI. destruct hi; [|reflexivity]. apply take_n_app'.
    rewrite rev_length, index_table_length, repeatN_length. reflexivity. }
  rewrite IS. clear IS.
  assert (N.to_nat ntr = length ts) as NL by (subst ntr; unfold len; apply Nat2N.id).
  rewrite NL.
  rewrite (take_n_app' (length ts)) by apply map_length.
  rewrite take_nums_ts by (intros t Ht; rewrite N2Nat.id; auto).
  rewrite take_nums_ts by (intros t Ht; rewrite N2Nat.id; auto).
  rewrite HF.
  fold size.
  destruct (N.ltb_spec (addr + size - 1 + 1) size); [lia|].
  replace (addr + size - 1 + 1 - size) with addr by lia.
  fold (resolve_ addr). rewrite (map_map (dl addr) (resolve_ addr)).
  rewrite (map_ext_in (fun t => resolve_ addr (dl addr t)) (fun t => Some (t_addr t))).
  2:{ intros t Ht. apply resolve_dl. apply Hts. assumption. }
  assert (forallb (fun o : option N => match o with Some _ => true | None => false end)
            (map (fun t : trans => Some (t_addr t)) ts) = true) as FA.
  { apply forallb_forall. intros o Ho'. apply in_map_iff in Ho'. destruct Ho' as [t [<- _]]. reflexivity. }
  rewrite FA. clear FA.
  rewrite combine3_map, map_map. cbn [fst snd].
  rewrite (map_ext (fun t => mkTrans (t_inp t) (t_out t) (t_addr t)) (fun t => t)) by (intros []; reflexivity).
  rewrite map_id.
  assert (negb hi || forallb (fun b : N =>
           match find_index (fun i : N => i =? b) (map t_inp ts) with
           | Some i => nth (N.to_nat b) (rev IDXr) 255 =? N.of_nat i mod 256
           | None => ntr <=? nth (N.to_nat b) (rev IDXr) 255
           end) (map N.of_nat (seq 0 256)) = true) as IO.
  { destruct hi; [|reflexivity]. cbn [negb orb]. rewrite HI, rev_involutive.
    apply index_ok_holds; auto. intros t Ht. apply Hts. assumption. }
  rewrite IO. reflexivity.
Qed.

Lemma existsb_false_all {A} (p : A -> bool) l : existsb p l = false -> forall x, In x l -> p x = false.
Proof.
  intros H x Hx. destruct (p x) eqn:E; [|reflexivity].
  assert (existsb p l = true) by (apply existsb_exists; exists x; auto). congruence.
Qed.

Lemma concat_nil_chunks {A} (l : list A) : concat (map (fun _ => @nil N) l) = [].
Proof. induction l; cbn [map concat app]; auto. Qed.

Lemma codec_any version addr n pre :
  (length (n_trans n) <= 256)%nat -> n_fout n < U64 -> (n_final n = false -> n_fout n = 0) ->
  inputs_increasing (n_trans n) = true ->
  (forall t, In t (n_trans n) ->
     t_inp t < 256 /\ t_out t < U64 /\ (t_addr t = 0 \/ (16 <= t_addr t /\ t_addr t < addr))) ->
  16 <= addr -> addr < U64 -> len pre = addr ->
  let body := concat (any_chunks version addr n) in
  0 < len body /\
  spec_node version (rev (pre ++ body)) (addr + len body - 1)
  = Some (mkSnode (n_final n) (n_fout n) (n_trans n) (len body)).
Proof.
  intros Hlen Hfo Hnf Hinc Hts H16 Ha Hp. cbv zeta.
  pose proof (any_osize_range n) as [O1 O2].
  pose proof (any_tsize_range addr (n_trans n)) as [T1 T2].
  pose proof (any_osize_ge n) as OG. pose proof (any_osize_ge_fout n) as OGF.
  pose proof (any_tsize_ge addr (n_trans n)) as TG.
  unfold any_chunks. cbv zeta.
  assert (any_outs n = false -> n_fout n = 0 /\ forall t, In t (n_trans n) -> t_out t = 0) as AO.
  { unfold any_outs. intros E. apply orb_false_iff in E. destruct E as [E1 E2]. split.
    - destruct (N.eqb_spec (n_fout n) 0); [assumption|discriminate].
    - intros t Ht. pose proof (existsb_false_all _ _ E2 t Ht) as E3. cbv beta in E3.
      destruct (N.eqb_spec (t_out t) 0); [assumption|discriminate]. }
  assert (any_st n < 128 /\ any_st n mod 64 = (if len (n_trans n) <=? 63 then len (n_trans n) else 0)
          /\ (64 <=? any_st n) = n_final n) as [ST1 [ST2 ST3]].
  { unfold any_st. destruct (n_final n); destruct (N.leb_spec (len (n_trans n)) 63); repeat split; try lia. }
  destruct n as [final fout ts]. cbn [n_final n_fout n_trans] in *.
  set (n := mkBnode final fout ts) in *.
  set (tsize := any_tsize addr ts) in *. set (osize := any_osize n) in *.
  set (ao := any_outs n) in *. set (os := if ao then osize else 0).
  set (st := any_st n) in *. set (ntr := len ts) in *.
  change TRANS_INDEX_THRESHOLD with FMT_INDEX_THRESHOLD.
  set (hi := (2 <=? version) && (FMT_INDEX_THRESHOLD <? ntr)).
  set (FO := if ao && final then [le_bytes fout (N.to_nat osize)] else []).
  set (OUTS := if ao then map (fun t => le_bytes (t_out t) (N.to_nat osize)) (rev ts) else []).
  set (DELTAS := map (fun t => le_bytes (dl addr t) (N.to_nat tsize)) (rev ts)).
  set (INPUTS := map (fun t => [t_inp t]) (rev ts)).
  set (IDX := if hi then [index_table ts 0 (repeatN 255 256)] else []).
  set (NB := if st mod 64 =? 0 then [[if ntr =? 256 then 1 else ntr]] else []).
  assert (os <= 8) as OS8 by (subst os; destruct ao; lia).
  assert (NL : N.of_nat (length ts) = ntr) by reflexivity.
  (* final output *)
  assert (len (concat FO) = (if final then os else 0) /\
          exists R', (if final then take_be (N.to_nat os) (rev (concat FO) ++ rev pre) 0
                      else Some (0, rev (concat FO) ++ rev pre)) = Some (fout, R')) as [F1 [R' F2]].
  { subst FO os. destruct ao eqn:EA; cbn [andb].
    - destruct final.
      + cbn [concat]. rewrite app_nil_r. split.
        * unfold len. rewrite le_bytes_length. apply N2Nat.id.
        * eexists. rewrite take_be_le_bytes; [reflexivity|]. rewrite N2Nat.id.
          apply pack_size_fits; assumption.
      + split; [reflexivity|]. eexists. rewrite Hnf by reflexivity. reflexivity.
    - destruct (AO eq_refl) as [-> _]. destruct final; (split; [reflexivity|]); eexists; reflexivity. }
  (* outputs *)
  assert (len (concat OUTS) = ntr * os /\
          rev (concat OUTS) = concat (map (fun x => rev (le_bytes x (N.to_nat os))) (map t_out ts)) /\
          forall t, In t ts -> t_out t < 256 ^ os) as [OU1 [OU2 OU3]].
  { subst OUTS os. destruct ao eqn:EA.
    - split; [|split].
      + unfold len. rewrite length_chunks, rev_length. lia.
      + apply rev_chunks.
      + intros t Ht. apply pack_size_fits; [apply Hts; assumption|apply OG; assumption].
    - destruct (AO eq_refl) as [_ Z]. split; [|split].
      + cbn [concat]. unfold len. cbn [length]. lia.
      + change (N.to_nat 0) with 0%nat. cbn [le_bytes rev]. rewrite map_map, concat_nil_chunks. reflexivity.
      + intros t Ht. rewrite (Z t Ht). reflexivity. }
  (* deltas *)
  assert (len (concat DELTAS) = ntr * tsize /\
          rev (concat DELTAS) = concat (map (fun x => rev (le_bytes x (N.to_nat tsize))) (map (dl addr) ts)) /\
          forall t, In t ts -> dl addr t < 256 ^ tsize) as [DE1 [DE2 DE3]].
  { subst DELTAS. split; [|split].
    - unfold len. rewrite length_chunks, rev_length. lia.
    - apply rev_chunks.
    - intros t Ht. apply pack_size_fits; [apply dl_lt; assumption|apply TG; assumption]. }
  (* inputs *)
  assert (len (concat INPUTS) = ntr /\ rev (concat INPUTS) = map t_inp ts) as [IN1 IN2].
  { subst INPUTS. rewrite concat_singletons. split.
    - unfold len. rewrite map_length, rev_length. assumption.
    - rewrite <- map_rev, rev_involutive. reflexivity. }
  (* index *)
  assert (len (concat IDX) = (if hi then 256 else 0) /\
          rev (concat IDX) = (if hi then rev (index_table ts 0 (repeatN 255 256)) else [])) as [IX1 IX2].
  { subst IDX. destruct hi; [|split; reflexivity]. cbn [concat]. rewrite app_nil_r. split; [|reflexivity].
    unfold len. rewrite index_table_length, repeatN_length. reflexivity. }
  (* count byte *)
  set (cnt := rev (concat NB)).
  assert (forall X,
    (if st mod 64 =? 0
     then match cnt ++ X with b :: r => Some ((if b =? 1 then 256 else b), r, 2) | [] => None end
     else Some (st mod 64, cnt ++ X, 1)) = Some (ntr, X, 1 + len cnt)) as CN.
  { intros X. subst cnt NB. rewrite ST2. unfold len in Hlen.
    destruct (N.leb_spec ntr 63) as [L|L].
    - destruct (N.eqb_spec ntr 0) as [E|E].
      + destruct (N.eqb_spec ntr 256); [lia|]. cbn [concat rev app]. rewrite E. reflexivity.
      + reflexivity.
    - change (0 =? 0) with true. cbv iota. destruct (N.eqb_spec ntr 256) as [E|E].
      + cbn [concat rev app]. rewrite E. reflexivity.
      + cbn [concat rev app]. destruct (N.eqb_spec ntr 1); [lia|]. reflexivity. }
  set (body := concat (FO ++ OUTS ++ DELTAS ++ INPUTS ++ IDX ++ [[tsize * 16 + os]] ++ NB ++ [[st]])).
  assert (len body = 1 + len cnt + 1 + (if hi then 256 else 0) + ntr + ntr * tsize + ntr * os
                     + (if final then os else 0)) as Lb.
  { subst body. rewrite !concat_app, !len_app, F1, OU1, DE1, IN1, IX1. cbn [concat]. rewrite !app_nil_r.
    subst cnt. unfold len. rewrite rev_length. cbn [length]. lia. }
  assert (rev (pre ++ body) = st :: cnt ++ (tsize * 16 + os) :: rev (concat IDX) ++ rev (concat INPUTS)
            ++ rev (concat DELTAS) ++ rev (concat OUTS) ++ rev (concat FO) ++ rev pre) as Rb.
  { subst body cnt. rewrite !concat_app, !rev_app_distr. cbn [concat]. rewrite !app_nil_r.
    cbn [rev app]. rewrite <- !app_assoc. reflexivity. }
  rewrite Rb, Lb. clearbody body. clear Rb Lb body.
  split; [lia|].
  rewrite spec_node_any by assumption.
  rewrite CN, ST3, IX2, IN2, DE2, OU2.
  apply codec_any_body with (R' := R'); auto; try lia.
  intros t Ht. destruct (Hts t Ht) as [A1 [A2 A3]]. split; [assumption|lia].
Qed.

(* ---------- the two top-level statements ---------- *)
Lemma bnode_ok_any_hyps last_addr addr n : bnode_ok last_addr addr n ->
  (length (n_trans n) <= 256)%nat /\
  (forall t, In t (n_trans n) -> t_addr t = 0 \/ t_addr t < addr).
Proof.
  intros [B1 [B2 [B3 [B4 [B5 _]]]]]. split; [assumption|].
  intros t Ht. destruct (B5 t Ht) as [_ [_ [E|E]]]; [left; assumption|right; lia].
Qed.

Theorem compile_total_holds : compile_total_statement.
Proof.
  intros version last_addr addr n V1 V3 B.
  destruct (bnode_ok_any_hyps _ _ _ B) as [A1 A2].
  pose proof (compile_any_eq version addr n A1 A2) as CA.
  destruct B as [B1 [B2 [B3 [B4 [B5 [B6 [B7 [B8 B9]]]]]]]].
  unfold compile_node. destruct (n_trans n) as [|t [|u r]] eqn:E.
  - destruct (n_final n && (n_fout n =? 0)) eqn:F.
    + eexists; reflexivity.
    + eexists; exact CA.
  - destruct (n_final n); [eexists; exact CA|].
    destruct ((t_addr t =? last_addr) && (t_out t =? 0)).
    + eexists; reflexivity.
    + rewrite compile_ot_eq; [eexists; reflexivity|].
      destruct (B5 t (or_introl eq_refl)) as [_ [_ [Q|Q]]]; [left; assumption|right; lia].
  - eexists; exact CA.
Qed.

Theorem codec_holds : codec_statement.
Proof.
  intros version last_addr addr n cs pre V1 V3 Hp B H.
  destruct (bnode_ok_any_hyps _ _ _ B) as [A1 A2].
  pose proof (compile_any_eq version addr n A1 A2) as CA.
  destruct B as [B1 [B2 [B3 [B4 [B5 [B6 [B7 [B8 B9]]]]]]]].
  pose proof (codec_any version addr n pre B1 B2 B3 B4 B5 B7 B8 Hp) as ANY. cbv zeta in ANY.
  assert (compile_any version addr n = Ok cs ->
          0 < len (concat cs) /\
          spec_node version (rev (pre ++ concat cs)) (addr + len (concat cs) - 1)
          = Some (mkSnode (n_final n) (n_fout n) (n_trans n) (len (concat cs)))) as ANY'.
  { intros H'. rewrite CA in H'. inversion H'; subst cs. exact ANY. }
  cbv zeta. unfold compile_node in H.
  destruct (n_trans n) as [|t [|u r]] eqn:E.
  - destruct (n_final n && (n_fout n =? 0)) eqn:F.
    + exfalso. apply B9. apply andb_true_iff in F. destruct F as [F1 F2]. apply N.eqb_eq in F2. auto.
    + auto.
  - destruct (n_final n) eqn:F; [auto|].
    destruct (B5 t (or_introl eq_refl)) as [I1 [I2 I3]].
    rewrite (B3 eq_refl).
    destruct ((t_addr t =? last_addr) && (t_out t =? 0)) eqn:G.
    + apply andb_true_iff in G. destruct G as [G1 G2]. apply N.eqb_eq in G1, G2.
      pose proof (B6 t (or_introl eq_refl) G1) as G3.
      assert (mkTrans (t_inp t) 0 (addr - 1) = t) as Et
        by (destruct t as [ti to ta]; cbn [t_inp t_out t_addr] in *; f_equal; lia).
      pose proof (codec_otn version addr (t_inp t) pre cs I1 Hp B7 H) as Q.
      rewrite Et in Q. exact Q.
    + rewrite compile_ot_eq in H by (destruct I3; [left; assumption|right; lia]).
      inversion H; subst cs. apply codec_ot; auto. destruct I3; [left; assumption|right; lia].
  - auto.
Qed.

Print Assumptions codec_holds.
Print Assumptions compile_total_holds.
