(* ReaderProofs.v — the point-lookup side of Reader.v (get, contains_key, get_key_into)
   computes lookup / spec_get_key on the language of the graph it walks. *)
Require Import FstV.Base FstV.Loop FstV.Node FstV.Reader FstV.GraphSem FstV.Fst FstV.proofs.GraphProofs.
From Coq Require Import Sorted Lia ZifyN ZifyBool ZifyNat.

(* ---------- definitions used by the statements ---------- *)
(* values strictly increase along the list (i.e. in key order, for a sorted map) *)
Fixpoint values_increasing (m : kmap) : bool :=
  match m with
  | [] => true
  | (_, v) :: r => match r with [] => true | (_, w) :: _ => (v <? w) && values_increasing r end
  end.

(* b is reachable from a by following transitions *)
Inductive reach (g : graph) : N -> N -> Prop :=
| reach_refl a : reach g a a
| reach_step a n t b : gget g a = Some n -> In t (g_trans n) -> reach g (t_addr t) b -> reach g a b.

(* canonical outputs, restricted to the nodes reachable from [root] *)
Definition canonical_from (g : graph) (root : N) : Prop :=
  forall a n t, reach g root a -> gget g a = Some n -> In t (g_trans n) ->
    min_value (L g (t_addr t)) = Some 0.

(* the canonical presentation of a graph through Reader.v's node interface *)
Definition view_of_graph (g : graph) (a : N) : res nview :=
  match gget g a with
  | Some n => Ok (mkView a (g_final n) (g_fout n) (g_trans n) (fun b => Ok (find_pos b (g_trans n) 0)))
  | None => Panic
  end.

Lemma view_of_graph_views g : views g (view_of_graph g).
Proof.
  intros a n Hn. unfold view_of_graph. rewrite Hn. eexists. split; [reflexivity|]. cbn. auto 10.
Qed.

Lemma canonical_outputs_from g root : canonical_outputs g -> canonical_from g root.
Proof.
  intros H a n t _ Hn Hin. apply (H a n t); auto.
  intros ->. cbn in Hn. inversion Hn; subst. destruct Hin.
Qed.

Lemma canonical_from_step g a n t :
  canonical_from g a -> gget g a = Some n -> In t (g_trans n) -> canonical_from g (t_addr t).
Proof.
  intros H Hn Hin b n' t' Hr. apply H. eapply reach_step; eauto.
Qed.

(* ---------- values_increasing ---------- *)
Lemma values_increasing_Sorted m : values_increasing m = true <-> Sorted N.lt (map snd m).
Proof.
  induction m as [|[k v] m IH]; [split; [constructor|reflexivity]|].
  cbn [values_increasing]. destruct m as [|[k' w] m].
  - split; [repeat constructor|reflexivity].
  - rewrite andb_true_iff, IH. cbn [map snd]. split.
    + intros [H1 H2]. constructor; [assumption|]. constructor. lia.
    + intros H. inversion H as [|? ? H2 H3]; subst. inversion H3; subst. split; [lia|assumption].
Qed.

Lemma values_increasing_SS m : values_increasing m = true <-> StronglySorted N.lt (map snd m).
Proof.
  rewrite values_increasing_Sorted. split.
  - apply Sorted_StronglySorted. intros a b c; lia.
  - apply StronglySorted_Sorted.
Qed.

(* ---------- spec_get_key ---------- *)
Lemma spec_get_key_app m1 m2 v :
  spec_get_key (m1 ++ m2) v = match spec_get_key m1 v with Some k => Some k | None => spec_get_key m2 v end.
Proof.
  induction m1 as [|[k w] m1 IH]; cbn [spec_get_key app]; [reflexivity|].
  destruct (w =? v); [reflexivity|apply IH].
Qed.

Lemma spec_get_key_none m v : (forall kv, In kv m -> snd kv <> v) -> spec_get_key m v = None.
Proof.
  induction m as [|[k w] m IH]; intros H; cbn [spec_get_key]; [reflexivity|].
  destruct (N.eqb_spec w v) as [E|E].
  - exfalso. apply (H (k, w)); cbn; auto.
  - apply IH. intros; apply H; cbn; auto.
Qed.

Lemma spec_get_key_In_1 m v k : spec_get_key m v = Some k -> In (k, v) m.
Proof.
  induction m as [|[k' w] m IH]; cbn [spec_get_key]; [discriminate|].
  destruct (N.eqb_spec w v) as [E|E].
  - intros H; inversion H; subst. cbn; auto.
  - intros H. right. auto.
Qed.

Lemma spec_get_key_None_iff m v : spec_get_key m v = None <-> forall k, ~ In (k, v) m.
Proof.
  split.
  - induction m as [|[k' w] m IH]; cbn [spec_get_key]; [intros _ k []|].
    destruct (N.eqb_spec w v) as [E|E]; [discriminate|].
    intros H k [Hk|Hk]; [inversion Hk; subst; congruence|]. exact (IH H k Hk).
  - intros H. apply spec_get_key_none. intros [k w] Hin E. cbn in E. subst. exact (H k Hin).
Qed.

(* when values strictly increase, get_key's answer is membership *)
Lemma spec_get_key_In m v k : values_increasing m = true -> (spec_get_key m v = Some k <-> In (k, v) m).
Proof.
  intros Hinc. split; [apply spec_get_key_In_1|].
  apply values_increasing_SS in Hinc.
  induction m as [|[k' w] m IH]; cbn [spec_get_key In]; [intros []|].
  cbn [map snd] in Hinc. inversion Hinc as [|? ? Hs Hf]; subst. intros [H|H].
  - inversion H; subst. now rewrite N.eqb_refl.
  - destruct (N.eqb_spec w v) as [E|E]; [|auto].
    subst. exfalso. rewrite Forall_forall in Hf.
    assert (v < v); [|lia]. apply Hf. apply in_map_iff. exists (k, v). split; [reflexivity|assumption].
Qed.

Lemma spec_get_key_shift t l v :
  spec_get_key (shift t l) v =
  if t_out t <=? v then option_map (cons (t_inp t)) (spec_get_key l (v - t_out t)) else None.
Proof.
  induction l as [|[k w] l IH]; cbn [shift map spec_get_key fst snd].
  - destruct (t_out t <=? v); reflexivity.
  - fold (shift t l). rewrite IH.
    destruct (N.leb_spec (t_out t) v) as [Hle|Hgt].
    + destruct (N.eqb_spec (t_out t + w) v), (N.eqb_spec w (v - t_out t)); try lia; reflexivity.
    + destruct (N.eqb_spec (t_out t + w) v); [lia|reflexivity].
Qed.

Lemma fold_min_ge l : forall v, Forall (fun x => v < x) l -> fold_left N.min l v = v.
Proof.
  induction l as [|x l IH]; intros v H; cbn [fold_left]; [reflexivity|].
  inversion H; subst. rewrite N.min_l by lia. auto.
Qed.

Lemma min_first (m : kmap) :
  StronglySorted N.lt (map snd m) -> min_value m = Some 0 -> exists k0 rest, m = (k0, 0) :: rest.
Proof.
  destruct m as [|[k v] r]; cbn [min_value map snd]; [discriminate|].
  intros H E. inversion H; subst. rewrite fold_min_ge in E by assumption.
  inversion E; subst. eauto.
Qed.

(* ---------- get / contains ---------- *)
Section Reader.
Variable g : graph.
Variable node_at : N -> res nview.
Hypothesis WF : wf_graph g.
Hypothesis V : views g node_at.

Lemma get_from_correct k : forall a n nd out,
  Forall (fun b => b < 256) k -> gget g a = Some n -> node_at a = Ok nd ->
  get_from node_at nd k out = Ok (option_map (N.add out) (lookup (L g a) k)).
Proof.
  induction k as [|b k IH]; intros a n nd out HF Hn Hnd;
    destruct (V a n Hn) as [v [Hv [_ [Hf [Hfo [Htr Hfind]]]]]];
    rewrite Hnd in Hv; inversion Hv; subst v; clear Hv.
  - cbn [get_from]. rewrite (L_lookup_nil g WF a n Hn), Hf, Hfo. destruct (g_final n); reflexivity.
  - cbn [get_from]. inversion HF as [|? ? Hb HF']; subst. rewrite (Hfind b Hb). cbn [bind].
    rewrite (L_lookup_cons g WF a n b k Hn).
    pose proof (find_pos_spec b (g_trans n) 0) as P.
    destruct (find_pos b (g_trans n) 0) as [j|].
    + destruct P as [idx [t [Hj [Hnth [Hbt Hft]]]]]. rewrite Hft, Htr.
      replace (N.to_nat j) with idx by lia. rewrite Hnth.
      destruct (WF a n Hn) as [_ Ht]. destruct (Ht t (nth_error_In _ _ Hnth)) as [_ [_ [n' Hn']]].
      destruct (V _ n' Hn') as [v' [Hv' _]]. rewrite Hv'. cbn [bind].
      rewrite (IH (t_addr t) n' v' (out + t_out t) HF' Hn' Hv').
      destruct (lookup (L g (t_addr t)) k); cbn [option_map]; [|reflexivity].
      f_equal; f_equal; lia.
    + rewrite P. reflexivity.
Qed.

Lemma contains_from_correct k : forall a n nd,
  Forall (fun b => b < 256) k -> gget g a = Some n -> node_at a = Ok nd ->
  contains_from node_at nd k = Ok (match lookup (L g a) k with Some _ => true | None => false end).
Proof.
  induction k as [|b k IH]; intros a n nd HF Hn Hnd;
    destruct (V a n Hn) as [v [Hv [_ [Hf [Hfo [Htr Hfind]]]]]];
    rewrite Hnd in Hv; inversion Hv; subst v; clear Hv.
  - cbn [contains_from]. rewrite (L_lookup_nil g WF a n Hn), Hf. destruct (g_final n); reflexivity.
  - cbn [contains_from]. inversion HF as [|? ? Hb HF']; subst. rewrite (Hfind b Hb). cbn [bind].
    rewrite (L_lookup_cons g WF a n b k Hn).
    pose proof (find_pos_spec b (g_trans n) 0) as P.
    destruct (find_pos b (g_trans n) 0) as [j|].
    + destruct P as [idx [t [Hj [Hnth [Hbt Hft]]]]]. rewrite Hft, Htr.
      replace (N.to_nat j) with idx by lia. rewrite Hnth.
      destruct (WF a n Hn) as [_ Ht]. destruct (Ht t (nth_error_In _ _ Hnth)) as [_ [_ [n' Hn']]].
      destruct (V _ n' Hn') as [v' [Hv' _]]. rewrite Hv'. cbn [bind].
      rewrite (IH (t_addr t) n' v' HF' Hn' Hv').
      destruct (lookup (L g (t_addr t)) k); reflexivity.
    + rewrite P. reflexivity.
Qed.

Theorem get_correct root : (exists r, gget g root = Some r) ->
  forall k, Forall (fun b => b < 256) k -> fst_get node_at root k = Ok (lookup (L g root) k).
Proof.
  intros [r Hr] k HF. unfold fst_get, Reader.root. destruct (V root r Hr) as [v [Hv _]].
  rewrite Hv. cbn [bind]. rewrite (get_from_correct k root r v 0 HF Hr Hv).
  destruct (lookup (L g root) k); cbn [option_map]; [|reflexivity]. f_equal; f_equal; lia.
Qed.

Theorem contains_correct root : (exists r, gget g root = Some r) ->
  forall k, Forall (fun b => b < 256) k ->
  fst_contains node_at root k = Ok (match lookup (L g root) k with Some _ => true | None => false end).
Proof.
  intros [r Hr] k HF. unfold fst_contains, Reader.root. destruct (V root r Hr) as [v [Hv _]].
  rewrite Hv. cbn [bind]. exact (contains_from_correct k root r v HF Hr Hv).
Qed.

Lemma lookup_None_iff (m : kmap) k : lookup m k = None <-> ~ In k (keys_of m).
Proof.
  induction m as [|[k' v] m IH]; cbn [lookup keys_of map fst In]; [tauto|].
  destruct (key_eqb k k') eqn:E.
  - apply key_eqb_eq in E. split; [discriminate|]. intros H. exfalso. apply H. now left.
  - fold (keys_of m). rewrite IH. split; [|tauto]. intros H [H'|H']; [|tauto].
    subst. now rewrite key_eqb_refl in E.
Qed.

(* the same in terms of membership: the language has pairwise distinct keys *)
Theorem get_contains_membership root : (exists r, gget g root = Some r) ->
  forall k, Forall (fun b => b < 256) k ->
  (forall v, fst_get node_at root k = Ok (Some v) <-> In (k, v) (L g root)) /\
  (fst_get node_at root k = Ok None <-> ~ In k (keys_of (L g root))) /\
  (fst_contains node_at root k = Ok true <-> In k (keys_of (L g root))) /\
  (fst_contains node_at root k = Ok false <-> ~ In k (keys_of (L g root))).
Proof.
  intros Hr k HF. rewrite (get_correct root Hr k HF), (contains_correct root Hr k HF).
  destruct Hr as [r Hr].
  repeat split.
  - intros E. apply (L_lookup_In g WF root r k v Hr). congruence.
  - intros E. apply (L_lookup_In g WF root r k v Hr) in E. congruence.
  - intros E. apply lookup_None_iff. congruence.
  - intros E. apply lookup_None_iff in E. congruence.
  - destruct (lookup (L g root) k) eqn:E; [|discriminate]. intros _.
    apply lookup_In_1 in E. apply in_map_iff. exists (k, n). auto.
  - intros E. destruct (lookup (L g root) k) eqn:E'; [reflexivity|]. apply lookup_None_iff in E'. contradiction.
  - destruct (lookup (L g root) k) eqn:E; [discriminate|]. intros _. now apply lookup_None_iff.
  - intros E. apply lookup_None_iff in E. now rewrite E.
Qed.

(* ---------- get_key_into ---------- *)
Definition blocks (ts : list trans) : kmap := flat_map (fun t => shift t (L g (t_addr t))) ts.

Definition starts_zero (t : trans) : Prop := exists k0 rest, L g (t_addr t) = (k0, 0) :: rest.

Lemma blocks_cons t r : blocks (t :: r) = shift t (L g (t_addr t)) ++ blocks r.
Proof. reflexivity. Qed.

Lemma first_in_blocks r t : In t r -> starts_zero t -> In (t_out t) (map snd (blocks r)).
Proof.
  intros Hin [k0 [rest E]]. apply in_map_iff. exists (t_inp t :: k0, t_out t + 0). split; [cbn; lia|].
  unfold blocks. apply in_flat_map. exists t. split; [assumption|]. rewrite E. cbn. auto.
Qed.

Lemma shift_values_ge t l kv : In kv (shift t l) -> t_out t <= snd kv.
Proof. intros H. apply in_map_iff in H. destruct H as [kv' [<- _]]. cbn. lia. Qed.

(* the transition picked by take_while(out <= v).last() is the only block that can hold v *)
Lemma last_le_spec v ts : forall acc,
  StronglySorted N.lt (map snd (blocks ts)) -> (forall t, In t ts -> starts_zero t) ->
  (exists t, In t ts /\ last_le ts v acc = Some t /\ t_out t <= v /\
             spec_get_key (blocks ts) v = option_map (cons (t_inp t)) (spec_get_key (L g (t_addr t)) (v - t_out t)))
  \/ (last_le ts v acc = acc /\ spec_get_key (blocks ts) v = None).
Proof.
  induction ts as [|t r IH]; intros acc HS HZ; [right; split; reflexivity|].
  rewrite blocks_cons in *. rewrite map_app in HS. apply SS_app_inv in HS. destruct HS as [S1 [S2 Hc]].
  cbn [last_le]. rewrite spec_get_key_app.
  destruct (t_out t <=? v) eqn:E.
  - apply N.leb_le in E. assert (E' : (t_out t <=? v) = true) by now apply N.leb_le.
    left. destruct (IH (Some t) S2 (fun t' H => HZ t' (or_intror H))) as [[t' [Hin [Hl [Hle' Hs]]]]|[Hl Hs]].
    + exists t'. repeat split; [right; assumption|assumption|assumption|].
      rewrite (spec_get_key_none (shift t (L g (t_addr t)))); [assumption|].
      intros kv Hkv. assert (snd kv < t_out t'); [|lia].
      apply Hc; [now apply in_map|]. apply first_in_blocks; [assumption|]. apply HZ. now right.
    + exists t. repeat split; [left; reflexivity|assumption|assumption|].
      rewrite spec_get_key_shift, E', Hs.
      destruct (spec_get_key (L g (t_addr t)) (v - t_out t)); reflexivity.
  - apply N.leb_gt in E. right. split; [reflexivity|].
    rewrite (spec_get_key_none (shift t (L g (t_addr t)))).
    + apply spec_get_key_none. intros kv Hkv. assert (t_out t < snd kv); [|lia].
      apply Hc; [|now apply in_map].
      apply in_map_iff. destruct (HZ t (or_introl eq_refl)) as [k0 [rest Ez]].
      exists (t_inp t :: k0, t_out t + 0). split; [cbn; lia|]. rewrite Ez. cbn. auto.
    + intros kv Hkv. apply shift_values_ge in Hkv. lia.
Qed.

Lemma L_values_split a n : gget g a = Some n ->
  map snd (L g a) = (if g_final n then [g_fout n] else []) ++ map snd (blocks (g_trans n)).
Proof.
  intros Hn. rewrite (L_unfold g WF a n Hn), map_app. destruct (g_final n); reflexivity.
Qed.

Lemma sub_values_SS a n t : gget g a = Some n -> In t (g_trans n) ->
  StronglySorted N.lt (map snd (L g a)) -> StronglySorted N.lt (map snd (L g (t_addr t))).
Proof.
  intros Hn Hin HS. rewrite (L_values_split a n Hn) in HS.
  apply SS_app_inv in HS. destruct HS as [_ [HS _]].
  destruct (in_split _ _ Hin) as [l1 [l2 E]]. rewrite E in HS. unfold blocks in HS.
  rewrite flat_map_app in HS. cbn [flat_map] in HS. rewrite !map_app in HS.
  apply SS_app_inv in HS. destruct HS as [_ [HS _]].
  apply SS_app_inv in HS. destruct HS as [HS _].
  unfold shift in HS. rewrite map_map in HS. cbn [snd] in HS.
  rewrite <- (map_map snd (N.add (t_out t))) in HS.
  apply (SS_map_inv N.lt N.lt (N.add (t_out t))); [intros; lia|assumption].
Qed.

Lemma L_spec_split a n v : gget g a = Some n ->
  spec_get_key (L g a) v =
  if g_final n && (g_fout n =? v) then Some [] else spec_get_key (blocks (g_trans n)) v.
Proof.
  intros Hn. rewrite (L_unfold g WF a n Hn), spec_get_key_app.
  destruct (g_final n); cbn [spec_get_key andb app]; [destruct (g_fout n =? v)|]; reflexivity.
Qed.

(* one node: what gk_step's tests mean for the specification *)
Lemma gk_node a n v : gget g a = Some n ->
  StronglySorted N.lt (map snd (L g a)) -> (forall t, In t (g_trans n) -> starts_zero t) ->
  if g_final n && (v =? g_fout n) then spec_get_key (L g a) v = Some []
  else match last_le (g_trans n) v None with
       | None => spec_get_key (L g a) v = None
       | Some t => In t (g_trans n) /\ t_out t <= v /\
                   spec_get_key (L g a) v = option_map (cons (t_inp t)) (spec_get_key (L g (t_addr t)) (v - t_out t))
       end.
Proof.
  intros Hn HS HZ. pose proof HS as HS'. rewrite (L_values_split a n Hn) in HS'.
  apply SS_app_inv in HS'. destruct HS' as [_ [HS' _]].
  rewrite (L_spec_split a n v Hn), (N.eqb_sym v).
  destruct (g_final n && (g_fout n =? v)); [reflexivity|].
  destruct (last_le_spec v (g_trans n) None HS' HZ) as [[t [Hin [Hl [Hle Hs]]]]|[Hl Hs]]; rewrite Hl; auto.
Qed.

Lemma gk_iter f : forall a n nd v kr,
  (N.to_nat a < f)%nat -> gget g a = Some n -> node_at a = Ok nd ->
  StronglySorted N.lt (map snd (L g a)) -> canonical_from g a ->
  exists found ks, iter (gk_step node_at) f (nd, v, kr) = inr (Ok (found, ks)) /\
    match spec_get_key (L g a) v with
    | Some k => found = true /\ ks = rev kr ++ k
    | None => found = false
    end.
Proof.
  induction f as [|f IH]; intros a n nd v kr Hlt Hn Hnd HS HC; [lia|].
  destruct (V a n Hn) as [vw [Hv [_ [Hf [Hfo [Htr Hfind]]]]]].
  rewrite Hnd in Hv; inversion Hv; subst vw; clear Hv.
  assert (HZ : forall t, In t (g_trans n) -> starts_zero t).
  { intros t Hin. apply min_first.
    - eapply sub_values_SS; eauto.
    - apply (HC a n t); [constructor|assumption|assumption]. }
  pose proof (gk_node a n v Hn HS HZ) as P.
  cbn [iter]. unfold gk_step at 1. rewrite Hf, Hfo, Htr.
  destruct (g_final n && (v =? g_fout n)).
  - exists true, (rev kr). split; [reflexivity|]. rewrite P. split; [reflexivity|]. now rewrite app_nil_r.
  - destruct (last_le (g_trans n) v None) as [t|].
    + destruct P as [Hin [Hle Hs]].
      destruct (WF a n Hn) as [_ Ht]. destruct (Ht t Hin) as [_ [Hlt' [n' Hn']]].
      destruct (V _ n' Hn') as [v' [Hv' _]]. rewrite Hv'.
      destruct (IH (t_addr t) n' v' (v - t_out t) (t_inp t :: kr) ltac:(lia) Hn' Hv'
                  (sub_values_SS a n t Hn Hin HS) (canonical_from_step g a n t HC Hn Hin))
        as [found [ks [Hi Hr]]].
      exists found, ks. split; [exact Hi|]. rewrite Hs.
      destruct (spec_get_key (L g (t_addr t)) (v - t_out t)); cbn [option_map]; [|assumption].
      destruct Hr as [-> ->]. split; [reflexivity|]. cbn [rev]. now rewrite <- app_assoc.
    + exists false, (rev kr). split; [reflexivity|]. now rewrite P.
Qed.

Lemma fuel_bound root : root < 2 ^ 64 -> (S (N.to_nat root) <= 2 ^ psize FUEL)%nat.
Proof.
  intros H. assert (E : psize FUEL = N.to_nat 64) by (vm_compute; reflexivity).
  rewrite E. change 2%nat with (N.to_nat 2). rewrite <- N2Nat.inj_pow. lia.
Qed.

(* get_key_into never panics; it answers true exactly when some key has value v, and then the
   bytes appended are that key (when it answers false the appended bytes are unspecified) *)
Theorem get_key_into_spec root v : (exists r, gget g root = Some r) ->
  canonical_from g root -> root < 2 ^ 64 -> values_increasing (L g root) = true ->
  exists ks, get_key_into node_at root v =
             Ok (match spec_get_key (L g root) v with Some _ => true | None => false end, ks) /\
             forall k, spec_get_key (L g root) v = Some k -> ks = k.
Proof.
  intros [r Hr] HC Hroot Hinc. apply values_increasing_SS in Hinc.
  destruct (V root r Hr) as [nd [Hnd _]].
  destruct (gk_iter (S (N.to_nat root)) root r nd v [] ltac:(lia) Hr Hnd Hinc HC) as [found [ks [Hi Hs]]].
  unfold get_key_into, Reader.root. rewrite Hnd. cbn [bind].
  rewrite (loop_complete (gk_step node_at) FUEL _ Hi (fuel_bound root Hroot)).
  exists ks. destruct (spec_get_key (L g root) v) as [k|].
  - destruct Hs as [-> ->]. split; [reflexivity|]. intros k' E. inversion E; reflexivity.
  - subst found. split; [reflexivity|discriminate].
Qed.

Theorem get_key_correct' root v : (exists r, gget g root = Some r) ->
  canonical_from g root -> root < 2 ^ 64 -> values_increasing (L g root) = true ->
  get_key node_at root v = Ok (spec_get_key (L g root) v).
Proof.
  intros Hr HC Hroot Hinc. destruct (get_key_into_spec root v Hr HC Hroot Hinc) as [ks [E Hk]].
  unfold get_key. rewrite E. cbn [bind fst snd].
  destruct (spec_get_key (L g root) v) as [k|]; [|reflexivity]. now rewrite (Hk k eq_refl).
Qed.

Theorem get_key_into_correct' root v : (exists r, gget g root = Some r) ->
  canonical_from g root -> root < 2 ^ 64 -> values_increasing (L g root) = true ->
  forall k, get_key_into node_at root v = Ok (true, k) <-> spec_get_key (L g root) v = Some k.
Proof.
  intros Hr HC Hroot Hinc k. destruct (get_key_into_spec root v Hr HC Hroot Hinc) as [ks [E Hk]].
  rewrite E. destruct (spec_get_key (L g root) v) as [k'|].
  - rewrite (Hk k' eq_refl). split; intros H; inversion H; reflexivity.
  - split; discriminate.
Qed.

(* the same under the global hypothesis of GraphSem.v *)
Theorem get_key_correct root v : (exists r, gget g root = Some r) ->
  canonical_outputs g -> root < 2 ^ 64 -> values_increasing (L g root) = true ->
  get_key node_at root v = Ok (spec_get_key (L g root) v).
Proof. intros Hr HC. apply get_key_correct'; [assumption|]. now apply canonical_outputs_from. Qed.

Theorem get_key_into_correct root v : (exists r, gget g root = Some r) ->
  canonical_outputs g -> root < 2 ^ 64 -> values_increasing (L g root) = true ->
  forall k, get_key_into node_at root v = Ok (true, k) <-> spec_get_key (L g root) v = Some k.
Proof. intros Hr HC. apply get_key_into_correct'; [assumption|]. now apply canonical_outputs_from. Qed.

Theorem get_key_into_total root v : (exists r, gget g root = Some r) ->
  canonical_outputs g -> root < 2 ^ 64 -> values_increasing (L g root) = true ->
  exists ks, get_key_into node_at root v =
             Ok (match spec_get_key (L g root) v with Some _ => true | None => false end, ks).
Proof.
  intros Hr HC Hroot Hinc.
  destruct (get_key_into_spec root v Hr (canonical_outputs_from g root HC) Hroot Hinc) as [ks [E _]]. eauto.
Qed.

(* in terms of membership *)
Theorem get_key_membership root v : (exists r, gget g root = Some r) ->
  canonical_outputs g -> root < 2 ^ 64 -> values_increasing (L g root) = true ->
  (forall k, In (k, v) (L g root) ->
     get_key node_at root v = Ok (Some k) /\ get_key_into node_at root v = Ok (true, k)) /\
  ((forall k, ~ In (k, v) (L g root)) ->
     get_key node_at root v = Ok None /\ exists ks, get_key_into node_at root v = Ok (false, ks)).
Proof.
  intros Hr HC Hroot Hinc. split.
  - intros k Hin. apply (spec_get_key_In _ _ _ Hinc) in Hin. split.
    + rewrite (get_key_correct root v Hr HC Hroot Hinc). now rewrite Hin.
    + now apply (get_key_into_correct root v Hr HC Hroot Hinc).
  - intros Hno. apply spec_get_key_None_iff in Hno. split.
    + rewrite (get_key_correct root v Hr HC Hroot Hinc). now rewrite Hno.
    + destruct (get_key_into_total root v Hr HC Hroot Hinc) as [ks E]. rewrite Hno in E. eauto.
Qed.

End Reader.

(* ---------- a concrete instance: the map {"a" -> 5, "ab" -> 7, "b" -> 9} ---------- *)
(* address 2 (root): a/5 -> 1, b/9 -> 0;  address 1: final, b/2 -> 0;  address 0: the empty final node *)
Definition ex_graph : graph := fun a =>
  if a =? 1 then Some (mkG true 0 [mkTrans 98 2 0])
  else if a =? 2 then Some (mkG false 0 [mkTrans 97 5 1; mkTrans 98 9 0])
  else None.
Definition ex_root : N := 2.

Lemma ex_cases a n : gget ex_graph a = Some n ->
  (a = 0 /\ n = g_empty_final) \/ (a = 1 /\ n = mkG true 0 [mkTrans 98 2 0]) \/
  (a = 2 /\ n = mkG false 0 [mkTrans 97 5 1; mkTrans 98 9 0]).
Proof.
  unfold gget, ex_graph.
  destruct (N.eqb_spec a 0), (N.eqb_spec a 1), (N.eqb_spec a 2); intros H; inversion H; auto.
Qed.

Lemma ex_wf : wf_graph ex_graph.
Proof.
  intros a n H. destruct (ex_cases a n H) as [[-> ->]|[[-> ->]|[-> ->]]]; (split; [reflexivity|]); cbn [g_trans].
  - intros t [].
  - intros t [<-|[]]. cbn. repeat split; try lia. eexists; reflexivity.
  - intros t [<-|[<-|[]]]; cbn; (repeat split; try lia); eexists; reflexivity.
Qed.

Lemma ex_L : L ex_graph ex_root = [([97], 5); ([97; 98], 7); ([98], 9)].
Proof. vm_compute. reflexivity. Qed.

Lemma ex_canonical : canonical_outputs ex_graph.
Proof.
  intros a n t Ha H Hin. destruct (ex_cases a n H) as [[-> ->]|[[-> ->]|[-> ->]]]; cbn [g_trans] in Hin.
  - destruct Hin.
  - destruct Hin as [<-|[]]. vm_compute. reflexivity.
  - destruct Hin as [<-|[<-|[]]]; vm_compute; reflexivity.
Qed.
