(* BuilderMinimal.v — C12, language level: in a file built without evicting a cache entry, distinct
   nodes have distinct (weighted) right languages; every node is reachable from the root and has
   a non-empty language; for sets, the nodes are in bijection with the residual languages of the
   key set (other than the empty one and {""}), i.e. the graph is the minimal acyclic DFA. *)
Require Import FstV.Base FstV.Pack FstV.Node FstV.Registry FstV.Builder FstV.Reader FstV.GraphSem FstV.Format
               FstV.CodecSpec FstV.Fst.
Require Import FstV.proofs.BuilderInv FstV.proofs.BuilderGraphLemmas FstV.proofs.BuilderSpecLemmas
               FstV.proofs.BuilderProofs1 FstV.proofs.BuilderProofs2
               FstV.proofs.BuilderProofs5
               FstV.proofs.BuilderGraphFacts FstV.proofs.StreamGraphLemmas FstV.proofs.GraphProofs.
Require Import Lia ZifyN ZifyBool ZifyNat.

(* ---------- equal languages force equal nodes ---------- *)
Definition hdb (x : key * N) : option N := match fst x with [] => None | c :: _ => Some c end.
Definition block (cl : N -> kmap) (t : trans) : kmap := map (cons_tr (t_inp t) (t_out t)) (cl (t_addr t)).

Lemma has0_nonempty l : has0 l -> l <> [].
Proof. intros (k & H) ->. destruct H. Qed.

Lemma block_hdb cl t : Forall (fun x => hdb x = Some (t_inp t)) (block cl t).
Proof. unfold block. apply Forall_map. apply Forall_forall. intros [k v] _. reflexivity. Qed.

Lemma blocks_hdb cl ts : Forall (fun x => exists t, In t ts /\ hdb x = Some (t_inp t)) (flat_map (block cl) ts).
Proof.
  induction ts as [|t ts IH]; cbn [flat_map]; [constructor|]. apply Forall_app. split.
  - eapply Forall_impl; [|apply block_hdb]. intros x Hx. exists t. split; [left; reflexivity|exact Hx].
  - eapply Forall_impl; [|exact IH]. intros x (t' & Ht' & Hx). exists t'. split; [right; exact Ht'|exact Hx].
Qed.

Lemma split_by {A} (P : A -> Prop) : forall l1 l2 r1 r2 : list A,
  Forall P l1 -> Forall P l2 -> Forall (fun x => ~ P x) r1 -> Forall (fun x => ~ P x) r2 ->
  l1 ++ r1 = l2 ++ r2 -> l1 = l2 /\ r1 = r2.
Proof.
  induction l1 as [|x l1 IH]; intros l2 r1 r2 H1 H2 H3 H4 E.
  - destruct l2 as [|y l2]; [auto|]. cbn [app] in E. subst r1. inversion H3; subst. inversion H2; subst. contradiction.
  - destruct l2 as [|y l2].
    + cbn [app] in E. subst r2. inversion H4; subst. inversion H1; subst. contradiction.
    + cbn [app] in E. inversion E; subst. inversion H1; subst. inversion H2; subst.
      destruct (IH l2 r1 r2) as (-> & ->); auto.
Qed.

Lemma map_cons_tr_inj i o l1 l2 : map (cons_tr i o) l1 = map (cons_tr i o) l2 -> l1 = l2.
Proof.
  revert l2; induction l1 as [|[k v] l1 IH]; intros [|[k' v'] l2] H; try discriminate; [reflexivity|].
  cbn [map] in H. inversion H as [[H1 H2 H3]]. f_equal; [|apply IH; exact H3].
  f_equal. lia.
Qed.

Lemma blocks_inj cl : forall ts1 ts2,
  inputs_increasing ts1 = true -> inputs_increasing ts2 = true ->
  (forall t, In t ts1 -> has0 (cl (t_addr t))) -> (forall t, In t ts2 -> has0 (cl (t_addr t))) ->
  (forall t1 t2, In t1 ts1 -> In t2 ts2 -> cl (t_addr t1) = cl (t_addr t2) -> t_addr t1 = t_addr t2) ->
  flat_map (block cl) ts1 = flat_map (block cl) ts2 -> ts1 = ts2.
Proof.
  induction ts1 as [|t1 r1 IH]; intros ts2 I1 I2 Z1 Z2 Hinj E.
  - destruct ts2 as [|t2 r2]; [reflexivity|]. cbn [flat_map] in E.
    pose proof (has0_nonempty _ (Z2 t2 (or_introl eq_refl))) as Hne. unfold block in E.
    destruct (cl (t_addr t2)); [congruence|discriminate].
  - destruct ts2 as [|t2 r2].
    + cbn [flat_map] in E. pose proof (has0_nonempty _ (Z1 t1 (or_introl eq_refl))) as Hne. unfold block in E.
      destruct (cl (t_addr t1)); [congruence|discriminate].
    + cbn [flat_map] in E.
      pose proof (Z1 t1 (or_introl eq_refl)) as Hz1. pose proof (Z2 t2 (or_introl eq_refl)) as Hz2.
      (* same first byte *)
      assert (Hi : t_inp t1 = t_inp t2).
      { pose proof (has0_nonempty _ Hz1) as N1. pose proof (has0_nonempty _ Hz2) as N2. unfold block in E.
        destruct (cl (t_addr t1)) as [|[k1 v1] l1]; [congruence|].
        destruct (cl (t_addr t2)) as [|[k2 v2] l2]; [congruence|].
        cbn [map app cons_tr fst snd] in E. inversion E. reflexivity. }
      assert (Hrest : forall t r, inputs_increasing (t :: r) = true ->
                 Forall (fun x => ~ hdb x = Some (t_inp t)) (flat_map (block cl) r)).
      { intros t r Hinc. eapply Forall_impl; [|apply blocks_hdb]. intros x (t' & Ht' & Hx) Hc.
        rewrite Hx in Hc. inversion Hc as [Hc']. pose proof (inputs_increasing_head t r Hinc t' Ht'). lia. }
      destruct (split_by (fun x => hdb x = Some (t_inp t1)) (block cl t1) (block cl t2)
                  (flat_map (block cl) r1) (flat_map (block cl) r2)) as (EB & ER);
        [apply block_hdb|rewrite Hi; apply block_hdb|apply Hrest; exact I1|rewrite Hi; apply Hrest; exact I2|exact E|].
      (* same output, same child language, hence same child *)
      unfold block in EB. rewrite <- Hi in EB.
      assert (Ho : t_out t1 = t_out t2).
      { destruct Hz1 as (k1 & Hk1). destruct Hz2 as (k2 & Hk2).
        assert (A : In (cons_tr (t_inp t1) (t_out t1) (k1, 0)) (map (cons_tr (t_inp t1) (t_out t2)) (cl (t_addr t2)))).
        { rewrite <- EB. apply in_map. exact Hk1. }
        assert (B : In (cons_tr (t_inp t1) (t_out t2) (k2, 0)) (map (cons_tr (t_inp t1) (t_out t1)) (cl (t_addr t1)))).
        { rewrite EB. apply in_map. exact Hk2. }
        apply in_map_iff in A. destruct A as ([ka va] & Ha & _). apply in_map_iff in B. destruct B as ([kb vb] & Hb & _).
        unfold cons_tr in Ha, Hb. cbn [fst snd] in Ha, Hb. inversion Ha. inversion Hb. lia. }
      rewrite <- Ho in EB. apply map_cons_tr_inj in EB.
      assert (Ha : t_addr t1 = t_addr t2) by (apply Hinj; [left; reflexivity|left; reflexivity|exact EB]).
      assert (t1 = t2) by (destruct t1, t2; cbn in *; subst; reflexivity). subst t2. f_equal.
      apply IH; auto.
      * apply (inputs_increasing_tail t1 r1 I1).
      * apply (inputs_increasing_tail t1 r2 I2).
      * intros t Ht. apply Z1. right. exact Ht.
      * intros t Ht. apply Z2. right. exact Ht.
      * intros x1 x2 H1 H2. apply Hinj; right; assumption.
Qed.

Lemma lang_node_inj cl n1 n2 :
  inputs_increasing (n_trans n1) = true -> inputs_increasing (n_trans n2) = true ->
  (n_final n1 = false -> n_fout n1 = 0) -> (n_final n2 = false -> n_fout n2 = 0) ->
  Fro cl n1 -> Fro cl n2 ->
  (forall t1 t2, In t1 (n_trans n1) -> In t2 (n_trans n2) -> cl (t_addr t1) = cl (t_addr t2) -> t_addr t1 = t_addr t2) ->
  lang_node cl n1 = lang_node cl n2 -> n1 = n2.
Proof.
  intros I1 I2 F1 F2 Z1 Z2 Hinj E. unfold lang_node in E.
  change (fun t => map (cons_tr (t_inp t) (t_out t)) (cl (t_addr t))) with (block cl) in E.
  assert (Hnone : forall ts f l, ([([], f)] ++ l : kmap) = flat_map (block cl) ts -> False).
  { intros ts f l H. pose proof (blocks_hdb cl ts) as Hb. rewrite <- H in Hb. inversion Hb as [|? ? (t & _ & Hx) _]. discriminate. }
  destruct n1 as [f1 o1 ts1], n2 as [f2 o2 ts2]. cbn [n_final n_fout n_trans] in *.
  destruct f1, f2.
  - inversion E as [[Ho Hb]]. f_equal. eapply blocks_inj; eauto.
  - exfalso. eapply Hnone. exact E.
  - exfalso. eapply Hnone. symmetry. exact E.
  - cbn [app] in E. rewrite (F1 eq_refl), (F2 eq_refl). f_equal. eapply blocks_inj; eauto.
Qed.

(* ---------- the store of a build without eviction ---------- *)
Section Store.
Variable E : store.
Hypothesis HE : store_ok E.
Hypothesis Hcg : cgood E.
Hypothesis Hns : Forall (fun x => ~ is_sentinel (snd x)) (strip E).
Hypothesis Hnd : NoDup (map snd (strip E)).

Lemma strip_in a s : In (a, s) E -> In (a, bn_of s) (strip E).
Proof. intros H. unfold strip. apply in_map_iff. exists (a, s). auto. Qed.

Lemma same_node_same_addr a1 s1 a2 s2 : In (a1, s1) E -> In (a2, s2) E -> bn_of s1 = bn_of s2 -> a1 = a2.
Proof.
  intros H1 H2 Hb. apply strip_in in H1. apply strip_in in H2. rewrite Hb in H1.
  clear Hns. revert Hnd H1 H2. generalize (strip E). intros l. induction l as [|[a n] l IH]; intros Hnd H1 H2; [destruct H1|].
  cbn [map snd] in Hnd. inversion Hnd as [|? ? Hnotin Hnd']; subst.
  destruct H1 as [H1|H1], H2 as [H2|H2].
  - congruence.
  - inversion H1; subst. exfalso. apply Hnotin. apply in_map_iff. exists (a2, bn_of s2). auto.
  - inversion H2; subst. exfalso. apply Hnotin. apply in_map_iff. exists (a1, bn_of s2). auto.
  - auto.
Qed.

Lemma elang_node a : a <> 0 -> tgt_ok E a -> exists s, In (a, s) E /\ elang E a = lang_node (elang E) (bn_of s).
Proof.
  intros Hne [->|Hin]; [congruence|]. apply store_addrs_in in Hin. destruct Hin as (s & Hin).
  exists s. split; [exact Hin|]. apply elang_in; auto.
Qed.

Theorem elang_inj : forall f a1 a2, (N.to_nat a1 < f)%nat -> (N.to_nat a2 < f)%nat ->
  tgt_ok E a1 -> tgt_ok E a2 -> elang E a1 = elang E a2 -> a1 = a2.
Proof.
  induction f as [|f IH]; intros a1 a2 L1 L2 T1 T2 Heq; [lia|].
  assert (Hsent : forall a, a <> 0 -> tgt_ok E a -> elang E a = [([], 0)] -> False).
  { intros a Ha Ht Hl. destruct (elang_node a Ha Ht) as (s & Hin & Hel). rewrite Hel in Hl.
    rewrite Forall_forall in Hns. apply (Hns (a, bn_of s) (strip_in _ _ Hin)). cbn [snd].
    pose proof (cgood_in E HE Hcg a s Hin) as HF.
    unfold lang_node in Hl. destruct (n_trans (bn_of s)) as [|t ts] eqn:Hts.
    - cbn [flat_map] in Hl. rewrite app_nil_r in Hl. destruct (n_final (bn_of s)) eqn:Hf; [|discriminate].
      inversion Hl. unfold is_sentinel. auto.
    - exfalso. assert (Hz : has0 (elang E (t_addr t))) by (apply HF; rewrite Hts; left; reflexivity).
      apply has0_nonempty in Hz. cbn [flat_map] in Hl. destruct (elang E (t_addr t)) as [|[k v] l]; [congruence|].
      cbn [map app] in Hl. destruct (n_final (bn_of s)); cbn [app] in Hl; inversion Hl. }
  destruct (N.eq_dec a1 0) as [->|N1], (N.eq_dec a2 0) as [->|N2]; [reflexivity| | |].
  - exfalso. rewrite elang_zero in Heq. apply (Hsent a2 N2 T2). symmetry. exact Heq.
  - exfalso. rewrite (elang_zero E) in Heq. apply (Hsent a1 N1 T1). exact Heq.
  - destruct (elang_node a1 N1 T1) as (s1 & Hin1 & Hel1). destruct (elang_node a2 N2 T2) as (s2 & Hin2 & Hel2).
    destruct (store_in_node_ok _ _ _ HE Hin1) as ((I1 & Ft1 & _ & Ff1) & Hlt1 & _).
    destruct (store_in_node_ok _ _ _ HE Hin2) as ((I2 & Ft2 & _ & Ff2) & Hlt2 & _).
    rewrite Hel1, Hel2 in Heq.
    assert (Hb : bn_of s1 = bn_of s2).
    { apply (lang_node_inj (elang E)); auto.
      - apply (cgood_in E HE Hcg a1 s1 Hin1).
      - apply (cgood_in E HE Hcg a2 s2 Hin2).
      - intros t1 t2 H1 H2 Hc. cbn [bn_of n_trans] in *. rewrite Forall_forall in Ft1, Ft2, Hlt1, Hlt2.
        apply IH; auto.
        + specialize (Hlt1 t1 H1). lia.
        + specialize (Hlt2 t2 H2). lia.
        + apply (Ft1 t1 H1).
        + apply (Ft2 t2 H2). }
    eapply same_node_same_addr; eauto.
Qed.
End Store.

(* ---------- residual languages of a key list ---------- *)
Fixpoint strip_prefix (w k : key) : option key :=
  match w, k with
  | [], _ => Some k
  | c :: w', d :: k' => if c =? d then strip_prefix w' k' else None
  | _ :: _, [] => None
  end.
(* the keys of K that start with w, with w removed (in the order of K) *)
Definition res (w : key) (K : list key) : list key :=
  flat_map (fun k => match strip_prefix w k with Some s => [s] | None => [] end) K.

Lemma strip_prefix_app w s : strip_prefix w (w ++ s) = Some s.
Proof. induction w as [|c w IH]; cbn; [reflexivity|]. rewrite N.eqb_refl. exact IH. Qed.
Lemma strip_prefix_some w : forall k s, strip_prefix w k = Some s -> k = w ++ s.
Proof.
  induction w as [|c w IH]; intros k s H; cbn in H; [inversion H; reflexivity|].
  destruct k as [|d k]; [discriminate|]. destruct (N.eqb_spec c d); [|discriminate]. subst. cbn. f_equal. auto.
Qed.
Lemma res_In w K s : In s (res w K) <-> In (w ++ s) K.
Proof.
  unfold res. rewrite in_flat_map. split.
  - intros (k & Hk & Hs). destruct (strip_prefix w k) as [s'|] eqn:E; [|destruct Hs].
    destruct Hs as [<-|[]]. apply strip_prefix_some in E. subst. exact Hk.
  - intros H. exists (w ++ s). split; [exact H|]. rewrite strip_prefix_app. left. reflexivity.
Qed.
Lemma res_nil K : res [] K = K.
Proof. unfold res. induction K as [|k K IH]; cbn; [reflexivity|]. f_equal. exact IH. Qed.
Lemma res_app_l w K1 K2 : res w (K1 ++ K2) = res w K1 ++ res w K2.
Proof. unfold res. apply flat_map_app. Qed.
Lemma res_cons c w K : res (c :: w) K = res w (res [c] K).
Proof.
  unfold res. induction K as [|k K IH]; [reflexivity|]. cbn [flat_map]. rewrite flat_map_app, <- IH. f_equal.
  destruct k as [|d k]; [reflexivity|]. cbn [strip_prefix]. destruct (c =? d); [|reflexivity].
  cbn [flat_map]. rewrite app_nil_r. reflexivity.
Qed.
Lemma res_of_nil w : res w [] = [].
Proof. reflexivity. Qed.

(* following a key through the graph *)
Fixpoint gwalk (g : graph) (a : N) (w : key) : option N :=
  match w with
  | [] => Some a
  | c :: w' =>
    match gget g a with
    | Some n => match find_trans c (g_trans n) with Some t => gwalk g (t_addr t) w' | None => None end
    | None => None
    end
  end.
Inductive greach (g : graph) : N -> N -> Prop :=
| gr_refl a : greach g a a
| gr_step a n t a' : gget g a = Some n -> In t (g_trans n) -> greach g (t_addr t) a' -> greach g a a'.

Section GraphWalk.
Variable g : graph.
Hypothesis WF : wf_graph g.

Definition gblock (t : trans) : kmap := map (fun kv => (t_inp t :: fst kv, t_out t + snd kv)) (L g (t_addr t)).

Lemma res1_block c t : res [c] (keys_of (gblock t)) = if t_inp t =? c then keys_of (L g (t_addr t)) else [].
Proof.
  unfold gblock, keys_of. rewrite map_map. cbn [fst]. induction (L g (t_addr t)) as [|[k v] l IH].
  - destruct (t_inp t =? c); reflexivity.
  - cbn [map fst]. change (res [c] ((t_inp t :: k) :: ?x)) with
      ((match strip_prefix [c] (t_inp t :: k) with Some s => [s] | None => [] end) ++ res [c] x).
    rewrite IH. cbn [strip_prefix]. rewrite (N.eqb_sym c). destruct (t_inp t =? c); reflexivity.
Qed.

Lemma res1_blocks c ts : inputs_increasing ts = true ->
  res [c] (keys_of (flat_map gblock ts)) =
  match find_trans c ts with Some t => keys_of (L g (t_addr t)) | None => [] end.
Proof.
  induction ts as [|t ts IH]; intros Hinc; [reflexivity|].
  cbn [flat_map]. rewrite keys_of_app, res_app_l, res1_block. unfold find_trans. cbn [find].
  fold (find_trans c ts). destruct (N.eqb_spec (t_inp t) c) as [Heq|Hne].
  - (* later inputs are larger: nothing else starts with c *)
    assert (Hnone : res [c] (keys_of (flat_map gblock ts)) = []).
    { rewrite (IH (inputs_increasing_tail t ts Hinc)).
      destruct (find_trans c ts) as [t'|] eqn:Hf; [|reflexivity]. exfalso.
      unfold find_trans in Hf. apply find_some in Hf. destruct Hf as (Hin & Hc). apply N.eqb_eq in Hc.
      pose proof (inputs_increasing_head t ts Hinc t' Hin). lia. }
    rewrite Hnone, app_nil_r. reflexivity.
  - cbn [app]. apply IH. apply (inputs_increasing_tail t ts Hinc).
Qed.

Lemma keys_child c a n : gget g a = Some n ->
  res [c] (keys_of (L g a)) = match find_trans c (g_trans n) with Some t => keys_of (L g (t_addr t)) | None => [] end.
Proof.
  intros Hn. rewrite (GraphProofs.L_unfold g WF a n Hn). rewrite keys_of_app, res_app_l.
  change (fun t => map (fun kv => (t_inp t :: fst kv, t_out t + snd kv)) (L g (t_addr t))) with gblock.
  rewrite res1_blocks by apply (WF a n Hn).
  destruct (g_final n); reflexivity.
Qed.

Lemma find_trans_in c ts t : find_trans c ts = Some t -> In t ts /\ t_inp t = c.
Proof. unfold find_trans. intros H. apply find_some in H. destruct H as (H1 & H2). apply N.eqb_eq in H2. auto. Qed.

Lemma find_trans_self ts t : inputs_increasing ts = true -> In t ts -> find_trans (t_inp t) ts = Some t.
Proof.
  induction ts as [|u ts IH]; intros Hinc Hin; [destruct Hin|].
  unfold find_trans. cbn [find]. destruct Hin as [->|Hin]; [rewrite N.eqb_refl; reflexivity|].
  pose proof (inputs_increasing_head u ts Hinc t Hin). destruct (N.eqb_spec (t_inp u) (t_inp t)); [lia|].
  apply IH; auto. apply (inputs_increasing_tail u ts Hinc).
Qed.

Lemma walk_res : forall w a a', (exists n, gget g a = Some n) -> gwalk g a w = Some a' ->
  keys_of (L g a') = res w (keys_of (L g a)) /\ exists n', gget g a' = Some n'.
Proof.
  induction w as [|c w IH]; intros a a' (n & Hn) H.
  - inversion H; subst. rewrite res_nil. eauto.
  - cbn [gwalk] in H. rewrite Hn in H. destruct (find_trans c (g_trans n)) as [t|] eqn:Hf; [|discriminate].
    destruct (find_trans_in _ _ _ Hf) as (Hin & _).
    destruct (WF a n Hn) as (_ & Ht). destruct (Ht t Hin) as (_ & _ & Hex).
    destruct (IH (t_addr t) a' Hex H) as (A & B). split; [|exact B].
    rewrite A, res_cons, (keys_child c a n Hn), Hf. reflexivity.
Qed.

Lemma walk_exists : forall w a, (exists n, gget g a = Some n) -> res w (keys_of (L g a)) <> [] ->
  exists a', gwalk g a w = Some a'.
Proof.
  induction w as [|c w IH]; intros a (n & Hn) Hne; [eexists; reflexivity|].
  cbn [gwalk]. rewrite Hn. rewrite res_cons, (keys_child c a n Hn) in Hne.
  destruct (find_trans c (g_trans n)) as [t|] eqn:Hf; [|rewrite res_of_nil in Hne; congruence].
  destruct (find_trans_in _ _ _ Hf) as (Hin & _).
  destruct (WF a n Hn) as (_ & Ht). destruct (Ht t Hin) as (_ & _ & Hex).
  apply IH; auto.
Qed.

Lemma reach_walk a a' : greach g a a' -> exists w, gwalk g a w = Some a'.
Proof.
  induction 1 as [a|a n t a' Hn Hin _ (w & Hw)]; [exists []; reflexivity|].
  exists (t_inp t :: w). cbn [gwalk]. rewrite Hn, (find_trans_self _ _ (proj1 (WF a n Hn)) Hin). exact Hw.
Qed.

(* values along a path add up *)
Lemma walk_vals : forall w a a', (exists n, gget g a = Some n) -> gwalk g a w = Some a' ->
  forall k v, In (k, v) (L g a') -> exists o, In (w ++ k, o + v) (L g a).
Proof.
  induction w as [|c w IH]; intros a a' (n & Hn) H k v Hin.
  - inversion H; subst. exists 0. exact Hin.
  - cbn [gwalk] in H. rewrite Hn in H. destruct (find_trans c (g_trans n)) as [t|] eqn:Hf; [|discriminate].
    destruct (find_trans_in _ _ _ Hf) as (Hint & Hc).
    destruct (WF a n Hn) as (_ & Ht). destruct (Ht t Hint) as (_ & _ & Hex).
    destruct (IH (t_addr t) a' Hex H k v Hin) as (o & Ho).
    exists (t_out t + o). rewrite (GraphProofs.L_unfold g WF a n Hn). apply in_or_app. right.
    apply in_flat_map. exists t. split; [exact Hint|]. apply in_map_iff. exists (w ++ k, o + v).
    split; [|exact Ho]. cbn [fst snd app]. subst c. f_equal. lia.
Qed.
End GraphWalk.

(* ---------- the residual languages, as a duplicate-free list ---------- *)
Definition all_prefixes (k : key) : list key := map (fun j => firstn j k) (seq 0 (S (length k))).
Definition nontrivial (l : list key) : bool :=
  match l with [] => false | [[]] => false | _ => true end.
Definition klist_eq_dec : forall x y : list key, {x = y} + {x <> y} := list_eq_dec (list_eq_dec N.eq_dec).
(* the right languages { s | w ++ s in K } over all prefixes w of keys of K, except the empty
   language and {""} (the shared empty final node, never written) *)
Definition residuals (K : list key) : list (list key) :=
  nodup klist_eq_dec (filter nontrivial (map (fun w => res w K) (flat_map all_prefixes K))).

Lemma residuals_spec K x : In x (residuals K) <->
  nontrivial x = true /\ exists w, (exists s, In (w ++ s) K) /\ x = res w K.
Proof.
  unfold residuals. rewrite nodup_In, filter_In, in_map_iff. split.
  - intros ((w & <- & Hw) & Hnt). split; [exact Hnt|]. exists w. split; [|reflexivity].
    apply in_flat_map in Hw. destruct Hw as (k & Hk & Hw). unfold all_prefixes in Hw.
    apply in_map_iff in Hw. destruct Hw as (j & <- & _). exists (skipn j k). rewrite firstn_skipn. exact Hk.
  - intros (Hnt & w & (s & Hs) & ->). split; [|exact Hnt]. exists w. split; [reflexivity|].
    apply in_flat_map. exists (w ++ s). split; [exact Hs|]. unfold all_prefixes. apply in_map_iff.
    exists (length w). split.
    + rewrite firstn_app, Nat.sub_diag, firstn_all. cbn [firstn]. apply app_nil_r.
    + apply in_seq. rewrite app_length. lia.
Qed.

Lemma NoDup_map_inj_in {A B} (f : A -> B) (l : list A) :
  NoDup l -> (forall x y, In x l -> In y l -> f x = f y -> x = y) -> NoDup (map f l).
Proof.
  induction 1 as [|x l Hnotin Hnd IH]; intros Hinj; cbn [map]; constructor.
  - intros Hin. apply in_map_iff in Hin. destruct Hin as (y & Hy & Hiny).
    assert (y = x) by (apply Hinj; [right; exact Hiny|left; reflexivity|exact Hy]). subst. contradiction.
  - apply IH. intros a b Ha Hb. apply Hinj; right; assumption.
Qed.

Lemma zero_vals_eq (l : kmap) : Forall (fun kv => snd kv = 0) l -> l = map (fun k => (k, 0)) (keys_of l).
Proof.
  induction 1 as [|[k v] l Hv _ IH]; [reflexivity|]. cbn [keys_of map fst] in *. cbn [snd] in Hv. subst v.
  f_equal. exact IH.
Qed.

(* ---------- the finished file of a build without eviction ---------- *)
Section Final.
Variables (p : parsed) (E : store).
Hypothesis HF : final_store p E false 0.
Let g := graph_of (node_table (p_nodes p)).
Let r := p_root p.

Local Lemma F_nodes : p_nodes p = rev E. Proof. apply HF. Qed.
Local Lemma F_store : store_ok E. Proof. apply HF. Qed.
Local Lemma F_g : g = graph_of (node_table (rev E)). Proof. unfold g. rewrite F_nodes. reflexivity. Qed.
Local Lemma F_wf : wf_graph g. Proof. rewrite F_g. apply wf_store. apply F_store. Qed.
Local Lemma F_addrs a : In a (map fst (p_nodes p)) <-> In a (addrs E).
Proof. rewrite F_nodes, map_rev, <- in_rev. reflexivity. Qed.
Local Lemma F_L a : tgt_ok E a -> L g a = elang E a.
Proof. rewrite F_g. apply L_store. apply F_store. Qed.
Local Lemma F_tgt a : In a (0 :: map fst (p_nodes p)) -> tgt_ok E a.
Proof. intros [<-|H]; [left; reflexivity|right; apply F_addrs; exact H]. Qed.
Local Lemma F_root : L g r = p_content p.
Proof. destruct HF as (_ & _ & Ht & _ & _ & _ & _ & _ & _ & Hc). rewrite F_L; auto. Qed.

(* (1) distinct nodes (the shared empty final node 0 included) have distinct languages *)
Theorem min_distinct a1 a2 :
  In a1 (0 :: map fst (p_nodes p)) -> In a2 (0 :: map fst (p_nodes p)) -> L g a1 = L g a2 -> a1 = a2.
Proof.
  intros H1 H2 Heq. apply F_tgt in H1. apply F_tgt in H2. rewrite (F_L _ H1), (F_L _ H2) in Heq.
  destruct HF as (_ & HE & _ & _ & _ & Hcg & Hns & _ & Hnd & _).
  apply (elang_inj E HE Hcg Hns (Hnd eq_refl eq_refl) (S (N.to_nat a1 + N.to_nat a2))); auto; lia.
Qed.

(* (2) every written node is reachable from the root; every one but the root has a non-empty
       language (the root's is the content) and none has the language {""} of node 0 *)
Lemma reach_greach a a' : reach E a a' -> greach g a a'.
Proof.
  induction 1 as [a|a s t a' Hin Ht _ IH]; [constructor|].
  apply (gr_step g a (gnode_of s) t a'); [|exact Ht|exact IH]. rewrite F_g. apply gget_store_in; [apply F_store|exact Hin].
Qed.

Theorem min_reachable a : In a (map fst (p_nodes p)) ->
  greach g r a /\ (a <> r -> L g a <> []) /\ L g a <> [([], 0)].
Proof.
  intros Ha. pose proof Ha as Ha'. apply F_addrs in Ha'.
  destruct HF as (_ & HE & Htr & Htrim & Hle & _ & _ & Hreach & _ & _).
  split; [apply reach_greach; apply Hreach; exact Ha'|]. split.
  - intros Hne. pose proof (tree_bound E HE r Htrim Hle (S (N.to_nat a)) a ltac:(lia) (or_intror Ha')) as (_ & H).
    rewrite F_g. apply H. exact Hne.
  - intros Hl. assert (a = 0).
    { apply min_distinct; [right; exact Ha|left; reflexivity|]. rewrite Hl. symmetry. apply (L_zero g F_wf). }
    destruct (store_addrs_range _ _ HE Ha'). lia.
Qed.

(* (3) sets: the written nodes are in bijection with the residual languages of the key set *)
Hypothesis Hzero : Forall (fun kv => snd kv = 0) (p_content p).
Hypothesis Hne : p_content p <> [].
Let K := keys_of (p_content p).

Lemma F_rootnode : exists n, gget g r = Some n.
Proof. rewrite F_g. apply gget_tgt; apply HF. Qed.

Lemma node_zero a : In a (map fst (p_nodes p)) -> Forall (fun kv => snd kv = 0) (L g a).
Proof.
  intros Ha. destruct (min_reachable a Ha) as (Hr & _). destruct (reach_walk g F_wf r a Hr) as (w & Hw).
  apply Forall_forall. intros [k v] Hin. cbn [snd].
  destruct (walk_vals g F_wf w r a F_rootnode Hw k v Hin) as (o & Ho). rewrite F_root in Ho.
  rewrite Forall_forall in Hzero. specialize (Hzero _ Ho). cbn [snd] in Hzero. lia.
Qed.

Lemma node_residual a : In a (map fst (p_nodes p)) -> In (keys_of (L g a)) (residuals K).
Proof.
  intros Ha. destruct (min_reachable a Ha) as (Hr & Hne1 & Hns).
  destruct (reach_walk g F_wf r a Hr) as (w & Hw).
  destruct (walk_res g F_wf w r a F_rootnode Hw) as (Hres & _). rewrite F_root in Hres. fold K in Hres.
  assert (Hnonempty : L g a <> []).
  { destruct (N.eq_dec a r) as [->|Har]; [rewrite F_root; exact Hne|apply Hne1; exact Har]. }
  apply residuals_spec. split.
  - pose proof (zero_vals_eq _ (node_zero a Ha)) as Hz.
    destruct (keys_of (L g a)) as [|k0 [|k1 l]] eqn:Hk; [|destruct k0|]; try reflexivity.
    + exfalso. apply Hnonempty. rewrite Hz. reflexivity.
    + exfalso. apply Hns. rewrite Hz. reflexivity.
    + destruct k0; reflexivity.
  - exists w. split; [|exact Hres].
    destruct (keys_of (L g a)) as [|s l] eqn:Hk.
    + exfalso. apply Hnonempty. destruct (L g a); [reflexivity|discriminate].
    + exists s. apply res_In. fold K. rewrite <- Hres. left. reflexivity.
Qed.

Lemma residual_node x : In x (residuals K) -> exists a, In a (map fst (p_nodes p)) /\ keys_of (L g a) = x.
Proof.
  intros Hx. apply residuals_spec in Hx. destruct Hx as (Hnt & w & _ & ->).
  assert (Hne2 : res w (keys_of (L g r)) <> []).
  { rewrite F_root. fold K. intros Hx. rewrite Hx in Hnt. discriminate. }
  destruct (walk_exists g F_wf w r F_rootnode Hne2) as (a & Hw).
  destruct (walk_res g F_wf w r a F_rootnode Hw) as (Hres & n & Hn). rewrite F_root in Hres. fold K in Hres.
  exists a. split; [|exact Hres].
  rewrite F_g in Hn. destruct (gget_store_inv E a n Hn) as [(-> & _)|(_ & s & Hin & _)].
  - exfalso. rewrite (L_zero g F_wf) in Hres. cbn in Hres. rewrite <- Hres in Hnt. discriminate.
  - apply F_addrs. eapply store_in_addrs; eauto.
Qed.

Theorem min_count : length (p_nodes p) = length (residuals K).
Proof.
  set (l1 := map (fun a => keys_of (L g a)) (map fst (p_nodes p))).
  assert (Hnd1 : NoDup l1).
  { apply NoDup_map_inj_in.
    - rewrite F_nodes, map_rev. apply NoDup_rev. apply store_addrs_nodup. apply F_store.
    - intros a1 a2 H1 H2 Hk. apply min_distinct; [right; exact H1|right; exact H2|].
      rewrite (zero_vals_eq _ (node_zero a1 H1)), (zero_vals_eq _ (node_zero a2 H2)), Hk. reflexivity. }
  assert (Hnd2 : NoDup (residuals K)) by apply NoDup_nodup.
  assert (I1 : incl l1 (residuals K)).
  { intros x Hx. apply in_map_iff in Hx. destruct Hx as (a & <- & Ha). apply node_residual. exact Ha. }
  assert (I2 : incl (residuals K) l1).
  { intros x Hx. destruct (residual_node x Hx) as (a & Ha & <-). apply in_map_iff. exists a. auto. }
  pose proof (NoDup_incl_length Hnd1 I1). pose proof (NoDup_incl_length Hnd2 I2).
  unfold l1 in *. rewrite !map_length in *. lia.
Qed.
End Final.
