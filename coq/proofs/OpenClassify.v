(* OpenClassify.v — how Fst::new classifies its input (C10), on the model of Open.v. *)
Require Import FstV.Base FstV.Generated.SrcParams FstV.Crc FstV.Fst FstV.Open.
Require Import FstV.proofs.OpenProofs.

Lemma open_short bs : len bs < 32 -> fst_new bs = Err (EFormat (len bs)).
Proof. intros H. unfold fst_new. destruct (N.ltb_spec (len bs) 32); [reflexivity|lia]. Qed.

Lemma open_bad_version bs : 32 <= len bs -> (u64_at bs = 0 \/ 3 < u64_at bs) ->
  fst_new bs = Err (EVersion 3 (u64_at bs)).
Proof.
  intros H Hv. unfold fst_new. destruct (N.ltb_spec (len bs) 32); [lia|].
  rewrite (read_u64_le_ok bs) by (unfold len in *; lia). cbn [bind].
  assert ((u64_at bs =? 0) || (src_VERSION <? u64_at bs) = true) as ->; [|reflexivity].
  apply orb_true_iff. destruct Hv as [->|Hv]; [left; reflexivity|right]. apply N.ltb_lt. exact Hv.
Qed.

Lemma open_v3_short bs : 32 <= len bs -> len bs < 36 -> u64_at bs = 3 ->
  fst_new bs = Err (EFormat (len bs)).
Proof.
  intros H H36 Hv. unfold fst_new. destruct (N.ltb_spec (len bs) 32); [lia|].
  rewrite (read_u64_le_ok bs) by (unfold len in *; lia). cbn [bind]. rewrite Hv.
  change ((3 =? 0) || (src_VERSION <? 3)) with false. cbn [andb N.leb].
  change (3 <=? 3) with true. cbn [andb]. destruct (N.ltb_spec (len bs) 36); [reflexivity|lia].
Qed.

(* what an opened file records: the version field, and a checksum exactly for version >= 3 *)
Lemma open_meta bs m : fst_new bs = Ok m ->
  m_version m = u64_at bs /\ 1 <= m_version m <= 3 /\
  (m_version m <= 2 -> m_checksum m = None) /\ (3 <= m_version m -> exists c, m_checksum m = Some c).
Proof.
  unfold fst_new.
  destruct (N.ltb_spec (len bs) 32) as [|H32]; [discriminate|].
  rewrite (read_u64_le_ok bs) by (unfold len in *; lia). cbn [bind].
  set (version := u64_at bs).
  destruct ((version =? 0) || (src_VERSION <? version)) eqn:Ev; [discriminate|].
  apply orb_false_iff in Ev as [Ev0 Ev3]. apply N.eqb_neq in Ev0. apply N.ltb_ge in Ev3.
  unfold src_VERSION in Ev3.
  destruct ((3 <=? version) && (len bs <? 36)) eqn:E3; [discriminate|].
  rewrite (slice_from_ok bs 8) by (unfold len in *; lia). cbn [bind].
  rewrite read_u64_le_ok by (unfold len in *; rewrite skipn_length; lia). cbn [bind].
  destruct (version <=? 2) eqn:E2; cbn [bind].
  - apply N.leb_le in E2.
    rewrite (usize_sub_ok (len bs) 8) by lia. cbn [bind].
    rewrite slice_from_ok by lia. cbn [bind].
    rewrite read_u64_le_ok by (unfold len in *; rewrite skipn_length; lia). cbn [bind].
    rewrite (usize_sub_ok (len bs) 16) by lia. cbn [bind].
    rewrite slice_from_ok by lia. cbn [bind].
    rewrite read_u64_le_ok by (unfold len in *; rewrite skipn_length; lia). cbn [bind].
    intros H.
    assert (Hm : m_version m = version /\ m_checksum m = None).
    { repeat match type of H with
             | (if ?c then _ else _) = Ok _ => destruct c
             | bind ?r _ = Ok _ => destruct r; cbn [bind] in H; try discriminate
             end; inversion H; subst m; cbn; auto. }
    destruct Hm as [Hv Hc]. rewrite Hv.
    split; [reflexivity|]. split; [lia|]. split; [intros _; exact Hc|intros; lia].
  - apply N.leb_gt in E2.
    assert (H36 : 36 <= len bs).
    { apply andb_false_iff in E3. destruct E3 as [E3|E3]; [apply N.leb_gt in E3; lia|apply N.ltb_ge in E3; exact E3]. }
    rewrite (usize_sub_ok (len bs) 4) by lia. cbn [bind].
    rewrite slice_from_ok by lia. cbn [bind].
    rewrite read_u32_le_ok by (unfold len in *; rewrite skipn_length; lia). cbn [bind].
    rewrite (usize_sub_ok (len bs - 4) 8) by lia. cbn [bind].
    rewrite slice_from_ok by lia. cbn [bind].
    rewrite read_u64_le_ok by (unfold len in *; rewrite skipn_length; lia). cbn [bind].
    rewrite (usize_sub_ok (len bs - 4) 16) by lia. cbn [bind].
    rewrite slice_from_ok by lia. cbn [bind].
    rewrite read_u64_le_ok by (unfold len in *; rewrite skipn_length; lia). cbn [bind].
    intros H.
    assert (Hm : m_version m = version /\ exists c, m_checksum m = Some c).
    { repeat match type of H with
             | (if ?c then _ else _) = Ok _ => destruct c
             | bind ?r _ = Ok _ => destruct r; cbn [bind] in H; try discriminate
             end; inversion H; subst m; cbn; eauto. }
    destruct Hm as [Hv Hc]. rewrite Hv.
    split; [reflexivity|]. split; [lia|]. split; [intros; lia|intros _; exact Hc].
Qed.

Lemma verify_missing bs m : fst_new bs = Ok m -> m_version m <= 2 -> verify bs m = Err EChecksumMissing.
Proof.
  intros H Hv. destruct (open_meta bs m H) as (_ & _ & Hn & _).
  unfold verify. now rewrite (Hn Hv).
Qed.

(* once the length and version tests pass, the only possible failure is Format *)
Lemma open_late_errors bs e : 32 <= len bs -> u64_at bs <> 0 -> u64_at bs <= 3 ->
  fst_new bs = Err e -> e = EFormat (len bs).
Proof.
  intros H32 Hv0 Hv3. unfold fst_new.
  destruct (N.ltb_spec (len bs) 32); [lia|].
  rewrite (read_u64_le_ok bs) by (unfold len in *; lia). cbn [bind].
  assert ((u64_at bs =? 0) || (src_VERSION <? u64_at bs) = false) as ->.
  { apply orb_false_iff. split; [now apply N.eqb_neq|apply N.ltb_ge; exact Hv3]. }
  destruct ((3 <=? u64_at bs) && (len bs <? 36)) eqn:E3; [intros G; inversion G; reflexivity|].
  rewrite (slice_from_ok bs 8) by (unfold len in *; lia). cbn [bind].
  rewrite read_u64_le_ok by (unfold len in *; rewrite skipn_length; lia). cbn [bind].
  destruct (u64_at bs <=? 2) eqn:E2; cbn [bind].
  - rewrite (usize_sub_ok (len bs) 8) by lia. cbn [bind].
    rewrite slice_from_ok by lia. cbn [bind].
    rewrite read_u64_le_ok by (unfold len in *; rewrite skipn_length; lia). cbn [bind].
    rewrite (usize_sub_ok (len bs) 16) by lia. cbn [bind].
    rewrite slice_from_ok by lia. cbn [bind].
    rewrite read_u64_le_ok by (unfold len in *; rewrite skipn_length; lia). cbn [bind].
    unfold u64_to_usize. cbv beta iota zeta.
    intros G. unfold usize_add in G.
    repeat match type of G with
           | (if ?c then _ else _) = Err _ => destruct c
           | bind (if ?c then _ else _) _ = Err _ => destruct c; cbn [bind] in G
           | bind (Ok _) _ = Err _ => cbn [bind] in G
           end; try discriminate; inversion G; reflexivity.
  - apply N.leb_gt in E2.
    assert (H36 : 36 <= len bs).
    { apply andb_false_iff in E3. destruct E3 as [E3|E3]; [apply N.leb_gt in E3; lia|apply N.ltb_ge in E3; exact E3]. }
    rewrite (usize_sub_ok (len bs) 4) by lia. cbn [bind].
    rewrite slice_from_ok by lia. cbn [bind].
    rewrite read_u32_le_ok by (unfold len in *; rewrite skipn_length; lia). cbn [bind].
    rewrite (usize_sub_ok (len bs - 4) 8) by lia. cbn [bind].
    rewrite slice_from_ok by lia. cbn [bind].
    rewrite read_u64_le_ok by (unfold len in *; rewrite skipn_length; lia). cbn [bind].
    rewrite (usize_sub_ok (len bs - 4) 16) by lia. cbn [bind].
    rewrite slice_from_ok by lia. cbn [bind].
    rewrite read_u64_le_ok by (unfold len in *; rewrite skipn_length; lia). cbn [bind].
    unfold u64_to_usize. cbv beta iota zeta.
    intros G. unfold usize_add in G.
    repeat match type of G with
           | (if ?c then _ else _) = Err _ => destruct c
           | bind (if ?c then _ else _) _ = Err _ => destruct c; cbn [bind] in G
           | bind (Ok _) _ = Err _ => cbn [bind] in G
           end; try discriminate; inversion G; reflexivity.
Qed.

(* the coarse classification used by the C10 correspondence agrees with the model of Fst::new *)
Lemma spec_open_class_sound bs :
  match spec_open_class (len bs) (if len bs <? 8 then 0 else u64_at bs), fst_new bs with
  | 1, r => r = Err (EVersion 3 (u64_at bs))
  | 2, r => r = Err (EFormat (len bs))
  | 3, r => r = Err (EFormat (len bs)) \/ r = Err (EVersion 3 (u64_at bs))
  | 4, r => (exists m, r = Ok m) \/ r = Err (EFormat (len bs))
  | _, _ => False
  end.
Proof.
  unfold spec_open_class.
  destruct (N.ltb_spec (len bs) 8) as [H8|H8].
  - rewrite open_short by lia. reflexivity.
  - destruct (N.ltb_spec (len bs) 32) as [H32|H32].
    + rewrite open_short by lia. destruct ((u64_at bs =? 0) || (3 <? u64_at bs)); [left|]; reflexivity.
    + destruct ((u64_at bs =? 0) || (3 <? u64_at bs)) eqn:Ev.
      * apply open_bad_version; [exact H32|]. apply orb_true_iff in Ev as [E|E];
          [left; now apply N.eqb_eq|right; now apply N.ltb_lt].
      * apply orb_false_iff in Ev as [E0 E3]. apply N.eqb_neq in E0. apply N.ltb_ge in E3.
        destruct ((3 <=? u64_at bs) && (len bs <? 36)) eqn:E36.
        -- apply andb_true_iff in E36 as [Ea Eb]. apply N.leb_le in Ea. apply N.ltb_lt in Eb.
           apply open_v3_short; lia.
        -- destruct (fst_new bs) as [m|e|] eqn:Hf; [left; eauto| |exfalso; now apply (open_total bs)].
           right. f_equal. now apply (open_late_errors bs e H32 E0 E3).
Qed.
