(* OpsProofs.v — C05: the k-way set operations of src/raw/ops.rs compute the set-theoretic
   union / intersection / symmetric difference / difference of their input streams, for every
   heap whose pop returns a least (input, output) slot. *)
Require Import FstV.Base FstV.Ops.
From Coq Require Import Permutation.

(* ================= order on keys ================= *)
Definition klt (a b : key) : Prop := lex_cmp a b = Lt.
Definition kle (a b : key) : Prop := lex_cmp a b <> Gt.

Lemma lex_cmp_gt_lt a b : lex_cmp a b = Gt <-> lex_cmp b a = Lt.
Proof. rewrite (lex_cmp_antisym b a). destruct (lex_cmp b a); cbn; split; congruence. Qed.
Lemma klt_trans a b c : klt a b -> klt b c -> klt a c.
Proof. apply lex_cmp_trans_lt. Qed.
Lemma klt_irrefl a : ~ klt a a.
Proof. unfold klt. rewrite lex_cmp_refl. discriminate. Qed.
Lemma kle_refl a : kle a a.
Proof. unfold kle. rewrite lex_cmp_refl. discriminate. Qed.
Lemma kle_cases a b : kle a b <-> klt a b \/ a = b.
Proof.
  unfold kle, klt. rewrite <- lex_cmp_eq. destruct (lex_cmp a b); split; try congruence; auto.
  intros [H|H]; discriminate.
Qed.
Lemma klt_kle a b : klt a b -> kle a b.
Proof. intros H. apply kle_cases. auto. Qed.
Lemma nkle_klt a b : ~ kle a b <-> klt b a.
Proof.
  unfold kle, klt. rewrite <- lex_cmp_gt_lt. destruct (lex_cmp a b); split; try congruence; intros H; exfalso; apply H; discriminate.
Qed.
Lemma kle_klt_trans a b c : kle a b -> klt b c -> klt a c.
Proof. intros H. apply kle_cases in H as [H| ->]; [apply klt_trans; exact H|auto]. Qed.
Lemma klt_kle_trans a b c : klt a b -> kle b c -> klt a c.
Proof. intros H1 H. apply kle_cases in H as [H| <-]; [eapply klt_trans; eauto|auto]. Qed.
Lemma kle_trans a b c : kle a b -> kle b c -> kle a c.
Proof.
  intros H1 H2. apply kle_cases in H1 as [H1| ->]; [|exact H2].
  apply klt_kle. eapply klt_kle_trans; eauto.
Qed.
Lemma kle_antisym a b : kle a b -> kle b a -> a = b.
Proof.
  intros H1 H2. apply kle_cases in H1 as [H1|H1]; [|exact H1].
  exfalso. apply (proj2 (nkle_klt b a) H1 H2).
Qed.
Lemma klt_neq a b : klt a b -> a <> b.
Proof. intros H E. subst. exact (klt_irrefl _ H). Qed.
Lemma kle_total a b : kle a b \/ klt b a.
Proof. unfold kle, klt. rewrite <- lex_cmp_gt_lt. destruct (lex_cmp a b); auto; left; discriminate. Qed.

Lemma key_ltb_klt a b : key_ltb a b = true <-> klt a b.
Proof. unfold key_ltb, klt. destruct (lex_cmp a b); split; congruence. Qed.
Lemma key_leb_kle a b : key_leb a b = true <-> kle a b.
Proof. unfold key_leb, kle. destruct (lex_cmp a b); split; congruence. Qed.
Lemma key_eqb_sym a b : key_eqb a b = key_eqb b a.
Proof.
  destruct (key_eqb a b) eqn:E1, (key_eqb b a) eqn:E2; auto.
  - apply key_eqb_eq in E1. subst. rewrite key_eqb_refl in E2. discriminate.
  - apply key_eqb_eq in E2. subst. rewrite key_eqb_refl in E1. discriminate.
Qed.
Lemma key_eqb_neq a b : key_eqb a b = false <-> a <> b.
Proof. rewrite <- key_eqb_eq. destruct (key_eqb a b); split; congruence. Qed.

(* strictly sorted lists of keys *)
Lemma sorted_cons k l : sorted_strict (k :: l) = true <-> Forall (klt k) l /\ sorted_strict l = true.
Proof.
  revert k; induction l as [|x l IH]; intros k.
  - cbn. split; auto.
  - change (sorted_strict (k :: x :: l)) with (key_ltb k x && sorted_strict (x :: l)).
    rewrite andb_true_iff, key_ltb_klt. split.
    + intros [H1 H2]. split; [|exact H2]. constructor; [exact H1|].
      apply IH in H2 as [H2 _]. eapply Forall_impl; [|exact H2]. intros y. apply klt_trans. exact H1.
    + intros [H1 H2]. inversion H1; subst. auto.
Qed.
Lemma sorted_tl k l : sorted_strict (k :: l) = true -> sorted_strict l = true.
Proof. intros H. apply sorted_cons in H. tauto. Qed.

Lemma sorted_unique l1 : forall l2, sorted_strict l1 = true -> sorted_strict l2 = true ->
  (forall x, In x l1 <-> In x l2) -> l1 = l2.
Proof.
  induction l1 as [|a l1 IH]; intros [|b l2] S1 S2 H.
  - reflexivity.
  - exfalso. apply (proj2 (H b)). left; reflexivity.
  - exfalso. apply (proj1 (H a)). left; reflexivity.
  - apply sorted_cons in S1 as [F1 S1]. apply sorted_cons in S2 as [F2 S2].
    rewrite Forall_forall in F1, F2.
    assert (a = b) as ->.
    { destruct (proj1 (H a) (or_introl eq_refl)) as [E|I]; [auto|].
      destruct (proj2 (H b) (or_introl eq_refl)) as [E|I2]; [auto|].
      exfalso. apply (klt_irrefl a). eapply klt_trans; [apply F1; exact I2|apply F2; exact I]. }
    f_equal. apply IH; auto. intros x. split; intros I.
    + destruct (proj1 (H x) (or_intror I)) as [E|I2]; [|exact I2].
      subst. exfalso. exact (klt_irrefl _ (F1 _ I)).
    + destruct (proj2 (H x) (or_intror I)) as [E|I2]; [|exact I2].
      subst. exfalso. exact (klt_irrefl _ (F2 _ I)).
Qed.

(* ================= the specification's vocabulary ================= *)
Lemma insert_key_in k l x : In x (insert_key k l) <-> x = k \/ In x l.
Proof.
  induction l as [|y l IH]; cbn.
  - split; intros [H|H]; auto.
  - destruct (lex_cmp k y) eqn:E; cbn.
    + apply lex_cmp_eq in E. subst. split; [auto|]. intros [->|H]; auto.
    + split; intros [H|H]; auto.
    + rewrite IH. split; intros [H|[H|H]]; auto.
Qed.
Lemma insert_key_sorted k l : sorted_strict l = true -> sorted_strict (insert_key k l) = true.
Proof.
  induction l as [|y l IH]; intros S; [reflexivity|].
  cbn [insert_key]. destruct (lex_cmp k y) eqn:E.
  - exact S.
  - apply sorted_cons. split; [|exact S]. constructor; [exact E|].
    apply sorted_cons in S as [F _]. eapply Forall_impl; [|exact F]. intros z. apply klt_trans. exact E.
  - apply sorted_cons in S as [F S]. apply sorted_cons. split; [|auto].
    apply Forall_forall. intros z Hz. apply insert_key_in in Hz as [->|Hz].
    + apply lex_cmp_gt_lt. exact E.
    + rewrite Forall_forall in F. auto.
Qed.
Lemma all_keys_sorted ss : sorted_strict (all_keys ss) = true.
Proof.
  unfold all_keys. induction (concat (map keys_of ss)) as [|k l IH]; [reflexivity|].
  cbn. apply insert_key_sorted. exact IH.
Qed.
Lemma all_keys_in ss x : In x (all_keys ss) <-> exists s, In s ss /\ In x (keys_of s).
Proof.
  unfold all_keys.
  assert (forall l, In x (fold_right insert_key [] l) <-> In x l) as H.
  { induction l as [|k l IH]; cbn; [tauto|]. rewrite insert_key_in, IH. split; intros [H|H]; auto. }
  rewrite H, in_concat. split.
  - intros (l & Hl & Hx). apply in_map_iff in Hl as (s & <- & Hs). eauto.
  - intros (s & Hs & Hx). exists (keys_of s). split; [apply in_map; exact Hs|exact Hx].
Qed.

(* ================= residual streams ================= *)
(* drop the head of a stream if its key is k *)
Definition drop_head (k : key) (t : list kv) : list kv :=
  match t with
  | e :: r => if key_eqb (fst e) k then r else t
  | [] => []
  end.
Definition drop_key (k : key) (T : list (list kv)) := map (drop_head k) T.
(* k is below or equal to every key still to come *)
Definition lower_bound (k : key) (T : list (list kv)) : Prop :=
  Forall (fun t => Forall (fun e => kle k (fst e)) t) T.

Lemma kmap_ok_cons e t : kmap_ok (e :: t) = true <-> Forall (fun x => klt (fst e) (fst x)) t /\ kmap_ok t = true.
Proof.
  unfold kmap_ok, keys_of. cbn [map]. rewrite sorted_cons, Forall_map. tauto.
Qed.
Lemma kmap_ok_tl t : kmap_ok t = true -> kmap_ok (tl t) = true.
Proof. destruct t as [|e t]; [auto|]. intros H. apply kmap_ok_cons in H. tauto. Qed.

Lemma lookup_none t k : (forall e, In e t -> fst e <> k) -> lookup t k = None.
Proof.
  induction t as [|[k' v] t IH]; intros H; [reflexivity|]. cbn [lookup].
  destruct (key_eqb k k') eqn:E.
  - apply key_eqb_eq in E. exfalso. apply (H (k', v)); [left; reflexivity|auto].
  - apply IH. intros e He. apply H. right; exact He.
Qed.
Lemma lookup_in t k : kmap_ok t = true -> (lookup t k <> None <-> In k (keys_of t)).
Proof.
  induction t as [|[k' v] t IH]; intros Hs; cbn [lookup keys_of map In].
  - tauto.
  - apply kmap_ok_cons in Hs as [_ Hs]. destruct (key_eqb k k') eqn:E.
    + apply key_eqb_eq in E. subst. split; [auto|discriminate].
    + apply key_eqb_neq in E. fold (keys_of t). rewrite (IH Hs). cbn. split; [auto|]. intros [H|H]; congruence.
Qed.

(* with k a lower bound, k is in a stream iff it is its head *)
Lemma lookup_head t k : kmap_ok t = true -> Forall (fun e => kle k (fst e)) t ->
  lookup t k = match t with e :: _ => if key_eqb (fst e) k then Some (snd e) else None | [] => None end.
Proof.
  destruct t as [|[k' v] t]; intros Hs Hl; [reflexivity|]. cbn [lookup fst snd].
  rewrite (key_eqb_sym k k'). destruct (key_eqb k' k) eqn:E; [reflexivity|].
  apply lookup_none. intros e He. apply kmap_ok_cons in Hs as [Hs _]. rewrite Forall_forall in Hs.
  inversion Hl; subst. cbn in H1. apply key_eqb_neq in E.
  intros <-. specialize (Hs e He). cbn in Hs.
  apply (klt_irrefl k'). eapply klt_kle_trans; eauto.
Qed.

Lemma lookup_drop k k' t : k' <> k -> lookup (drop_head k t) k' = lookup t k'.
Proof.
  destruct t as [|[k0 v] t]; intros H; [reflexivity|]. cbn [drop_head fst].
  destruct (key_eqb k0 k) eqn:E; [|reflexivity].
  apply key_eqb_eq in E. subst. cbn [lookup].
  apply key_eqb_neq in H. rewrite H. reflexivity.
Qed.

Lemma drop_head_keys k t x : kmap_ok t = true -> Forall (fun e => kle k (fst e)) t ->
  (In x (keys_of (drop_head k t)) <-> In x (keys_of t) /\ x <> k).
Proof.
  destruct t as [|[k0 v] t]; intros Hs Hl; cbn [drop_head fst].
  - cbn. tauto.
  - apply kmap_ok_cons in Hs as [Hf Hs]. rewrite Forall_forall in Hf. inversion Hl; subst. cbn in H1.
    assert (forall y, In y (keys_of t) -> klt k0 y) as Hgt.
    { intros y Hy. apply in_map_iff in Hy as (e & <- & He). exact (Hf e He). }
    destruct (key_eqb k0 k) eqn:E.
    + apply key_eqb_eq in E. subst. cbn [keys_of map In fst]. fold (keys_of t). split.
      * intros H. split; [auto|]. intros ->. exact (klt_irrefl _ (Hgt _ H)).
      * intros [[H|H] N]; [congruence|exact H].
    + apply key_eqb_neq in E. split; [|tauto]. intros H. split; [exact H|].
      intros ->. cbn [keys_of map In fst] in H. destruct H as [H|H]; [congruence|].
      fold (keys_of t) in H. apply (klt_irrefl k). eapply kle_klt_trans; [exact H1|auto].
Qed.

Lemma drop_head_ok k t : kmap_ok t = true -> kmap_ok (drop_head k t) = true.
Proof.
  destruct t as [|e t]; [auto|]. cbn [drop_head]. destruct (key_eqb (fst e) k); [|auto].
  intros H. apply kmap_ok_cons in H. tauto.
Qed.
Lemma drop_key_ok k T : streams_ok T -> streams_ok (drop_key k T).
Proof. unfold streams_ok, drop_key. rewrite Forall_map. apply Forall_impl. intros t. apply drop_head_ok. Qed.
Lemma drop_key_length k T : length (drop_key k T) = length T.
Proof. apply map_length. Qed.

Lemma all_keys_unfold k T : streams_ok T -> lower_bound k T ->
  (exists t, In t T /\ In k (keys_of t)) ->
  all_keys T = k :: all_keys (drop_key k T).
Proof.
  intros Hs Hl Hk. unfold streams_ok, lower_bound in *. rewrite Forall_forall in Hs, Hl.
  assert (forall x, In x (all_keys (drop_key k T)) <-> (exists t, In t T /\ In x (keys_of t)) /\ x <> k) as Hm.
  { intros x. rewrite all_keys_in. unfold drop_key. split.
    - intros (s & Hin & Hx). apply in_map_iff in Hin as (t & <- & Ht).
      apply drop_head_keys in Hx; auto. destruct Hx. split; eauto.
    - intros [(t & Ht & Hx) N]. exists (drop_head k t). split; [apply in_map; exact Ht|].
      apply drop_head_keys; auto. }
  apply sorted_unique.
  - apply all_keys_sorted.
  - apply sorted_cons. split; [|apply all_keys_sorted].
    apply Forall_forall. intros x Hx. apply Hm in Hx as [(t & Ht & Hx) N].
    apply in_map_iff in Hx as (e & <- & He).
    specialize (Hl t Ht). rewrite Forall_forall in Hl. specialize (Hl e He).
    apply kle_cases in Hl as [Hl|Hl]; [exact Hl|congruence].
  - intros x. rewrite all_keys_in. cbn [In]. rewrite Hm. split.
    + intros H. destruct (key_eqb x k) eqn:E.
      * apply key_eqb_eq in E. auto.
      * apply key_eqb_neq in E. auto.
    + intros [<-|[H _]]; auto.
Qed.

Lemma outs_from_drop i k k' T : k' <> k -> outs_from i k' (drop_key k T) = outs_from i k' T.
Proof.
  intros N. revert i; induction T as [|t T IH]; intros i; [reflexivity|].
  cbn [drop_key map outs_from]. rewrite lookup_drop by exact N. f_equal. apply IH.
Qed.

Lemma spec_union_unfold k T : streams_ok T -> lower_bound k T ->
  (exists t, In t T /\ In k (keys_of t)) ->
  spec_union T = (k, outs_of k T) :: spec_union (drop_key k T).
Proof.
  intros Hs Hl Hk. unfold spec_union. pose proof (all_keys_sorted T) as Hsort.
  rewrite (all_keys_unfold k T Hs Hl Hk) in *. cbn [map]. f_equal.
  apply map_ext_in. intros x Hx. f_equal. unfold outs_of. symmetry. apply outs_from_drop.
  apply sorted_cons in Hsort as [F _]. rewrite Forall_forall in F.
  intros ->. exact (klt_irrefl _ (F _ Hx)).
Qed.

Lemma spec_sel_unfold op k T : streams_ok T -> lower_bound k T ->
  (exists t, In t T /\ In k (keys_of t)) ->
  spec_sel op T = (if keeps op (length (outs_of k T)) (length T) then [(k, outs_of k T)] else [])
                  ++ spec_sel op (drop_key k T).
Proof.
  intros Hs Hl Hk. unfold spec_sel. rewrite (spec_union_unfold k T Hs Hl Hk).
  cbn [filter snd]. rewrite drop_key_length.
  destruct (keeps op (length (outs_of k T)) (length T)); reflexivity.
Qed.

Lemma spec_union_nil T : Forall (fun t => t = []) T -> spec_union T = [].
Proof.
  intros H. unfold spec_union, all_keys.
  replace (concat (map keys_of T)) with (@nil key); [reflexivity|].
  induction H as [|t T -> _ IH]; [reflexivity|]. cbn. exact IH.
Qed.

(* ================= what a StreamHeap stands for ================= *)
(* [T] lists, per reader, the items not yet consumed.  A reader is either "held" (its current
   item has been taken out of the heap and not yet replaced: nothing of it is in the heap and
   the reader itself still has all of T[i]) or not (the head of T[i] sits in the heap, the
   reader has the tail). *)
Definition mask := nat -> bool.
Definition hnone : mask := fun _ => false.
Definition hset (h : mask) (i : nat) (b : bool) : mask := fun j => if Nat.eqb j i then b else h j.
Definition hfrom (m : nat) : mask := fun j => Nat.leb m j.

Definition head_slot (i : nat) (t : list kv) : list slot :=
  match t with [] => [] | e :: _ => [mkslot i (fst e) (snd e)] end.
Fixpoint slots_from (h : mask) (o : nat) (T : list (list kv)) : list slot :=
  match T with
  | [] => []
  | t :: r => (if h o then [] else head_slot o t) ++ slots_from h (S o) r
  end.
(* the state of a reader whose head item sits in the heap - or, if it has none, which has
   returned None: it is [Done 0] then and, not being held, will not be polled again *)
Definition unheld (t : list kv) : rstate := match t with [] => Done 0 | _ :: t' => Live t' end.
Fixpoint rdrs_from (h : mask) (o : nat) (T : list (list kv)) : list rstate :=
  match T with
  | [] => []
  | t :: r => (if h o then Live t else unheld t) :: rdrs_from h (S o) r
  end.
Definition rep (h : mask) (u : sheap) (T : list (list kv)) : Prop :=
  map r_state (rdrs u) = rdrs_from h 0 T /\ Permutation (heap u) (slots_from h 0 T).

Lemma hset_same h i b : hset h i b i = b.
Proof. unfold hset. now rewrite Nat.eqb_refl. Qed.
Lemma hset_other h i b j : j <> i -> hset h i b j = h j.
Proof. unfold hset. intros H. apply Nat.eqb_neq in H. now rewrite H. Qed.

Lemma from_ext h1 h2 T : forall o, (forall j, (j < length T)%nat -> h1 (o + j)%nat = h2 (o + j)%nat) ->
  slots_from h1 o T = slots_from h2 o T /\ rdrs_from h1 o T = rdrs_from h2 o T.
Proof.
  induction T as [|t T IH]; intros o H; [auto|]. cbn [slots_from rdrs_from].
  pose proof (H O ltac:(cbn; lia)) as H0. rewrite Nat.add_0_r in H0. rewrite H0.
  destruct (IH (S o)) as [E1 E2].
  { intros j Hj. specialize (H (S j) ltac:(cbn; lia)). rewrite Nat.add_succ_r in H. exact H. }
  rewrite E1, E2. auto.
Qed.
Lemma rep_ext h1 h2 u T : (forall j, (j < length T)%nat -> h1 j = h2 j) -> rep h1 u T -> rep h2 u T.
Proof.
  intros H [R P]. destruct (from_ext h1 h2 T O H) as [E1 E2]. split; congruence.
Qed.

Lemma rdrs_from_length h T : forall o, length (rdrs_from h o T) = length T.
Proof. induction T as [|t T IH]; intros o; cbn; [reflexivity|]. now rewrite IH. Qed.
Lemma rdrs_from_nth h T : forall o j, nth_error (rdrs_from h o T) j
  = option_map (fun t => if h (o + j)%nat then Live t else unheld t) (nth_error T j).
Proof.
  induction T as [|t T IH]; intros o [|j]; cbn [rdrs_from nth_error option_map]; try reflexivity.
  - now rewrite Nat.add_0_r.
  - rewrite IH. now rewrite Nat.add_succ_r.
Qed.

Lemma slots_in h T s : forall o, In s (slots_from h o T) <->
  exists j e t', nth_error T j = Some (e :: t') /\ h (o + j)%nat = false /\ s = mkslot (o + j) (fst e) (snd e).
Proof.
  induction T as [|t T IH]; intros o; cbn [slots_from].
  - split; [intros []|]. intros ([|j] & e & t' & H & _); discriminate.
  - rewrite in_app_iff, IH. split.
    + intros [H|(j & e & t' & H1 & H2 & H3)].
      * destruct (h o) eqn:Eh; [destruct H|]. destruct t as [|e t']; [destruct H|].
        destruct H as [H|[]]. exists O, e, t'. rewrite Nat.add_0_r. auto.
      * exists (S j), e, t'. rewrite Nat.add_succ_r. auto.
    + intros ([|j] & e & t' & H1 & H2 & H3).
      * left. rewrite Nat.add_0_r in *. cbn in H1. inversion H1; subst. rewrite H2. left; reflexivity.
      * right. exists j, e, t'. rewrite Nat.add_succ_r in *. auto.
Qed.

(* a held reader gets its item back into the heap (refill) *)
Lemma unhold h T t : forall o j, nth_error T j = Some t -> h (o + j)%nat = true ->
  rdrs_from (hset h (o + j) false) o T = set_nth (rdrs_from h o T) j (unheld t) /\
  Permutation (slots_from (hset h (o + j) false) o T) (head_slot (o + j) t ++ slots_from h o T).
Proof.
  induction T as [|t0 T IH]; intros o [|j] Hn Hh; try discriminate.
  - cbn in Hn. inversion Hn; subst t0. rewrite Nat.add_0_r in *.
    cbn [rdrs_from slots_from set_nth]. rewrite hset_same, Hh.
    destruct (from_ext (hset h o false) h T (S o)) as [E1 E2].
    { intros j Hj. apply hset_other. lia. }
    rewrite E1, E2. split; [reflexivity|]. cbn. apply Permutation_refl.
  - cbn in Hn. rewrite Nat.add_succ_r in *. cbn [rdrs_from slots_from set_nth].
    rewrite hset_other by lia.
    destruct (IH (S o) j Hn Hh) as [E1 P]. cbn [Nat.add] in E1, P.
    rewrite E1. split; [reflexivity|].
    rewrite P. rewrite !app_assoc. apply Permutation_app_tail. apply Permutation_app_comm.
Qed.

(* what a held reader still has does not show in the heap *)
Lemma held_irrelevant h x T : forall o j, h (o + j)%nat = true ->
  slots_from h o (set_nth T j x) = slots_from h o T /\
  rdrs_from h o (set_nth T j x) = set_nth (rdrs_from h o T) j (Live x).
Proof.
  induction T as [|t0 T IH]; intros o [|j] Hh; cbn [set_nth slots_from rdrs_from]; auto.
  - rewrite Nat.add_0_r in Hh. rewrite Hh. auto.
  - rewrite Nat.add_succ_r in Hh. destruct (IH (S o) j Hh) as [E1 E2]. rewrite E1, E2. auto.
Qed.

Lemma set_nth_nth {A} (l : list A) : forall j x, nth_error l j = Some x -> set_nth l j x = l.
Proof. induction l as [|y l IH]; intros [|j] x H; cbn in *; try congruence. f_equal. auto. Qed.
Lemma set_nth_set_nth {A} (l : list A) : forall j x y, set_nth (set_nth l j x) j y = set_nth l j y.
Proof. induction l as [|z l IH]; intros [|j] x y; cbn; auto. f_equal. apply IH. Qed.
Lemma nth_error_set_nth {A} (l : list A) : forall j i x, (j < length l)%nat ->
  nth_error (set_nth l j x) i = if Nat.eqb i j then Some x else nth_error l i.
Proof.
  induction l as [|z l IH]; intros [|j] [|i] x H; cbn in *; try lia; auto.
  apply IH. lia.
Qed.
Lemma set_nth_length {A} (l : list A) : forall j x, length (set_nth l j x) = length l.
Proof. induction l as [|z l IH]; intros [|j] x; cbn; auto. Qed.
Lemma nth_error_lt {A} (l : list A) j x : nth_error l j = Some x -> (j < length l)%nat.
Proof. intros H. apply nth_error_Some. congruence. Qed.

(* taking the head of reader j out of the heap (pop) *)
Lemma hold h T e t' : forall j, nth_error T j = Some (e :: t') -> h j = false ->
  rdrs_from (hset h j true) 0 (set_nth T j t') = rdrs_from h 0 T /\
  Permutation (slots_from h 0 T) (mkslot j (fst e) (snd e) :: slots_from (hset h j true) 0 (set_nth T j t')).
Proof.
  intros j Hn Hh. set (h' := hset h j true).
  assert (h' (0 + j)%nat = true) as Hh' by apply hset_same.
  destruct (held_irrelevant h' t' T 0 j Hh') as [E1 E2].
  destruct (unhold h' T (e :: t') 0 j Hn Hh') as [E3 P]. cbn [Nat.add] in *.
  destruct (from_ext (hset h' j false) h T 0) as [E4 E5].
  { intros i _. cbn. unfold h', hset. destruct (Nat.eqb i j) eqn:E; [|reflexivity].
    apply Nat.eqb_eq in E. subst. auto. }
  rewrite E4, E5 in *. split.
  - rewrite E2, E3. reflexivity.
  - rewrite E1. exact P.
Qed.

Lemma total_set_nth T : forall j t x, nth_error T j = Some t ->
  (total (set_nth T j x) + length t = total T + length x)%nat.
Proof.
  unfold total.
  induction T as [|t0 T IH]; intros [|j] t x H; cbn in *; try discriminate.
  - inversion H; subst. lia.
  - specialize (IH j t x H). lia.
Qed.
Lemma from_size h T : forall o, (length (slots_from h o T) + total (map live_of (rdrs_from h o T)) = total T)%nat.
Proof.
  induction T as [|t T IH]; intros o; [reflexivity|].
  cbn [slots_from rdrs_from map total fold_right]. rewrite app_length.
  specialize (IH (S o)). unfold total in IH.
  destruct (h o); [cbn; lia|]. destruct t; cbn; lia.
Qed.
Lemma rep_size h u T : rep h u T -> hsize u = total T.
Proof.
  intros [R P]. unfold hsize, rtotal. rewrite <- (map_map r_state live_of), R, (Permutation_length P). apply from_size.
Qed.
Lemma map_set_nth {A B} (f : A -> B) (l : list A) : forall j x, map f (set_nth l j x) = set_nth (map f l) j (f x).
Proof. induction l as [|y l IH]; intros [|j] x; cbn; auto. f_equal. apply IH. Qed.
(* the readers of a represented heap have never been polled after their None *)
Lemma rdrs_from_no_again h T : forall o, Forall (fun s => match s with Done (S _) => False | _ => True end) (rdrs_from h o T).
Proof.
  induction T as [|t T IH]; intros o; cbn [rdrs_from]; constructor; [|apply IH].
  destruct (h o); [exact I|]. destruct t; exact I.
Qed.
Lemma rep_no_again h u T : rep h u T -> Forall (fun r => again_of r = O) (rdrs u).
Proof.
  intros [R _]. pose proof (rdrs_from_no_again h T 0) as H. rewrite <- R, Forall_map in H.
  eapply Forall_impl; [|exact H]. intros r. unfold again_of. destruct (r_state r) as [|[|n]]; tauto.
Qed.

(* ================= slots and their order ================= *)
Definition hask (k : key) (s : slot) : bool := key_eqb (input s) k.
(* the (index, value) entries of the slots holding key k *)
Definition kouts (k : key) (l : list slot) : list iv := map indexed_value (filter (hask k) l).

Lemma perm_filter {A} (f : A -> bool) l l' : Permutation l l' -> Permutation (filter f l) (filter f l').
Proof.
  induction 1 as [|x l l' _ IH|x y l|l l' l'' _ IH1 _ IH2]; cbn.
  - constructor.
  - destruct (f x); [constructor|]; exact IH.
  - destruct (f x), (f y); try apply Permutation_refl. constructor.
  - eapply Permutation_trans; eauto.
Qed.
Lemma kouts_perm k l l' : Permutation l l' -> Permutation (kouts k l) (kouts k l').
Proof. intros H. unfold kouts. apply Permutation_map, perm_filter, H. Qed.

Lemma slot_leb_kle s t : slot_leb s t = true -> kle (input s) (input t).
Proof. unfold slot_leb, kle. destruct (lex_cmp (input s) (input t)); congruence. Qed.

Lemma slots_none_nil T : forall o, slots_from hnone o T = [] -> Forall (fun t => t = []) T.
Proof.
  induction T as [|t T IH]; intros o H; [constructor|]. cbn [slots_from hnone] in H.
  apply app_eq_nil in H as [H1 H2]. constructor; [|eapply IH; eauto].
  destruct t; [reflexivity|discriminate].
Qed.

Lemma lower_bound_of_heads k T : streams_ok T ->
  (forall j e t', nth_error T j = Some (e :: t') -> kle k (fst e)) -> lower_bound k T.
Proof.
  intros Hs Hh. unfold lower_bound, streams_ok in *. rewrite Forall_forall in *.
  intros t Ht. destruct (In_nth_error _ _ Ht) as [j Hj].
  destruct t as [|e t']; [constructor|]. specialize (Hh j e t' Hj).
  constructor; [exact Hh|]. specialize (Hs _ Ht). apply kmap_ok_cons in Hs as [Hs _].
  eapply Forall_impl; [|exact Hs]. intros x Hx. apply klt_kle. eapply kle_klt_trans; eauto.
Qed.

Lemma outs_from_slots k T : streams_ok T -> lower_bound k T ->
  forall o, outs_from o k T = kouts k (slots_from hnone o T).
Proof.
  unfold streams_ok, lower_bound. induction T as [|t T IH]; intros Hs Hl o; [reflexivity|].
  inversion Hs; subst. inversion Hl; subst. cbn [outs_from slots_from hnone].
  unfold kouts. rewrite filter_app, map_app. fold (kouts k (slots_from hnone (S o) T)).
  rewrite <- IH by assumption. f_equal.
  rewrite lookup_head by assumption. destruct t as [|e t']; [reflexivity|].
  cbn [head_slot filter]. unfold hask. cbn [input]. destruct (key_eqb (fst e) k); reflexivity.
Qed.

Lemma streams_ok_set_nth T j e t' : streams_ok T -> nth_error T j = Some (e :: t') -> streams_ok (set_nth T j t').
Proof.
  unfold streams_ok. rewrite !Forall_forall. intros Hs Hn t Ht.
  destruct (In_nth_error _ _ Ht) as [i Hi].
  rewrite nth_error_set_nth in Hi by (eapply nth_error_lt; eauto).
  destruct (Nat.eqb i j).
  - inversion Hi; subst. apply nth_error_In in Hn. apply Hs in Hn. apply kmap_ok_cons in Hn. tauto.
  - apply Hs. eapply nth_error_In; eauto.
Qed.

Lemma drop_key_id k T : (forall t e t', In t T -> t = e :: t' -> fst e <> k) -> drop_key k T = T.
Proof.
  intros H. unfold drop_key. rewrite <- (map_id T) at 2. apply map_ext_in. intros t Ht.
  destruct t as [|e t']; [reflexivity|]. cbn [drop_head].
  specialize (H _ e t' Ht eq_refl). apply key_eqb_neq in H. now rewrite H.
Qed.
Lemma drop_key_set_nth k T : forall j t t', nth_error T j = Some t -> drop_head k t' = drop_head k t ->
  drop_key k (set_nth T j t') = drop_key k T.
Proof.
  induction T as [|t0 T IH]; intros [|j] t t' Hn E; cbn in *; try discriminate.
  - inversion Hn; subst. now rewrite E.
  - f_equal. eapply IH; eauto.
Qed.
(* dropping the head e of a sorted stream e :: t' *)
Lemma drop_head_tail e t' : kmap_ok (e :: t') = true -> drop_head (fst e) t' = drop_head (fst e) (e :: t').
Proof.
  intros H. cbn [drop_head]. rewrite key_eqb_refl. destruct t' as [|e' t'']; [reflexivity|].
  cbn [drop_head]. apply kmap_ok_cons in H as [H _]. inversion H; subst.
  apply klt_neq in H2. assert (fst e' <> fst e) as N by congruence. apply key_eqb_neq in N. now rewrite N.
Qed.

(* ================= difference: vocabulary ================= *)
(* drop every leading item whose key is <= k *)
Fixpoint drop_le (k : key) (t : list kv) : list kv :=
  match t with
  | e :: r => if key_leb (fst e) k then drop_le k r else t
  | [] => []
  end.

Lemma drop_le_ok k t : kmap_ok t = true -> kmap_ok (drop_le k t) = true.
Proof.
  induction t as [|e t IH]; intros H; [auto|]. cbn [drop_le]. destruct (key_leb (fst e) k); [|exact H].
  apply IH. apply kmap_ok_cons in H. tauto.
Qed.
Lemma has_key_cons k e t : has_key k (e :: t) = key_eqb (fst e) k || has_key k t.
Proof. reflexivity. Qed.
Lemma has_key_in k t : has_key k t = true <-> In k (keys_of t).
Proof.
  unfold has_key. rewrite existsb_exists. split.
  - intros (e & He & Hk). apply key_eqb_eq in Hk. subst. apply in_map. exact He.
  - intros H. apply in_map_iff in H as (e & <- & He). exists e. split; [exact He|apply key_eqb_refl].
Qed.
Lemma has_key_drop_le k x t : klt k x -> has_key x (drop_le k t) = has_key x t.
Proof.
  intros Hx. induction t as [|e t IH]; [reflexivity|]. cbn [drop_le].
  destruct (key_leb (fst e) k) eqn:E; [|reflexivity]. rewrite has_key_cons, IH.
  apply key_leb_kle in E. assert (fst e <> x) as N.
  { intros <-. apply (klt_irrefl k). eapply klt_kle_trans; eauto. }
  apply key_eqb_neq in N. now rewrite N.
Qed.
(* a sorted stream whose head is above k does not contain k *)
Lemma has_key_above k e t : kmap_ok (e :: t) = true -> klt k (fst e) -> has_key k (e :: t) = false.
Proof.
  intros Hok Hlt. apply not_true_is_false. intros H. apply has_key_in in H.
  apply in_map_iff in H as (x & Ex & Hx). destruct Hx as [<-|Hx].
  - rewrite Ex in Hlt. exact (klt_irrefl _ Hlt).
  - apply kmap_ok_cons in Hok as [Hok _]. rewrite Forall_forall in Hok. specialize (Hok x Hx).
    rewrite Ex in Hok. apply (klt_irrefl k). eapply klt_trans; eauto.
Qed.

Lemma in_set_nth_1 {A} (l : list A) : forall j x y, In y (set_nth l j x) -> y = x \/ In y l.
Proof.
  induction l as [|z l IH]; intros [|j] x y H; cbn in *; auto.
  - destruct H; auto.
  - destruct H as [H|H]; auto. apply IH in H. tauto.
Qed.
Lemma in_set_nth_2 {A} (l : list A) : forall j x z y, nth_error l j = Some z -> In y l -> y = z \/ In y (set_nth l j x).
Proof.
  induction l as [|w l IH]; intros [|j] x z y Hn H; cbn in *; try discriminate.
  - inversion Hn; subst. destruct H; auto.
  - destruct H as [H|H]; auto. destruct (IH j x z y Hn H); auto.
Qed.
Lemma in_set_nth_3 {A} (l : list A) : forall j x z, nth_error l j = Some z -> In x (set_nth l j x).
Proof.
  induction l as [|w l IH]; intros [|j] x z Hn; cbn in *; try discriminate; auto. right. eapply IH; eauto.
Qed.
Lemma map_set_nth_same {A B} (f : A -> B) (l : list A) : forall j t t', nth_error l j = Some t -> f t' = f t ->
  map f (set_nth l j t') = map f l.
Proof.
  induction l as [|t0 l IH]; intros [|j] t t' Hn E; cbn in *; try discriminate.
  - inversion Hn; subst. now rewrite E.
  - f_equal. eapply IH; eauto.
Qed.

(* no head is <= k: nothing to drop, and k is in none of the streams *)
Lemma no_le_left k T : streams_ok T -> forall o,
  (forall s', In s' (slots_from hnone o T) -> key_leb (input s') k = false) ->
  map (drop_le k) T = T /\ (forall t, In t T -> has_key k t = false).
Proof.
  unfold streams_ok. induction T as [|t T IH]; intros Hs o H; [split; [reflexivity|intros t []]|].
  inversion Hs; subst. cbn [slots_from hnone] in H.
  destruct (IH H3 (S o)) as [E1 E2]. { intros s' Hs'. apply H. apply in_or_app. auto. }
  assert (drop_le k t = t /\ has_key k t = false) as [E3 E4].
  { destruct t as [|e t']; [auto|]. specialize (H (mkslot o (fst e) (snd e)) ltac:(left; reflexivity)).
    cbn [input] in H. cbn [drop_le]. rewrite H. split; [reflexivity|].
    apply has_key_above; [exact H2|]. apply nkle_klt. intros C. apply key_leb_kle in C. congruence. }
  split.
  - cbn [map]. now rewrite E1, E3.
  - intros x [<-|Hx]; auto.
Qed.

(* ================= small facts used for difference and the predicates ================= *)
Lemma filter_length_le {A} (f : A -> bool) l : (length (filter f l) <= length l)%nat.
Proof. induction l as [|x l IH]; cbn; [lia|]. destruct (f x); cbn; lia. Qed.
Lemma split_last_spec {A} (l : list A) : forall x, x :: l = fst (split_last x l) ++ [snd (split_last x l)].
Proof.
  induction l as [|y l IH]; intros x; [reflexivity|]. cbn [split_last].
  specialize (IH y). destruct (split_last y l) as [i z]. cbn [fst snd] in *. rewrite IH. reflexivity.
Qed.
Lemma swap_remove0_cons {A} (x : A) r : exists r', swap_remove0 (x :: r) = Some (x, r') /\ Permutation r r'.
Proof.
  destruct r as [|y r]; [exists []; split; [reflexivity|constructor]|]. cbn [swap_remove0].
  pose proof (split_last_spec r y) as H. destruct (split_last y r) as [i z]. cbn [fst snd] in H.
  exists (z :: i). split; [reflexivity|]. rewrite H. apply Permutation_sym, Permutation_cons_append.
Qed.
Lemma existsb_perm {A} (f : A -> bool) l l' : Permutation l l' -> existsb f l = existsb f l'.
Proof.
  induction 1 as [|x l l' _ IH|x y l|l l' l'' _ IH1 _ IH2]; cbn; try congruence.
  destruct (f x), (f y); reflexivity.
Qed.
Lemma spec_diff_perm s0 r r' : Permutation r r' -> spec_diff_of s0 r = spec_diff_of s0 r'.
Proof. intros H. unfold spec_diff_of. f_equal. apply filter_ext. intros e. f_equal. apply existsb_perm, H. Qed.
Lemma out_eqv_singletons a b : out_eqv a b -> Forall (fun e => exists x, snd e = [x]) b -> a = b.
Proof.
  induction 1 as [|[k o] [k' o'] a b [H1 H2] _ IH]; intros HF; [reflexivity|].
  inversion HF; subst. cbn [fst snd] in *. destruct H3 as [x ->].
  apply Permutation_sym, Permutation_length_1_inv in H2. subst. f_equal. auto.
Qed.
Lemma out_eqv_length a b : out_eqv a b -> length a = length b.
Proof. induction 1; cbn; congruence. Qed.

Lemma sorted_filter f l : sorted_strict l = true -> sorted_strict (filter f l) = true.
Proof.
  induction l as [|x l IH]; intros H; [reflexivity|]. apply sorted_cons in H as [F H]. cbn [filter].
  destruct (f x); [|auto]. apply sorted_cons. split; [|auto].
  rewrite Forall_forall in *. intros y Hy. apply filter_In in Hy as [Hy _]. auto.
Qed.
Lemma sorted_nodup l : sorted_strict l = true -> NoDup l.
Proof.
  induction l as [|x l IH]; intros H; [constructor|]. apply sorted_cons in H as [F H].
  constructor; [|auto]. intros C. rewrite Forall_forall in F. exact (klt_irrefl _ (F _ C)).
Qed.
Lemma map_fst_filter_map (F : key -> list iv) (g : list iv -> bool) l :
  map fst (filter (fun e : item => g (snd e)) (map (fun k => (k, F k)) l)) = filter (fun k => g (F k)) l.
Proof. induction l as [|k l IH]; [reflexivity|]. cbn. destruct (g (F k)); cbn; now rewrite IH. Qed.
Lemma spec_sel_keys op ss :
  map fst (spec_sel op ss) = filter (fun k => keeps op (length (outs_of k ss)) (length ss)) (all_keys ss).
Proof. unfold spec_sel, spec_union. apply (map_fst_filter_map (fun k => outs_of k ss) (fun o => keeps op (length o) (length ss))). Qed.
Lemma spec_union_keys ss : map fst (spec_union ss) = all_keys ss.
Proof. unfold spec_union. rewrite map_map. cbn. apply map_id. Qed.

Lemma lookup_has t k : kmap_ok t = true -> (match lookup t k with Some _ => true | None => false end) = has_key k t.
Proof.
  intros H. apply eq_true_iff_eq. rewrite has_key_in, <- (lookup_in t k H).
  destruct (lookup t k); split; congruence.
Qed.
Lemma outs_pair_length k (s0 s1 : list kv) : kmap_ok s0 = true -> kmap_ok s1 = true ->
  length (outs_of k [s0; s1]) = ((if has_key k s0 then 1 else 0) + (if has_key k s1 then 1 else 0))%nat.
Proof.
  intros H0 H1. unfold outs_of. cbn [outs_from]. rewrite !app_length. cbn [length].
  rewrite <- (lookup_has s0 k H0), <- (lookup_has s1 k H1).
  destruct (lookup s0 k), (lookup s1 k); reflexivity.
Qed.

Lemma all_keys_pair_in (s0 s1 : list kv) x : In x (all_keys [s0; s1]) <-> In x (keys_of s0) \/ In x (keys_of s1).
Proof.
  rewrite all_keys_in. split.
  - intros (s & [<-|[<-|[]]] & Hx); auto.
  - intros [H|H]; [exists s0|exists s1]; cbn; auto.
Qed.
Lemma inter_keys (s0 s1 : list kv) : kmap_ok s0 = true -> kmap_ok s1 = true ->
  map fst (spec_intersection [s0; s1]) = filter (fun k => has_key k s1) (keys_of s0).
Proof.
  intros H0 H1. unfold spec_intersection. rewrite spec_sel_keys. apply sorted_unique.
  - apply sorted_filter, all_keys_sorted.
  - apply sorted_filter. exact H0.
  - intros x. rewrite !filter_In, all_keys_pair_in, outs_pair_length by assumption.
    cbn [keeps length]. rewrite <- !has_key_in.
    destruct (has_key x s0), (has_key x s1); cbn; intuition congruence.
Qed.
Lemma filter_length_all {A} (f : A -> bool) l : Nat.eqb (length (filter f l)) (length l) = forallb f l.
Proof.
  induction l as [|x l IH]; [reflexivity|]. cbn [filter forallb length]. destruct (f x); cbn [andb length].
  - exact IH.
  - apply Nat.eqb_neq. pose proof (filter_length_le f l). lia.
Qed.
Lemma filter_nil_all {A} (f : A -> bool) l :
  (match filter f l with [] => true | _ => false end) = forallb (fun x => negb (f x)) l.
Proof.
  induction l as [|x l IH]; [reflexivity|]. cbn [filter forallb]. destruct (f x); cbn; auto.
Qed.
Lemma forallb_map {A B} (g : A -> B) f l : forallb f (map g l) = forallb (fun x => f (g x)) l.
Proof. induction l as [|x l IH]; cbn; congruence. Qed.
Lemma map_nil_match {A B} (g : A -> B) l :
  (match map g l with [] => true | _ => false end) = (match l with [] => true | _ => false end).
Proof. destruct l; reflexivity. Qed.

Lemma union_len_superset (s0 s1 : list kv) : kmap_ok s0 = true -> kmap_ok s1 = true ->
  Nat.eqb (length (all_keys [s0; s1])) (length s0) = spec_superset s0 s1.
Proof.
  intros H0 H1. apply eq_true_iff_eq. unfold spec_superset, spec_subset.
  rewrite Nat.eqb_eq, forallb_forall. split.
  - intros Hlen e He. apply has_key_in.
    assert (incl (all_keys [s0; s1]) (keys_of s0)) as Hincl.
    { apply NoDup_length_incl.
      - apply sorted_nodup. exact H0.
      - unfold keys_of. rewrite map_length. unfold kmap, kv in *. lia.
      - intros x Hx. apply all_keys_pair_in. auto. }
    apply Hincl. apply all_keys_pair_in. right. apply in_map. exact He.
  - intros Hall. replace (all_keys [s0; s1]) with (keys_of s0); [apply map_length|].
    apply sorted_unique; [exact H0|apply all_keys_sorted|].
    intros x. rewrite all_keys_pair_in. split; [auto|]. intros [H|H]; [exact H|].
    apply in_map_iff in H as (e & <- & He). apply has_key_in. auto.
Qed.

(* the boolean specifications of the predicates say what set theory says *)
Lemma spec_subset_iff s0 s1 : spec_subset s0 s1 = true <-> forall k, In k (keys_of s0) -> In k (keys_of s1).
Proof.
  unfold spec_subset. rewrite forallb_forall. split.
  - intros H k Hk. apply in_map_iff in Hk as (e & <- & He). apply has_key_in. auto.
  - intros H e He. apply has_key_in, H, in_map, He.
Qed.
Lemma spec_superset_iff s0 s1 : spec_superset s0 s1 = true <-> forall k, In k (keys_of s1) -> In k (keys_of s0).
Proof. apply spec_subset_iff. Qed.
Lemma spec_disjoint_iff s0 s1 : spec_disjoint s0 s1 = true <-> forall k, In k (keys_of s0) -> ~ In k (keys_of s1).
Proof.
  unfold spec_disjoint. rewrite forallb_forall. split.
  - intros H k Hk. apply in_map_iff in Hk as (e & <- & He). specialize (H e He).
    apply negb_true_iff in H. rewrite <- has_key_in. congruence.
  - intros H e He. apply negb_true_iff, not_true_is_false. rewrite has_key_in. apply H, in_map, He.
Qed.

(* ================= executable heaps are admissible ================= *)
Lemma slot_leb_iff s t : slot_leb s t = true <->
  klt (input s) (input t) \/ (input s = input t /\ (output s <= output t)%N).
Proof.
  unfold slot_leb, klt. destruct (lex_cmp (input s) (input t)) eqn:E.
  - apply lex_cmp_eq in E. rewrite N.leb_le. split; [auto|]. intros [H|[_ H]]; [discriminate|exact H].
  - split; auto.
  - split; [discriminate|]. intros [H|[H _]]; [discriminate|]. apply lex_cmp_eq in H. congruence.
Qed.
Lemma slot_leb_refl s : slot_leb s s = true.
Proof. apply slot_leb_iff. right. split; [reflexivity|lia]. Qed.
Lemma slot_leb_trans a b c : slot_leb a b = true -> slot_leb b c = true -> slot_leb a c = true.
Proof.
  rewrite !slot_leb_iff. intros [H1|[E1 L1]] [H2|[E2 L2]].
  - left. eapply klt_trans; eauto.
  - left. congruence.
  - left. congruence.
  - right. split; [congruence|lia].
Qed.
Lemma slot_leb_total a b : slot_leb a b = false -> slot_leb b a = true.
Proof.
  intros H. apply slot_leb_iff. destruct (kle_total (input a) (input b)) as [Hk|Hk]; [|auto].
  apply kle_cases in Hk as [Hk|Hk].
  - assert (slot_leb a b = true) by (apply slot_leb_iff; auto). congruence.
  - right. split; [auto|]. destruct (N.le_gt_cases (output a) (output b)) as [L|L]; [|lia].
    assert (slot_leb a b = true) by (apply slot_leb_iff; auto). congruence.
Qed.

Lemma pop_min_left_admissible : admissible pop_min_left.
Proof.
  intros h. induction h as [|s r IH]; [reflexivity|]. cbn [pop_min_left].
  destruct (pop_min_left r) as [[m r']|].
  - destruct IH as [P F]. destruct (slot_leb s m) eqn:E.
    + split; [apply Permutation_refl|]. constructor; [apply slot_leb_refl|].
      eapply Forall_impl; [|exact F]. intros t. apply slot_leb_trans. exact E.
    + split.
      * rewrite perm_swap. constructor. exact P.
      * constructor; [apply slot_leb_total; exact E|exact F].
  - subst r. split; [apply Permutation_refl|]. constructor; [apply slot_leb_refl|constructor].
Qed.
Lemma pop_min_right_admissible : admissible pop_min_right.
Proof.
  intros h. induction h as [|s r IH]; [reflexivity|]. cbn [pop_min_right].
  destruct (pop_min_right r) as [[m r']|].
  - destruct IH as [P F]. unfold slot_ltb. destruct (slot_leb m s) eqn:E; cbn [negb].
    + split.
      * rewrite perm_swap. constructor. exact P.
      * constructor; [exact E|exact F].
    + split; [apply Permutation_refl|]. constructor; [apply slot_leb_refl|].
      eapply Forall_impl; [|exact F]. intros t. apply slot_leb_trans. apply slot_leb_total. exact E.
  - subst r. split; [apply Permutation_refl|]. constructor; [apply slot_leb_refl|constructor].
Qed.

(* ================= the operations, for any admissible heap ================= *)
Section WithHeap.
Variable pop_min : list slot -> option (slot * list slot).
Hypothesis Hadm : admissible pop_min.

Lemma refill_rep h u T s t : rep h u T -> nth_error T (idx s) = Some t -> h (idx s) = true ->
  exists u', refill u s = Ok u' /\ rep (hset h (idx s) false) u' T.
Proof.
  intros [R P] Hn Hh. destruct (unhold h T t 0 (idx s) Hn Hh) as [E1 P1]. cbn [Nat.add] in *.
  assert (exists r, nth_error (rdrs u) (idx s) = Some r /\ r_state r = Live t) as (r & Hr & Hst).
  { pose proof (rdrs_from_nth h T 0 (idx s)) as Hx. rewrite <- R, Hn, nth_error_map in Hx. cbn in Hx. rewrite Hh in Hx.
    destruct (nth_error (rdrs u) (idx s)) as [r|]; [|discriminate]. cbn in Hx. inversion Hx. eauto. }
  unfold refill. rewrite Hr. unfold poll. rewrite Hst. destruct t as [|[k v] r0].
  - eexists. split; [reflexivity|]. split; cbn [rdrs heap].
    + rewrite map_set_nth, E1, R. reflexivity.
    + rewrite P1. exact P.
  - eexists. split; [reflexivity|]. split; cbn [rdrs heap].
    + rewrite map_set_nth, E1, R. reflexivity.
    + rewrite P1. cbn. constructor. exact P.
Qed.

Lemma pop_none h u T : rep h u T -> sh_pop pop_min u = None -> slots_from h 0 T = [].
Proof.
  intros [_ P] H. unfold sh_pop in H. pose proof (Hadm (heap u)) as A.
  destruct (pop_min (heap u)) as [[s r]|]; [discriminate|].
  rewrite A in P. apply Permutation_nil in P. exact P.
Qed.

Lemma pop_rep h u T s u1 : rep h u T -> sh_pop pop_min u = Some (s, u1) ->
  exists j e t', s = mkslot j (fst e) (snd e) /\ nth_error T j = Some (e :: t') /\ h j = false /\
    rep (hset h j true) u1 (set_nth T j t') /\
    Permutation (slots_from h 0 T) (s :: slots_from (hset h j true) 0 (set_nth T j t')) /\
    (forall s', In s' (slots_from h 0 T) -> slot_leb s s' = true).
Proof.
  intros [R P] H. unfold sh_pop in H. pose proof (Hadm (heap u)) as A.
  destruct (pop_min (heap u)) as [[s0 r]|]; [|discriminate]. inversion H; subst s0 u1. clear H.
  destruct A as [A1 A2].
  assert (In s (slots_from h 0 T)) as Hin.
  { eapply Permutation_in; [exact P|]. eapply Permutation_in; [exact A1|]. left; reflexivity. }
  apply slots_in in Hin as (j & e & t' & Hn & Hh & Es). cbn [Nat.add] in *.
  destruct (hold h T e t' j Hn Hh) as [E1 P1].
  exists j, e, t'. repeat split; auto; cbn [rdrs heap].
  - rewrite E1. exact R.
  - apply Permutation_cons_inv with (a := s). rewrite A1, P, P1, Es. reflexivity.
  - rewrite P1, Es. reflexivity.
  - intros s' Hs'. rewrite Forall_forall in A2. apply A2.
    eapply Permutation_in; [symmetry; exact P|exact Hs'].
Qed.

(* pop a slot and give it straight back to refill: that reader advances by one item *)
Lemma pop_refill h u T s u1 : rep h u T -> sh_pop pop_min u = Some (s, u1) ->
  exists j e t' u2 R, s = mkslot j (fst e) (snd e) /\ nth_error T j = Some (e :: t') /\ h j = false /\
    refill u1 s = Ok u2 /\ rep h u2 (set_nth T j t') /\
    Permutation (slots_from h 0 T) (s :: R) /\
    Permutation (slots_from h 0 (set_nth T j t')) (head_slot j t' ++ R) /\
    (forall s', In s' (slots_from h 0 T) -> slot_leb s s' = true).
Proof.
  intros Hr Hp. destruct (pop_rep h u T s u1 Hr Hp) as (j & e & t' & Es & Hn & Hh & Hr1 & P1 & Hmin).
  set (T' := set_nth T j t') in *. set (h' := hset h j true) in *.
  assert (nth_error T' j = Some t') as Hn'.
  { unfold T'. rewrite nth_error_set_nth by (eapply nth_error_lt; eauto). now rewrite Nat.eqb_refl. }
  assert (idx s = j) as Ei by (rewrite Es; reflexivity).
  destruct (refill_rep h' u1 T' s t' Hr1) as (u2 & Hf & Hr2).
  { rewrite Ei. exact Hn'. } { rewrite Ei. apply hset_same. }
  rewrite Ei in Hr2.
  assert (forall i, hset h' j false i = h i) as Hext.
  { intros i. unfold h', hset. destruct (Nat.eqb i j) eqn:E; [|reflexivity]. apply Nat.eqb_eq in E. subst. auto. }
  exists j, e, t', u2, (slots_from h' 0 T'). repeat split; auto.
  - eapply rep_ext; [|exact Hr2]. intros i _. apply Hext.
  - destruct Hr2 as [E2 P2]. eapply rep_ext; [|split; [exact E2|exact P2]]. intros i _. apply Hext.
  - destruct (unhold h' T' t' 0 j Hn' (hset_same _ _ _)) as [_ P3]. cbn [Nat.add] in P3.
    destruct (from_ext (hset h' j false) h T' 0) as [E4 _]. { intros i _. apply Hext. }
    fold T'. rewrite <- E4. exact P3.
Qed.

Lemma peek_pop u : sh_peek pop_min u = option_map fst (sh_pop pop_min u).
Proof. unfold sh_peek, sh_pop. destruct (pop_min (heap u)) as [[s r]|]; reflexivity. Qed.

Lemma filter_none {A} (f : A -> bool) l : (forall x, In x l -> f x = false) -> filter f l = [].
Proof.
  induction l as [|x l IH]; intros H; [reflexivity|]. cbn. rewrite (H x) by (left; reflexivity).
  apply IH. intros y Hy. apply H. right; exact Hy.
Qed.

(* no slot of the heap carries k, and no held reader starts with k: nothing to drop *)
Lemma no_key_left h k T :
  (forall s', In s' (slots_from h 0 T) -> hask k s' = false) ->
  (forall j e t', nth_error T j = Some (e :: t') -> h j = true -> fst e <> k) ->
  drop_key k T = T /\ kouts k (slots_from h 0 T) = [].
Proof.
  intros H1 H2. split.
  - apply drop_key_id. intros t e t' Ht ->. destruct (In_nth_error _ _ Ht) as [j Hj].
    destruct (h j) eqn:Eh; [eapply H2; eauto|].
    specialize (H1 (mkslot j (fst e) (snd e))). unfold hask in H1. cbn [input] in H1.
    apply key_eqb_neq. apply H1. apply slots_in. exists j, e, t'. auto.
  - unfold kouts. rewrite filter_none; auto.
Qed.

Lemma drain_spec h k : forall fuel u T outs popped,
  rep h u T -> streams_ok T ->
  (forall j e t', nth_error T j = Some (e :: t') -> h j = false -> kle k (fst e)) ->
  (forall j e t', nth_error T j = Some (e :: t') -> h j = true -> fst e <> k) ->
  (length (filter (hask k) (slots_from h 0 T)) < fuel)%nat ->
  exists u' X, drain_equal pop_min fuel u k outs popped = Some (Ok (u', outs ++ X, (popped + length X)%nat)) /\
    rep h u' (drop_key k T) /\ Permutation X (kouts k (slots_from h 0 T)).
Proof.
  induction fuel as [|f IH]; intros u T outs popped Hr Hs Hge Hheld Hfuel; [lia|].
  cbn [drain_equal]. unfold sh_pop_if_equal. rewrite peek_pop.
  destruct (sh_pop pop_min u) as [[s2 u1]|] eqn:Hp; cbn [option_map fst].
  2:{ pose proof (pop_none h u T Hr Hp) as Hnil.
      destruct (no_key_left h k T) as [E1 E2]; auto. { rewrite Hnil. intros s' []. }
      exists u, []. rewrite app_nil_r, Nat.add_0_r, E1, E2. split; [reflexivity|split; [exact Hr|apply Permutation_refl]]. }
  destruct (pop_refill h u T s2 u1 Hr Hp) as (j & e & t' & u2 & R & Es & Hn & Hh & Hf & Hr2 & P1 & P2 & Hmin).
  assert (input s2 = fst e) as Ein by (rewrite Es; reflexivity).
  destruct (key_eqb (input s2) k) eqn:Ek.
  - apply key_eqb_eq in Ek. rewrite Ein in Ek.
    assert (kmap_ok (e :: t') = true) as Hok.
    { unfold streams_ok in Hs. rewrite Forall_forall in Hs. apply Hs. eapply nth_error_In; eauto. }
    assert (filter (hask k) (head_slot j t') = []) as Hnew.
    { destruct t' as [|e' t'']; [reflexivity|]. cbn [head_slot filter]. unfold hask. cbn [input].
      apply kmap_ok_cons in Hok as [Hok _]. inversion Hok; subst. apply klt_neq in H1.
      assert (fst e' <> fst e) as N by congruence. apply key_eqb_neq in N. now rewrite N. }
    assert (hask k s2 = true) as Hk2. { unfold hask. rewrite Ein, Ek. apply key_eqb_refl. }
    rewrite Hf. cbn [lift fbind].
    set (T' := set_nth T j t') in *.
    assert (forall i, i <> j -> nth_error T' i = nth_error T i) as Hoth.
    { intros i Hi. unfold T'. rewrite nth_error_set_nth by (eapply nth_error_lt; eauto).
      apply Nat.eqb_neq in Hi. now rewrite Hi. }
    assert (nth_error T' j = Some t') as Hj.
    { unfold T'. rewrite nth_error_set_nth by (eapply nth_error_lt; eauto). now rewrite Nat.eqb_refl. }
    destruct (IH u2 T' (outs ++ [indexed_value s2]) (S popped) Hr2) as (u' & X & Hd & Hr' & PX).
    + eapply streams_ok_set_nth; eauto.
    + intros i e0 t0 Hi Hhi. destruct (Nat.eq_dec i j) as [->|Ne].
      * rewrite Hj in Hi. inversion Hi; subst t'. apply kmap_ok_cons in Hok as [Hok _].
        inversion Hok; subst. apply klt_kle. exact H1.
      * rewrite Hoth in Hi by exact Ne. eauto.
    + intros i e0 t0 Hi Hhi. destruct (Nat.eq_dec i j) as [->|Ne]; [congruence|].
      rewrite Hoth in Hi by exact Ne. eauto.
    + rewrite (Permutation_length (perm_filter _ _ _ P2)), filter_app, Hnew. cbn [app].
      rewrite (Permutation_length (perm_filter _ _ _ P1)) in Hfuel. cbn [filter] in Hfuel.
      rewrite Hk2 in Hfuel. cbn [length] in Hfuel. lia.
    + exists u', (indexed_value s2 :: X). rewrite Hd. split; [|split].
      * rewrite <- app_assoc. cbn [app length]. do 3 f_equal. lia.
      * replace (drop_key k T) with (drop_key k T'); [exact Hr'|].
        unfold T'. eapply drop_key_set_nth; [exact Hn|]. subst k. apply drop_head_tail. exact Hok.
      * rewrite (kouts_perm k _ _ P1). unfold kouts at 1. cbn [filter]. rewrite Hk2. cbn [map].
        constructor. rewrite PX, (kouts_perm k _ _ P2). unfold kouts. rewrite filter_app, Hnew. reflexivity.
  - destruct (no_key_left h k T) as [E1 E2]; auto.
    { intros s' Hs'. unfold hask. apply key_eqb_neq. intros Ek'.
      apply key_eqb_neq in Ek. apply Ek.
      apply kle_antisym.
      - rewrite <- Ek'. apply slot_leb_kle. apply Hmin. exact Hs'.
      - rewrite Ein. eapply Hge; eauto. }
    exists u, []. rewrite app_nil_r, Nat.add_0_r, E1, E2. split; [reflexivity|split; [exact Hr|apply Permutation_refl]].
Qed.

Definition hone (i : nat) : mask := hset hnone i true.


(* pop the least slot, then drain every other slot with the same key *)
Lemma group_spec u T s u1 : rep hnone u T -> streams_ok T -> sh_pop pop_min u = Some (s, u1) ->
  exists u2 outs e t',
    drain_equal pop_min (S (length (heap u1))) u1 (input s) [indexed_value s] 1 = Some (Ok (u2, outs, length outs)) /\
    nth_error T (idx s) = Some (e :: t') /\ fst e = input s /\
    rep (hone (idx s)) u2 (drop_key (input s) T) /\
    lower_bound (input s) T /\
    Permutation outs (outs_of (input s) T).
Proof.
  intros Hr Hs Hp.
  destruct (pop_rep hnone u T s u1 Hr Hp) as (j & e & t' & Es & Hn & _ & Hr1 & P1 & Hmin).
  assert (idx s = j) as Ei by (rewrite Es; reflexivity).
  assert (input s = fst e) as Ein by (rewrite Es; reflexivity).
  rewrite Ei, Ein. set (k := fst e) in *. fold (hone j) in *.
  set (T1 := set_nth T j t') in *.
  assert (forall i e0 t0, nth_error T i = Some (e0 :: t0) -> kle k (fst e0)) as Hheads.
  { intros i e0 t0 Hi. rewrite <- Ein.
    change (fst e0) with (input (mkslot i (fst e0) (snd e0))). apply slot_leb_kle, Hmin.
    apply slots_in. exists i, e0, t0. auto. }
  assert (kmap_ok (e :: t') = true) as Hok.
  { unfold streams_ok in Hs. rewrite Forall_forall in Hs. apply Hs. eapply nth_error_In; eauto. }
  assert (forall i, i <> j -> nth_error T1 i = nth_error T i) as Hoth.
  { intros i Hi. unfold T1. rewrite nth_error_set_nth by (eapply nth_error_lt; eauto).
    apply Nat.eqb_neq in Hi. now rewrite Hi. }
  assert (nth_error T1 j = Some t') as Hj.
  { unfold T1. rewrite nth_error_set_nth by (eapply nth_error_lt; eauto). now rewrite Nat.eqb_refl. }
  assert (forall i, hone j i = true <-> i = j) as Hone.
  { intros i. unfold hone, hset, hnone. destruct (Nat.eqb i j) eqn:E.
    - apply Nat.eqb_eq in E. tauto.
    - apply Nat.eqb_neq in E. split; [discriminate|tauto]. }
  destruct (drain_spec (hone j) k (S (length (heap u1))) u1 T1 [indexed_value s] 1 Hr1) as (u2 & X & Hd & Hr2 & PX).
  - eapply streams_ok_set_nth; eauto.
  - intros i e0 t0 Hi Hhi. assert (i <> j) as Ne. { intros ->. rewrite (proj2 (Hone j) eq_refl) in Hhi. discriminate. }
    rewrite Hoth in Hi by exact Ne. eauto.
  - intros i e0 t0 Hi Hhi. apply Hone in Hhi. subst i. rewrite Hj in Hi. inversion Hi; subst t'.
    apply kmap_ok_cons in Hok as [Hok _]. inversion Hok; subst. apply klt_neq in H1. unfold k. congruence.
  - destruct Hr1 as [_ Pu1]. rewrite (Permutation_length Pu1).
    pose proof (filter_length_le (hask k) (slots_from (hone j) 0 T1)). lia.
  - exists u2, ([indexed_value s] ++ X), e, t'. rewrite Hd. split; [|split; [|split; [|split; [|split]]]]; auto.
    + replace (drop_key k T) with (drop_key k T1); [exact Hr2|].
      unfold T1. eapply drop_key_set_nth; [exact Hn|]. apply drop_head_tail. exact Hok.
    + apply lower_bound_of_heads; auto.
    + unfold outs_of. rewrite outs_from_slots; [|exact Hs|apply lower_bound_of_heads; auto].
      rewrite (kouts_perm k _ _ P1). unfold kouts at 1. cbn [filter].
      assert (hask k s = true) as ->. { unfold hask. rewrite Ein. apply key_eqb_refl. }
      cbn [map app]. constructor. exact PX.
Qed.

(* ---------- the states between two calls of next ---------- *)
Definition st_rep (st : opstate) (T : list (list kv)) : Prop :=
  streams_ok T /\
  match o_cur st with
  | None => rep hnone (o_heap st) T
  | Some s => (idx s < length T)%nat /\ rep (hone (idx s)) (o_heap st) T
  end.

Lemma rep_unhold_one i u T s : idx s = i -> (i < length T)%nat -> rep (hone i) u T ->
  exists u', refill u s = Ok u' /\ rep hnone u' T.
Proof.
  intros Ei Hlt Hr. destruct (nth_error T i) as [t|] eqn:Hn.
  2:{ apply nth_error_None in Hn. lia. }
  destruct (refill_rep (hone i) u T s t Hr) as (u' & Hf & Hr').
  - now rewrite Ei. - rewrite Ei. apply hset_same.
  - exists u'. split; [exact Hf|]. eapply rep_ext; [|exact Hr']. intros j _. rewrite Ei.
    unfold hone, hset, hnone. destruct (Nat.eqb j i); reflexivity.
Qed.

Lemma refill_cur_spec st T : st_rep st T -> exists u, refill_cur st = Ok u /\ rep hnone u T.
Proof.
  intros [_ H]. unfold refill_cur. destruct (o_cur st) as [s|].
  - destruct H as [Hlt Hr]. eapply rep_unhold_one; eauto.
  - eauto.
Qed.

Lemma total_cons t T : total (t :: T) = (length t + total T)%nat.
Proof. reflexivity. Qed.
Lemma drop_head_len k t : (length (drop_head k t) <= length t)%nat.
Proof. destruct t as [|e t]; cbn [drop_head]; [lia|]. destruct (key_eqb (fst e) k); cbn; lia. Qed.
Lemma total_drop_le k T : (total (drop_key k T) <= total T)%nat.
Proof.
  induction T as [|t T IH]; [cbn; lia|]. cbn [drop_key map]. fold (drop_key k T).
  rewrite !total_cons. pose proof (drop_head_len k t). lia.
Qed.
Lemma total_drop_lt k T : forall i e t', nth_error T i = Some (e :: t') -> fst e = k ->
  (total (drop_key k T) < total T)%nat.
Proof.
  induction T as [|t T IH]; intros [|i] e t' Hn Ek; cbn [nth_error] in Hn; try discriminate;
    cbn [drop_key map]; fold (drop_key k T); rewrite !total_cons.
  - inversion Hn; subst. cbn [drop_head]. rewrite key_eqb_refl. pose proof (total_drop_le (fst e) T). cbn [length]. lia.
  - specialize (IH i e t' Hn Ek). pose proof (drop_head_len k t). lia.
Qed.

Definition next_ok {St X : Type} (Rep : St -> X -> Prop) (Fin : St -> Prop) (measure : X -> nat) (spec : X -> list item)
  (x : X) (r : option item * St) : Prop :=
  match fst r with
  | None => spec x = [] /\ Fin (snd r)
  | Some it => exists x' outs', Rep (snd r) x' /\ (measure x' < measure x)%nat /\
                 spec x = (fst it, outs') :: spec x' /\ Permutation (snd it) outs'
  end.

(* every reader has returned None exactly once and has not been polled since *)
Definition all_done (st : opstate) : Prop := Forall (fun r => r_state r = Done 0) (rdrs (o_heap st)).
Lemma rep_all_done u T : rep hnone u T -> slots_from hnone 0 T = [] -> Forall (fun r => r_state r = Done 0) (rdrs u).
Proof.
  intros [R _] H. apply slots_none_nil in H.
  assert (forall o, Forall (fun s => s = Done 0) (rdrs_from hnone o T)) as HF.
  { clear R. induction H as [|t T -> _ IH]; intros o; cbn [rdrs_from hnone unheld]; constructor; auto. }
  specialize (HF 0%nat). rewrite <- R, Forall_map in HF. exact HF.
Qed.

Lemma union_next_spec st T : st_rep st T ->
  exists r, union_next pop_min st = Some (Ok r) /\ next_ok st_rep all_done total spec_union T r.
Proof.
  intros Hst. destruct (refill_cur_spec st T Hst) as (u & Hf & Hr). destruct Hst as [Hs _].
  unfold union_next. rewrite Hf. cbn [lift fbind].
  destruct (sh_pop pop_min u) as [[s u1]|] eqn:Hp.
  - destruct (group_spec u T s u1 Hr Hs Hp) as (u2 & outs & e & t' & Hd & Hn & Ek & Hr2 & Hlb & PX).
    rewrite Hd. cbn [fbind]. eexists. split; [reflexivity|]. unfold next_ok. cbn [fst snd].
    exists (drop_key (input s) T), (outs_of (input s) T). split; [|split; [|split]]; auto.
    + split; [apply drop_key_ok; exact Hs|]. cbn [o_cur o_heap]. split; [|exact Hr2].
      rewrite drop_key_length. eapply nth_error_lt; eauto.
    + eapply total_drop_lt; eauto.
    + apply spec_union_unfold; auto. exists (e :: t'). split; [eapply nth_error_In; eauto|].
      left. exact Ek.
  - eexists. split; [reflexivity|]. unfold next_ok. cbn [fst snd]. pose proof (pop_none _ _ _ Hr Hp) as Hnil. split.
    + apply spec_union_nil. eapply slots_none_nil. exact Hnil.
    + unfold all_done. cbn [o_heap]. eapply rep_all_done; eauto.
Qed.

Lemma outs_from_length_le k T : forall o, (length (outs_from o k T) <= length T)%nat.
Proof.
  induction T as [|t T IH]; intros o; cbn [outs_from length]; [lia|]. rewrite app_length.
  specialize (IH (S o)). unfold iv in *. destruct (lookup t k); cbn [length]; lia.
Qed.
Lemma refill_instead_keeps op c n : (c <= n)%nat -> refill_instead op c n = negb (keeps op c n).
Proof.
  intros H. destruct op; cbn [refill_instead keeps].
  - destruct (Nat.ltb_spec c n), (Nat.eqb_spec c n); cbn; auto; lia.
  - rewrite <- (Nat.bit0_mod c), Nat.bit0_odd. destruct (Nat.odd c); reflexivity.
Qed.

Lemma sel_loop_spec op : forall n u T outs0, rep hnone u T -> streams_ok T -> (total T < n)%nat ->
  exists r, sel_loop pop_min op n u outs0 = Some (Ok r) /\ next_ok st_rep all_done total (spec_sel op) T r.
Proof.
  induction n as [|n IH]; intros u T outs0 Hr Hs Hn; [lia|]. cbn [sel_loop].
  destruct (sh_pop pop_min u) as [[s u1]|] eqn:Hp.
  - destruct (group_spec u T s u1 Hr Hs Hp) as (u2 & outs & e & t' & Hd & Hnth & Ek & Hr2 & Hlb & PX).
    rewrite Hd. cbn [fbind].
    set (k := input s) in *. set (T' := drop_key k T) in *.
    assert (exists t, In t T /\ In k (keys_of t)) as Hex.
    { exists (e :: t'). split; [eapply nth_error_In; eauto|]. left. exact Ek. }
    assert (num_slots u2 = length T) as Hns.
    { unfold num_slots. destruct Hr2 as [R _]. rewrite <- (map_length r_state), R, rdrs_from_length. apply drop_key_length. }
    assert (idx s < length T')%nat as Hlt.
    { unfold T'. rewrite drop_key_length. eapply nth_error_lt; eauto. }
    pose proof (spec_sel_unfold op k T Hs Hlb Hex) as Hu.
    rewrite Hns, (Permutation_length PX), refill_instead_keeps by apply outs_from_length_le.
    destruct (keeps op (length (outs_of k T)) (length T)); cbn [negb].
    + eexists. split; [reflexivity|]. unfold next_ok. cbn [fst snd].
      exists T', (outs_of k T). split; [|split; [|split]]; auto.
      * split; [apply drop_key_ok; exact Hs|]. cbn [o_cur o_heap]. auto.
      * eapply total_drop_lt; eauto.
    + destruct (rep_unhold_one (idx s) u2 T' s eq_refl Hlt Hr2) as (u3 & Hf & Hr3).
      rewrite Hf. cbn [lift fbind].
      pose proof (total_drop_lt k T _ _ _ Hnth Ek) as Hdec. fold T' in Hdec.
      destruct (IH u3 T' outs Hr3 (drop_key_ok k T Hs) ltac:(lia)) as (r & Hl & Hok).
      exists r. split; [exact Hl|]. unfold next_ok in *. rewrite Hu. cbn [app].
      destruct (fst r) as [it|]; [|exact Hok].
      destruct Hok as (x' & outs' & H1 & H2 & H3 & H4). exists x', outs'. split; [exact H1|split; [lia|split; [exact H3|exact H4]]].
  - eexists. split; [reflexivity|]. unfold next_ok. cbn [fst snd]. pose proof (pop_none _ _ _ Hr Hp) as Hnil. split.
    + unfold spec_sel. rewrite spec_union_nil; [reflexivity|]. eapply slots_none_nil. exact Hnil.
    + unfold all_done. cbn [o_heap]. eapply rep_all_done; eauto.
Qed.

Lemma sel_next_spec op st T : st_rep st T ->
  exists r, sel_next pop_min op st = Some (Ok r) /\ next_ok st_rep all_done total (spec_sel op) T r.
Proof.
  intros Hst. destruct (refill_cur_spec st T Hst) as (u & Hf & Hr). destruct Hst as [Hs _].
  unfold sel_next. rewrite Hf. cbn [lift fbind]. apply sel_loop_spec; auto.
  rewrite (rep_size _ _ _ Hr). lia.
Qed.

(* ---------- StreamHeap::new ---------- *)
Lemma all_held h T : (forall j, h j = true) -> forall o, slots_from h o T = [] /\ rdrs_from h o T = map Live T.
Proof.
  intros Hh. induction T as [|t T IH]; intros o; [auto|]. cbn [slots_from rdrs_from map].
  rewrite Hh. destruct (IH (S o)) as [E1 E2]. rewrite E1, E2. auto.
Qed.
Lemma refill_all_spec T : forall n m u, rep (hfrom m) u T -> (m + n)%nat = length T ->
  exists u', refill_all u m n = Ok u' /\ rep hnone u' T.
Proof.
  induction n as [|n IH]; intros m u Hr Hlen; cbn [refill_all].
  - exists u. split; [reflexivity|]. eapply rep_ext; [|exact Hr]. intros j Hj.
    unfold hfrom, hnone. apply Nat.leb_gt. lia.
  - destruct (nth_error T m) as [t|] eqn:Hn.
    2:{ apply nth_error_None in Hn. lia. }
    destruct (refill_rep (hfrom m) u T (mkslot m [] 0) t Hr Hn) as (u' & Hf & Hr').
    { cbn [idx]. unfold hfrom. apply Nat.leb_refl. }
    rewrite Hf. cbn [bind]. apply IH; [|lia]. eapply rep_ext; [|exact Hr']. intros j _. cbn [idx].
    unfold hset, hfrom. destruct (Nat.eqb_spec j m).
    + subst. symmetry. apply Nat.leb_gt. lia.
    + destruct (Nat.leb_spec m j), (Nat.leb_spec (S m) j); auto; lia.
Qed.
Lemma sh_new_spec X : exists u, sh_new X = Ok u /\ rep hnone u (map s_items X).
Proof.
  unfold sh_new. apply refill_all_spec; [|now rewrite map_length].
  destruct (all_held (hfrom 0) (map s_items X) (fun _ => eq_refl) 0) as [E1 E2].
  split; cbn [rdrs heap]; [rewrite E2, !map_map; reflexivity|now rewrite E1].
Qed.
Lemma op_new_spec X : streams_ok (map s_items X) -> exists st, op_new X = Ok st /\ st_rep st (map s_items X).
Proof.
  intros Hs. destruct (sh_new_spec X) as (u & Hn & Hr). unfold op_new. rewrite Hn. cbn [bind].
  eexists. split; [reflexivity|]. split; [exact Hs|exact Hr].
Qed.

(* ---------- draining an op stream ---------- *)
Lemma collect_spec {St X : Type} (next : St -> fres (option item * St))
  (Rep : St -> X -> Prop) (Fin : St -> Prop) (measure : X -> nat) (spec : X -> list item) :
  (forall st x, Rep st x -> exists r, next st = Some (Ok r) /\ next_ok Rep Fin measure spec x r) ->
  forall n st x, Rep st x -> (measure x < n)%nat ->
  exists out stf, collect next n st = Some (Ok (out, stf)) /\ out_eqv out (spec x) /\ Fin stf.
Proof.
  intros Hnext. induction n as [|n IH]; intros st x Hr Hn; [lia|]. cbn [collect].
  destruct (Hnext st x Hr) as (r & Hs & Hok). rewrite Hs. cbn [fbind]. unfold next_ok in Hok.
  destruct (fst r) as [it|].
  - destruct Hok as (x' & outs' & Hr' & Hm & Hsp & Hp).
    destruct (IH (snd r) x' Hr' ltac:(lia)) as (l & stf & Hc & He & Hf). rewrite Hc. cbn [fbind fst snd].
    eexists _, _. split; [reflexivity|]. split; [|exact Hf].
    rewrite Hsp. constructor; [|exact He]. split; [reflexivity|exact Hp].
  - destruct Hok as [Hnil Hf]. eexists _, _. split; [reflexivity|]. split; [|exact Hf]. rewrite Hnil. constructor.
Qed.

(* the runs over arbitrary (non-inert) streams: what is emitted is the set-theoretic combination of
   the items every stream yields before its first None, and at the end every reader is [Done 0]:
   it has returned None once and has not been polled again *)
Theorem union_collect_correct X : streams_ok (map s_items X) ->
  exists st0 out stf, op_new X = Ok st0 /\
    collect (union_next pop_min) (S (items_total X)) st0 = Some (Ok (out, stf)) /\
    out_eqv out (spec_union (map s_items X)) /\ all_done stf.
Proof.
  intros Hs. destruct (op_new_spec X Hs) as (st & Hn & Hr).
  destruct (collect_spec (union_next pop_min) st_rep all_done total spec_union union_next_spec
              (S (items_total X)) st (map s_items X) Hr) as (out & stf & Hc & He & Hf); [unfold items_total; lia|].
  eauto 8.
Qed.
Theorem sel_collect_correct op X : streams_ok (map s_items X) ->
  exists st0 out stf, op_new X = Ok st0 /\
    collect (sel_next pop_min op) (S (items_total X)) st0 = Some (Ok (out, stf)) /\
    out_eqv out (spec_sel op (map s_items X)) /\ all_done stf.
Proof.
  intros Hs. destruct (op_new_spec X Hs) as (st & Hn & Hr).
  destruct (collect_spec (sel_next pop_min op) st_rep all_done total (spec_sel op) (sel_next_spec op)
              (S (items_total X)) st (map s_items X) Hr) as (out & stf & Hc & He & Hf); [unfold items_total; lia|].
  eauto 8.
Qed.

(* ---------- Difference ---------- *)
Lemma drain_le_spec k : forall fuel u T uq, rep hnone u T -> streams_ok T -> (total T < fuel)%nat ->
  exists u' b, drain_le pop_min fuel u k uq = Some (Ok (u', b)) /\
    rep hnone u' (map (drop_le k) T) /\
    (b = true <-> uq = true /\ forall t, In t T -> has_key k t = false).
Proof.
  induction fuel as [|f IH]; intros u T uq Hr Hs Hfuel; [lia|].
  cbn [drain_le]. unfold sh_pop_if_le. rewrite peek_pop.
  destruct (sh_pop pop_min u) as [[s u1]|] eqn:Hp; cbn [option_map fst].
  2:{ pose proof (pop_none hnone u T Hr Hp) as Hnil.
      destruct (no_le_left k T Hs 0) as [E1 E2]. { rewrite Hnil. intros s' []. }
      exists u, uq. rewrite E1. split; [reflexivity|split; [exact Hr|]]. tauto. }
  destruct (pop_refill hnone u T s u1 Hr Hp) as (j & e & t' & u2 & R & Es & Hn & _ & Hf & Hr2 & P1 & P2 & Hmin).
  assert (input s = fst e) as Ein by (rewrite Es; reflexivity).
  destruct (key_leb (input s) k) eqn:Ek.
  - rewrite Hf. cbn [lift fbind]. set (T' := set_nth T j t') in *.
    pose proof (total_set_nth T j (e :: t') t' Hn) as Htot. fold T' in Htot. cbn [length] in Htot.
    destruct (IH u2 T' (if key_eqb (input s) k then false else uq) Hr2) as (u' & b & Hd & Hr' & Hb).
    { eapply streams_ok_set_nth; eauto. } { lia. }
    exists u', b. split; [exact Hd|split].
    + replace (map (drop_le k) T) with (map (drop_le k) T'); [exact Hr'|].
      unfold T'. eapply map_set_nth_same; [exact Hn|]. cbn [drop_le]. rewrite <- Ein, Ek. reflexivity.
    + rewrite Hb. rewrite Ein. split.
      * intros [Hu Hall]. destruct (key_eqb (fst e) k) eqn:E1; [discriminate|]. split; [exact Hu|].
        intros t Ht. destruct (in_set_nth_2 T j t' (e :: t') t Hn Ht) as [->|Ht'].
        -- rewrite has_key_cons, E1. apply Hall. unfold T'. eapply in_set_nth_3; eauto.
        -- apply Hall. exact Ht'.
      * intros [Hu Hall]. pose proof (Hall (e :: t') (nth_error_In _ _ Hn)) as He.
        rewrite has_key_cons in He. apply orb_false_iff in He as [He1 He2]. rewrite He1.
        split; [exact Hu|]. intros t Ht. unfold T' in Ht. apply in_set_nth_1 in Ht as [->|Ht]; auto.
  - destruct (no_le_left k T Hs 0) as [E1 E2].
    { intros s' Hs'. apply not_true_is_false. intros C. apply key_leb_kle in C.
      assert (kle (input s) k) as C2. { eapply kle_trans; [|exact C]. apply slot_leb_kle, Hmin, Hs'. }
      apply key_leb_kle in C2. congruence. }
    exists u, uq. rewrite E1. split; [reflexivity|split; [exact Hr|]]. tauto.
Qed.

Definition d_rep (st : dstate) (x : list kv * list (list kv)) : Prop :=
  r_state (d_set st) = Live (fst x) /\ kmap_ok (fst x) = true /\ streams_ok (snd x) /\ rep hnone (d_heap st) (snd x).
(* the first stream has returned None once; no reader has been polled after its None *)
Definition d_fin (st : dstate) : Prop :=
  r_state (d_set st) = Done 0 /\ Forall (fun r => again_of r = O) (rdrs (d_heap st)).
Definition d_measure (x : list kv * list (list kv)) : nat := length (fst x).
Definition d_spec (x : list kv * list (list kv)) : list item := spec_diff_of (fst x) (snd x).

Lemma existsb_false {A} (f : A -> bool) l : existsb f l = false <-> forall x, In x l -> f x = false.
Proof.
  induction l as [|y l IH]; cbn; [split; [intros _ x []|reflexivity]|].
  rewrite orb_false_iff, IH. split.
  - intros [H1 H2] x [<-|Hx]; auto.
  - intros H. split; [apply H; auto|intros x Hx; apply H; auto].
Qed.

Lemma spec_diff_drop_le k r T : Forall (fun x => klt k (fst x)) r ->
  spec_diff_of r (map (drop_le k) T) = spec_diff_of r T.
Proof.
  intros Hr. unfold spec_diff_of. f_equal. apply filter_ext_in. intros x Hx. f_equal.
  rewrite Forall_forall in Hr. specialize (Hr x Hx).
  induction T as [|t T IH]; [reflexivity|]. cbn [map existsb]. rewrite IH, has_key_drop_le by exact Hr. reflexivity.
Qed.

Lemma diff_loop_spec : forall n st x, d_rep st x -> (d_measure x < n)%nat ->
  exists r, diff_loop pop_min n st = Some (Ok r) /\ next_ok d_rep d_fin d_measure d_spec x r.
Proof.
  induction n as [|n IH]; intros st [s0 Tr] (Eset & Hok & Hs & Hr) Hn; [lia|].
  unfold d_measure in *. cbn [fst snd] in *. cbn [diff_loop]. unfold poll. rewrite Eset.
  destruct s0 as [|[k v] r].
  - eexists. split; [reflexivity|]. unfold next_ok. cbn [fst snd]. split; [reflexivity|].
    split; cbn [d_set d_heap r_state]; [reflexivity|]. eapply rep_no_again; eauto.
  - set (rd := mkreader (Live r) (r_after (d_set st)) (S (r_polls (d_set st)))).
    destruct (drain_le_spec k (S (hsize (d_heap st))) (d_heap st) Tr true Hr Hs) as (u2 & b & Hd & Hr2 & Hb).
    { rewrite (rep_size _ _ _ Hr). lia. }
    rewrite Hd. cbn [fbind].
    apply kmap_ok_cons in Hok as [Hgt Hok']. cbn [fst] in Hgt.
    set (Tr' := map (drop_le k) Tr) in *.
    assert (streams_ok Tr') as Hs'.
    { unfold Tr', streams_ok in *. rewrite Forall_map. eapply Forall_impl; [|exact Hs]. intros t. apply drop_le_ok. }
    assert (d_spec (@pair (list kv) (list (list kv)) (@cons kv (k, v) r) Tr) = (if b then [(k, [(O, v)])] else []) ++ d_spec (r, Tr')) as Hsp.
    { unfold d_spec. cbn [fst snd]. unfold Tr'. rewrite spec_diff_drop_le by exact Hgt.
      unfold spec_diff_of at 1. cbn [filter fst].
      assert (negb (existsb (has_key k) Tr) = b) as <-.
      { destruct b.
        - apply negb_true_iff, existsb_false. apply Hb. reflexivity.
        - apply negb_false_iff. apply not_false_is_true. intros C. rewrite existsb_false in C.
          assert (false = true) by (apply Hb; auto). discriminate. }
      destruct (negb (existsb (has_key k) Tr)); reflexivity. }
    destruct b.
    + eexists. split; [reflexivity|]. unfold next_ok. cbn [fst snd].
      exists (r, Tr'), [(O, v)]. split; [|split; [|split]].
      * split; [reflexivity|]. cbn [fst snd d_heap]. auto.
      * unfold d_measure. cbn. lia.
      * exact Hsp.
      * apply Permutation_refl.
    + destruct (IH (mkd rd k u2 [(O, v)]) (r, Tr')) as (q & Hq & Hok2).
      { split; [reflexivity|]. cbn [fst snd d_heap]. auto. } { cbn [fst]. cbn [length] in Hn. lia. }
      exists q. split; [exact Hq|]. unfold next_ok in *. rewrite Hsp. cbn [app].
      destruct (fst q) as [it|]; [|exact Hok2].
      destruct Hok2 as (x' & outs' & H1 & H2 & H3 & H4). exists x', outs'.
      split; [exact H1|split; [|split; [exact H3|exact H4]]]. unfold d_measure in *. cbn [fst length] in *. lia.
Qed.

Lemma diff_next_spec st x : d_rep st x ->
  exists r, diff_next pop_min st = Some (Ok r) /\ next_ok d_rep d_fin d_measure d_spec x r.
Proof.
  intros Hr. unfold diff_next. apply diff_loop_spec; [exact Hr|].
  destruct Hr as [E _]. unfold d_measure. rewrite E. cbn [live_of]. lia.
Qed.

Theorem difference_collect_correct x0 rest : streams_ok (map s_items (x0 :: rest)) ->
  exists rest' st0 stf, swap_remove0 (x0 :: rest) = Some (x0, rest') /\ Permutation rest rest' /\
    diff_new (x0 :: rest) = Ok st0 /\
    collect (diff_next pop_min) (S (items_total (x0 :: rest))) st0
      = Some (Ok (spec_difference (map s_items (x0 :: rest)), stf)) /\ d_fin stf.
Proof.
  intros Hs. cbn [map] in Hs. inversion Hs; subst. destruct (swap_remove0_cons x0 rest) as (rest' & Hsw & Hp).
  assert (Permutation (map s_items rest) (map s_items rest')) as Hp' by (apply Permutation_map; exact Hp).
  assert (streams_ok (map s_items rest')) as Hs'. { unfold streams_ok. rewrite <- Hp'. assumption. }
  destruct (sh_new_spec rest') as (u & Hn & Hr).
  unfold diff_new. rewrite Hsw, Hn. cbn [bind].
  destruct (collect_spec (diff_next pop_min) d_rep d_fin d_measure d_spec diff_next_spec
              (S (items_total (x0 :: rest))) (mkd (open x0) [] u []) (s_items x0, map s_items rest')) as (out & stf & Hc & He & Hf).
  { split; [reflexivity|]. cbn [fst snd d_heap]. auto. }
  { unfold d_measure, items_total. cbn [fst map]. rewrite total_cons. lia. }
  exists rest', (mkd (open x0) [] u []), stf. split; [reflexivity|]. split; [exact Hp|]. split; [reflexivity|]. split; [|exact Hf].
  rewrite Hc. do 3 f_equal. unfold d_spec in He. cbn [fst snd spec_difference map] in *.
  rewrite (spec_diff_perm (s_items x0) _ _ Hp'). apply out_eqv_singletons; [exact He|].
  unfold spec_diff_of. rewrite Forall_map. apply Forall_forall. intros e _. cbn [snd]. eauto.
Qed.
Theorem diff_new_empty : diff_new [] = Panic.
Proof. reflexivity. Qed.

(* ---------- one call of next on an intersection (is_disjoint) ---------- *)
Theorem inter_first_correct (x0 x1 : instream) : kmap_ok (s_items x0) = true -> kmap_ok (s_items x1) = true ->
  exists st0 r, op_new [x0; x1] = Ok st0 /\ sel_next pop_min OpInter st0 = Some (Ok r) /\
    (match fst r with None => true | Some _ => false end) = spec_disjoint (s_items x0) (s_items x1) /\
    Forall (fun rd => again_of rd = O) (rdrs (o_heap (snd r))).
Proof.
  intros H0 H1. set (s0 := s_items x0). set (s1 := s_items x1).
  assert (streams_ok (map s_items [x0; x1])) as Hs by (repeat constructor; assumption).
  destruct (op_new_spec [x0; x1] Hs) as (st & Hn & Hr).
  destruct (sel_next_spec OpInter st _ Hr) as (r & Hx & Hok). cbn [map] in Hok. fold s0 s1 in Hok.
  exists st, r. split; [exact Hn|]. split; [exact Hx|].
  unfold spec_disjoint. rewrite <- (forallb_map fst (fun k => negb (has_key k s1))).
  fold (keys_of s0). rewrite <- filter_nil_all, <- (inter_keys s0 s1 H0 H1), map_nil_match.
  unfold next_ok in Hok. unfold spec_intersection. destruct (fst r) as [it|].
  - destruct Hok as (x' & outs' & Hrep & _ & -> & _). split; [reflexivity|].
    destruct Hrep as [_ Hrep]. destruct (o_cur (snd r)); [destruct Hrep as [_ Hrep]|]; eapply rep_no_again; eauto.
  - destruct Hok as [-> Hf]. split; [reflexivity|]. eapply Forall_impl; [|exact Hf]. intros rd Hd. unfold again_of. now rewrite Hd.
Qed.
End WithHeap.

(* ================= what the specification says, in the words of the property ================= *)
Lemma outs_from_in k ss i v : forall o, In (i, v) (outs_from o k ss) <->
  exists j s, i = (o + j)%nat /\ nth_error ss j = Some s /\ lookup s k = Some v.
Proof.
  induction ss as [|s ss IH]; intros o; cbn [outs_from].
  - split; [intros []|]. intros ([|j] & s & _ & H & _); discriminate.
  - rewrite in_app_iff, IH. split.
    + intros [H|(j & s' & E & Hn & Hl)].
      * destruct (lookup s k) as [v'|] eqn:El; [|destruct H]. destruct H as [H|[]]. inversion H; subst.
        exists O, s. rewrite Nat.add_0_r. auto.
      * exists (S j), s'. rewrite Nat.add_succ_r. auto.
    + intros ([|j] & s' & E & Hn & Hl).
      * cbn in Hn. inversion Hn; subst s'. rewrite Hl, Nat.add_0_r in *. subst. left. left. reflexivity.
      * right. exists j, s'. rewrite Nat.add_succ_r in E. auto.
Qed.
Lemma outs_of_in k ss i v : In (i, v) (outs_of k ss) <-> exists s, nth_error ss i = Some s /\ lookup s k = Some v.
Proof.
  unfold outs_of. rewrite outs_from_in. split.
  - intros (j & s & -> & H). exists s. exact H.
  - intros (s & H). exists i, s. auto.
Qed.
Lemma outs_from_index_ge k ss : forall o x, In x (map fst (outs_from o k ss)) -> (o <= x)%nat.
Proof.
  induction ss as [|s ss IH]; intros o x; cbn [outs_from map]; [intros []|].
  rewrite map_app, in_app_iff. intros [H|H].
  - destruct (lookup s k); [|destruct H]. destruct H as [<-|[]]. cbn. lia.
  - apply IH in H. lia.
Qed.
Lemma outs_of_one_per_stream k ss : NoDup (map fst (outs_of k ss)).
Proof.
  unfold outs_of. generalize O.
  induction ss as [|s ss IH]; intros o; cbn [outs_from map]; [constructor|].
  rewrite map_app. destruct (lookup s k); cbn [map app fst].
  - constructor; [|apply IH]. intros C. apply outs_from_index_ge in C. lia.
  - apply IH.
Qed.
Lemma spec_sel_in op ss k o : In (k, o) (spec_sel op ss) <->
  In k (all_keys ss) /\ o = outs_of k ss /\ keeps op (length o) (length ss) = true.
Proof.
  unfold spec_sel, spec_union. rewrite filter_In, in_map_iff. cbn [snd]. split.
  - intros [(k' & E & Hk) Hp]. inversion E; subst. auto.
  - intros (Hk & -> & Hp). split; [exists k; auto|exact Hp].
Qed.
Lemma spec_difference_in s0 rest k o : kmap_ok s0 = true ->
  (In (k, o) (spec_difference (s0 :: rest)) <->
   exists v, lookup s0 k = Some v /\ o = [(O, v)] /\ forall s, In s rest -> ~ In k (keys_of s)).
Proof.
  intros Hok. cbn [spec_difference]. unfold spec_diff_of. rewrite in_map_iff. split.
  - intros ([k' v] & E & Hin). cbn [fst snd] in E. inversion E; subst. apply filter_In in Hin as [Hin Hf].
    cbn [fst] in Hf. exists v. split; [|split; [reflexivity|]].
    + clear Hf. induction s0 as [|[k0 v0] s0 IH]; [destruct Hin|]. cbn [lookup].
      apply kmap_ok_cons in Hok as [Hgt Hok]. destruct Hin as [E0|Hin].
      * inversion E0; subst. now rewrite key_eqb_refl.
      * rewrite Forall_forall in Hgt. specialize (Hgt _ Hin). cbn in Hgt. apply klt_neq in Hgt.
        assert (k <> k0) as N by congruence. apply key_eqb_neq in N. rewrite N. auto.
    + apply negb_true_iff in Hf. intros s Hs. rewrite <- has_key_in.
      rewrite existsb_false in Hf. rewrite (Hf s Hs). discriminate.
  - intros (v & Hl & -> & Hno). exists (k, v). split; [reflexivity|]. apply filter_In. split.
    + clear Hno. induction s0 as [|[k0 v0] s0 IH]; [discriminate|]. cbn [lookup] in Hl.
      destruct (key_eqb k k0) eqn:E.
      * apply key_eqb_eq in E. inversion Hl; subst. left; reflexivity.
      * right. apply IH; auto. apply kmap_ok_cons in Hok. tauto.
    + cbn [fst]. apply negb_true_iff, existsb_false. intros s Hs. apply not_true_is_false.
      rewrite has_key_in. auto.
Qed.
