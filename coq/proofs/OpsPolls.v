(* OpsPolls.v — C05, the polling discipline of src/raw/ops.rs: how often every input stream is
   polled, that no stream is polled again once it has returned None, and therefore that the
   results over arbitrary non-inert streams are those over the items yielded before the first
   None.  Poll accounting is independent of the correctness proof: the only function of the model
   that touches a reader is [poll] (through [refill] and, for Difference, the first stream). *)
Require Import FstV.Base FstV.Ops FstV.proofs.OpsProofs.
From Coq Require Import Permutation.

(* ================= counting polls ================= *)
(* a reader of stream x that has been polled [r_polls] times: while it is live every poll took one
   item; after that it was polled once for the None and [again] more times *)
Definition rd_ok (x : instream) (r : reader) : Prop :=
  match r_state r with
  | Live rest => (r_polls r + length rest = length (s_items x))%nat
  | Done n => r_polls r = (length (s_items x) + 1 + n)%nat
  end.
Lemma rd_ok_open x : rd_ok x (open x).
Proof. reflexivity. Qed.
Lemma rd_ok_poll x r : rd_ok x r -> rd_ok x (snd (poll r)).
Proof.
  unfold rd_ok, poll. destruct (r_state r) as [[|e l]|n]; cbn [snd r_state r_polls length]; lia.
Qed.

(* rs' is reached from rs by polling readers, nothing else *)
Inductive polled : list reader -> list reader -> Prop :=
| polled_refl rs : polled rs rs
| polled_step rs i r rs' : nth_error rs i = Some r -> polled (set_nth rs i (snd (poll r))) rs' -> polled rs rs'.

Lemma polled_trans a b c : polled a b -> polled b c -> polled a c.
Proof. induction 1; intros H2; [exact H2|]. eapply polled_step; eauto. Qed.
Lemma polled_cons r a b : polled a b -> polled (r :: a) (r :: b).
Proof. induction 1; [constructor|]. apply polled_step with (i := S i) (r := r0); assumption. Qed.

Lemma Forall2_set_nth {A B} (P : A -> B -> Prop) X : forall rs i r r', Forall2 P X rs ->
  nth_error rs i = Some r -> (forall x, P x r -> P x r') -> Forall2 P X (set_nth rs i r').
Proof.
  induction X as [|x X IH]; intros rs i r r' H Hn Hp; inversion H; subst.
  - destruct i; discriminate.
  - destruct i as [|i]; cbn in Hn |- *.
    + inversion Hn; subst. constructor; auto.
    + constructor; [assumption|]. eapply IH; eauto.
Qed.
Lemma polled_ok X rs rs' : polled rs rs' -> Forall2 rd_ok X rs -> Forall2 rd_ok X rs'.
Proof.
  induction 1 as [|rs i r rs' Hn _ IH]; intros H; [exact H|]. apply IH.
  eapply Forall2_set_nth; eauto. intros x. apply rd_ok_poll.
Qed.
Lemma opened_ok X : Forall2 rd_ok X (map open X).
Proof. induction X; cbn; constructor; auto. apply rd_ok_open. Qed.

Lemma full_polls_ok x : polls_ok x (full_polls x).
Proof. split; cbn; lia. Qed.

Lemma done_polls X rs : Forall2 rd_ok X rs -> Forall (fun r => r_state r = Done 0) rs ->
  polls_of rs = map full_polls X.
Proof.
  induction 1 as [|x r X rs Hok _ IH]; intros HF; [reflexivity|]. inversion HF; subst.
  cbn [polls_of map]. fold (polls_of rs). rewrite IH by assumption. f_equal.
  unfold rd_ok, again_of, full_polls in *. rewrite H1 in *. f_equal. lia.
Qed.
Lemma noagain_polls X rs : Forall2 rd_ok X rs -> Forall (fun r => again_of r = O) rs ->
  Forall2 polls_ok X (polls_of rs).
Proof.
  induction 1 as [|x r X rs Hok _ IH]; intros HF; [constructor|]. inversion HF; subst.
  cbn [polls_of map]. constructor; [|apply IH; assumption].
  unfold polls_ok, rd_ok, again_of in *. cbn [fst snd]. destruct (r_state r); split; lia.
Qed.

(* ================= every function of the model only polls ================= *)
Section Polled.
Variable pop_min : list slot -> option (slot * list slot).

Lemma refill_polled u s u1 : refill u s = Ok u1 -> polled (rdrs u) (rdrs u1).
Proof.
  unfold refill. destruct (nth_error (rdrs u) (idx s)) as [r|] eqn:Hn; [|discriminate].
  destruct (poll r) as [a r'] eqn:Hp. assert (r' = snd (poll r)) as -> by now rewrite Hp.
  destruct a as [[k v]|]; intros H; inversion H; subst; cbn [rdrs];
    (eapply polled_step; [exact Hn|constructor]).
Qed.
Lemma refill_all_polled : forall n i u u1, refill_all u i n = Ok u1 -> polled (rdrs u) (rdrs u1).
Proof.
  induction n as [|n IH]; intros i u u1; cbn [refill_all].
  - intros H; inversion H; constructor.
  - destruct (refill u (mkslot i [] 0)) as [u'| |] eqn:Hf; cbn [bind]; try discriminate.
    intros H. eapply polled_trans; [eapply refill_polled; eauto|eapply IH; eauto].
Qed.
Lemma sh_new_polled X u : sh_new X = Ok u -> polled (map open X) (rdrs u).
Proof. unfold sh_new. intros H. apply refill_all_polled in H. exact H. Qed.

Lemma sh_pop_rdrs u s u1 : sh_pop pop_min u = Some (s, u1) -> rdrs u1 = rdrs u.
Proof. unfold sh_pop. destruct (pop_min (heap u)) as [[s0 r]|]; intros H; inversion H; reflexivity. Qed.
Lemma sh_pop_if_equal_rdrs u k s u1 : sh_pop_if_equal pop_min u k = Some (s, u1) -> rdrs u1 = rdrs u.
Proof.
  unfold sh_pop_if_equal. destruct (sh_peek pop_min u); [|discriminate].
  destruct (key_eqb _ _); [apply sh_pop_rdrs|discriminate].
Qed.
Lemma sh_pop_if_le_rdrs u k s u1 : sh_pop_if_le pop_min u k = Some (s, u1) -> rdrs u1 = rdrs u.
Proof.
  unfold sh_pop_if_le. destruct (sh_peek pop_min u); [|discriminate].
  destruct (key_leb _ _); [apply sh_pop_rdrs|discriminate].
Qed.

Lemma drain_equal_polled : forall fuel u k outs p u1 o1 p1,
  drain_equal pop_min fuel u k outs p = Some (Ok (u1, o1, p1)) -> polled (rdrs u) (rdrs u1).
Proof.
  induction fuel as [|f IH]; intros u k outs p u1 o1 p1; cbn [drain_equal]; [discriminate|].
  destruct (sh_pop_if_equal pop_min u k) as [[s2 u0]|] eqn:Hp.
  - apply sh_pop_if_equal_rdrs in Hp. destruct (refill u0 s2) as [u2| |] eqn:Hf; cbn [lift fbind]; try discriminate.
    intros H. rewrite <- Hp. eapply polled_trans; [eapply refill_polled; eauto|eapply IH; eauto].
  - intros H; inversion H; constructor.
Qed.
Lemma drain_le_polled : forall fuel u k b u1 b1,
  drain_le pop_min fuel u k b = Some (Ok (u1, b1)) -> polled (rdrs u) (rdrs u1).
Proof.
  induction fuel as [|f IH]; intros u k b u1 b1; cbn [drain_le]; [discriminate|].
  destruct (sh_pop_if_le pop_min u k) as [[s2 u0]|] eqn:Hp.
  - apply sh_pop_if_le_rdrs in Hp. destruct (refill u0 s2) as [u2| |] eqn:Hf; cbn [lift fbind]; try discriminate.
    intros H. rewrite <- Hp. eapply polled_trans; [eapply refill_polled; eauto|eapply IH; eauto].
  - intros H; inversion H; constructor.
Qed.
Lemma refill_cur_polled st u : refill_cur st = Ok u -> polled (rdrs (o_heap st)) (rdrs u).
Proof.
  unfold refill_cur. destruct (o_cur st); [apply refill_polled|]. intros H; inversion H; constructor.
Qed.

Definition op_rdrs (st : opstate) : list reader := rdrs (o_heap st).
Lemma union_next_polled st r : union_next pop_min st = Some (Ok r) -> polled (op_rdrs st) (op_rdrs (snd r)).
Proof.
  unfold union_next, op_rdrs. destruct (refill_cur st) as [u| |] eqn:Hc; cbn [lift fbind]; try discriminate.
  apply refill_cur_polled in Hc. destruct (sh_pop pop_min u) as [[s u1]|] eqn:Hp.
  - apply sh_pop_rdrs in Hp.
    destruct (drain_equal pop_min (S (length (heap u1))) u1 (input s) [indexed_value s] 1) as [[[[u2 o2] p2]| |]|] eqn:Hd;
      cbn [fbind]; try discriminate.
    intros H; inversion H; subst; cbn [snd o_heap]. apply drain_equal_polled in Hd. rewrite Hp in Hd.
    eapply polled_trans; eauto.
  - intros H; inversion H; subst; cbn [snd o_heap]. exact Hc.
Qed.
Lemma sel_loop_polled op : forall n u outs r, sel_loop pop_min op n u outs = Some (Ok r) -> polled (rdrs u) (op_rdrs (snd r)).
Proof.
  unfold op_rdrs. induction n as [|n IH]; intros u outs r; cbn [sel_loop]; [discriminate|].
  destruct (sh_pop pop_min u) as [[s u1]|] eqn:Hp.
  - apply sh_pop_rdrs in Hp.
    destruct (drain_equal pop_min (S (length (heap u1))) u1 (input s) [indexed_value s] 1) as [[[[u2 o2] p2]| |]|] eqn:Hd;
      cbn [fbind]; try discriminate.
    apply drain_equal_polled in Hd. rewrite Hp in Hd.
    destruct (refill_instead op p2 (num_slots u2)).
    + destruct (refill u2 s) as [u3| |] eqn:Hf; cbn [lift fbind]; try discriminate.
      intros H. eapply polled_trans; [exact Hd|]. eapply polled_trans; [eapply refill_polled; eauto|eapply IH; eauto].
    + intros H; inversion H; subst; cbn [snd o_heap]. exact Hd.
  - intros H; inversion H; subst; cbn [snd o_heap]. constructor.
Qed.
Lemma sel_next_polled op st r : sel_next pop_min op st = Some (Ok r) -> polled (op_rdrs st) (op_rdrs (snd r)).
Proof.
  unfold sel_next. destruct (refill_cur st) as [u| |] eqn:Hc; cbn [lift fbind]; try discriminate.
  apply refill_cur_polled in Hc. intros H. apply sel_loop_polled in H. eapply polled_trans; eauto.
Qed.

Definition d_rdrs (st : dstate) : list reader := d_set st :: rdrs (d_heap st).
Lemma diff_loop_polled : forall n st r, diff_loop pop_min n st = Some (Ok r) -> polled (d_rdrs st) (d_rdrs (snd r)).
Proof.
  unfold d_rdrs. induction n as [|n IH]; intros st r; cbn [diff_loop]; [discriminate|].
  assert (polled (d_set st :: rdrs (d_heap st)) (snd (poll (d_set st)) :: rdrs (d_heap st))) as H0.
  { apply polled_step with (i := O) (r := d_set st); [reflexivity|constructor]. }
  destruct (poll (d_set st)) as [[[k v]|] rd]; cbn [snd] in H0.
  - destruct (drain_le pop_min (S (hsize (d_heap st))) (d_heap st) k true) as [[[u2 b]| |]|] eqn:Hd; cbn [fbind]; try discriminate.
    apply drain_le_polled in Hd. apply (polled_cons rd) in Hd.
    destruct b.
    + intros H; inversion H; subst; cbn [snd d_set d_heap]. eapply polled_trans; eauto.
    + intros H. apply IH in H. cbn [d_set d_heap] in H. eapply polled_trans; [exact H0|]. eapply polled_trans; eauto.
  - intros H; inversion H; subst; cbn [snd d_set d_heap]. exact H0.
Qed.
Lemma diff_next_polled st r : diff_next pop_min st = Some (Ok r) -> polled (d_rdrs st) (d_rdrs (snd r)).
Proof. apply diff_loop_polled. Qed.

Lemma collect_polled {St : Type} (next : St -> fres (option item * St)) (proj : St -> list reader) :
  (forall st r, next st = Some (Ok r) -> polled (proj st) (proj (snd r))) ->
  forall n st q, collect next n st = Some (Ok q) -> polled (proj st) (proj (snd q)).
Proof.
  intros Hnext. induction n as [|n IH]; intros st q; cbn [collect]; [discriminate|].
  destruct (next st) as [[r| |]|] eqn:Hn; cbn [fbind]; try discriminate. apply Hnext in Hn.
  destruct (fst r).
  - destruct (collect next n (snd r)) as [[q'| |]|] eqn:Hc; cbn [fbind]; try discriminate.
    intros H; inversion H; subst; cbn [snd]. eapply polled_trans; [exact Hn|]. eapply IH; eauto.
  - intros H; inversion H; subst; cbn [snd]. exact Hn.
Qed.
End Polled.

(* ================= what is polled after its None is all that [s_after] can influence ================= *)
(* the same reader over the inert stream *)
Definition fuse_r (r : reader) : reader := mkreader (r_state r) (fun _ => None) (r_polls r).
Definition fuse_h (u : sheap) : sheap := mksheap (map fuse_r (rdrs u)) (heap u).
Definition fuse_op (st : opstate) : opstate := mkop (fuse_h (o_heap st)) (o_outs st) (o_cur st).
Definition fuse_d (st : dstate) : dstate := mkd (fuse_r (d_set st)) (d_key st) (fuse_h (d_heap st)) (d_outs st).
Definition fused (x : instream) : instream := inert (s_items x).
Definition clean (rs : list reader) : Prop := Forall (fun r => again_of r = O) rs.

Lemma poll_again_mono r : (again_of r <= again_of (snd (poll r)))%nat.
Proof. unfold poll, again_of. destruct (r_state r) as [[|e l]|n]; cbn; lia. Qed.
Lemma poll_fuse r : again_of (snd (poll r)) = O -> poll (fuse_r r) = (fst (poll r), fuse_r (snd (poll r))).
Proof. unfold poll, again_of, fuse_r. destruct (r_state r) as [[|e l]|n]; cbn; intros H; try reflexivity; discriminate. Qed.

Lemma Forall_set_nth_back {A} (P : A -> Prop) : forall (l : list A) i x y, nth_error l i = Some x ->
  Forall P (set_nth l i y) -> (P y -> P x) -> Forall P l /\ P y.
Proof.
  induction l as [|z l IH]; intros [|i] x y Hn HF Hp; cbn in *; try discriminate.
  - inversion Hn; subst. inversion HF; subst. split; [constructor|]; auto.
  - inversion HF; subst. destruct (IH i x y Hn H2 Hp). split; [constructor|]; auto.
Qed.
(* polls after None are never undone: a clean end means a clean run *)
Lemma polled_clean rs rs' : polled rs rs' -> clean rs' -> clean rs.
Proof.
  induction 1 as [|rs i r rs' Hn _ IH]; intros Hc; [exact Hc|]. specialize (IH Hc).
  refine (proj1 (Forall_set_nth_back (fun r => again_of r = O) _ _ _ _ Hn IH _)). pose proof (poll_again_mono r). lia.
Qed.

Lemma polls_of_fuse rs : polls_of (map fuse_r rs) = polls_of rs.
Proof. unfold polls_of. rewrite map_map. reflexivity. Qed.
Lemma rtotal_fuse rs : rtotal (map fuse_r rs) = rtotal rs.
Proof. unfold rtotal. rewrite map_map. reflexivity. Qed.
Lemma hsize_fuse u : hsize (fuse_h u) = hsize u.
Proof. unfold hsize. cbn [fuse_h rdrs heap]. now rewrite rtotal_fuse. Qed.
Lemma open_fused X : map open (map fused X) = map fuse_r (map open X).
Proof. rewrite !map_map. reflexivity. Qed.

Section Fuse.
Variable pop_min : list slot -> option (slot * list slot).

Lemma refill_fuse u s u1 : refill u s = Ok u1 -> clean (rdrs u1) -> refill (fuse_h u) s = Ok (fuse_h u1).
Proof.
  unfold refill. cbn [fuse_h rdrs heap]. rewrite nth_error_map.
  destruct (nth_error (rdrs u) (idx s)) as [r|] eqn:Hn; [|discriminate]. cbn [option_map].
  destruct (poll r) as [a r'] eqn:Hp. assert (r' = snd (poll r)) as Er by now rewrite Hp.
  assert (a = fst (poll r)) as Ea by now rewrite Hp.
  intros H Hc.
  assert (again_of r' = O) as Hz.
  { assert (clean (set_nth (rdrs u) (idx s) r')) as Hc'. { destruct a as [[k v]|]; inversion H; subst; exact Hc. }
    refine (proj2 (Forall_set_nth_back (fun r => again_of r = O) _ _ _ _ Hn Hc' _)).
    pose proof (poll_again_mono r). rewrite <- Er in *. lia. }
  rewrite Er in Hz. rewrite (poll_fuse r Hz), <- Er, <- Ea.
  destruct a as [[k v]|]; inversion H; subst; unfold fuse_h; cbn [rdrs heap]; rewrite map_set_nth; reflexivity.
Qed.
Lemma refill_all_fuse : forall n i u u1, refill_all u i n = Ok u1 -> clean (rdrs u1) ->
  refill_all (fuse_h u) i n = Ok (fuse_h u1).
Proof.
  induction n as [|n IH]; intros i u u1; cbn [refill_all].
  - intros H _; inversion H; reflexivity.
  - destruct (refill u (mkslot i [] 0)) as [u'| |] eqn:Hf; cbn [bind]; try discriminate.
    intros H Hc. rewrite (refill_fuse _ _ _ Hf); [cbn [bind]; eapply IH; eauto|].
    eapply polled_clean; [eapply refill_all_polled; eauto|exact Hc].
Qed.

Lemma sh_pop_fuse u : sh_pop pop_min (fuse_h u)
  = match sh_pop pop_min u with Some (s, u1) => Some (s, fuse_h u1) | None => None end.
Proof. unfold sh_pop. cbn [fuse_h heap rdrs]. destruct (pop_min (heap u)) as [[s r]|]; reflexivity. Qed.
Lemma sh_peek_fuse u : sh_peek pop_min (fuse_h u) = sh_peek pop_min u.
Proof. reflexivity. Qed.
Lemma sh_pop_if_equal_fuse u k : sh_pop_if_equal pop_min (fuse_h u) k
  = match sh_pop_if_equal pop_min u k with Some (s, u1) => Some (s, fuse_h u1) | None => None end.
Proof.
  unfold sh_pop_if_equal. rewrite sh_peek_fuse. destruct (sh_peek pop_min u); [|reflexivity].
  destruct (key_eqb _ _); [apply sh_pop_fuse|reflexivity].
Qed.
Lemma sh_pop_if_le_fuse u k : sh_pop_if_le pop_min (fuse_h u) k
  = match sh_pop_if_le pop_min u k with Some (s, u1) => Some (s, fuse_h u1) | None => None end.
Proof.
  unfold sh_pop_if_le. rewrite sh_peek_fuse. destruct (sh_peek pop_min u); [|reflexivity].
  destruct (key_leb _ _); [apply sh_pop_fuse|reflexivity].
Qed.

Lemma drain_equal_fuse : forall fuel u k outs p u1 o1 p1,
  drain_equal pop_min fuel u k outs p = Some (Ok (u1, o1, p1)) -> clean (rdrs u1) ->
  drain_equal pop_min fuel (fuse_h u) k outs p = Some (Ok (fuse_h u1, o1, p1)).
Proof.
  induction fuel as [|f IH]; intros u k outs p u1 o1 p1; cbn [drain_equal]; [discriminate|].
  rewrite sh_pop_if_equal_fuse. destruct (sh_pop_if_equal pop_min u k) as [[s2 u0]|] eqn:Hp.
  - destruct (refill u0 s2) as [u2| |] eqn:Hf; cbn [lift fbind]; try discriminate.
    intros H Hc. rewrite (refill_fuse _ _ _ Hf); [cbn [lift fbind]; eapply IH; eauto|].
    eapply polled_clean; [eapply drain_equal_polled; eauto|exact Hc].
  - intros H _; inversion H; reflexivity.
Qed.
Lemma drain_le_fuse : forall fuel u k b u1 b1,
  drain_le pop_min fuel u k b = Some (Ok (u1, b1)) -> clean (rdrs u1) ->
  drain_le pop_min fuel (fuse_h u) k b = Some (Ok (fuse_h u1, b1)).
Proof.
  induction fuel as [|f IH]; intros u k b u1 b1; cbn [drain_le]; [discriminate|].
  rewrite sh_pop_if_le_fuse. destruct (sh_pop_if_le pop_min u k) as [[s2 u0]|] eqn:Hp.
  - destruct (refill u0 s2) as [u2| |] eqn:Hf; cbn [lift fbind]; try discriminate.
    intros H Hc. rewrite (refill_fuse _ _ _ Hf); [cbn [lift fbind]; eapply IH; eauto|].
    eapply polled_clean; [eapply drain_le_polled; eauto|exact Hc].
  - intros H _; inversion H; reflexivity.
Qed.
Lemma refill_cur_fuse st u : refill_cur st = Ok u -> clean (rdrs u) -> refill_cur (fuse_op st) = Ok (fuse_h u).
Proof.
  unfold refill_cur. cbn [fuse_op o_cur o_heap]. destruct (o_cur st); [apply refill_fuse|].
  intros H _; inversion H; reflexivity.
Qed.

Lemma union_next_fuse st r : union_next pop_min st = Some (Ok r) -> clean (op_rdrs (snd r)) ->
  union_next pop_min (fuse_op st) = Some (Ok (fst r, fuse_op (snd r))).
Proof.
  unfold union_next, op_rdrs. destruct (refill_cur st) as [u| |] eqn:Hc; cbn [lift fbind]; try discriminate.
  destruct (sh_pop pop_min u) as [[s u1]|] eqn:Hp.
  - pose proof (sh_pop_rdrs pop_min _ _ _ Hp) as Hrd.
    destruct (drain_equal pop_min (S (length (heap u1))) u1 (input s) [indexed_value s] 1) as [[[[u2 o2] p2]| |]|] eqn:Hd;
      cbn [fbind]; try discriminate.
    intros H Hcl; inversion H; subst; cbn [fst snd o_heap] in *.
    rewrite (refill_cur_fuse _ _ Hc).
    2:{ rewrite <- Hrd. eapply polled_clean; [eapply drain_equal_polled; eauto|exact Hcl]. }
    cbn [lift fbind]. rewrite sh_pop_fuse, Hp. change (heap (fuse_h u1)) with (heap u1).
    rewrite (drain_equal_fuse _ _ _ _ _ _ _ _ Hd Hcl). reflexivity.
  - intros H Hcl; inversion H; subst; cbn [fst snd o_heap] in *.
    rewrite (refill_cur_fuse _ _ Hc Hcl). cbn [lift fbind]. rewrite sh_pop_fuse, Hp. reflexivity.
Qed.
Lemma sel_loop_fuse op : forall n u outs r, sel_loop pop_min op n u outs = Some (Ok r) -> clean (op_rdrs (snd r)) ->
  sel_loop pop_min op n (fuse_h u) outs = Some (Ok (fst r, fuse_op (snd r))).
Proof.
  unfold op_rdrs. induction n as [|n IH]; intros u outs r; cbn [sel_loop]; [discriminate|].
  rewrite sh_pop_fuse. destruct (sh_pop pop_min u) as [[s u1]|] eqn:Hp.
  - change (heap (fuse_h u1)) with (heap u1).
    destruct (drain_equal pop_min (S (length (heap u1))) u1 (input s) [indexed_value s] 1) as [[[[u2 o2] p2]| |]|] eqn:Hd;
      cbn [fbind]; try discriminate.
    assert (num_slots (fuse_h u2) = num_slots u2) as Hns by (unfold num_slots; cbn [fuse_h rdrs]; apply map_length).
    destruct (refill_instead op p2 (num_slots u2)) eqn:Hri.
    + destruct (refill u2 s) as [u3| |] eqn:Hf; cbn [lift fbind]; try discriminate.
      intros H Hcl.
      assert (clean (rdrs u3)) as Hc3 by (eapply polled_clean; [eapply sel_loop_polled; eauto|exact Hcl]).
      assert (clean (rdrs u2)) as Hc2 by (eapply polled_clean; [eapply refill_polled; eauto|exact Hc3]).
      rewrite (drain_equal_fuse _ _ _ _ _ _ _ _ Hd Hc2). cbn [fbind]. rewrite Hns, Hri.
      rewrite (refill_fuse _ _ _ Hf Hc3). cbn [lift fbind]. eapply IH; eauto.
    + intros H Hcl; inversion H; subst; cbn [fst snd o_heap] in *.
      rewrite (drain_equal_fuse _ _ _ _ _ _ _ _ Hd Hcl). cbn [fbind]. rewrite Hns, Hri. reflexivity.
  - intros H _; inversion H; reflexivity.
Qed.
Lemma sel_next_fuse op st r : sel_next pop_min op st = Some (Ok r) -> clean (op_rdrs (snd r)) ->
  sel_next pop_min op (fuse_op st) = Some (Ok (fst r, fuse_op (snd r))).
Proof.
  unfold sel_next. destruct (refill_cur st) as [u| |] eqn:Hc; cbn [lift fbind]; try discriminate.
  intros H Hcl. rewrite (refill_cur_fuse _ _ Hc).
  2:{ eapply polled_clean; [eapply sel_loop_polled; eauto|exact Hcl]. }
  cbn [lift fbind]. rewrite hsize_fuse. change (o_outs (fuse_op st)) with (o_outs st). eapply sel_loop_fuse; eauto.
Qed.

Lemma diff_loop_fuse : forall n st r, diff_loop pop_min n st = Some (Ok r) -> clean (d_rdrs (snd r)) ->
  diff_loop pop_min n (fuse_d st) = Some (Ok (fst r, fuse_d (snd r))).
Proof.
  induction n as [|n IH]; intros st r; cbn [diff_loop]; [discriminate|].
  cbn [fuse_d d_set d_heap d_key d_outs]. rewrite hsize_fuse.
  destruct (poll (d_set st)) as [a rd] eqn:Hp.
  assert (rd = snd (poll (d_set st))) as Erd by now rewrite Hp.
  assert (a = fst (poll (d_set st))) as Ea by now rewrite Hp.
  destruct a as [[k v]|].
  - destruct (drain_le pop_min (S (hsize (d_heap st))) (d_heap st) k true) as [[[u2 b]| |]|] eqn:Hd; cbn [fbind]; try discriminate.
    intros H Hcl.
    assert (clean (rd :: rdrs u2)) as Hc2.
    { destruct b.
      - inversion H; subst. exact Hcl.
      - eapply polled_clean; [|exact Hcl]. apply diff_loop_polled in H. exact H. }
    inversion Hc2 as [|? ? Hz Hcu].
    rewrite Erd in Hz. rewrite (poll_fuse _ Hz), <- Erd, <- Ea.
    rewrite (drain_le_fuse _ _ _ _ _ _ Hd Hcu). cbn [fbind].
    destruct b.
    + inversion H; subst. reflexivity.
    + apply (IH _ _ H Hcl).
  - intros H Hcl; inversion H; subst; cbn [fst snd] in *. unfold d_rdrs in Hcl. cbn [d_set d_heap] in Hcl.
    inversion Hcl as [|? ? Hz Hcu]. rewrite (poll_fuse _ Hz), <- Ea. reflexivity.
Qed.
Lemma diff_next_fuse st r : diff_next pop_min st = Some (Ok r) -> clean (d_rdrs (snd r)) ->
  diff_next pop_min (fuse_d st) = Some (Ok (fst r, fuse_d (snd r))).
Proof. unfold diff_next. cbn [fuse_d d_set fuse_r r_state]. apply diff_loop_fuse. Qed.

Lemma collect_fuse {St : Type} (next : St -> fres (option item * St)) (proj : St -> list reader) (fuse : St -> St) :
  (forall st r, next st = Some (Ok r) -> polled (proj st) (proj (snd r))) ->
  (forall st r, next st = Some (Ok r) -> clean (proj (snd r)) -> next (fuse st) = Some (Ok (fst r, fuse (snd r)))) ->
  forall n st q, collect next n st = Some (Ok q) -> clean (proj (snd q)) ->
  collect next n (fuse st) = Some (Ok (fst q, fuse (snd q))).
Proof.
  intros Hpol Hfuse. induction n as [|n IH]; intros st q; cbn [collect]; [discriminate|].
  destruct (next st) as [[r| |]|] eqn:Hn; cbn [fbind]; try discriminate.
  destruct (fst r) as [it|] eqn:Hfr.
  - destruct (collect next n (snd r)) as [[q'| |]|] eqn:Hc; cbn [fbind]; try discriminate.
    intros H Hcl; inversion H; subst; cbn [fst snd] in *.
    rewrite (Hfuse _ _ Hn); [|eapply polled_clean; [eapply collect_polled; eauto|exact Hcl]].
    cbn [fbind fst snd]. rewrite Hfr. rewrite (IH _ _ Hc Hcl). reflexivity.
  - intros H Hcl; inversion H; subst; cbn [fst snd] in *.
    rewrite (Hfuse _ _ Hn Hcl). cbn [fbind fst snd]. rewrite Hfr. reflexivity.
Qed.

Lemma sh_new_fuse X u : sh_new X = Ok u -> clean (rdrs u) -> sh_new (map fused X) = Ok (fuse_h u).
Proof.
  unfold sh_new. intros H Hc. rewrite map_length, open_fused.
  exact (refill_all_fuse _ _ (mksheap (map open X) []) _ H Hc).
Qed.
Lemma op_new_fuse X st : op_new X = Ok st -> clean (op_rdrs st) -> op_new (map fused X) = Ok (fuse_op st).
Proof.
  unfold op_new. destruct (sh_new X) as [u| |] eqn:Hn; cbn [bind]; try discriminate.
  intros H Hc; inversion H; subst. rewrite (sh_new_fuse _ _ Hn Hc). reflexivity.
Qed.

Definition no_again (polls : list (nat * nat)) : Prop := Forall (fun pa => snd pa = O) polls.
Lemma no_again_clean rs : no_again (polls_of rs) -> clean rs.
Proof. unfold no_again, polls_of, clean. rewrite Forall_map. auto. Qed.

(* a run in which no stream was polled after its None is, step for step, the run over the inert streams *)
Theorem run_union_on_fused X out polls : run_union_on pop_min X = Some (Ok (out, polls)) -> no_again polls ->
  run_union_on pop_min (map fused X) = Some (Ok (out, polls)).
Proof.
  unfold run_union_on. destruct (op_new X) as [st| |] eqn:Hn; cbn [lift fbind]; try discriminate.
  destruct (collect (union_next pop_min) (S (items_total X)) st) as [[q| |]|] eqn:Hc; cbn [fbind]; try discriminate.
  intros H Hna; inversion H; subst. apply no_again_clean in Hna.
  assert (items_total (map fused X) = items_total X) as -> by (unfold items_total; rewrite map_map; reflexivity).
  rewrite (op_new_fuse _ _ Hn); [|eapply polled_clean; [exact (collect_polled _ op_rdrs (union_next_polled pop_min) _ _ _ Hc)|exact Hna]].
  cbn [lift fbind].
  rewrite (collect_fuse _ op_rdrs fuse_op (union_next_polled pop_min) union_next_fuse _ _ _ Hc Hna).
  cbn [fbind fst snd]. unfold op_polls. cbn [fuse_op o_heap fuse_h rdrs]. rewrite polls_of_fuse. reflexivity.
Qed.
Theorem run_sel_on_fused op X out polls : run_sel_on pop_min op X = Some (Ok (out, polls)) -> no_again polls ->
  run_sel_on pop_min op (map fused X) = Some (Ok (out, polls)).
Proof.
  unfold run_sel_on. destruct (op_new X) as [st| |] eqn:Hn; cbn [lift fbind]; try discriminate.
  destruct (collect (sel_next pop_min op) (S (items_total X)) st) as [[q| |]|] eqn:Hc; cbn [fbind]; try discriminate.
  intros H Hna; inversion H; subst. apply no_again_clean in Hna.
  assert (items_total (map fused X) = items_total X) as -> by (unfold items_total; rewrite map_map; reflexivity).
  rewrite (op_new_fuse _ _ Hn); [|eapply polled_clean; [exact (collect_polled _ op_rdrs (sel_next_polled pop_min op) _ _ _ Hc)|exact Hna]].
  cbn [lift fbind].
  rewrite (collect_fuse _ op_rdrs fuse_op (sel_next_polled pop_min op) (sel_next_fuse op) _ _ _ Hc Hna).
  cbn [fbind fst snd]. unfold op_polls. cbn [fuse_op o_heap fuse_h rdrs]. rewrite polls_of_fuse. reflexivity.
Qed.

Lemma split_last_map {A B} (f : A -> B) l : forall x,
  split_last (f x) (map f l) = (map f (fst (split_last x l)), f (snd (split_last x l))).
Proof.
  induction l as [|y l IH]; intros x; cbn [map split_last]; [reflexivity|]. rewrite IH.
  destruct (split_last y l); reflexivity.
Qed.
Lemma swap_remove0_map {A B} (f : A -> B) l :
  swap_remove0 (map f l) = match swap_remove0 l with Some (x, r) => Some (f x, map f r) | None => None end.
Proof.
  destruct l as [|x [|y r]]; try reflexivity. cbn [map swap_remove0]. rewrite split_last_map.
  destruct (split_last y r); reflexivity.
Qed.
Lemma diff_new_fuse X st : diff_new X = Ok st -> clean (d_rdrs st) -> diff_new (map fused X) = Ok (fuse_d st).
Proof.
  unfold diff_new. rewrite swap_remove0_map. destruct (swap_remove0 X) as [[x r]|]; [|discriminate].
  destruct (sh_new r) as [u| |] eqn:Hn; cbn [bind]; try discriminate.
  intros H Hc; inversion H; subst. unfold d_rdrs in Hc. cbn [d_set d_heap] in Hc. inversion Hc; subst.
  rewrite (sh_new_fuse _ _ Hn) by assumption. reflexivity.
Qed.
Theorem run_difference_on_fused X out polls : run_difference_on pop_min X = Some (Ok (out, polls)) -> no_again polls ->
  run_difference_on pop_min (map fused X) = Some (Ok (out, polls)).
Proof.
  unfold run_difference_on. destruct (diff_new X) as [st| |] eqn:Hn; cbn [lift fbind]; try discriminate.
  destruct (collect (diff_next pop_min) (S (items_total X)) st) as [[q| |]|] eqn:Hc; cbn [fbind]; try discriminate.
  intros H Hna; inversion H; subst. apply (no_again_clean (d_rdrs (snd q))) in Hna.
  assert (items_total (map fused X) = items_total X) as -> by (unfold items_total; rewrite map_map; reflexivity).
  rewrite (diff_new_fuse _ _ Hn); [|eapply polled_clean; [exact (collect_polled _ d_rdrs (diff_next_polled pop_min) _ _ _ Hc)|exact Hna]].
  cbn [lift fbind].
  rewrite (collect_fuse _ d_rdrs fuse_d (diff_next_polled pop_min) diff_next_fuse _ _ _ Hc Hna).
  cbn [fbind fst snd]. unfold d_polls. cbn [fuse_d d_set d_heap fuse_h rdrs].
  change (fuse_r (d_set (snd q)) :: map fuse_r (rdrs (d_heap (snd q)))) with (map fuse_r (d_set (snd q) :: rdrs (d_heap (snd q)))).
  rewrite polls_of_fuse. reflexivity.
Qed.
Theorem is_disjoint_on_fused x0 x1 b polls : is_disjoint_on pop_min x0 x1 = Some (Ok (b, polls)) -> no_again polls ->
  is_disjoint_on pop_min (fused x0) (fused x1) = Some (Ok (b, polls)).
Proof.
  unfold is_disjoint_on. destruct (op_new [x0; x1]) as [st| |] eqn:Hn; cbn [lift fbind]; try discriminate.
  destruct (sel_next pop_min OpInter st) as [[r| |]|] eqn:Hx; cbn [fbind]; try discriminate.
  intros H Hna; inversion H; subst. apply no_again_clean in Hna.
  change [fused x0; fused x1] with (map fused [x0; x1]).
  rewrite (op_new_fuse _ _ Hn); [|eapply polled_clean; [exact (sel_next_polled pop_min OpInter _ _ Hx)|exact Hna]].
  cbn [lift fbind]. rewrite (sel_next_fuse _ _ _ Hx Hna). cbn [fbind fst snd].
  unfold op_polls. cbn [fuse_op o_heap fuse_h rdrs]. rewrite polls_of_fuse. reflexivity.
Qed.
Theorem is_subset_on_fused n x0 x1 b polls : is_subset_on pop_min n x0 x1 = Some (Ok (b, polls)) -> no_again polls ->
  is_subset_on pop_min n (fused x0) (fused x1) = Some (Ok (b, polls)).
Proof.
  unfold is_subset_on. destruct (run_sel_on pop_min OpInter [x0; x1]) as [[[out pl]| |]|] eqn:Hx; cbn [fbind]; try discriminate.
  intros H Hna; inversion H; subst. cbn [snd] in Hna. change [fused x0; fused x1] with (map fused [x0; x1]).
  rewrite (run_sel_on_fused _ _ _ _ Hx Hna). reflexivity.
Qed.
Theorem is_superset_on_fused n x0 x1 b polls : is_superset_on pop_min n x0 x1 = Some (Ok (b, polls)) -> no_again polls ->
  is_superset_on pop_min n (fused x0) (fused x1) = Some (Ok (b, polls)).
Proof.
  unfold is_superset_on. destruct (run_union_on pop_min [x0; x1]) as [[[out pl]| |]|] eqn:Hx; cbn [fbind]; try discriminate.
  intros H Hna; inversion H; subst. cbn [snd] in Hna. change [fused x0; fused x1] with (map fused [x0; x1]).
  rewrite (run_union_on_fused _ _ _ Hx Hna). reflexivity.
Qed.
End Fuse.

(* ================= the theorems ================= *)
Section Runs.
Variable pop_min : list slot -> option (slot * list slot).
Hypothesis Hadm : admissible pop_min.

Lemma op_new_polled X st : op_new X = Ok st -> polled (map open X) (op_rdrs st).
Proof.
  unfold op_new. destruct (sh_new X) as [u| |] eqn:Hn; cbn [bind]; try discriminate.
  intros H; inversion H; subst. apply sh_new_polled. exact Hn.
Qed.

(* union: the set-theoretic union of the items yielded before the first None; every stream has
   been polled once per item and once more for its None, and not again *)
Theorem run_union_on_correct X : streams_ok (map s_items X) ->
  exists out, run_union_on pop_min X = Some (Ok (out, map full_polls X)) /\
              out_eqv out (spec_union (map s_items X)).
Proof.
  intros Hs. destruct (union_collect_correct pop_min Hadm X Hs) as (st0 & out & stf & Hn & Hc & He & Hf).
  exists out. split; [|exact He]. unfold run_union_on. rewrite Hn. cbn [lift fbind]. rewrite Hc. cbn [fbind fst snd].
  unfold fret. do 3 f_equal. unfold op_polls. apply done_polls; [|exact Hf].
  eapply polled_ok; [|apply opened_ok]. eapply polled_trans; [apply op_new_polled; exact Hn|].
  exact (collect_polled (union_next pop_min) op_rdrs (union_next_polled pop_min) _ _ _ Hc).
Qed.
Theorem run_sel_on_correct op X : streams_ok (map s_items X) ->
  exists out, run_sel_on pop_min op X = Some (Ok (out, map full_polls X)) /\
              out_eqv out (spec_sel op (map s_items X)).
Proof.
  intros Hs. destruct (sel_collect_correct pop_min Hadm op X Hs) as (st0 & out & stf & Hn & Hc & He & Hf).
  exists out. split; [|exact He]. unfold run_sel_on. rewrite Hn. cbn [lift fbind]. rewrite Hc. cbn [fbind fst snd].
  unfold fret. do 3 f_equal. unfold op_polls. apply done_polls; [|exact Hf].
  eapply polled_ok; [|apply opened_ok]. eapply polled_trans; [apply op_new_polled; exact Hn|].
  exact (collect_polled (sel_next pop_min op) op_rdrs (sel_next_polled pop_min op) _ _ _ Hc).
Qed.

(* difference: the first stream is read to its end (items + 1 polls); the others, in the order
   swap_remove(0) leaves them in, only as far as needed, and never after their None *)
Theorem run_difference_on_correct x0 rest : streams_ok (map s_items (x0 :: rest)) ->
  exists rest' polls,
    run_difference_on pop_min (x0 :: rest) = Some (Ok (spec_difference (map s_items (x0 :: rest)), full_polls x0 :: polls)) /\
    swap_remove0 (x0 :: rest) = Some (x0, rest') /\ Permutation rest rest' /\ Forall2 polls_ok rest' polls.
Proof.
  intros Hs. destruct (difference_collect_correct pop_min Hadm x0 rest Hs) as (rest' & st0 & stf & Hsw & Hp & Hn & Hc & Hf1 & Hf2).
  exists rest', (polls_of (rdrs (d_heap stf))).
  assert (Forall2 rd_ok (x0 :: rest') (d_rdrs stf)) as Hok.
  { eapply polled_ok; [|apply (opened_ok (x0 :: rest'))].
    eapply polled_trans; [|exact (collect_polled (diff_next pop_min) d_rdrs (diff_next_polled pop_min) _ _ _ Hc)].
    unfold diff_new in Hn. rewrite Hsw in Hn. destruct (sh_new rest') as [u| |] eqn:Hu; cbn [bind] in Hn; try discriminate.
    inversion Hn; subst. unfold d_rdrs. cbn [map d_set d_heap]. apply polled_cons. apply sh_new_polled. exact Hu. }
  unfold d_rdrs in Hok. inversion Hok; subst.
  split; [|split; [exact Hsw|split; [exact Hp|apply noagain_polls; assumption]]].
  unfold run_difference_on. rewrite Hn. cbn [lift fbind]. rewrite Hc. cbn [fbind fst snd].
  unfold fret. do 3 f_equal. unfold d_polls. cbn [polls_of map]. f_equal.
  unfold rd_ok, again_of, full_polls in *. rewrite Hf1 in *. f_equal. lia.
Qed.
Theorem run_difference_on_empty : run_difference_on pop_min [] = Some Panic.
Proof. reflexivity. Qed.

(* the predicates *)
Theorem is_disjoint_on_correct (x0 x1 : instream) : kmap_ok (s_items x0) = true -> kmap_ok (s_items x1) = true ->
  exists polls, is_disjoint_on pop_min x0 x1 = Some (Ok (spec_disjoint (s_items x0) (s_items x1), polls)) /\
                Forall2 polls_ok [x0; x1] polls.
Proof.
  intros H0 H1. destruct (inter_first_correct pop_min Hadm x0 x1 H0 H1) as (st0 & r & Hn & Hx & Hb & Hf).
  exists (op_polls (snd r)). unfold is_disjoint_on. rewrite Hn. cbn [lift fbind]. rewrite Hx. cbn [fbind]. rewrite Hb.
  split; [reflexivity|]. unfold op_polls. apply noagain_polls; [|exact Hf].
  eapply polled_ok; [|apply (opened_ok [x0; x1])]. eapply polled_trans; [apply op_new_polled; exact Hn|].
  apply (sel_next_polled pop_min OpInter _ _ Hx).
Qed.
Theorem is_subset_on_correct selflen (x0 x1 : instream) : kmap_ok (s_items x0) = true -> kmap_ok (s_items x1) = true ->
  selflen = N.of_nat (length (s_items x0)) ->
  is_subset_on pop_min selflen x0 x1
    = Some (Ok (spec_subset (s_items x0) (s_items x1), [full_polls x0; full_polls x1])).
Proof.
  intros H0 H1 ->. set (s0 := s_items x0). set (s1 := s_items x1).
  assert (streams_ok (map s_items [x0; x1])) as Hs by (repeat constructor; assumption).
  destruct (run_sel_on_correct OpInter [x0; x1] Hs) as (out & Hx & He). cbn [map] in He. fold s0 s1 in He.
  unfold is_subset_on. rewrite Hx. cbn [fbind fst snd map]. unfold fret. do 3 f_equal.
  apply out_eqv_length in He. rewrite He.
  assert (length (spec_sel OpInter [s0; s1]) = length (filter (fun k => has_key k s1) (keys_of s0))) as ->.
  { rewrite <- (inter_keys s0 s1 H0 H1). symmetry. apply map_length. }
  replace (length s0) with (length (keys_of s0)) by apply map_length.
  unfold spec_subset. rewrite <- (forallb_map fst (fun k => has_key k s1)). fold (keys_of s0).
  rewrite <- filter_length_all. apply eq_true_iff_eq. rewrite N.eqb_eq, Nat.eqb_eq. lia.
Qed.
Theorem is_superset_on_correct selflen (x0 x1 : instream) : kmap_ok (s_items x0) = true -> kmap_ok (s_items x1) = true ->
  selflen = N.of_nat (length (s_items x0)) ->
  is_superset_on pop_min selflen x0 x1
    = Some (Ok (spec_superset (s_items x0) (s_items x1), [full_polls x0; full_polls x1])).
Proof.
  intros H0 H1 ->. set (s0 := s_items x0). set (s1 := s_items x1).
  assert (streams_ok (map s_items [x0; x1])) as Hs by (repeat constructor; assumption).
  destruct (run_union_on_correct [x0; x1] Hs) as (out & Hx & He). cbn [map] in He. fold s0 s1 in He.
  unfold is_superset_on. rewrite Hx. cbn [fbind fst snd map]. unfold fret. do 3 f_equal.
  apply out_eqv_length in He. rewrite He.
  assert (length (spec_union [s0; s1]) = length (all_keys [s0; s1])) as ->.
  { rewrite <- spec_union_keys. symmetry. apply map_length. }
  rewrite <- (union_len_superset s0 s1 H0 H1).
  apply eq_true_iff_eq. rewrite N.eqb_eq, Nat.eqb_eq. lia.
Qed.

(* ---------- the continuation after the first None has no influence at all ---------- *)
Lemma full_no_again X : no_again (map full_polls X).
Proof. unfold no_again. rewrite Forall_map. apply Forall_forall. reflexivity. Qed.
Lemma polls_ok_no_again X polls : Forall2 polls_ok X polls -> no_again polls.
Proof. induction 1 as [|x pa X polls [_ H] _ IH]; constructor; auto. Qed.
Lemma fused_same X X' : map s_items X = map s_items X' -> map fused X = map fused X'.
Proof. intros H. unfold fused. rewrite <- !(map_map s_items inert). now rewrite H. Qed.

Theorem union_after_irrelevant X X' : streams_ok (map s_items X) -> map s_items X = map s_items X' ->
  run_union_on pop_min X = run_union_on pop_min X'.
Proof.
  intros Hs He. destruct (run_union_on_correct X Hs) as (o & H & _).
  rewrite He in Hs. destruct (run_union_on_correct X' Hs) as (o' & H' & _).
  pose proof (run_union_on_fused pop_min _ _ _ H (full_no_again X)) as F.
  pose proof (run_union_on_fused pop_min _ _ _ H' (full_no_again X')) as F'.
  rewrite (fused_same _ _ He) in F. congruence.
Qed.
Theorem sel_after_irrelevant op X X' : streams_ok (map s_items X) -> map s_items X = map s_items X' ->
  run_sel_on pop_min op X = run_sel_on pop_min op X'.
Proof.
  intros Hs He. destruct (run_sel_on_correct op X Hs) as (o & H & _).
  rewrite He in Hs. destruct (run_sel_on_correct op X' Hs) as (o' & H' & _).
  pose proof (run_sel_on_fused pop_min _ _ _ _ H (full_no_again X)) as F.
  pose proof (run_sel_on_fused pop_min _ _ _ _ H' (full_no_again X')) as F'.
  rewrite (fused_same _ _ He) in F. congruence.
Qed.
Theorem difference_after_irrelevant X X' : streams_ok (map s_items X) -> map s_items X = map s_items X' ->
  run_difference_on pop_min X = run_difference_on pop_min X'.
Proof.
  intros Hs He. destruct X as [|x0 rest]; destruct X' as [|x0' rest']; try discriminate; [reflexivity|].
  destruct (run_difference_on_correct x0 rest Hs) as (r1 & p1 & H & _ & _ & Hp).
  rewrite He in Hs. destruct (run_difference_on_correct x0' rest' Hs) as (r1' & p1' & H' & _ & _ & Hp').
  assert (no_again (full_polls x0 :: p1)) as Hn by (constructor; [reflexivity|eapply polls_ok_no_again; eauto]).
  assert (no_again (full_polls x0' :: p1')) as Hn' by (constructor; [reflexivity|eapply polls_ok_no_again; eauto]).
  pose proof (run_difference_on_fused pop_min _ _ _ H Hn) as F.
  pose proof (run_difference_on_fused pop_min _ _ _ H' Hn') as F'.
  rewrite (fused_same _ _ He) in F. congruence.
Qed.

Theorem predicates_after_irrelevant n (x0 x1 x0' x1' : instream) :
  kmap_ok (s_items x0) = true -> kmap_ok (s_items x1) = true -> n = N.of_nat (length (s_items x0)) ->
  s_items x0 = s_items x0' -> s_items x1 = s_items x1' ->
  is_disjoint_on pop_min x0 x1 = is_disjoint_on pop_min x0' x1' /\
  is_subset_on pop_min n x0 x1 = is_subset_on pop_min n x0' x1' /\
  is_superset_on pop_min n x0 x1 = is_superset_on pop_min n x0' x1'.
Proof.
  intros H0 H1 Hn E0 E1. split; [|split].
  - destruct (is_disjoint_on_correct x0 x1 H0 H1) as (p & H & Hp).
    rewrite E0 in H0. rewrite E1 in H1. destruct (is_disjoint_on_correct x0' x1' H0 H1) as (p' & H' & Hp').
    pose proof (is_disjoint_on_fused pop_min _ _ _ _ H (polls_ok_no_again _ _ Hp)) as F.
    pose proof (is_disjoint_on_fused pop_min _ _ _ _ H' (polls_ok_no_again _ _ Hp')) as F'.
    unfold fused in F, F'. rewrite E0, E1 in F. congruence.
  - rewrite (is_subset_on_correct n x0 x1 H0 H1 Hn). rewrite E0 in H0. rewrite E1 in H1. rewrite E0 in Hn.
    rewrite (is_subset_on_correct n x0' x1' H0 H1 Hn). unfold full_polls. now rewrite E0, E1.
  - rewrite (is_superset_on_correct n x0 x1 H0 H1 Hn). rewrite E0 in H0. rewrite E1 in H1. rewrite E0 in Hn.
    rewrite (is_superset_on_correct n x0' x1' H0 H1 Hn). unfold full_polls. now rewrite E0, E1.
Qed.

(* ---------- well-behaved streams given as lists ---------- *)
Lemma items_inert ss : map s_items (map inert ss) = ss.
Proof. rewrite map_map. cbn. apply map_id. Qed.

Theorem run_union_correct ss : streams_ok ss ->
  exists out, run_union pop_min ss = Some (Ok out) /\ out_eqv out (spec_union ss).
Proof.
  intros Hs. destruct (run_union_on_correct (map inert ss)) as (out & Hx & He); rewrite items_inert in *; [exact Hs|].
  exists out. unfold run_union. rewrite Hx. auto.
Qed.
Theorem run_sel_correct op ss : streams_ok ss ->
  exists out, run_sel pop_min op ss = Some (Ok out) /\ out_eqv out (spec_sel op ss).
Proof.
  intros Hs. destruct (run_sel_on_correct op (map inert ss)) as (out & Hx & He); rewrite items_inert in *; [exact Hs|].
  exists out. unfold run_sel. rewrite Hx. auto.
Qed.
Theorem run_difference_correct s0 rest : streams_ok (s0 :: rest) ->
  run_difference pop_min (s0 :: rest) = Some (Ok (spec_difference (s0 :: rest))).
Proof.
  intros Hs. pose proof (items_inert (s0 :: rest)) as Ei. change (map inert (s0 :: rest)) with (inert s0 :: map inert rest) in Ei.
  destruct (run_difference_on_correct (inert s0) (map inert rest)) as (rest' & polls & Hx & _).
  { rewrite Ei. exact Hs. }
  unfold run_difference. cbn [map]. rewrite Hx, Ei. reflexivity.
Qed.
Theorem run_difference_empty : run_difference pop_min [] = Some Panic.
Proof. reflexivity. Qed.
Theorem is_disjoint_correct (s0 s1 : list kv) : kmap_ok s0 = true -> kmap_ok s1 = true ->
  is_disjoint pop_min s0 s1 = Some (Ok (spec_disjoint s0 s1)).
Proof.
  intros H0 H1. destruct (is_disjoint_on_correct (inert s0) (inert s1) H0 H1) as (polls & Hx & _).
  unfold is_disjoint. rewrite Hx. reflexivity.
Qed.
Theorem is_subset_correct selflen (s0 s1 : list kv) : kmap_ok s0 = true -> kmap_ok s1 = true ->
  selflen = N.of_nat (length s0) ->
  is_subset pop_min selflen s0 s1 = Some (Ok (spec_subset s0 s1)).
Proof.
  intros H0 H1 Hl. unfold is_subset. rewrite (is_subset_on_correct selflen (inert s0) (inert s1) H0 H1 Hl). reflexivity.
Qed.
Theorem is_superset_correct selflen (s0 s1 : list kv) : kmap_ok s0 = true -> kmap_ok s1 = true ->
  selflen = N.of_nat (length s0) ->
  is_superset pop_min selflen s0 s1 = Some (Ok (spec_superset s0 s1)).
Proof.
  intros H0 H1 Hl. unfold is_superset. rewrite (is_superset_on_correct selflen (inert s0) (inert s1) H0 H1 Hl). reflexivity.
Qed.
End Runs.
