(* MemProofs.v — C13 / C14: bounds on the logical size of the model states (Mem.v).

   (a) registry: every entry of the table has an index < rows * cols, whatever was looked up
       and inserted; (b) builder: the stack of unfinished nodes spells the last accepted key,
       every node holds pairwise different input bytes of the alphabet, hence
       [builder_logical_size <= builder_bound] for every reachable state; (c) streams: stack and
       input buffer move in lock-step and never get deeper than the graph; (d) set operations:
       at most k slots and k output entries.
   All statements are about the MODEL; see Mem.v for what the model cannot exhibit. *)
Require Import FstV.Base FstV.Pack FstV.Node FstV.Registry FstV.Builder FstV.Mem.
Require Import FstV.Generated.SrcParams.
Require Import Coq.FSets.FMapPositive.
From Coq Require Import SetoidList Permutation ZifyN ZifyNat ZifyBool.

Ltac split4 := split; [|split; [|split]].
Ltac split5 := split; [|split; [|split; [|split]]].

(* ====================================================================================== *)
(* generic list facts                                                                      *)
(* ====================================================================================== *)
Lemma sum_nat_le {A} (f : A -> nat) (m : nat) l :
  Forall (fun x => (f x <= m)%nat) l -> (sum_nat f l <= length l * m)%nat.
Proof. induction 1; cbn [sum_nat fold_right length]; [lia|]. fold (sum_nat f l). lia. Qed.

Lemma sum_nat_app {A} (f : A -> nat) l1 l2 : sum_nat f (l1 ++ l2) = (sum_nat f l1 + sum_nat f l2)%nat.
Proof. induction l1; cbn; [reflexivity|]. fold (sum_nat f (l1 ++ l2)) (sum_nat f l1). lia. Qed.

Lemma max_nat_le {A} (f : A -> nat) (m : nat) l :
  Forall (fun x => (f x <= m)%nat) l -> (max_nat f l <= m)%nat.
Proof. induction 1; cbn [max_nat fold_right]; [lia|]. fold (max_nat f l). lia. Qed.

Lemma nodup_incl_le (l s : list N) : NoDup l -> incl l s -> (length l <= length s)%nat.
Proof. apply NoDup_incl_length. Qed.

Lemma NoDup_snoc (l : list N) b : NoDup l -> ~ In b l -> NoDup (l ++ [b]).
Proof.
  intros Hl Hb. induction l as [|x l IH]; cbn; [constructor; [intros []|constructor]|].
  inversion Hl; subst. constructor.
  - rewrite in_app_iff. cbn. intros [H|[H|[]]]; [auto|]. subst. apply Hb. now left.
  - apply IH; [assumption|]. intros H. apply Hb. now right.
Qed.

Lemma nodupa_keys {A} (l : list (positive * A)) :
  NoDupA (@PositiveMap.eq_key A) l -> NoDup (map fst l).
Proof.
  induction 1 as [|x l Hx _ IH]; cbn; constructor; [|exact IH].
  intros Hin. apply Hx. apply in_map_iff in Hin as (y & Hy & Hin).
  apply InA_alt. exists y. split; [|exact Hin]. unfold PositiveMap.eq_key, PositiveMap.E.eq. now symmetry.
Qed.

Lemma succ_pos_inj i j : N.succ_pos i = N.succ_pos j -> i = j.
Proof. intros H. apply (f_equal N.pos) in H. rewrite !N.succ_pos_spec in H. lia. Qed.

(* a map all of whose keys are [succ_pos i] with i < n has at most n entries *)
Lemma cardinal_bound {A} (m : PositiveMap.t A) (n : N) :
  (forall p c, PositiveMap.find p m = Some c -> exists i, p = N.succ_pos i /\ i < n) ->
  N.of_nat (PositiveMap.cardinal m) <= n.
Proof.
  intros H. rewrite PositiveMap.cardinal_1.
  pose proof (nodupa_keys _ (PositiveMap.elements_3w m)) as Hnd.
  set (img := map (fun i => N.succ_pos (N.of_nat i)) (seq 0 (N.to_nat n))).
  assert (Hincl : incl (map fst (PositiveMap.elements m)) img).
  { intros p Hp. apply in_map_iff in Hp as ([p' c] & <- & Hin). cbn.
    apply PositiveMap.elements_complete in Hin. destruct (H _ _ Hin) as (i & -> & Hi).
    unfold img. apply in_map_iff. exists (N.to_nat i). rewrite N2Nat.id. split; [reflexivity|].
    apply in_seq. lia. }
  pose proof (NoDup_incl_length Hnd Hincl) as Hle.
  unfold img in Hle. rewrite !map_length, seq_length in Hle. clear - Hle. set (x := length _) in *. clearbody x. lia.
Qed.

(* ====================================================================================== *)
(* (a) registry                                                                            *)
(* ====================================================================================== *)
Section RegInv.
(* [Q]: a property of the nodes held by cells (later: few, pairwise different inputs) *)
Variable Q : bnode -> Prop.
Hypothesis Q_empty : Q (empty_bnode false).

Definition reg_inv (r : registry) : Prop :=
  forall p c, PositiveMap.find p (r_table r) = Some c ->
    (exists i, p = N.succ_pos i /\ i < r_rows r * r_cols r) /\ Q (c_node c).

Lemma reg_inv_new rows cols : reg_inv (reg_new rows cols).
Proof. intros p c H. cbn in H. rewrite PositiveMap.gempty in H. discriminate. Qed.

Lemma rget_Q r i : reg_inv r -> Q (c_node (rget r i)).
Proof.
  intros H. unfold rget. destruct (PositiveMap.find _ _) as [c|] eqn:E; [apply (H _ _ E)|exact Q_empty].
Qed.

Lemma rset_inv r i c : reg_inv r -> i < r_rows r * r_cols r -> Q (c_node c) -> reg_inv (rset r i c).
Proof.
  intros H Hi Hc p c' Hf. cbn [rset r_table r_rows r_cols] in *.
  destruct (Pos.eq_dec p (N.succ_pos i)) as [->|Hne].
  - rewrite PositiveMap.gss in Hf. inversion Hf; subst. split; [eauto|assumption].
  - rewrite PositiveMap.gso in Hf by assumption. apply (H _ _ Hf).
Qed.

Lemma rset_rows r i c : r_rows (rset r i c) = r_rows r. Proof. reflexivity. Qed.
Lemma rset_cols r i c : r_cols (rset r i c) = r_cols r. Proof. reflexivity. Qed.

Lemma promote_geom i : forall r s, r_rows (promote r s i) = r_rows r /\ r_cols (promote r s i) = r_cols r.
Proof. induction i as [|j IH]; intros r s; cbn [promote]; [auto|]. rewrite (proj1 (IH _ _)), (proj2 (IH _ _)). auto. Qed.

Lemma promote_inv i : forall r s, reg_inv r -> s + N.of_nat i < r_rows r * r_cols r -> reg_inv (promote r s i).
Proof.
  induction i as [|j IH]; intros r s H Hi; cbn [promote]; [exact H|].
  apply IH.
  - apply rset_inv; [apply rset_inv| |]; try apply rget_Q; try assumption; rewrite ?rset_rows, ?rset_cols; lia.
  - rewrite !rset_rows, !rset_cols. lia.
Qed.

Lemma find_cell_range r n s k : forall i0 i, find_cell r n s k i0 = Some i -> i0 <= i < i0 + N.of_nat k.
Proof.
  induction k as [|k IH]; intros i0 i H; cbn [find_cell] in H; [discriminate|].
  destruct (cell_matches _ _).
  - inversion H; subst. lia.
  - apply IH in H. lia.
Qed.

Lemma cell_with_node_Q c n : Q n -> Q (c_node (cell_with_node c n)).
Proof. auto. Qed.

(* the geometry never changes; the index handed out by NotFound is inside the table *)
Lemma reg_entry_inv r n : reg_inv r -> Q n ->
  reg_inv (fst (reg_entry r n)) /\
  r_rows (fst (reg_entry r n)) = r_rows r /\ r_cols (fst (reg_entry r n)) = r_cols r /\
  (forall idx, snd (reg_entry r n) = NotFound idx -> idx < r_rows r * r_cols r).
Proof.
  intros H Hn. unfold reg_entry.
  destruct (r_rows r * r_cols r =? 0) eqn:E0; [cbn; split4; auto; intros ? Hd; discriminate Hd|].
  apply N.eqb_neq in E0.
  assert (Hrows : r_rows r <> 0) by (intros Hz; rewrite Hz in E0; apply E0; reflexivity).
  assert (Hcols : r_cols r <> 0) by (intros Hz; rewrite Hz, N.mul_0_r in E0; apply E0; reflexivity).
  set (h := reg_hash r n). assert (Hh : h < r_rows r) by (unfold h, reg_hash; apply N.mod_lt; assumption).
  assert (Hin : forall j, j < r_cols r -> r_cols r * h + j < r_rows r * r_cols r) by (intros j Hj; nia).
  assert (Hin0 : r_cols r * h < r_rows r * r_cols r) by (specialize (Hin 0); lia).
  assert (HNF : forall idx, NotFound (r_cols r * h) = NotFound idx -> idx < r_rows r * r_cols r)
    by (intros idx Hi; inversion Hi; subst; exact Hin0).
  destruct (r_cols r =? 1) eqn:E1.
  { apply N.eqb_eq in E1. destruct (cell_matches _ _); cbn [fst snd]; [split4; auto; intros ? Hd; discriminate Hd|].
    split4; auto. apply rset_inv; [assumption|exact Hin0|assumption]. }
  destruct (r_cols r =? 2) eqn:E2.
  { apply N.eqb_eq in E2. destruct (cell_matches _ _); cbn [fst snd]; [split4; auto; intros ? Hd; discriminate Hd|].
    assert (Hin1 : r_cols r * h + 1 < r_rows r * r_cols r) by (apply Hin; lia).
    destruct (cell_matches _ _); cbn [fst snd].
    - split4; auto; [|intros ? Hd; discriminate Hd].
      apply rset_inv; [apply rset_inv| |]; try apply rget_Q; try assumption.
    - split4; auto.
      apply rset_inv; [apply rset_inv| |]; try apply rget_Q; try assumption. }
  destruct (find_cell _ _ _ _ _) as [i|] eqn:Ef; cbn [fst snd].
  - apply find_cell_range in Ef. rewrite N2Nat.id in Ef.
    pose proof (promote_geom (N.to_nat i) r (r_cols r * h)) as [G1 G2].
    split4; auto; [|intros ? Hd; discriminate Hd].
    apply promote_inv; [assumption|]. rewrite N2Nat.id. apply Hin. lia.
  - set (r1 := rset r _ _).
    pose proof (promote_geom (N.to_nat (r_cols r - 1)) r1 (r_cols r * h)) as [G1 G2].
    split4; auto.
    apply promote_inv.
    + apply rset_inv; [assumption|apply Hin; lia|assumption].
    + unfold r1. rewrite rset_rows, rset_cols, N2Nat.id. apply Hin. lia.
Qed.

Lemma reg_insert_inv r idx addr : reg_inv r -> idx < r_rows r * r_cols r -> reg_inv (reg_insert r idx addr).
Proof. intros H Hi. unfold reg_insert. apply rset_inv; [assumption|assumption|]. cbn. now apply rget_Q. Qed.

Lemma reg_inv_cardinal r : reg_inv r -> N.of_nat (PositiveMap.cardinal (r_table r)) <= r_rows r * r_cols r.
Proof. intros H. apply cardinal_bound. intros p c Hf. apply (H _ _ Hf). Qed.

Lemma reg_inv_cells r : reg_inv r -> Forall (fun c => Q (c_node c)) (table_cells r).
Proof.
  intros H. unfold table_cells. apply Forall_forall. intros c Hc.
  apply in_map_iff in Hc as ([p c'] & <- & Hin). apply PositiveMap.elements_complete in Hin. apply (H _ _ Hin).
Qed.
End RegInv.

(* every registry the builder can have: lookups of any node, inserts into the table *)
Inductive reg_reach (rows cols : N) : registry -> Prop :=
| rr_new : reg_reach rows cols (reg_new rows cols)
| rr_entry r n : reg_reach rows cols r -> reg_reach rows cols (fst (reg_entry r n))
| rr_insert r idx addr : reg_reach rows cols r -> idx < rows * cols -> reg_reach rows cols (reg_insert r idx addr).

Lemma reg_reach_inv rows cols r : reg_reach rows cols r ->
  reg_inv (fun _ => True) r /\ r_rows r = rows /\ r_cols r = cols.
Proof.
  induction 1 as [|r n _ (IH & Hr & Hc)|r idx addr _ (IH & Hr & Hc) Hi].
  - split; [apply reg_inv_new|split; reflexivity].
  - destruct (reg_entry_inv (fun _ => True) I r n IH I) as (H1 & H2 & H3 & _). split; [assumption|split; congruence].
  - split; [|split; assumption]. apply reg_insert_inv; auto. now rewrite Hr, Hc.
Qed.

(* ====================================================================================== *)
(* (b) builder                                                                             *)
(* ====================================================================================== *)
Definition inps (n : bnode) : list N := map t_inp (n_trans n).
Definition linp (u : unf) : option N := option_map fst (u_last u).
(* the input bytes of the node once its pending `last` transition has been pushed *)
Definition frozen_inps (u : unf) : list N :=
  inps (u_node u) ++ match linp u with Some b => [b] | None => [] end.
(* what the invariants look at: input bytes of the node and of the pending transition *)
Definition sk (u : unf) : list N * option N := (inps (u_node u), linp u).

Lemma ntrans_inps n : ntrans n = length (inps n).
Proof. unfold ntrans, inps. now rewrite map_length. Qed.
Lemma unf_trans_frozen u : unf_trans u = length (frozen_inps u).
Proof.
  unfold unf_trans, frozen_inps, linp. rewrite app_length, ntrans_inps.
  destruct (u_last u) as [[i o]|]; reflexivity.
Qed.
Lemma freeze_inps u a : inps (freeze u a) = frozen_inps u.
Proof.
  unfold freeze, frozen_inps, linp, inps. destruct (u_last u) as [[i o]|]; cbn.
  - now rewrite map_app.
  - now rewrite app_nil_r.
Qed.
Lemma sk_add_output_prefix u p : sk (add_output_prefix u p) = sk u.
Proof.
  unfold sk, add_output_prefix, inps, linp. cbn. f_equal.
  - rewrite map_map. reflexivity.
  - destruct (u_last u) as [[i o]|]; reflexivity.
Qed.
Lemma map_linp_sk st : map linp st = map snd (map sk st).
Proof. rewrite map_map. reflexivity. Qed.
Lemma map_inps_sk st : map (fun u => inps (u_node u)) st = map fst (map sk st).
Proof. rewrite map_map. reflexivity. Qed.

(* length of the common prefix of the bytes pending on the stack and the new key *)
Fixpoint lcp (l : list (option N)) (bs : key) : nat :=
  match bs, l with
  | b :: bs', Some i :: l' => if i =? b then S (lcp l' bs') else O
  | _, _ => O
  end.
Fixpoint cpl (k bs : key) : nat :=
  match k, bs with
  | x :: k', b :: bs' => if x =? b then S (cpl k' bs') else O
  | _, _ => O
  end.
Lemma lcp_cpl k : forall bs, lcp (map Some k ++ [None]) bs = cpl k bs.
Proof.
  induction k as [|x k IH]; intros [|b bs]; cbn; try reflexivity.
  destruct (x =? b); [now rewrite IH|reflexivity].
Qed.

(* find_common_prefix (no outputs) computes the same length *)
Lemma fcp0_lcp bs : forall st, fcp0 st bs = lcp (map linp st) bs.
Proof.
  induction bs as [|b bs IH]; intros [|u rest]; cbn [fcp0 lcp map]; try reflexivity.
  unfold linp at 1. destruct (u_last u) as [[i o]|]; cbn; [|reflexivity].
  destruct (i =? b); [now rewrite IH|reflexivity].
Qed.

(* find_common_prefix_and_set_output keeps every node's input bytes and only moves outputs *)
Lemma fcp_spec bs : forall st out st' p o, fcp st bs out = Ok (st', p, o) ->
  map sk st' = map sk st /\ p = lcp (map linp st) bs.
Proof.
  induction bs as [|b bs IH]; intros st out st' p o H; cbn [fcp] in H.
  - inversion H; subst. split; [reflexivity|]. destruct (map linp st'); reflexivity.
  - destruct st as [|u rest]; [discriminate|].
    destruct (u_last u) as [[i o0]|] eqn:El.
    + destruct (i =? b) eqn:Eb.
      * set (addp := o0 - N.min o0 out) in H.
        destruct (if addp =? 0 then Ok rest
                  else match rest with r :: rr => Ok (add_output_prefix r addp :: rr) | [] => Panic end)
          as [rest'| |] eqn:Er; cbn [bind] in H; try discriminate.
        destruct (fcp rest' bs (out - N.min o0 out)) as [[[st2 n] o2]| |] eqn:Ef; cbn [bind] in H; try discriminate.
        inversion H; subst. destruct (IH _ _ _ _ _ Ef) as [Hs Hn].
        assert (Hr : map sk rest' = map sk rest).
        { destruct (addp =? 0); [inversion Er; reflexivity|].
          destruct rest as [|r rr]; [discriminate|]. inversion Er; subst. cbn. now rewrite sk_add_output_prefix. }
        split.
        -- cbn [map]. rewrite Hs, Hr. f_equal. unfold sk, linp. cbn. now rewrite El.
        -- cbn [map lcp]. unfold linp at 1. rewrite El. cbn. rewrite Eb. f_equal.
           rewrite (map_linp_sk rest'), Hr, <- map_linp_sk in Hn. exact Hn.
      * inversion H; subst. split; [reflexivity|]. cbn [map lcp]. unfold linp at 1. rewrite El. cbn. now rewrite Eb.
    + inversion H; subst. split; [reflexivity|]. cbn [map lcp]. unfold linp at 1. now rewrite El.
Qed.

(* the common prefix and the order of keys *)
Lemma cpl_facts k : forall bs, lex_cmp k bs <> Gt ->
  (cpl k bs <= length k)%nat /\ (cpl k bs <= length bs)%nat /\
  firstn (cpl k bs) k = firstn (cpl k bs) bs /\
  (cpl k bs = length bs -> k = bs) /\
  ((cpl k bs < length k)%nat -> exists x y, nth_error k (cpl k bs) = Some x /\ nth_error bs (cpl k bs) = Some y /\ x < y).
Proof.
  induction k as [|x k IH]; intros [|b bs] Hle; cbn [cpl lex_cmp length firstn] in *.
  - split5; auto; intros; lia.
  - split5; auto; try lia; try (intros H; discriminate).
  - exfalso. now apply Hle.
  - destruct (N.compare_spec x b) as [E|L|G].
    + subst b. rewrite N.eqb_refl. destruct (IH bs Hle) as (H1 & H2 & H3 & H4 & H5).
      cbn [length firstn nth_error]. split5; try lia.
      * now rewrite H3.
      * intros H. f_equal. apply H4. lia.
      * intros H. apply H5. lia.
    + assert (x =? b = false) as -> by (apply N.eqb_neq; lia).
      cbn [firstn nth_error length]. split5; try lia.
      * reflexivity.
      * intros _. exists x, b. auto.
    + exfalso. now apply Hle.
Qed.

(* list helpers for the stack *)
Lemma last_opt_snoc {A} (l : list A) x : last_opt (l ++ [x]) = Some x.
Proof.
  induction l as [|y l IH]; [reflexivity|]. cbn [app last_opt]. rewrite IH.
  destruct (l ++ [x]) eqn:E; [destruct l; discriminate|reflexivity].
Qed.
Lemma last_opt_nth {A} (l : list A) : last_opt l = nth_error l (length l - 1).
Proof.
  induction l as [|x l IH]; [reflexivity|]. destruct l as [|y l]; [reflexivity|].
  change (last_opt (x :: y :: l)) with (last_opt (y :: l)). rewrite IH. cbn [length].
  replace (S (S (length l)) - 1)%nat with (S (S (length l) - 1)) by lia. reflexivity.
Qed.
Lemma rev_skipn_split {A} (l : list A) p u rest : (S p <= length l)%nat ->
  skipn (length l - S p) (rev l) = u :: rest -> firstn p l = rev rest /\ nth_error l p = Some u.
Proof.
  intros Hp H. rewrite skipn_rev in H.
  replace (length l - (length l - S p))%nat with (S p) in H by lia.
  apply (f_equal (@rev A)) in H. rewrite rev_involutive in H. cbn [rev] in H.
  assert (Hlen : length (rev rest) = p).
  { apply (f_equal (@length A)) in H. rewrite firstn_length_le, app_length in H by assumption. cbn in H. lia. }
  rewrite <- (firstn_skipn (S p) l), H. split.
  - rewrite <- app_assoc, firstn_app, Hlen, Nat.sub_diag. cbn [firstn]. rewrite app_nil_r.
    apply firstn_all2. lia.
  - rewrite <- app_assoc, nth_error_app2 by lia. rewrite Hlen, Nat.sub_diag. reflexivity.
Qed.
Lemma nth_error_keys (k : key) p :
  nth_error (map Some k ++ [None]) p =
  match nth_error k p with Some x => Some (Some x) | None => if Nat.eqb p (length k) then Some None else None end.
Proof.
  destruct (Nat.lt_ge_cases p (length k)) as [H|H].
  - rewrite nth_error_app1 by (now rewrite map_length). rewrite nth_error_map.
    destruct (nth_error k p) eqn:E; [reflexivity|]. apply nth_error_None in E. lia.
  - rewrite nth_error_app2 by (now rewrite map_length). rewrite map_length.
    assert (nth_error k p = None) as -> by (now apply nth_error_None).
    destruct (Nat.eqb_spec p (length k)) as [->|Hne]; [now rewrite Nat.sub_diag|].
    destruct (p - length k)%nat as [|[|m]] eqn:E; try reflexivity. lia.
Qed.

Section BuilderInv.
Variable Sigma : list N.                 (* the alphabet: every byte of every key is in it *)
Variables rows cols : N.
Variable maxkey : nat.

(* a compiled node: pairwise different input bytes of the alphabet *)
Definition small (n : bnode) : Prop := NoDup (inps n) /\ incl (inps n) Sigma.
(* an unfinished node: the same, and the pending byte is greater than the compiled ones *)
Definition node_ok (u : unf) : Prop :=
  small (u_node u) /\
  match linp u with Some b => In b Sigma /\ Forall (fun x => x < b) (inps (u_node u)) | None => True end.

Lemma small_empty f : small (empty_bnode f).
Proof. split; [constructor|intros x []]. Qed.
Lemma small_fan n : small n -> (ntrans n <= length Sigma)%nat.
Proof. intros [H1 H2]. rewrite ntrans_inps. now apply NoDup_incl_length. Qed.

Lemma node_ok_frozen u : node_ok u -> NoDup (frozen_inps u) /\ incl (frozen_inps u) Sigma.
Proof.
  intros [[H1 H2] H3]. unfold frozen_inps. destruct (linp u) as [b|].
  - destruct H3 as [Hb Hlt]. split.
    + apply NoDup_snoc; [assumption|]. intros Hin. rewrite Forall_forall in Hlt. specialize (Hlt _ Hin). lia.
    + intros x Hx. apply in_app_iff in Hx as [Hx|[<-|[]]]; auto.
  - rewrite app_nil_r. auto.
Qed.
Lemma node_ok_fan u : node_ok u -> (unf_trans u <= length Sigma)%nat.
Proof. intros H. rewrite unf_trans_frozen. destruct (node_ok_frozen u H). now apply NoDup_incl_length. Qed.
Lemma freeze_small u a : node_ok u -> small (freeze u a).
Proof. intros H. unfold small. rewrite freeze_inps. now apply node_ok_frozen. Qed.

Definition reg_ok (r : registry) : Prop := reg_inv small r /\ r_rows r = rows /\ r_cols r = cols.

(* Builder::compile touches the registry, the output and last_addr only *)
Lemma compile_spec b n : reg_ok (b_reg b) -> small n ->
  reg_ok (b_reg (fst (compile b n))) /\ b_stack (fst (compile b n)) = b_stack b /\
  b_last (fst (compile b n)) = b_last b.
Proof.
  intros Hb Hn. pose proof Hb as [Hr [Hrows Hcols]]. unfold compile.
  destruct (_ && _ && _); [cbn; split; [assumption|split; reflexivity]|].
  pose proof (reg_entry_inv small (small_empty false) (b_reg b) n Hr Hn) as (H1 & H2 & H3 & H4).
  destruct (reg_entry (b_reg b) n) as [reg0 e]. cbn [fst snd] in *.
  assert (Hok0 : reg_ok reg0) by (split; [assumption|split; congruence]).
  destruct e as [a|idx|]; cbn [fst b_reg b_stack b_last]; [split; [assumption|split; reflexivity]| |].
  - destruct (compile_node _ _ _ _) as [cs| |]; cbn [fst b_reg b_stack b_last b_write];
      [|split; [assumption|split; reflexivity]..].
    split; [|split; reflexivity]. split; [|split; cbn; congruence].
    apply reg_insert_inv; [apply small_empty|assumption|]. rewrite H2, H3. now apply H4.
  - destruct (compile_node _ _ _ _) as [cs| |]; cbn [fst b_reg b_stack b_last b_write];
      split; try assumption; split; reflexivity.
Qed.

(* compile_from: pops the nodes above `keep`, freezes the pending transition of the node at `keep` *)
Lemma cfr_spec : forall rstack b keep addr b' rst,
  compile_from_rev b rstack keep addr = (b', Ok rst) ->
  Forall node_ok rstack -> (S keep <= length rstack)%nat -> reg_ok (b_reg b) ->
  exists u rest t',
    skipn (length rstack - S keep) rstack = u :: rest /\ rst = t' :: rest /\
    linp t' = None /\ inps (u_node t') = frozen_inps u /\
    reg_ok (b_reg b') /\ b_stack b' = b_stack b /\ b_last b' = b_last b.
Proof.
  induction rstack as [|u rest0 IH]; intros b keep addr b' rst H Hok Hlen Hreg; [cbn in Hlen; lia|].
  cbn [compile_from_rev] in H. inversion Hok as [|? ? Hu Hrest]; subst.
  destruct (Nat.ltb (S keep) (length (u :: rest0))) eqn:El.
  - apply Nat.ltb_lt in El. cbn [length] in El.
    set (nn := match addr with
               | None => match u_last u with None => Ok (u_node u) | Some _ => Panic end
               | Some a => Ok (freeze u a) end) in H.
    assert (Hn : forall n, nn = Ok n -> small n).
    { unfold nn. intros n Hnn. destruct addr as [a|].
      - inversion Hnn; subst. now apply freeze_small.
      - destruct (u_last u); inversion Hnn; subst. apply Hu. }
    destruct nn as [n| |]; try (inversion H; fail).
    pose proof (compile_spec b n Hreg (Hn n eq_refl)) as (C1 & C2 & C3).
    destruct (compile b n) as [b1 r]. cbn [fst] in *.
    destruct r as [a| |]; try (inversion H; fail).
    destruct (a =? NONE_ADDRESS); [inversion H|].
    destruct (IH _ _ _ _ _ H Hrest ltac:(lia) C1) as (u' & rest & t' & S1 & S2 & S3 & S4 & S5 & S6 & S7).
    exists u', rest, t'. split5; auto.
    + replace (length (u :: rest0) - S keep)%nat with (S (length rest0 - S keep)) by (cbn [length]; lia). exact S1.
    + split; [assumption|split; congruence].
  - apply Nat.ltb_ge in El. replace (length (u :: rest0) - S keep)%nat with O by lia. cbn [skipn].
    inversion H; subst b' rst. clear H.
    destruct addr as [a|].
    + exists u, rest0, (mkUnf (freeze u a) None). split5; auto. apply freeze_inps.
    + destruct (u_last u) as [[i o]|] eqn:Eu.
      * exists u, rest0, (mkUnf (freeze u NONE_ADDRESS) None). split5; auto. apply freeze_inps.
      * exists u, rest0, u. split5; auto.
        -- unfold linp. now rewrite Eu.
        -- unfold frozen_inps, linp. rewrite Eu. cbn. now rewrite app_nil_r.
Qed.

(* ---- the invariant of the stack of unfinished nodes, on skeletons ---- *)
Definition nok (x : list N * option N) : Prop :=
  (NoDup (fst x) /\ incl (fst x) Sigma) /\
  match snd x with Some b => In b Sigma /\ Forall (fun y => y < b) (fst x) | None => True end.
Lemma node_ok_nok u : node_ok u <-> nok (sk u).
Proof. reflexivity. Qed.

(* the pending bytes spell the last key; the top node is fresh *)
Definition sinv (s : list (list N * option N)) (k : key) : Prop :=
  map snd s = map Some k ++ [None] /\ Forall nok s /\ (forall t, last_opt s = Some t -> fst t = []).
Definition stack_inv (st : list unf) (k : key) : Prop := sinv (map sk st) k.

Lemma sinv_length s k : sinv s k -> length s = S (length k).
Proof. intros (H & _). apply (f_equal (@length _)) in H. rewrite !map_length, app_length, map_length in H. cbn in H. lia. Qed.

Lemma suffix_sk r : map sk (suffix_nodes r) = map (fun c => ([], Some c)) r ++ [([], None)].
Proof. induction r as [|c r IH]; [reflexivity|]. cbn [suffix_nodes map app]. now rewrite IH. Qed.

(* what one accepted non-empty key does to the skeleton *)
Lemma sinv_step s k bs b r x :
  sinv s k -> lex_cmp k bs <> Gt -> incl bs Sigma ->
  (cpl k bs < length bs)%nat -> skipn (cpl k bs) bs = b :: r ->
  nth_error s (cpl k bs) = Some x ->
  sinv (firstn (cpl k bs) s ++ [(fst x ++ match snd x with Some c => [c] | None => [] end, Some b)]
        ++ map (fun c => ([], Some c)) r ++ [([], None)]) bs.
Proof.
  intros Hs Hle Hbs Hp Hsk Hx. set (p := cpl k bs) in *.
  destruct (cpl_facts k bs Hle) as (P1 & P2 & P3 & P4 & P5). fold p in P1, P2, P3, P4, P5.
  pose proof Hs as (S1 & S2 & S3). pose proof (sinv_length _ _ Hs) as Hlen.
  assert (Hbsplit : bs = firstn p bs ++ b :: r) by (rewrite <- Hsk; symmetry; apply firstn_skipn).
  assert (Hb : In b Sigma) by (apply Hbs; rewrite Hbsplit; apply in_or_app; right; now left).
  assert (Hr : incl r Sigma) by (intros c Hc; apply Hbs; rewrite Hbsplit; apply in_or_app; right; now right).
  assert (Hxs : snd x = match nth_error k p with Some y => Some y | None => None end /\
                (nth_error k p = None -> fst x = [])).
  { pose proof (map_nth_error snd _ _ Hx) as Hm. rewrite S1, nth_error_keys in Hm.
    destruct (nth_error k p) as [y|] eqn:Ek.
    - inversion Hm. split; [reflexivity|discriminate].
    - apply nth_error_None in Ek. assert (p = length k) by lia.
      destruct (Nat.eqb p (length k)); inversion Hm. split; [reflexivity|]. intros _.
      apply S3. rewrite last_opt_nth, Hlen. replace (S (length k) - 1)%nat with p by lia. exact Hx. }
  destruct Hxs as [Hsx Hfx].
  assert (Hnx : nok x) by (rewrite Forall_forall in S2; apply S2; eapply nth_error_In; eauto).
  split; [|split].
  - rewrite !map_app, <- firstn_map, S1. cbn [map snd]. rewrite map_map. cbn [snd].
    rewrite firstn_app, map_length. replace (p - length k)%nat with O by lia. cbn [firstn]. rewrite app_nil_r.
    rewrite firstn_map, P3. rewrite Hbsplit at 2. rewrite map_app. cbn [map]. rewrite <- !app_assoc. cbn [app].
    reflexivity.
  - apply Forall_app. split.
    + rewrite <- (firstn_skipn p s) in S2. apply Forall_app in S2. tauto.
    + constructor.
      * destruct Hnx as [[N1 N2] N3]. cbn [fst snd]. split; [|split; [assumption|]].
        -- destruct (snd x) as [c|].
           ++ destruct N3 as [Hc Hlt]. split.
              ** apply NoDup_snoc; [assumption|]. intros Hin. rewrite Forall_forall in Hlt. specialize (Hlt _ Hin). lia.
              ** intros y Hy. apply in_app_iff in Hy as [Hy|[<-|[]]]; auto.
           ++ rewrite app_nil_r. auto.
        -- destruct (nth_error k p) as [y|] eqn:Ek.
           ++ rewrite Hsx in *. destruct N3 as [Hc Hlt].
              assert (Hpk : (p < length k)%nat) by (apply nth_error_Some; congruence).
              destruct (P5 Hpk) as (x0 & y0 & E1 & E2 & Hlt0).
              assert (y0 = b).
              { rewrite Hbsplit in E2. rewrite nth_error_app2 in E2 by (rewrite firstn_length_le; lia).
                rewrite firstn_length_le, Nat.sub_diag in E2 by lia. now inversion E2. }
              subst y0. inversion E1; subst x0. cbn [fst].
              apply Forall_app. split; [|constructor; [assumption|constructor]].
              eapply Forall_impl; [|exact Hlt]. cbn. intros; lia.
           ++ rewrite Hsx, (Hfx eq_refl). cbn. constructor.
      * apply Forall_app. split; [|constructor; [|constructor]].
        -- apply Forall_forall. intros z Hz. apply in_map_iff in Hz as (c & <- & Hc).
           split; [split; [constructor|intros ? []]|]. cbn. split; [now apply Hr|constructor].
        -- split; [split; [constructor|intros ? []]|exact I].
  - intros t Ht. rewrite !app_assoc, last_opt_snoc in Ht. now inversion Ht.
Qed.

Lemma add_suffix_spec body t' b r o : u_last t' = None ->
  add_suffix (body ++ [t']) (b :: r) o = Ok (body ++ [mkUnf (u_node t') (Some (b, o))] ++ suffix_nodes r).
Proof.
  intros H. unfold add_suffix. rewrite rev_app_distr. cbn [rev app]. rewrite H, rev_involutive. reflexivity.
Qed.

Lemma linp_none u : linp u = None -> u_last u = None.
Proof. unfold linp. destruct (u_last u); [discriminate|reflexivity]. Qed.

(* insert_output on a state whose stack spells k, for a key bs >= k *)
Lemma insert_output_inv b1 bs out b' k :
  stack_inv (b_stack b1) k -> reg_ok (b_reg b1) -> lex_cmp k bs <> Gt -> incl bs Sigma ->
  insert_output b1 bs out = (b', Ok tt) ->
  stack_inv (b_stack b') bs /\ reg_ok (b_reg b') /\ b_last b' = b_last b1.
Proof.
  intros Hst Hreg Hle Hbs H. unfold insert_output in H. destruct bs as [|c bs].
  - assert (k = []) as -> by (destruct k; [reflexivity|cbn in Hle; congruence]).
    destruct (match out with None => _ | Some _ => _ end).
    + inversion H; subst. cbn. auto.
    + unfold set_root_output in H. destruct (b_stack b1) as [|r rest] eqn:Es; [discriminate|].
      inversion H; subst. cbn [b_stack b_reg b_last with_stack with_len]. split; [|auto].
      unfold stack_inv in *. cbn [map] in *. exact Hst.
  - destruct ((match out with None => true | Some _ => false end) &&
              Nat.eqb (fcp0 (b_stack b1) (c :: bs)) (length (c :: bs))) eqn:Edup.
    { (* a repeated add of the previous key: the state is unchanged *)
      apply andb_true_iff in Edup as [_ Edup]. apply Nat.eqb_eq in Edup.
      inversion H; subst b'. split; [|auto].
      rewrite fcp0_lcp, map_linp_sk in Edup. pose proof Hst as (S1 & _). rewrite S1, lcp_cpl in Edup.
      destruct (cpl_facts k (c :: bs) Hle) as (_ & _ & _ & P4 & _). now rewrite <- (P4 Edup). }
    set (o0 := match out with Some o => o | None => 0 end) in H.
    destruct (fcp (b_stack b1) (c :: bs) o0) as [[[st p] o]| |] eqn:Ef; try discriminate.
    destruct (fcp_spec _ _ _ _ _ _ Ef) as [Hsk Hp].
    pose proof Hst as Hst0. unfold stack_inv in Hst0. rewrite <- Hsk in Hst0.
    assert (Hpc : p = cpl k (c :: bs)).
    { rewrite Hp, map_linp_sk. destruct Hst as (S1 & _). rewrite S1. apply lcp_cpl. }
    clear Hp.
    destruct (cpl_facts k (c :: bs) Hle) as (P1 & P2 & P3 & P4 & P5). rewrite <- Hpc in *.
    destruct (Nat.eqb p (length (c :: bs))) eqn:Ep.
    + apply Nat.eqb_eq in Ep. rewrite (P4 Ep) in Hst0.
      destruct (o =? 0); inversion H; subst. cbn [b_stack b_reg b_last with_stack]. auto.
    + apply Nat.eqb_neq in Ep.
      set (b2 := with_len (with_stack b1 st) (b_len (with_stack b1 st) + 1)) in H.
      unfold compile_from in H.
      destruct (compile_from_rev b2 (rev (b_stack b2)) p None) as [b'' rr] eqn:Ec.
      destruct rr as [rst| |]; try (inversion H; fail).
      assert (Hlen : length st = S (length k)) by (rewrite <- (map_length sk); now apply sinv_length).
      assert (Hno : Forall node_ok st) by (destruct Hst0 as (_ & S2 & _); apply (proj1 (Forall_map sk nok st)) in S2; exact S2).
      cbn [b_stack b2 with_len with_stack] in Ec.
      destruct (cfr_spec _ _ _ _ _ _ Ec) as (u & rest & t' & C1 & C2 & C3 & C4 & C5 & C6 & C7).
      { now apply Forall_rev. } { rewrite rev_length. lia. } { exact Hreg. }
      rewrite rev_length in C1. destruct (rev_skipn_split st p u rest ltac:(lia) C1) as [F1 F2].
      subst rst. cbn [b_stack with_stack rev] in H.
      destruct (skipn p (c :: bs)) as [|b0 r] eqn:Esk.
      { exfalso. apply (f_equal (@length _)) in Esk. rewrite skipn_length in Esk. cbn [length] in *. lia. }
      rewrite (add_suffix_spec (rev rest) t' b0 r o (linp_none _ C3)) in H.
      inversion H; subst b'. cbn [b_stack b_reg b_last with_stack].
      split; [|split; [assumption|rewrite C7; reflexivity]].
      unfold stack_inv. rewrite map_app. cbn [map app]. rewrite suffix_sk, <- F1, <- firstn_map.
      change (sk {| u_node := u_node t'; u_last := Some (b0, o) |}) with (inps (u_node t'), Some b0).
      rewrite C4. subst p.
      exact (sinv_step (map sk st) k (c :: bs) b0 r (sk u) Hst0 Hle Hbs ltac:(cbn [length] in *; lia) Esk
                       (map_nth_error sk _ _ F2)).
Qed.

Definition lastkey (b : builder) : key := match b_last b with Some k => k | None => [] end.
Definition binv (b : builder) : Prop :=
  stack_inv (b_stack b) (lastkey b) /\ incl (lastkey b) Sigma /\ (length (lastkey b) <= maxkey)%nat /\
  reg_ok (b_reg b).

Lemma check_last_key_ok b bs d b1 : check_last_key b bs d = (b1, Ok tt) ->
  b1 = with_last b (Some bs) /\ lex_cmp (lastkey b) bs <> Gt.
Proof.
  unfold check_last_key, lastkey. destruct (b_last b) as [last|].
  - destruct (d && key_eqb bs last); [discriminate|]. destruct (key_ltb bs last) eqn:E; [discriminate|].
    intros H; inversion H; subst. split; [reflexivity|].
    unfold key_ltb in E. rewrite (lex_cmp_antisym bs last). destruct (lex_cmp bs last); cbn; congruence.
  - intros H; inversion H; subst. split; [reflexivity|]. destruct bs; cbn; congruence.
Qed.

Definition op_key (o : op) : key := match o with OpInsert k _ => k | OpAdd k => k end.

Lemma apply_op_inv b o b' : binv b -> incl (op_key o) Sigma -> (length (op_key o) <= maxkey)%nat ->
  apply_op b o = (b', Ok tt) -> binv b'.
Proof.
  intros (I1 & I2 & I3 & I4) Hk Hl H.
  assert (G : forall d out, (let '(b1, r) := check_last_key b (op_key o) d in
                             match r with Ok _ => insert_output b1 (op_key o) out | Err x => (b1, Err x) | Panic => (b1, Panic) end)
                            = (b', Ok tt) -> binv b').
  { intros d out G. destruct (check_last_key b (op_key o) d) as [b1 r] eqn:Ec.
    destruct r as [[]| |]; try (inversion G; fail).
    destruct (check_last_key_ok _ _ _ _ Ec) as [-> Hle].
    destruct (insert_output_inv (with_last b (Some (op_key o))) _ _ _ _ I1 I4 Hle Hk G) as (J1 & J2 & J3).
    unfold binv, lastkey. rewrite J3. cbn [b_last with_last]. auto. }
  destruct o as [k v|k]; cbn [apply_op op_key] in *; [exact (G true (Some v) H)|exact (G false None H)].
Qed.

Lemma binv_new ty : binv (new_builder ty rows cols).
Proof.
  unfold binv, lastkey, new_builder, new_builder_v. cbn [b_write b_stack b_last b_reg].
  split; [|split; [intros ? []|split; [cbn; lia|]]].
  - unfold stack_inv. cbn. split; [reflexivity|split].
    + constructor; [|constructor]. split; [split; [constructor|intros ? []]|exact I].
    + intros t Ht. inversion Ht; subst. reflexivity.
  - split; [apply reg_inv_new|split; reflexivity].
Qed.

(* ---- what the invariant says about sizes ---- *)
Lemma binv_depth b : binv b -> length (b_stack b) = S (length (lastkey b)).
Proof. intros (H & _). rewrite <- (map_length sk). now apply sinv_length. Qed.

Lemma binv_stack_fan b : binv b -> Forall (fun u => (unf_trans u <= length Sigma)%nat) (b_stack b).
Proof.
  intros ((_ & H & _) & _). apply (proj1 (Forall_map sk nok (b_stack b))) in H.
  eapply Forall_impl; [|exact H]. intros u Hu. now apply node_ok_fan.
Qed.

Lemma binv_cells b : binv b ->
  N.of_nat (PositiveMap.cardinal (r_table (b_reg b))) <= rows * cols /\
  Forall (fun c => (ntrans (c_node c) <= length Sigma)%nat) (table_cells (b_reg b)).
Proof.
  intros (_ & _ & _ & (H & Hr & Hc)). split.
  - rewrite <- Hr, <- Hc. now apply (reg_inv_cardinal small).
  - eapply Forall_impl; [|exact (reg_inv_cells small _ H)]. intros c. apply small_fan.
Qed.

Lemma binv_size b : binv b ->
  builder_logical_size b <= builder_bound rows cols (N.of_nat (length Sigma)) (N.of_nat maxkey).
Proof.
  intros H. pose proof (binv_depth b H) as Hd. pose proof (binv_stack_fan b H) as Hs.
  pose proof (binv_cells b H) as [Hc Hf]. destruct H as (_ & _ & Hl & _).
  unfold builder_logical_size, builder_bound, reg_cells, reg_trans, stack_depth, stack_trans, last_len, len.
  pose proof (sum_nat_le _ _ _ Hs) as Hst. pose proof (sum_nat_le _ _ _ Hf) as Hrt.
  unfold table_cells in Hrt. rewrite map_length, <- PositiveMap.cardinal_1 in Hrt. fold (table_cells (b_reg b)) in Hrt.
  rewrite Hd in *.
  assert (Hlast : (match b_last b with Some k => N.of_nat (length k) | None => 0 end) <= N.of_nat maxkey).
  { unfold lastkey in Hl. destruct (b_last b); lia. }
  set (c := PositiveMap.cardinal (r_table (b_reg b))) in *.
  set (t := sum_nat (fun c0 => ntrans (c_node c0)) (table_cells (b_reg b))) in *.
  set (s := sum_nat unf_trans (b_stack b)) in *.
  set (l := match b_last b with Some k => N.of_nat (length k) | None => 0 end) in *.
  set (F := length Sigma) in *. set (K := length (lastkey b)) in *.
  clearbody c t s l F K. unfold CELL, TRANS, UNF. nia.
Qed.

(* ---- the model never produces an Err of its own below check_last_key ---- *)
Definition noerr {A} (r : res A) : Prop := forall e, r <> Err e.
Lemma noerr_ok {A} (a : A) : noerr (Ok a). Proof. intros e; discriminate. Qed.
Lemma noerr_panic {A} : noerr (@Panic A). Proof. intros e; discriminate. Qed.
Lemma noerr_bind {A B} (r : res A) (f : A -> res B) : noerr r -> (forall a, noerr (f a)) -> noerr (bind r f).
Proof. intros H1 H2. destruct r; cbn; auto. exfalso. eapply H1; eauto. intros e'; discriminate. Qed.
Lemma noerr_if {A} (c : bool) (x y : res A) : noerr x -> noerr y -> noerr (if c then x else y).
Proof. destruct c; auto. Qed.
Lemma noerr_csub a b : noerr (csub a b).
Proof. unfold csub. destruct (b <=? a); [apply noerr_ok|apply noerr_panic]. Qed.
Lemma noerr_delta_of a b : noerr (delta_of a b).
Proof. unfold delta_of. destruct (_ =? _); [apply noerr_ok|apply noerr_csub]. Qed.
Lemma noerr_pack_uint_in a b : noerr (pack_uint_in a b).
Proof. unfold pack_uint_in. destruct (_ && _); [apply noerr_ok|apply noerr_panic]. Qed.
Lemma noerr_pack_delta_size a b : noerr (pack_delta_size a b).
Proof. unfold pack_delta_size. apply noerr_bind; [apply noerr_delta_of|intros; apply noerr_ok]. Qed.
Lemma noerr_pack_delta_in a b c : noerr (pack_delta_in a b c).
Proof. unfold pack_delta_in. apply noerr_bind; [apply noerr_delta_of|intros; apply noerr_pack_uint_in]. Qed.
Lemma noerr_res_map {A B} (f : A -> res B) l : (forall x, noerr (f x)) -> noerr (res_map f l).
Proof.
  intros H. induction l as [|x l IH]; cbn [res_map]; [apply noerr_ok|].
  apply noerr_bind; auto. intros y. apply noerr_bind; auto. intros; apply noerr_ok.
Qed.
Ltac noerr_tac :=
  lazymatch goal with
  | |- noerr (bind _ _) => apply noerr_bind; [noerr_tac | intros ?; noerr_tac]
  | |- noerr (if _ then _ else _) => apply noerr_if; noerr_tac
  | |- noerr (Ok _) => apply noerr_ok
  | |- noerr Panic => apply noerr_panic
  | |- noerr (res_map _ _) => apply noerr_res_map; intros ?; noerr_tac
  | |- noerr (pack_uint_in _ _) => apply noerr_pack_uint_in
  | |- noerr (pack_delta_size _ _) => apply noerr_pack_delta_size
  | |- noerr (pack_delta_in _ _ _) => apply noerr_pack_delta_in
  | |- _ => idtac
  end.
Lemma noerr_compile_node v la a n : noerr (compile_node v la a n).
Proof.
  assert (Hany : forall n, noerr (compile_any v a n)) by (intros; unfold compile_any; noerr_tac).
  unfold compile_node. destruct (n_trans n) as [|t [|t' r]]; noerr_tac; auto.
  - unfold compile_otn. noerr_tac.
  - unfold compile_ot. noerr_tac.
Qed.
Lemma noerr_compile b n : noerr (snd (compile b n)).
Proof.
  unfold compile. destruct (_ && _ && _); [apply noerr_ok|].
  destruct (reg_entry (b_reg b) n) as [reg0 e].
  pose proof (noerr_compile_node (b_version b) (b_last_addr b) (b_count b) n) as Hn.
  destruct e; cbn [snd]; try apply noerr_ok;
    destruct (compile_node _ _ _ _); cbn [snd]; try apply noerr_ok; try apply noerr_panic; exfalso; eapply Hn; eauto.
Qed.
Lemma noerr_cfr rstack : forall b keep addr, noerr (snd (compile_from_rev b rstack keep addr)).
Proof.
  induction rstack as [|u rest IH]; intros b keep addr; [apply noerr_panic|].
  cbn [compile_from_rev]. destruct (Nat.ltb _ _); [|apply noerr_ok].
  assert (Hn : noerr (match addr with
           | None => match u_last u with None => Ok (u_node u) | Some _ => Panic end
           | Some a => Ok (freeze u a) end)).
  { destruct addr; [|destruct (u_last u)]; try apply noerr_ok; apply noerr_panic. }
  destruct (match addr with None => _ | Some a => _ end) as [n|x|];
    [| exfalso; eapply Hn; eauto | apply noerr_panic].
  pose proof (noerr_compile b n) as H2. destruct (compile b n) as [b' r]. cbn [snd] in *.
  destruct r as [a|x|]; [| exfalso; eapply H2; eauto | apply noerr_panic].
  destruct (a =? NONE_ADDRESS); [apply noerr_panic|apply IH].
Qed.
Lemma noerr_fcp bs : forall st out, noerr (fcp st bs out).
Proof.
  induction bs as [|c bs IH]; intros st out; cbn [fcp]; [apply noerr_ok|].
  destruct st as [|u rest]; [apply noerr_panic|].
  destruct (u_last u) as [[i o]|]; [|apply noerr_ok].
  destruct (i =? c); [|apply noerr_ok].
  apply noerr_bind.
  - destruct (_ =? 0); [apply noerr_ok|]. destruct rest; [apply noerr_panic|apply noerr_ok].
  - intros rest'. apply noerr_bind; auto. intros [[s n] o2]. apply noerr_ok.
Qed.
Lemma noerr_insert_output b bs out : noerr (snd (insert_output b bs out)).
Proof.
  unfold insert_output. destruct bs as [|c bs].
  - destruct (match out with None => _ | Some _ => _ end); [apply noerr_ok|].
    unfold set_root_output. destruct (b_stack b); [apply noerr_panic|apply noerr_ok].
  - destruct (_ && _); [apply noerr_ok|].
    pose proof (noerr_fcp (c :: bs) (b_stack b) (match out with Some o => o | None => 0 end)) as Hf.
    destruct (fcp _ _ _) as [[[st p] o]|x|]; [| exfalso; eapply Hf; eauto | apply noerr_panic].
    destruct (Nat.eqb p _); [destruct (o =? 0); [apply noerr_ok|apply noerr_panic]|].
    unfold compile_from.
    pose proof (noerr_cfr (rev (b_stack (with_len (with_stack b st) (b_len (with_stack b st) + 1))))
                  (with_len (with_stack b st) (b_len (with_stack b st) + 1)) p None) as H2.
    destruct (compile_from_rev _ _ _ _) as [b3 r]. cbn [snd] in H2.
    destruct r as [?|x|]; [| exfalso; eapply H2; eauto | apply noerr_panic].
    unfold add_suffix. destruct (skipn p (c :: bs)); [apply noerr_ok|].
    destruct (rev _); [apply noerr_panic|]. destruct (u_last _); [apply noerr_panic|apply noerr_ok].
Qed.

(* a call that returns an error was rejected by the ordering check and changed nothing *)
Lemma apply_op_err b o b' e : apply_op b o = (b', Err e) -> b' = b.
Proof.
  assert (G : forall d out, (let '(b1, r) := check_last_key b (op_key o) d in
                             match r with Ok _ => insert_output b1 (op_key o) out | Err x => (b1, Err x) | Panic => (b1, Panic) end)
                            = (b', Err e) -> b' = b).
  { intros d out G. unfold check_last_key in G.
    assert (Hio : forall b1, insert_output b1 (op_key o) out <> (b', Err e)).
    { intros b1 Hc. pose proof (noerr_insert_output b1 (op_key o) out e) as Hn. rewrite Hc in Hn. now apply Hn. }
    destruct (b_last b) as [last|].
    - destruct (d && key_eqb (op_key o) last); [now inversion G|].
      destruct (key_ltb (op_key o) last); [now inversion G|]. now apply Hio in G.
    - now apply Hio in G. }
  intros H. destruct o as [k v|k]; cbn [apply_op op_key b_insert b_add] in *; [exact (G true (Some v) H)|exact (G false None H)].
Qed.

(* ---- every state reachable by single calls ---- *)
Definition keys_in (ops : list op) : Prop :=
  Forall (fun o => incl (op_key o) Sigma /\ (length (op_key o) <= maxkey)%nat) ops.

Lemma run_calls_inv ops : forall b b' rs, binv b -> keys_in ops ->
  run_calls b ops = (b', rs) -> Forall (fun r => r <> Panic) rs -> binv b'.
Proof.
  induction ops as [|o ops IH]; intros b b' rs Hb Hk H Hp; cbn [run_calls] in H.
  - now inversion H; subst.
  - inversion Hk as [|? ? [Ho1 Ho2] Hk']; subst.
    destruct (apply_op b o) as [b1 x] eqn:E1. destruct (run_calls b1 ops) as [b2 xs] eqn:E2.
    inversion H; subst. inversion Hp; subst.
    apply (IH b1 b' xs); auto.
    destruct x as [[]|e|]; [eapply apply_op_inv; eauto| |congruence].
    apply apply_op_err in E1. now subst.
Qed.

Lemma run_extend_inv ops : forall b b', binv b -> keys_in ops ->
  run_extend b ops = (b', Ok tt) -> binv b'.
Proof.
  induction ops as [|o ops IH]; intros b b' Hb Hk H; cbn [run_extend] in H.
  - now inversion H; subst.
  - inversion Hk as [|? ? [Ho1 Ho2] Hk']; subst.
    destruct (apply_op b o) as [b1 x] eqn:E1. destruct x as [[]| |]; try (inversion H; fail).
    apply (IH b1 b'); auto. eapply apply_op_inv; eauto.
Qed.
End BuilderInv.

(* ====================================================================================== *)
(* (c) streams                                                                             *)
(* ====================================================================================== *)
Require Import FstV.Loop FstV.Automaton FstV.Reader.

Lemma loop_inv {X Y} (f : X -> X + Y) (P : X -> Prop) (Q : Y -> Prop) :
  (forall a a', P a -> f a = inl a' -> P a') -> (forall a b, P a -> f a = inr b -> Q b) ->
  forall p a, P a -> match loop f p a with inl a' => P a' | inr b => Q b end.
Proof.
  intros H1 H2. induction p as [q IH|q IH|]; intros a Ha; cbn [loop].
  - pose proof (IH a Ha) as Ia. destruct (loop f q a) as [a'|b]; [now apply IH|exact Ia].
  - pose proof (IH a Ha) as Ia. destruct (loop f q a) as [a'|b]; [now apply IH|exact Ia].
  - destruct (f a) eqn:E; [eapply H1; eauto|eapply H2; eauto].
Qed.

Section StreamInv.
Variable node_at : N -> res nview.
Variable root_addr : N.
Variable A : automaton.
(* a view carries the address it was read at *)
Hypothesis addr_ok : forall a nd, node_at a = Ok nd -> nv_addr nd = a.
(* no transition leads to the root (the root is the last node written) *)
Hypothesis no_root_target : forall a nd t, node_at a = Ok nd -> In t (nv_trans nd) -> t_addr t <> root_addr.
(* a ranking of the graph: it decreases along every transition (the graph is acyclic); for the
   height function of a trimmed FST, [rank root_addr] is the length of its longest key *)
Variable rank : N -> nat.
Hypothesis rank_dec : forall a nd t, node_at a = Ok nd -> In t (nv_trans nd) -> (rank (t_addr t) < rank a)%nat.

Notation H := (rank root_addr).

(* stack, top first: every frame holds the node at its address, only the bottom frame is the
   root, and a frame with d frames below it has rank <= H - d *)
Fixpoint frames_ok (st : list (frame A)) : Prop :=
  match st with
  | [] => True
  | f :: rest =>
    node_at (nv_addr (f_node A f)) = Ok (f_node A f) /\
    match rest with [] => nv_addr (f_node A f) = root_addr | _ :: _ => nv_addr (f_node A f) <> root_addr end /\
    (length rest + rank (nv_addr (f_node A f)) <= H)%nat /\
    frames_ok rest
  end.

Definition stream_inv (s : stream A) : Prop :=
  (length (s_inp A s) <= H)%nat /\
  (s_stack A s = [] \/ (length (s_stack A s) = S (length (s_inp A s)) /\ frames_ok (s_stack A s))).

Lemma frames_ok_retarget f f' rest : f_node A f' = f_node A f -> frames_ok (f :: rest) -> frames_ok (f' :: rest).
Proof. intros E. cbn [frames_ok]. now rewrite E. Qed.

(* pushing the child reached by a transition of the top frame's node *)
Lemma frames_ok_child f rest t nd' tr o a :
  frames_ok (f :: rest) -> In t (nv_trans (f_node A f)) -> node_at (t_addr t) = Ok nd' ->
  frames_ok (mkFrame A nd' tr o a :: f :: rest) /\ (S (length rest) < S H)%nat.
Proof.
  intros Hf Hin Hn. pose proof Hf as (F1 & F2 & F3 & F4).
  pose proof (addr_ok _ _ Hn) as Ea. pose proof (rank_dec _ _ _ F1 Hin) as Hr.
  split; [|lia]. cbn [frames_ok f_node]. rewrite Ea. split4; auto.
  - eapply no_root_target; eauto.
  - cbn [length]. lia.
Qed.

Lemma next_step_inv s : stream_inv s ->
  match next_step node_at root_addr A s with
  | inl s' => stream_inv s'
  | inr (Ok (s', _)) => stream_inv s'
  | inr _ => True
  end.
Proof.
  intros [Hi Hs]. unfold next_step. destruct (s_stack A s) as [|f rest] eqn:Es.
  - split; [assumption|]. left. exact Es.
  - destruct Hs as [Hs|[Hlen Hf]]; [discriminate|].
    destruct (_ || _).
    + pose proof Hf as (F1 & F2 & F3 & F4).
      destruct (negb (nv_addr (f_node A f) =? root_addr)) eqn:Er.
      * apply negb_true_iff, N.eqb_neq in Er. destruct (s_inp A s) as [|x inp'] eqn:Ei; [exact I|].
        destruct rest as [|g rest']; [contradiction|]. cbn [length] in *.
        split; cbn [s_inp s_stack]; [lia|]. right. split; [cbn [length]; lia|exact F4].
      * apply negb_false_iff, N.eqb_eq in Er. destruct rest as [|g rest']; [|contradiction].
        split; cbn [s_inp s_stack]; [assumption|now left].
    + destruct (nth_error (nv_trans (f_node A f)) (N.to_nat (f_trans A f))) as [t|] eqn:Et; [|exact I].
      destruct (node_at (t_addr t)) as [nn| |] eqn:En; try exact I.
      apply nth_error_In in Et.
      set (f' := mkFrame A (f_node A f) (f_trans A f + 1) (f_out A f) (f_aut A f)).
      assert (Hf' : frames_ok (f' :: rest)) by (eapply frames_ok_retarget; [|exact Hf]; reflexivity).
      destruct (frames_ok_child f' rest t nn 0 (f_out A f + t_out t) (accept A (f_aut A f) (t_inp t)) Hf' Et En)
        as [Hc Hd].
      cbn [length] in Hlen.
      assert (Hnew : stream_inv (mkStream A (t_inp t :: s_inp A s) (s_empty_output A s)
                                   (mkFrame A nn 0 (f_out A f + t_out t) (accept A (f_aut A f) (t_inp t)) :: f' :: rest)
                                   (s_end_at A s))).
      { split; cbn [s_inp s_stack length]; [lia|]. right. split; [lia|exact Hc]. }
      destruct (exceeded_by _ _).
      * split; cbn [s_inp s_stack length]; [lia|now left].
      * destruct (_ && _); exact Hnew.
Qed.

Lemma next_with_inv s s' it : stream_inv s -> next_with node_at root_addr A s = Ok (s', it) -> stream_inv s'.
Proof.
  intros Hs H. unfold next_with in H.
  assert (Hrun : forall s0, stream_inv s0 ->
            match loop (next_step node_at root_addr A) FUEL s0 with inr x => x | inl _ => Panic end = Ok (s', it) ->
            stream_inv s').
  { intros s0 H0 Hr.
    pose proof (loop_inv (next_step node_at root_addr A) stream_inv
                  (fun r => match r with Ok (s1, _) => stream_inv s1 | _ => True end)) as L.
    specialize (L (fun a a' Ha E => ltac:(pose proof (next_step_inv a Ha) as X; rewrite E in X; exact X))
                  (fun a b Ha E => ltac:(pose proof (next_step_inv a Ha) as X; rewrite E in X; destruct b as [[? ?]| |]; exact X))
                  FUEL s0 H0).
    destruct (loop _ FUEL s0) as [?|r]; [discriminate|]. subst r. exact L. }
  destruct (s_empty_output A s) as [out|] eqn:Eo; [|now apply (Hrun s)].
  assert (H0 : stream_inv (mkStream A (s_inp A s) None (s_stack A s) (s_end_at A s))) by exact Hs.
  destruct (exceeded_by _ _).
  - inversion H; subst. destruct Hs as [Hi _]. split; cbn; [assumption|now left].
  - destruct (is_match A (start A)); [inversion H; subst; exact H0|now apply (Hrun _ H0)].
Qed.

(* seek_min's loop: [nd] is the node the next frame would hold *)
Lemma seek_loop_inv k : forall nd out aut inp stack r,
  length stack = length inp -> (forall tr o a, frames_ok (mkFrame A nd tr o a :: stack)) ->
  seek_loop node_at A k nd out aut inp stack = Ok r ->
  let '(inp', stack', early, nd', _, _) := r in
  if early then length stack' = S (length inp') /\ frames_ok stack'
  else length stack' = length inp' /\ (forall tr o a, frames_ok (mkFrame A nd' tr o a :: stack')).
Proof.
  induction k as [|b k IH]; intros nd out aut inp stack r Hl Hf Hr; cbn [seek_loop] in Hr.
  - inversion Hr; subst. auto.
  - destruct (nv_find nd b) as [fi| |]; cbn [bind] in Hr; try discriminate.
    destruct fi as [i|].
    + destruct (nth_error (nv_trans nd) (N.to_nat i)) as [t|] eqn:Et; [|discriminate].
      destruct (node_at (t_addr t)) as [nd'| |] eqn:En; cbn [bind] in Hr; try discriminate.
      apply nth_error_In in Et.
      eapply IH; [| |exact Hr]; [cbn [length]; lia|].
      intros tr o a.
      exact (proj1 (frames_ok_child (mkFrame A nd (i + 1) out aut) stack t nd' tr o a (Hf _ _ _) Et En)).
    + inversion Hr; subst. split; [cbn [length]; lia|apply Hf].
Qed.

Lemma seek_min_inv mn mx s : seek_min node_at root_addr A mn mx = Ok s -> stream_inv s.
Proof.
  unfold seek_min, root. intros Hs.
  assert (Hroot : forall r, node_at root_addr = Ok r -> forall tr o a, frames_ok [mkFrame A r tr o a]).
  { intros r Hr tr o a. pose proof (addr_ok _ _ Hr) as Ea. cbn [frames_ok f_node length]. rewrite Ea. split4; auto. }
  destruct (bound_is_empty mn).
  - destruct (if bound_is_inclusive mn then _ else _) as [eo| |]; cbn [bind] in Hs; try discriminate.
    destruct (node_at root_addr) as [r| |] eqn:Er; cbn [bind] in Hs; try discriminate.
    inversion Hs; subst. split; cbn [s_inp s_stack length]; [lia|]. right. split; [reflexivity|now apply Hroot].
  - destruct (match mn with Excluded k => (k, false) | Included k => (k, true) | Unbounded => ([], true) end) as [k inclusive].
    destruct (node_at root_addr) as [r| |] eqn:Er; cbn [bind] in Hs; try discriminate.
    destruct (seek_loop node_at A k r 0 (start A) [] []) as [x| |] eqn:El; cbn [bind] in Hs; try discriminate.
    pose proof (seek_loop_inv k r 0 (start A) [] [] x eq_refl (Hroot r eq_refl) El) as Hx.
    destruct x as [[[[[inp stack] early] nd] out] aut].
    assert (Hbound : forall st, length st = S (length inp) -> frames_ok st -> (length inp <= H)%nat).
    { intros [|f rest] L F; [discriminate|]. destruct F as (_ & _ & F3 & _). cbn [length] in L. lia. }
    destruct early.
    + destruct Hx as [L F]. inversion Hs; subst. split; cbn [s_inp s_stack]; [eapply Hbound; eauto|right; auto].
    + destruct Hx as [L F]. destruct stack as [|top rest].
      * inversion Hs; subst. destruct inp; [|discriminate]. split; cbn [s_inp s_stack length]; [lia|now left].
      * specialize (F 0 0 (start A)). pose proof F as (_ & _ & _ & Ftop).
        destruct inclusive.
        -- destruct (f_trans A top =? 0); [discriminate|]. inversion Hs; subst.
           destruct inp as [|x inp']; [discriminate|]. cbn [length tl] in *.
           assert (Ft' : frames_ok (mkFrame A (f_node A top) (f_trans A top - 1) (f_out A top) (f_aut A top) :: rest))
             by (eapply frames_ok_retarget; [|exact Ftop]; reflexivity).
           split; cbn [s_inp s_stack length]; [|right; split; [lia|exact Ft']].
           destruct Ft' as (_ & _ & F3 & _). lia.
        -- destruct (f_trans A top =? 0); [discriminate|].
           destruct (nth_error (nv_trans (f_node A top)) (N.to_nat (f_trans A top - 1))) as [t|] eqn:Et; [|discriminate].
           destruct (node_at (t_addr t)) as [nd'| |] eqn:En; cbn [bind] in Hs; try discriminate.
           inversion Hs; subst. apply nth_error_In in Et.
           destruct (frames_ok_child top rest t nd' 0 out aut Ftop Et En) as [Fc Hd].
           cbn [length] in L.
           split; cbn [s_inp s_stack length]; [lia|right; split; [lia|exact Fc]].
Qed.

(* every state a stream is in between two calls of next (and inside them, see next_step_inv) *)
Inductive sreach : stream A -> Prop :=
| sr_seek mn mx s : seek_min node_at root_addr A mn mx = Ok s -> sreach s
| sr_next s s' it : sreach s -> next_with node_at root_addr A s = Ok (s', it) -> sreach s'
| sr_step s s' : sreach s -> next_step node_at root_addr A s = inl s' -> sreach s'.

Lemma sreach_inv s : sreach s -> stream_inv s.
Proof.
  induction 1 as [mn mx s Hs|s s' it _ IH Hn|s s' _ IH Hn].
  - eapply seek_min_inv; eauto.
  - eapply next_with_inv; eauto.
  - pose proof (next_step_inv s IH) as X. now rewrite Hn in X.
Qed.

Lemma stream_inv_size statesz s : stream_inv s ->
  stream_logical_size A statesz s <= stream_bound statesz (N.of_nat H).
Proof.
  intros [Hi Hs]. unfold stream_logical_size, stream_bound, len.
  assert (length (s_stack A s) <= S (length (s_inp A s)))%nat by (destruct Hs as [->|[-> _]]; cbn; lia).
  nia.
Qed.
End StreamInv.

(* ====================================================================================== *)
(* (d) set operations                                                                      *)
(* ====================================================================================== *)
Require Import FstV.Ops FstV.proofs.OpsProofs.

Section OpsInv.
Variable pop_min : list slot -> option (slot * list slot).
Hypothesis pop_ok : admissible pop_min.
Variable mk : nat.       (* longest key of any input stream *)

Definition slot_le (s : slot) : Prop := (length (input s) <= mk)%nat.
(* every key an input stream yields - also when it is polled again after its None - is at most mk long *)
Definition kv_le (e : kv) : Prop := (length (fst e) <= mk)%nat.
Definition stream_le (x : instream) : Prop :=
  Forall kv_le (s_items x) /\ forall n e, s_after x n = Some e -> kv_le e.
Definition reader_le (r : reader) : Prop :=
  Forall kv_le (live_of (r_state r)) /\ forall n e, r_after r n = Some e -> kv_le e.
Definition keys_le (u : sheap) : Prop := Forall slot_le (heap u) /\ Forall reader_le (rdrs u).
Lemma open_le x : stream_le x -> reader_le (open x).
Proof. intros H. exact H. Qed.
Lemma poll_le r : reader_le r -> reader_le (snd (poll r)) /\ (forall e, fst (poll r) = Some e -> kv_le e).
Proof.
  intros [H1 H2]. unfold poll. destruct (r_state r) as [[|e l]|n] eqn:E; cbn [fst snd live_of] in *.
  - split; [split; [constructor|exact H2]|discriminate].
  - inversion H1; subst. split; [split; assumption|]. intros e0 He; inversion He; subst; assumption.
  - split; [split; [constructor|exact H2]|]. intros e He. eapply H2; eauto.
Qed.

Lemma refill_spec u s u' : refill u s = Ok u' ->
  (length (heap u') <= S (length (heap u)))%nat /\ length (rdrs u') = length (rdrs u) /\
  (keys_le u -> keys_le u').
Proof.
  unfold refill. destruct (nth_error (rdrs u) (idx s)) as [r|] eqn:E; [|discriminate].
  destruct (poll r) as [a r'] eqn:Ep.
  assert (Hrs : keys_le u -> Forall reader_le (set_nth (rdrs u) (idx s) r') /\ (forall e, a = Some e -> kv_le e)).
  { intros [H1 H2]. assert (Ht : reader_le r) by (rewrite Forall_forall in H2; apply H2; eapply nth_error_In; eauto).
    destruct (poll_le r Ht) as [P1 P2]. rewrite Ep in P1, P2. cbn [fst snd] in P1, P2. split; [|exact P2].
    apply Forall_forall. intros y Hy. apply in_set_nth_1 in Hy as [->|Hy]; [assumption|].
    rewrite Forall_forall in H2. now apply H2. }
  destruct a as [[k v]|]; intros H; inversion H; subst; cbn [heap rdrs length].
  - split; [lia|split; [apply set_nth_length|]]. intros Hk. destruct (Hrs Hk) as [R1 R2]. destruct Hk as [H1 H2].
    split; cbn [heap rdrs]; [|exact R1]. constructor; [|assumption]. exact (R2 (k, v) eq_refl).
  - split; [lia|split; [apply set_nth_length|]]. intros Hk. destruct (Hrs Hk) as [R1 _]. destruct Hk as [H1 H2].
    split; cbn [heap rdrs]; assumption.
Qed.

Lemma sh_pop_spec u s u1 : sh_pop pop_min u = Some (s, u1) ->
  S (length (heap u1)) = length (heap u) /\ rdrs u1 = rdrs u /\ (keys_le u -> keys_le u1 /\ slot_le s).
Proof.
  unfold sh_pop. pose proof (pop_ok (heap u)) as Ha.
  destruct (pop_min (heap u)) as [[s' r]|]; [|discriminate]. intros H; inversion H; subst.
  destruct Ha as [Hp _]. cbn [heap rdrs]. split; [apply Permutation_length in Hp; exact Hp|split; [reflexivity|]].
  intros [H1 H2]. assert (Hall : Forall slot_le (s :: r)) by (eapply Permutation_Forall; [symmetry; exact Hp|exact H1]).
  inversion Hall; subst. split; [split; assumption|assumption].
Qed.
Lemma sh_pop_if_equal_spec u k s u1 : sh_pop_if_equal pop_min u k = Some (s, u1) -> sh_pop pop_min u = Some (s, u1).
Proof. unfold sh_pop_if_equal. destruct (sh_peek _ _); [|discriminate]. destruct (key_eqb _ _); [auto|discriminate]. Qed.
Lemma sh_pop_if_le_spec u k s u1 : sh_pop_if_le pop_min u k = Some (s, u1) -> sh_pop pop_min u = Some (s, u1).
Proof. unfold sh_pop_if_le. destruct (sh_peek _ _); [|discriminate]. destruct (key_leb _ _); [auto|discriminate]. Qed.

(* one pop and the refill of the popped slot: the heap does not grow *)
Lemma pop_refill u s u1 u2 : sh_pop pop_min u = Some (s, u1) -> refill u1 s = Ok u2 ->
  (length (heap u2) <= length (heap u))%nat /\ length (rdrs u2) = length (rdrs u) /\ (keys_le u -> keys_le u2).
Proof.
  intros Hp Hr. destruct (sh_pop_spec _ _ _ Hp) as (P1 & P2 & P3). destruct (refill_spec _ _ _ Hr) as (R1 & R2 & R3).
  split; [lia|split; [congruence|]]. intros Hk. apply R3. now apply P3.
Qed.

Lemma drain_equal_spec fuel : forall u k outs popped u' outs' popped',
  drain_equal pop_min fuel u k outs popped = Some (Ok (u', outs', popped')) ->
  (length (heap u') <= length (heap u))%nat /\ length (rdrs u') = length (rdrs u) /\
  (length outs' + 1 <= length outs + fuel)%nat /\ (keys_le u -> keys_le u').
Proof.
  induction fuel as [|f IH]; intros u k outs popped u' outs' popped' H; cbn [drain_equal] in H; [discriminate|].
  destruct (sh_pop_if_equal pop_min u k) as [[s2 u1]|] eqn:Ep.
  - apply sh_pop_if_equal_spec in Ep.
    destruct (refill u1 s2) as [u2| |] eqn:Er; cbn [fbind lift] in H; try discriminate.
    destruct (pop_refill _ _ _ _ Ep Er) as (A1 & A2 & A3).
    destruct (IH _ _ _ _ _ _ _ H) as (B1 & B2 & B3 & B4). rewrite app_length in B3. cbn [length] in B3.
    split; [lia|split; [congruence|split; [lia|auto]]].
  - inversion H; subst. split; [lia|split; [reflexivity|split; [lia|auto]]].
Qed.

Lemma drain_le_spec fuel : forall u k un u' un',
  drain_le pop_min fuel u k un = Some (Ok (u', un')) ->
  (length (heap u') <= length (heap u))%nat /\ length (rdrs u') = length (rdrs u) /\ (keys_le u -> keys_le u').
Proof.
  induction fuel as [|f IH]; intros u k un u' un' H; cbn [drain_le] in H; [discriminate|].
  destruct (sh_pop_if_le pop_min u k) as [[s u1]|] eqn:Ep.
  - apply sh_pop_if_le_spec in Ep.
    destruct (refill u1 s) as [u2| |] eqn:Er; cbn [fbind lift] in H; try discriminate.
    destruct (pop_refill _ _ _ _ Ep Er) as (A1 & A2 & A3).
    destruct (IH _ _ _ _ _ H) as (B1 & B2 & B3).
    split; [lia|split; [congruence|auto]].
  - inversion H; subst. split; [lia|split; [reflexivity|auto]].
Qed.

Lemma refill_all_spec n : forall u i u', refill_all u i n = Ok u' ->
  (length (heap u') <= length (heap u) + n)%nat /\ length (rdrs u') = length (rdrs u) /\ (keys_le u -> keys_le u').
Proof.
  induction n as [|n IH]; intros u i u' H; cbn [refill_all] in H.
  - inversion H; subst. split; [lia|auto].
  - destruct (refill u (mkslot i [] 0)) as [u1| |] eqn:Er; cbn [bind] in H; try discriminate.
    destruct (refill_spec _ _ _ Er) as (R1 & R2 & R3). destruct (IH _ _ _ H) as (B1 & B2 & B3).
    split; [lia|split; [congruence|auto]].
Qed.

Lemma sh_new_spec ss u : sh_new ss = Ok u -> Forall stream_le ss ->
  (length (heap u) <= length ss)%nat /\ length (rdrs u) = length ss /\ keys_le u.
Proof.
  unfold sh_new. intros H Hs. destruct (refill_all_spec _ _ _ _ H) as (A1 & A2 & A3). cbn [heap rdrs length] in *.
  rewrite map_length in A2.
  split; [lia|split; [assumption|]]. apply A3. split; [constructor|]. cbn [rdrs]. rewrite Forall_map.
  eapply Forall_impl; [|exact Hs]. apply open_le.
Qed.

(* ---- union / intersection / symmetric difference over k streams ---- *)
Variable k : nat.
Definition op_inv (st : opstate) : Prop :=
  (length (heap (o_heap st)) + length (cur_slots (o_cur st)) <= k)%nat /\
  length (rdrs (o_heap st)) = k /\ (length (o_outs st) <= k)%nat /\
  keys_le (o_heap st) /\ Forall slot_le (cur_slots (o_cur st)).

Lemma refill_cur_spec st u : op_inv st -> refill_cur st = Ok u ->
  (length (heap u) <= k)%nat /\ length (rdrs u) = k /\ keys_le u.
Proof.
  intros (I1 & I2 & I3 & I4 & I5). unfold refill_cur. destruct (o_cur st) as [s|]; cbn [cur_slots length] in *.
  - intros H. destruct (refill_spec _ _ _ H) as (R1 & R2 & R3). split; [lia|split; [congruence|auto]].
  - intros H; inversion H; subst. split; [lia|auto].
Qed.

(* pop a slot and drain the equal ones: what both loops do first *)
Lemma pop_drain u s u1 u2 outs2 popped : (length (heap u) <= k)%nat -> length (rdrs u) = k -> keys_le u ->
  sh_pop pop_min u = Some (s, u1) ->
  drain_equal pop_min (S (length (heap u1))) u1 (input s) [indexed_value s] 1 = Some (Ok (u2, outs2, popped)) ->
  (S (length (heap u2)) <= k)%nat /\ length (rdrs u2) = k /\ (length outs2 <= k)%nat /\ keys_le u2 /\ slot_le s.
Proof.
  intros H1 H2 H3 Hp Hd. destruct (sh_pop_spec _ _ _ Hp) as (P1 & P2 & P3). destruct (P3 H3) as [P4 P5].
  destruct (drain_equal_spec _ _ _ _ _ _ _ _ Hd) as (D1 & D2 & D3 & D4). cbn [length] in D3.
  split; [lia|split; [congruence|split; [lia|auto]]].
Qed.

Lemma union_next_inv st it st' : op_inv st -> union_next pop_min st = Some (Ok (it, st')) -> op_inv st'.
Proof.
  intros Hi H. unfold union_next in H. pose proof Hi as (_ & _ & I3 & _).
  destruct (refill_cur st) as [u| |] eqn:Er; cbn [fbind lift] in H; try discriminate.
  destruct (refill_cur_spec _ _ Hi Er) as (R1 & R2 & R3).
  destruct (sh_pop pop_min u) as [[s u1]|] eqn:Ep.
  - destruct (drain_equal _ _ _ _ _ _) as [[[[u2 outs] n]| |]|] eqn:Ed; cbn [fbind] in H; try discriminate.
    inversion H; subst. destruct (pop_drain _ _ _ _ _ _ R1 R2 R3 Ep Ed) as (A1 & A2 & A3 & A4 & A5).
    unfold op_inv. cbn [o_heap o_cur o_outs cur_slots length]. split5; auto; lia.
  - inversion H; subst. unfold op_inv. cbn [o_heap o_cur o_outs cur_slots length]. split5; auto; lia.
Qed.

Lemma sel_loop_inv op n : forall u outs it st', (length (heap u) <= k)%nat -> length (rdrs u) = k -> keys_le u ->
  (length outs <= k)%nat -> sel_loop pop_min op n u outs = Some (Ok (it, st')) -> op_inv st'.
Proof.
  induction n as [|n IH]; intros u outs it st' H1 H2 H3 H4 H; cbn [sel_loop] in H; [discriminate|].
  destruct (sh_pop pop_min u) as [[s u1]|] eqn:Ep.
  - destruct (drain_equal _ _ _ _ _ _) as [[[[u2 outs2] popped]| |]|] eqn:Ed; cbn [fbind] in H; try discriminate.
    destruct (pop_drain _ _ _ _ _ _ H1 H2 H3 Ep Ed) as (A1 & A2 & A3 & A4 & A5).
    destruct (refill_instead op popped (num_slots u2)).
    + destruct (refill u2 s) as [u3| |] eqn:Er; cbn [fbind lift] in H; try discriminate.
      destruct (refill_spec _ _ _ Er) as (R1 & R2 & R3).
      eapply IH; [| | | |exact H]; auto; [lia|congruence].
    + inversion H; subst. unfold op_inv. cbn [o_heap o_cur o_outs cur_slots length]. split5; auto; lia.
  - inversion H; subst. unfold op_inv. cbn [o_heap o_cur o_outs cur_slots length]. split5; auto; lia.
Qed.

Lemma sel_next_inv op st it st' : op_inv st -> sel_next pop_min op st = Some (Ok (it, st')) -> op_inv st'.
Proof.
  intros Hi H. unfold sel_next in H. pose proof Hi as (_ & _ & I3 & _).
  destruct (refill_cur st) as [u| |] eqn:Er; cbn [fbind lift] in H; try discriminate.
  destruct (refill_cur_spec _ _ Hi Er) as (R1 & R2 & R3).
  eapply sel_loop_inv; eauto.
Qed.

Lemma op_new_inv ss st : length ss = k -> Forall stream_le ss -> op_new ss = Ok st -> op_inv st.
Proof.
  intros Hk Hs H. unfold op_new in H. destruct (sh_new ss) as [u| |] eqn:E; cbn [bind] in H; try discriminate.
  inversion H; subst. destruct (sh_new_spec _ _ E Hs) as (A1 & A2 & A3).
  unfold op_inv. cbn [o_heap o_cur o_outs cur_slots length]. split5; auto; lia.
Qed.

Inductive opreach (ss : list instream) : opstate -> Prop :=
| or_new st : op_new ss = Ok st -> opreach ss st
| or_union st it st' : opreach ss st -> union_next pop_min st = Some (Ok (it, st')) -> opreach ss st'
| or_sel op st it st' : opreach ss st -> sel_next pop_min op st = Some (Ok (it, st')) -> opreach ss st'.

Lemma opreach_inv ss st : length ss = k -> Forall stream_le ss -> opreach ss st -> op_inv st.
Proof.
  intros Hk Hs. induction 1.
  - eapply op_new_inv; eauto.
  - eapply union_next_inv; eauto.
  - eapply sel_next_inv; eauto.
Qed.

Lemma slots_size_le l : Forall slot_le l -> slots_size l <= N.of_nat (length l) * (SLOT + N.of_nat mk).
Proof.
  induction 1 as [|s l Hs _ IH]; cbn [slots_size fold_right length]; [lia|].
  fold (slots_size l). unfold slot_size, len. unfold slot_le in Hs. lia.
Qed.

Lemma op_inv_size st : op_inv st -> ops_logical_size st <= ops_bound (N.of_nat k) (N.of_nat mk).
Proof.
  intros (I1 & I2 & I3 & (I4 & _) & I5). unfold ops_logical_size, ops_bound, len.
  pose proof (slots_size_le _ I4) as S1. pose proof (slots_size_le _ I5) as S2.
  unfold IV, SLOT in *. nia.
Qed.

(* ---- difference: the heap is over the k - 1 other streams ---- *)
Definition diff_inv (st : dstate) : Prop :=
  (S (length (heap (d_heap st))) <= k)%nat /\ (length (d_outs st) <= 1)%nat /\
  (length (d_key st) <= mk)%nat /\ keys_le (d_heap st) /\ reader_le (d_set st).

Lemma diff_loop_inv n : forall st it st', diff_inv st -> diff_loop pop_min n st = Some (Ok (it, st')) -> diff_inv st'.
Proof.
  induction n as [|n IH]; intros st it st' Hi H; cbn [diff_loop] in H; [discriminate|].
  pose proof Hi as (I1 & I2 & I3 & I4 & I5).
  destruct (poll_le _ I5) as [P1 P2].
  destruct (poll (d_set st)) as [[[k0 v]|] r] eqn:Es; cbn [fst snd] in P1, P2.
  2:{ inversion H; subst. unfold diff_inv. cbn [d_heap d_outs d_key d_set]. split5; auto. }
  destruct (drain_le _ _ _ _ _) as [[[u2 unique]| |]|] eqn:Ed; cbn [fbind] in H; try discriminate.
  destruct (drain_le_spec _ _ _ _ _ _ Ed) as (D1 & D2 & D3). pose proof (P2 (k0, v) eq_refl) as Hk0. unfold kv_le in Hk0. cbn [fst] in Hk0.
  assert (Hn : diff_inv (mkd r k0 u2 [(O, v)])).
  { unfold diff_inv. cbn [d_heap d_outs d_key d_set length]. split5; auto; lia. }
  destruct unique; [inversion H; subst; exact Hn|eapply IH; eauto].
Qed.

Lemma diff_next_inv st it st' : diff_inv st -> diff_next pop_min st = Some (Ok (it, st')) -> diff_inv st'.
Proof. unfold diff_next. apply diff_loop_inv. Qed.

Lemma diff_new_inv ss st : length ss = k -> Forall stream_le ss -> diff_new ss = Ok st -> diff_inv st.
Proof.
  intros Hk Hs H. unfold diff_new in H. destruct ss as [|first rest]; [discriminate|].
  destruct (swap_remove0_cons first rest) as (r' & E & Hp). rewrite E in H.
  destruct (sh_new r') as [u| |] eqn:En; cbn [bind] in H; try discriminate. inversion H; subst.
  inversion Hs; subst.
  assert (Hr' : Forall stream_le r') by (eapply Permutation_Forall; eauto).
  destruct (sh_new_spec _ _ En Hr') as (A1 & A2 & A3). apply Permutation_length in Hp.
  unfold diff_inv. cbn [d_heap d_outs d_key d_set length] in *. split5; auto; lia.
Qed.

Inductive dreach (ss : list instream) : dstate -> Prop :=
| dr_new st : diff_new ss = Ok st -> dreach ss st
| dr_next st it st' : dreach ss st -> diff_next pop_min st = Some (Ok (it, st')) -> dreach ss st'.

Lemma dreach_inv ss st : length ss = k -> Forall stream_le ss -> dreach ss st -> diff_inv st.
Proof.
  intros Hk Hs. induction 1; [eapply diff_new_inv; eauto|eapply diff_next_inv; eauto].
Qed.

Lemma diff_inv_size st : diff_inv st -> diff_logical_size st <= ops_bound (N.of_nat k) (N.of_nat mk).
Proof.
  intros (I1 & I2 & I3 & (I4 & _) & _). unfold diff_logical_size, ops_bound, len.
  pose proof (slots_size_le _ I4) as S1. unfold IV, SLOT in *. nia.
Qed.
End OpsInv.

(* ====================================================================================== *)
(* the byte conversion dominates the logical bound (pure arithmetic on the two formulas)   *)
(* ====================================================================================== *)
Lemma vcap_ge n : n <= vcap n.
Proof. unfold vcap. lia. Qed.

Lemma builder_bound_le_bytes rows cols F K : builder_bound rows cols F K <= mem_bound_bytes_builder rows cols F K.
Proof.
  unfold builder_bound, mem_bound_bytes_builder, CELL, TRANS, UNF, STACK0, ALLOWANCE.
  pose proof (vcap_ge F) as HF. pose proof (vcap_ge (K + 1)) as HK.
  set (vF := vcap F) in *. set (vK := vcap (K + 1)) in *. clearbody vF vK.
  assert (rows * cols * F <= rows * cols * vF) by (apply N.mul_le_mono_l; exact HF).
  assert ((K + 1) * F <= (K + 1) * vF) by (apply N.mul_le_mono_l; exact HF).
  lia.
Qed.
Lemma stream_bound_le_bytes sz K : stream_bound sz K <= mem_bound_bytes_stream K sz.
Proof.
  unfold stream_bound, mem_bound_bytes_stream, FRAME, FRAME_BASE, INP0, ALLOWANCE_S.
  pose proof (vcap_ge (K + 1)) as HK. set (vK := vcap (K + 1)) in *. clearbody vK.
  assert ((K + 1) * (80 + sz) <= vK * (80 + sz)) by (apply N.mul_le_mono_r; exact HK).
  lia.
Qed.
Lemma ops_bound_le_bytes k K : ops_bound k K <= mem_bound_bytes_ops k K.
Proof.
  unfold ops_bound, mem_bound_bytes_ops, mem_bound_bytes_stream, FRAME, FRAME_BASE, INP0, ALLOWANCE_S,
    SLOT, IV, STREAMBOX, BOXPTR, SLOT_INPUT0.
  pose proof (vcap_ge k) as Hk. set (vk := vcap k) in *. set (vK := vcap (K + 1)). clearbody vk vK.
  assert (k * K <= k * N.max 64 (2 * K)) by (apply N.mul_le_mono_l; lia).
  nia.
Qed.
