(* BuilderInv.v — the vocabulary of the builder correctness proof (C01): the ghost store of
   emitted nodes, its language, and the invariant of a reachable builder state.
   Definitions only (plus decidable checkers used to test the invariant by computation). *)
Require Import FstV.Base FstV.Pack FstV.Node FstV.Registry FstV.Builder FstV.GraphSem FstV.Format
               FstV.CodecSpec FstV.Fst.
Require Import Coq.FSets.FMapPositive.
Require FstV.proofs.BuilderBasics.

(* ---------- the ghost store: the nodes written so far, newest (highest address) first ---------- *)
Definition store := list (N * snode).
Definition bn_of (s : snode) : bnode := mkBnode (sn_final s) (sn_fout s) (sn_trans s).
Definition top_addr (E : store) : N := match E with [] => 15 | (a, _) :: _ => a end.
Definition addrs (E : store) : list N := map fst E.

(* upper bound on the encoded size of one node: 2 + 1 + 256 + 256 * (1 + 8 + 8) + 8 *)
Definition NODE_MAX : N := 5000.

Definition cons_tr (b o : N) (kv : key * N) : key * N := (b :: fst kv, o + snd kv).
Definition addv (p : N) (kv : key * N) : key * N := (fst kv, p + snd kv).

(* language of a builder node, given the languages [cl] of the addresses it points to *)
Definition lang_node (cl : N -> kmap) (n : bnode) : kmap :=
  (if n_final n then [([], n_fout n)] else []) ++
  flat_map (fun t => map (cons_tr (t_inp t) (t_out t)) (cl (t_addr t))) (n_trans n).

(* language of an address of the store; address 0 is the shared empty final node *)
Fixpoint elang (E : store) (a : N) : kmap :=
  match E with
  | [] => if a =? 0 then [([], 0)] else []
  | (a', s) :: E' =>
    if a =? 0 then [([], 0)]
    else if a =? a' then lang_node (elang E') (bn_of s) else elang E' a
  end.

Definition tgt_ok (E : store) (a : N) : Prop := a = 0 \/ In a (addrs E).
Definition trans_ok (E : store) (t : trans) : Prop :=
  t_inp t < 256 /\ t_out t < U64 /\ tgt_ok E (t_addr t).
Definition node_ok (E : store) (n : bnode) : Prop :=
  inputs_increasing (n_trans n) = true /\ Forall (trans_ok E) (n_trans n) /\
  n_fout n < U64 /\ (n_final n = false -> n_fout n = 0).

Fixpoint store_ok (E : store) : Prop :=
  match E with
  | [] => True
  | (a, s) :: E' =>
    store_ok E' /\ node_ok E' (bn_of s) /\ 0 < sn_size s /\ sn_size s <= NODE_MAX /\
    a = top_addr E' + sn_size s
  end.

(* ---------- the unfinished stack ---------- *)
(* language of the stack (bottom first); [tail] = language of whatever hangs below the last
   node's pending transition *)
Fixpoint Lstk (cl : N -> kmap) (st : list unf) (tail : kmap) : kmap :=
  match st with
  | [] => tail
  | u :: rest =>
    lang_node cl (u_node u) ++
    match u_last u with Some (i, o) => map (cons_tr i o) (Lstk cl rest tail) | None => [] end
  end.

(* the pending transitions spell the last key; the top node has none *)
Fixpoint shape (st : list unf) (k : key) : Prop :=
  match st with
  | [] => False
  | u :: rest =>
    match k with
    | [] => u_last u = None /\ rest = []
    | c :: k' => (exists o, u_last u = Some (c, o)) /\ shape rest k'
    end
  end.

Definition unf_ok (E : store) (u : unf) : Prop :=
  inputs_increasing (n_trans (u_node u)) = true /\
  Forall (fun t => t_inp t < 256 /\ tgt_ok E (t_addr t)) (n_trans (u_node u)) /\
  (n_final (u_node u) = false -> n_fout (u_node u) = 0) /\
  match u_last u with
  | Some (i, _) => i < 256 /\ Forall (fun t => t_inp t < i) (n_trans (u_node u))
  | None => True
  end.

(* outputs stay below 2^64: every output, added to the pending outputs below it, is < 2^64 *)
Definition outs_bounded (pre : N) (n : bnode) : Prop :=
  pre + n_fout n < U64 /\ Forall (fun t => pre + t_out t < U64) (n_trans n).
Fixpoint W (pre : N) (st : list unf) : Prop :=
  match st with
  | [] => True
  | u :: rest =>
    outs_bounded pre (u_node u) /\
    match u_last u with Some (_, o) => pre + o < U64 /\ W (pre + o) rest | None => True end
  end.

(* every emitted address is dominated by a frozen target on the active path (so the root, when it
   is finally compiled, cannot be found in the registry, and is the last node of the file) *)
Fixpoint dom (st : list unf) (a : N) : Prop :=
  match st with
  | [] => False
  | u :: rest =>
    Exists (fun t => a <= t_addr t) (n_trans (u_node u)) \/ (u_last u <> None /\ dom rest a)
  end.

(* ---------- trimmed nodes, canonical outputs (used for the fuel bound and for get_key) ---------- *)
(* a node with a non-empty language, given that its targets have one *)
Definition trimmed (n : bnode) : Prop := n_final n = true \/ n_trans n <> [].
Fixpoint strim (E : store) : Prop :=
  match E with [] => True | (_, s) :: E' => strim E' /\ trimmed (bn_of s) end.
(* the node on top of the stack is the final node of the last key (unless it is the root) *)
Definition top_final (st : list unf) : Prop :=
  forall u, last_opt st = Some u -> length st = 1%nat \/ n_final (u_node u) = true.

(* sum of the pending outputs *)
Fixpoint psum (st : list unf) : N :=
  match st with
  | [] => 0
  | u :: r => match u_last u with Some (_, o) => o + psum r | None => 0 end
  end.

(* "the smallest value is 0" for a list of naturals: some value is 0 *)
Definition has0 (l : kmap) : Prop := exists k, In (k, 0) l.
(* below every frozen transition the smallest residual value is 0 *)
Definition Fro (cl : N -> kmap) (n : bnode) : Prop :=
  forall t, In t (n_trans n) -> has0 (cl (t_addr t)).
Fixpoint cgood (E : store) : Prop :=
  match E with [] => True | (_, s) :: E' => cgood E' /\ Fro (elang E') (bn_of s) end.
(* the same for the stack; for the first [p] nodes (the common prefix with a key being inserted,
   whose remaining output is [v]) the 0 may still be owed to the pair about to be appended *)
Fixpoint Cpost (cl : N -> kmap) (st : list unf) (tail : kmap) (p : nat) (v : N) : Prop :=
  match st with
  | [] => True
  | u :: rest =>
    Fro cl (u_node u) /\
    match u_last u with
    | None => True
    | Some _ =>
      match p with
      | O => has0 (Lstk cl rest tail) /\ Cpost cl rest tail O v
      | S p' => (has0 (Lstk cl rest tail) \/ psum (firstn p' rest) + v = 0) /\ Cpost cl rest tail p' v
      end
    end
  end.
Definition Cstk (cl : N -> kmap) (st : list unf) : Prop := Cpost cl st [] O 0.

(* ---------- minimality (C12): no duplicates without eviction, reachability ---------- *)
Definition strip (E : store) : list (N * bnode) := map (fun x => (fst x, bn_of (snd x))) E.
Definition is_sentinel (n : bnode) : Prop := n_final n = true /\ n_trans n = [] /\ n_fout n = 0.
(* the empty final node is never written; unless the cache is degenerate, while nothing has been
   evicted the cache holds exactly the written nodes (BuilderBasics.reg_inv) *)
Definition Ginv (zg : bool) (b : builder) (E : store) : Prop :=
  Forall (fun x => ~ is_sentinel (snd x)) (strip E) /\
  (if zg then r_rows (b_reg b) * r_cols (b_reg b) = 0 else BuilderBasics.ginv b (strip E)).
Inductive reach (E : store) : N -> N -> Prop :=
| reach_refl a : reach E a a
| reach_step a s t a' : In (a, s) E -> In t (sn_trans s) -> reach E (t_addr t) a' -> reach E a a'.
Definition ftargets (st : list unf) : list N :=
  flat_map (fun u => map t_addr (n_trans (u_node u))) st.
(* every written node is below some frozen transition of the unfinished stack *)
Definition Rinv (E : store) (st : list unf) : Prop :=
  forall a, In a (addrs E) -> exists x, In x (ftargets st) /\ reach E x a.

(* ---------- registry ---------- *)
Definition cell_ok (E : store) (c : cell) : Prop :=
  c_addr c <> NONE_ADDRESS -> exists s, In (c_addr c, s) E /\ bn_of s = c_node c.
Definition reg_ok (E : store) (r : registry) : Prop := forall i, cell_ok E (rget r i).

(* ---------- bytes ---------- *)
Definition body (b : builder) : list N := concat (rev (b_out b)).
Definition bbytes (b : builder) : Prop := Forall (fun x => x < 256) (body b).

Record bytes_ok (ver ty : N) (E : store) (b : builder) : Prop := mkBytesOk {
  by_ver : b_version b = ver;
  by_cnt : b_count b = top_addr E + 1;
  by_len : len (body b) = b_count b;
  by_hdr : firstn 16 (body b) = u64_le ver ++ u64_le ty;
  by_tiles : forall fuel acc0, (length E < fuel)%nat ->
             tiles ver fuel (rev (body b)) (top_addr E) acc0 = Some (rev E ++ acc0);
  by_la : b_last_addr b = match E with [] => NONE_ADDRESS | _ => top_addr E end
}.

Definition key_bytes (ks : list key) : N := fold_right (fun k a => len k + a) 0 ks.

(* ---------- the invariant ---------- *)
Definition lastkey (acc : kmap) : key := match acc with [] => [] | (k, _) :: _ => k end.

(* the part of the invariant that `compile` reads and writes *)
Definition minv (ver ty : N) (E : store) (b : builder) : Prop :=
  store_ok E /\ bytes_ok ver ty E b /\ reg_ok E (b_reg b).

(* the part about the unfinished stack: [k] the key spelled by the pending transitions,
   [L] the language of the stack *)
Record sinv (E : store) (st : list unf) (k : key) (L : kmap) : Prop := mkSinv {
  s_shape : shape st k;
  s_unf : Forall (unf_ok E) st;
  s_W : W 0 st;
  s_dom : forall a, In a (addrs E) -> dom st a;
  s_lang : Lstk (elang E) st [] = L
}.
(* between two calls the top node has no transitions *)
Definition top_empty (st : list unf) : Prop :=
  forall u, last_opt st = Some u -> n_trans (u_node u) = [].

(* [acc]: the accepted pairs, newest first.  [G]: global node budget; [rem]: key bytes still to come *)
Record inv (ver ty G rem : N) (E : store) (acc : kmap) (b : builder) : Prop := mkInv {
  i_m : minv ver ty E b;
  i_s : sinv E (b_stack b) (lastkey acc) (rev acc);
  i_top : top_empty (b_stack b);
  i_len : b_len b = len acc;
  i_budget : len E + len (b_stack b) + rem <= G;
  i_G : NODE_MAX * G + 100 < U64;
  i_nacc : len acc + rem <= G;     (* hence the key count fits the footer *)
  i_kb : key_bytes (keys_of acc) + rem <= G;
  i_trim : strim E;
  i_tf : top_final (b_stack b);
  i_bb : bbytes b
}.
Definition last_ok (acc : kmap) (b : builder) : Prop :=
  b_last b = match acc with [] => None | (k, _) :: _ => Some k end.

(* ---------- statements about the inputs ---------- *)
Definition op_key (o : op) : key := match o with OpInsert k _ => k | OpAdd k => k end.
Definition op_val (o : op) : N := match o with OpInsert _ v => v | OpAdd _ => 0 end.
Definition op_ok (o : op) : Prop := Forall (fun b => b < 256) (op_key o) /\ op_val o < U64.
(* every node costs at most NODE_MAX bytes and at most 1 + (total key bytes) nodes are ever created
   (one per byte pushed on the stack, plus the root), so the node area, the 16 header bytes and the
   20 footer bytes stay below 2^64 *)
Definition size_ok_keys (ks : list key) : Prop := NODE_MAX * (1 + key_bytes ks) + 100 < U64.
Definition size_ok (kvs : kmap) : Prop := size_ok_keys (keys_of kvs).
Definition size_ok_ops (ops : list op) : Prop := size_ok_keys (map op_key ops).
Definition calls_ok (ops : list op) : Prop := Forall (fun r => r = Ok tt) (spec_calls None ops).

(* sets: keys may repeat; the content is the de-duplicated key list with value 0 *)
Fixpoint sorted_weak (l : list key) : bool :=
  match l with
  | [] => true
  | a :: r => match r with [] => true | b :: _ => key_leb a b && sorted_weak r end
  end.
Fixpoint dedup (l : list key) : list key :=
  match l with
  | [] => []
  | a :: r => match r with [] => [a] | b :: _ => if key_eqb a b then dedup r else a :: dedup r end
  end.
