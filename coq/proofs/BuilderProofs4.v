(* BuilderProofs4.v — insert_output and the call loop keep the invariant. *)
Require Import FstV.Base FstV.Pack FstV.Node FstV.Registry FstV.Builder FstV.GraphSem FstV.Format
               FstV.CodecSpec FstV.Fst.
Require Import FstV.proofs.BuilderInv FstV.proofs.BuilderRegLemmas FstV.proofs.BuilderGraphLemmas
               FstV.proofs.BuilderBytesLemmas FstV.proofs.BuilderSpecLemmas
               FstV.proofs.BuilderProofs1 FstV.proofs.BuilderProofs2 FstV.proofs.BuilderProofs3.
Require Import Lia ZifyN ZifyBool ZifyNat.

Definition out_of (o : option N) : N := match o with Some v => v | None => 0 end.
Definition is_dup (acc : kmap) (bs : key) : bool :=
  match acc with [] => false | (k, _) :: _ => key_eqb bs k end.

Section Main.
Hypothesis Hcodec : codec_statement.
Hypothesis Htotal : compile_total_statement.
Variable ty : N.
Variable ver : N.
Variable zg : bool.
Hypothesis Hver : 1 <= ver <= 3.

Definition cinv (E : store) (b : builder) : Prop :=
  cgood E /\ Cstk (elang E) (b_stack b) /\ Ginv zg b E /\ Rinv E (b_stack b).

Lemma last_opt_snoc {A} (l : list A) x : last_opt (l ++ [x]) = Some x.
Proof. clear Hver.
  induction l as [|y l IH]; [reflexivity|]. cbn [app].
  destruct (l ++ [x]) eqn:X; [destruct l; discriminate|]. exact IH.
Qed.

Lemma top_final_one (u : unf) : top_final [u].
Proof. clear Hver. intros v _. left. reflexivity. Qed.

Lemma fcp0_cpl : forall st k bs, shape st k -> fcp0 st bs = cpl k bs.
Proof. clear Hver.
  induction st as [|u st IH]; intros k bs Hs; [destruct Hs|].
  destruct bs as [|b bs]; [destruct k; reflexivity|]. cbn [fcp0 shape] in *.
  destruct k as [|c k].
  - destruct Hs as (-> & _). reflexivity.
  - destruct Hs as ((o & ->) & Hs). cbn [cpl]. destruct (c =? b); [|reflexivity]. f_equal. auto.
Qed.

(* the empty key *)
Lemma insert_empty_ok G rem E acc b outo b' r :
  inv ver ty G rem E acc b ->
  out_of outo < U64 ->
  lastkey acc = [] ->
  (is_dup acc [] = true -> outo = None) ->
  insert_output b [] outo = (b', r) ->
  r = Ok tt /\ inv ver ty G rem E (if is_dup acc [] then acc else ([], out_of outo) :: acc) b' /\
  b_last b' = b_last b /\ (cinv E b -> cinv E b').
Proof.
  intros [Hm Hs Htop Hlen Hbud HG Hna Hkb Htrim Htf Hbb] Hout Hk Hdup Hc.
  destruct Hs as [Hsh Hu HW Hd HL]. rewrite Hk in Hsh.
  destruct (b_stack b) as [|root rest] eqn:Hst; [destruct Hsh|]. cbn [shape] in Hsh.
  destruct Hsh as (Hrl & ->).
  assert (Hrt : n_trans (u_node root) = []) by (apply Htop; reflexivity).
  cbn [Lstk] in HL. rewrite Hrl, app_nil_r in HL. unfold lang_node in HL. rewrite Hrt in HL.
  cbn [flat_map] in HL. rewrite app_nil_r in HL.
  unfold insert_output in Hc. rewrite Hst in Hc.
  destruct (n_final (u_node root)) eqn:Hfin.
  - (* the empty key is already there *)
    assert (Hacc : acc = [([], n_fout (u_node root))]).
    { rewrite <- (rev_involutive acc), <- HL. reflexivity. }
    assert (Hd1 : is_dup acc [] = true) by (rewrite Hacc; reflexivity).
    rewrite Hd1. rewrite (Hdup Hd1) in Hc. inversion Hc; subst b' r; clear Hc.
    split; [reflexivity|]. split; [|split; [reflexivity|]].
    2:{ unfold cinv. cbn [with_len b_stack]. auto. }
    constructor; cbn [with_len b_stack b_len].
    + eapply minv_frame; [..|exact Hm]; reflexivity.
    + rewrite Hst, Hk. constructor; auto. cbn [shape]. auto.
      cbn [Lstk]. rewrite Hrl, app_nil_r. unfold lang_node. rewrite Hrt, Hfin. cbn [flat_map]. rewrite app_nil_r.
      rewrite <- HL. reflexivity.
    + rewrite Hst. exact Htop.
    + rewrite Hacc. reflexivity.
    + rewrite Hst. exact Hbud.
    + exact HG.
    + exact Hna.
    + exact Hkb.
    + exact Htrim.
    + rewrite Hst. exact Htf.
    + exact Hbb.
  - assert (Hacc : acc = []).
    { rewrite <- (rev_involutive acc), <- HL. reflexivity. }
    subst acc. cbn [is_dup].
    assert (Hc' : (with_stack (with_len b 1)
                     [mkUnf (mkBnode true (out_of outo) (n_trans (u_node root))) (u_last root)], Ok tt) = (b', r)).
    { destruct outo; exact Hc. }
    clear Hc. inversion Hc'; subst b' r; clear Hc'.
    split; [reflexivity|]. split; [|split; [reflexivity|]].
    2:{ unfold cinv, Cstk. cbn [with_stack with_len b_stack Cpost u_node u_last n_trans]. rewrite Hst.
        cbn [Cpost]. rewrite Hrl, Hrt. intros (A & (B & _) & C & D). split; [exact A|]. split; [split; [|exact I]; intros t []|].
        split; [exact C|]. unfold Rinv, ftargets in *. cbn [flat_map u_node n_trans] in *. rewrite ?Hrt in D. exact D. }
    inversion Hu as [|? ? Hu1 _]; subst. destruct Hu1 as (U1 & U2 & U3 & U4).
    constructor; cbn [with_stack with_len b_stack b_len lastkey].
    + eapply minv_frame; [..|exact Hm]; reflexivity.
    + constructor.
      * cbn [shape u_last]. auto.
      * constructor; [|constructor]. unfold unf_ok. cbn [u_node u_last n_trans n_final n_fout].
        rewrite Hrl. splits; auto. discriminate.
      * cbn [W u_node u_last]. rewrite Hrl. split; [|exact I]. split; cbn [n_fout n_trans]; [lia|].
        rewrite Hrt. constructor.
      * intros a Ha. specialize (Hd a Ha). cbn [dom u_node u_last n_trans] in *. exact Hd.
      * cbn [Lstk u_node u_last]. rewrite Hrl, app_nil_r. unfold lang_node. cbn [n_final n_fout n_trans].
        rewrite Hrt. reflexivity.
    + unfold top_empty. cbn [last_opt]. intros u Hu'. inversion Hu'; subst. cbn [u_node n_trans]. exact Hrt.
    + reflexivity.
    + exact Hbud.
    + exact HG.
    + unfold len in *. cbn [length] in *. lia.
    + cbn [keys_of map fst key_bytes fold_right] in *. unfold len in *. cbn [length] in *. lia.
    + exact Htrim.
    + apply top_final_one.
    + exact Hbb.
Qed.

Lemma firstn_app_exact {A} (l1 l2 : list A) n : length l1 = n -> firstn n (l1 ++ l2) = l1.
Proof. clear Hver. intros <-. rewrite firstn_app, Nat.sub_diag, firstn_all. cbn [firstn]. apply app_nil_r. Qed.

(* a non-empty key *)
Lemma insert_nonempty_ok G rem E acc b b0 bs0 outo b' r :
  let bs := b0 :: bs0 in
  inv ver ty G (len bs + rem) E acc b ->
  Forall (fun c => c < 256) bs -> out_of outo < U64 ->
  lex_cmp bs (lastkey acc) <> Lt ->
  (is_dup acc bs = true -> outo = None) ->
  insert_output b bs outo = (b', r) ->
  exists E', r = Ok tt /\
    inv ver ty G rem E' (if is_dup acc bs then acc else (bs, out_of outo) :: acc) b' /\
    b_last b' = b_last b /\ (cinv E b -> cinv E' b').
Proof.
  intros bs [Hm Hs Htop Hlen Hbud HG Hna Hkb Htrim Htf Hbb] Hbytes Hout Hcmp Hdup Hc.
  set (k := lastkey acc) in *. set (out := out_of outo) in *.
  set (p := cpl k bs) in *.
  destruct (cpl_spec k bs Hcmp) as (C1 & C2 & C3 & C4 & C5). fold p in C1, C2, C3, C4, C5.
  assert (Hdupp : is_dup acc bs = true <-> p = length bs).
  { split.
    - destruct acc as [|[k0 v0] acc0]; [discriminate|]. cbn [is_dup]. intros X. apply key_eqb_eq in X.
      unfold p, k. cbn [lastkey]. rewrite <- X. apply cpl_refl.
    - intros Heq. pose proof (C4 Heq) as Hbk.
      destruct acc as [|[k0 v0] acc0]; [discriminate Hbk|]. cbn [is_dup]. apply key_eqb_eq. exact Hbk. }
  unfold insert_output in Hc. fold bs in Hc.
  rewrite (fcp0_cpl _ _ bs (s_shape _ _ _ _ Hs)) in Hc. fold k p in Hc.
  change (match outo with Some o => o | None => 0 end) with out in Hc.
  destruct (Nat.eqb_spec p (length bs)) as [Heq|Hne].
  - (* the key is the last key again: only `add` gets here, and nothing happens *)
    assert (Hd1 : is_dup acc bs = true) by (apply Hdupp; exact Heq).
    rewrite Hd1. rewrite (Hdup Hd1) in Hc. cbn [andb] in Hc.
    inversion Hc; subst b' r; clear Hc. exists E. split; [reflexivity|]. split; [|split; [reflexivity|auto]].
    constructor; auto; unfold len in *; lia.
  - rewrite andb_false_r in Hc.
    assert (Hd0 : is_dup acc bs = false).
    { destruct (is_dup acc bs) eqn:X; [|reflexivity]. exfalso. apply Hne, Hdupp. reflexivity. }
    rewrite Hd0.
    destruct Hs as [Hsh Hu HW Hd HL].
    destruct (fcp_ok E bs (b_stack b) k out 0 Hsh Hu HW) as
      (st & o2 & Hf & S1 & S2 & S3 & S4 & S5 & S6 & S7 & S8 & S9 & S10); auto.
    fold p in Hf, S7, S9.
    pose proof (shape_length _ _ Hsh) as Hlst0. pose proof (shape_length _ _ S1) as Hlst.
    assert (Hs1 : sinv E st k (rev acc)).
    { constructor; auto. rewrite S5. exact HL. }
    rewrite Hf in Hc.
    destruct (Nat.eqb_spec p (length bs)) as [X|_]; [contradiction|].
    set (b2 := with_len (with_stack b st) (b_len (with_stack b st) + 1)) in *.
    assert (Hm2 : minv ver ty E b2) by (eapply minv_frame; [..|exact Hm]; reflexivity).
    assert (Htf2 : top_final st).
    { intros u Hu'. destruct (shape_top _ _ S1) as (lo & t & Hst & Ht & Hlo).
      destruct (shape_top _ _ Hsh) as (lo' & t' & Hst' & Ht' & Hlo').
      pose proof (@last_opt_snoc unf) as Hlu.
      rewrite Hst, Hlu in Hu'. inversion Hu'; subst u.
      destruct (Htf t') as [X|X]; [rewrite Hst'; apply Hlu|left; lia|right].
      unfold finals in S8. rewrite Hst, Hst', !map_app in S8. cbn [map] in S8.
      apply (f_equal (@rev bool)) in S8. rewrite !rev_app_distr in S8. cbn [rev app] in S8.
      inversion S8. congruence. }
    destruct (compile_from b2 p) as [b3 r3] eqn:Hcf.
    destruct (compile_from_ok Hcodec Htotal ty ver zg Hver E b2 k (rev acc) p b3 r3 Hm2 Hs1) as
      (E' & -> & Hm3 & F1 & F2 & Flen & Fs & Fcase & Ftrim & Fbb & FC & FGR); auto.
    { cbn [b2 with_len with_stack b_stack]. unfold len, NODE_MAX in *. lia. }
    cbn [b2 with_len with_stack b_stack b_len b_last] in *.
    destruct (skipn_cons_length p bs) as (b1 & r1 & Hsk); [lia|].
    assert (Hb1 : b1 < 256 /\ Forall (fun c => c < 256) r1).
    { assert (X : Forall (fun c => c < 256) (skipn p bs)).
      { apply Forall_forall. intros x Hx. rewrite Forall_forall in Hbytes. apply Hbytes.
        rewrite <- (firstn_skipn p bs). apply in_or_app. right. exact Hx. }
      rewrite Hsk in X. inversion X; auto. }
    destruct Hb1 as (Hb1 & Hr1).
    (* the stack after compile_from: lo ++ [top], lo = the first p nodes of st, top has smaller inputs than b1 *)
    assert (Hdec : exists lo top, b_stack b3 = lo ++ [top] /\ firstn p st = lo /\
                     Forall (fun x => t_inp x < b1) (n_trans (u_node top))).
    { destruct Fcase as [(Fl & Fst & ->)|(Fl & lo & p0 & hi & a & Fst & Flo & Fst3)].
      - destruct (shape_top _ _ S1) as (lo & t & Hst & Ht & Hlo). pose proof (lasts_length _ _ Hlo).
        exists lo, t. rewrite Fst. split; [exact Hst|]. split.
        + rewrite Hst. apply firstn_app_exact. lia.
        + rewrite (S4 t); [constructor|]. rewrite Hst. clear. induction lo as [|x lo IH]; [reflexivity|].
          cbn [app]. destruct (lo ++ [t]) eqn:X; [destruct lo; discriminate|]. exact IH.
      - exists lo, (mkUnf (freeze p0 a) None). split; [exact Fst3|]. split.
        + rewrite Fst. apply firstn_app_exact. exact Flo.
        + rewrite Fst in S1. destruct (shape_app_inv lo (p0 :: hi) k S1) as (_ & Hp0); [discriminate|].
          rewrite Flo in Hp0.
          destruct C5 as (c & bb & k2 & bs2 & Hk2 & Hbs2 & Hcb); [lia|lia|].
          rewrite Hk2 in Hp0. cbn [shape] in Hp0. destruct Hp0 as ((o & Hp0) & _).
          rewrite Hsk in Hbs2. inversion Hbs2; subst bb bs2.
          rewrite Fst in S2. apply Forall_app in S2. destruct S2 as (_ & S2). inversion S2 as [|? ? Hup0 _]; subst.
          destruct Hup0 as (_ & _ & _ & U4). rewrite Hp0 in U4. destruct U4 as (_ & U4).
          cbn [u_node]. unfold freeze. rewrite Hp0. cbn [n_trans]. apply Forall_app. split.
          * eapply Forall_impl; [|exact U4]. cbn. intros; lia.
          * constructor; [|constructor]. cbn. exact Hcb. }
    destruct Hdec as (lo & top & Hst3 & Hlo & Htopb).
    rewrite Hst3 in Fs. rewrite Hlo in S7.
    destruct (add_suffix_ok E' lo top (firstn p k) (rev acc) b1 r1 o2 Fs Htopb Hb1 Hr1) as
      (st' & Has & Ss & St & Sl); [unfold out in *; lia|].
    assert (Hst'eq : st' = lo ++ [mkUnf (u_node top) (Some (b1, o2))] ++ suffix_nodes r1).
    { destruct (shape_top _ _ (s_shape _ _ _ _ Fs)) as (lo2 & t2 & Heq2 & Ht2 & _).
      apply app_inj_tail in Heq2. destruct Heq2 as (<- & <-).
      unfold add_suffix in Has. rewrite rev_app_distr in Has. cbn [rev app] in Has.
      rewrite Ht2, rev_involutive in Has. inversion Has. reflexivity. }
    rewrite Hst3, Hsk, Has in Hc. inversion Hc; subst b' r; clear Hc.
    exists E'. split; [reflexivity|].
    assert (Hkey : firstn p k ++ b1 :: r1 = bs).
    { rewrite <- C1, <- Hsk. apply firstn_skipn. }
    rewrite Hkey in Ss. replace (psum lo + o2) with out in Ss by lia.
    assert (Hlenlo : length lo = p) by (rewrite <- Hlo; apply firstn_length_le; lia).
    assert (Hlenbs : length bs = (p + length (b1 :: r1))%nat).
    { rewrite <- Hsk, skipn_length. lia. }
    split; [|split; [exact F1|]].
    + constructor; cbn [with_stack b_stack b_len lastkey].
      * eapply minv_frame; [..|exact Hm3]; reflexivity.
      * cbn [rev]. exact Ss.
      * exact St.
      * rewrite F2, Hlen. unfold len. cbn [length]. lia.
      * rewrite Hst3 in Flen. unfold len in *. rewrite app_length in Flen. cbn [length] in *. lia.
      * exact HG.
      * unfold len in *. cbn [length] in *. lia.
      * cbn [keys_of map fst key_bytes fold_right]. unfold key_bytes, keys_of in Hkb. lia.
      * exact Ftrim.
      * rewrite Hst'eq, app_assoc. apply top_final_suffix.
      * eapply bbytes_frame; [|exact Fbb]. reflexivity.
    + intros (Hcg & HCs & HGi & HRi). cbn [with_stack b_stack].
      destruct (FC o2 Hcg (S9 HCs)) as (Hcg' & HC').
      assert (HRst : Rinv E st) by (unfold Rinv in *; rewrite S10; exact HRi).
      destruct (FGR HGi HRst) as (HG' & HR').
      split; [exact Hcg'|]. rewrite Hst'eq. rewrite Hst3, <- Hlenlo in HC'.
      destruct (shape_top _ _ (s_shape _ _ _ _ Fs)) as (lo2 & t2 & Heq2 & Ht2 & Hlo2).
      apply app_inj_tail in Heq2. destruct Heq2 as (<- & <-).
      split; [eapply add_suffix_C; eauto|]. split; [exact HG'|].
      rewrite Hst3 in HR'. unfold Rinv in *. cbn [with_stack b_stack]. rewrite app_assoc, (ftargets_app (_ ++ _)), ftargets_suffix, app_nil_r.
      rewrite ftargets_app in *. exact HR'.
Qed.

(* ---------- one accepted call ---------- *)
Lemma lex_cmp_nil_r k : lex_cmp k [] <> Lt.
Proof. clear Hver. destruct k; cbn; discriminate. Qed.

Lemma inv_with_last G rem E acc b l : inv ver ty G rem E acc b -> inv ver ty G rem E acc (with_last b l).
Proof.
  intros [Hm Hs Htop Hlen Hbud HG Hna Hkb Htrim Htf Hbb]. constructor; cbn [with_last b_stack b_len]; auto.
  eapply minv_frame; [..|exact Hm]; reflexivity.
Qed.

Lemma apply_op_ok G rem E acc b o l' :
  inv ver ty G (len (op_key o) + rem) E acc b -> last_ok acc b -> op_ok o ->
  spec_call (b_last b) o = (l', Ok tt) ->
  exists E' b', apply_op b o = (b', Ok tt) /\
    inv ver ty G rem E' (step_acc (b_last b) acc o) b' /\ last_ok (step_acc (b_last b) acc o) b' /\
    b_last b' = l' /\ (cinv E b -> cinv E' b').
Proof.
  intros Hinv Hlast (Hkb & Hv) Hsc.
  set (k := op_key o) in *. set (outo := match o with OpInsert _ v => Some v | OpAdd _ => None end).
  set (dupe := match o with OpInsert _ _ => true | OpAdd _ => false end).
  assert (Hout : out_of outo = op_val o) by (destruct o; reflexivity).
  assert (Happ : apply_op b o =
     let '(b1, r) := check_last_key b k dupe in
     match r with Ok _ => insert_output b1 k outo | Err x => (b1, Err x) | Panic => (b1, Panic) end).
  { destruct o; reflexivity. }
  assert (Hsc' : spec_call (b_last b) o =
     match b_last b with
     | None => (Some k, Ok tt)
     | Some l => if dupe && key_eqb k l then (b_last b, Err (EDuplicateKey k))
                 else if key_ltb k l then (b_last b, Err (EOutOfOrder l k)) else (Some k, Ok tt) end).
  { destruct o; reflexivity. }
  rewrite Hsc' in Hsc. clear Hsc'.
  (* check_last_key accepts; facts about the order *)
  assert (Hchk : check_last_key b k dupe = (with_last b (Some k), Ok tt) /\ l' = Some k /\
                 lex_cmp k (lastkey acc) <> Lt /\
                 is_dup acc k = (match b_last b with Some l => key_eqb k l | None => false end) /\
                 (is_dup acc k = true -> outo = None)).
  { unfold check_last_key. red in Hlast. destruct (b_last b) as [l|] eqn:Hbl.
    - destruct acc as [|[k0 v0] acc0]; [discriminate|]. inversion Hlast; subst k0. cbn [lastkey is_dup].
      destruct (dupe && key_eqb k l) eqn:Hd; [discriminate|].
      destruct (key_ltb k l) eqn:Hlt; [discriminate|]. inversion Hsc; subst l'.
      splits; auto.
      + unfold key_ltb in Hlt. destruct (lex_cmp k l); congruence.
      + intros Hke. rewrite Hke, andb_true_r in Hd. unfold dupe in Hd. unfold outo. destruct o; congruence.
    - destruct acc as [|[k0 v0] acc0]; [|discriminate]. inversion Hsc; subst l'. cbn [lastkey is_dup].
      splits; auto; [apply lex_cmp_nil_r|discriminate]. }
  destruct Hchk as (Hchk & -> & Hcmp & Hdupeq & Hdupnone).
  rewrite Happ, Hchk. cbn iota beta.
  pose proof (inv_with_last _ _ _ _ _ (Some k) Hinv) as Hinv1.
  assert (Hacc' : step_acc (b_last b) acc o = if is_dup acc k then acc else (k, out_of outo) :: acc).
  { unfold step_acc. fold k. rewrite Hdupeq, Hout. reflexivity. }
  rewrite Hacc'.
  destruct (insert_output (with_last b (Some k)) k outo) as [b' r] eqn:Hio.
  assert (Hres : exists E', r = Ok tt /\ inv ver ty G rem E' (if is_dup acc k then acc else (k, out_of outo) :: acc) b' /\
                            b_last b' = Some k /\ (cinv E b -> cinv E' b')).
  { destruct k as [|b0 bs0] eqn:Hk.
    - assert (Hlk : lastkey acc = []) by (destruct (lastkey acc); [reflexivity|cbn in Hcmp; congruence]).
      assert (Hinv0 : inv ver ty G rem E acc (with_last b (Some []))).
      { destruct Hinv1 as [A1 A2 A3 A4 A5 A6 A7 A8 A9 A10 A11]. constructor; auto. }
      destruct (insert_empty_ok G rem E acc _ outo b' r Hinv0) as (Hr & Hi & Hl & HC); auto; [lia|].
      exists E. auto.
    - destruct (insert_nonempty_ok G rem E acc _ b0 bs0 outo b' r Hinv1) as (E' & Hr & Hi & Hl & HC); auto; [lia|].
      exists E'. auto. }
  destruct Hres as (E' & -> & Hi & Hl & HC). exists E', b'. splits; auto.
  red. rewrite Hl. destruct (is_dup acc k) eqn:Hd; [|reflexivity].
  destruct acc as [|[k0 v0] acc0]; [discriminate|]. cbn [is_dup] in Hd. apply key_eqb_eq in Hd. congruence.
Qed.

(* ---------- the call loop ---------- *)
Lemma run_extend_ok : forall ops G rem E acc b,
  inv ver ty G (key_bytes (map op_key ops) + rem) E acc b -> last_ok acc b -> Forall op_ok ops ->
  Forall (fun r => r = Ok tt) (spec_calls (b_last b) ops) ->
  exists E' acc' b', run_extend b ops = (b', Ok tt) /\
    inv ver ty G rem E' acc' b' /\ rev acc' = spec_content (b_last b) ops acc /\
    (cinv E b -> cinv E' b').
Proof.
  induction ops as [|o ops IH]; intros G rem E acc b Hinv Hlast Hok Hcalls.
  - exists E, acc, b. cbn [run_extend spec_content map key_bytes fold_right] in *. splits; auto.
  - cbn [spec_calls] in Hcalls. destruct (spec_call (b_last b) o) as [l' x] eqn:Hsc.
    inversion Hcalls as [|? ? Hx Hrest]; subst. inversion Hok as [|? ? Ho Hoks]; subst.
    cbn [map key_bytes fold_right] in Hinv.
    assert (Hinv' : inv ver ty G (len (op_key o) + (key_bytes (map op_key ops) + rem)) E acc b).
    { destruct Hinv as [A1 A2 A3 A4 A5 A6 A7 A8 A9 A10 A11]. constructor; auto; unfold key_bytes in *; lia. }
    destruct (apply_op_ok G _ E acc b o l' Hinv' Hlast Ho Hsc) as (E1 & b1 & Hap & Hi1 & Hl1 & Hbl1 & HC1).
    cbn [run_extend]. rewrite Hap. subst l'.
    destruct (IH G rem E1 _ b1 Hi1 Hl1 Hoks Hrest) as (E' & acc' & b' & Hrun & Hi' & Hrev & HC').
    exists E', acc', b'. splits; auto.
    destruct (spec_content_step (b_last b) o ops acc _ Hsc) as (Hsc1 & _). rewrite Hsc1. exact Hrev.
Qed.
End Main.
